//! Smaller campaigns: fault (C11), policy lock-step (C14), projection (C18), names (C17),
//! edge positions (finding F4).
use std::collections::BTreeMap;
use std::path::Path;

use mrecordlog::verif_hooks::Event;

use crate::camp::{finish_pub, CaseResult};
use crate::gen::*;
use crate::ops::*;
use crate::real::*;
use crate::run::*;

/// run a generated history on a runner and return the plain ops applied
fn gen_history(r: &mut Runner, rng: &mut Rng, len: usize, cfg: &GenCfg, pol: Pol) -> Vec<Op> {
    let mut ops = vec![Op::Open(pol)];
    r.apply(&ops[0]);
    let n = len / 2 + rng.below(len as u64) as usize;
    for _ in 0..n {
        if r.dead {
            break;
        }
        let op = gen_op(r, rng, cfg);
        r.apply(&op);
        ops.push(op);
    }
    ops
}

/// C11: an I/O error injected at every list/open/read call of recovery
pub fn case_fault(scratch: &Path, meta: usize, id: &str, seed: u64, len: usize, replay: Option<&Case>) -> CaseResult {
    let mut rng = Rng::new(seed);
    let mut r = Runner::new(scratch.join(id), meta);
    let cfg = GenCfg { allow_reopen: false, big_weight: 8 + rng.below(8), max_queues: 1 + rng.below(3) as usize, ..Default::default() };
    let mut fixed_faults: Vec<Op> = Vec::new();
    if let Some(case) = replay {
        for (_, op) in &case.ops {
            match op {
                Op::FaultOpen { .. } => fixed_faults.push(op.clone()),
                Op::Close | Op::Snapshot | Op::Restore | Op::State | Op::Dir => {}
                Op::Reopen(_) if !fixed_faults.is_empty() => {}
                _ if fixed_faults.is_empty() => {
                    r.apply(op);
                }
                _ => {}
            }
        }
    } else {
        gen_history(&mut r, &mut rng, len, &cfg, Pol::AlwaysFlush);
    }
    if r.dead {
        return finish_pub(r, id, false);
    }
    r.apply(&Op::Close);
    r.apply(&Op::Snapshot);
    r.apply(&Op::Dir);
    // fault-free reference
    let oc = r.apply(&Op::Reopen(Pol::AlwaysFlush));
    let Outcome::OpenOk(n_calls) = oc else {
        return finish_pub(r, id, false);
    };
    r.apply(&Op::State);
    let reference = r.real.obs().map(|o| logical(&o));
    r.apply(&Op::Close);
    // every call index gets one kind drawn from all stable `io::ErrorKind`s and one drawn from
    // the kinds that I/O code is most likely to treat specially (end of file, retry, "no such file")
    let all: Vec<&str> = crate::real::IO_KINDS.iter().map(|(t, _)| *t).collect();
    let special = ["eof", "interrupted", "wouldblock", "notfound", "invaliddata", "timedout", "writezero", "alreadyexists"];
    let faults: Vec<Op> = if replay.is_some() && !fixed_faults.is_empty() {
        fixed_faults
    } else {
        (0..n_calls + 2)
            .flat_map(|n| {
                let a = Op::FaultOpen { pol: Pol::AlwaysFlush, fail: n, forever: rng.chance(1, 2), kind: rng.pick(&all).to_string() };
                let b = Op::FaultOpen { pol: Pol::AlwaysFlush, fail: n, forever: rng.chance(1, 2), kind: rng.pick(&special).to_string() };
                [a, b]
            })
            .collect()
    };
    for op in faults {
        let Op::FaultOpen { fail, forever, ref kind, .. } = op else { continue };
        r.apply(&Op::Restore);
        let ex = r.real.exec(&op);
        r.record(&op, &ex);
        r.stats.inc("fault.injected");
        let ctx = format!("I/O error ({}, {}) injected at call #{} of a recovery that makes {} calls", kind, if forever { "persistent" } else { "transient" }, fail, n_calls);
        match &ex.outcome {
            Outcome::OpenErrIo => {
                if fail >= n_calls {
                    r.violate("C11", format!("{}: open reported an I/O error although the failing call is never made", ctx));
                }
                r.stats.inc("fault.reported");
            }
            Outcome::OpenOk(_) => {
                let st = Op::State;
                let ex2 = r.real.exec(&st);
                r.record(&st, &ex2);
                if fail < n_calls {
                    r.violate("C11", format!("{}: open returned a log instead of an I/O error", ctx));
                } else if r.real.obs().map(|o| logical(&o)) != reference {
                    r.violate("C11", format!("{}: the log differs from the fault-free one", ctx));
                }
                r.real.log = None;
            }
            Outcome::Timeout => {
                r.violate("C11", format!("{}: open did not return within 20 s", ctx));
                r.dead = true;
                break;
            }
            other => {
                r.violate("C11", format!("{}: open returned {:?} instead of an I/O error", ctx, other));
            }
        }
    }
    let nontrivial = n_calls >= 8 && r.stats.get("rollover") >= 1;
    finish_pub(r, id, nontrivial)
}

/// effects up to what the policy may change: syncs erased; the writes summarised by their total
/// size (the order of the GC's empty-queue entries follows the hash map's iteration order, which
/// differs from run to run, so offsets and hashes of individual writes are not comparable)
fn erase_sync(line: &str) -> String {
    let mut total = 0u64;
    let mut rest: Vec<&str> = Vec::new();
    for t in line.split(' ') {
        if t == "FL" || t == "FD" || t.starts_with("FS:") {
            continue;
        }
        if let Some(w) = t.strip_prefix("W:") {
            total += w.split(':').nth(2).and_then(|x| x.parse::<u64>().ok()).unwrap_or(0);
            continue;
        }
        rest.push(t);
    }
    format!("{} bytes={}", rest.join(" "), total)
}

/// (first output line, order token) of every op whose GC pass visited at least two empty queues
fn gc_orders(r: &Runner) -> Vec<(usize, String)> {
    let mut v = Vec::new();
    for (i, a) in r.annot.iter().enumerate() {
        if let Some(tok) = a.split(' ').find_map(|t| t.strip_prefix("order=")) {
            if tok.contains(',') {
                v.push((r.out_idx.get(i).copied().unwrap_or(usize::MAX), tok.to_string()));
            }
        }
    }
    v
}

/// what of an observation line does not depend on the byte layout of the WAL
fn logical_only(line: &str) -> String {
    let toks: Vec<&str> = line.split(' ').collect();
    match line.as_bytes().first() {
        Some(b'R') => match toks.get(1).copied() {
            Some("appended") | Some("truncated") => toks[..toks.len().min(3)].join(" "),
            Some("created") | Some("deleted") => toks[..2].join(" "),
            _ => line.to_string(),
        },
        Some(b'E') | Some(b'F') | Some(b'D') => String::new(),
        Some(b'O') => toks[..toks.len().min(2)].join(" "),
        Some(b'S') => toks.iter().filter(|t| !t.starts_with("ff=")).cloned().collect::<Vec<_>>().join(" "),
        _ => line.to_string(),
    }
}

/// C14: one history under every policy in lock-step
pub fn case_lockstep(scratch: &Path, meta: usize, id: &str, seed: u64, len: usize, replay: Option<&Case>) -> CaseResult {
    let mut rng = Rng::new(seed);
    let cfg = GenCfg { allow_reopen: true, big_weight: 4 + rng.below(8), max_queues: 1 + rng.below(4) as usize, ..Default::default() };
    // base run generates the ops
    let mut base = Runner::new(scratch.join(format!("{}-base", id)), meta);
    let ops: Vec<Op> = match replay {
        Some(case) => {
            let ops: Vec<Op> = case.ops.iter().map(|(_, o)| o.clone()).collect();
            for op in &ops {
                base.apply(op);
            }
            ops
        }
        None => {
            let mut ops = gen_history(&mut base, &mut rng, len, &cfg, Pol::AlwaysFlush);
            for op in [Op::State, Op::Reopen(Pol::AlwaysFlush), Op::State, Op::Dir] {
                base.apply(&op);
                ops.push(op);
            }
            ops
        }
    };
    let base_lines = base.out.clone();
    let base_orders = gc_orders(&base);
    let mut all = finish_pub(base, &format!("{}-always:flush", id), true);
    let pols = [Pol::Nothing, Pol::DelayFlush, Pol::DelayFsync, Pol::DelayNowFlush, Pol::DelayNowFsync, Pol::AlwaysFsync];
    for pol in pols {
        let mut r = Runner::new(scratch.join(format!("{}-{}", id, pol.tok().replace(':', "_"))), meta);
        for op in &ops {
            let op = match op {
                Op::Open(_) => Op::Open(pol),
                Op::Reopen(_) => Op::Reopen(pol),
                o => o.clone(),
            };
            r.apply(&op);
        }
        // compare line by line; mid-history `dir` digests legitimately differ (unflushed bytes)
        let mut last_was_reopen = false;
        if r.out.len() != base_lines.len() {
            r.violate("C14", format!("policy {}: {} observation lines, {} under always:flush", pol.tok(), r.out.len(), base_lines.len()));
        } else {
            // the GC writes the positions of the empty queues in hash-map order, which differs from
            // one log object to the next: once two runs have written >= 2 such entries in different
            // orders, padding at a block end may shift every later offset, byte count and file
            // boundary. From that line on only the LOGICAL observations are compared (the exact
            // bytes are compared per policy with the model, which gets the order as an input)
            let orders = gc_orders(&r);
            let div_line = orders.iter().zip(base_orders.iter()).find(|(a, b)| a.1 != b.1).map(|(a, _)| a.0).unwrap_or(usize::MAX);
            if div_line != usize::MAX {
                all.stats.inc("lockstep.gc_order_diverged");
            }
            let mut viol = None;
            for (i, (a, b)) in r.out.iter().zip(base_lines.iter()).enumerate() {
                let same = if i >= div_line {
                    logical_only(a) == logical_only(b)
                } else {
                    match a.as_bytes().first() {
                        Some(b'E') => erase_sync(a) == erase_sync(b),
                        Some(b'D') => true,
                        _ => a == b,
                    }
                };
                if a.starts_with('O') {
                    last_was_reopen = true;
                } else if !a.starts_with('E') && !a.starts_with('S') && !a.starts_with('F') && !a.starts_with('U') && !a.starts_with('D') {
                    last_was_reopen = false;
                }
                if !same && viol.is_none() {
                    viol = Some(format!("policy {} observes `{}` where always:flush observes `{}`", pol.tok(), &a[..a.len().min(200)], &b[..b.len().min(200)]));
                }
            }
            if let Some(v) = viol {
                r.violate("C14", v);
            }
        }
        all.stats.inc("lockstep.policy_runs");
        let res = finish_pub(r, &format!("{}-{}", id, pol.tok()), true);
        all.annot.push_str(&res.annot);
        all.out.push_str(&res.out);
        all.viol.extend(res.viol);
        all.stats.merge(&res.stats);
    }
    all.id = id.to_string();
    all.plain = Case { id: id.to_string(), ops: ops.into_iter().map(|o| (false, o)).collect() };
    all.nontrivial = all.stats.get("rollover") >= 7;
    all
}

fn addressed(op: &Op, q: &str) -> bool {
    match op {
        Op::Create(n) | Op::Delete(n) => n == q,
        Op::Append { q: n, .. } | Op::Truncate { q: n, .. } | Op::Range { q: n, .. } => n == q,
        Op::Open(_) | Op::Reopen(_) | Op::Persist(_) => true,
        _ => false,
    }
}

/// C18: a history and its projection on each queue (metamorphic, no model involved in the oracle)
pub fn case_projection(scratch: &Path, meta: usize, id: &str, seed: u64, len: usize, replay: Option<&Case>) -> CaseResult {
    let mut rng = Rng::new(seed);
    let mut cfg = GenCfg { allow_reopen: true, big_weight: 4 + rng.below(8), max_queues: 2 + rng.below(3) as usize, ..Default::default() };
    // every fifth history is dominated by metadata (long-named queues, delete / re-create): the GC's
    // position entries then straddle file boundaries while most queues are empty
    if seed % 5 == 3 {
        cfg.create_heavy = true;
        cfg.churn = true;
        cfg.max_queues = 8;
    }
    let mut full = Runner::new(scratch.join(format!("{}-full", id)), meta);
    let mut ops: Vec<Op> = Vec::new();
    // per op: the logical view of every queue after it, and the outcome
    let mut views: Vec<(BTreeMap<String, (Vec<(u64, Vec<u8>)>, u64)>, Outcome)> = Vec::new();
    let src: Vec<Op> = match replay {
        Some(case) => case.ops.iter().map(|(_, o)| o.clone()).collect(),
        None => Vec::new(),
    };
    let n = if replay.is_some() { src.len() } else { 1 + len / 2 + rng.below(len as u64) as usize };
    for i in 0..n {
        if full.dead {
            break;
        }
        let op = if replay.is_some() {
            src[i].clone()
        } else if i == 0 {
            Op::Open(Pol::AlwaysFlush)
        } else {
            gen_op(&full, &mut rng, &cfg)
        };
        if matches!(op, Op::Dir | Op::State) {
            continue;
        }
        let oc = full.apply(&op);
        views.push((full.real.obs().map(|o| logical(&o)).unwrap_or_default(), oc));
        ops.push(op);
    }
    let mut names: Vec<String> = Vec::new();
    for op in &ops {
        if let Op::Create(q) = op {
            if !names.contains(q) {
                names.push(q.clone());
            }
        }
    }
    let mut all = finish_pub(full, &format!("{}-full", id), true);
    for q in &names {
        let mut r = Runner::new(scratch.join(format!("{}-proj", id)), meta);
        for (i, op) in ops.iter().enumerate() {
            if !addressed(op, q) {
                continue;
            }
            let oc = r.apply(op);
            let view = r.real.obs().map(|o| logical(&o)).unwrap_or_default();
            let (fview, foc) = &views[i];
            if view.get(q) != fview.get(q) {
                r.violate("C18", format!("after op#{} `{}` queue {:?} differs between the full history and its projection: {:?} vs {:?}", i, op.line(), q, fview.get(q).map(|x| (x.0.len(), x.1)), view.get(q).map(|x| (x.0.len(), x.1))));
                break;
            }
            if !matches!(op, Op::Open(_) | Op::Reopen(_)) && !crate::spec::same_logical_outcome(&oc, foc) {
                r.violate("C18", format!("op#{} `{}` returns {:?} in the full history and {:?} in the projection on {:?}", i, op.line(), foc, oc, q));
                break;
            }
        }
        all.stats.inc("projection.runs");
        let res = finish_pub(r, &format!("{}-on-{}", id, hex(q.as_bytes())), true);
        all.annot.push_str(&res.annot);
        all.out.push_str(&res.out);
        all.viol.extend(res.viol);
        all.stats.merge(&res.stats);
    }
    all.id = id.to_string();
    all.plain = Case { id: id.to_string(), ops: ops.into_iter().map(|o| (false, o)).collect() };
    all.nontrivial = names.len() >= 2 && all.stats.get("unlink") >= 1;
    all
}

fn hash_tree(dir: &Path, out: &mut BTreeMap<String, String>, prefix: &str) {
    if let Ok(rd) = std::fs::read_dir(dir) {
        for e in rd.flatten() {
            let name = format!("{}{}", prefix, e.file_name().to_string_lossy());
            let ft = e.file_type().unwrap();
            if ft.is_symlink() {
                out.insert(name, format!("symlink:{:?}", std::fs::read_link(e.path()).ok()));
            } else if ft.is_dir() {
                out.insert(name.clone(), "dir".into());
                hash_tree(&e.path(), out, &format!("{}/", name));
            } else {
                let c = std::fs::read(e.path()).unwrap_or_default();
                out.insert(name, format!("file:{}:{}", c.len(), fnv64(&c)));
            }
        }
    }
}

/// C17: foreign directory entries and WAL numbers with gaps
pub fn case_names(scratch: &Path, meta: usize, id: &str, seed: u64, len: usize, replay: Option<&Case>) -> CaseResult {
    let mut rng = Rng::new(seed);
    let mut r = Runner::new(scratch.join(id), meta);
    r.check_c06 = false; // gaps in the numbering are introduced on purpose
    let dir = r.real.dir.clone();
    let cfg = GenCfg { allow_reopen: true, big_weight: 8 + rng.below(8), max_queues: 1 + rng.below(3) as usize, ..Default::default() };
    // foreign entries, present from the very first open
    let foreign: Vec<(String, u8)> = vec![
        ("wal-0000000000000000001".into(), 0),
        ("wal-000000000000000000011".into(), 0),
        ("wal-0000000000000000000a".into(), 0),
        ("xal-00000000000000000001".into(), 0),
        ("WAL-00000000000000000002".into(), 0),
        ("wal-000000000000000000\u{0663}".into(), 0),
        ("wal-00000000000000000001.tmp".into(), 0),
        (".wal-00000000000000000001".into(), 0),
        ("wal_00000000000000000001".into(), 0),
        ("wal-+0000000000000000001".into(), 0),
        ("wal-00000000000000900001".into(), 1),
        ("wal-00000000000000900002".into(), 2),
        ("notes.txt".into(), 0),
        ("subdir".into(), 1),
        // 24 BYTES long, valid UTF-8, a multi-byte character straddling byte 4 / elsewhere
        ("\u{65e5}\u{672c}\u{8a9e}\u{306e}\u{30d5}\u{30a1}\u{30a4}\u{30eb}".into(), 0),
        ("wal\u{e9}0000000000000000001".into(), 0),
        ("wal-\u{e9}\u{e9}\u{e9}\u{e9}\u{e9}\u{e9}\u{e9}\u{e9}\u{e9}\u{e9}".into(), 0),
    ];
    for (name, kind) in &foreign {
        let p = dir.join(name);
        match kind {
            0 => std::fs::write(&p, gen_payload(100 + (fnv64(name.as_bytes()) % 5000) as usize, 7)).unwrap(),
            1 => {
                std::fs::create_dir_all(&p).unwrap();
                std::fs::write(p.join("wal-00000000000000000000"), b"inner").unwrap();
            }
            _ => {
                let _ = std::os::unix::fs::symlink(dir.join("notes.txt"), &p);
            }
        }
    }
    // a file whose name is not valid UTF-8 (24 bytes long, `wal-` prefix)
    {
        use std::os::unix::ffi::OsStrExt;
        let mut raw = b"wal-0000000000000000000".to_vec();
        raw.push(0xff);
        let _ = std::fs::write(dir.join(std::ffi::OsStr::from_bytes(&raw)), b"not utf-8");
    }
    let snapshot_foreign = |dir: &Path| -> BTreeMap<String, String> {
        let mut m = BTreeMap::new();
        hash_tree(dir, &mut m, "");
        m.retain(|k, _| parse_wal_name(k).is_none() || k.starts_with("wal-000000000000009"));
        m
    };
    let before = snapshot_foreign(&dir);
    match replay {
        Some(case) => {
            for (_, op) in &case.ops {
                r.apply(op);
            }
        }
        None => {
            // phase 1: a short history, closed, then the WAL files are renumbered with gaps
            gen_history(&mut r, &mut rng, len / 2, &cfg, Pol::AlwaysFlush);
            if !r.dead {
                r.apply(&Op::State);
                r.apply(&Op::Close);
                let files = r.real.files();
                if files.is_empty() {
                    r.violate("C17", "no regular WAL file is left in the directory after a clean close".to_string());
                    return finish_pub(r, id, false);
                }
                let mut newn: Vec<u64> = Vec::new();
                let mut next = files[0] + rng.below(5);
                for _ in &files {
                    newn.push(next);
                    next += 1 + rng.below(4) * rng.below(3);
                }
                for (old, new) in files.iter().zip(newn.iter()).rev() {
                    if old != new {
                        r.apply(&Op::CopyFile { src: *old, dst: *new });
                        r.apply(&Op::RmFile(*old));
                    }
                }
                r.apply(&Op::Dir);
                // phase 2: reopen on the renumbered directory and continue
                let oc = r.apply(&Op::Reopen(Pol::AlwaysFlush));
                if !matches!(oc, Outcome::OpenOk(_)) {
                    r.violate("C17", format!("open failed on a directory whose WAL numbers have gaps: {:?}", oc));
                }
                r.apply(&Op::State);
                let n = len / 2 + rng.below(len as u64) as usize;
                for _ in 0..n {
                    if r.dead {
                        break;
                    }
                    let op = gen_op(&r, &mut rng, &cfg);
                    r.apply(&op);
                }
                r.apply(&Op::State);
                r.apply(&Op::Reopen(Pol::AlwaysFlush));
                r.apply(&Op::State);
                r.apply(&Op::Dir);
            }
        }
    }
    // last phase (generated runs only): a symlink named exactly like the NEXT WAL file, pointing at a
    // foreign file. The library must not follow it: the roll-over fails (`create_new`), calls may
    // return I/O errors from then on - nothing is compared with the specification here - and the
    // target stays as it is
    if !r.dead && r.real.log.is_some() {
        let next = r.real.cursor.0 + 1;
        let link = dir.join(wal_name(next));
        if !link.exists() && std::os::unix::fs::symlink(dir.join("notes.txt"), &link).is_ok() {
            r.stats.inc("names.symlink_at_next_file");
            let big = Op::Append { q: r.spec.queues.keys().next().cloned().unwrap_or_else(|| "q0".into()), pos: None, payloads: vec![Payload::Gen { len: 60000, seed: 3 }] };
            for _ in 0..4 {
                let ex = r.real.exec(&big);
                if ex.outcome.is_panic() {
                    r.violate("C17", format!("a call panicked with a symlink named like the next WAL file in the directory: {:?}", ex.outcome));
                    break;
                }
            }
            r.real.log = None;
            let _ = std::fs::remove_file(&link);
        }
    }
    let after = snapshot_foreign(&dir);
    if before != after {
        let diff: Vec<String> = before.iter().filter(|(k, v)| after.get(*k) != Some(*v)).map(|(k, _)| k.clone()).chain(after.keys().filter(|k| !before.contains_key(*k)).cloned()).collect();
        r.violate("C17", format!("foreign directory entries were modified, removed or added: {:?}", diff));
    }
    // the library itself only ever created / removed / opened files it tracks
    let touched: Vec<u64> = r.real.all_events.iter().filter_map(|e| match e {
        Event::Create(n) | Event::Unlink(n) | Event::OpenFile(n) if *n >= 900000 => Some(*n),
        _ => None,
    }).collect();
    for n in touched {
        r.violate("C17", format!("the library touched {}, which is not a regular WAL file", wal_name(n)));
    }
    // the same kind of history runs clean in the `ops` campaign: a failure here is caused by the
    // foreign entries or by the gaps in the numbering
    if let Some(v) = r.viol.iter().find(|v| v.prop != "C17").cloned() {
        r.violate("C17", format!("with foreign entries / numbering gaps in the directory the log misbehaves: [{}] {}", v.prop, v.what));
    }
    r.stats.add("names.foreign_entries", foreign.len() as u64);
    let nontrivial = r.stats.get("rollover") >= 1 && r.stats.get("unlink") + r.stats.get("unlink.at_open") >= 1;
    finish_pub(r, id, nontrivial)
}

const EDGE_TAG: &str = "[position bound 2^64-1] ";

/// positions at the top of the u64 range (finding F4). The model's panic-instrumented twins
/// (`Log.stepP` for calls, `recoverP` for open) say exactly which calls overflow: outcomes,
/// effects (what was written before the panic) and states are compared like everywhere else
pub fn case_edge(scratch: &Path, meta: usize, id: &str, seed: u64, _len: usize, replay: Option<&Case>) -> CaseResult {
    let mut rng = Rng::new(seed);
    let mut r = Runner::new(scratch.join(id), meta);
    let max = u64::MAX;
    let ops: Vec<Op> = match replay {
        Some(case) => case.ops.iter().map(|(_, o)| o.clone()).collect(),
        None => {
            let mut v = vec![Op::Open(Pol::AlwaysFlush), Op::Create("q".into())];
            for _ in 0..(2 + rng.below(4)) {
                let p = max - rng.below(4);
                let n = rng.below(4) as usize;
                let payloads: Vec<Payload> = (0..n).map(|i| Payload::Gen { len: 3, seed: i as u64 }).collect();
                v.push(match rng.below(4) {
                    0 => Op::Truncate { q: "q".into(), pos: p },
                    1 => Op::Append { q: "q".into(), pos: Some(p), payloads },
                    2 => Op::Append { q: "q".into(), pos: None, payloads },
                    _ => Op::State,
                });
            }
            v.push(Op::Reopen(Pol::AlwaysFlush));
            v
        }
    };
    let mut extreme = false;
    for op in &ops {
        match op {
            // automatic positions continue from there and reach 2^64-1 a few calls later
            Op::Truncate { pos, .. } if *pos >= max - 16 => extreme = true,
            Op::Append { pos: Some(p), .. } if *p >= max - 16 => extreme = true,
            _ => {}
        }
        let tag = if extreme { EDGE_TAG } else { "" };
        if r.real.log.is_none() && !matches!(op, Op::Open(_) | Op::Reopen(_)) {
            // nothing can be done on a dropped log until the next reopen
            continue;
        }
        let ex = r.real.exec(op);
        r.record(op, &ex);
        r.stats.inc("edge.ops");
        if let Outcome::Panic(msg) | Outcome::OpenPanic(msg) = &ex.outcome {
            let prop = if matches!(op, Op::Open(_) | Op::Reopen(_)) { "C10" } else { "C05" };
            r.violate(prop, format!("{}`{}` panicked: {}", tag, op.line(), msg));
            // the library object may be inconsistent after a panic: drop it
            r.real.log = None;
        } else if matches!(ex.outcome, Outcome::Timeout) {
            r.violate("C10", format!("{}`{}` did not return", tag, op.line()));
            break;
        }
    }
    if r.real.log.is_some() {
        let st = Op::State;
        let ex = r.real.exec(&st);
        r.record(&st, &ex);
    }
    finish_pub(r, id, true)
}

/// C10 on WAL files LONGER than the nominal size (a file extended by whole blocks of valid
/// frames, as left by a concatenation or a duplicated block appended to it): the reader follows
/// the data beyond the nominal end, the writer resumes there. The GC pass of `open` then writes
/// its position entries from an offset beyond the file size.
pub fn case_oversize(scratch: &Path, meta: usize, id: &str, seed: u64, _len: usize, replay: Option<&Case>) -> CaseResult {
    let mut rng = Rng::new(seed);
    let mut r = Runner::new(scratch.join(id), meta);
    r.check_c06 = false;
    let mut post: Vec<Op> = Vec::new();
    if let Some(case) = replay {
        let mut seen_close = false;
        for (_, op) in &case.ops {
            if seen_close {
                post.push(op.clone());
            } else {
                if matches!(op, Op::Close) {
                    seen_close = true;
                }
                r.apply(op);
            }
        }
    } else {
        let long: String = {
            let len = *rng.pick(&[300usize, 20000, 32760, 33000, 40000, 65000]);
            (0..len).map(|_| (b'a' + rng.below(26) as u8) as char).collect()
        };
        r.apply(&Op::Open(Pol::AlwaysFlush));
        r.apply(&Op::Create(long.clone()));
        r.apply(&Op::Create("q1".into()));
        // the record that pins file 0 while the log is live; its (first) frame is damaged below.
        // It belongs to the long-named queue, the only queue left empty: the order of the GC's
        // position entries (hash-map order) plays no role
        let pin_at = r.real.cursor;
        r.apply(&Op::Append { q: long.clone(), pos: None, payloads: vec![Payload::Gen { len: 5 + rng.below(40) as usize, seed: rng.below(1000) }] });
        let mut guard = 0;
        while r.real.cursor.0 == 0 && guard < 400 && !r.dead {
            let len = if rng.chance(1, 8) { 20000 + rng.below(30000) as usize } else { rng.below(7000) as usize };
            r.apply(&Op::Append { q: "q1".into(), pos: None, payloads: vec![Payload::Gen { len, seed: rng.below(1_000_000) }] });
            guard += 1;
        }
        // everything of q1 in file 0 goes; file 0 stays because of the pinning record
        let next = r.spec.queues.get("q1").map(|s| s.next).unwrap_or(0);
        r.apply(&Op::Truncate { q: "q1".into(), pos: next.saturating_sub(1) });
        // fill file 1 up to its last block, then end the tape 0..6 bytes before the end of the file
        while r.real.cursor.0 == 1 && (r.real.cursor.1 < FILE - BLOCK || BLOCK - r.real.cursor.1 % BLOCK < 300) && guard < 800 && !r.dead {
            let room = FILE - r.real.cursor.1;
            let len = if room > 3 * BLOCK { rng.below(9000) as usize } else { rng.below(200) as usize };
            r.apply(&Op::Append { q: "q1".into(), pos: None, payloads: vec![Payload::Gen { len, seed: rng.below(1_000_000) }] });
            guard += 1;
        }
        if r.real.cursor.0 != 1 || r.dead {
            return finish_pub(r, id, false);
        }
        let left0 = rng.below(7) as i64;
        let len = len_for_room(r.real.cursor.1, 2, 1, left0 - 7);
        r.apply(&Op::Append { q: "q1".into(), pos: None, payloads: vec![Payload::Gen { len, seed: rng.below(1_000_000) }] });
        r.apply(&Op::State);
        r.apply(&Op::Close);
        if r.real.cursor.0 != 1 {
            return finish_pub(r, id, false);
        }
        // damage 1: that record no longer passes its checksum -> nothing pins file 0
        let f0 = std::fs::read(r.real.dir.join(wal_name(pin_at.0))).unwrap_or_default();
        let at = pin_at.1 as usize + 7 + 3;
        if at < f0.len() {
            post.push(Op::Poke { file: pin_at.0, off: at as u64, data: vec![f0[at] ^ 0x40] });
        }
        // damage 2: file 1 grows by 1-2 blocks of valid frames: no-op truncations and one record,
        // leaving `left` bytes in the last block
        let next = r.spec.queues.get("q1").map(|s| s.next).unwrap_or(0);
        let extra = 1 + rng.below(2);
        let left = *rng.pick(&[0u64, 1, 3, 4, 6, 6, 7, 8, 100]);
        let trunc_entry = |q: &str| -> Vec<u8> {
            let mut e = vec![1u8];
            e.extend_from_slice(&0u64.to_le_bytes());
            e.extend_from_slice(&(q.len() as u16).to_le_bytes());
            e.extend_from_slice(q.as_bytes());
            e
        };
        let mut entries: Vec<Vec<u8>> = (0..(200 + rng.below(400))).map(|_| trunc_entry("q1")).collect();
        let used: u64 = entries.iter().map(|e| 7 + e.len() as u64).sum();
        // one single-frame record per remaining block; the last one sized to leave `left` bytes
        let mut pos = next;
        let mut cur = used;
        for b in 0..extra {
            let room = BLOCK * (b + 1) - cur;
            let keep = if b + 1 == extra { left } else { 0 };
            let plen = room - keep - 7 - 13 - 12;
            let mut e = vec![4u8];
            e.extend_from_slice(&pos.to_le_bytes());
            e.extend_from_slice(&2u16.to_le_bytes());
            e.extend_from_slice(b"q1");
            e.extend_from_slice(&pos.to_le_bytes());
            e.extend_from_slice(&(plen as u32).to_le_bytes());
            e.extend((0..plen).map(|i| (i as u8).wrapping_mul(31).wrapping_add(pos as u8)));
            entries.push(e);
            pos += 1;
            cur = BLOCK * (b + 1) - keep;
        }
        let (bytes, _) = mrecordlog::verif_codec::write_entries(&entries);
        post.push(Op::SetLenFile { file: 1, len: FILE + extra * BLOCK });
        post.push(Op::Poke { file: 1, off: FILE, data: bytes });
        post.push(Op::Dir);
        post.push(Op::Reopen(Pol::AlwaysFlush));
        post.push(Op::State);
        // the recovered log is used: a record bigger than a block, a small one, a restart
        post.push(Op::Append { q: "q1".into(), pos: None, payloads: vec![Payload::Gen { len: 40000, seed: 7 }] });
        post.push(Op::Append { q: "q1".into(), pos: None, payloads: vec![Payload::Gen { len: 10, seed: 8 }] });
        post.push(Op::State);
        post.push(Op::Reopen(Pol::AlwaysFlush));
        post.push(Op::State);
        r.stats.inc(&format!("oversize.left.{}", left));
    }
    let mut opened = false;
    for op in &post {
        let ctx = format!("WAL file extended beyond its nominal size by whole blocks of valid frames; `{}`", { let l = op.line(); l[..l.len().min(60)].to_string() });
        if r.real.log.is_none() && !matches!(op, Op::Open(_) | Op::Reopen(_) | Op::Poke { .. } | Op::SetLenFile { .. } | Op::Dir | Op::Close) {
            continue;
        }
        let ex = r.real.exec(op);
        r.record(op, &ex);
        match (&op, &ex.outcome) {
            (Op::Open(_) | Op::Reopen(_), Outcome::OpenPanic(msg)) => {
                r.violate("C10", format!("{}: open panicked: {}", ctx, msg));
                r.real.log = None;
            }
            (Op::Open(_) | Op::Reopen(_), Outcome::Timeout) => {
                r.violate("C10", format!("{}: open did not return", ctx));
                break;
            }
            (Op::Open(_) | Op::Reopen(_), Outcome::OpenOk(_)) => {
                opened = true;
                r.stats.inc("oversize.opened");
            }
            (_, Outcome::Panic(msg)) => {
                r.violate("C10", format!("{}: a call on the log returned by open panicked: {}", ctx, msg));
                r.real.log = None;
            }
            _ => {}
        }
    }
    finish_pub(r, id, opened)
}
