//! Crash campaign: a history is run on the real library with the effect trace on; the trace is
//! turned into the sequence of OS-level operations through the `BufWriter` model; for chosen
//! prefixes of that sequence (the last write possibly cut at any byte) the directory image is
//! materialised and opened with the real library. Oracle: the recovered state is the state after
//! some prefix of the calls, no older than the last persist point (C02, C03), batches are whole
//! (C12), positions do not regress (C04); then a continuation history and a restart (C02).
use std::path::Path;

use mrecordlog::verif_hooks::Event;

use crate::camp::CaseResult;
use crate::gen::*;
use crate::ops::*;
use crate::real::*;
use crate::run::*;
use crate::spec::*;

pub struct CrashCfg {
    pub pols: Vec<Pol>,
    pub max_points: usize,
    pub cont_every: u64,
    /// inject an I/O error at every call of the recovery of some crash images (C11)
    pub fault_sweeps: bool,
    /// one case in `create_heavy_den` is dominated by create_queue calls with long names
    pub create_heavy_den: u64,
}

struct CallInfo {
    /// number of OS ops emitted once the call returned
    os_end: usize,
    /// spec after the call
    spec: Spec,
    /// everything handed to the writer so far has reached the OS when the call returned
    flushed: bool,
    /// what the API promises once this call has returned: 0 nothing, 1 reached the OS
    /// (survives a process crash), 2 reached stable storage (survives a power loss)
    promise: u8,
    op: Op,
}

/// the durability the API promises for a call that returned `oc` under policy `pol`
fn promise_of(op: &Op, oc: &Outcome, pol: Pol) -> u8 {
    match (op, oc) {
        (Op::Create(_), Outcome::Created(_)) | (Op::Delete(_), Outcome::Deleted(_)) => 2,
        (Op::Persist(true), Outcome::Persisted) => 2,
        (Op::Persist(false), Outcome::Persisted) => 1,
        (Op::Append { .. }, Outcome::Appended(Some(_), _)) | (Op::Truncate { .. }, Outcome::Truncated(_, _)) => {
            if pol.fsync_per_op() {
                2
            } else if pol.flush_per_op() {
                1
            } else {
                0
            }
        }
        _ => 0,
    }
}

fn is_suffix(small: &[(u64, Vec<u8>)], big: &[(u64, Vec<u8>)]) -> bool {
    small.len() <= big.len() && big[big.len() - small.len()..] == *small
}

/// `rec` is `before` with call `op` (truncate / delete) partially applied to its queue
fn partial_head(op: &Op, before: &Logical, rec: &Logical) -> bool {
    let (q, keep_above) = match op {
        Op::Truncate { q, pos } => (q, Some(*pos)),
        Op::Delete(q) => (q, None),
        _ => return false,
    };
    if before.len() != rec.len() {
        return false;
    }
    for (name, b) in before {
        let Some(r) = rec.get(name) else { return false };
        if name != q {
            if r != b {
                return false;
            }
            continue;
        }
        if r.1 != b.1 || !is_suffix(&r.0, &b.0) {
            return false;
        }
        if let Some(p) = keep_above {
            let kept = b.0.iter().filter(|(pos, _)| *pos > p).count();
            if r.0.len() < kept {
                return false;
            }
        }
    }
    true
}

struct MainRun {
    os: Vec<OsOp>,
    calls: Vec<CallInfo>,
    pol: Pol,
}

/// run the main-line history: generated (`fixed = None`) or replayed
fn run_main(r: &mut Runner, rng: &mut Rng, len: usize, cfg: &CrashCfg, fixed: Option<&[Op]>) -> MainRun {
    let mut pol = *rng.pick(&cfg.pols);
    let create_heavy = rng.chance(1, cfg.create_heavy_den);
    // a sixth of the create-heavy cases make nothing but queues: no record ever pins a file, no
    // call collects files, so recovery itself finds the files to reclaim
    let create_only = create_heavy && rng.chance(1, 2);
    let gcfg = GenCfg {
        allow_reopen: rng.chance(1, 3),
        reopen_pols: vec![pol],
        big_weight: 5 + rng.below(8),
        max_queues: if create_only { 1000 } else if create_heavy { 16 } else { 1 + rng.below(4) as usize },
        allow_rejected: rng.chance(1, 2),
        create_heavy,
        ..Default::default()
    };
    let mut bm = BufModel::default();
    let mut os: Vec<OsOp> = Vec::new();
    let mut calls: Vec<CallInfo> = Vec::new();
    let mut seen_events = 0usize;
    // the image rebuilt from the hook trace through the BufWriter model, kept in step with the
    // calls and compared with what the directory REALLY holds: every crash image below is derived
    // from the trace, so a write, seek, set_len or flush that the hooks do not see must show here
    let mut trace_img: Img = Img::new();
    let mut applied_os = 0usize;
    let mut ncall = 0usize;
    let mut step = |r: &mut Runner, op: Op, bm: &mut BufModel, os: &mut Vec<OsOp>, calls: &mut Vec<CallInfo>| {
        let oc = r.apply(&op);
        let mut sync_mismatch: Option<String> = None;
        for e in &r.real.all_events[seen_events..] {
            bm.step(e, os);
            while applied_os < os.len() {
                apply_os(&mut trace_img, &os[applied_os], None);
                applied_os += 1;
            }
            // what the OS really held when an fsync was issued (hook H5 reads it back) against what
            // the trace says it held: a flush that is reported but happens later, a write on another
            // handle or offset, a file created or removed around the directory sync
            match e {
                Event::SyncedContent { file, len, fnv } => {
                    let exp = trace_img.get(file);
                    let ok = exp.map(|c| c.len() as u64 == *len && fnv64(c) == *fnv).unwrap_or(false);
                    if !ok && sync_mismatch.is_none() {
                        let at = exp.map(|c| c.len()).unwrap_or(0);
                        sync_mismatch = Some(format!("at the fsync of file {} the OS held {} bytes (hash {}), the trace implies {} bytes (hash {})", file, len, fnv, at, exp.map(|c| fnv64(c)).unwrap_or(0)));
                    }
                    r.stats.inc("crash.sync_content_compared");
                }
                Event::SyncedDir(files) => {
                    let exp: Vec<u64> = trace_img.keys().copied().collect();
                    if *files != exp && sync_mismatch.is_none() {
                        sync_mismatch = Some(format!("at the fsync of the directory it held the WAL files {:?}, the trace implies {:?}", files, exp));
                    }
                }
                _ => {}
            }
        }
        seen_events = r.real.all_events.len();
        if let Some(what) = sync_mismatch {
            r.violate("*", format!("during `{}`: {} (an operation between two hooks that the hooks do not see, e.g. a flush reported before the sync but performed after it)", { let l = op.line(); l[..l.len().min(60)].to_string() }, what));
        }
        ncall += 1;
        if !r.dead && r.real.log.is_some() && (trace_img.len() <= 6 || ncall % 8 == 0) {
            let disk: Vec<(u64, Vec<u8>)> = read_dir_image(&r.real.dir);
            let from_trace: Vec<(u64, Vec<u8>)> = trace_img.iter().map(|(f, c)| (*f, c.clone())).collect();
            r.stats.inc("crash.dir_vs_trace_compared");
            if disk != from_trace {
                let what = disk.iter().zip(from_trace.iter()).find(|(a, b)| a != b).map(|(a, b)| {
                    let at = a.1.iter().zip(b.1.iter()).position(|(x, y)| x != y).unwrap_or(a.1.len().min(b.1.len()));
                    format!("file {} (disk {} bytes) vs file {} (trace {} bytes), first difference at offset {}", a.0, a.1.len(), b.0, b.1.len(), at)
                }).unwrap_or_else(|| format!("{} files on disk, {} in the trace image", disk.len(), from_trace.len()));
                r.violate("*", format!("after `{}` the directory differs from the image rebuilt from the hook trace (a write, seek, set_len or flush the hooks do not see): {}", { let l = op.line(); l[..l.len().min(60)].to_string() }, what));
            }
        }
        if !matches!(op, Op::State | Op::Dir | Op::Range { .. }) {
            let promise = promise_of(&op, &oc, r.real.pol);
            calls.push(CallInfo { os_end: os.len(), spec: r.spec.clone(), flushed: bm.is_empty(), promise, op });
        }
    };
    match fixed {
        Some(ops) => {
            for op in ops {
                if let Op::Open(p) = op {
                    pol = *p;
                }
                step(r, op.clone(), &mut bm, &mut os, &mut calls);
            }
        }
        None => {
            let n = len / 2 + rng.below(len as u64) as usize;
            step(r, Op::Open(pol), &mut bm, &mut os, &mut calls);
            for _ in 0..n {
                if r.dead {
                    break;
                }
                let op = gen_op(r, rng, &gcfg);
                if matches!(op, Op::Dir | Op::Range { .. }) {
                    continue;
                }
                step(r, op, &mut bm, &mut os, &mut calls);
            }
            r.apply(&Op::State);
        }
    }
    MainRun { os, calls, pol }
}

pub fn case_crash(scratch: &Path, meta: usize, id: &str, seed: u64, len: usize, cfg: &CrashCfg, replay: Option<&Case>) -> CaseResult {
    let mut rng = Rng::new(seed);
    let mut r = Runner::new(scratch.join(id), meta);
    // replay: main-line ops up to the first crash point; then (crash, continuation ops) groups
    let mut fixed_main: Option<Vec<Op>> = None;
    let mut fixed_points: Vec<(usize, usize, Vec<Op>)> = Vec::new();
    let mut fixed_instants: std::collections::BTreeMap<(usize, usize), usize> = Default::default();
    if let Some(case) = replay {
        let mut main = Vec::new();
        for (side, op) in &case.ops {
            match op {
                Op::Crash { k, cut, instant, undone, .. } => {
                    // power-loss points carry the number of undone unlinks in the `cut` slot
                    let cut = if instant.is_some() { undone } else { cut };
                    fixed_points.push((*k, *cut, Vec::new()));
                    if let Some(i) = instant {
                        fixed_instants.insert((*k, *cut), *i);
                    }
                }
                _ if *side => {
                    if let Some(last) = fixed_points.last_mut() {
                        last.2.push(op.clone());
                    }
                }
                _ if fixed_points.is_empty() => main.push(op.clone()),
                _ => {}
            }
        }
        fixed_main = Some(main);
    }
    let MainRun { os, calls, pol } = run_main(&mut r, &mut rng, len, cfg, fixed_main.as_deref());
    let main_dead = r.dead;

    // frame boundaries inside OS writes: offsets where a traced write event starts
    let mut event_starts: std::collections::BTreeSet<(u64, u64)> = Default::default();
    for e in &r.real.all_events {
        if let Event::Write { file, off, .. } = e {
            event_starts.insert((*file, *off));
        }
    }

    // candidate crash points
    let mut points: Vec<(usize, usize, u8)> = Vec::new(); // (k, cut, class)
    for (k, op) in os.iter().enumerate() {
        match op {
            OsOp::Write { file, off, data } => {
                points.push((k, 0, 0));
                let len = data.len();
                let mut cuts: Vec<usize> = vec![1, 3, 4, 6, 7, 8, len / 2, len.saturating_sub(1)];
                // around every frame start inside this OS write
                for (f, o) in event_starts.range((*file, *off)..(*file, *off + len as u64)) {
                    let rel = (*o - *off) as usize;
                    let _ = f;
                    for d in [0usize, 1, 4, 6, 7, 8] {
                        cuts.push(rel + d);
                    }
                }
                cuts.retain(|c| *c > 0 && *c < len);
                cuts.sort();
                cuts.dedup();
                for c in cuts {
                    points.push((k, c, 1));
                }
            }
            OsOp::Create(_) | OsOp::SetLen(_, _) | OsOp::EnsureLen(_, _) | OsOp::Unlink(_) => points.push((k, 0, 2)),
            OsOp::SyncFile(_) | OsOp::SyncDir => {}
        }
    }
    points.push((os.len(), 0, 0));
    // sample: all class-2 points (file creation / removal windows), a random subset of the others
    let mut chosen: Vec<(usize, usize, u8)> = points.iter().filter(|p| p.2 == 2).cloned().collect();
    if chosen.len() > cfg.max_points / 2 {
        let keep = cfg.max_points / 2;
        while chosen.len() > keep {
            let i = rng.below(chosen.len() as u64) as usize;
            chosen.swap_remove(i);
        }
    }
    let others: Vec<(usize, usize, u8)> = points.iter().filter(|p| p.2 != 2).cloned().collect();
    for _ in 0..cfg.max_points.saturating_sub(chosen.len()).min(others.len()) {
        chosen.push(others[rng.below(others.len() as u64) as usize]);
    }
    // power-loss variants: the stable image is the prefix of the OS operations up to the last
    // fsync before the crash instant (ordered persistence); class 3 carries the crash instant
    let mut power: Vec<(usize, usize, usize)> = Vec::new(); // (prefix = crash instant, crash instant, 0)
    for (k, _, _) in chosen.clone() {
        if rng.chance(1, 2) && k > 0 {
            power.push((k, k, 0));
        }
    }
    // the same instants with the last 1 / some / all of the pending unlinks undone (directory
    // operations persist in order, an unlink is durable only after the next fsync of the directory)
    let mut more: Vec<(usize, usize, usize)> = Vec::new();
    for (k, i, _) in &power {
        let pend = pending_unlinks(&os, *i);
        if pend > 0 {
            more.push((*k, *i, 1));
            more.push((*k, *i, pend));
            if pend > 2 {
                more.push((*k, *i, 1 + rng.below(pend as u64 - 1) as usize));
            }
        }
    }
    // instants right after each unlink and right after the fsync(file) that follows a GC pass
    for (i, op) in os.iter().enumerate() {
        if matches!(op, OsOp::SyncFile(_)) {
            let pend = pending_unlinks(&os, i + 1);
            if pend > 0 && rng.chance(1, 2) {
                more.push((i + 1, i + 1, pend));
                more.push((i + 1, i + 1, 1 + rng.below(pend as u64) as usize));
            }
        }
    }
    power.extend(more);
    power.sort();
    power.dedup();
    chosen.sort();
    chosen.dedup();
    if replay.is_some() && fixed_points.is_empty() && points.len() <= 1500 {
        // a stored history without explicit crash points: every candidate point
        chosen = points.clone();
        chosen.sort();
        chosen.dedup();
    }
    let mut fixed_conts: std::collections::BTreeMap<(usize, usize), Vec<Op>> = Default::default();
    if replay.is_some() && !fixed_points.is_empty() {
        chosen = fixed_points.iter().map(|(k, cut, _)| (*k, *cut, 0u8)).collect();
        chosen.sort();
        chosen.dedup();
        for (k, cut, ops) in fixed_points {
            fixed_conts.insert((k, cut), ops);
        }
    }

    // walk the OS ops once, materialising each chosen image
    let mut base: Img = Img::new();
    let mut applied = 0usize;
    let empty_spec = Spec::default();
    let flush_per_op = pol.flush_per_op();
    if main_dead {
        chosen.clear();
    }
    // merge: (prefix length, cut, class, crash instant); class 3 = power loss
    let mut pts: Vec<(usize, usize, u8, usize)> = chosen
        .iter()
        .map(|(k, cut, class)| match fixed_instants.get(&(*k, *cut)) {
            Some(i) => (*k, *cut, 3u8, *i),
            None => (*k, *cut, *class, *k),
        })
        .collect();
    if replay.is_none() || fixed_conts.is_empty() {
        pts.extend(power.iter().map(|(kept, instant, undone)| (*kept, *undone, 3u8, *instant)));
    }
    pts.sort();
    pts.dedup();
    for (k, cut, class, instant) in pts {
        while applied < k {
            apply_os(&mut base, &os[applied], None);
            applied += 1;
        }
        let mut img = base.clone();
        let undone = if class == 3 { cut } else { 0 };
        let cut = if class == 3 { 0 } else { cut };
        if cut > 0 {
            apply_os(&mut img, &os[k], Some(cut));
        }
        let (mut pdrop, mut pzero) = (Vec::new(), Vec::new());
        if class == 3 {
            let (pimg, d, z) = power_loss_image(&os, instant, undone);
            if undone > 0 {
                r.stats.inc("crash.power_loss.undone_unlinks");
            }
            img = pimg;
            pdrop = d;
            pzero = z;
        }
        let img_vec: Vec<(u64, Vec<u8>)> = img.iter().map(|(f, c)| (*f, c.clone())).collect();
        let mut side = Runner::new(scratch.join(format!("{}-side", id)), meta);
        side.prefix = "c:";
        side.check_c06 = false;
        write_image(&side.real.dir, &img_vec);
        let (oc, evs) = side.real.open(Pol::AlwaysFlush, None);
        // the `crash` line is a main-line op for the model driver
        let crash_op = Op::Crash { k, cut, pol: Pol::AlwaysFlush, instant: if class == 3 { Some(instant) } else { None }, drop: pdrop.clone(), zero: pzero.clone(), fail: None, undone };
        r.ops.push((false, crash_op.clone()));
        r.annot.push(format!("{} order={}", crash_op.line(), gc_order(&evs)));
        r.out.push(dir_line(&img_vec));
        r.out.push(oc.line());
        r.stats.inc("crash.points");
        r.stats.inc(match class {
            3 => "crash.class.power_loss",
            2 => "crash.class.file_create_remove_window",
            1 => "crash.class.inside_write",
            _ => "crash.class.op_boundary",
        });
        // calls: completed = all OS ops of the call are in the prefix; in flight = the next one
        let power_loss = class == 3;
        let completed = calls.iter().take_while(|c| c.os_end <= instant).count();
        // lower bound: the last call whose return promised this kind of durability
        let need = if power_loss { 2 } else { 1 };
        let lo = calls.iter().enumerate().take(completed).filter(|(_, c)| c.promise >= need).map(|(i, _)| i + 1).last().unwrap_or(0);
        let _ = calls.iter().filter(|c| c.flushed).count();
        let hi = (completed + 1).min(calls.len());
        let ctx = if power_loss {
            format!("power loss after {} OS ops, stable image = per file the content at its last fdatasync, files whose creation was directory-fsynced (policy {}, calls completed {}, fsync-persisted {}, started {})", instant, pol.tok(), completed, lo, hi)
        } else {
            format!("crash after {} OS ops + {} bytes (policy {}, calls completed {}, persisted {}, started {})", k, cut, pol.tok(), completed, lo, hi)
        };
        match &oc {
            Outcome::OpenOk(_) => {
                r.out.push(effects_line(&evs));
                if evs.iter().any(|e| matches!(e, Event::Write { .. })) {
                    r.stats.inc("crash.recovery_gc_wrote");
                }
                // an open_file after the last block read is the roll-over of recovery's own GC pass
                // into a file that already exists
                let last_read = evs.iter().rposition(|e| matches!(e, Event::ReadBlock(_))).unwrap_or(0);
                if evs[last_read..].iter().any(|e| matches!(e, Event::OpenFile(_))) {
                    r.stats.inc("crash.recovery_gc_rolled_into_existing_file");
                }
                let obs = side.real.obs().unwrap();
                let rec = logical(&obs);
                let spec_at = |j: usize| -> &Spec { if j == 0 { &empty_spec } else { &calls[j - 1].spec } };
                let mut matched: Option<usize> = None;
                for j in (lo..=hi).rev() {
                    if spec_at(j).logical() == rec {
                        matched = Some(j);
                        break;
                    }
                }
                let mut partial = false;
                if matched.is_none() {
                    for j in lo..hi {
                        if partial_head(&calls[j].op, &spec_at(j).logical(), &rec) {
                            matched = Some(j);
                            partial = true;
                            r.stats.inc("crash.partial_head");
                            break;
                        }
                    }
                }
                if matched.is_none() {
                    // is it at least *some* earlier state? (then it is a durability failure)
                    let older = (0..lo).rev().find(|j| spec_at(*j).logical() == rec);
                    let what = match older {
                        Some(j) => format!("{}: recovered the state after {} calls, older than the last persisted call {}", ctx, j, lo),
                        None => format!("{}: recovered state is not the state after any prefix of the calls in [{}, {}]: {}", ctx, lo, hi, diff_logical(&rec, &spec_at(completed.min(hi)).logical())),
                    };
                    r.violate("C03", what.clone());
                    if flush_per_op && !power_loss {
                        r.violate("C02", what);
                    }
                }
                // C12: batches are whole or absent (up to a truncated head); only batches whose
                // queue incarnation is still the current one at the crash are compared by position
                for (j, c) in calls.iter().enumerate().take(hi) {
                    if let Op::Append { q, payloads, .. } = &c.op {
                        if payloads.len() < 2 {
                            continue;
                        }
                        let before = spec_at(j);
                        let after = &c.spec;
                        let (Some(bq), Some(aq)) = (before.queues.get(q), after.queues.get(q)) else { continue };
                        if aq.recs.len() != bq.recs.len() + payloads.len() {
                            continue;
                        }
                        let same_incarnation = (j + 1..=hi).all(|x| spec_at(x).queues.get(q).map(|s| s.incarnation) == Some(aq.incarnation));
                        if !same_incarnation {
                            continue;
                        }
                        let batch = &aq.recs[bq.recs.len()..];
                        if let Some(rq) = rec.get(q) {
                            let present: Vec<bool> = batch.iter().map(|b| rq.0.contains(b)).collect();
                            // a suffix pattern: false* true*
                            let first_true = present.iter().position(|p| *p).unwrap_or(present.len());
                            if present[first_true..].iter().any(|p| !*p) {
                                r.violate("C12", format!("{}: batch appended by call {} (`{}`) recovered with a hole or a missing tail: {:?}", ctx, j, c.op.line(), present));
                            }
                            // a missing HEAD is legitimate only where a truncation removed it: a head
                            // record that the history still retains after every started call must be
                            // there whenever a later record of its batch is
                            if first_true > 0 && first_true < present.len() {
                                if let Some(sq) = spec_at(hi).queues.get(q) {
                                    if batch[..first_true].iter().any(|b| sq.recs.contains(b)) {
                                        r.violate("C12", format!("{}: batch appended by call {} (`{}`) recovered without its head although no truncation removed it: {:?}", ctx, j, c.op.line(), present));
                                    }
                                }
                            }
                            r.stats.inc("c12.batches_checked");
                        }
                    }
                }
                // C04: next positions never below the persisted ones
                let persisted = spec_at(lo);
                for (name, pq) in &persisted.queues {
                    let stable = (lo..=hi).all(|j| spec_at(j).queues.get(name).map(|q| q.incarnation) == Some(pq.incarnation));
                    if stable {
                        match rec.get(name) {
                            Some(rq) if rq.1 >= pq.next => {}
                            other => r.violate("C04", format!("{}: queue {:?} had next position {} persisted, recovery gives {:?}", ctx, name, pq.next, other.map(|x| x.1))),
                        }
                    }
                }
                // continuation: the recovered log must be fully usable
                if let Some(j) = matched {
                    let fixed_cont = fixed_conts.get(&(k, if class == 3 { undone } else { cut })).cloned();
                    let do_cont = match &fixed_cont {
                        Some(ops) => !ops.is_empty(),
                        None => replay.is_some() || rng.chance(1, cfg.cont_every),
                    };
                    if do_cont {
                        side.spec = spec_at(j).clone();
                        if partial {
                            // rebuild the spec from what was observed
                            for (name, (recs, next)) in &rec {
                                if let Some(sq) = side.spec.queues.get_mut(name) {
                                    sq.recs = recs.clone();
                                    sq.next = *next;
                                    sq.files = vec![0; recs.len()];
                                }
                            }
                        }
                        side.real.all_events.clear();
                        if let Some(ops) = fixed_cont {
                            for op in &ops {
                                side.apply(op);
                            }
                        } else {
                            side.apply(&Op::State);
                            let ccfg = GenCfg { allow_reopen: false, max_queues: 3, big_weight: 10, ..Default::default() };
                            for _ in 0..(3 + rng.below(6)) {
                                let op = gen_op(&side, &mut rng, &ccfg);
                                side.apply(&op);
                            }
                            side.apply(&Op::State);
                            side.apply(&Op::Reopen(Pol::AlwaysFlush));
                            side.apply(&Op::State);
                            side.apply(&Op::Dir);
                        }
                        r.stats.inc("crash.continuations");
                        // oracle failures of the continuation are C02 failures ("fully usable")
                        for v in side.viol.drain(..) {
                            r.violate("C02", format!("{}; continuation: [{}] {}", ctx, v.prop, v.what));
                        }
                    }
                }
                // the continuation's lines come before the fault sweep of the same image
                r.ops.extend(side.ops.drain(..));
                r.annot.extend(side.annot.drain(..));
                r.out.extend(side.out.drain(..));
                // C11 on crash images: an I/O error at any list/open/read call of this recovery
                // (including the open_file of a roll-over made by its GC pass) must be reported
                if let Outcome::OpenOk(io_calls) = &oc {
                    if replay.is_none() && cfg.fault_sweeps && (class == 2 && rng.chance(1, 3) || rng.chance(1, 40)) {
                        for n in 0..*io_calls {
                            write_image(&side.real.dir, &img_vec);
                            side.real.log = None;
                            let plan = mrecordlog::verif_hooks::FaultPlan { fail_at: n, forever: rng.chance(1, 2), kind: crate::real::IO_KINDS[(n as usize + k) % crate::real::IO_KINDS.len()].1 };
                            let (foc, fevs) = side.real.open(Pol::AlwaysFlush, Some(plan));
                            let fop = Op::Crash { k, cut, pol: Pol::AlwaysFlush, instant: if class == 3 { Some(instant) } else { None }, drop: pdrop.clone(), zero: pzero.clone(), fail: Some(n), undone };
                            r.ops.push((false, fop.clone()));
                            r.annot.push(format!("{} order={}", fop.line(), gc_order(&fevs)));
                            r.out.push(dir_line(&img_vec));
                            r.out.push(foc.line());
                            r.stats.inc("crash.fault_injected");
                            if matches!(foc, Outcome::OpenOk(_)) {
                                r.out.push(effects_line(&fevs));
                            }
                            if !matches!(foc, Outcome::OpenErrIo) {
                                r.violate("C11", format!("{}: I/O error injected at call #{} of a recovery that makes {} calls: open returned {:?}", ctx, n, io_calls, foc));
                            }
                        }
                    }
                }
            }
            other => {
                let what = format!("{}: open of the crash image failed: {:?}", ctx, other);
                r.violate("C03", what.clone());
                if flush_per_op && !power_loss {
                    r.violate("C02", what.clone());
                }
                if other.is_panic() {
                    r.violate("C10", what);
                }
            }
        }
        r.ops.extend(side.ops.drain(..));
        r.annot.extend(side.annot.drain(..));
        r.out.extend(side.out.drain(..));
        r.stats.merge(&side.stats);
        side.real.cleanup();
    }
    let nontrivial = r.stats.get("crash.class.inside_write") >= 1 && r.stats.get("rollover") >= 1;
    crate::camp::finish_pub(r, id, nontrivial)
}
