//! Damage campaign: a history is run, the log closed, and the directory image damaged in many
//! ways (aimed at single frames using the write trace, or arbitrary: ranges, headers, truncated /
//! removed / duplicated files, transposed blocks). The real `open` runs on every damaged image.
//! Oracles: C08 (nothing surfaces that was not appended; positions increase), C09 (single-frame
//! payload/CRC damage costs only its entry), C10 (no panic, no hang, accessors fine), C12
//! (batches whole or absent).
use std::collections::{HashMap, HashSet};
use std::panic::{catch_unwind, AssertUnwindSafe};
use std::path::Path;

use mrecordlog::verif_hooks::Event;

use crate::camp::CaseResult;
use crate::gen::*;
use crate::ops::*;
use crate::real::*;
use crate::run::*;

#[derive(Clone, Debug)]
struct Frame {
    file: u64,
    off: u64,
    len: u64,
    call: usize,
}

struct Batch {
    q: String,
    incarnation: u64,
    recs: Vec<(u64, Vec<u8>)>,
    call: usize,
}

fn flip(rng: &mut Rng, bytes: &[u8]) -> Vec<u8> {
    let mut v = bytes.to_vec();
    match rng.below(3) {
        0 => {
            let i = rng.below(v.len() as u64) as usize;
            v[i] ^= 1 << rng.below(8);
        }
        1 => {
            for b in v.iter_mut() {
                *b = rng.next() as u8;
            }
            if v == bytes {
                v[0] ^= 0x55;
            }
        }
        _ => {
            let i = rng.below(v.len() as u64) as usize;
            v[i] = !v[i];
        }
    }
    v
}

pub fn case_damage(scratch: &Path, meta: usize, id: &str, seed: u64, len: usize, aimed_only: bool, replay: Option<&Case>) -> CaseResult {
    let mut rng = Rng::new(seed);
    let mut r = Runner::new(scratch.join(id), meta);
    // aimed sweep (every other aimed case): a shorter history with frequent delete / re-create, and
    // EVERY frame still on disk damaged in turn (up to 160, evenly spread) instead of a random handful
    let sweep = aimed_only && replay.is_none() && seed % 2 == 1;
    let gcfg = if sweep {
        GenCfg { allow_reopen: true, big_weight: 2, max_queues: 1 + rng.below(2) as usize, churn: true, ..Default::default() }
    } else {
        GenCfg { allow_reopen: true, big_weight: 5 + rng.below(6), max_queues: 1 + rng.below(4) as usize, ..Default::default() }
    };
    let len = if sweep { len / 2 + 10 } else { len };
    let mut frames: Vec<Frame> = Vec::new();
    let mut appended: HashSet<(String, u64, Vec<u8>)> = HashSet::new();
    let mut rec_call: HashMap<(String, u64, u64), usize> = HashMap::new();
    let mut batches: Vec<Batch> = Vec::new();
    let mut call_is_append: Vec<bool> = Vec::new();
    let mut seen = 0usize;

    // main history: generated, or the replayed main-line ops up to `close`
    let mut fixed: Option<Vec<Op>> = None;
    let mut fixed_variants: Vec<Vec<Op>> = Vec::new();
    let mut fixed_conts: Vec<Vec<Op>> = Vec::new();
    if let Some(case) = replay {
        let mut main = Vec::new();
        let mut after_close = false;
        let mut reopened = false;
        for (_, op) in &case.ops {
            if !after_close {
                if matches!(op, Op::Close) {
                    after_close = true;
                } else {
                    main.push(op.clone());
                }
            } else {
                match op {
                    Op::Restore => {
                        fixed_variants.push(Vec::new());
                        fixed_conts.push(Vec::new());
                        reopened = false;
                    }
                    Op::Reopen(_) => reopened = true,
                    Op::Poke { .. } | Op::SetLenFile { .. } | Op::RmFile(_) | Op::CopyFile { .. } | Op::CopyBlock { .. } => {
                        if let Some(v) = fixed_variants.last_mut() {
                            v.push(op.clone());
                        }
                    }
                    o if o.is_mutating() && reopened => {
                        if let Some(v) = fixed_conts.last_mut() {
                            v.push(o.clone());
                        }
                    }
                    _ => {}
                }
            }
        }
        fixed = Some(main);
    }
    let n = len / 2 + rng.below(len as u64) as usize;
    let mut idx = 0usize;
    let mut fixed_iter = fixed.clone().map(|v| v.into_iter());
    loop {
        if r.dead {
            break;
        }
        let op = match &mut fixed_iter {
            Some(it) => match it.next() {
                Some(op) => op,
                None => break,
            },
            None => {
                if idx > n {
                    break;
                }
                if idx == 0 {
                    Op::Open(Pol::AlwaysFlush)
                } else {
                    gen_op(&r, &mut rng, &gcfg)
                }
            }
        };
        idx += 1;
        let before = r.spec.clone();
        let call = call_is_append.len();
        let oc = r.apply(&op);
        call_is_append.push(matches!(op, Op::Append { .. }));
        for e in &r.real.all_events[seen..] {
            if let Event::Write { file, off, data } = e {
                if data.len() >= 7 && data.iter().any(|b| *b != 0) {
                    frames.push(Frame { file: *file, off: *off, len: data.len() as u64, call });
                }
            }
        }
        seen = r.real.all_events.len();
        if let (Op::Append { q, .. }, Outcome::Appended(Some(_), _)) = (&op, &oc) {
            if let (Some(bq), Some(aq)) = (before.queues.get(q), r.spec.queues.get(q)) {
                let new = &aq.recs[bq.recs.len().min(aq.recs.len())..];
                for (p, b) in new {
                    appended.insert((q.clone(), *p, b.clone()));
                    rec_call.insert((q.clone(), aq.incarnation, *p), call);
                }
                if new.len() >= 2 {
                    batches.push(Batch { q: q.clone(), incarnation: aq.incarnation, recs: new.to_vec(), call });
                }
            }
        }
    }
    if r.dead {
        return crate::camp::finish_pub(r, id, false);
    }
    r.apply(&Op::State);
    r.apply(&Op::Close);
    r.apply(&Op::Snapshot);
    r.apply(&Op::Dir);
    let snapshot = r.real.snapshot.clone();
    let files: Vec<u64> = snapshot.iter().map(|(f, _)| *f).collect();
    let content = |f: u64| -> &Vec<u8> { &snapshot.iter().find(|(n, _)| *n == f).unwrap().1 };
    let live_frames: Vec<Frame> = frames.iter().filter(|fr| files.contains(&fr.file)).cloned().collect();
    let final_spec = r.spec.clone();

    let variants = if replay.is_some() { fixed_variants.len() } else if sweep { live_frames.len().min(160) } else { 10 + rng.below(10) as usize };
    for v in 0..variants {
        r.apply(&Op::Restore);
        let mut hit_call: Option<usize> = None;
        let mut aimed = false;
        let mut class = "none";
        let mut forged_max = false;
        let mut forged_boundary = false;
        let mut ops: Vec<Op> = Vec::new();
        if replay.is_some() {
            ops = fixed_variants[v].clone();
            class = "replayed";
            // an aimed variant is one poke inside the crc/payload bytes of one traced frame
            if let [Op::Poke { file, off, data }] = ops.as_slice() {
                for fr in &live_frames {
                    let end = off + data.len() as u64;
                    let in_crc = *file == fr.file && *off >= fr.off && end <= fr.off + 4;
                    let in_payload = *file == fr.file && *off >= fr.off + 7 && end <= fr.off + fr.len;
                    if in_crc || in_payload {
                        aimed = true;
                        hit_call = Some(fr.call);
                    }
                }
            }
        } else {
            let k = if aimed_only { rng.below(3) } else { rng.below(16) };
            if k < 3 && !live_frames.is_empty() {
                // aimed: payload or checksum bytes of one frame
                let fr = if sweep { live_frames[v * live_frames.len() / variants].clone() } else { rng.pick(&live_frames).clone() };
                if sweep {
                    r.stats.inc("damage.sweep_frames");
                }
                let c = content(fr.file);
                let in_payload = fr.len > 7 && rng.chance(2, 3);
                let (a, b) = if in_payload { (fr.off + 7, fr.off + fr.len) } else { (fr.off, fr.off + 4) };
                let (a, b) = if in_payload && rng.chance(1, 2) {
                    let s = a + rng.below(b - a);
                    (s, (s + 1 + rng.below(8)).min(b))
                } else {
                    (a, b)
                };
                let old = &c[a as usize..b as usize];
                ops.push(Op::Poke { file: fr.file, off: a, data: flip(&mut rng, old) });
                aimed = true;
                hit_call = Some(fr.call);
                class = if in_payload { "aimed.payload" } else { "aimed.crc" };
            } else if k < 5 && !live_frames.is_empty() {
                // header damage: length field or type byte
                let fr = rng.pick(&live_frames).clone();
                let c = content(fr.file);
                if rng.chance(1, 3) {
                    // a length that ends within a few bytes of the block end, on either side
                    let room = BLOCK - (fr.off % BLOCK) - HEADER;
                    let newlen = (room as i64 + rng.below(11) as i64 - 2).clamp(0, 65535) as u16;
                    ops.push(Op::Poke { file: fr.file, off: fr.off + 4, data: newlen.to_le_bytes().to_vec() });
                    class = "header.length_at_block_end";
                } else {
                    let (a, b) = if rng.chance(1, 2) { (fr.off + 4, fr.off + 6) } else { (fr.off + 6, fr.off + 7) };
                    let old = &c[a as usize..b as usize];
                    ops.push(Op::Poke { file: fr.file, off: a, data: flip(&mut rng, old) });
                    class = "header";
                }
            } else if k < 8 {
                // a range of zeros or garbage, up to 3 blocks
                let f = *rng.pick(&files);
                let flen = content(f).len() as u64;
                if flen > 0 {
                    let l = match rng.below(4) {
                        0 => 1 + rng.below(16),
                        1 => 1 + rng.below(2000),
                        2 => BLOCK,
                        _ => 1 + rng.below(3 * BLOCK),
                    }
                    .min(flen);
                    // prefer the written part of the file
                    let start = if rng.chance(2, 3) { rng.below((flen - l + 1).min(live_frames.iter().filter(|x| x.file == f).map(|x| x.off + x.len).max().unwrap_or(flen) + 1)) } else { rng.below(flen - l + 1) };
                    let data: Vec<u8> = if rng.chance(1, 2) { vec![0u8; l as usize] } else { (0..l).map(|_| rng.next() as u8).collect() };
                    ops.push(Op::Poke { file: f, off: start, data });
                }
                class = "range";
            } else if k < 9 {
                let f = *rng.pick(&files);
                let newlen = match rng.below(4) {
                    0 => 0,
                    1 => rng.below(BLOCK),
                    2 => BLOCK * rng.below(4),
                    _ => rng.below(FILE),
                };
                ops.push(Op::SetLenFile { file: f, len: newlen });
                class = "truncate_file";
            } else if k < 10 {
                ops.push(Op::RmFile(*rng.pick(&files)));
                class = "remove_file";
            } else if k < 11 {
                let src = *rng.pick(&files);
                let dst = match rng.below(3) {
                    0 => files.last().unwrap() + 1 + rng.below(3),
                    1 => *rng.pick(&files),
                    _ => files[0].saturating_sub(1 + rng.below(2)),
                };
                if src != dst {
                    ops.push(Op::CopyFile { src, dst });
                }
                class = "duplicate_file";
            } else if k < 12 {
                let f1 = *rng.pick(&files);
                let f2 = *rng.pick(&files);
                ops.push(Op::CopyBlock { f1, i1: rng.below(4), f2, i2: rng.below(4) });
                class = "transpose_block";
            } else if k >= 14 {
                // the last frame of a batch rewritten in place as a VALID frame (same type, correct
                // checksum) carrying fewer bytes: the reassembled entry is cut `kcut` bytes short.
                // Unless the cut falls on a record boundary (then the image is that of a shorter
                // batch) the batch must come back whole or not at all
                let cands: Vec<&Batch> = batches.iter().filter(|b| live_frames.iter().any(|f| f.call == b.call)).collect();
                if !cands.is_empty() {
                    let bt = *rng.pick(&cands);
                    let fr = live_frames.iter().filter(|f| f.call == bt.call).max_by_key(|f| (f.file, f.off)).unwrap().clone();
                    let c = content(fr.file);
                    let l = fr.len - 7;
                    let last_len = bt.recs.last().map(|r| r.1.len() as u64).unwrap_or(0);
                    let kcut = match rng.below(6) {
                        0 => 1 + rng.below(11),
                        1 => last_len + 1 + rng.below(11),
                        2 => last_len + 12,
                        3 => last_len + 13,
                        4 => 1 + rng.below(l.max(1)),
                        _ => last_len.saturating_sub(rng.below(3)).max(1),
                    }
                    .min(l)
                    .max(1);
                    if l >= 1 && (fr.off + fr.len) as usize <= c.len() {
                        let ty = c[fr.off as usize + 6];
                        let keep = &c[fr.off as usize + 7..(fr.off + 7 + l - kcut) as usize];
                        let mut data = crate::bytes::frame(ty, keep, None, false);
                        data.extend(std::iter::repeat(0u8).take(kcut as usize));
                        ops.push(Op::Poke { file: fr.file, off: fr.off, data });
                        // record boundaries counted from the end of the entry
                        let mut acc = 0u64;
                        let mut boundary = false;
                        for rc in bt.recs.iter().rev() {
                            acc += 12 + rc.1.len() as u64;
                            if acc == kcut {
                                boundary = true;
                            }
                        }
                        forged_boundary = boundary;
                        r.stats.inc(if boundary { "damage.forged_cut.at_record_boundary" } else { "damage.forged_cut.inside_record" });
                    }
                }
                class = "forged_cut";
            } else {
                // a forged, CRC-valid frame holding a hostile entry, placed where the log ends
                let (cf, co) = r.real.cursor;
                let room = BLOCK - co % BLOCK;
                if files.contains(&cf) && room >= 7 + 64 && co + room <= content(cf).len() as u64 {
                    let names: Vec<String> = final_spec.queues.keys().cloned().collect();
                    let name = if names.is_empty() || rng.chance(1, 4) { "forged".to_string() } else { rng.pick(&names).clone() };
                    let name = if name.len() > 30 { "forged".to_string() } else { name };
                    let next = final_spec.queues.get(&name).map(|q| q.next).unwrap_or(0);
                    let big = [u64::MAX, u64::MAX - 1, next, next + 3, next.saturating_sub(1), 0];
                    let pos = *rng.pick(&big);
                    let tag = *rng.pick(&[1u8, 2, 3, 4, 4]);
                    let mut e = vec![tag];
                    e.extend_from_slice(&pos.to_le_bytes());
                    e.extend_from_slice(&(name.len() as u16).to_le_bytes());
                    e.extend_from_slice(name.as_bytes());
                    forged_max = pos >= u64::MAX - 1;
                    if tag == 4 {
                        let mut p = pos;
                        for _ in 0..(1 + rng.below(3)) {
                            forged_max = forged_max || p >= u64::MAX - 1;
                            e.extend_from_slice(&p.to_le_bytes());
                            e.extend_from_slice(&3u32.to_le_bytes());
                            e.extend_from_slice(&[1, 2, 3]);
                            p = match rng.below(3) { 0 => p.wrapping_add(1), 1 => u64::MAX, _ => p.saturating_sub(1) };
                        }
                    }
                    ops.push(Op::Poke { file: cf, off: co, data: crate::bytes::frame(1, &e, None, false) });
                }
                class = "forged_entry";
            }
            // damage at several sites: a second and sometimes a third independent overwrite
            if !aimed_only && class != "forged_entry" && class != "forged_cut" && !files.is_empty() && rng.chance(1, 4) {
                for _ in 0..(1 + rng.below(2)) {
                    let f = *rng.pick(&files);
                    let flen = content(f).len() as u64;
                    if flen == 0 {
                        continue;
                    }
                    let l = (1 + rng.below(40)).min(flen);
                    let top = live_frames.iter().filter(|x| x.file == f).map(|x| x.off + x.len).max().unwrap_or(flen).min(flen);
                    let start = rng.below((top.max(l) - l) + 1);
                    let data: Vec<u8> = if rng.chance(1, 2) { vec![0u8; l as usize] } else { (0..l).map(|_| rng.next() as u8).collect() };
                    ops.push(Op::Poke { file: f, off: start, data });
                }
                aimed = false;
                hit_call = None;
                class = "multi_site";
            }
        }
        for op in &ops {
            r.apply(op);
        }
        r.apply(&Op::Dir);
        r.stats.inc("damage.variants");
        r.stats.inc(&format!("damage.class.{}", class));
        let open_op = Op::Reopen(Pol::AlwaysFlush);
        let ex = r.real.exec(&open_op);
        r.record(&open_op, &ex);
        // C08/C12 speak about in-place overwrites (file set and lengths unchanged); overwrites that
        // copy other valid WAL content are tagged: frames carry no location binding (finding F5)
        let in_place = ops.iter().all(|o| match o {
            Op::Poke { file, off, data } => files.contains(file) && off + data.len() as u64 <= content(*file).len() as u64,
            Op::CopyBlock { .. } => true,
            Op::CopyFile { src, dst } => files.contains(dst) && files.contains(src) && content(*src).len() == content(*dst).len(),
            _ => false,
        });
        // a copy of an all-zero block or file replays nothing: it is plain zeroing
        let copies_valid = ops.iter().any(|o| match o {
            Op::CopyBlock { f1, i1, .. } => files.contains(f1) && content(*f1).iter().skip((*i1 * BLOCK) as usize).take(BLOCK as usize).any(|b| *b != 0),
            Op::CopyFile { src, .. } => files.contains(src) && content(*src).iter().any(|b| *b != 0),
            _ => false,
        });
        // forged frames are CRC "collisions" by construction: outside C08/C12; they probe C10,
        // where only positions at the top of the u64 range are known to panic (finding F4)
        let forged = class == "forged_entry" || (class == "forged_cut" && forged_boundary);
        let in_place = in_place && !forged;
        let tag = if copies_valid { "[replayed-valid-frames] " } else if forged && forged_max { "[position bound 2^64-1] " } else { "" };
        let ctx = format!("{}damage variant {} ({}; {})", tag, v, class, ops.iter().map(|o| { let l = o.line(); l[..l.len().min(60)].to_string() }).collect::<Vec<_>>().join(" + "));
        r.stats.inc(&format!("damage.open.{}", ex.outcome.line().split(' ').nth(1).unwrap_or("?")));
        match &ex.outcome {
            Outcome::OpenOk(_) => {
                let log = r.real.log.as_ref().unwrap();
                let obs = catch_unwind(AssertUnwindSafe(|| {
                    let o = observe(log);
                    let _ = log.resource_usage();
                    for name in o.keys() {
                        let _ = log.range(name, 3..=7).map(|it| it.count());
                        let _ = log.range(name, (std::ops::Bound::Excluded(2), std::ops::Bound::Unbounded)).map(|it| it.count());
                    }
                    o
                }));
                let obs = match obs {
                    Ok(o) => o,
                    Err(_) => {
                        r.violate("C10", format!("{}: a read accessor of the recovered log panicked", ctx));
                        let st = Op::State;
                        let ex2 = r.real.exec(&st);
                        r.record(&st, &ex2);
                        r.real.log = None;
                        continue;
                    }
                };
                let st = Op::State;
                let ex2 = r.real.exec(&st);
                r.record(&st, &ex2);
                // C08
                for (name, q) in obs.iter().filter(|_| in_place) {
                    for (p, b) in &q.recs {
                        if !appended.contains(&(name.clone(), *p, b.clone())) {
                            r.violate("C08", format!("{}: recovered record {}@{} ({} bytes) of queue {:?} was never appended", ctx, rec_s(*p, b), p, b.len(), name));
                            break;
                        }
                    }
                    if !q.recs.windows(2).all(|w| w[0].0 < w[1].0) {
                        r.violate("C08", format!("{}: positions of queue {:?} are not strictly increasing", ctx, name));
                    }
                }
                // C09
                if aimed {
                    let exempt = hit_call.filter(|c| call_is_append[*c]);
                    for (name, sq) in &final_spec.queues {
                        for (p, b) in &sq.recs {
                            if rec_call.get(&(name.clone(), sq.incarnation, *p)).copied() == exempt && exempt.is_some() {
                                continue;
                            }
                            let ok = obs.get(name).map(|q| q.recs.iter().any(|(pp, bb)| pp == p && bb == b)).unwrap_or(false);
                            if !ok {
                                r.violate("C09", format!("{}: retained record {} of queue {:?} (not in the damaged entry) was lost", ctx, rec_s(*p, b), name));
                                break;
                            }
                        }
                    }
                    r.stats.inc("c09.aimed_checked");
                }
                // C12
                for bt in batches.iter().filter(|_| in_place) {
                    if final_spec.queues.get(&bt.q).map(|s| s.incarnation) != Some(bt.incarnation) {
                        continue;
                    }
                    if let Some(q) = obs.get(&bt.q) {
                        let present: Vec<bool> = bt.recs.iter().map(|b| q.recs.contains(b)).collect();
                        let first_true = present.iter().position(|p| *p).unwrap_or(present.len());
                        if present[first_true..].iter().any(|p| !*p) {
                            r.violate("C12", format!("{}: a batch of queue {:?} was recovered with a hole or a missing tail: {:?}", ctx, bt.q, present));
                        }
                        // a missing head is legitimate only where the history truncated it
                        if first_true > 0 && first_true < present.len() {
                            if let Some(sq) = final_spec.queues.get(&bt.q) {
                                if bt.recs[..first_true].iter().any(|b| sq.recs.contains(b)) {
                                    r.violate("C12", format!("{}: a batch of queue {:?} was recovered without its head although no truncation removed it: {:?}", ctx, bt.q, present));
                                }
                            }
                        }
                        r.stats.inc("c12.batches_checked");
                    }
                }
                // continuation on the damaged log, then a second restart: whatever damage did, the
                // log must still hold nothing but appended records and whole batches afterwards
                let cont_ops: Option<Vec<Op>> = if replay.is_some() {
                    fixed_conts.get(v).filter(|c| !c.is_empty()).cloned()
                } else if in_place && !copies_valid && !forged && rng.chance(1, 3) {
                    Some(Vec::new())
                } else {
                    None
                };
                if let Some(fixed_cont) = cont_ops {
                    let saved = r.spec.clone();
                    r.spec = crate::spec::Spec::default();
                    for (name, q) in &obs {
                        r.spec.queues.insert(name.clone(), crate::spec::SQueue { next: q.next(), recs: q.recs.clone(), files: vec![0; q.recs.len()], incarnation: 1 });
                    }
                    let mut appended2 = appended.clone();
                    let mut cont_new: HashSet<(String, u64, Vec<u8>)> = HashSet::new();
                    let mut batches2: Vec<Vec<(u64, Vec<u8>)>> = Vec::new();
                    let mut bq: Vec<String> = Vec::new();
                    let ccfg = GenCfg { allow_reopen: false, allow_rejected: false, allow_persist: false, max_queues: 1, big_weight: 8, ..Default::default() };
                    let todo: Vec<Op> = if replay.is_some() { fixed_cont } else {
                        let mut t = Vec::new();
                        for _ in 0..(4 + rng.below(6)) {
                            if r.spec.queues.is_empty() { break; }
                            let op = gen_op(&r, &mut rng, &ccfg);
                            if matches!(op, Op::Append { .. } | Op::Truncate { .. }) {
                                let _ = r.spec.step(&op, 0);
                                t.push(op);
                            }
                        }
                        t
                    };
                    let mut alive = true;
                    for op in &todo {
                        let ex3 = r.real.exec(op);
                        r.record(op, &ex3);
                        if ex3.outcome.is_panic() {
                            r.violate("C10", format!("{}; continuation `{}` panicked", ctx, &op.line()[..op.line().len().min(80)]));
                            alive = false;
                            break;
                        }
                        if let (Op::Append { q, payloads, .. }, Outcome::Appended(Some(last), _)) = (op, &ex3.outcome) {
                            let n = payloads.len() as u64;
                            let recs: Vec<(u64, Vec<u8>)> = payloads.iter().enumerate().map(|(i, p)| (last + 1 - n + i as u64, p.bytes())).collect();
                            for (p, b) in &recs {
                                appended2.insert((q.clone(), *p, b.clone()));
                                cont_new.insert((q.clone(), *p, b.clone()));
                            }
                            if recs.len() >= 2 {
                                batches2.push(recs);
                                bq.push(q.clone());
                            }
                        }
                    }
                    r.spec = saved;
                    r.stats.inc("damage.continuations");
                    if alive {
                        let ro = Op::Reopen(Pol::AlwaysFlush);
                        let ex4 = r.real.exec(&ro);
                        r.record(&ro, &ex4);
                        match &ex4.outcome {
                            Outcome::OpenOk(_) => {
                                let st = Op::State;
                                let ex5 = r.real.exec(&st);
                                r.record(&st, &ex5);
                                if let Ok(obs2) = catch_unwind(AssertUnwindSafe(|| observe(r.real.log.as_ref().unwrap()))) {
                                    for (name, q) in &obs2 {
                                        if let Some((p, b)) = q.recs.iter().find(|(p, b)| !appended2.contains(&(name.clone(), *p, b.clone()))) {
                                            r.violate("C08", format!("{}; after a continuation and a second restart: record {} of queue {:?} was never appended", ctx, rec_s(*p, b), name));
                                        }
                                    }
                                    for (recs, qn) in batches2.iter().zip(bq.iter()) {
                                        if let Some(q) = obs2.get(qn) {
                                            let present: Vec<bool> = recs.iter().map(|b| q.recs.contains(b)).collect();
                                            let first_true = present.iter().position(|p| *p).unwrap_or(present.len());
                                            if present[first_true..].iter().any(|p| !*p) {
                                                r.violate("C12", format!("{}; after a continuation and a second restart: a batch of queue {:?} has a hole or a missing tail: {:?}", ctx, qn, present));
                                            }
                                        }
                                    }
                                    for bt in batches.iter() {
                                        if final_spec.queues.get(&bt.q).map(|s| s.incarnation) != Some(bt.incarnation) {
                                            continue;
                                        }
                                        // a record that the first recovery had lost and that the CONTINUATION itself
                                        // appended again (same position, same - e.g. empty - payload) is a new record,
                                        // not the old one; an old record that comes back by itself does count
                                        let after_first: Vec<bool> = match obs.get(&bt.q) {
                                            Some(q1) => bt.recs.iter().map(|b| q1.recs.contains(b)).collect(),
                                            None => vec![false; bt.recs.len()],
                                        };
                                        if let Some(q) = obs2.get(&bt.q) {
                                            let present: Vec<bool> = bt.recs.iter().zip(after_first.iter()).map(|(b, was)| q.recs.contains(b) && (*was || !cont_new.contains(&(bt.q.clone(), b.0, b.1.clone())))).collect();
                                            let first_true = present.iter().position(|p| *p).unwrap_or(present.len());
                                            if present[first_true..].iter().any(|p| !*p) {
                                                r.violate("C12", format!("{}; after a continuation and a second restart: a batch of queue {:?} was recovered with a hole or a missing tail: {:?}", ctx, bt.q, present));
                                            }
                                        }
                                    }
                                } else {
                                    r.violate("C10", format!("{}; after a continuation and a second restart a read accessor panicked", ctx));
                                }
                            }
                            Outcome::OpenErrCorruption | Outcome::OpenErrIo => {}
                            other => r.violate("C10", format!("{}; second restart panicked or hung: {:?}", ctx, other)),
                        }
                    }
                }
                r.real.log = None;
            }
            Outcome::OpenErrCorruption | Outcome::OpenErrIo => {
                if aimed {
                    r.violate("C09", format!("{}: open failed ({:?}) although only payload/checksum bytes of one frame were altered", ctx, ex.outcome));
                }
            }
            other => {
                r.violate("C10", format!("{}: open panicked or hung: {:?}", ctx, other));
                if matches!(other, Outcome::Timeout) {
                    r.dead = true;
                    break;
                }
            }
        }
    }
    let nontrivial = r.stats.get("damage.variants") >= 3 && r.stats.get("rollover") >= 1;
    crate::camp::finish_pub(r, id, nontrivial)
}
