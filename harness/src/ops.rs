//! Operation lines: the replay format shared with the Lean driver.
use std::fmt::Write as _;

pub const BLOCK: u64 = 32768;
pub const BLOCKS_PER_FILE: u64 = 4;
pub const FILE: u64 = BLOCK * BLOCKS_PER_FILE;
pub const HEADER: u64 = 7;

#[derive(Clone)]
pub struct Rng(pub u64);
impl Rng {
    pub fn new(seed: u64) -> Rng {
        Rng(seed.wrapping_mul(0x9E3779B97F4A7C15).wrapping_add(0x1234_5678_9abc_def1) | 1)
    }
    pub fn next(&mut self) -> u64 {
        let mut s = self.0;
        s ^= s << 13;
        s ^= s >> 7;
        s ^= s << 17;
        self.0 = s;
        s.wrapping_mul(0x2545F4914F6CDD1D)
    }
    pub fn below(&mut self, n: u64) -> u64 {
        if n == 0 {
            0
        } else {
            self.next() % n
        }
    }
    pub fn chance(&mut self, num: u64, den: u64) -> bool {
        self.below(den) < num
    }
    pub fn pick<'a, T>(&mut self, xs: &'a [T]) -> &'a T {
        &xs[self.below(xs.len() as u64) as usize]
    }
}

/// pseudo-random payload shared with the Lean driver (`Drv.genPayload`)
pub fn gen_payload(len: usize, seed: u64) -> Vec<u8> {
    let mut s = seed.wrapping_mul(0x9E3779B97F4A7C15).wrapping_add(1);
    let mut out = Vec::with_capacity(len);
    for _ in 0..len {
        s ^= s << 13;
        s ^= s >> 7;
        s ^= s << 17;
        out.push((s >> 24) as u8);
    }
    out
}

pub fn fnv64(bytes: &[u8]) -> u64 {
    let mut h: u64 = 0xcbf29ce484222325;
    for b in bytes {
        h = (h ^ (*b as u64)).wrapping_mul(0x100000001b3);
    }
    h
}

pub fn hex(bytes: &[u8]) -> String {
    if bytes.is_empty() {
        return "-".to_string();
    }
    let mut s = String::with_capacity(bytes.len() * 2);
    for b in bytes {
        write!(s, "{:02x}", b).unwrap();
    }
    s
}

pub fn unhex(s: &str) -> Vec<u8> {
    if s == "-" {
        return Vec::new();
    }
    let b = s.as_bytes();
    (0..b.len() / 2)
        .map(|i| u8::from_str_radix(std::str::from_utf8(&b[2 * i..2 * i + 2]).unwrap(), 16).unwrap())
        .collect()
}

#[derive(Clone, Debug, PartialEq)]
pub enum Payload {
    Gen { len: usize, seed: u64 },
    Hex(Vec<u8>),
    Zeros(usize),
}
impl Payload {
    pub fn bytes(&self) -> Vec<u8> {
        match self {
            Payload::Gen { len, seed } => gen_payload(*len, *seed),
            Payload::Hex(b) => b.clone(),
            Payload::Zeros(n) => vec![0u8; *n],
        }
    }
    pub fn len(&self) -> usize {
        match self {
            Payload::Gen { len, .. } => *len,
            Payload::Hex(b) => b.len(),
            Payload::Zeros(n) => *n,
        }
    }
    pub fn tok(&self) -> String {
        match self {
            Payload::Gen { len, seed } => format!("g:{}:{}", len, seed),
            Payload::Hex(b) => format!("x:{}", hex(b)),
            Payload::Zeros(n) => format!("z:{}", n),
        }
    }
    pub fn parse(t: &str) -> Option<Payload> {
        let parts: Vec<&str> = t.split(':').collect();
        match parts.as_slice() {
            ["g", len, seed] => Some(Payload::Gen { len: len.parse().ok()?, seed: seed.parse().ok()? }),
            ["x", h] => Some(Payload::Hex(unhex(h))),
            ["z", n] => Some(Payload::Zeros(n.parse().ok()?)),
            _ => None,
        }
    }
}

#[derive(Clone, Copy, Debug, PartialEq, Eq)]
pub enum Pol {
    Nothing,
    DelayFlush,
    DelayFsync,
    DelayNowFlush,
    DelayNowFsync,
    AlwaysFlush,
    AlwaysFsync,
}
pub const ALL_POLS: [Pol; 7] = [
    Pol::Nothing,
    Pol::DelayFlush,
    Pol::DelayFsync,
    Pol::DelayNowFlush,
    Pol::DelayNowFsync,
    Pol::AlwaysFlush,
    Pol::AlwaysFsync,
];
impl Pol {
    pub fn tok(self) -> &'static str {
        match self {
            Pol::Nothing => "nothing",
            Pol::DelayFlush => "delay:flush",
            Pol::DelayFsync => "delay:fsync",
            Pol::DelayNowFlush => "delaynow:flush",
            Pol::DelayNowFsync => "delaynow:fsync",
            Pol::AlwaysFlush => "always:flush",
            Pol::AlwaysFsync => "always:fsync",
        }
    }
    pub fn parse(s: &str) -> Pol {
        for p in ALL_POLS {
            if p.tok() == s {
                return p;
            }
        }
        Pol::AlwaysFlush
    }
    /// does the policy persist on every append/truncate (tick)?
    pub fn tick(self) -> bool {
        matches!(self, Pol::DelayNowFlush | Pol::DelayNowFsync)
    }
    /// flushes after every mutating call
    pub fn flush_per_op(self) -> bool {
        matches!(self, Pol::AlwaysFlush | Pol::AlwaysFsync | Pol::DelayNowFlush | Pol::DelayNowFsync)
    }
    pub fn fsync_per_op(self) -> bool {
        matches!(self, Pol::AlwaysFsync | Pol::DelayNowFsync)
    }
}

#[derive(Clone, Copy, Debug, PartialEq)]
pub enum Bnd {
    U,
    I(u64),
    E(u64),
}
impl Bnd {
    pub fn tok(self) -> String {
        match self {
            Bnd::U => "u".into(),
            Bnd::I(n) => format!("i{}", n),
            Bnd::E(n) => format!("e{}", n),
        }
    }
    pub fn parse(s: &str) -> Bnd {
        if s == "u" {
            Bnd::U
        } else if let Some(r) = s.strip_prefix('i') {
            Bnd::I(r.parse().unwrap())
        } else {
            Bnd::E(s[1..].parse().unwrap())
        }
    }
    pub fn to_std(self) -> std::ops::Bound<u64> {
        match self {
            Bnd::U => std::ops::Bound::Unbounded,
            Bnd::I(n) => std::ops::Bound::Included(n),
            Bnd::E(n) => std::ops::Bound::Excluded(n),
        }
    }
    pub fn ok_lo(self, x: u64) -> bool {
        match self {
            Bnd::U => true,
            Bnd::I(n) => n <= x,
            Bnd::E(n) => n < x,
        }
    }
    pub fn ok_hi(self, x: u64) -> bool {
        match self {
            Bnd::U => true,
            Bnd::I(n) => x <= n,
            Bnd::E(n) => x < n,
        }
    }
}

#[derive(Clone, Debug, PartialEq)]
pub enum Op {
    Open(Pol),
    Reopen(Pol),
    FaultOpen { pol: Pol, fail: u64, forever: bool, kind: String },
    Create(String),
    Delete(String),
    Append { q: String, pos: Option<u64>, payloads: Vec<Payload> },
    Truncate { q: String, pos: u64 },
    Persist(bool),
    Range { q: String, lo: Bnd, hi: Bnd },
    State,
    Dir,
    /// recover a *copy* from the image after `k` OS-level operations plus `cut` bytes of the next
    /// `instant`: for a power-loss image, the number of OS operations done when power was lost
    Crash { k: usize, cut: usize, pol: Pol, instant: Option<usize>, drop: Vec<u64>, zero: Vec<(u64, u64)>, fail: Option<u64>, undone: usize },
    // `undone`: for a power-loss image, how many of the unlinks issued since the last fsync of the
    // directory (the LAST ones, directory operations persisting in order) were not durable
    /// drop the log (the `BufWriter` flushes)
    Close,
    /// remember / restore the directory content (log must be closed)
    Snapshot,
    Restore,
    /// in-place overwrite of WAL bytes
    Poke { file: u64, off: u64, data: Vec<u8> },
    SetLenFile { file: u64, len: u64 },
    RmFile(u64),
    CopyFile { src: u64, dst: u64 },
    CopyBlock { f1: u64, i1: u64, f2: u64, i2: u64 },
}

impl Op {
    pub fn is_mutating(&self) -> bool {
        matches!(self, Op::Create(_) | Op::Delete(_) | Op::Append { .. } | Op::Truncate { .. } | Op::Persist(_))
    }
    /// the line without annotations
    pub fn line(&self) -> String {
        match self {
            Op::Open(p) => format!("open {}", p.tok()),
            Op::Reopen(p) => format!("reopen {}", p.tok()),
            Op::FaultOpen { pol, fail, forever, kind } => {
                format!("faultopen {} fail={} forever={} kind={}", pol.tok(), fail, *forever as u8, kind)
            }
            Op::Create(q) => format!("create {}", hex(q.as_bytes())),
            Op::Delete(q) => format!("delete {}", hex(q.as_bytes())),
            Op::Append { q, pos, payloads } => {
                let mut s = format!(
                    "append {} {}",
                    hex(q.as_bytes()),
                    pos.map(|p| p.to_string()).unwrap_or_else(|| "-".into())
                );
                for p in payloads {
                    s.push(' ');
                    s.push_str(&p.tok());
                }
                s
            }
            Op::Truncate { q, pos } => format!("truncate {} {}", hex(q.as_bytes()), pos),
            Op::Persist(fsync) => format!("persist {}", if *fsync { "fsync" } else { "flush" }),
            Op::Range { q, lo, hi } => format!("range {} {} {}", hex(q.as_bytes()), lo.tok(), hi.tok()),
            Op::State => "state".into(),
            Op::Dir => "dir".into(),
            Op::Crash { k, cut, pol, instant, drop, zero, fail, undone } => {
                let mut s = format!("crash {} {} {}", k, cut, pol.tok());
                if *undone > 0 {
                    s.push_str(&format!(" undone={}", undone));
                }
                if let Some(i) = instant {
                    s.push_str(&format!(" instant={}", i));
                }
                if !drop.is_empty() {
                    s.push_str(&format!(" drop={}", drop.iter().map(|f| f.to_string()).collect::<Vec<_>>().join(",")));
                }
                if !zero.is_empty() {
                    s.push_str(&format!(" zero={}", zero.iter().map(|(f, o)| format!("{}:{}", f, o)).collect::<Vec<_>>().join(",")));
                }
                if let Some(n) = fail {
                    s.push_str(&format!(" fail={}", n));
                }
                s
            }
            Op::Close => "close".into(),
            Op::Snapshot => "snapshot".into(),
            Op::Restore => "restore".into(),
            Op::Poke { file, off, data } => format!("poke {} {} x:{}", file, off, hex(data)),
            Op::SetLenFile { file, len } => format!("setlen {} {}", file, len),
            Op::RmFile(f) => format!("rmfile {}", f),
            Op::CopyFile { src, dst } => format!("copyfile {} {}", src, dst),
            Op::CopyBlock { f1, i1, f2, i2 } => format!("copyblock {} {} {} {}", f1, i1, f2, i2),
        }
    }

    pub fn parse(line: &str) -> Option<Op> {
        let toks: Vec<&str> = line.split_whitespace().collect();
        let kv = |key: &str| -> Option<&str> {
            toks.iter().find_map(|t| t.split_once('=').filter(|(k, _)| *k == key).map(|(_, v)| v))
        };
        let name = |t: &str| String::from_utf8_lossy(&unhex(t)).into_owned();
        match toks.as_slice() {
            ["open", p, ..] => Some(Op::Open(Pol::parse(p))),
            ["reopen", p, ..] => Some(Op::Reopen(Pol::parse(p))),
            ["faultopen", p, ..] => Some(Op::FaultOpen {
                pol: Pol::parse(p),
                fail: kv("fail")?.parse().ok()?,
                forever: kv("forever") == Some("1"),
                kind: kv("kind").unwrap_or("other").to_string(),
            }),
            ["create", q, ..] => Some(Op::Create(name(q))),
            ["delete", q, ..] => Some(Op::Delete(name(q))),
            ["truncate", q, p, ..] => Some(Op::Truncate { q: name(q), pos: p.parse().ok()? }),
            ["persist", a, ..] => Some(Op::Persist(*a == "fsync")),
            ["range", q, lo, hi, ..] => Some(Op::Range { q: name(q), lo: Bnd::parse(lo), hi: Bnd::parse(hi) }),
            ["state", ..] => Some(Op::State),
            ["dir", ..] => Some(Op::Dir),
            ["close", ..] => Some(Op::Close),
            ["snapshot", ..] => Some(Op::Snapshot),
            ["restore", ..] => Some(Op::Restore),
            ["poke", f, off, d, ..] => Some(Op::Poke { file: f.parse().ok()?, off: off.parse().ok()?, data: unhex(d.strip_prefix("x:")?) }),
            ["setlen", f, n, ..] => Some(Op::SetLenFile { file: f.parse().ok()?, len: n.parse().ok()? }),
            ["rmfile", f, ..] => Some(Op::RmFile(f.parse().ok()?)),
            ["copyfile", a, b, ..] => Some(Op::CopyFile { src: a.parse().ok()?, dst: b.parse().ok()? }),
            ["copyblock", a, b, c, d, ..] => Some(Op::CopyBlock { f1: a.parse().ok()?, i1: b.parse().ok()?, f2: c.parse().ok()?, i2: d.parse().ok()? }),
            ["crash", k, cut, p, ..] => Some(Op::Crash {
                k: k.parse().ok()?,
                cut: cut.parse().ok()?,
                pol: Pol::parse(p),
                instant: kv("instant").and_then(|v| v.parse().ok()),
                drop: kv("drop").map(|v| v.split(',').filter_map(|x| x.parse().ok()).collect()).unwrap_or_default(),
                fail: kv("fail").and_then(|v| v.parse().ok()),
                undone: kv("undone").and_then(|v| v.parse().ok()).unwrap_or(0),
                zero: kv("zero").map(|v| v.split(',').filter_map(|x| x.split_once(':').and_then(|(a, b)| Some((a.parse().ok()?, b.parse().ok()?)))).collect()).unwrap_or_default(),
            }),
            ["append", q, p, rest @ ..] => Some(Op::Append {
                q: name(q),
                pos: if *p == "-" { None } else { Some(p.parse().ok()?) },
                payloads: rest.iter().filter_map(|t| Payload::parse(t)).collect(),
            }),
            _ => None,
        }
    }
}

/// A case: main-line ops, then crash points each with continuation ops (on the recovered copy).
#[derive(Clone, Debug, Default)]
pub struct Case {
    pub id: String,
    /// (is_side, op): side ops (prefix `c:`) act on the copy recovered by the last `crash`
    pub ops: Vec<(bool, Op)>,
}

impl Case {
    pub fn parse(text: &str) -> Case {
        let mut case = Case::default();
        for line in text.lines() {
            let line = line.trim();
            if line.is_empty() || line.starts_with('#') {
                continue;
            }
            if let Some(id) = line.strip_prefix("case ") {
                case.id = id.to_string();
                continue;
            }
            if line.starts_with("meta ") {
                continue;
            }
            let (side, body) = match line.strip_prefix("c:") {
                Some(b) => (true, b),
                None => (false, line),
            };
            if let Some(op) = Op::parse(body) {
                case.ops.push((side, op));
            }
        }
        case
    }
    pub fn text(&self) -> String {
        let mut s = format!("case {}\n", self.id);
        for (side, op) in &self.ops {
            if *side {
                s.push_str("c:");
            }
            s.push_str(&op.line());
            s.push('\n');
        }
        s
    }
}
