//! mrl-harness: drives the real mrecordlog (built from /repo's working tree with
//! `--cfg mrecordlog_verif`) through generated or replayed cases, evaluates the property oracles
//! on the implementation alone, and writes the annotated cases the Lean model driver replays.
mod bytes;
mod camp;
mod crash;
mod damage;
mod gen;
mod misc;
mod ops;
mod real;
mod run;
mod spec;

use std::path::PathBuf;

pub struct Args {
    pub campaign: String,
    pub seed: u64,
    pub cases: usize,
    pub len: usize,
    pub out: PathBuf,
    pub replay: Option<PathBuf>,
    pub threads: usize,
}

fn main() {
    let argv: Vec<String> = std::env::args().collect();
    if argv.len() < 2 {
        eprintln!("usage: mrl-harness <campaign> [--seed N] [--cases N] [--len N] [--out DIR] [--replay FILE] [--threads N]");
        std::process::exit(2);
    }
    let mut args = Args {
        campaign: argv[1].clone(),
        seed: std::env::var("VERIF_SEED").ok().and_then(|s| s.parse().ok()).unwrap_or(1),
        cases: 50,
        len: 120,
        out: PathBuf::from("/verif/work/out"),
        replay: None,
        threads: std::thread::available_parallelism().map(|n| n.get()).unwrap_or(4),
    };
    let mut i = 2;
    while i + 1 < argv.len() {
        match argv[i].as_str() {
            "--seed" => args.seed = argv[i + 1].parse().unwrap(),
            "--cases" => args.cases = argv[i + 1].parse().unwrap(),
            "--len" => args.len = argv[i + 1].parse().unwrap(),
            "--out" => args.out = PathBuf::from(&argv[i + 1]),
            "--replay" => args.replay = Some(PathBuf::from(&argv[i + 1])),
            "--threads" => args.threads = argv[i + 1].parse().unwrap(),
            other => {
                eprintln!("unknown option {}", other);
                std::process::exit(2);
            }
        }
        i += 2;
    }
    // keep panic messages of the library out of the output (they are caught and reported)
    if std::env::var("MRL_HARNESS_PANICS").is_err() {
        std::panic::set_hook(Box::new(|_| {}));
    }
    let code = camp::run(&args);
    std::process::exit(code);
}
