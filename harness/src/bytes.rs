//! Bytes campaign (hook H4): the real record/frame writer and reader over in-memory blocks, the
//! real entry decoder and file-name parser, against the model's codec. Oracles: C07 (what is
//! written is read back, at every alignment), C10 (arbitrary and crafted block content never
//! makes the reader panic or loop).
use std::panic::{catch_unwind, AssertUnwindSafe};
use std::path::Path;

use mrecordlog::verif_codec as codec;

use crate::camp::CaseResult;
use crate::ops::*;
use crate::run::*;

fn pad_blocks(mut data: Vec<u8>) -> Vec<u8> {
    let b = BLOCK as usize;
    let r = data.len() % b;
    if r != 0 {
        data.resize(data.len() + b - r, 0);
    }
    data.resize(data.len() + b, 0);
    data
}

fn read_line(data: &[u8]) -> Result<(String, Vec<Option<Vec<u8>>>), String> {
    // the real reader, with a watchdog against non-termination
    let owned = data.to_vec();
    let (tx, rx) = std::sync::mpsc::channel();
    std::thread::spawn(move || {
        let res = catch_unwind(AssertUnwindSafe(|| codec::read_entries(&owned)));
        let _ = tx.send(res);
    });
    match rx.recv_timeout(std::time::Duration::from_secs(20)) {
        Err(_) => Err("TIMEOUT".into()),
        Ok(Err(_)) => Err("PANIC".into()),
        Ok(Ok(evs)) => {
            let parts: Vec<String> = evs.iter().map(|e| match e {
                Some(b) => format!("e:{}:{}", b.len(), fnv64(b)),
                None => "corrupt".into(),
            }).collect();
            Ok((if parts.is_empty() { "-".into() } else { parts.join(",") }, evs))
        }
    }
}

pub fn frame(ty: u8, payload: &[u8], len_field: Option<u16>, bad_crc: bool) -> Vec<u8> {
    let mut h = crc32fast::Hasher::default();
    h.update(&[ty]);
    h.update(payload);
    let mut crc = h.finalize();
    if bad_crc {
        crc ^= 0x1234;
    }
    let mut v = crc.to_le_bytes().to_vec();
    v.extend_from_slice(&len_field.unwrap_or(payload.len() as u16).to_le_bytes());
    v.push(ty);
    v.extend_from_slice(payload);
    v
}

fn entry_bytes(rng: &mut Rng) -> Vec<u8> {
    // a (possibly malformed) serialised MultiPlexedRecord
    let tag = *rng.pick(&[1u8, 2, 3, 4, 4, 4, 0, 5, 255]);
    let mut v = vec![tag];
    let pos = match rng.below(4) { 0 => 0, 1 => rng.below(1000), 2 => u64::MAX - rng.below(3), _ => rng.next() };
    v.extend_from_slice(&pos.to_le_bytes());
    let name: Vec<u8> = match rng.below(5) { 0 => vec![], 1 => b"q0".to_vec(), 2 => "été".as_bytes().to_vec(), 3 => vec![0xff, 0xfe], _ => vec![0xe2, 0x82] };
    let qlen = match rng.below(5) { 0 => name.len() as u16 + 1 + rng.below(300) as u16, _ => name.len() as u16 };
    v.extend_from_slice(&qlen.to_le_bytes());
    v.extend_from_slice(&name);
    for _ in 0..rng.below(4) {
        let p = if rng.chance(1, 5) { rng.next() } else { rng.below(50) };
        let l = rng.below(40) as u32;
        v.extend_from_slice(&p.to_le_bytes());
        let lf = if rng.chance(1, 6) { l + 1 + rng.below(100000) as u32 } else { l };
        v.extend_from_slice(&lf.to_le_bytes());
        v.extend((0..l).map(|_| rng.next() as u8));
    }
    if rng.chance(1, 5) {
        let k = rng.below(v.len() as u64 + 1) as usize;
        v.truncate(k);
    }
    v
}

pub fn case_bytes(scratch: &Path, meta: usize, id: &str, seed: u64, len: usize, replay: Option<&Case>) -> CaseResult {
    let mut rng = Rng::new(seed);
    let mut r = Runner::new(scratch.join(id), meta);
    let b = BLOCK as usize;
    let mut lines: Vec<String> = Vec::new();
    if let Some(case) = replay {
        // replay files of this campaign store the raw command lines as comments of kind `#!`
        let _ = case;
    }
    let n = 4 + len / 10;
    for _ in 0..n {
        match rng.below(10) {
            0..=4 => {
                // codec: the first entry sets the alignment of the second
                let k = 1 + rng.below(6) as usize;
                let mut toks: Vec<Payload> = Vec::new();
                let mut cursor = 0usize;
                for _ in 0..k {
                    let room = b - cursor % b;
                    let l = match rng.below(10) {
                        0 => 0,
                        1 => 1 + rng.below(20) as usize,
                        // end exactly `d` bytes before the block end, d in 0..=15
                        2..=5 => {
                            let d = rng.below(16) as usize;
                            let room = if room < 7 { b } else { room };
                            if room >= 7 + d { room - 7 - d } else { b + room - 7 - d }
                        }
                        6 => b - 7 - rng.below(3) as usize,
                        7 => b * (1 + rng.below(8) as usize) + rng.below(50) as usize,
                        8 => 300_000 + rng.below(10_000) as usize,
                        _ => rng.below(5000) as usize,
                    };
                    toks.push(Payload::Gen { len: l, seed: rng.below(1_000_000) });
                    // advance an approximate cursor (exact value comes from the real writer below)
                    cursor += l + 7;
                }
                let entries: Vec<Vec<u8>> = toks.iter().map(|t| t.bytes()).collect();
                let line = format!("codec {}", toks.iter().map(|t| t.tok()).collect::<Vec<_>>().join(" "));
                let res = catch_unwind(AssertUnwindSafe(|| codec::write_entries(&entries)));
                r.stats.inc("bytes.codec");
                match res {
                    Err(_) => {
                        r.violate("C07", format!("`{}`: the writer panicked", &line[..line.len().min(200)]));
                        r.out.push("B PANIC".into());
                    }
                    Ok((buf, counts)) => {
                        r.out.push(format!("B total={} fnv={} counts={}", buf.len(), fnv64(&buf), counts.iter().map(|c| c.to_string()).collect::<Vec<_>>().join(",")));
                        if counts.iter().sum::<u64>() != buf.len() as u64 {
                            r.violate("C15", format!("`{}`: write_record reported {} bytes, {} were written", &line[..line.len().min(200)], counts.iter().sum::<u64>(), buf.len()));
                        }
                        let end = buf.len();
                        let data = pad_blocks(buf);
                        match read_line(&data) {
                            Err(e) => {
                                r.violate("C10", format!("`{}`: the reader {}", &line[..line.len().min(200)], e));
                                r.out.push(format!("N {}", e));
                            }
                            Ok((s, evs)) => {
                                let endpos = if b - end % b < 7 { end + (b - end % b) } else { end };
                                r.out.push(format!("N {} end={}", s, endpos));
                                let ok = evs.len() == entries.len() && evs.iter().zip(entries.iter()).all(|(a, e)| a.as_ref() == Some(e));
                                if !ok {
                                    r.violate("C07", format!("`{}`: entries written are not read back identical and in order ({} written, read `{}`)", &line[..line.len().min(200)], entries.len(), &s[..s.len().min(200)]));
                                }
                                // alignment classes hit by this case
                                r.stats.inc("bytes.roundtrip_ok");
                            }
                        }
                    }
                }
                r.annot.push(line);
            }
            5..=6 => {
                // arbitrary / crafted block content
                let mut toks: Vec<Payload> = Vec::new();
                let mut used = 0usize;
                for _ in 0..(1 + rng.below(12)) {
                    let t = match rng.below(9) {
                        0 => Payload::Gen { len: 1 + rng.below(3000) as usize, seed: rng.below(1000) },
                        1 => Payload::Zeros(1 + rng.below(40) as usize),
                        2 => Payload::Hex(frame(*rng.pick(&[1u8, 2, 3, 4]), &gen_payload(rng.below(200) as usize, rng.below(100)), None, false)),
                        3 => Payload::Hex(frame(*rng.pick(&[0u8, 5, 9, 255]), &gen_payload(rng.below(50) as usize, 1), None, false)),
                        4 => {
                            // hostile length fields: absolute, and relative to the room left in the block
                            let room = (b - used % b) as i64 - 7;
                            let rel = (room + rng.below(12) as i64 - 3).clamp(0, 65535) as u16;
                            let lf = *rng.pick(&[32761u16, 32762, 40000, 65535, 0, rel, rel, rel]);
                            Payload::Hex(frame(*rng.pick(&[1u8, 2, 3, 4]), &gen_payload(rng.below(50) as usize, 2), Some(lf), false))
                        }
                        5 => Payload::Hex(frame(*rng.pick(&[1u8, 2, 3, 4]), &gen_payload(rng.below(100) as usize, 3), None, true)),
                        6 => Payload::Hex(frame(*rng.pick(&[2u8, 3, 4]), &[], None, false)),
                        7 => {
                            // jump near the end of the block
                            let room = b - used % b;
                            Payload::Zeros(room.saturating_sub(rng.below(12) as usize))
                        }
                        _ => Payload::Hex(frame(*rng.pick(&[2u8, 3]), &gen_payload((b - used % b).saturating_sub(7).min(5000), 4), None, false)),
                    };
                    used += t.len();
                    toks.push(t);
                }
                if rng.chance(1, 3) {
                    // a well-formed multi-frame entry (First, Middle*, Last) from the start of a
                    // block, with one frame's checksum or payload damaged, followed by a Full entry
                    toks.clear();
                    let nmid = 1 + rng.below(4) as usize;
                    let bad = rng.below(nmid as u64 + 2) as usize;
                    for i in 0..(nmid + 2) {
                        let ty = if i == 0 { 2u8 } else if i == nmid + 1 { 4 } else { 3 };
                        let plen = if i == nmid + 1 { 1 + rng.below(500) as usize } else { b - 7 };
                        toks.push(Payload::Hex(frame(ty, &gen_payload(plen, rng.below(1000)), None, i == bad && rng.chance(3, 4))));
                    }
                    toks.push(Payload::Hex(frame(1, &gen_payload(1 + rng.below(100) as usize, 5), None, false)));
                }
                let raw: Vec<u8> = toks.iter().flat_map(|t| t.bytes()).collect();
                let line = format!("rawread {}", toks.iter().map(|t| t.tok()).collect::<Vec<_>>().join(" "));
                let data = pad_blocks(raw);
                r.stats.inc("bytes.rawread");
                match read_line(&data) {
                    Err(e) => {
                        r.violate("C10", format!("`{}`: the reader {}", &line[..line.len().min(300)], e));
                        r.out.push(format!("N {}", e));
                    }
                    Ok((s, _)) => r.out.push(format!("N {}", s)),
                }
                r.annot.push(line);
            }
            7..=8 => {
                let bytes = entry_bytes(&mut rng);
                let line = format!("decode x:{}", hex(&bytes));
                r.stats.inc("bytes.decode");
                let res = catch_unwind(AssertUnwindSafe(|| codec::decode_entry(&bytes)));
                match res {
                    Err(_) => {
                        r.violate("C10", format!("`{}`: the entry decoder panicked", &line[..line.len().min(300)]));
                        r.out.push("K PANIC".into());
                    }
                    Ok(None) => r.out.push("K none".into()),
                    Ok(Some((tag, q, pos, recs))) => {
                        let rs: Vec<String> = recs.iter().map(|(p, b)| crate::real::rec_s(*p, b)).collect();
                        r.out.push(format!("K {} q={} pos={} recs={}", tag, hex(q.as_bytes()), pos, if rs.is_empty() { "-".into() } else { rs.join(",") }));
                    }
                }
                r.annot.push(line);
            }
            _ => {
                let name: Vec<u8> = match rng.below(8) {
                    0 => crate::real::wal_name(rng.next()).into_bytes(),
                    1 => crate::real::wal_name(rng.below(1000)).into_bytes(),
                    2 => format!("wal-{}", u64::MAX).into_bytes(),
                    3 => "wal-18446744073709551616".as_bytes().to_vec(),
                    4 => format!("wal-{:019}", rng.below(1000)).into_bytes(),
                    5 => format!("wal-{:021}", rng.below(1000)).into_bytes(),
                    6 => "wal-000000000000000000\u{0663}".as_bytes().to_vec(),
                    _ => {
                        let mut v = crate::real::wal_name(rng.below(100)).into_bytes();
                        let i = rng.below(v.len() as u64) as usize;
                        v[i] = *rng.pick(&[b'a', b'+', b'-', b' ', b'W', b'9', b'0']);
                        v
                    }
                };
                let line = format!("fname x:{}", hex(&name));
                r.stats.inc("bytes.fname");
                let got = std::str::from_utf8(&name).ok().and_then(codec::filename_to_position);
                r.out.push(match got { Some(n) => format!("M {}", n), None => "M -".into() });
                r.annot.push(line);
            }
        }
    }
    r.ops.push((false, Op::State));
    lines.clear();
    let nontrivial = r.stats.get("bytes.codec") >= 1 && r.stats.get("bytes.rawread") >= 1;
    let mut res = crate::camp::finish_pub(r, id, nontrivial);
    // the replay of a bytes case is its annotated command list
    res.plain = Case { id: id.to_string(), ops: Vec::new() };
    res
}
