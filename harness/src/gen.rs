//! History generator. Sizes are drawn *relative to the write cursor* so that every
//! remaining-space case of the framing layer (0..6 bytes left, exactly a header, a header plus
//! one byte, block and file boundaries) is hit on purpose rather than by luck.
use crate::ops::*;
use crate::run::Runner;

pub struct GenCfg {
    pub max_queues: usize,
    pub allow_reopen: bool,
    pub reopen_pols: Vec<Pol>,
    pub big_weight: u64,
    pub allow_rejected: bool,
    pub allow_persist: bool,
    /// mostly create_queue calls with long, unique names: metadata entries that roll files over
    /// without any record pinning them
    pub create_heavy: bool,
    /// frequent delete_queue / re-creation of the same names (new incarnations)
    pub churn: bool,
}

impl Default for GenCfg {
    fn default() -> Self {
        GenCfg {
            max_queues: 4,
            allow_reopen: true,
            reopen_pols: vec![Pol::AlwaysFlush],
            big_weight: 6,
            allow_rejected: true,
            allow_persist: true,
            create_heavy: false,
            churn: false,
        }
    }
}

pub const NAMES: [&str; 8] = ["q0", "q1", "q2", "q3", "été-ü", "a", "queue/with/slash", "q4"];

pub fn long_name(rng: &mut Rng) -> String {
    let len = *rng.pick(&[255usize, 1000, 30000, 30000, 60000, 65535]);
    let mut s = String::with_capacity(len);
    while s.len() < len {
        s.push((b'a' + (rng.below(26) as u8)) as char);
    }
    s
}

fn existing(r: &Runner, rng: &mut Rng) -> Option<String> {
    let names: Vec<&String> = r.spec.queues.keys().collect();
    if names.is_empty() {
        None
    } else {
        Some((*rng.pick(&names)).clone())
    }
}

fn missing(r: &Runner, rng: &mut Rng) -> String {
    for _ in 0..10 {
        let n = rng.pick(&NAMES).to_string();
        if !r.spec.queues.contains_key(&n) {
            return n;
        }
    }
    "nope".to_string()
}

/// payload length so that a single-record append entry to `q` ends `delta` bytes away from the
/// point where exactly a frame header would be left in the block
pub fn len_for_room(cursor_off: u64, qlen: usize, nrec: usize, delta: i64) -> usize {
    let room = BLOCK - cursor_off % BLOCK;
    let room = if room < HEADER { BLOCK } else { room };
    // entry bytes = 11 + qlen + 12*nrec + payload ; frame = 7 + entry
    let overhead = (HEADER as i64) + 11 + qlen as i64 + 12 * nrec as i64;
    // target: after the frame, `HEADER + delta` bytes remain in the block
    let want = room as i64 - overhead - HEADER as i64 - delta;
    if want < 0 {
        (want + BLOCK as i64).max(0) as usize
    } else {
        want as usize
    }
}

pub fn payload_len(r: &Runner, rng: &mut Rng, qlen: usize, nrec: usize, cfg: &GenCfg) -> usize {
    let off = r.real.cursor.1;
    let w = rng.below(100);
    if off >= FILE - BLOCK && off < FILE && rng.chance(1, 4) {
        // in the last block of a file: end exactly at the end of the file (or a few bytes short)
        let delta = if rng.chance(1, 2) { -7 } else { rng.below(8) as i64 - 7 };
        return len_for_room(off, qlen, nrec, delta);
    }
    if w < 20 {
        // leave 0..=14 bytes before the block end: covers padding (<7), exactly a header (7), 8, ...
        let delta = rng.below(15) as i64 - 7;
        len_for_room(off, qlen, nrec, delta)
    } else if w < 28 {
        0
    } else if w < 36 {
        1 + rng.below(3) as usize
    } else if w < 75 {
        rng.below(300) as usize
    } else if w < 90 {
        rng.below(6000) as usize
    } else if w < 100 - cfg.big_weight {
        (BLOCK as usize) - 64 + rng.below(128) as usize
    } else {
        let x = rng.below(10);
        if x < 5 {
            (BLOCK * (1 + rng.below(3))) as usize + rng.below(100) as usize
        } else if x < 8 {
            (FILE as usize) - 200 + rng.below(400) as usize
        } else {
            (BLOCK * (4 + rng.below(6))) as usize + rng.below(1000) as usize
        }
    }
}

fn crc_table() -> [u32; 256] {
    let mut t = [0u32; 256];
    for i in 0..256u32 {
        let mut c = i;
        for _ in 0..8 {
            c = if c & 1 != 0 { 0xEDB88320 ^ (c >> 1) } else { c >> 1 };
        }
        t[i as usize] = c;
    }
    t
}

/// four bytes which, appended to `prefix`, make the CRC-32 of the whole equal to `target`
pub fn crc_forcing_suffix(prefix: &[u8], target: u32) -> [u8; 4] {
    let t = crc_table();
    let mut h = crc32fast::Hasher::new();
    h.update(prefix);
    let state = h.finalize() ^ 0xFFFF_FFFF;
    // undo four zero-byte steps from the wanted final register
    let mut r = target ^ 0xFFFF_FFFF;
    for _ in 0..4 {
        let idx = (0..256usize).find(|i| t[*i] >> 24 == r >> 24).unwrap();
        r = ((r ^ t[idx]) << 8) | idx as u32;
    }
    (state ^ r).to_le_bytes()
}

/// a single-record payload for which the frame holding the append entry of `q` at `pos` gets the
/// checksum `target` (the entry must fit in one Full frame): content-dependent special cases of the
/// reader (a null checksum word, an all-ones one) are reached on purpose, not once in 2^32 frames
pub fn payload_with_frame_crc(q: &str, pos: u64, body: &[u8], target: u32) -> Vec<u8> {
    let plen = body.len() + 4;
    let mut pre = vec![1u8]; // frame type Full
    pre.push(4u8); // AppendRecords
    pre.extend_from_slice(&pos.to_le_bytes());
    pre.extend_from_slice(&(q.len() as u16).to_le_bytes());
    pre.extend_from_slice(q.as_bytes());
    pre.extend_from_slice(&pos.to_le_bytes());
    pre.extend_from_slice(&(plen as u32).to_le_bytes());
    pre.extend_from_slice(body);
    let suffix = crc_forcing_suffix(&pre, target);
    let mut payload = body.to_vec();
    payload.extend_from_slice(&suffix);
    let mut h = crc32fast::Hasher::new();
    h.update(&pre);
    h.update(&suffix);
    assert_eq!(h.finalize(), target);
    payload
}

pub fn gen_append(r: &Runner, rng: &mut Rng, cfg: &GenCfg, q: String) -> Op {
    let next = r.spec.queues.get(&q).map(|s| s.next).unwrap_or(0);
    if rng.chance(1, 40) && q.len() < 200 {
        let body: Vec<u8> = (0..rng.below(24)).map(|_| rng.next() as u8).collect();
        let frame_len = HEADER + 11 + q.len() as u64 + 12 + body.len() as u64 + 4;
        let off = r.real.cursor.1;
        let room = BLOCK - off % BLOCK;
        let room = if room < HEADER { BLOCK } else { room };
        if frame_len <= room {
            let target = *rng.pick(&[0u32, 0, 0xFFFF_FFFF, 0x0000_0001, 0xFF00_0000]);
            let payload = payload_with_frame_crc(&q, next, &body, target);
            return Op::Append { q, pos: None, payloads: vec![Payload::Hex(payload)] };
        }
    }
    if rng.chance(1, 40) {
        // a large batch of equal-size records whose serialised size (12 + len) divides the
        // payload capacity of a full frame (32761 = 181 * 181): losing whole frames out of the
        // middle of such a batch leaves a byte string that still parses as a batch
        let len = *rng.pick(&[169usize, 169, 350]);
        let n = 380 + rng.below(300) as usize;
        let seed = rng.below(1_000_000);
        let payloads = (0..n).map(|i| Payload::Gen { len, seed: seed + i as u64 }).collect();
        return Op::Append { q, pos: None, payloads };
    }
    let nrec = match rng.below(20) {
        0 => 0,
        1..=12 => 1,
        13..=16 => 2,
        17..=18 => 3 + rng.below(4) as usize,
        _ => 1,
    };
    let mut payloads = Vec::new();
    for i in 0..nrec {
        let len = if i == 0 || rng.chance(1, 3) { payload_len(r, rng, q.len(), nrec, cfg) } else { rng.below(200) as usize };
        payloads.push(Payload::Gen { len, seed: rng.next() % 1_000_000 });
    }
    let pos = match rng.below(20) {
        0..=11 => None,
        12..=13 => Some(next),
        14 => Some(next + 1 + rng.below(5)),
        15 => Some(match rng.below(8) {
            // far into the future: beyond 32 bits, near 2^61 (the properties quantify up to 2^62)
            0 if next < (1 << 60) => next + (1u64 << 32) + rng.below(1000),
            1 if next < (1 << 60) => (1u64 << 61) + rng.below(1000),
            _ => next + 1000 + rng.below(1_000_000),
        }),
        16 if cfg.allow_rejected && next > 0 => Some(next - 1),
        17 if cfg.allow_rejected && next > 1 => Some(rng.below(next - 1)),
        _ => None,
    };
    Op::Append { q, pos, payloads }
}

pub fn gen_truncate(r: &Runner, rng: &mut Rng, q: String) -> Op {
    let sq = r.spec.queues.get(&q);
    let next = sq.map(|s| s.next).unwrap_or(0);
    let first = sq.and_then(|s| s.recs.first().map(|x| x.0)).unwrap_or(next);
    let pos = match rng.below(10) {
        0 => first.saturating_sub(1 + rng.below(3)),
        1..=4 => {
            if next > first {
                first + rng.below(next - first)
            } else {
                next
            }
        }
        5..=7 => next.saturating_sub(1),
        8 => if rng.chance(1, 6) && next < (1 << 60) { next + (1u64 << 33) + rng.below(10) } else { next + rng.below(10) },
        _ => next.saturating_sub(2),
    };
    Op::Truncate { q, pos }
}

pub fn gen_range(r: &Runner, rng: &mut Rng, q: String) -> Op {
    let sq = r.spec.queues.get(&q);
    let next = sq.map(|s| s.next).unwrap_or(0);
    let first = sq.and_then(|s| s.recs.first().map(|x| x.0)).unwrap_or(next);
    let mut b = |rng: &mut Rng| -> Bnd {
        let around = match rng.below(4) {
            0 => first,
            1 => next,
            _ => first + rng.below(next.saturating_sub(first) + 2),
        };
        let p = (around + rng.below(3)).saturating_sub(1);
        match rng.below(3) {
            0 => Bnd::U,
            1 => Bnd::I(p),
            _ => Bnd::E(p),
        }
    };
    Op::Range { q, lo: b(rng), hi: b(rng) }
}

/// next operation of an `ops`-style history
pub fn gen_op(r: &Runner, rng: &mut Rng, cfg: &GenCfg) -> Op {
    let nq = r.spec.queues.len();
    if nq == 0 {
        return Op::Create(rng.pick(&NAMES[..cfg.max_queues.min(NAMES.len())]).to_string());
    }
    let w = rng.below(100);
    let q = existing(r, rng).unwrap();
    if cfg.create_heavy && nq < 16 && (cfg.max_queues >= 1000 || rng.chance(3, 5)) {
        // few queues, names long enough that a dozen of them fill a 128 KiB file
        let len = *rng.pick(&[9000usize, 11000, 13000, 16000]);
        let mut s = String::with_capacity(len);
        while s.len() < len {
            s.push((b'a' + (rng.below(26) as u8)) as char);
        }
        return Op::Create(s);
    }
    let (c_hi, d_hi) = if cfg.churn { (10, 20) } else { (5, 8) };
    if w < c_hi {
        if nq < cfg.max_queues {
            // queues with long names make the (rare) metadata entries big enough to straddle
            // block and file boundaries: create, delete, truncate and the GC's position entries
            let longs = r.spec.queues.keys().filter(|k| k.len() > 200).count();
            if longs < 2 && rng.chance(1, 6) {
                Op::Create(long_name(rng))
            } else {
                // prefer re-creating a name that was deleted earlier (a new incarnation)
                let deleted: Vec<&String> = r.spec.incarnations.keys().filter(|k| !r.spec.queues.contains_key(*k) && k.len() < 200).collect();
                if !deleted.is_empty() && rng.chance(1, 2) {
                    Op::Create((*rng.pick(&deleted)).clone())
                } else {
                    Op::Create(missing(r, rng))
                }
            }
        } else if cfg.allow_rejected {
            Op::Create(q)
        } else {
            gen_append(r, rng, cfg, q)
        }
    } else if w < d_hi {
        Op::Delete(q)
    } else if w < 58 {
        gen_append(r, rng, cfg, q)
    } else if w < 76 {
        gen_truncate(r, rng, q)
    } else if w < 79 && cfg.allow_persist {
        Op::Persist(rng.chance(1, 2))
    } else if w < 87 {
        gen_range(r, rng, q)
    } else if w < 91 && cfg.allow_reopen {
        Op::Reopen(*rng.pick(&cfg.reopen_pols))
    } else if w < 97 && cfg.allow_rejected {
        let m = missing(r, rng);
        match rng.below(5) {
            0 => Op::Delete(m),
            1 => Op::Truncate { q: m, pos: rng.below(10) },
            2 => Op::Append { q: m, pos: None, payloads: vec![Payload::Gen { len: 3, seed: 1 }] },
            3 => Op::Range { q: m, lo: Bnd::U, hi: Bnd::U },
            _ => Op::Create(q),
        }
    } else {
        Op::Dir
    }
}
