//! The sequential queue-map specification (C05), in Rust: the oracle the real library is
//! compared with. It mirrors `MRL.Spec` of the Lean development line by line.
use std::collections::BTreeMap;

use crate::ops::*;
use crate::real::Outcome;

#[derive(Clone, Debug, Default, PartialEq)]
pub struct SQueue {
    pub next: u64,
    pub recs: Vec<(u64, Vec<u8>)>,
    /// harness bookkeeping, not part of the specification: the file the write cursor was in when
    /// the append of each record began (ground truth for C06), parallel to `recs`
    pub files: Vec<u64>,
    /// number of `create` of this name so far (incarnation id, for C04)
    pub incarnation: u64,
}

#[derive(Clone, Debug, Default, PartialEq)]
pub struct Spec {
    pub queues: BTreeMap<String, SQueue>,
    pub incarnations: BTreeMap<String, u64>,
}

pub type Logical = BTreeMap<String, (Vec<(u64, Vec<u8>)>, u64)>;

impl Spec {
    pub fn logical(&self) -> Logical {
        self.queues.iter().map(|(k, q)| (k.clone(), (q.recs.clone(), q.next))).collect()
    }

    /// expected outcome (wal bytes ignored) and state change of a mutating call
    pub fn step(&mut self, op: &Op, cur_file: u64) -> Outcome {
        match op {
            Op::Create(q) => {
                if self.queues.contains_key(q) {
                    return Outcome::ErrExists;
                }
                let inc = self.incarnations.entry(q.clone()).or_insert(0);
                *inc += 1;
                self.queues.insert(q.clone(), SQueue { incarnation: *inc, ..Default::default() });
                Outcome::Created(0)
            }
            Op::Delete(q) => {
                if self.queues.remove(q).is_none() {
                    return Outcome::ErrMissing;
                }
                Outcome::Deleted(0)
            }
            Op::Append { q, pos, payloads } => {
                let Some(sq) = self.queues.get_mut(q) else {
                    return Outcome::ErrMissing;
                };
                if let Some(p) = pos {
                    if p.checked_add(1) == Some(sq.next) {
                        return Outcome::Appended(None, 0);
                    }
                    if *p < sq.next {
                        return Outcome::ErrPast;
                    }
                }
                let mut position = pos.unwrap_or(sq.next);
                if payloads.is_empty() {
                    return Outcome::Appended(None, 0);
                }
                let mut last = position;
                for p in payloads {
                    sq.recs.push((position, p.bytes()));
                    sq.files.push(cur_file);
                    last = position;
                    position += 1;
                }
                sq.next = position;
                Outcome::Appended(Some(last), 0)
            }
            Op::Truncate { q, pos } => {
                let Some(sq) = self.queues.get_mut(q) else {
                    return Outcome::ErrMissing;
                };
                let evicted = sq.recs.iter().filter(|(p, _)| p <= pos).count();
                sq.recs.drain(..evicted);
                sq.files.drain(..evicted);
                sq.next = sq.next.max(pos.saturating_add(1));
                Outcome::Truncated(evicted, 0)
            }
            Op::Persist(_) => Outcome::Persisted,
            _ => Outcome::None,
        }
    }

    pub fn range(&self, q: &str, lo: Bnd, hi: Bnd) -> Option<Vec<(u64, Vec<u8>)>> {
        self.queues.get(q).map(|sq| sq.recs.iter().filter(|(p, _)| lo.ok_lo(*p) && hi.ok_hi(*p)).cloned().collect())
    }

    /// oldest file any retained record was written into
    pub fn min_attr_file(&self) -> Option<u64> {
        self.queues.values().flat_map(|q| q.files.iter().copied()).min()
    }
}

/// same outcome up to the wal byte counts
pub fn same_logical_outcome(a: &Outcome, b: &Outcome) -> bool {
    match (a, b) {
        (Outcome::Created(_), Outcome::Created(_)) => true,
        (Outcome::Deleted(_), Outcome::Deleted(_)) => true,
        (Outcome::Appended(x, _), Outcome::Appended(y, _)) => x == y,
        (Outcome::Truncated(x, _), Outcome::Truncated(y, _)) => x == y,
        _ => a == b,
    }
}
