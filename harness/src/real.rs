//! Runs operations against the real library (in-process, hooks on) and prints the canonical
//! observation lines the Lean driver prints from the model.
use std::collections::BTreeMap;
use std::panic::{catch_unwind, AssertUnwindSafe};
use std::path::{Path, PathBuf};
use std::time::{Duration, Instant};

use mrecordlog::error::{AppendError, CreateQueueError, DeleteQueueError, ReadRecordError, TruncateError};
use mrecordlog::verif_hooks::{self as hooks, Event, FaultPlan};
use mrecordlog::{MultiRecordLog, PersistAction, PersistPolicy};

use crate::ops::*;

#[derive(Clone, Debug, PartialEq)]
pub enum Outcome {
    Created(u64),
    Deleted(u64),
    Appended(Option<u64>, u64),
    Truncated(usize, u64),
    Persisted,
    ErrExists,
    ErrMissing,
    ErrPast,
    ErrIo,
    OpenOk(u64),
    OpenErrIo,
    OpenErrCorruption,
    Panic(String),
    OpenPanic(String),
    Timeout,
    None,
}

impl Outcome {
    pub fn line(&self) -> String {
        match self {
            Outcome::Created(n) => format!("R created {}", n),
            Outcome::Deleted(n) => format!("R deleted {}", n),
            Outcome::Appended(l, n) => format!("R appended {} {}", l.map(|x| x.to_string()).unwrap_or("-".into()), n),
            Outcome::Truncated(e, n) => format!("R truncated {} {}", e, n),
            Outcome::Persisted => "R persisted".into(),
            Outcome::ErrExists => "R err:exists".into(),
            Outcome::ErrMissing => "R err:missing".into(),
            Outcome::ErrPast => "R err:past".into(),
            Outcome::ErrIo => "R err:io".into(),
            Outcome::OpenOk(io) => format!("O ok io={}", io),
            Outcome::OpenErrIo => "O err:io".into(),
            Outcome::OpenErrCorruption => "O err:corruption".into(),
            Outcome::Panic(_) => "R PANIC".into(),
            Outcome::OpenPanic(_) => "O PANIC".into(),
            Outcome::Timeout => "R TIMEOUT".into(),
            Outcome::None => "".into(),
        }
    }
    pub fn is_panic(&self) -> bool {
        matches!(self, Outcome::Panic(_) | Outcome::OpenPanic(_) | Outcome::Timeout)
    }
}

pub fn policy_of(p: Pol) -> PersistPolicy {
    let never = Duration::from_secs(3600 * 24);
    match p {
        Pol::Nothing => PersistPolicy::DoNothing,
        Pol::DelayFlush => PersistPolicy::OnDelay { interval: never, action: PersistAction::Flush },
        Pol::DelayFsync => PersistPolicy::OnDelay { interval: never, action: PersistAction::FlushAndFsync },
        Pol::DelayNowFlush => PersistPolicy::OnDelay { interval: Duration::ZERO, action: PersistAction::Flush },
        Pol::DelayNowFsync => PersistPolicy::OnDelay { interval: Duration::ZERO, action: PersistAction::FlushAndFsync },
        Pol::AlwaysFlush => PersistPolicy::Always(PersistAction::Flush),
        Pol::AlwaysFsync => PersistPolicy::Always(PersistAction::FlushAndFsync),
    }
}

/// make sure `Instant::now()` has moved so that a zero `OnDelay` interval is strictly due
fn advance_clock() {
    let t0 = Instant::now();
    while Instant::now() <= t0 {
        std::hint::spin_loop();
    }
}

pub fn wal_name(n: u64) -> String {
    format!("wal-{:020}", n)
}

pub fn parse_wal_name(name: &str) -> Option<u64> {
    if name.len() == 24 && name.starts_with("wal-") && name[4..].bytes().all(|b| b.is_ascii_digit()) {
        name[4..].parse().ok()
    } else {
        None
    }
}

/// (number, content) of every wal file of a directory, ascending
pub fn read_dir_image(dir: &Path) -> Vec<(u64, Vec<u8>)> {
    let mut files = Vec::new();
    if let Ok(rd) = std::fs::read_dir(dir) {
        for e in rd.flatten() {
            if !e.file_type().map(|t| t.is_file()).unwrap_or(false) {
                continue;
            }
            if let Some(n) = e.file_name().to_str().and_then(parse_wal_name) {
                files.push((n, std::fs::read(e.path()).unwrap_or_default()));
            }
        }
    }
    files.sort();
    files
}

pub fn dir_line(img: &[(u64, Vec<u8>)]) -> String {
    if img.is_empty() {
        return "D -".into();
    }
    let parts: Vec<String> = img.iter().map(|(f, c)| format!("{}:{}:{}", f, c.len(), fnv64(c))).collect();
    format!("D {}", parts.join(" "))
}

pub fn write_image(dir: &Path, img: &[(u64, Vec<u8>)]) {
    let _ = std::fs::remove_dir_all(dir);
    std::fs::create_dir_all(dir).unwrap();
    for (f, c) in img {
        std::fs::write(dir.join(wal_name(*f)), c).unwrap();
    }
}

pub fn effects_line(events: &[Event]) -> String {
    let mut parts = Vec::new();
    for e in events {
        match e {
            Event::Write { file, off, data } => parts.push(format!("W:{}:{}:{}:{}", file, off, data.len(), fnv64(data))),
            Event::Flush => parts.push("FL".into()),
            Event::FsyncFile(f) => parts.push(format!("FS:{}", f)),
            Event::FsyncDir => parts.push("FD".into()),
            Event::Create(f) => parts.push(format!("CR:{}", f)),
            Event::SetLen(f, n) => parts.push(format!("SL:{}:{}", f, n)),
            Event::EnsureLen(f, n) => parts.push(format!("EL:{}:{}", f, n)),
            Event::Unlink(f) => parts.push(format!("UL:{}", f)),
            Event::OpenFile(_) | Event::ListDir | Event::ReadBlock(_) | Event::Seek(_, _) | Event::GcRecordPosition(_) | Event::SyncedContent { .. } | Event::SyncedDir(_) => {}
        }
    }
    if parts.is_empty() {
        "E -".into()
    } else {
        format!("E {}", parts.join(" "))
    }
}

/// queue names longer than 64 bytes are printed as `h<fnv64>:<length>`
pub fn name_tok(name: &[u8]) -> String {
    if name.len() <= 64 {
        hex(name)
    } else {
        format!("h{}:{}", fnv64(name), name.len())
    }
}

pub fn gc_order(events: &[Event]) -> String {
    let names: Vec<String> = events
        .iter()
        .filter_map(|e| if let Event::GcRecordPosition(q) = e { Some(name_tok(q.as_bytes())) } else { None })
        .collect();
    if names.is_empty() {
        "-".into()
    } else {
        names.join(",")
    }
}

pub fn rec_s(pos: u64, payload: &[u8]) -> String {
    format!("{}:{}:{}", pos, payload.len(), fnv64(payload))
}

/// Observable state of one queue, as read through the public API
#[derive(Clone, Debug, PartialEq, Eq)]
pub struct QObs {
    pub start: u64,
    pub last: Option<u64>,
    pub first_file: Option<u64>,
    pub last_record: Option<(u64, Vec<u8>)>,
    pub recs: Vec<(u64, Vec<u8>)>,
}
impl QObs {
    pub fn next(&self) -> u64 {
        self.last.map(|l| l + 1).unwrap_or(0)
    }
}
pub type Obs = BTreeMap<String, QObs>;

/// logical part of the observation (what C01 compares): name -> (records, next)
pub fn logical(obs: &Obs) -> BTreeMap<String, (Vec<(u64, Vec<u8>)>, u64)> {
    obs.iter().map(|(k, v)| (k.clone(), (v.recs.clone(), v.next()))).collect()
}

pub fn observe(log: &MultiRecordLog) -> Obs {
    let summary = log.summary();
    let mut obs = Obs::new();
    let names: Vec<String> = log.list_queues().map(|s| s.to_string()).collect();
    for name in names {
        let recs: Vec<(u64, Vec<u8>)> = log.range(&name, ..).unwrap().map(|r| (r.position, r.payload.to_vec())).collect();
        let last = log.last_position(&name).unwrap();
        let last_record = log.last_record(&name).unwrap().map(|r| (r.position, r.payload.to_vec()));
        let (start, first_file) = summary.queues.get(&name).map(|s| (s.start, s.file_number)).unwrap_or((u64::MAX, None));
        obs.insert(name, QObs { start, last, first_file, last_record, recs });
    }
    obs
}

/// the read accessors agree with one another: `summary()` has exactly the listed queues and its
/// `end` is `last_position`, `queue_exists` holds of exactly the listed queues, the accessors of a
/// missing queue report `MissingQueue`
pub fn accessor_inconsistency(log: &MultiRecordLog) -> Option<String> {
    let summary = log.summary();
    let names: Vec<String> = log.list_queues().map(|s| s.to_string()).collect();
    let mut listed: Vec<&String> = names.iter().collect();
    listed.sort();
    let keys: Vec<&String> = summary.queues.keys().collect();
    if listed != keys {
        return Some(format!("summary() lists {} queues, list_queues() {}", keys.len(), listed.len()));
    }
    for name in &names {
        if !log.queue_exists(name) {
            return Some(format!("queue_exists is false for the listed queue {:?}", &name[..name.len().min(40)]));
        }
        let last = log.last_position(name).ok().flatten();
        if summary.queues.get(name).map(|s| s.end) != Some(last) {
            return Some(format!("summary().end of {:?} is not last_position()", &name[..name.len().min(40)]));
        }
    }
    let ghost = "\u{1}no-such-queue\u{1}";
    if !names.iter().any(|n| n == ghost) {
        if log.queue_exists(ghost) || log.last_position(ghost).is_ok() || log.last_record(ghost).is_ok() || log.range(ghost, ..).is_ok() {
            return Some("an accessor does not report MissingQueue for a queue that does not exist".into());
        }
    }
    None
}

pub fn opt_s<T: ToString>(o: &Option<T>) -> String {
    o.as_ref().map(|x| x.to_string()).unwrap_or("-".into())
}

pub fn state_lines(obs: &Obs, files: &[u64], used: usize, disk: usize) -> Vec<String> {
    let mut lines = Vec::new();
    // sort by name *bytes* (BTreeMap<String> order is byte order already)
    for (name, q) in obs {
        let recs: Vec<String> = q.recs.iter().map(|(p, b)| rec_s(*p, b)).collect();
        lines.push(format!(
            "S q={} start={} next={} last={} ff={} lr={} n={} recs={}",
            name_tok(name.as_bytes()),
            q.start,
            q.next(),
            opt_s(&q.last),
            opt_s(&q.first_file),
            q.last_record.as_ref().map(|(p, b)| rec_s(*p, b)).unwrap_or("-".into()),
            q.recs.len(),
            if recs.is_empty() { "-".into() } else { recs.join(",") }
        ));
    }
    let fs: Vec<String> = files.iter().map(|f| f.to_string()).collect();
    lines.push(format!("F files={} disk={}", if fs.is_empty() { "-".into() } else { fs.join(",") }, disk));
    lines.push(format!("U used={}", used));
    lines
}

pub struct Exec {
    /// annotated op line for the Lean driver
    pub annot: String,
    pub out: Vec<String>,
    pub outcome: Outcome,
    pub events: Vec<Event>,
}

pub struct Real {
    pub snapshot: Vec<(u64, Vec<u8>)>,
    pub dir: PathBuf,
    pub log: Option<MultiRecordLog>,
    pub pol: Pol,
    /// write cursor as seen in the trace: (file, offset)
    pub cursor: (u64, u64),
    /// every event since the case started (for crash images)
    pub all_events: Vec<Event>,
}

fn panic_msg(e: Box<dyn std::any::Any + Send>) -> String {
    if let Some(s) = e.downcast_ref::<&str>() {
        s.to_string()
    } else if let Some(s) = e.downcast_ref::<String>() {
        s.clone()
    } else {
        "panic".into()
    }
}

impl Real {
    pub fn new(dir: PathBuf) -> Real {
        let _ = std::fs::remove_dir_all(&dir);
        std::fs::create_dir_all(&dir).unwrap();
        Real { snapshot: Vec::new(), dir, log: None, pol: Pol::AlwaysFlush, cursor: (0, 0), all_events: Vec::new() }
    }

    pub fn cleanup(&mut self) {
        self.log = None;
        let _ = std::fs::remove_dir_all(&self.dir);
    }

    fn absorb(&mut self, events: &[Event]) {
        for e in events {
            match e {
                Event::Write { file, off, data } => self.cursor = (*file, off + data.len() as u64),
                Event::Seek(file, off) => self.cursor = (*file, *off),
                _ => {}
            }
        }
        self.all_events.extend(events.iter().cloned());
    }

    /// open the directory as it is (drops the current log first, which flushes its buffer)
    pub fn open(&mut self, pol: Pol, fault: Option<FaultPlan>) -> (Outcome, Vec<Event>) {
        hooks::set_enabled(true);
        if self.log.is_some() {
            self.log = None; // BufWriter drop => flush
            self.all_events.push(Event::Flush);
        }
        hooks::take_events();
        hooks::set_fault_plan(fault);
        self.pol = pol;
        let dir = self.dir.clone();
        // run on a helper thread so that a hang can be reported instead of blocking the campaign
        let (tx, rx) = std::sync::mpsc::channel();
        let handle = std::thread::spawn(move || {
            hooks::set_enabled(true);
            hooks::set_probe_dir(Some(dir.clone()));
            hooks::set_fault_plan(fault);
            // the default `open` is `open_with_prefs(Always(Flush))`: use it when that is the policy
            let res = catch_unwind(AssertUnwindSafe(|| {
                if pol == Pol::AlwaysFlush && fault.is_none() {
                    MultiRecordLog::open(&dir)
                } else {
                    MultiRecordLog::open_with_prefs(&dir, policy_of(pol))
                }
            }));
            let events = hooks::take_events();
            let io = hooks::io_calls_made();
            let _ = tx.send((res, events, io));
        });
        let res = rx.recv_timeout(Duration::from_secs(20));
        hooks::set_fault_plan(None);
        match res {
            Err(_) => (Outcome::Timeout, Vec::new()),
            Ok((res, events, io)) => {
                let _ = handle.join();
                let outcome = match res {
                    Err(e) => Outcome::OpenPanic(panic_msg(e)),
                    Ok(Err(ReadRecordError::IoError(_))) => Outcome::OpenErrIo,
                    Ok(Err(ReadRecordError::Corruption)) => Outcome::OpenErrCorruption,
                    Ok(Ok(log)) => {
                        self.log = Some(log);
                        Outcome::OpenOk(io)
                    }
                };
                self.absorb(&events);
                (outcome, events)
            }
        }
    }

    pub fn files(&self) -> Vec<u64> {
        let mut v: Vec<u64> = std::fs::read_dir(&self.dir)
            .map(|rd| {
                rd.flatten()
                    .filter(|e| e.file_type().map(|t| t.is_file()).unwrap_or(false))
                    .filter_map(|e| e.file_name().to_str().and_then(parse_wal_name))
                    .collect()
            })
            .unwrap_or_default();
        v.sort();
        v
    }

    pub fn obs(&self) -> Option<Obs> {
        self.log.as_ref().map(observe)
    }

    pub fn exec(&mut self, op: &Op) -> Exec {
        hooks::set_enabled(true);
        hooks::set_probe_dir(Some(self.dir.clone()));
        hooks::take_events();
        let mut annot = op.line();
        let mut out = Vec::new();
        let mut outcome = Outcome::None;
        let mut events = Vec::new();
        match op {
            Op::Open(pol) | Op::Reopen(pol) => {
                let (oc, evs) = self.open(*pol, None);
                annot = format!("{} order={}", op.line(), gc_order(&evs));
                out.push(oc.line());
                if matches!(oc, Outcome::OpenOk(_)) {
                    out.push(effects_line(&evs));
                }
                outcome = oc;
                events = evs;
            }
            Op::FaultOpen { pol, fail, forever, kind } => {
                let kind = io_kind(kind);
                let (oc, evs) = self.open(*pol, Some(FaultPlan { fail_at: *fail, forever: *forever, kind }));
                annot = format!("{} order={}", op.line(), gc_order(&evs));
                out.push(oc.line());
                if matches!(oc, Outcome::OpenOk(_)) {
                    out.push(effects_line(&evs));
                }
                outcome = oc;
                events = evs;
            }
            Op::State => match &self.log {
                Some(log) => {
                    let files = self.files();
                    match catch_unwind(AssertUnwindSafe(|| {
                        let usage = log.resource_usage();
                        state_lines(&observe(log), &files, usage.memory_used_bytes, usage.disk_used_bytes)
                    })) {
                        Ok(lines) => out.extend(lines),
                        Err(_) => out.push("S PANIC".into()),
                    }
                }
                None => out.push("S closed".into()),
            },
            Op::Dir => out.push(dir_line(&read_dir_image(&self.dir))),
            Op::Range { q, lo, hi } => {
                let line = match self.log.as_ref().map(|l| l.range(q, (lo.to_std(), hi.to_std()))) {
                    Some(Ok(it)) => {
                        let v: Vec<String> = it.map(|r| rec_s(r.position, &r.payload)).collect();
                        if v.is_empty() {
                            "G -".to_string()
                        } else {
                            format!("G {}", v.join(","))
                        }
                    }
                    _ => "G err:missing".to_string(),
                };
                out.push(line);
            }
            Op::Crash { .. } => {}
            Op::Close => {
                if self.log.is_some() {
                    self.log = None;
                    self.all_events.push(Event::Flush);
                }
            }
            Op::Snapshot => self.snapshot = read_dir_image(&self.dir),
            Op::Restore => {
                self.log = None;
                for (f, _) in read_dir_image(&self.dir) {
                    let _ = std::fs::remove_file(self.dir.join(wal_name(f)));
                }
                for (f, c) in &self.snapshot {
                    std::fs::write(self.dir.join(wal_name(*f)), c).unwrap();
                }
            }
            Op::Poke { file, off, data } => {
                let path = self.dir.join(wal_name(*file));
                if let Ok(mut c) = std::fs::read(&path) {
                    let off = *off as usize;
                    if c.len() < off + data.len() {
                        c.resize(off + data.len(), 0);
                    }
                    c[off..off + data.len()].copy_from_slice(data);
                    std::fs::write(&path, c).unwrap();
                }
            }
            Op::SetLenFile { file, len } => {
                let path = self.dir.join(wal_name(*file));
                if let Ok(mut c) = std::fs::read(&path) {
                    c.resize(*len as usize, 0);
                    std::fs::write(&path, c).unwrap();
                }
            }
            Op::RmFile(f) => {
                let _ = std::fs::remove_file(self.dir.join(wal_name(*f)));
            }
            Op::CopyFile { src, dst } => {
                if let Ok(c) = std::fs::read(self.dir.join(wal_name(*src))) {
                    std::fs::write(self.dir.join(wal_name(*dst)), c).unwrap();
                }
            }
            Op::CopyBlock { f1, i1, f2, i2 } => {
                let b = BLOCK as usize;
                if let (Ok(c1), Ok(mut c2)) = (std::fs::read(self.dir.join(wal_name(*f1))), std::fs::read(self.dir.join(wal_name(*f2)))) {
                    let (a, z) = (*i1 as usize * b, *i2 as usize * b);
                    if c1.len() >= a + b && c2.len() >= z + b {
                        c2[z..z + b].copy_from_slice(&c1[a..a + b]);
                        std::fs::write(self.dir.join(wal_name(*f2)), c2).unwrap();
                    }
                }
            }
            _ => {
                if self.pol.tick() {
                    advance_clock();
                }
                let Some(log) = self.log.as_mut() else {
                    return Exec { annot, out: vec!["? bad-op".into()], outcome, events };
                };
                let res = catch_unwind(AssertUnwindSafe(|| match op {
                    Op::Create(q) => match log.create_queue(q) {
                        Ok(o) => Outcome::Created(o.wal_bytes_written),
                        Err(CreateQueueError::AlreadyExists) => Outcome::ErrExists,
                        Err(CreateQueueError::IoError(_)) => Outcome::ErrIo,
                    },
                    Op::Delete(q) => match log.delete_queue(q) {
                        Ok(o) => Outcome::Deleted(o.wal_bytes_written),
                        Err(DeleteQueueError::MissingQueue(_)) => Outcome::ErrMissing,
                        Err(DeleteQueueError::IoError(_)) => Outcome::ErrIo,
                    },
                    Op::Append { q, pos, payloads } => {
                        let bufs: Vec<Vec<u8>> = payloads.iter().map(|p| p.bytes()).collect();
                        // single appends go through `append_record` every other time (the thin
                        // wrapper is API surface too)
                        let single = bufs.len() == 1 && (bufs[0].len() % 2 == 0) == (pos.unwrap_or(0) % 2 == 0);
                        // the batch API takes any iterator of any `Buf`: vary the shape (exact size,
                        // unknown upper bound, no bounds at all, payloads in two chunks)
                        let shape = (bufs.len() + bufs.iter().map(|b| b.len()).sum::<usize>() + pos.unwrap_or(0) as usize / 3) % 4;
                        let res = if single {
                            log.append_record(q, *pos, &bufs[0][..])
                        } else {
                            match shape {
                                0 => log.append_records(q, *pos, bufs.iter().map(|b| &b[..])),
                                1 => log.append_records(q, *pos, bufs.iter().filter(|_| true).map(|b| &b[..])),
                                2 => {
                                    let mut it = bufs.iter();
                                    log.append_records(q, *pos, std::iter::from_fn(move || it.next().map(|b| &b[..])))
                                }
                                _ => log.append_records(q, *pos, bufs.iter().map(|b| {
                                    use bytes::Buf;
                                    let k = b.len() / 2;
                                    (&b[..k]).chain(&b[k..])
                                })),
                            }
                        };
                        match res {
                            Ok(o) => Outcome::Appended(o.last_position, o.wal_bytes_written),
                            Err(AppendError::MissingQueue(_)) => Outcome::ErrMissing,
                            Err(AppendError::Past) => Outcome::ErrPast,
                            Err(AppendError::IoError(_)) => Outcome::ErrIo,
                        }
                    }
                    Op::Truncate { q, pos } => match log.truncate(q, ..=*pos) {
                        Ok(o) => Outcome::Truncated(o.evicted_records, o.wal_bytes_written),
                        Err(TruncateError::MissingQueue(_)) => Outcome::ErrMissing,
                        Err(TruncateError::IoError(_)) => Outcome::ErrIo,
                    },
                    Op::Persist(fsync) => {
                        match log.persist(if *fsync { PersistAction::FlushAndFsync } else { PersistAction::Flush }) {
                            Ok(()) => Outcome::Persisted,
                            Err(_) => Outcome::ErrIo,
                        }
                    }
                    _ => Outcome::None,
                }));
                events = hooks::take_events();
                outcome = match res {
                    Ok(o) => o,
                    Err(e) => Outcome::Panic(panic_msg(e)),
                };
                self.absorb(&events);
                let tick = self.pol.tick() as u8;
                annot = match op {
                    Op::Append { .. } => format!("{} tick={}", op.line(), tick),
                    Op::Truncate { .. } => format!("{} tick={} order={}", op.line(), tick, gc_order(&events)),
                    Op::Delete(_) => format!("{} order={}", op.line(), gc_order(&events)),
                    _ => op.line(),
                };
                out.push(outcome.line());
                out.push(effects_line(&events));
            }
        }
        Exec { annot, out, outcome, events }
    }
}

/// OS-level operations derived from the event trace through a model of `BufWriter`
#[derive(Clone, Debug, PartialEq)]
pub enum OsOp {
    Write { file: u64, off: u64, data: Vec<u8> },
    Create(u64),
    SetLen(u64, u64),
    EnsureLen(u64, u64),
    Unlink(u64),
    /// `fdatasync` of a WAL file: its content so far is on stable storage
    SyncFile(u64),
    /// `fsync` of the directory: file creations and removals so far are on stable storage
    SyncDir,
}

pub const BUF_CAP: usize = 32768;

#[derive(Default)]
pub struct BufModel {
    pend: Vec<u8>,
    file: u64,
    off: u64,
}
impl BufModel {
    pub fn is_empty(&self) -> bool {
        self.pend.is_empty()
    }
    fn flush(&mut self, ops: &mut Vec<OsOp>) {
        if !self.pend.is_empty() {
            ops.push(OsOp::Write { file: self.file, off: self.off, data: std::mem::take(&mut self.pend) });
        }
    }
    pub fn step(&mut self, e: &Event, ops: &mut Vec<OsOp>) {
        match e {
            Event::Write { file, off, data } => {
                let spare = BUF_CAP - self.pend.len();
                if data.len() >= spare {
                    if data.len() > spare {
                        self.flush(ops);
                    }
                    if data.len() >= BUF_CAP {
                        ops.push(OsOp::Write { file: *file, off: *off, data: data.clone() });
                        return;
                    }
                }
                if self.pend.is_empty() {
                    self.file = *file;
                    self.off = *off;
                }
                self.pend.extend_from_slice(data);
            }
            Event::Flush => self.flush(ops),
            Event::FsyncFile(f) => ops.push(OsOp::SyncFile(*f)),
            Event::FsyncDir => ops.push(OsOp::SyncDir),
            Event::Create(f) => ops.push(OsOp::Create(*f)),
            Event::SetLen(f, n) => ops.push(OsOp::SetLen(*f, *n)),
            Event::EnsureLen(f, n) => ops.push(OsOp::EnsureLen(*f, *n)),
            Event::Unlink(f) => ops.push(OsOp::Unlink(*f)),
            _ => {}
        }
    }
}

pub fn os_ops(events: &[Event]) -> Vec<OsOp> {
    let mut m = BufModel::default();
    let mut ops = Vec::new();
    for e in events {
        m.step(e, &mut ops);
    }
    ops
}

pub type Img = BTreeMap<u64, Vec<u8>>;

pub fn apply_os(img: &mut Img, op: &OsOp, cut: Option<usize>) {
    match op {
        OsOp::Write { file, off, data } => {
            if let Some(c) = img.get_mut(file) {
                let data = match cut {
                    Some(k) => &data[..k.min(data.len())],
                    None => &data[..],
                };
                let off = *off as usize;
                if c.len() < off + data.len() {
                    c.resize(off + data.len(), 0);
                }
                c[off..off + data.len()].copy_from_slice(data);
            }
        }
        OsOp::Create(f) => {
            img.entry(*f).or_default();
        }
        OsOp::SetLen(f, n) => {
            if let Some(c) = img.get_mut(f) {
                c.resize(*n as usize, 0);
            }
        }
        OsOp::EnsureLen(f, n) => {
            if let Some(c) = img.get_mut(f) {
                if c.len() < *n as usize {
                    c.resize(*n as usize, 0);
                }
            }
        }
        OsOp::Unlink(f) => {
            img.remove(f);
        }
        OsOp::SyncFile(_) | OsOp::SyncDir => {}
    }
}

/// What survives a power loss after the first `instant` OS operations under the POSIX durability
/// rules: a file's content is what it was at its last `fdatasync` (later writes are lost: the
/// pre-sized file reads zeros there), and a file exists iff its creation was followed by an fsync
/// of the directory (removals since the last directory fsync are assumed done: a file that
/// reappears only adds older, already superseded entries in front). Returns the image plus the
/// recipe (`drop` files, `zero` file from offset) that turns the plain prefix image into it.
/// every stable `io::ErrorKind`, by the token used in case files
pub const IO_KINDS: [(&str, std::io::ErrorKind); 20] = {
    use std::io::ErrorKind::*;
    [
        ("other", Other),
        ("notfound", NotFound),
        ("denied", PermissionDenied),
        ("interrupted", Interrupted),
        ("wouldblock", WouldBlock),
        ("timedout", TimedOut),
        ("eof", UnexpectedEof),
        ("invaliddata", InvalidData),
        ("invalidinput", InvalidInput),
        ("writezero", WriteZero),
        ("alreadyexists", AlreadyExists),
        ("brokenpipe", BrokenPipe),
        ("unsupported", Unsupported),
        ("oom", OutOfMemory),
        ("connrefused", ConnectionRefused),
        ("connreset", ConnectionReset),
        ("connaborted", ConnectionAborted),
        ("notconnected", NotConnected),
        ("addrinuse", AddrInUse),
        ("addrnotavailable", AddrNotAvailable),
    ]
};

pub fn io_kind(tok: &str) -> std::io::ErrorKind {
    IO_KINDS.iter().find(|(t, _)| *t == tok).map(|(_, k)| *k).unwrap_or(std::io::ErrorKind::Other)
}

/// `undone`: of the unlinks issued since the last fsync of the directory, the last `undone` are not
/// durable (directory operations persist in order): those files are back, with the content a
/// power loss leaves them (what was fdatasync-ed; the rest of the pre-sized file reads as zeros)
pub fn power_loss_image(os: &[OsOp], instant: usize, undone: usize) -> (Img, Vec<u64>, Vec<(u64, u64)>) {
    let mut img = Img::new();
    let mut written_end: BTreeMap<u64, u64> = BTreeMap::new();
    let mut synced_end: BTreeMap<u64, u64> = BTreeMap::new();
    let mut dir_synced: std::collections::BTreeSet<u64> = Default::default();
    let mut und: Vec<(u64, Vec<u8>)> = Vec::new();
    for op in &os[..instant.min(os.len())] {
        if let OsOp::Unlink(f) = op {
            if dir_synced.contains(f) {
                if let Some(c) = img.get(f) {
                    let mut c = c.clone();
                    let s = synced_end.get(f).copied().unwrap_or(0);
                    if written_end.get(f).copied().unwrap_or(0) > s {
                        for b in c.iter_mut().skip(s as usize) {
                            *b = 0;
                        }
                    }
                    und.push((*f, c));
                }
            }
        }
        apply_os(&mut img, op, None);
        match op {
            OsOp::Write { file, off, data } => {
                let e = written_end.entry(*file).or_insert(0);
                *e = (*e).max(off + data.len() as u64);
            }
            OsOp::SyncFile(f) => {
                synced_end.insert(*f, written_end.get(f).copied().unwrap_or(0));
            }
            OsOp::SyncDir => {
                dir_synced = img.keys().copied().collect();
                und.clear();
            }
            _ => {}
        }
    }
    let back: Vec<(u64, Vec<u8>)> = und[und.len() - undone.min(und.len())..].to_vec();
    let mut drop = Vec::new();
    let mut zero = Vec::new();
    let files: Vec<u64> = img.keys().copied().collect();
    for f in files {
        if !dir_synced.contains(&f) {
            img.remove(&f);
            drop.push(f);
            continue;
        }
        let s = synced_end.get(&f).copied().unwrap_or(0);
        let w = written_end.get(&f).copied().unwrap_or(0);
        if w > s {
            let c = img.get_mut(&f).unwrap();
            for b in c.iter_mut().skip(s as usize) {
                *b = 0;
            }
            zero.push((f, s));
        }
    }
    for (f, c) in back {
        img.insert(f, c);
    }
    (img, drop, zero)
}

/// number of unlinks issued since the last fsync of the directory, after `instant` OS operations
pub fn pending_unlinks(os: &[OsOp], instant: usize) -> usize {
    let mut n = 0;
    for op in &os[..instant.min(os.len())] {
        match op {
            OsOp::Unlink(_) => n += 1,
            OsOp::SyncDir => n = 0,
            _ => {}
        }
    }
    n
}
