//! A checked run: the real library next to the Rust copy of the specification, with the
//! implementation-only oracles of the history properties evaluated after every call.
use std::collections::BTreeMap;
use std::path::PathBuf;

use mrecordlog::verif_hooks::Event;

use crate::ops::*;
use crate::real::*;
use crate::spec::*;

#[derive(Clone, Debug)]
pub struct Violation {
    pub prop: String,
    pub what: String,
}

#[derive(Default, Clone, Debug)]
pub struct Stats {
    pub c: BTreeMap<String, u64>,
}
impl Stats {
    pub fn inc(&mut self, k: &str) {
        *self.c.entry(k.to_string()).or_insert(0) += 1;
    }
    pub fn add(&mut self, k: &str, n: u64) {
        *self.c.entry(k.to_string()).or_insert(0) += n;
    }
    pub fn get(&self, k: &str) -> u64 {
        self.c.get(k).copied().unwrap_or(0)
    }
    pub fn merge(&mut self, o: &Stats) {
        for (k, v) in &o.c {
            *self.c.entry(k.clone()).or_insert(0) += v;
        }
    }
}

pub struct Runner {
    pub real: Real,
    pub spec: Spec,
    pub meta: usize,
    pub viol: Vec<Violation>,
    pub stats: Stats,
    pub annot: Vec<String>,
    pub out: Vec<String>,
    pub ops: Vec<(bool, Op)>,
    /// `out.len()` when each recorded op started (lines of op i = out[out_idx[i]..out_idx[i+1]])
    pub out_idx: Vec<usize>,
    pub dead: bool,
    /// which oracles to evaluate (crash continuations switch the history-only ones off)
    pub check_c06: bool,
    /// position each queue incarnation last handed out (C04)
    pub prefix: &'static str,
    /// ask the model driver to evaluate the journal invariant after every call
    pub jcheck: bool,
}

pub fn calibrate_meta(scratch: &std::path::Path) -> usize {
    let mut r = Real::new(scratch.join("calib"));
    r.exec(&Op::Open(Pol::AlwaysFlush));
    r.exec(&Op::Create("q".into()));
    r.exec(&Op::Append { q: "q".into(), pos: None, payloads: vec![Payload::Gen { len: 5, seed: 1 }] });
    // a library that cannot even do this is reported by every campaign's own oracles; the
    // calibration itself must not bring the harness down
    let used = r.log.as_ref().map(|l| std::panic::catch_unwind(std::panic::AssertUnwindSafe(|| l.resource_usage().memory_used_bytes)).unwrap_or(0)).unwrap_or(0);
    r.cleanup();
    used.saturating_sub(1 + 5)
}

impl Runner {
    pub fn new(dir: PathBuf, meta: usize) -> Runner {
        Runner {
            real: Real::new(dir),
            spec: Spec::default(),
            meta,
            viol: Vec::new(),
            stats: Stats::default(),
            annot: Vec::new(),
            out: Vec::new(),
            ops: Vec::new(),
            out_idx: Vec::new(),
            dead: false,
            check_c06: true,
            prefix: "",
            jcheck: false,
        }
    }

    pub fn violate(&mut self, prop: &str, what: String) {
        self.stats.inc(&format!("oracle_fail.{}", prop));
        self.viol.push(Violation { prop: prop.to_string(), what });
    }

    pub fn record(&mut self, op: &Op, ex: &Exec) {
        self.out_idx.push(self.out.len());
        self.ops.push((!self.prefix.is_empty(), op.clone()));
        self.annot.push(format!("{}{}", self.prefix, ex.annot));
        for l in &ex.out {
            self.out.push(format!("{}{}", self.prefix, l));
        }
    }

    /// compare the real observable state with the specification (C05) and check the accounting (C16)
    fn check_state(&mut self, ctx: &str) {
        let incons = self.real.log.as_ref().and_then(accessor_inconsistency);
        if let Some(what) = incons {
            self.violate("C05", format!("{}: {}", ctx, what));
        }
        let Some(log) = self.real.log.as_ref() else { return };
        let obs = observe(log);
        let usage = log.resource_usage();
        let real_logical = logical(&obs);
        if real_logical != self.spec.logical() {
            let what = format!("{}: observable state differs from the queue-map specification: {}", ctx, diff_logical(&real_logical, &self.spec.logical()));
            self.violate("C05", what);
        }
        for (name, q) in &obs {
            if q.last_record.as_ref() != q.recs.last() {
                self.violate("C05", format!("{}: last_record of {} is not the last retained record", ctx, name));
            }
            let strictly = q.recs.windows(2).all(|w| w[0].0 < w[1].0);
            if !strictly {
                self.violate("C05", format!("{}: positions of {} not strictly increasing", ctx, name));
            }
        }
        let names: usize = obs.keys().map(|k| k.len()).sum();
        let payload: usize = obs.values().map(|q| q.recs.iter().map(|r| r.1.len()).sum::<usize>()).sum();
        let count: usize = obs.values().map(|q| q.recs.len()).sum();
        let used = usage.memory_used_bytes;
        if used < names + payload || used > names + payload + self.meta * count {
            self.violate("C16", format!("{}: memory_used_bytes={} outside [{}, {}] (names {} + payload {} + {}*{} records)", ctx, used, names + payload, names + payload + self.meta * count, names, payload, self.meta, count));
        }
        if used > usage.memory_allocated_bytes {
            self.violate("C16", format!("{}: memory_used_bytes={} > memory_allocated_bytes={}", ctx, used, usage.memory_allocated_bytes));
        }
        if count == 0 && used != names {
            self.violate("C16", format!("{}: all queues empty but memory_used_bytes={} != names {}", ctx, used, names));
        }
    }

    fn check_c06(&mut self, ctx: &str, cur_at_start: u64) {
        if !self.check_c06 {
            return;
        }
        let Some(log) = self.real.log.as_ref() else { return };
        let files = self.real.files();
        let cur = self.real.cursor.0;
        let disk = log.resource_usage().disk_used_bytes as u64;
        let contiguous = files.windows(2).all(|w| w[1] == w[0] + 1);
        if files.is_empty() || !contiguous || *files.last().unwrap() != cur {
            self.violate("C06", format!("{}: directory holds {:?}, not a contiguous run ending at the file being written ({})", ctx, files, cur));
            return;
        }
        let bound = self.spec.min_attr_file().unwrap_or(u64::MAX).min(cur_at_start);
        if files[0] < bound {
            self.violate("C06", format!("{}: file {} kept although the oldest retained record lives in file {:?} and the call began in file {}", ctx, files[0], self.spec.min_attr_file(), cur_at_start));
        }
        if disk != files.len() as u64 * FILE {
            self.violate("C06", format!("{}: disk_used_bytes={} but {} files of {} bytes", ctx, disk, files.len(), FILE));
        }
    }

    pub fn apply(&mut self, op: &Op) -> Outcome {
        if self.dead {
            return Outcome::None;
        }
        let ctx = format!("op#{} `{}`", self.ops.len(), op.line());
        match op {
            Op::Open(_) | Op::Reopen(_) => {
                let before = self.real.obs();
                // the file being written when the call began: where the previous session stopped
                // (the GC pass of `open` may itself roll over while it records positions)
                let cur_at_start = self.real.cursor.0;
                let ex = self.real.exec(op);
                self.record(op, &ex);
                self.stats.inc("op.open");
                match &ex.outcome {
                    Outcome::OpenOk(_) => {
                        let after = self.real.obs().unwrap();
                        if let Some(before) = before {
                            if logical(&before) != logical(&after) {
                                let what = format!("{}: state after restart differs from state before: {}", ctx, diff_logical(&logical(&after), &logical(&before)));
                                // while no file has ever been deleted the WAL still holds every entry
                                // written: a restart mismatch then means entries did not round-trip
                                if self.stats.get("unlink") + self.stats.get("unlink.at_open") == 0 {
                                    self.violate("C07", format!("{} (no WAL file was ever removed: the written entries were not read back)", what));
                                }
                                self.violate("C01", what);
                            }
                            self.stats.inc("restart.compared");
                        }
                        let unl = ex.events.iter().filter(|e| matches!(e, Event::Unlink(_))).count() as u64;
                        self.stats.add("unlink.at_open", unl);
                        self.check_state(&ctx);
                        self.check_c06(&ctx, cur_at_start);
                    }
                    other => {
                        self.violate("C01", format!("{}: open of a cleanly closed log failed: {:?}", ctx, other));
                        if other.is_panic() {
                            self.violate("C10", format!("{}: open panicked or hung: {:?}", ctx, other));
                        }
                        self.dead = true;
                    }
                }
                ex.outcome
            }
            Op::State | Op::Dir | Op::Close | Op::Snapshot | Op::Restore | Op::Poke { .. } | Op::SetLenFile { .. } | Op::RmFile(_) | Op::CopyFile { .. } | Op::CopyBlock { .. } => {
                let ex = self.real.exec(op);
                self.record(op, &ex);
                Outcome::None
            }
            Op::Range { q, lo, hi } => {
                let ex = self.real.exec(op);
                self.record(op, &ex);
                self.stats.inc("op.range");
                let expect = match self.spec.range(q, *lo, *hi) {
                    Some(v) => {
                        if v.is_empty() {
                            "G -".to_string()
                        } else {
                            format!("G {}", v.iter().map(|(p, b)| rec_s(*p, b)).collect::<Vec<_>>().join(","))
                        }
                    }
                    None => "G err:missing".to_string(),
                };
                if ex.out.first() != Some(&expect) {
                    self.violate("C05", format!("{}: range returned `{}`, specification says `{}`", ctx, ex.out.first().cloned().unwrap_or_default(), expect));
                }
                Outcome::None
            }
            Op::FaultOpen { .. } | Op::Crash { .. } => Outcome::None,
            _ => {
                let cur_at_start = self.real.cursor.0;
                let before_spec = self.spec.clone();
                let expected = self.spec.step(op, cur_at_start);
                let ex = self.real.exec(op);
                self.record(op, &ex);
                let kind = op.line().split(' ').next().unwrap_or("").to_string();
                self.stats.inc(&format!("op.{}", kind));
                self.stats.inc(&format!("outcome.{}", ex.outcome.line().split(' ').nth(1).unwrap_or("?")));
                if ex.outcome.is_panic() {
                    self.violate("C05", format!("{}: the call panicked: {:?}", ctx, ex.outcome));
                    self.dead = true;
                    return ex.outcome;
                }
                if !same_logical_outcome(&ex.outcome, &expected) {
                    self.violate("C05", format!("{}: returned {:?}, specification says {:?}", ctx, ex.outcome, expected));
                }
                // C04: positions handed out never regress within an incarnation
                if let (Op::Append { q, payloads, .. }, Outcome::Appended(Some(last), _)) = (op, &ex.outcome) {
                    if let Some(sq) = before_spec.queues.get(q) {
                        // the FIRST position of the batch must be fresh, not only the last one
                        let first = (*last + 1).saturating_sub(payloads.len().max(1) as u64);
                        if first < sq.next {
                            self.violate("C04", format!("{}: append of {} records returned last_position {} (first {}) although next position was {}", ctx, payloads.len(), last, first, sq.next));
                        }
                    }
                }
                let wrote: u64 = ex.events.iter().map(|e| if let Event::Write { data, .. } = e { data.len() as u64 } else { 0 }).sum();
                let reported = match &ex.outcome {
                    Outcome::Created(n) | Outcome::Deleted(n) | Outcome::Appended(_, n) | Outcome::Truncated(_, n) => Some(*n),
                    _ => None,
                };
                if let Some(n) = reported {
                    if n != wrote {
                        self.violate("C15", format!("{}: wal_bytes_written={} but the call appended {} bytes", ctx, n, wrote));
                    }
                    self.stats.inc("c15.compared");
                    if ex.events.iter().any(|e| matches!(e, Event::GcRecordPosition(_))) {
                        self.stats.inc("c15.with_gc_bytes");
                    }
                }
                // "rejected or no-op" is what the SPECIFICATION says about the call (a call that wrongly
                // reports success is exactly what must not slip through); what the call itself
                // reports counts too
                let is_rej = |o: &Outcome| matches!(o, Outcome::ErrExists | Outcome::ErrMissing | Outcome::ErrPast | Outcome::Appended(None, _));
                let rejected = is_rej(&ex.outcome) || is_rej(&expected);
                if rejected {
                    self.stats.inc("c13.rejected_or_noop");
                    let touched = ex.events.iter().any(|e| !matches!(e, Event::ListDir));
                    if touched {
                        self.violate("C13", format!("{}: rejected/no-op call ({:?}) left a trace: {}", ctx, ex.outcome, effects_line(&ex.events)));
                    }
                    // ... reports no bytes, and leaves the observable state as it was
                    if let Some(n) = reported {
                        if n != 0 {
                            self.violate("C13", format!("{}: rejected/no-op call reports wal_bytes_written={}", ctx, n));
                        }
                    }
                    if let Some(o) = self.real.obs() {
                        if logical(&o) != before_spec.logical() {
                            self.violate("C13", format!("{}: rejected/no-op call changed the observable state: {}", ctx, diff_logical(&logical(&o), &before_spec.logical())));
                        }
                    }
                    if self.spec != before_spec {
                        self.spec = before_spec.clone();
                    }
                }
                let rolls = ex.events.iter().filter(|e| matches!(e, Event::Create(_))).count() as u64;
                let unl = ex.events.iter().filter(|e| matches!(e, Event::Unlink(_))).count() as u64;
                self.stats.add("rollover", rolls);
                self.stats.add("unlink", unl);
                if unl > 0 {
                    self.stats.inc("gc.pass_with_unlink");
                }
                self.check_state(&ctx);
                if matches!(op, Op::Truncate { .. } | Op::Delete(_)) && !rejected {
                    self.check_c06(&ctx, cur_at_start);
                }
                ex.outcome
            }
        }
    }

    pub fn case_text(&self, id: &str) -> String {
        let mut s = format!("case {}\nmeta {}\n{}", id, self.meta, if self.jcheck { "option jcheck\n" } else { "" });
        for l in &self.annot {
            s.push_str(l);
            s.push('\n');
        }
        s
    }

    pub fn plain_case(&self, id: &str) -> Case {
        Case { id: id.to_string(), ops: self.ops.clone() }
    }
}

pub fn diff_logical(real: &Logical, spec: &Logical) -> String {
    for (k, v) in real {
        match spec.get(k) {
            None => return format!("queue {:?} exists, expected absent", k),
            Some(w) => {
                if v.1 != w.1 {
                    return format!("queue {:?}: next position {} expected {}", k, v.1, w.1);
                }
                if v.0 != w.0 {
                    let a: Vec<String> = v.0.iter().map(|(p, b)| rec_s(*p, b)).collect();
                    let b: Vec<String> = w.0.iter().map(|(p, b)| rec_s(*p, b)).collect();
                    return format!("queue {:?}: records [{}] expected [{}]", k, a.join(","), b.join(","));
                }
            }
        }
    }
    for k in spec.keys() {
        if !real.contains_key(k) {
            return format!("queue {:?} missing", k);
        }
    }
    "?".into()
}
