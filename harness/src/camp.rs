//! Campaigns: how cases are generated, run and reported.
use std::collections::BTreeSet;
use std::fmt::Write as _;
use std::path::{Path, PathBuf};
use std::sync::Mutex;

use crate::gen::*;
use crate::ops::*;
use crate::run::*;
use crate::Args;

#[derive(Clone)]
pub struct CaseResult {
    pub id: String,
    pub annot: String,
    pub out: String,
    pub viol: Vec<Violation>,
    pub stats: Stats,
    pub plain: Case,
    pub nontrivial: bool,
}

pub fn scratch_root() -> PathBuf {
    let base = if Path::new("/dev/shm").is_dir() { PathBuf::from("/dev/shm") } else { PathBuf::from("/verif/work/scratch") };
    base.join(format!("mrlv-{}", std::process::id()))
}

pub fn json_str(s: &str) -> String {
    let mut o = String::with_capacity(s.len() + 2);
    o.push('"');
    for c in s.chars() {
        match c {
            '"' => o.push_str("\\\""),
            '\\' => o.push_str("\\\\"),
            '\n' => o.push_str("\\n"),
            '\t' => o.push_str("\\t"),
            c if (c as u32) < 0x20 => write!(o, "\\u{:04x}", c as u32).unwrap(),
            c => o.push(c),
        }
    }
    o.push('"');
    o
}

pub fn finish_pub(r: Runner, id: &str, nontrivial: bool) -> CaseResult {
    finish(r, id, nontrivial)
}

fn finish(r: Runner, id: &str, nontrivial: bool) -> CaseResult {
    let mut r = r;
    let annot = r.case_text(id);
    let mut out = format!("case {}\n", id);
    for l in &r.out {
        out.push_str(l);
        out.push('\n');
    }
    r.real.cleanup();
    CaseResult { id: id.to_string(), annot, out, viol: r.viol.clone(), stats: r.stats.clone(), plain: r.plain_case(id), nontrivial }
}

/// `ops`: a random history with restarts; every oracle of run.rs is evaluated
pub fn case_ops(scratch: &Path, meta: usize, id: &str, seed: u64, len: usize, pols: &[Pol], jcheck: bool) -> CaseResult {
    let mut rng = Rng::new(seed);
    let mut r = Runner::new(scratch.join(id), meta);
    r.jcheck = jcheck;
    let pol = *rng.pick(pols);
    let mut cfg = GenCfg { reopen_pols: pols.to_vec(), big_weight: 4 + rng.below(8), max_queues: 1 + rng.below(5) as usize, ..Default::default() };
    // every fifth history is dominated by metadata: up to 16 queues with names of 9-16 KB, frequent
    // delete / re-create. Roll-overs are then caused by create_queue and by the GC's own position
    // entries (which straddle file boundaries while most queues are empty), and `open` finds files
    // to reclaim that no call has reclaimed
    if seed % 5 == 2 || seed % 5 == 4 {
        cfg.create_heavy = true;
        cfg.churn = seed % 5 == 2;
        // without churn: nothing but queue creations until 16 queues exist (no record pins a file)
        cfg.max_queues = if seed % 5 == 2 { 16 } else { 1000 };
    }
    r.apply(&Op::Open(pol));
    r.apply(&Op::State);
    if rng.chance(1, 3) {
        // idle queues with long names from the start: their position entries dominate GC passes
        for _ in 0..(1 + rng.below(2)) {
            r.apply(&Op::Create(long_name(&mut rng)));
        }
    }
    let n = len / 2 + rng.below(len as u64) as usize;
    for _ in 0..n {
        if r.dead {
            break;
        }
        let mut op = gen_op(&r, &mut rng, &cfg);
        // a restart right where the hand-over from reader to writer is delicate: the cursor at a
        // block or file end, or fewer than a header's worth of bytes left in the block
        let room = BLOCK - r.real.cursor.1 % BLOCK;
        if cfg.allow_reopen && (room < HEADER + 1 || room == BLOCK) && r.real.cursor.1 > 0 && rng.chance(1, 2) {
            op = Op::Reopen(*rng.pick(&cfg.reopen_pols));
        }
        let is_reopen = matches!(op, Op::Reopen(_));
        if is_reopen {
            r.apply(&Op::State);
            r.apply(&Op::Dir);
        }
        let rolls_before = r.stats.get("rollover");
        r.apply(&op);
        if op.is_mutating() && rng.chance(1, 4) || is_reopen {
            r.apply(&Op::State);
        }
        // a roll-over caused by a create_queue entry: no call has reclaimed anything, the next
        // `open` is the one that finds the old file unreferenced - restart right there, twice
        if cfg.create_heavy && cfg.allow_reopen && matches!(op, Op::Create(_)) && r.stats.get("rollover") > rolls_before && rng.chance(2, 3) && !r.dead {
            for _ in 0..2 {
                r.apply(&Op::State);
                r.apply(&Op::Reopen(*rng.pick(&cfg.reopen_pols)));
            }
            r.apply(&Op::State);
        }
    }
    if !r.dead {
        r.apply(&Op::State);
        r.apply(&Op::Dir);
        r.apply(&Op::Reopen(pol));
        r.apply(&Op::State);
        r.apply(&Op::Dir);
    }
    let nontrivial = r.stats.get("rollover") >= 1 && r.stats.get("unlink") >= 1 && r.stats.get("restart.compared") >= 1;
    finish(r, id, nontrivial)
}

/// replay of a stored case: main-line operations through the checked runner
pub fn case_replay(scratch: &Path, meta: usize, case: &Case, jcheck: bool) -> CaseResult {
    let id = if case.id.is_empty() { "replay".to_string() } else { case.id.clone() };
    let mut r = Runner::new(scratch.join("replay"), meta);
    r.jcheck = jcheck;
    for (side, op) in &case.ops {
        if *side {
            continue;
        }
        r.apply(op);
    }
    finish(r, &id, true)
}

pub fn run(args: &Args) -> i32 {
    let scratch = scratch_root();
    std::fs::create_dir_all(&scratch).unwrap();
    std::fs::create_dir_all(&args.out).unwrap();
    let meta = calibrate_meta(&scratch);
    let t0 = std::time::Instant::now();

    let results: Vec<CaseResult> = if let Some(path) = &args.replay {
        let text = std::fs::read_to_string(path).expect("replay file");
        let case = Case::parse(&text);
        let res = std::panic::catch_unwind(std::panic::AssertUnwindSafe(|| crate::camp::dispatch_replay(&scratch, meta, &args.campaign, &case)));
        vec![match res {
            Ok(r) => r,
            Err(e) => {
                let msg = e.downcast_ref::<&str>().map(|s| s.to_string()).or_else(|| e.downcast_ref::<String>().cloned()).unwrap_or_default();
                CaseResult {
                    id: case.id.clone(),
                    annot: String::new(),
                    out: String::new(),
                    viol: vec![Violation { prop: "*".into(), what: format!("the harness could not complete the replay of case {}: {}", case.id, msg) }],
                    stats: Stats::default(),
                    plain: Case { id: case.id.clone(), ops: vec![(false, Op::Open(Pol::AlwaysFlush))] },
                    nontrivial: false,
                }
            }
        }]
    } else {
        let next = Mutex::new(0usize);
        let results: Mutex<Vec<(usize, CaseResult)>> = Mutex::new(Vec::new());
        std::thread::scope(|s| {
            for _ in 0..args.threads.max(1) {
                s.spawn(|| loop {
                    let i = {
                        let mut n = next.lock().unwrap();
                        if *n >= args.cases {
                            break;
                        }
                        *n += 1;
                        *n - 1
                    };
                    let seed = args.seed.wrapping_mul(1_000_003).wrapping_add(i as u64);
                    let id = format!("{}-{}-{}", args.campaign, args.seed, i);
                    let res = std::panic::catch_unwind(std::panic::AssertUnwindSafe(|| dispatch(&scratch, meta, &args.campaign, &id, seed, args.len)));
                    let res = match res {
                        Ok(r) => r,
                        Err(e) => {
                            // the harness itself gave up on this case: the library left it in a state
                            // the campaign does not expect (never happens on the unchanged tree)
                            let msg = e.downcast_ref::<&str>().map(|s| s.to_string()).or_else(|| e.downcast_ref::<String>().cloned()).unwrap_or_default();
                            CaseResult {
                                id: id.clone(),
                                annot: String::new(),
                                out: String::new(),
                                viol: vec![Violation { prop: "*".into(), what: format!("the harness could not complete case {} (seed {}): {}", id, seed, msg) }],
                                stats: Stats::default(),
                                plain: Case { id: id.clone(), ops: vec![(false, Op::Open(Pol::AlwaysFlush))] },
                                nontrivial: false,
                            }
                        }
                    };
                    results.lock().unwrap().push((i, res));
                });
            }
        });
        let mut v = results.into_inner().unwrap();
        v.sort_by_key(|x| x.0);
        v.into_iter().map(|x| x.1).collect()
    };
    let _ = std::fs::remove_dir_all(&scratch);

    // outputs
    let mut cases_txt = String::new();
    let mut real_out = String::new();
    let mut stats = Stats::default();
    let mut distinct = BTreeSet::new();
    let mut nontrivial = 0usize;
    let mut evaluations = 0u64;
    let replays = args.out.join("replays");
    let _ = std::fs::remove_dir_all(&replays);
    std::fs::create_dir_all(&replays).unwrap();
    let mut viol_json = Vec::new();
    for r in &results {
        cases_txt.push_str(&r.annot);
        real_out.push_str(&r.out);
        stats.merge(&r.stats);
        evaluations += if r.plain.ops.is_empty() { r.annot.lines().count().saturating_sub(2) as u64 } else { r.plain.ops.len() as u64 };
        let h = fnv64(r.plain.text().as_bytes());
        if r.nontrivial && distinct.insert(h) {
            nontrivial += 1;
        }
        if !r.viol.is_empty() {
            let path = replays.join(format!("{}.case", r.id));
            std::fs::write(&path, if r.plain.ops.is_empty() { r.annot.clone() } else { r.plain.text() }).unwrap();
            for v in &r.viol {
                viol_json.push(format!(
                    "{{\"prop\":{},\"what\":{},\"case\":{},\"replay\":{}}}",
                    json_str(&v.prop),
                    json_str(&v.what),
                    json_str(&r.id),
                    json_str(&path.to_string_lossy())
                ));
            }
        }
    }
    std::fs::write(args.out.join("cases.txt"), &cases_txt).unwrap();
    std::fs::write(args.out.join("real.out"), &real_out).unwrap();
    // every plain case is kept so that a model disagreement can be turned into a replay
    let all = args.out.join("all");
    let _ = std::fs::remove_dir_all(&all);
    std::fs::create_dir_all(&all).unwrap();
    for r in &results {
        std::fs::write(all.join(format!("{}.case", r.id)), if r.plain.ops.is_empty() { r.annot.clone() } else { r.plain.text() }).unwrap();
    }
    let samples: Vec<String> = results.iter().filter(|r| r.nontrivial).take(2).map(|r| {
        let t = r.plain.text();
        let lines: Vec<&str> = t.lines().take(14).collect();
        json_str(&lines.join(" ; "))
    }).collect();
    let stats_json: Vec<String> = stats.c.iter().map(|(k, v)| format!("{}:{}", json_str(k), v)).collect();
    let report = format!(
        "{{\"campaign\":{},\"seed\":{},\"cases\":{},\"evaluations\":{},\"distinct_nontrivial\":{},\"meta\":{},\"wall_s\":{:.2},\"stats\":{{{}}},\"violations\":[{}],\"samples\":[{}]}}\n",
        json_str(&args.campaign),
        args.seed,
        results.len(),
        evaluations,
        nontrivial,
        meta,
        t0.elapsed().as_secs_f64(),
        stats_json.join(","),
        viol_json.join(","),
        samples.join(",")
    );
    std::fs::write(args.out.join("report.json"), &report).unwrap();
    print!("{}", report);
    0
}

pub fn dispatch(scratch: &Path, meta: usize, campaign: &str, id: &str, seed: u64, len: usize) -> CaseResult {
    match campaign {
        "ops" => case_ops(scratch, meta, id, seed, len, &[Pol::AlwaysFlush], false),
        "ops-journal" => case_ops(scratch, meta, id, seed, len, &[Pol::AlwaysFlush], true),
        "policy-ops" => case_ops(scratch, meta, id, seed, len, &ALL_POLS, false),
        "bytes" => crate::bytes::case_bytes(scratch, meta, id, seed, len, None),
        "fault" => crate::misc::case_fault(scratch, meta, id, seed, len, None),
        "lockstep" => crate::misc::case_lockstep(scratch, meta, id, seed, len, None),
        "projection" => crate::misc::case_projection(scratch, meta, id, seed, len, None),
        "names" => crate::misc::case_names(scratch, meta, id, seed, len, None),
        "edge" => crate::misc::case_edge(scratch, meta, id, seed, len, None),
        "oversize" => crate::misc::case_oversize(scratch, meta, id, seed, len, None),
        "damage" => crate::damage::case_damage(scratch, meta, id, seed, len, false, None),
        "damage-aimed" => crate::damage::case_damage(scratch, meta, id, seed, len, true, None),
        "crash" => crate::crash::case_crash(scratch, meta, id, seed, len, &crash_cfg(false), None),
        "crash-fault" => crate::crash::case_crash(scratch, meta, id, seed, len, &crash_fault_cfg(), None),
        "crash-policies" => crate::crash::case_crash(scratch, meta, id, seed, len, &crash_cfg(true), None),
        other => panic!("unknown campaign {}", other),
    }
}

pub fn crash_cfg(all_policies: bool) -> crate::crash::CrashCfg {
    crate::crash::CrashCfg {
        pols: if all_policies { ALL_POLS.to_vec() } else { vec![Pol::AlwaysFlush, Pol::AlwaysFlush, Pol::AlwaysFsync, Pol::DelayNowFlush] },
        max_points: std::env::var("VERIF_CRASH_POINTS").ok().and_then(|s| s.parse().ok()).unwrap_or(40),
        cont_every: 4,
        fault_sweeps: false,
        create_heavy_den: 10,
    }
}

pub fn crash_fault_cfg() -> crate::crash::CrashCfg {
    crate::crash::CrashCfg { fault_sweeps: true, create_heavy_den: 3, cont_every: 8, ..crash_cfg(false) }
}

pub fn dispatch_replay(scratch: &Path, meta: usize, campaign: &str, case: &Case) -> CaseResult {
    let id = if case.id.is_empty() { "replay".to_string() } else { case.id.clone() };
    match campaign {
        "fault" => crate::misc::case_fault(scratch, meta, &id, 1, 0, Some(case)),
        "lockstep" => crate::misc::case_lockstep(scratch, meta, &id, 1, 0, Some(case)),
        "projection" => crate::misc::case_projection(scratch, meta, &id, 1, 0, Some(case)),
        "names" => crate::misc::case_names(scratch, meta, &id, 1, 0, Some(case)),
        "edge" => crate::misc::case_edge(scratch, meta, &id, 1, 0, Some(case)),
        "oversize" => crate::misc::case_oversize(scratch, meta, &id, 1, 0, Some(case)),
        "damage" => crate::damage::case_damage(scratch, meta, &id, 1, 0, false, Some(case)),
        "damage-aimed" => crate::damage::case_damage(scratch, meta, &id, 1, 0, true, Some(case)),
        "crash" => crate::crash::case_crash(scratch, meta, &id, 1, 0, &crash_cfg(false), Some(case)),
        "crash-fault" => crate::crash::case_crash(scratch, meta, &id, 1, 0, &crash_fault_cfg(), Some(case)),
        "crash-policies" => crate::crash::case_crash(scratch, meta, &id, 1, 0, &crash_cfg(true), Some(case)),
        _ => case_replay(scratch, meta, case, campaign == "ops-journal"),
    }
}
