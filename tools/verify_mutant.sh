#!/bin/bash
# usage: tools/verify_mutant.sh Cxx   -- confirms a sub-agent's seeded change in its scratch worktree /tmp/mut/Cxx:
#  (1) with mutant + demo applied: the existing 66 tests pass and the demo fails; (2) without the mutant the demo passes
id=$1; base=${2:-/tmp/mut}; wt=$base/$id; out=$base/$id-out
cd $wt || exit 2
git reset -q --hard; git clean -fdq -e target
git apply $out/patch.diff || { echo "$id: mutant patch does not apply"; exit 2; }
git apply $out/demo.patch || { echo "$id: demo patch does not apply"; exit 2; }
cargo test --offline > $out/verify_with.log 2>&1
with=$(grep -E '^test result' $out/verify_with.log | head -3 | tr '\n' ' ')
failed=$(grep -E '^test .* FAILED|^    [a-z_:]+$' $out/verify_with.log | head -5 | tr '\n' ' ')
git apply -R $out/patch.diff
cargo test --offline > $out/verify_without.log 2>&1
without=$(grep -E '^test result' $out/verify_without.log | head -3 | tr '\n' ' ')
echo "$id WITH: $with | failing: $failed"
echo "$id WITHOUT: $without"
git apply $out/patch.diff
