#!/bin/bash
# usage: tools/try_mutant.sh <name> <patch.diff> [--tier quick|thorough] <Cxx>...
# applies a seeded change to /repo, runs the listed checks, undoes it; prints one verdict line per property
set -u
name=$1; patch=$2; shift 2
tier=quick
if [ "${1:-}" = "--tier" ]; then tier=$2; shift 2; fi
cd /verif
if [ -n "$(git -C /repo status --porcelain)" ]; then echo "try_mutant: /repo is not clean"; exit 2; fi
git -C /repo apply "$patch" || { echo "try_mutant: patch does not apply"; exit 2; }
mkdir -p work/mut
for p in "$@"; do
  ./check "$p" --tier "$tier" > "work/mut/$name-$p.log" 2>&1
  rc=$?
  first=$(grep -m1 '^VIOLATION' "work/mut/$name-$p.log" | cut -c1-160)
  echo "$name $p rc=$rc $first"
done
git -C /repo checkout -- .
# make sure later checks rebuild against the clean tree
(cd harness && cargo build --release >/dev/null 2>&1)
