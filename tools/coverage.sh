#!/bin/bash
# Optional: line/region coverage of /repo/src reached by the campaigns (needs the nightly toolchain's
# llvm-tools, which are pre-installed). Not part of any registered check; results quoted in DESIGN.md.
set -e
cd /verif/harness
BIN=$(rustc +nightly --print sysroot)/lib/rustlib/x86_64-unknown-linux-gnu/bin
CARGO_NET_OFFLINE=true CARGO_TARGET_DIR=/verif/.target/cov RUSTFLAGS="--cfg mrecordlog_verif -C instrument-coverage" cargo +nightly build --release --offline >/dev/null 2>&1
cd /verif; rm -rf work/cov; mkdir -p work/cov
for c in ops policy-ops crash crash-policies crash-fault damage damage-aimed fault lockstep projection names bytes edge; do
  LLVM_PROFILE_FILE=/verif/work/cov/$c-%p.profraw .target/cov/release/mrl-harness $c --seed ${1:-3} --cases 24 --len 90 --out work/cov/out-$c >/dev/null 2>&1 || true
done
$BIN/llvm-profdata merge -sparse work/cov/*.profraw -o work/cov/all.profdata
$BIN/llvm-cov report .target/cov/release/mrl-harness -instr-profile=work/cov/all.profdata 2>/dev/null | grep -E "repo/src|Filename" | sed 's/  */ /g'
