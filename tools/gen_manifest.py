#!/usr/bin/env python3
"""Regenerates /verif/MANIFEST.json from tools/propcfg.py and the texts below."""
import json
import os
import sys

sys.path.insert(0, os.path.dirname(os.path.abspath(__file__)))
from propcfg import PROPS  # noqa: E402

VERIF = os.path.join(os.path.dirname(os.path.abspath(__file__)), "..")

TEXT = {
    "C01": ("Lean theorem C01_restart_exact: for every state reachable from an empty directory by open, any API calls and any number of earlier restarts (disk driven only by the effects the model emits through the BufWriter model; any geometry with B <= 65542, any buffer capacity, any policy), dropping the log and opening again succeeds and yields observationally the same queues (names, records incl. payloads and file handles, next positions); corollaries C01_no_resurrection, C01_no_loss, C01_obs (composes with the C05 specification). Pillars: C01_journal (GC suffix), C07_roundtrip/decode_encode (codec), read_disk/gc_disk (image = layout of the journal). Hypothesis: every journal entry serialises (positions < 2^64, names < 64 KiB: C07.WF). Tied to the code by the per-call effect/byte-hash/directory-digest/state correspondence, the restart oracle on the real library and the executable journal invariant.",
            "Lean 4 proof (reachability invariant over log+journal+disk, codec round-trip, GC suffix simulation) + differential correspondence"),
    "C02": ("Lean theorem C02_crash_atomic: for every state reachable from an empty directory (any calls, roll-overs, GC passes, restarts) at a call boundary with an empty BufWriter (flush-per-operation policy), for EVERY call in flight, EVERY prefix of its OS-level operations and EVERY byte cut of the write in progress (any buffer capacity / re-chunking; roll-over windows: next file absent, created empty, zero-filled; GC position entries; between any two unlinks), open of the crash image succeeds and the recovered queues agree with the state before the call or with the state after it on names, records (positions, payloads) and next positions (AbsEq = the C05 abstraction); C02_crash_atomic_exact: before the first unlink even the file handles agree; C02_second_crash(+_exact): the same for a crash during the effects of open itself. Hypotheses: entries serialise (C07.WF) and TornStep (a payload whose lost, zero-filled tail changed it fails its CRC = no collision). Usability after recovery: C02_resume (byte level, every cut), C02_recovered_usable_partial + clean_crash_points (the full invariant from which C01_restart_exact and this theorem derive is re-established at crash points that leave no torn remnant, no pre-created file and no partial unlink; for the others only the recovered queues are characterised) - that remaining part is enumerated by the crash campaign's continuation + restart oracle on the real library and the model. Finding recorded in DESIGN: between two unlinks, when an entry is longer than a whole WAL file, the recovered FILE HANDLE of its records can name an earlier file than live (safe side; not observable through records/positions).",
            "Lean 4 proof (reachability invariant + torn-tail scan on the multi-file tape + GC suffix at every intermediate first file) + crash-point enumeration, differential"),
    "C03": ("Lean theorems C03_durable (from any reachable persist point, for ANY run of calls under ANY policy and ANY buffering, roll-overs and GC included, a crash at any OS-operation prefix and byte cut recovers the state after SOME prefix of the calls - never older than the persist point, never a mixture; equality on names, records and next positions), C03_durable_after (if the BufWriter was empty after the first m calls and the crash comes later, at least those m calls are recovered), C03_power_loss (ordered-persistence model: after an fsync-ending call, every image containing that sync recovers at least that call), unlink_after_sync(+_open) and flush_then_unlink_image (no file is removed while superseding data is volatile), persist-point lemmas (create/delete/persist/Always/due OnDelay). Hypotheses: TornRun (no CRC collision on torn payloads), C07.WF. C03_posix (POSIX-style power loss, executable model MRL/Model/PowerLoss.lean: a file name is durable only once the directory was fsynced after its creation, a file content only up to its last fdatasync): after ANY call whose effects end with flush, fsync(file), fsync(dir) - create/delete (forced_tail), persist(FlushAndFsync) (persist_tail), every mutating call under Always(FlushAndFsync) (always_tail), a due OnDelay(FlushAndFsync) (onDelay_tail) - a power loss at ANY later instant leaves an image that opens and yields the state after i calls for some i >= that call; proved by reducing the power-loss image to an effect-boundary crash image (power_reduction: an exact equality of images, from a syntactic write/sync/create/unlink discipline pd that every run from a reachable log obeys, pd_effsD). C03_posix_reachX: the same for histories mixing calls and clean restarts (reopen: the effects of open itself, ensureLen/set_len, its GC pass and roll-over into an existing or new file), started from ANY state reachable with crashes (C02U.ReachX: pre-created next file, orphan frames, partial unlinks); reachX_history shows such histories are exactly ReachX runs. unlink_prefix_window: inside a call, unlinks persisting lazily but in order give images that are power images of shorter prefixes. Not proved: unlinks of a GC pass that stay volatile beyond the call (truncate under a non-fsyncing policy, the GC of open) while later appends become durable; directory operations persisting out of order are outside the model. Tied to the code by the crash-policies campaign (7 policies, API-promised persist points as lower bounds; at every power-loss point the model driver computes powerImage itself from its refined operation list and the harness computes the image from the real trace: directory digests and recovered states are compared).",
            "Lean 4 proof (multi-call crash cut on the reachability invariant) + crash-point enumeration under 7 policies, differential"),
    "C04": ("Lean theorems: the specification's next position never decreases within an incarnation and appended positions are fresh, "
            "consecutive and >= next (spec_next_mono, spec_append_fresh, spec_run_next_mono, spec_below_preserved), transferred to the model "
            "through the C05 refinement (C04_model_*). Restart/crash legs: C01 journal theorem + crash campaign oracle.",
            "Lean 4 proof over the specification, transferred by refinement + differential correspondence"),
    "C05": ("Lean theorem C05_refines/C05_history: under the queue invariant every model step commutes with the 40-line specification "
            "Spec.step through the abstraction map and returns its logical outcome; range/last_position/last_record equal the "
            "specification's for all 9 bound shapes (range_eq_filter). The model is tied to the code per call (outcome, state, range).",
            "Lean 4 refinement proof to an abstract queue-map specification + differential correspondence"),
    "C06": ("Lean theorems: filesOk_step/_run (the tracked files stay a contiguous run ending at the file being written, along every clean "
            "history), C06_reclaim/_truncate/_delete/_open (after the call: contiguous, disk_used = files x file size, and the oldest file "
            "left is either not older than the file being written when the call began or still referenced by a retained record), "
            "no_premature_release (no unlinked file is referenced or current). Tied to the code by the directory listing / disk_used "
            "correspondence and the listing-vs-attribution oracle after every truncate/delete/open.",
            "Lean 4 proof (GC prefix invariant) + differential correspondence + directory oracle"),
    "C07": ("Lean theorem C07_roundtrip: for every geometry (7 < B <= 65542), every start cursor, every list of entries of any sizes, the "
            "reader positioned at the cursor reads back exactly the written entries and stops where the writer stopped; decode_encode for "
            "API-level entries. C07_recover_roundtrip: the same through recover on the multi-file image of any reachable state (entries spanning blocks and files, after roll-overs and GC passes): the reader delivers, with no corruption event, exactly the journal entries located in tracked files, and the writer resumes at the end of the tape (or at the next block start when fewer than 7 bytes remain). Tied to the code by byte-exact comparison of the real writer/reader (hook H4) with the model.",
            "Lean 4 proof by induction on the writer's loop / block list + differential correspondence"),
    "C08": ("Lean theorems: C08_recover_genuine (for the image of ANY state reachable by calls and restarts, and ANY in-place damage of it - same files, same lengths, arbitrary bytes - if open succeeds, every recovered record is (queue, position, payload) of an append call of the history and the queues are the replay of a sub-sequence of the journal entries in tracked files; hypothesis NoAccidentalFrameImg = no CRC-32 collision: wherever the reader's acceptance test passes, the clean tape has that very frame there); C08_crash_genuine / C08_crash_restart (the same over states reachable WITH crashes at any point of any call or of open itself, GC passes cut in the middle, any number of times - tapes with junk slots, orphan First/Middle runs, a residue, an empty next file: every recovered record is a record of an append entry in W, the list of entries that the calls and GC passes of the history handed to the writer, accumulated constructor by constructor in ReachXW, which is equivalent to ReachX: toReachX/ofReachX); C08_genuine_entries/records (single stream); recover_sorted (for EVERY image a successful recovery has strictly increasing positions and distinct names), recover_records_subset, assemble_whole_entry; negative_example (finding F5: moving whole valid blocks is NOT covered - a copied block splices entries). Tied to the code by the damage campaign (genuine-records oracle on the real library; open outcome, state and directory compared with the model on every damaged image).",
            "Lean 4 proof over arbitrary damaged images of reachable states + damage enumeration, differential"),
    "C09": ("Lean theorems C09_one_frame (byte level: with one frame's checksum/payload bytes replaced, any role, the reader delivers exactly the other entries, in order), C09_drop_one (replay level: for every reachable journal - any history, roll-overs, GC - erasing ANY one entry never makes the replay fail and every record of the live queues not appended by the erased entry is recovered with the same position and payload) and C09_end_to_end (their composition for journals in the first file). C09_recover_one_frame(_all): the same through the whole of recover on the multi-file disk image of any state reachable without crashes (ReachD), for every policy and GC order, wherever the tape ends (the _all version removes the former restriction that at least 7 bytes remain in the last block). Hypothesis: FrameDetected (no CRC collision). Tied to the code by the aimed-damage campaign (retained-records-survive oracle) and raw reads through hook H4.",
            "Lean 4 proof (byte-level single-frame damage + drop-one simulation over reachable journals) + aimed damage enumeration, differential"),
    "C10": ("Lean: recovery is a total function (no fuel); recover_no_panic / recover_no_panic_img: the panic-instrumented twin recoverP (checked u64 arithmetic of next_position, truncate_head, FileTracker::inc made explicit) never reports a panic for ANY image whose delivered entries carry no position 2^64-1 and whose file numbers leave room for the GC roll-overs, and the recovered queues are not poisoned (read accessors do not overflow); recover_buf_bounded (the reassembly buffer never exceeds the image size); ioCalls_bounded (no retry loop); witnesses truncate_max_panics / append_max_poisons / noMaxFiles_insufficient show the hypotheses are needed (finding F4). recoverC_asserts: for EVERY directory content (arbitrary bytes, arbitrary file lengths) every write-path assert! that the GC pass of open reaches holds (RollingWriter::write's block bound, Header::for_payload, the frame slice, the 64 KiB name bound) and the writer resumes within the nominal file size - since fix F6 (1aa921b: the reader ignores what lies beyond the nominal size of a WAL file; before it open panicked on an extended file, oversize_assert_fires is the model witness, corpus/oversize__F6 the replay) open is recoverC = recover o clipImage, and clipImage is the identity on every image the log produces, crash images included (reach_noOversize, crash_noOversize, recoverC_reach). Not proved: OS behaviour (odd directory entries, allocation failure), wall-clock; exercised by the damage/bytes/names/oversize campaigns under catch_unwind + watchdog.",
            "Lean 4 proof (panic-instrumented twin of recovery) + damage / crafted-input enumeration, differential"),
    "C11": ("Lean theorems io_reported / io_irrelevant_beyond / never_partial / fault_never_ok_on_bad_image / ioCalls_bounded: for every "
            "image and every index n, a failing n-th list/open/read call yields Err(Io) iff recovery reaches it, a log returned under a "
            "fault plan is the fault-free log, and the number of I/O calls is bounded (no retry loop). Fault campaign ties it to the code.",
            "Lean 4 proof by induction on the block scan + fault injection, differential"),
    "C12": ("Lean theorems replay_batch_suffix / batch_suffix_fresh / batch_all_or_nothing (for ANY surviving sub-sequence of entries, the "
            "surviving part of a batch is a contiguous suffix of it) and assemble_whole_entry; crash and damage campaigns with the "
            "batch-suffix oracle.",
            "Lean 4 proof (replay invariant over arbitrary entry lists) + crash/damage enumeration"),
    "C13": ("Lean theorem C13_no_trace: for every log state and every rejected/no-op call shape the step returns the state unchanged, the "
            "matching outcome with 0 bytes and no file-system effect; no-trace oracle on the real library.",
            "Lean 4 proof (case analysis of the step function) + differential correspondence"),
    "C14": ("Lean theorems C14_policy_irrelevant / C14_history (same outcomes incl. byte counts, same state up to the policy field, same "
            "effects after erasing flush/fsync, for all policies and clock bits) and C14_history_same_image (same flushed image); "
            "lock-step campaign under 7 policies.",
            "Lean 4 proof (step-level bisimulation up to sync effects) + lock-step differential"),
    "C15": ("Lean theorems C15_bytes_exact (reported bytes = bytes of the write effects, for every call), C15_zero_iff, C15_contiguous "
            "(the writes are contiguous from the old to the new cursor); byte-count oracle against the trace.",
            "Lean 4 proof by induction over the writer + differential correspondence"),
    "C16": ("Lean theorems C16_used_exact/_split/_ge/_le, C16_truncate_drop, C16_baseline for any per-record constant; accounting oracle "
            "after every call; used <= allocated is tested only (std capacity).",
            "Lean 4 proof (arithmetic over the queue model) + differential correspondence"),
    "C17": ("Lean theorems parse_format / parse_fileName / parse_injective (exactly wal- + 20 ASCII digits fitting u64), rejection lemmas, "
            "listWal_only_named, effects_named_partial, files_accounted; names campaign with 14 foreign entries and renumbered WAL files.",
            "Lean 4 proof (decimal parsing, effect naming) + names campaign, differential"),
    "C18": ("Lean theorems C18_spec_projection (projection of any history on a queue leaves its content and outcomes unchanged, in the "
            "specification) and C18_model_projection (same for the model via C05_history); metamorphic projection oracle on the real library.",
            "Lean 4 proof over the specification, transferred by refinement + metamorphic test"),
}

NOTE = ("trusted base: Lean 4.33 kernel and axioms {propext, Classical.choice, Quot.sound} (audited by #print axioms on every run); "
        "hand-written model tied to /repo's working tree by differential testing only (generator quality bounds it); hooks report effects; "
        "OS/BufWriter/crc32fast modelled (DESIGN §8)")

m = json.load(open(os.path.join(VERIF, "MANIFEST.json")))
checks = []
for pid in sorted(PROPS):
    cfg = PROPS[pid]
    text, tech = TEXT[pid]
    cat = cfg.get("level", "proof")
    checks.append({
        "property_id": pid,
        "quick_cmd": "./check %s --tier quick" % pid,
        "thorough_cmd": "./check %s --tier thorough" % pid,
        "evidence_file": "/verif/evidence/%s.json" % pid,
        "replay_cmd_template": "./check %s --replay {path}" % pid,
        "engine": "lean-model",
        "level_claimed": {"category": cat, "text": text, "design_ref": "DESIGN.md §6 " + pid},
        "level_note": NOTE,
        "technique": tech,
    })
m["checks"] = checks
m["not_applicable"] = []
m["engines"] = [
    {"name": "lean-model", "path": "/verif/lean", "serves_properties": sorted(PROPS),
     "kind_free_text": "Lean 4 model (MRL/Model), specification (MRL/Spec), theorems (MRL/Props, MRL/Proofs) and compiled model driver"},
    {"name": "harness", "path": "/verif/harness", "serves_properties": sorted(PROPS),
     "kind_free_text": "Rust differential harness driving the real library (hooks on): campaigns ops, crash, damage, fault, lockstep, projection, names, bytes, edge, oversize; property oracles"},
]
m["notes"] = "see DESIGN.md; known_findings.json lists genuine defects (F1-F3 and F6 fixed by fix: commits, F4/F5 recorded)"
json.dump(m, open(os.path.join(VERIF, "MANIFEST.json"), "w"), indent=1)
print("MANIFEST.json: %d checks" % len(checks))
