"""Per-property configuration of ./check: Lean obligations, campaigns, compared observables."""

OPS_Q = [("ops", 24, 110)]
OPS_T = [("ops", 240, 200), ("policy-ops", 120, 200)]

PROPS = {
    "C13": {
        "theorems": ["MRL.C13.C13_no_trace", "MRL.C13.C13_disk_untouched", "MRL.C13.C13_zero_bytes"],
        "examples": 1,
        "kinds": "RESFUDO",
        "campaigns": {"quick": OPS_Q, "thorough": OPS_T},
        "rule": "random histories (cursor-relative sizes) with every rejected/no-op call shape inserted at random points; "
                "a case is non-trivial if it rolled a file over, unlinked a file and was restarted; oracle: a rejected/no-op "
                "call has an empty file-system trace, reports 0 bytes and leaves the observable state (also after restart) unchanged",
        "assumptions": ["effects not reported by the hooks (a write bypassing RollingWriter) are only seen through the directory digests"],
    },
}
