"""Per-property configuration of ./check: Lean obligations, campaigns, compared observables.

campaign tuples: (campaign, cases, len).  kinds: first letters of the observation lines compared
between the real library and the model for this property:
  O open outcome   R call outcome   E effects   S queue state   F files/disk   U memory used
  D directory digest   G range result   B/N codec bytes / read-back   K entry decode   M file name
  J journal invariant
"""

ALL = "ORESFUDGBNKMJ"

PROPS = {
    "C01": {
        "theorems": ["MRL.C01R.C01_restart_exact", "MRL.C01R.C01_no_resurrection", "MRL.C01R.C01_no_loss", "MRL.C01R.C01_obs",
                     "MRL.C01R.C01_files_kept", "MRL.C01R.reach_rinv", "MRL.C01R.init_ok", "MRL.C01R.reopen_ok",
                     "MRL.C01J.C01_journal", "MRL.C01J.C01_journal_run", "MRL.C01J.reach_structure", "MRL.suffix_lemma",
                     "MRL.C07.C07_roundtrip", "MRL.C07.decode_encode", "MRL.C05.C05_history"],
        "examples": 4,
        "modules": ["MRL.Props.C01", "MRL.Props.C01Journal", "MRL.Props.C01Restart"],
        "kinds": "OSDFJ",
        "campaigns": {"quick": [("ops", 24, 110), ("ops-journal", 8, 60)],
                      "thorough": [("ops", 300, 220), ("policy-ops", 150, 200), ("ops-journal", 64, 90), ("names", 60, 120)]},
        "rule": "random histories over 1-5 queues (create/delete/re-create, batches, explicit positions, truncation into the future) with "
                "cursor-relative payload sizes and restarts at random points; non-trivial = at least one roll-over, one file unlinked and one "
                "restart compared; oracle on the real library: observable state before drop = state after open; the journal invariant "
                "(replaying the entries located in tracked files gives the queues) is evaluated by the model driver after every call",
        "assumptions": ["OS file semantics and std::io::BufWriter are modelled (DESIGN §8)"],
    },
    "C02": {
        "theorems": ["MRL.C02U.C02_usable", "MRL.C02U.C02_usable_restart", "MRL.C02U.C02_usable_crash_atomic",
                     "MRL.C02U.C02_usable_second_crash", "MRL.C02U.C02_usable_refines", "MRL.C02U.crash_cinvx",
                     "MRL.C02U.C02_usable_reach_all", "MRL.C02U.reachX_inv", "MRL.C02U.cinvx_step", "MRL.C02U.cinvx_reopen",
                     "MRL.C02A.C02_crash_atomic", "MRL.C02A.C02_crash_atomic_exact", "MRL.C02A.C02_second_crash",
                     "MRL.C02A.C02_second_crash_exact", "MRL.C02A.C02_recovered_usable_partial", "MRL.C02A.clean_crash_points",
                     "MRL.C02.C02_torn_tail", "MRL.C02.C02_resume", "MRL.C02.C02_crash", "MRL.C02.resume_nonvacuous",
                     "MRL.C03.unlink_after_sync", "MRL.C03.flush_then_unlink_image", "MRL.C01R.C01_restart_exact",
                     "MRL.Glue.applyOsOps_coalesce", "MRL.Glue.sync_disk", "MRL.Glue.runCrash_image", "MRL.Glue.prun_incremental", "MRL.Glue.cache_stable"],
        "examples": 4,
        "modules": ["MRL.Props.C02", "MRL.Props.C03", "MRL.Props.C01Restart", "MRL.Props.C02Atomic", "MRL.Props.C02Usable", "MRL.Proofs.DriverGlue"],
        "kinds": "ODSFRE",
        "campaigns": {"quick": [("crash", 20, 60)], "thorough": [("crash", 200, 120), ("crash-policies", 100, 100)]},
        "rule": "histories under a flush-per-operation policy; the effect trace is turned into OS-level operations through the BufWriter model; "
                "crash points = every file create/set_len/unlink boundary, operation boundaries, and byte cuts 1,3,4,6,7,8,mid,len-1 plus "
                "0,1,4,6,7,8 bytes around every frame start inside every write; each image is opened by the real library and by the model; "
                "oracle: recovered state = state after the completed calls, or with the in-flight call applied, or a truncate/delete seen "
                "partially applied; a quarter of the points get a continuation history and a restart; non-trivial = cut inside a write and "
                "a roll-over in the history",
        "assumptions": ["process-crash model: effects reach the OS in program order; create/set_len/unlink atomic"],
    },
    "C03": {
        "theorems": ["MRL.C03.unlink_after_sync", "MRL.C03.unlink_after_sync_open", "MRL.C03.unlink_after_sync_split",
                     "MRL.C03.create_synced", "MRL.C03.delete_synced", "MRL.C03.persist_flush", "MRL.C03.persist_flushAndFsync",
                     "MRL.C03.always_persists", "MRL.C03.onDelay_persists", "MRL.C03.buffer_empty_of_flushedAtEnd",
                     "MRL.C03.flush_then_unlink", "MRL.C03.flush_then_unlink_image", "MRL.C02.C02_torn_tail", "MRL.C02.C02_resume",
                     "MRL.C03D.C03_durable", "MRL.C03D.C03_durable_after", "MRL.C03D.C03_power_loss", "MRL.C03D.forced_tail", "MRL.C03D.persist_tail",
                     "MRL.C03P.C03_posix", "MRL.P.power_reduction", "MRL.P.power_prefix", "MRL.P.op_boundaryP", "MRL.P.pd_effsD",
                     "MRL.C03P.always_tail", "MRL.C03P.onDelay_tail", "MRL.C03P.opsP_erase", "MRL.C03P.powerImage_empty_no_syncDir",
                     "MRL.C03PX.C03_posix_reachX", "MRL.C03PX.C03_posix_reopen", "MRL.C03PX.C03_posixX_cinvx", "MRL.C03PX.reachX_history",
                     "MRL.C03PX.effsX_calls", "MRL.C03PX.unlink_prefix_window", "MRL.PX.power_reductionX", "MRL.PX.runX_cut",
                     "MRL.C03PD.C03_posix_dir_partial", "MRL.C03PD.powerImageD_is_cut", "MRL.C03PD.powerImageD_all",
                     "MRL.C03PD.readd_gc", "MRL.C03PD.readd_step", "MRL.C03PD.readd_restart", "MRL.C03PD.readd_agree"],
        "examples": 4,
        "modules": ["MRL.Props.C03", "MRL.Props.C02", "MRL.Props.C03Durable", "MRL.Props.C03Posix", "MRL.Props.C03PosixX", "MRL.Props.C03PosixDir", "MRL.Props.C03PosixDirFull"],
        "kinds": "ODSFRE",
        "campaigns": {"quick": [("crash-policies", 20, 60)], "thorough": [("crash-policies", 240, 120)]},
        "rule": "as C02 under all seven policies (DoNothing, OnDelay never/always due x Flush/FlushAndFsync, Always x 2) with explicit persist "
                "calls; a persist point is a call after which the BufWriter is empty; oracle: the state recovered from any later crash image "
                "is the state after j calls for some j >= last persist point (power loss = prefix of the OS operations no shorter than the "
                "last fsync, which under the ordered-persistence assumption is a process-crash image at an earlier point)",
        "assumptions": ["ordered persistence: bytes and directory operations reach stable storage in program order; fsync forces everything before it"],
    },
    "C04": {
        "theorems": ["MRL.C04.spec_next_mono", "MRL.C04.spec_append_fresh", "MRL.C04.spec_run_next_mono",
                     "MRL.C04.spec_below_preserved", "MRL.C04.C04_model_next_mono", "MRL.C04.C04_model_run_next_mono",
                     "MRL.C04.C04_model_append_fresh",
                     "MRL.C04R.C04_restart_next", "MRL.C04R.C04_restart_append_fresh", "MRL.C04R.C04_reach_next_mono",
                     "MRL.C04C.C04_crash_next_mono", "MRL.C04C.C04_crash_then_append_fresh"],
        "examples": 3,
        "modules": ["MRL.Props.C04", "MRL.Props.C04Restart", "MRL.Props.C04Crash"],
        "kinds": "ORS",
        "campaigns": {"quick": [("ops", 16, 110), ("crash", 8, 50)], "thorough": [("ops", 200, 200), ("crash-policies", 100, 100)]},
        "rule": "ops and crash campaigns; oracle: within one incarnation of a queue every append returns positions >= the previous next "
                "position, also for the first append after a restart or a crash recovery (idle empty queues across GC passes included)",
        "assumptions": ["restart / crash legs rest on C01 / C02 (journal theorem + correspondence)"],
    },
    "C05": {
        "theorems": ["MRL.C05.C05_refines", "MRL.C05.C05_history", "MRL.C05.C05_history_pointwise", "MRL.C05.range_eq_filter",
                     "MRL.C05.lastPosition_eq", "MRL.C05.lastRecord_eq", "MRL.C05.get_abs", "MRL.C05.Inv_empty",
                     "MRL.C05I.getRange_split", "MRL.C05I.absI_appendRecordI", "MRL.C05I.absI_truncateHeadI", "MRL.C05I.rangeI_eq",
                     "MRL.C05I.lastRecordI_eq", "MRL.C05I.repInv_appendRecordI", "MRL.C05I.repInv_truncateHeadI", "MRL.C05I.sizeI_eq",
                     "MRL.C05B.stepP_ok", "MRL.C05B.stepPanics_iff", "MRL.C05B.stepP_agrees", "MRL.C05B.stepP_agrees_cur", "MRL.C05B.step_posBnd",
                     "MRL.C05B.run_no_panic", "MRL.C05B.fresh_no_panic", "MRL.C05B.truncate_at_max_panics", "MRL.C05B.append_at_max_panics",
                     "MRL.C05B.append_serialize_panics", "MRL.C05B.witness_truncate_max", "MRL.C05B.witness_append_max", "MRL.C05B.witness_implicit_max"],
        "examples": 6,
        "modules": ["MRL.Props.C05", "MRL.Props.C05Impl", "MRL.Props.C05Bounds"],
        "kinds": "RSGE",
        "campaigns": {"quick": [("ops", 24, 110), ("edge", 16, 0)], "thorough": [("ops", 300, 220), ("policy-ops", 100, 200), ("edge", 300, 0)]},
        "rule": "ops campaign: every call outcome, the full observable state after every call and every range result (all 9 bound shapes drawn "
                "around existing positions) compared with the Rust copy of the specification and with the Lean model; edge campaign: positions "
                "2^64-4..2^64-1 in truncate bounds, explicit and implicit append positions, batches of 0-3 records: which calls panic, what "
                "they wrote before panicking and the state afterwards are compared with the model's panic-instrumented twin Log.stepP "
                "(known finding F4: the panics themselves)",
        "assumptions": ["positions < 2^64-1 for the refinement theorem (run_no_panic: guaranteed for histories with positions < 2^62); at 2^64-1 the checked build panics exactly where Log.stepP says (F4); release builds wrap silently (not modelled)"],
    },
    "C06": {
        "theorems": ["MRL.C06.filesOk_step", "MRL.C06.filesOk_run", "MRL.C06.C06_reclaim", "MRL.C06.C06_truncate", "MRL.C06.C06_delete",
                     "MRL.C06.C06_open", "MRL.C06.no_premature_release", "MRL.C17.files_accounted",
                     "MRL.C06R.filesOk_reach", "MRL.C06R.C06_reach_open", "MRL.C06R.C06_reach_reclaim",
                     "MRL.C06X.filesOkX_reachX", "MRL.C06X.C06_crash_step", "MRL.C06X.C06_crash_reclaim", "MRL.C06X.C06_crash_open",
                     "MRL.C06X.C06_crash_recover", "MRL.C06X.C06_crash2_recover", "MRL.C06X.filesOk_fails", "MRL.C06X.no_premature_release"],
        "examples": 2,
        "modules": ["MRL.Props.C06", "MRL.Props.C17", "MRL.Props.C06Restart", "MRL.Props.C06Crash"],
        "kinds": "FDE",
        "campaigns": {"quick": [("ops", 24, 110)], "thorough": [("ops", 300, 220), ("policy-ops", 100, 200)]},
        "rule": "ops campaign; after every truncate/delete/open: the directory listing is a contiguous run ending at the file being written, no "
                "file older than min(file of the oldest retained record [write cursor when its append began], file being written when the call "
                "began), disk_used_bytes = files x file size; non-trivial = a call that unlinked a file",
        "assumptions": [],
    },
    "C07": {
        "theorems": ["MRL.C07.C07_roundtrip", "MRL.C07.C07_nonvacuous", "MRL.C07.writeEntryBufs_frames", "MRL.C07.entryFrames_shape",
                     "MRL.C07.writeEntry_bytes_count", "MRL.C07.decode_encode", "MRL.C07V.C07_recover_roundtrip"],
        "examples": 2,
        "modules": ["MRL.Props.C07", "MRL.Props.C07Recover"],
        "kinds": "BNKOSDE",
        "campaigns": {"quick": [("bytes", 32, 150), ("ops", 16, 90)], "thorough": [("bytes", 400, 300), ("ops", 200, 200)]},
        "rule": "bytes campaign through hook H4 (real RecordWriter/RecordReader over in-memory 32 KiB blocks): sequences of 1-6 entries whose "
                "lengths are chosen so that each ends 0..15 bytes before a block end, exactly at it, spans 1-9 blocks or is ~300 KiB; written "
                "bytes compared byte-for-byte (hash) and read-back entry-for-entry with the model; oracle: read-back = written",
        "assumptions": ["crc32 is an uninterpreted function in the proofs; B <= 65542 for the 2-byte length field"],
    },
    "C08": {
        "theorems": ["MRL.C08G.C08_genuine_entries", "MRL.C08G.C08_genuine_records", "MRL.C08G.genuine_location",
                     "MRL.C08G.negative_example", "MRL.C08G.negative_violates",
                     "MRL.C08.recover_sorted", "MRL.C08.recover_sorted'", "MRL.C08.replay_records_subset", "MRL.C08.replay_is_fold",
                     "MRL.C08.recover_records_subset", "MRL.C12.assemble_whole_entry",
                     "MRL.C08V.C08_recover_genuine", "MRL.C08X.C08_crash_genuine_partial", "MRL.C08X.C08_crash_restart_partial",
                     "MRL.C08X.C08_crash_genuine", "MRL.C08X.C08_crash_restart", "MRL.C08X.C08_crash_genuine_reachX", "MRL.C08X.C08_crash_restart_reachX",
                     "MRL.C02W.reachXW_journal", "MRL.C02W.ReachXW.toReachX", "MRL.C02W.ReachXW.ofReachX"],
        "examples": 5,
        "modules": ["MRL.Props.C08", "MRL.Props.C12", "MRL.Props.C08Genuine", "MRL.Props.C08Recover", "MRL.Props.C08Crash", "MRL.Props.C08CrashFull"],
        "kinds": "ODSN",
        "campaigns": {"quick": [("damage", 16, 70), ("bytes", 12, 120)], "thorough": [("damage", 200, 120), ("damage-aimed", 60, 100), ("bytes", 150, 250)]},
        "rule": "damage campaign: final image of a history (with delete/re-create, GC) + 10-20 damage variants each: aimed at crc/payload of "
                "one traced frame, at a length or type byte, zero/garbage ranges up to 3 blocks, transposed blocks, overwritten files; oracle "
                "(in-place variants): every recovered record equals (queue, position, payload) of some append, positions strictly increase",
        "assumptions": ["no CRC-32 collision; damage that copies valid WAL content is finding F5"],
    },
    "C09": {
        "theorems": ["MRL.C09.C09_one_frame", "MRL.C09.damaged_buffers", "MRL.C09.undamaged", "MRL.C09.framesOf_is_layout",
                     "MRL.C12.assemble_whole_entry",
                     "MRL.C09R.C09_drop_one", "MRL.C09R.C09_drop_one_run", "MRL.C09R.C09_end_to_end",
                     "MRL.C09V.C09_recover_one_frame", "MRL.C09V.C09_recover_one_frame_all",
                     "MRL.C09X.C09_crash_one_frame", "MRL.C09X.C09_crash_one_frame_reachX", "MRL.C09X.C09_drop_one_crash", "MRL.LR.reachXR_journal"],
        "examples": 2,
        "modules": ["MRL.Props.C09", "MRL.Props.C12", "MRL.Props.C09Replay", "MRL.Props.C08Recover", "MRL.Props.C09Close", "MRL.Props.C09Crash"],
        "kinds": "ODSN",
        "campaigns": {"quick": [("damage-aimed", 16, 70), ("bytes", 12, 120)], "thorough": [("damage-aimed", 240, 120), ("bytes", 150, 250)]},
        "rule": "aimed damage: a traced frame still on disk, alteration (bit flip / garbage / inverted byte) confined to its checksum or payload "
                "bytes; oracle: open succeeds and every retained record of the specification that does not belong to the append call that "
                "wrote the frame is recovered with the same position and payload",
        "assumptions": ["the altered frame fails its CRC (no collision)"],
    },
    "C10": {
        "theorems": ["MRL.C10.recoverP_agrees", "MRL.C10.replay_no_panic", "MRL.C10.runGc_no_panic", "MRL.C10.recover_no_panic",
                     "MRL.C10.recover_no_panic_img", "MRL.C10.recover_buf_bounded", "MRL.C10.replayP_total",
                     "MRL.C10.truncate_max_panics", "MRL.C10.append_max_poisons", "MRL.C10.noMaxFiles_insufficient",
                     "MRL.C11.ioCalls_bounded", "MRL.C08.recover_sorted",
                     "MRL.C10A.writeEntry_asserts", "MRL.C10A.recover_asserts", "MRL.C10A.decode_name_lt", "MRL.C10A.step_off_le", "MRL.C10A.oversize_assert_fires",
                     "MRL.C10V.recoverC_asserts", "MRL.C10V.recoverC_no_panic", "MRL.C10V.clipImage_noOversize", "MRL.C10V.clipImage_id",
                     "MRL.C10V.recoverC_eq_recover", "MRL.C10V.reach_noOversize", "MRL.C10V.reachD_noOversize", "MRL.C10V.crash_noOversize",
                     "MRL.C10V.crash2_noOversize", "MRL.C10V.recoverC_reach", "MRL.C10V.recoverC_reachD", "MRL.C10V.recoverC_crash", "MRL.C10V.recoverC_crash2",
                     "MRL.C10M.recover_payload_bounded", "MRL.C10M.recover_records_bounded", "MRL.C10M.recover_used_bounded", "MRL.C10M.recoverC_bounded",
                     "MRL.C10M.padding_example"],
        "examples": 3,
        "modules": ["MRL.Props.C10", "MRL.Props.C11", "MRL.Props.C08", "MRL.Props.C10Asserts", "MRL.Props.C10Oversize", "MRL.Props.C10Reach", "MRL.Props.C10Memory"],
        "kinds": "ODSNK",
        "campaigns": {"quick": [("damage", 12, 70), ("bytes", 16, 120), ("edge", 4, 0), ("oversize", 8, 0)],
                      "thorough": [("damage", 200, 120), ("bytes", 300, 300), ("names", 60, 100), ("edge", 32, 0), ("oversize", 96, 0)]},
        "rule": "damage campaign (all classes incl. truncated/removed/duplicated files, transposed blocks) + crafted block content through the "
                "real reader (valid-CRC frames with hostile type/length fields, orphan Middle/Last, malformed entries) under catch_unwind and "
                "a 20 s watchdog; read accessors exercised on every recovered log; oversize campaign: the last WAL file extended by 1-2 blocks "
                "of valid frames (0..8 or 100 bytes left in the last block), the only record pinning the first file damaged, an empty queue "
                "with a name of up to 65000 bytes: the GC pass of open writes from beyond the nominal file size (finding F6)",
        "assumptions": ["OS behaviour (odd directory entries, allocation failure) is exercised, not modelled"],
    },
    "C11": {
        "theorems": ["MRL.C11.io_reported", "MRL.C11.io_irrelevant_beyond", "MRL.C11.never_partial",
                     "MRL.C11.fault_never_ok_on_bad_image", "MRL.C11.fault_outcomes", "MRL.C11.ioCalls_bounded"],
        "examples": 5,
        "kinds": "OSD",
        "campaigns": {"quick": [("fault", 12, 60), ("crash-fault", 16, 50)], "thorough": [("fault", 150, 120), ("crash-fault", 200, 80)]},
        "rule": "fault campaign (hook H3): for a WAL image spanning 1-5 files, an I/O error (two per index: one of all 20 stable io::ErrorKinds, one of the kinds I/O code tends to special-case; "
                "transient or persistent) injected at "
                "every index of the list/open/read calls recovery makes, plus two beyond; oracle: Err(Io) iff the index is reached, else the "
                "fault-free log; 20 s watchdog",
        "assumptions": ["an UnexpectedEof raised by read_exact itself is the short-file signal by design (read_block); one injected at the call boundary must be reported like any other kind"],
    },
    "C12": {
        "theorems": ["MRL.C12C.C12_crash", "MRL.C12C.C12_damage", "MRL.C12C.allOrSuffix_of_replay",
                     "MRL.C12.replay_batch_suffix", "MRL.C12.batch_suffix_fresh", "MRL.C12.batch_all_or_nothing",
                     "MRL.C12.assemble_whole_entry",
                     "MRL.C12K.C12_crash_batch_atomic", "MRL.C12K.C12_crash_no_partial_batch",
                     "MRL.C12V.C12_recover_damage",
                     "MRL.C12X.C12_crash_damage", "MRL.C12X.C12_crash_restart", "MRL.C12X.C12_crash_damage_reachX", "MRL.C12X.no_hole",
                     "MRL.C12X.undelivered_nothing", "MRL.C12X.C12_crash_no_hole"],
        "examples": 6,
        "modules": ["MRL.Props.C12", "MRL.Props.C12Compose", "MRL.Props.C12Crash", "MRL.Props.C08Recover", "MRL.Props.C12CrashDamage"],
        "kinds": "ODSN",
        "campaigns": {"quick": [("crash", 10, 60), ("damage", 10, 70), ("bytes", 12, 120)], "thorough": [("crash-policies", 150, 110), ("damage", 150, 110), ("bytes", 150, 250)]},
        "rule": "crash and damage campaigns with batches of 2-6 records sized to span blocks and files; oracle: for every batch whose queue "
                "incarnation is current, the recovered records of the batch are a suffix of it (false* true*)",
        "assumptions": ["damage that copies valid WAL content is finding F5"],
    },
    "C13": {
        "theorems": ["MRL.C13.C13_no_trace", "MRL.C13.C13_disk_untouched", "MRL.C13.C13_zero_bytes",
                     "MRL.C13R.C13_state_unchanged", "MRL.C13R.C13_restart_unaffected",
                     "MRL.C13Acc.accessors_of_abs", "MRL.C13Acc.accessors_of_absEq"],
        "examples": 1,
        "modules": ["MRL.Props.C13", "MRL.Props.C13Restart", "MRL.Props.C13Accessors"],
        "kinds": "RESFUDO",
        "campaigns": {"quick": [("ops", 24, 110)], "thorough": [("ops", 240, 200), ("policy-ops", 120, 200)]},
        "rule": "random histories (cursor-relative sizes) with every rejected/no-op call shape inserted at random points; non-trivial = rolled a "
                "file over, unlinked a file and was restarted; oracle: a rejected/no-op call has an empty file-system trace, reports 0 bytes "
                "and leaves the observable state (also after restart) unchanged",
        "assumptions": ["effects not reported by the hooks are only seen through the directory digests"],
    },
    "C14": {
        "theorems": ["MRL.C14.C14_policy_irrelevant", "MRL.C14.C14_history", "MRL.C14.step_keeps_policy", "MRL.C14.C14_same_image",
                     "MRL.C14.C14_history_same_image", "MRL.C14.same_image_literal_false",
                     "MRL.C14R.recover_policy_irrelevant", "MRL.C14R.C14_restart",
                     "MRL.C14S.C14_reach_restart", "MRL.C14S.C14_reach_logical"],
        "examples": 2,
        "modules": ["MRL.Props.C14", "MRL.Props.C14Restart", "MRL.Props.C14Reach"],
        "kinds": "ORESFUG",
        "campaigns": {"quick": [("lockstep", 6, 70)], "thorough": [("lockstep", 60, 150), ("policy-ops", 100, 150)]},
        "rule": "one generated history (with persist calls and restarts) replayed under all seven policies in lock-step; oracle: identical "
                "outcomes (incl. byte counts), states, range results and sync-erased effects (writes summarised by size: the GC's empty-queue "
                "entries follow the hash map's iteration order)",
        "assumptions": ["an I/O error returned by a flush is not modelled"],
    },
    "C15": {
        "theorems": ["MRL.C15.C15_bytes_exact", "MRL.C15.C15_zero_iff", "MRL.C15.C15_contiguous", "MRL.C15.C15_writes_nonempty",
                     "MRL.C15O.C15_open", "MRL.C15O.C15_open_zero_iff"],
        "examples": 2,
        "modules": ["MRL.Props.C15", "MRL.Props.C15Open"],
        "kinds": "REBO",
        "campaigns": {"quick": [("ops", 24, 110), ("bytes", 8, 100)], "thorough": [("ops", 300, 220), ("bytes", 100, 200)]},
        "rule": "ops campaign: wal_bytes_written of every create/delete/append/truncate compared with the summed sizes of the Write events of "
                "that call (padding, headers, GC position entries included) and with the model; non-trivial = includes calls with GC bytes",
        "assumptions": ["bytes written by the GC pass of open() are not surfaced by the API (outside the statement)"],
    },
    "C16": {
        "theorems": ["MRL.C16.C16_used_exact", "MRL.C16.C16_used_split", "MRL.C16.C16_used_ge", "MRL.C16.C16_used_le",
                     "MRL.C16.C16_truncate_drop", "MRL.C16.C16_truncate_noop", "MRL.C16.C16_baseline",
                     "MRL.C16R.C16_restart_queue", "MRL.C16R.C16_restart_used",
                     "MRL.C16K.C16_create", "MRL.C16K.C16_delete", "MRL.C16K.C16_append", "MRL.C16K.C16_truncate", "MRL.C16K.C16_rejected"],
        "examples": 3,
        "modules": ["MRL.Props.C16", "MRL.Props.C16Restart", "MRL.Props.C16Calls"],
        "kinds": "US",
        "campaigns": {"quick": [("ops", 24, 110)], "thorough": [("ops", 300, 220)]},
        "rule": "ops campaign; after every call: names + payload <= memory_used_bytes <= names + payload + META x records (META measured on the "
                "real build and compared with the generated constant), used <= allocated, names-only baseline when all queues are empty; "
                "memory_used_bytes compared with the model after every state dump",
        "assumptions": ["used <= allocated rests on capacity >= len of std collections (tested, not proved)"],
    },
    "C17": {
        "theorems": ["MRL.C17.parse_fileName", "MRL.C17.parse_format", "MRL.C17.parse_some_iff", "MRL.C17.parse_injective",
                     "MRL.C17.parse_wrong_length", "MRL.C17.parse_nondigit", "MRL.C17.parse_non_ascii", "MRL.C17.parse_overflow",
                     "MRL.C17.listWal_only_named", "MRL.C17.effects_named_partial", "MRL.C17.effects_named_of_no_unlink",
                     "MRL.C17.files_grow_by_succ", "MRL.C17.files_accounted", "MRL.C17.effects_named_false",
                     "MRL.C17F.foreign_untouched", "MRL.C17F.foreign_untouched_u64", "MRL.C17F.only_wal_names_created", "MRL.C17F.only_wal_names_removed", "MRL.C17F.image_commutes", "MRL.C17F.toOsOps_files", "MRL.C17F.step_ops_named", "MRL.C17F.step_foreign_untouched"],
        "examples": 9,
        "modules": ["MRL.Props.C17", "MRL.Props.C17Foreign"],
        "kinds": "OSFDEM",
        "campaigns": {"quick": [("names", 12, 80), ("bytes", 8, 100)], "thorough": [("names", 150, 160), ("bytes", 100, 200)]},
        "rule": "names campaign: 14 foreign entries (23/25-char names, letters, sign, non-ASCII digit, wrong prefix/case, suffixes, a "
                "sub-directory and a symlink with valid WAL names) present from the first open; the WAL files are renumbered with gaps "
                "mid-history; oracle: foreign entries byte-identical at the end, no foreign name created, the library never opens/creates/"
                "removes a non-tracked number; file-name parser compared with the model on near-miss names",
        "assumptions": ["DirEntry::file_type().is_file() is modelled as a kind tag"],
    },
    "C18": {
        "theorems": ["MRL.C18.spec_other_untouched", "MRL.C18.spec_outcome_local", "MRL.C18.C18_spec_projection",
                     "MRL.C18.C18_model_projection", "MRL.C18.C18_model_projection_filter",
                     "MRL.C18R.C18_restart_view", "MRL.C18R.C18_restart_projection",
                     "MRL.C18C.C18_crash_other_untouched", "MRL.C18C.C18_crash_persist"],
        "examples": 2,
        "modules": ["MRL.Props.C18", "MRL.Props.C18Restart", "MRL.Props.C18Crash"],
        "kinds": "ORSG",
        "campaigns": {"quick": [("projection", 24, 110)], "thorough": [("projection", 160, 160), ("crash", 40, 80)]},
        "rule": "a history over 2-4 queues and, for each queue, its projection (calls addressed to it, restarts and persists kept) run on the "
                "real library; oracle: the queue's records/next position after every kept call and the logical outcomes are identical; "
                "non-trivial = a file was unlinked while another queue still had records",
        "assumptions": ["restart and crash legs rest on C01 / C02"],
    },
}
