/-
Line-protocol driver: reads case files produced (and annotated) by the Rust harness on stdin,
runs the *model definitions the theorems are about* and prints one canonical line per
observation. The harness prints the same lines from the real library; `diff` is the verdict.
-/
import MRL.Model.Disk
import MRL.Model.PowerLoss
import MRL.Model.PowerLossDir
import MRL.Proofs.Journal
import MRL.Model.FileName
import MRL.Model.Panic
import MRL.Model.PanicCalls

open MRL

namespace Drv

def hexVal (c : Char) : Nat :=
  if '0' ≤ c ∧ c ≤ '9' then c.toNat - '0'.toNat
  else if 'a' ≤ c ∧ c ≤ 'f' then c.toNat - 'a'.toNat + 10
  else 0

def unhexL : List Char → Bytes
  | a :: b :: rest => (hexVal a * 16 + hexVal b).toUInt8 :: unhexL rest
  | _ => []

def unhex (s : String) : Bytes := if s = "-" then [] else unhexL s.toList

def hexDigit (n : Nat) : Char := if n < 10 then Char.ofNat (48 + n) else Char.ofNat (87 + n)

def hex (bs : Bytes) : String :=
  if bs.isEmpty then "-" else String.ofList (bs.flatMap fun b => [hexDigit (b.toNat / 16), hexDigit (b.toNat % 16)])

/-- pseudo-random payload shared with the harness: xorshift64, one byte per step -/
def genPayload (len seed : Nat) : Bytes :=
  let rec go : Nat → UInt64 → List UInt8 → List UInt8
    | 0, _, acc => acc.reverse
    | n + 1, s, acc =>
      let s := s ^^^ (s <<< 13)
      let s := s ^^^ (s >>> 7)
      let s := s ^^^ (s <<< 17)
      go n s ((s >>> 24).toUInt8 :: acc)
  go len (seed.toUInt64 * 0x9E3779B97F4A7C15 + 1) []

def parsePayload (tok : String) : Bytes :=
  match tok.splitOn ":" with
  | ["g", len, seed] => genPayload len.toNat! seed.toNat!
  | ["x", h] => unhex h
  | ["z", n] => zeros n.toNat!
  | _ => []

def fnvS (bs : Bytes) : String := toString (fnv64 bs).toNat

def recS (p : Nat × Bytes) : String := s!"{p.1}:{p.2.length}:{fnvS p.2}"

def optS : Option Nat → String
  | some n => toString n
  | none => "-"

def joinS (sep : String) (xs : List String) : String := if xs.isEmpty then "-" else sep.intercalate xs

def effS : Effect → Option String
  | .write f off d => some s!"W:{f}:{off}:{d.length}:{fnvS d}"
  | .flush => some "FL"
  | .fsyncFile f => some s!"FS:{f}"
  | .fsyncDir => some "FD"
  | .create f => some s!"CR:{f}"
  | .setLen f n => some s!"SL:{f}:{n}"
  | .unlink f => some s!"UL:{f}"
  | .ensureLen f n => some s!"EL:{f}:{n}"
  | .openFile _ | .readBlock _ | .listDir => none

def effLine (es : List Effect) : String := "E " ++ joinS " " (es.filterMap effS)

def outcomeS : Outcome → String
  | .created n => s!"R created {n}"
  | .deleted n => s!"R deleted {n}"
  | .appended l n => s!"R appended {optS l} {n}"
  | .truncated e n => s!"R truncated {e} {n}"
  | .persisted => "R persisted"
  | .alreadyExists => "R err:exists"
  | .missingQueue => "R err:missing"
  | .past => "R err:past"

def parsePolicy (s : String) : Policy :=
  match s with
  | "nothing" => .doNothing
  | "delay:flush" => .onDelay .flush
  | "delay:fsync" => .onDelay .flushAndFsync
  | "always:fsync" => .always .flushAndFsync
  | "delaynow:flush" => .onDelay .flush
  | "delaynow:fsync" => .onDelay .flushAndFsync
  | _ => .always .flush

def parseBound (s : String) : MemQueue.Bound :=
  if s = "u" then .unbounded
  else if s.startsWith "i" then .incl (s.drop 1).toString.toNat!
  else .excl (s.drop 1).toString.toNat!

def kvGet (toks : List String) (key : String) : Option String :=
  toks.findSome? fun t => match t.splitOn "=" with
    | [k, v] => if k = key then some v else none
    | _ => none

/-- queue names longer than 64 bytes are printed as `h<fnv64>:<length>` -/
def nameTok (name : Bytes) : String :=
  if name.length ≤ 64 then hex name else s!"h{fnvS name}:{name.length}"

/-- the raw `order=` tokens -/
def orderToks (toks : List String) : List String :=
  match kvGet toks "order" with
  | some v => if v = "-" then [] else v.splitOn ","
  | none => []

/-- resolve `order=` tokens against the queue names of a log (long names are given by hash) -/
def resolveOrder (names : List Bytes) (ts : List String) : List Bytes :=
  ts.map fun t =>
    if t.startsWith "h" then (names.find? fun n => nameTok n == t).getD [] else unhex t

def parseOrderIn (qs : MemQueues) (toks : List String) : List Bytes :=
  resolveOrder (qs.map (·.1)) (orderToks toks)

def parseTick (toks : List String) : Bool := kvGet toks "tick" == some "1"

/-- lexicographic order on byte strings (Rust's `str`/`[u8]` ordering) -/
def bytesLt : Bytes → Bytes → Bool
  | [], [] => false
  | [], _ :: _ => true
  | _ :: _, [] => false
  | a :: as, b :: bs => a < b || (a == b && bytesLt as bs)

def insertSorted (x : Bytes × MemQueue) : List (Bytes × MemQueue) → List (Bytes × MemQueue)
  | [] => [x]
  | y :: ys => if bytesLt x.1 y.1 then x :: y :: ys else y :: insertSorted x ys

def sortQs (qs : MemQueues) : MemQueues := qs.foldl (fun acc x => insertSorted x acc) []

structure St where
  log : Option Log := none
  /-- OS view of the directory as of the last materialisation -/
  disk : Image := []
  /-- OS operations not yet applied to `disk`, newest first -/
  pending : List OsOp := []
  buf : BufSt := {}
  /-- all OS operations since the start of the case, newest first -/
  opsRev : List OsOp := []
  /-- incremental crash-image cache: image after the first `baseK` operations -/
  baseK : Nat := 0
  /-- the same operations with the two kinds of `fsync` kept apart (`toOsOpsP`), newest first -/
  opsPRev : List OsOpP := []
  /-- incremental power-loss cache: `prun (PState.init []) (first pBaseK operations)` -/
  pBaseK : Nat := 0
  pBase : PState := PState.init []
  /-- the same cache for the lazier-directory model (`prunD` is a fold too) -/
  dBaseK : Nat := 0
  dBase : DState := DState.init []
  baseImg : Image := []
  /-- `snapshot` / `restore` of the directory (damage campaigns) -/
  snap : Image := []
  /-- the journal of every entry written since the case started (clean histories only) -/
  journal : List JE := []
  journalOk : Bool := false

def geom : Geom := { B := Consts.BLOCK, K := Consts.BLOCKS_PER_FILE_VERIF, hB := by decide, hK := by decide }

def St.absorb (st : St) (es : List Effect) : St :=
  let (b, ops) := toOsOps Consts.FRAME_NUM_BYTES st.buf es
  let opsP := (toOsOpsP Consts.FRAME_NUM_BYTES st.buf es).2
  { st with buf := b, pending := ops.reverse ++ st.pending, opsRev := ops.reverse ++ st.opsRev,
            opsPRev := opsP.reverse ++ st.opsPRev }

/-- bring `disk` up to date -/
def St.sync (st : St) : St :=
  { st with disk := applyOsOps st.disk (coalesce (st.pending.reverse.filter (· != .sync))), pending := [] }

def stateLines (msz : Nat) (l : Log) : List String :=
  if accessorsPanic l.queues then ["S PANIC"] else
  let qs := sortQs l.queues
  let ql := qs.map fun (name, q) =>
    let recs := q.recs.map fun r => recS (r.pos, r.payload)
    let lr := match q.lastRecord with
      | some p => recS p
      | none => "-"
    s!"S q={nameTok name} start={q.start} next={q.nextPosition} last={optS q.lastPosition} ff={optS q.firstFile} lr={lr} n={q.recs.length} recs={joinS "," recs}"
  ql ++ [s!"F files={joinS "," (l.files.map toString)} disk={l.diskUsed geom}", s!"U used={l.queues.usedBytes msz}"]

def dirLine (img : Image) : String :=
  "D " ++ joinS " " (img.map fun (f, c) => s!"{f}:{c.length}:{fnvS c}")

/-- the journal invariant: replaying the journal entries located in tracked files gives the queues -/
def jcheck (l : Log) (j : List JE) : Bool :=
  match replayJ (l.files.headD 0) [] j with
  | some qs => qsEquivB qs l.queues
  | none => false

def openOn (st : St) (img : Image) (toks : List String) (failAt : Option Nat) : St × List String :=
  let policy := parsePolicy (toks.getD 1 "always:flush")
  -- the panic-instrumented twin decides first whether the checked u64 arithmetic of the real
  -- code would overflow during this recovery
  -- the reader ignores what lies beyond the nominal file size (`recoverC` = `recover ∘ clipImage`)
  let imgR := clipImage geom img
  let order := match recoverPre geom imgR policy failAt with
    | .ok (lp, _, _) => parseOrderIn lp.queues toks
    | .error _ => []
  match recoverP geom imgR policy order failAt with
  | .error () => ({ st with log := none, disk := img, pending := [], buf := {} }, ["O PANIC"])
  | .ok res =>
  match res with
  | .error .io => ({ st with log := none, disk := img, pending := [], buf := {} }, ["O err:io"])
  | .error .corruption => ({ st with log := none, disk := img, pending := [], buf := {} }, ["O err:corruption"])
  | .ok r =>
    -- journal: the GC pass of `open` may have written empty-queue positions
    let j := match recoverPre geom imgR policy failAt with
      | .ok (lp, _, _) => st.journal ++ lp.gcJ geom order
      | .error _ => st.journal
    let ok := st.journalOk && jcheck r.log j
    let st1 : St := { st with log := some r.log, disk := img, pending := [], buf := {}, journal := j, journalOk := ok }
    (st1.absorb r.effects, [s!"O ok io={r.ioCalls}", effLine r.effects] ++ (if st.journalOk && !ok then ["J journal-invariant-broken"] else []))

def callOf (toks : List String) : Option Call :=
  match toks with
  | "create" :: q :: _ => some (.create (unhex q))
  | "delete" :: q :: _ => some (.delete (unhex q))
  | "truncate" :: q :: p :: _ => some (.truncate (unhex q) p.toNat!)
  | "persist" :: a :: _ => some (.persist (if a = "fsync" then .flushAndFsync else .flush))
  | "append" :: q :: p :: rest =>
    let pos := if p = "-" then none else some p.toNat!
    let pls := (rest.filter fun t => t.startsWith "g:" || t.startsWith "x:").map parsePayload
    some (.append (unhex q) pos pls)
  | _ => none

/-- one operation on a state; returns output lines -/
def runOp (msz : Nat) (jc : Bool) (st : St) (toks : List String) : St × List String :=
  match toks with
  | "open" :: _ => openOn { st with opsRev := [], baseK := 0, baseImg := [], opsPRev := [], pBaseK := 0, pBase := PState.init [], dBaseK := 0, dBase := DState.init [], journal := [], journalOk := jc } [] toks none
  | "reopen" :: _ =>
    -- drop: the `BufWriter` is flushed, then the directory is opened again
    let st1 := (st.absorb [.flush]).sync
    openOn st1 st1.disk toks none
  | "faultopen" :: _ =>
    let st1 := (st.absorb [.flush]).sync
    let failAt := (kvGet toks "fail").bind (·.toNat?)
    let (st2, out) := openOn st1 st1.disk toks failAt
    (st2, out)
  | "close" :: _ => ({ (st.absorb [.flush]).sync with log := none, journalOk := false }, [])
  | "snapshot" :: _ => let st1 := st.sync; ({ st1 with snap := st1.disk }, [])
  | "restore" :: _ => ({ st.sync with disk := st.snap, log := none, journalOk := false }, [])
  | "poke" :: f :: off :: d :: _ =>
    let st1 := st.sync
    ({ st1 with disk := mapFile st1.disk f.toNat! fun c => overwrite c off.toNat! (parsePayload d), journalOk := false }, [])
  | "setlen" :: f :: n :: _ =>
    let st1 := st.sync
    ({ st1 with disk := mapFile st1.disk f.toNat! fun c => setLenBytes c n.toNat!, journalOk := false }, [])
  | "rmfile" :: f :: _ =>
    let st1 := st.sync
    ({ st1 with disk := st1.disk.filter (·.1 != f.toNat!), journalOk := false }, [])
  | "copyfile" :: a :: b :: _ =>
    let st1 := st.sync
    match st1.disk.find? (·.1 == a.toNat!) with
    | some (_, c) =>
      let d0 := st1.disk.filter (·.1 != b.toNat!)
      ({ st1 with disk := mapFile (insertFile d0 b.toNat! []) b.toNat! (fun _ => c), journalOk := false }, [])
    | none => (st1, [])
  | "copyblock" :: f1 :: i1 :: f2 :: i2 :: _ =>
    let st1 := st.sync
    let bsz := Consts.BLOCK
    match st1.disk.find? (·.1 == f1.toNat!), st1.disk.find? (·.1 == f2.toNat!) with
    | some (_, c1), some (_, c2) =>
      if c1.length ≥ i1.toNat! * bsz + bsz ∧ c2.length ≥ i2.toNat! * bsz + bsz then
        let blk := (c1.drop (i1.toNat! * bsz)).take bsz
        ({ st1 with disk := mapFile st1.disk f2.toNat! fun c => overwrite c (i2.toNat! * bsz) blk, journalOk := false }, [])
      else (st1, [])
    | _, _ => (st1, [])
  | "state" :: _ =>
    match st.log with
    | some l => (st, stateLines msz l)
    | none => (st, ["S closed"])
  | "dir" :: _ =>
    let st1 := st.sync
    (st1, [dirLine st1.disk])
  | "range" :: q :: lo :: hi :: _ =>
    match st.log.bind (·.queues.get? (unhex q)) with
    | some mq => (st, ["G " ++ joinS "," ((mq.range (parseBound lo) (parseBound hi)).map recS)])
    | none => (st, ["G err:missing"])
  | _ =>
    match callOf toks, st.log with
    | some c, some l =>
      -- the GC visits the queues that are empty after the call: resolve hashes against all names
      let names := l.queues.map (·.1)
      let order := resolveOrder names (orderToks toks)
      -- the panic-instrumented twin decides first whether the checked u64 arithmetic of the real
      -- code overflows during this call (`C05B.stepP_ok`: otherwise it IS `Log.step`)
      match l.stepP geom c (parseTick toks) order with
      | .error esP =>
        -- the harness drops the log after a panic: the `BufWriter` is flushed
        let st1 := ((st.absorb esP).absorb [.flush]).sync
        ({ st1 with log := none, journalOk := false }, ["R PANIC", effLine esP])
      | .ok _ =>
      let (l', out, es) := l.step geom c (parseTick toks) order
      let j := st.journal ++ l.stepJ geom c order
      let ok := st.journalOk && jcheck l' j
      let st1 := { st with log := some l', journal := j, journalOk := ok }
      (st1.absorb es, [outcomeS out, effLine es] ++ (if st.journalOk && !ok then ["J journal-invariant-broken"] else []))
    | _, _ => (st, ["? bad-op"])

/-! ### codec-only commands (bytes campaign, hook H4) -/

def padBlocks (data : Bytes) : Bytes :=
  let b := Consts.BLOCK
  let r := data.length % b
  data ++ zeros (if r = 0 then 0 else b - r) ++ zeros b

def readBack (data : Bytes) (withEnd : Bool) : String :=
  let b := Consts.BLOCK
  match fileBlocks geom 0 data 1 0 (data.length / b) with
  | [] => "N -"
  | b0 :: rest =>
    match scanBlocks geom none 1 0 b0 0 rest with
    | none => "N io"
    | some (evs, e, _) =>
      let recs := assemble { within := false, buf := [], attr := 0 } evs
      let parts := recs.map fun r => match r with
        | .entry _ bytes => s!"e:{bytes.length}:{fnvS bytes}"
        | .corrupt => "corrupt"
      if withEnd then s!"N {joinS "," parts} end={e.idx * b + e.cursor}" else s!"N {joinS "," parts}"

def codecLines (entries : List Bytes) : List String :=
  let rec go (c : Nat) (hc : c < geom.B) : List Bytes → List Bytes × List Nat
    | [] => ([], [])
    | e :: es =>
      let bufs := MRL.writeEntry geom c e hc
      let n := totalLen bufs
      let (bs, ns) := go ((c + n) % geom.B) (Nat.mod_lt _ (Nat.lt_trans (Nat.succ_pos _) geom.hB)) es
      (bufs ++ bs, n :: ns)
  let (bufs, counts) := go 0 (Nat.lt_trans (Nat.succ_pos _) geom.hB) entries
  let flat := bufs.flatten
  [s!"B total={flat.length} fnv={fnvS flat} counts={joinS "," (counts.map toString)}", readBack (padBlocks flat) true]

def decodeLine (bytes : Bytes) : String :=
  match Entry.decode bytes with
  | none => "K none"
  | some (.append q pos recs) => s!"K 4 q={hex q} pos={pos} recs={joinS "," (recs.map recS)}"
  | some (.truncate q pos) => s!"K 1 q={hex q} pos={pos} recs=-"
  | some (.touch q pos) => s!"K 2 q={hex q} pos={pos} recs=-"
  | some (.delete q pos) => s!"K 3 q={hex q} pos={pos} recs=-"

structure Top where
  msz : Nat := Consts.META_SIZE
  /-- check the journal invariant after every call (`option jcheck` line; quadratic) -/
  jc : Bool := false
  main : St := {}
  side : St := {}

/-- `crash k cut …`: recover a copy from the image after `k` OS operations (+ `cut` bytes) -/
def runCrash (top : Top) (toks : List String) : Top × List String :=
  let k := (toks.getD 1 "0").toNat!
  let cut := (toks.getD 2 "0").toNat!
  let ops := top.main.opsRev.reverse
  let m := top.main
  let (bk, bimg) := if m.baseK ≤ k then (m.baseK, m.baseImg) else (0, [])
  let bimg' := applyOsOps bimg (coalesce (((ops.drop bk).take (k - bk)).filter (· != .sync)))
  let img0 := crashImage bimg' (ops.drop k) 0 cut
  -- power loss (`instant=i`): the image is `powerImage [] (first i refined operations)` of
  -- `MRL/Model/PowerLoss.lean` (the object of `C03P.C03_posix`), computed from a cached prefix state
  -- (`prun` is a fold: `P.prun_append`). The harness computes its image from the real trace.
  let (main', img) := match (kvGet toks "instant").bind (·.toNat?) with
    | some i =>
      let opsP := m.opsPRev.reverse
      let (pk, ps) := if m.pBaseK ≤ i then (m.pBaseK, m.pBase) else (0, PState.init [])
      let ps' := prun ps ((opsP.drop pk).take (i - pk))
      -- `undone=N`: the last N unlinks issued since the last fsync(dir) are not durable
      -- (`powerImageD` of MRL/Model/PowerLossDir.lean, the object of `C03PD.C03_posix_dir_partial`)
      let (pimg, dk', d') := match (kvGet toks "undone").bind (·.toNat?) with
        | some n =>
          let (dk, ds) := if m.dBaseK ≤ i then (m.dBaseK, m.dBase) else (0, DState.init [])
          let d := prunD ds ((opsP.drop dk).take (i - dk))
          (d.image (d.und.length - n), min i opsP.length, d)
        | none => (ps'.image, m.dBaseK, m.dBase)
      -- the caches are valid only for prefixes of what has been issued so far (`Glue.cache_stable`)
      ({ m with baseK := min k ops.length, baseImg := bimg', pBaseK := min i opsP.length, pBase := ps',
                dBaseK := dk', dBase := d' }, pimg)
    | none => ({ m with baseK := min k ops.length, baseImg := bimg' }, img0)
  let (side, out) := openOn {} img (toks.drop 2) ((kvGet toks "fail").bind (·.toNat?))
  ({ top with main := main', side := side }, dirLine img :: out)

def runLine (top : Top) (line : String) : Top × List String :=
  let toks := line.trimAscii.toString.splitOn " "
  match toks with
  | [""] => (top, [])
  | "case" :: _ => ({ msz := top.msz }, [line.trimAscii.toString])
  | "meta" :: n :: _ => ({ top with msz := n.toNat! }, [])
  | "option" :: "jcheck" :: _ => ({ top with jc := true }, [])
  | "crash" :: _ => runCrash top toks
  | "codec" :: rest => (top, codecLines (rest.map parsePayload))
  | "rawread" :: rest => (top, [readBack (padBlocks (rest.map parsePayload).flatten) false])
  | "decode" :: d :: _ => (top, [decodeLine (parsePayload d)])
  | "fname" :: d :: _ => (top, [match parseFileName (parsePayload d) with | some n => s!"M {n}" | none => "M -"])
  | t :: rest =>
    if t.startsWith "c:" then
      let (s, out) := runOp top.msz false top.side ((t.drop 2).toString :: rest)
      ({ top with side := s }, out.map ("c:" ++ ·))
    else
      let (s, out) := runOp top.msz top.jc top.main toks
      ({ top with main := s }, out)
  | [] => (top, [])

partial def loop (h : IO.FS.Stream) (out : IO.FS.Stream) (top : Top) : IO Unit := do
  let line ← h.getLine
  if line.isEmpty then return ()
  let (top', ls) := runLine top line
  for l in ls do out.putStrLn l
  loop h out top'

end Drv

def main : IO Unit := do
  let stdin ← IO.getStdin
  let stdout ← IO.getStdout
  Drv.loop stdin stdout {}
