/-
C08 and C12 about `open` itself — arbitrary in-place damage of the image of ANY reachable state.

Setting: `h : C01R.ReachD g cap l J img b` (any history of calls and restarts), serialisable
entries; `W := flushDisk img b` the clean image; `W'` ANY image with the same file numbers and the
same file lengths (`Img.SameShape`). The files back to back form the stream (`Img.streamOf`); the
tape of `W` is a frame layout from position 0 followed by zeros (`Img.TapeLayout`; the disk
invariant provides one: the tail frames of an entry cut by a file deletion, then the frames of the
journal entries located in the tracked files). `Img.NoAccidentalFrameImg g W W'` — the "up to a
CRC-32 collision" clause: wherever the reader's acceptance test passes on the stream of `W'`, the
tape of `W` has that very frame, type and payload, at that very location.

* `C08V.C08_recover_genuine`: if `recover g W' … = .ok r` then `C05.Inv r.log`, every record of
  every queue of `r.log` is `(name, position, payload)` of an `append` entry of the journal — of an
  append call of the history (`appended J`) — and the queues are the replay of a list `L` of
  entries that is a SUB-SEQUENCE of the journal entries located in the tracked files.
* `C12V.C12_recover_damage`: for that `L`, `C12C.AllOrSuffix L r.log.queues`: the surviving
  records of every delivered batch are a contiguous suffix `b.drop k'` of it (all or nothing
  unless a delivered `truncate` follows), and undelivered batches contribute nothing.

* `C09V.C09_recover_one_frame`: there is a frame layout `fs` of the tape of `W` (then `z` zeros)
  such that, for ANY frame `(t, p)` of it, any replacement of its checksum and/or payload bytes
  (`crc'`, `p'`, same lengths) that fails the frame's check, and any image `W'` of the same shape
  carrying the damaged stream: `recover` SUCCEEDS on `W'`, and for some journal index `a` (the entry
  the frame belongs to; none if it is a tail frame of an entry cut by a file deletion) every record
  of every live queue that was not appended by `J[a]` is in the recovered log with the same
  position and payload. Proved here for tapes with at least 7 free bytes at the end (`7 ≤ z`);
  `C09_recover_one_frame_all` (MRL/Props/C09Close.lean) removes that restriction. The journal may
  come from a history with restarts (`Img.reachD_run`).

Proof machinery: MRL/Proofs/Img*.lean on top of Gen*/Torn*/Drop* (single stream, journal) and the
disk layer (G*).
-/
import MRL.Proofs.ImgRead
import MRL.Proofs.ImgOneFrame
import MRL.Props.C01Restart
import MRL.Props.C12Compose

namespace MRL.C08V
open MRL Consts Codec Log Img

/-- the records appended by the calls of the history -/
def appended (J : List JE) : List (Bytes × Nat × Bytes) := Rec.recordsOf (J.map fun j => (j.attr, j.e))

/-- the core: what a successful `recover` of a damaged image replays -/
theorem recover_delivered (g : Geom) (hB : g.B ≤ 65542) (cap : Nat) (l : Log) (J : List JE) (img : Image)
    (b : BufSt) (h : C01R.ReachD g cap l J img b) (hwf : ∀ j ∈ J, C07.WF j.e)
    (W' : Image) (hshape : SameShape (C01R.flushDisk img b) W')
    (hN : NoAccidentalFrameImg g (C01R.flushDisk img b) W')
    (policy : Policy) (order : List Bytes) (r : Recovered) (hr : recover g W' policy order none = .ok r) :
    ∃ L : List (Nat × Entry), Rec.replayEntries [] L = some r.log.queues ∧
      List.Sublist (L.map (·.2)) ((J.filter fun j => decide (l.files.headD 0 ≤ j.loc)).map (·.e)) := by
  have hdisk := (C01R.reach_rinv g hB cap h hwf).c.disk
  obtain ⟨cs, afs, lead, segs, hD, hne, hfull, hlay, hafs, hlead, hmap, hsok⟩ := Img.tape_of_dinv hdisk
  -- the damaged image has the same shape
  have hshape' : SameShape (G.imgOf (l.files.headD 0) cs) W' := by
    have : C01R.flushDisk img b = G.imgOf (l.files.headD 0) cs := hD
    rw [← this]; exact hshape
  obtain ⟨hW', hlens⟩ := sameShape_imgOf cs _ W' hshape'
  generalize hcs' : W'.map (·.2) = cs' at hW' hlens
  have hfull' : ∀ c ∈ cs', c.length = g.fileBytes := by
    intro c hc
    have : c.length ∈ cs'.map List.length := List.mem_map_of_mem hc
    rw [hlens] at this
    obtain ⟨c0, hc0, he⟩ := List.mem_map.mp this
    rw [← he]; exact hfull c0 hc0
  have hne' : cs' ≠ [] := by
    intro hn
    rw [hn] at hlens
    simp only [List.map_nil] at hlens
    exact hne (List.map_eq_nil_iff.mp hlens.symm)
  have hstream : streamOf W' = cs'.flatten := by unfold streamOf; rw [hcs']
  have hNoAcc := hN (G.untag afs) hlay
  rw [hstream] at hNoAcc
  -- what `recover` scanned and replayed
  obtain ⟨b0, rest, trail, rdEvs, e, io, hb, hs, hrep⟩ := Rec.recover_ok_replay' hr
  rw [hW'] at hb
  have hsub := img_delivered g _ cs' hne' hfull' afs lead segs hafs hlead hsok hNoAcc b0 rest trail rdEvs e io hb hs
  refine ⟨Rec.decoded (assemble { within := false, buf := [], attr := b0.file } rdEvs), ?_, ?_⟩
  · rw [← Rec.replay_eq]; exact hrep
  · rw [decoded_snd]
    have h1 : List.Sublist (decodedE (bytesOf (assemble { within := false, buf := [], attr := b0.file } rdEvs)))
        (decodedE (segs.map fun s => s.1.e.encode)) := hsub.filterMap _
    have h2 : decodedE (segs.map fun s => s.1.e.encode) = segs.map fun s => s.1.e := by
      have := decodedE_encoded (segs.map fun s => s.1.e) (by
        intro en hen
        obtain ⟨s, hs', rfl⟩ := List.mem_map.mp hen
        have hsJ : s.1 ∈ J := by
          have : s.1 ∈ segs.map (·.1) := List.mem_map_of_mem (f := (·.1)) hs'
          rw [hmap] at this
          exact (List.mem_filter.mp this).1
        exact C07.decode_encode _ (hwf _ hsJ))
      simpa [List.map_map, Function.comp_def] using this
    rw [h2] at h1
    have h3 : (segs.map fun s => s.1.e) = (J.filter fun j => decide (l.files.headD 0 ≤ j.loc)).map (·.e) := by
      rw [← hmap, List.map_map]; rfl
    rw [← h3]; exact h1

/-- **C08_recover_genuine.** -/
theorem C08_recover_genuine (g : Geom) (hB : g.B ≤ 65542) (cap : Nat) (l : Log) (J : List JE) (img : Image)
    (b : BufSt) (h : C01R.ReachD g cap l J img b) (hwf : ∀ j ∈ J, C07.WF j.e)
    (W' : Image) (hshape : SameShape (C01R.flushDisk img b) W')
    (hN : NoAccidentalFrameImg g (C01R.flushDisk img b) W')
    (policy : Policy) (order : List Bytes) (r : Recovered) (hr : recover g W' policy order none = .ok r) :
    C05.Inv r.log ∧
    (∀ kv ∈ r.log.queues, ∀ rec ∈ kv.2.recs, (kv.1, rec.pos, rec.payload) ∈ appended J) ∧
    ∃ L : List (Nat × Entry), Rec.replayEntries [] L = some r.log.queues ∧
      List.Sublist (L.map (·.2)) ((J.filter fun j => decide (l.files.headD 0 ≤ j.loc)).map (·.e)) := by
  obtain ⟨L, hL1, hL2⟩ := recover_delivered g hB cap l J img b h hwf W' hshape hN policy order r hr
  refine ⟨C08.recover_sorted g W' policy order none r hr, ?_, L, hL1, hL2⟩
  intro kv hkv rec hrec
  have h1 := C08.replay_records_subset L _ hL1 kv hkv rec hrec
  rw [recordsOf_eq] at h1
  have h2 := recordsOfE_sublist hL2 _ h1
  have h3 : List.Sublist ((J.filter fun j => decide (l.files.headD 0 ≤ j.loc)).map (·.e)) (J.map (·.e)) :=
    List.filter_sublist.map _
  have h4 := recordsOfE_sublist h3 _ h2
  unfold appended
  rw [recordsOf_eq, List.map_map]
  exact h4

end MRL.C08V

namespace MRL.C12V
open MRL Consts Codec Log Img

/-- **C12_recover_damage.** After any in-place damage of the image of any reachable state, if `open`
    succeeds, its queues are the replay of a sub-sequence `L` of the retained journal entries, and
    every batch of `L` is all-or-suffix (`C12C.AllOrSuffix`, `C12C.BatchSuffix`: the surviving
    records of the batch are a contiguous suffix `b.drop k'`). -/
theorem C12_recover_damage (g : Geom) (hB : g.B ≤ 65542) (cap : Nat) (l : Log) (J : List JE) (img : Image)
    (b : BufSt) (h : C01R.ReachD g cap l J img b) (hwf : ∀ j ∈ J, C07.WF j.e)
    (W' : Image) (hshape : SameShape (C01R.flushDisk img b) W')
    (hN : NoAccidentalFrameImg g (C01R.flushDisk img b) W')
    (policy : Policy) (order : List Bytes) (r : Recovered) (hr : recover g W' policy order none = .ok r) :
    ∃ L : List (Nat × Entry),
      List.Sublist (L.map (·.2)) ((J.filter fun j => decide (l.files.headD 0 ≤ j.loc)).map (·.e)) ∧
      C12C.AllOrSuffix L r.log.queues := by
  obtain ⟨L, hL1, hL2⟩ := C08V.recover_delivered g hB cap l J img b h hwf W' hshape hN policy order r hr
  exact ⟨L, hL2, C12C.allOrSuffix_of_replay L _ hL1⟩

end MRL.C12V

namespace MRL.C09V
open MRL Consts Codec Log Img

/-- record `r` of queue `name` was appended by journal entry number `a` -/
def RecordOfIdx (J : List JE) (a : Nat) (name : Bytes) (r : MRL.Rec) : Prop :=
  ∃ ha : a < J.length, C09R.RecordOf (J[a]) name r

/-- **C09_recover_one_frame.** -/
theorem C09_recover_one_frame (g : Geom) (hB : g.B ≤ 65542) (cap : Nat) (l : Log) (J : List JE) (img : Image)
    (b : BufSt) (h : C01R.ReachD g cap l J img b) (hwf : ∀ j ∈ J, C07.WF j.e) :
    ∃ fs z, streamOf (C01R.flushDisk img b) = (layoutBufs g 0 fs).flatten ++ zeros z ∧ Fits g 0 fs ∧
      ∀ fs1 t p fs2, fs = fs1 ++ (t, p) :: fs2 →
      ∀ crc' p' : Bytes, crc'.length = 4 → p'.length = p.length → frameCrc t p' ≠ leNat crc' → 7 ≤ z →
      ∀ W', SameShape (C01R.flushDisk img b) W' →
        streamOf W' = (C09.damagedBufs g 0 fs1 t fs2 crc' p').flatten ++ zeros z →
      ∀ (policy : Policy) (order : List Bytes),
        ∃ r a, recover g W' policy order none = .ok r ∧
          ∀ name q, l.queues.get? name = some q → ∀ rc ∈ q.recs, ¬ RecordOfIdx J a name rc →
            ∃ q', r.log.queues.get? name = some q' ∧ ∃ r' ∈ q'.recs, r'.pos = rc.pos ∧ r'.payload = rc.payload := by
  obtain ⟨fs, z, h1, h2, h3⟩ := one_frame_core g hB cap l J img b h hwf
  refine ⟨fs, z, h1, h2, ?_⟩
  intro fs1 t p fs2 hfs crc' p' h4 hp hdet hz W' hshape hS' policy order
  obtain ⟨r, a, hr, hii⟩ := h3 fs1 t p fs2 hfs crc' p' h4 hp hdet hz W' hshape hS' policy order
  refine ⟨r, a, hr, ?_⟩
  intro name q hq rc hrc hnot
  exact hii name q hq rc hrc (fun ha hrec => hnot ⟨ha, hrec⟩)

end MRL.C09V
