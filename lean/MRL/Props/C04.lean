/-
C04 — queue positions never regress or get reused within one incarnation of a queue.
Proved on the specification (`Spec.step`) and transferred to the model through C05: as long as
queue `q` is not deleted its next position only grows, and an effective append writes the
consecutive positions `p, p+1, …` with `p ≥ next`, leaving the earlier records untouched.
-/
import MRL.Props.C05
import MRL.Proofs.QSpecStep

namespace MRL.C04
open MRL Log Spec

/-! ### specification level -/

/-- (a) unless `q` itself is deleted, a call keeps `q` alive and never lowers its next position -/
theorem spec_next_mono (s : Spec) (c : Call) (q : Bytes) (sq : SQueue)
    (hc : c ≠ .delete q) (hg : s.get? q = some sq) :
    ∃ sq', (Spec.step s c).1.get? q = some sq' ∧ sq.next ≤ sq'.next := by
  by_cases ht : c.queue? = some q
  · cases c with
    | persist a => cases ht
    | delete q' =>
      simp only [Call.queue?, Option.some.injEq] at ht
      subst ht; exact absurd rfl hc
    | create q' =>
      simp only [Call.queue?, Option.some.injEq] at ht
      subst ht
      simp only [Spec.step, hg]
      exact ⟨sq, rfl, Nat.le_refl _⟩
    | truncate q' p =>
      simp only [Call.queue?, Option.some.injEq] at ht
      subst ht
      simp only [Spec.step, hg]
      exact ⟨_, get?_set_same _ _ _, Nat.le_max_left _ _⟩
    | append q' pos? pls =>
      simp only [Call.queue?, Option.some.injEq] at ht
      subst ht
      simp only [Spec.step, hg]
      split
      · split
        · exact ⟨sq, hg, Nat.le_refl _⟩
        · split
          · exact ⟨sq, hg, Nat.le_refl _⟩
          · split
            · exact ⟨sq, hg, Nat.le_refl _⟩
            · refine ⟨_, get?_set_same _ _ _, ?_⟩
              simp only; omega
      · split
        · exact ⟨sq, hg, Nat.le_refl _⟩
        · refine ⟨_, get?_set_same _ _ _, ?_⟩
          simp only; omega
  · exact ⟨sq, by rw [step_get?_other s c q ht]; exact hg, Nat.le_refl _⟩

theorem numberFrom_positions (p : Nat) (pls : List Bytes) :
    (numberFrom p pls).map (·.1) = List.range' p pls.length := by
  induction pls generalizing p with
  | nil => rfl
  | cons x xs ih => simp [numberFrom, ih, List.range'_succ]

theorem numberFrom_payloads (p : Nat) (pls : List Bytes) :
    (numberFrom p pls).map (·.2) = pls := by
  induction pls generalizing p with
  | nil => rfl
  | cons x xs ih => simp [numberFrom, ih]

theorem numberFrom_ge (p : Nat) (pls : List Bytes) : ∀ r ∈ numberFrom p pls, p ≤ r.1 := by
  intro r hr
  have : r.1 ∈ (numberFrom p pls).map (·.1) := List.mem_map_of_mem hr
  rw [numberFrom_positions, List.mem_range'_1] at this
  exact this.1

/-- (b) an effective append: the records of `q` become the old records followed by the
    payloads at the consecutive positions `p, p+1, …, last`, with `p ≥` the old next position
    (so no position is reused) and `last + 1 =` the new next position. -/
theorem spec_append_fresh (s s' : Spec) (q : Bytes) (pos : Option Nat) (pls : List Bytes)
    (last : Nat) (sq : SQueue)
    (hstep : Spec.step s (.append q pos pls) = (s', .appended (some last)))
    (hg : s.get? q = some sq) :
    ∃ sq' p, s'.get? q = some sq' ∧
      sq.next ≤ p ∧ (∀ p0, pos = some p0 → p = p0) ∧
      sq'.recs = sq.recs ++ numberFrom p pls ∧
      (numberFrom p pls).map (·.1) = List.range' p pls.length ∧
      (numberFrom p pls).map (·.2) = pls ∧
      (∀ r ∈ sq'.recs.drop sq.recs.length, sq.next ≤ r.1) ∧
      pls ≠ [] ∧ last + 1 = sq'.next ∧ sq'.next = p + pls.length := by
  simp only [Spec.step, hg] at hstep
  have key : ∀ p, sq.next ≤ p → (∀ p0, pos = some p0 → p = p0) → pls.isEmpty = false →
      (s.set q { next := p + pls.length, recs := sq.recs ++ numberFrom p pls },
        LOutcome.appended (some (p + pls.length - 1))) = (s', .appended (some last)) →
      ∃ sq' p, s'.get? q = some sq' ∧
      sq.next ≤ p ∧ (∀ p0, pos = some p0 → p = p0) ∧
      sq'.recs = sq.recs ++ numberFrom p pls ∧
      (numberFrom p pls).map (·.1) = List.range' p pls.length ∧
      (numberFrom p pls).map (·.2) = pls ∧
      (∀ r ∈ sq'.recs.drop sq.recs.length, sq.next ≤ r.1) ∧
      pls ≠ [] ∧ last + 1 = sq'.next ∧ sq'.next = p + pls.length := by
    intro p hp hpos hemp heq
    simp only [Prod.mk.injEq, LOutcome.appended.injEq, Option.some.injEq] at heq
    obtain ⟨hs', hlast⟩ := heq
    have hne : pls ≠ [] := by intro h; rw [h] at hemp; cases hemp
    have hlen : 0 < pls.length := List.length_pos_iff.mpr hne
    refine ⟨_, p, by rw [← hs']; exact get?_set_same _ _ _, hp, hpos, rfl,
      numberFrom_positions p pls, numberFrom_payloads p pls, ?_, hne, ?_, rfl⟩
    · intro r hr
      simp only [List.drop_left] at hr
      have := numberFrom_ge p pls r hr; omega
    · simp only; omega
  split at hstep
  · rename_i p
    split at hstep
    · simp at hstep
    · split at hstep
      · simp at hstep
      · split at hstep
        · simp at hstep
        · rename_i h1 h2 h3
          exact key p (by omega) (fun p0 h => by cases h; rfl) (by simpa using h3) hstep
  · split at hstep
    · simp at hstep
    · rename_i h3
      exact key sq.next (Nat.le_refl _) (fun p0 h => by cases h) (by simpa using h3) hstep

/-- (c) over any history that never deletes `q`, the next position of `q` only grows -/
theorem spec_run_next_mono (q : Bytes) (cs : List Call) (hcs : ∀ c ∈ cs, c ≠ .delete q) :
    ∀ (s : Spec) (sq : SQueue), s.get? q = some sq →
    ∃ sq', (Spec.run s cs).get? q = some sq' ∧ sq.next ≤ sq'.next := by
  induction cs with
  | nil => intro s sq hg; exact ⟨sq, hg, Nat.le_refl _⟩
  | cons c cs ih =>
    intro s sq hg
    obtain ⟨sq1, h1, hle1⟩ := spec_next_mono s c q sq (hcs c (by simp)) hg
    obtain ⟨sq2, h2, hle2⟩ := ih (fun c' hc' => hcs c' (by simp [hc'])) _ sq1 h1
    exact ⟨sq2, h2, Nat.le_trans hle1 hle2⟩

/-- every stored position is below the next position; with (a)–(c) this is "never reused":
    an effective append writes at positions ≥ `next`, hence above every stored record. -/
def SBelow (sq : SQueue) : Prop := ∀ r ∈ sq.recs, r.1 < sq.next

theorem spec_below_preserved (s : Spec) (c : Call) (q : Bytes)
    (hs : ∀ sq, s.get? q = some sq → SBelow sq) :
    ∀ sq', (Spec.step s c).1.get? q = some sq' → SBelow sq' := by
  intro sq' hg'
  by_cases ht : c.queue? = some q
  · cases c with
    | persist a => cases ht
    | delete q' =>
      simp only [Call.queue?, Option.some.injEq] at ht
      subst ht
      simp only [Spec.step] at hg'
      split at hg'
      · exact hs _ hg'
      · rw [get?_remove_same] at hg'; cases hg'
    | create q' =>
      simp only [Call.queue?, Option.some.injEq] at ht
      subst ht
      simp only [Spec.step] at hg'
      split at hg'
      · exact hs _ hg'
      · rw [get?_set_same] at hg'; cases hg'; intro r hr; cases hr
    | truncate q' p =>
      simp only [Call.queue?, Option.some.injEq] at ht
      subst ht
      simp only [Spec.step] at hg'
      split at hg'
      · exact hs _ hg'
      · rename_i sq hg
        rw [get?_set_same] at hg'; cases hg'
        intro r hr
        have := hs sq hg r (List.mem_filter.mp hr).1
        simp only; omega
    | append q' pos? pls =>
      simp only [Call.queue?, Option.some.injEq] at ht
      subst ht
      cases hg : s.get? q' with
      | none => simp only [Spec.step, hg] at hg'; cases hg'
      | some sq =>
        have hb := hs sq hg
        have key : ∀ p, sq.next ≤ p →
            SBelow { next := p + pls.length, recs := sq.recs ++ numberFrom p pls } := by
          intro p hp r hr
          simp only [List.mem_append] at hr
          rcases hr with hr | hr
          · have := hb r hr; simp only; omega
          · have : r.1 ∈ (numberFrom p pls).map (·.1) := List.mem_map_of_mem hr
            rw [numberFrom_positions, List.mem_range'_1] at this
            simp only; omega
        simp only [Spec.step, hg] at hg'
        split at hg'
        · split at hg'
          · exact hs _ hg'
          · split at hg'
            · exact hs _ hg'
            · split at hg'
              · exact hs _ hg'
              · rw [get?_set_same] at hg'; cases hg'; exact key _ (by omega)
        · split at hg'
          · exact hs _ hg'
          · rw [get?_set_same] at hg'; cases hg'; exact key _ (Nat.le_refl _)
  · rw [step_get?_other s c q ht] at hg'; exact hs _ hg'

/-! ### transfer to the model -/

/-- next position of queue `q` in the model -/
def nextOf (l : Log) (q : Bytes) : Option Nat := (l.queues.get? q).map (·.nextPosition)

theorem nextOf_abs (l : Log) (q : Bytes) : nextOf l q = (l.abs.get? q).map (·.next) := by
  rw [C05.abs_get_eq]; unfold nextOf; cases l.queues.get? q <;> rfl

/-- (d) **C04 on the model, one call.** -/
theorem C04_model_next_mono (g : Geom) (l : Log) (hI : C05.Inv l) (c : Call) (tick : Bool)
    (order : List Bytes) (q : Bytes) (n : Nat) (hc : c ≠ .delete q) (hn : nextOf l q = some n) :
    ∃ n', nextOf (Log.step g l c tick order).1 q = some n' ∧ n ≤ n' := by
  obtain ⟨habs, _, _⟩ := C05.C05_refines g l hI c tick order
  rw [nextOf_abs] at hn ⊢
  rw [habs]
  cases hg : l.abs.get? q with
  | none => rw [hg] at hn; cases hn
  | some sq =>
    rw [hg] at hn
    simp only [Option.map_some, Option.some.injEq] at hn
    obtain ⟨sq', h1, h2⟩ := spec_next_mono l.abs c q sq hc hg
    exact ⟨sq'.next, by rw [h1]; rfl, by omega⟩

/-- **C04 on the model, histories**: over any history without `delete q`. -/
theorem C04_model_run_next_mono (g : Geom) (l : Log) (hI : C05.Inv l)
    (cs : List (Call × Bool × List Bytes)) (q : Bytes) (n : Nat)
    (hcs : ∀ x ∈ cs, x.1 ≠ .delete q) (hn : nextOf l q = some n) :
    ∃ n', nextOf (C05.run g l cs) q = some n' ∧ n ≤ n' := by
  obtain ⟨habs, _, _⟩ := C05.C05_history g cs l hI
  rw [nextOf_abs] at hn ⊢
  rw [habs]
  cases hg : l.abs.get? q with
  | none => rw [hg] at hn; cases hn
  | some sq =>
    rw [hg] at hn
    simp only [Option.map_some, Option.some.injEq] at hn
    have hcs' : ∀ c ∈ cs.map (·.1), c ≠ .delete q := by
      intro c hc
      obtain ⟨x, hx, rfl⟩ := List.mem_map.mp hc
      exact hcs x hx
    obtain ⟨sq', h1, h2⟩ := spec_run_next_mono q _ hcs' l.abs sq hg
    exact ⟨sq'.next, by rw [h1]; rfl, by omega⟩

/-- the model appends exactly where the specification does: an effective append on the model
    extends the abstract records of `q` by fresh consecutive positions. -/
theorem C04_model_append_fresh (g : Geom) (l : Log) (hI : C05.Inv l) (tick : Bool)
    (order : List Bytes) (q : Bytes) (pos : Option Nat) (pls : List Bytes) (last w : Nat)
    (mq : MemQueue) (hg : l.queues.get? q = some mq)
    (hout : (Log.step g l (.append q pos pls) tick order).2.1 = .appended (some last) w) :
    ∃ mq' p, (Log.step g l (.append q pos pls) tick order).1.queues.get? q = some mq' ∧
      mq.nextPosition ≤ p ∧
      mq'.abs.recs = mq.abs.recs ++ numberFrom p pls ∧
      (numberFrom p pls).map (·.1) = List.range' p pls.length ∧
      last + 1 = mq'.nextPosition := by
  obtain ⟨habs, hlog, _⟩ := C05.C05_refines g l hI (.append q pos pls) tick order
  have hsg : l.abs.get? q = some mq.abs := by rw [C05.abs_get_eq, hg]; rfl
  have hstep : Spec.step l.abs (.append q pos pls) =
      ((Log.step g l (.append q pos pls) tick order).1.abs, .appended (some last)) := by
    have h2 : (Spec.step l.abs (.append q pos pls)).2 = .appended (some last) := by
      rw [← hlog, hout]; rfl
    rw [habs, ← h2]
  obtain ⟨sq', p, h1, h2, _, h4, h5, _, _, _, h9, _⟩ :=
    spec_append_fresh _ _ q pos pls last mq.abs hstep hsg
  rw [C05.abs_get_eq] at h1
  cases hg' : (Log.step g l (.append q pos pls) tick order).1.queues.get? q with
  | none => rw [hg'] at h1; cases h1
  | some mq' =>
    rw [hg'] at h1
    simp only [Option.map_some, Option.some.injEq] at h1
    subst h1
    exact ⟨mq', p, rfl, h2, h4, h5, h9⟩

/-! ### non-vacuity -/

/-- a queue emptied by `truncate` keeps its next position (specification) -/
example :
    (Spec.step [([1], { next := 7, recs := [(5, [0]), (6, [1])] })] (.truncate [1] 6)).1.get? [1]
      = some { next := 7, recs := [] } := by decide

/-- … and a later append cannot reuse positions 5 or 6 -/
example :
    (Spec.run [([1], { next := 7, recs := [(5, [0]), (6, [1])] })]
      [.truncate [1] 6, .append [1] (some 5) [[2]], .append [1] none [[3]]]).get? [1]
      = some { next := 8, recs := [(7, [3])] } := by decide

/-- the same on the model, for every geometry -/
example (g : Geom) :
    nextOf C05.exLog [1] = some 6 ∧
    nextOf (Log.step g C05.exLog (.truncate [1] 5) false []).1 [1] = some 6 ∧
    ((Log.step g C05.exLog (.truncate [1] 5) false []).1.abs.get? [1]).map (·.recs) = some [] := by
  obtain ⟨habs, _, _⟩ := C05.C05_refines g C05.exLog C05.exLog_Inv (.truncate [1] 5) false []
  rw [nextOf_abs, nextOf_abs, habs]
  decide

end MRL.C04
