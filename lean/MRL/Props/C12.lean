/-
C12 — a batch append is all-or-nothing across crashes and damage.

Two facts about what recovery can make of ANY sequence of surviving WAL entries / frame events:

* `replay_batch_suffix`: replay any list of entries `es₁ ++ [append name p b] ++ es₂` (arbitrary
  entries — think of whatever sub-sequence of the WAL survives damage). If the replay succeeds,
  queue `name` is gone, or its records are
      (records of `append` entries of `es₁`) ++ (a suffix `b.drop k` of the batch) ++
      (records of `append` entries of `es₂`),
  contiguous, in this order; if part of the batch's head is gone (`0 < k`) everything before it is
  gone too; and unless `es₂` contains a `truncate name`, the batch is whole (`k = 0`) or entirely
  gone (`b.length ≤ k`). `batch_all_or_nothing` / `batch_suffix_fresh` read this for a batch whose
  records are not records of other entries: the surviving records of `b` are exactly a suffix of
  `b`, and all or none of `b` when no truncation follows.

  NB the predicate suggested for this property without the provenance clauses
  (`∃ pre k post, plain q = pre ++ b.drop k ++ post ∧ (0 < k → pre = [])`) is satisfied by every
  queue (`k := b.length`, `pre := []`, `post := plain q`); the clauses tying `pre` to earlier and
  `post` to later entries are what give it content.

* `assemble_whole_entry`: the record reader never delivers an entry with a missing frame: every
  entry `assemble` emits is the concatenation of the payloads of a run of CONSECUTIVE frame events
  `Full` or `First, Middle*, Last`, nothing (no corrupt event, no other frame) in between. So a
  batch entry of which any frame is lost or damaged is not delivered at all.

Proof machinery: MRL/Proofs/RecBatch.lean, MRL/Proofs/RecAssemble.lean.
-/
import MRL.Proofs.RecBatch
import MRL.Proofs.RecAssemble

namespace MRL.C12
open MRL Consts Rec

/-- **replay_batch_suffix.** -/
theorem replay_batch_suffix (es₁ es₂ : List (Nat × Entry)) (f : Nat) (name : Bytes) (p : Nat)
    (b : List (Nat × Bytes)) (qs : MemQueues)
    (h : replayEntries [] (es₁ ++ [(f, Entry.append name p b)] ++ es₂) = some qs) :
    Whole b name (recordsOf es₁) (recordsOf es₂) (noTrunc name es₂) (qs.get? name) := by
  rw [replayEntries_append] at h
  cases h12 : replayEntries [] (es₁ ++ [(f, Entry.append name p b)]) with
  | none => rw [h12] at h; cases h
  | some qs₂ =>
    rw [h12] at h
    simp only [Option.bind_some] at h
    rw [replayEntries_append] at h12
    cases h1 : replayEntries [] es₁ with
    | none => rw [h1] at h12; cases h12
    | some qs₁ =>
      rw [h1] at h12
      simp only [Option.bind_some, replayEntries] at h12
      cases hb : replayEntry qs₁ f (Entry.append name p b) with
      | none => rw [hb] at h12; cases h12
      | some qs₂' =>
        rw [hb] at h12
        simp only [Option.bind_some, Option.some.injEq] at h12
        subst h12
        have hA : AllIn (recordsOf es₁) qs₁ := by
          have := AllIn_replayEntries es₁ [] [] qs₁ h1 (fun kv hkv => by cases hkv)
          simpa using this
        have hW := Whole_after_append hb hA
        have := Whole_replayEntries es₂ [] true qs₂' qs h hW
        simpa using this

/-- reading `Whole` for a batch whose records are not records of any other entry of the replayed
    list (same queue name, position and payload): the records of `b` present in the queue are
    exactly those of a suffix of `b`; without a later truncation, all of them or none. -/
theorem batch_suffix_fresh (es₁ es₂ : List (Nat × Entry)) (f : Nat) (name : Bytes) (p : Nat)
    (b : List (Nat × Bytes)) (qs : MemQueues) (q : MemQueue)
    (h : replayEntries [] (es₁ ++ [(f, Entry.append name p b)] ++ es₂) = some qs)
    (hq : qs.get? name = some q)
    (hfresh : ∀ r ∈ b, (name, r.1, r.2) ∉ recordsOf es₁ ∧ (name, r.1, r.2) ∉ recordsOf es₂) :
    ∃ k, (∀ r ∈ b, r ∈ plain q ↔ r ∈ b.drop k) ∧ (noTrunc name es₂ = true → k = 0 ∨ b.length ≤ k) := by
  have hW := replay_batch_suffix es₁ es₂ f name p b qs h
  rw [hq] at hW
  obtain ⟨pre, k, post, h1, _, h3, h4, h5⟩ := hW
  refine ⟨k, fun r hr => ?_, h5⟩
  rw [h1]
  simp only [List.mem_append]
  constructor
  · rintro ((h | h) | h)
    · exact absurd (h3 r h) (hfresh r hr).1
    · exact h
    · exact absurd (h4 r h) (hfresh r hr).2
  · intro h; exact Or.inl (Or.inr h)

/-- **all or nothing**: no truncation of the queue after the batch, fresh records: either every
    record of the batch is in the recovered queue or none is -/
theorem batch_all_or_nothing (es₁ es₂ : List (Nat × Entry)) (f : Nat) (name : Bytes) (p : Nat)
    (b : List (Nat × Bytes)) (qs : MemQueues) (q : MemQueue)
    (h : replayEntries [] (es₁ ++ [(f, Entry.append name p b)] ++ es₂) = some qs)
    (hq : qs.get? name = some q)
    (hfresh : ∀ r ∈ b, (name, r.1, r.2) ∉ recordsOf es₁ ∧ (name, r.1, r.2) ∉ recordsOf es₂)
    (hnt : noTrunc name es₂ = true) :
    (∀ r ∈ b, r ∈ plain q) ∨ (∀ r ∈ b, r ∉ plain q) := by
  obtain ⟨k, h1, h2⟩ := batch_suffix_fresh es₁ es₂ f name p b qs q h hq hfresh
  rcases h2 hnt with hk | hk
  · left; intro r hr; rw [h1 r hr, hk]; exact hr
  · right; intro r hr; rw [h1 r hr, List.drop_of_length_le hk]; simp

/-- **assemble_whole_entry.** Every entry delivered by the record reader started in its initial
    state is the concatenated payloads of a complete run (`Full`, or `First, Middle*, Last`) of
    consecutive frame events of its input. -/
theorem assemble_whole_entry (evs : List RdEv) (buf : Bytes) (attr : Nat) (a : Nat) (bytes : Bytes)
    (h : RecEv.entry a bytes ∈ assemble { within := false, buf := buf, attr := attr } evs) :
    ∃ pre run post, evs = pre ++ evsOf run ++ post ∧ Complete run ∧ bytes = payloadOfRun run := by
  have := assemble_runs evs { within := false, buf := buf, attr := attr } [] (fun h => by cases h) a bytes h
  simpa [Delivered] using this

/-! ### non-vacuity -/

/-- a batch of three records after an earlier record, then a truncation through position 1:
    what is left of the batch is its suffix `drop 1`, and nothing before it -/
example :
    (replayEntries []
      ([(0, .touch [1] 0), (0, .append [1] 0 [(0, [7])])] ++
        [(0, Entry.append [1] 1 [(1, [8]), (2, [9]), (3, [10])])] ++ [(0, .truncate [1] 1)])).map
      (fun qs => (qs.get? [1]).map plain) = some (some [(2, [9]), (3, [10])]) := by decide

/-- the same list without the truncation: the whole batch after the earlier record -/
example :
    (replayEntries []
      ([(0, .touch [1] 0), (0, .append [1] 0 [(0, [7])])] ++
        [(0, Entry.append [1] 1 [(1, [8]), (2, [9]), (3, [10])])] ++ [])).map
      (fun qs => (qs.get? [1]).map plain) = some (some [(0, [7]), (1, [8]), (2, [9]), (3, [10])]) := by decide

/-- the theorem instantiated on the first list (hypothesis discharged by evaluation) -/
example : ∃ qs, Whole [(1, [8]), (2, [9]), (3, [10])] [1]
      (recordsOf [(0, .touch [1] 0), (0, .append [1] 0 [(0, [7])])]) (recordsOf [(0, .truncate [1] 1)])
      (noTrunc [1] [(0, .truncate [1] 1)]) (MemQueues.get? qs [1]) := by
  have h : (replayEntries []
      ([(0, .touch [1] 0), (0, .append [1] 0 [(0, [7])])] ++
        [(0, Entry.append [1] 1 [(1, [8]), (2, [9]), (3, [10])])] ++ [(0, .truncate [1] 1)])).isSome = true := by
    decide
  obtain ⟨qs, hqs⟩ := Option.isSome_iff_exists.mp h
  exact ⟨qs, replay_batch_suffix _ _ 0 [1] 1 _ qs hqs⟩

/-- frames: an entry cut short by a corrupt event is not delivered; complete runs are -/
example :
    assemble { within := false, buf := [], attr := 0 }
      [.frame 0 .first [1], .corrupt 0, .frame 0 .last [2],
       .frame 0 .first [3], .frame 0 .middle [4], .frame 1 .last [5], .frame 1 .full [6]]
    = [.corrupt, .entry 0 [3, 4, 5], .entry 1 [6]] := by rfl

end MRL.C12
