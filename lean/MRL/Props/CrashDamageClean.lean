/-
C08 / C12 over crash-reachable states and arbitrary in-place damage — with a collision clause that
can be satisfied.

FINDING (from the non-vacuity exercise, `MRL/Props/NonVacuity.lean`). The clause
`Img.NoAccidentalFrameImgX g W W'` used by `C08X.C08_crash_genuine(_partial)`,
`C12X.C12_crash_damage`, `C12X.C12_crash_no_hole` quantifies over every item layout of `W`, and the
empty layout is one (`Img.itemTape_nil`): the clause forces that NO position of `W'` passes the
reader's acceptance test (`old_clause_forces_none`). Those theorems are true, but their hypothesis
holds only for images `W'` without a single valid frame (on which `open` recovers nothing): in
particular never for `W' = W` when `W` holds a frame (`old_clause_not_refl`). The no-damage
corollaries (`C08_crash_restart`, `C12_crash_restart`) have no such hypothesis and are unaffected;
`C09X.C09_crash_one_frame` exports its item list and is unaffected.

REPAIR. The same conclusions under `Img.CleanDamage g W₀ W'` (`MRL/Proofs/Img4Clean.lean`), a
clause on bytes only, decidable on concrete images:
* the stream of `W₀` has no valid frame besides those the reader reads on it (as many positions
  pass the acceptance test as frames are read), and
* wherever the test passes on `W'` it passes on `W₀` at the same position for the same frame.
It holds for `W' = W₀` as soon as `W₀` is clean (`cleanDamage_refl`), and for damage that breaks
checksums without forging one. The first half is needed: a payload of `W₀` that embeds a valid
frame can be reached by the reader of a damaged image (the `negative_example` of `C08Genuine`).
-/
import MRL.Props.C12CrashDamage
import MRL.Proofs.Img4Clean

namespace MRL.CD
open MRL Consts Codec Log Img Rec Gen

/-! ### the old clause -/

theorem old_clause_forces_none (g : Geom) (W W' : Image) (h : NoAccidentalFrameImgX g W W') :
    ∀ k x t p, ¬ Accepts g (streamOf W') k x t p := noAccX_forces_none g W W' h

/-- the old clause never holds for the undamaged image of a state that holds a frame -/
theorem old_clause_not_refl (g : Geom) (W : Image) (k x : Nat) (t : FrameType) (p : Bytes)
    (h : Accepts g (streamOf W) k x t p) : ¬ NoAccidentalFrameImgX g W W :=
  fun hN => noAccX_forces_none g W W hN k x t p h

/-! ### the new clause -/

/-- no damage: the clause is the cleanliness of the image -/
theorem cleanDamage_refl (g : Geom) (W : Image)
    (hclean : (accepted g (streamOf W) ((streamOf W).length / g.B)).length ≤
      frameCount g ((W.map (·.1)).headD 0) (streamOf W) ((streamOf W).length / g.B))
    (hlen : (streamOf W).length % g.B = 0) : CleanDamage g W W := by
  refine ⟨hclean, ?_⟩
  intro k x t p hacc
  have hB := G.Bpos g
  have hk : k < (streamOf W).length / g.B := by
    rcases Nat.lt_or_ge k ((streamOf W).length / g.B) with h1 | h1
    · exact h1
    · exfalso
      have hz := hacc.2.1
      have hdm := Nat.div_add_mod (streamOf W).length g.B
      rw [hlen, Nat.add_zero] at hdm
      have hle : (streamOf W).length / g.B * g.B ≤ k * g.B := Nat.mul_le_mul_right _ h1
      have : (streamOf W).drop (k * g.B) = [] :=
        List.drop_of_length_le (by rw [Nat.mul_comm] at hdm; omega)
      rw [this] at hz
      simp [isAllZero] at hz
  exact mem_accepted g _ _ k x t p hk hacc

/-- the damaged read on a `DiskX` disk, under the byte-level clause -/
theorem diskX_delivered_clean (g : Geom) (hB : g.B ≤ 65542) {D : Image} {F : Nat} {J : List JE}
    (hd : L.DiskX g D F J) (hwf : ∀ j ∈ J, C07.WF j.e) (W' : Image) (hshape : SameShape D W')
    (hc : CleanDamage g D W') (policy : Policy) (order : List Bytes) (r : Recovered)
    (hr : recover g W' policy order none = .ok r) :
    ∃ L : List (Nat × Entry), Rec.replayEntries [] L = some r.log.queues ∧
      List.Sublist (L.map (·.2)) ((J.filter fun j => decide (F ≤ j.loc)).map (·.e)) := by
  obtain ⟨cs, x, ais, res, z0, hne, hfull, ⟨z1, hflat⟩, hX, hlast, hfits, htag, hjok, hres, lead, gs, hais,
    hlead, hmap, hok⟩ := hd
  have hNoAcc := noAcc_of_clean g hB F cs hne hfull x ais res z0 z1 hflat hfits htag hjok hlast hres D hX W' hc
  -- the damaged image
  rw [hX] at hshape
  obtain ⟨A', B', hW', hsA, hsB⟩ := sameShape_append _ _ W' hshape
  have hB' := sameShape_xtra x _ B' hsB
  obtain ⟨hA', hlens⟩ := sameShape_imgOf cs F A' hsA
  generalize hcs' : A'.map (·.2) = cs' at hA' hlens
  have hfull' : ∀ c ∈ cs', c.length = g.fileBytes := by
    intro c hc
    have : c.length ∈ cs'.map List.length := List.mem_map_of_mem hc
    rw [hlens] at this
    obtain ⟨c0, hc0, he⟩ := List.mem_map.mp this
    rw [← he]; exact hfull c0 hc0
  have hne' : cs' ≠ [] := by
    intro hn
    rw [hn] at hlens
    simp only [List.map_nil] at hlens
    exact hne (List.map_eq_nil_iff.mp hlens.symm)
  have hW'' : W' = G.imgOf F cs' ++ L.xtra x (F + cs.length) := by rw [hW', hA', hB']
  have hstream' : streamOf W' = cs'.flatten := by
    rw [hW'', streamOf_append, streamOf_imgOf, streamOf_xtra, List.append_nil]
  rw [hstream'] at hNoAcc
  obtain ⟨b0, rest, trail, rdEvs, e, io, hb, hs, hrep⟩ := Rec.recover_ok_replay' hr
  rw [hW''] at hb
  have hsub := img_deliveredX g F cs' hne' hfull' x _ ais lead gs hais hlead hok hNoAcc b0 rest trail rdEvs e io hb hs
  refine ⟨Rec.decoded (assemble { within := false, buf := [], attr := b0.file } rdEvs), ?_, ?_⟩
  · rw [← Rec.replay_eq]; exact hrep
  · rw [decoded_snd]
    have h1 : List.Sublist (decodedE (bytesOf (assemble { within := false, buf := [], attr := b0.file } rdEvs)))
        (decodedE ((L.liveOf gs).map fun s => s.1.e.encode)) := hsub.filterMap _
    have h2 : decodedE ((L.liveOf gs).map fun s => s.1.e.encode) = (L.liveOf gs).map fun s => s.1.e := by
      have := decodedE_encoded ((L.liveOf gs).map fun s => s.1.e) (by
        intro en hen
        obtain ⟨s, hs', rfl⟩ := List.mem_map.mp hen
        have hsJ : s.1 ∈ J := by
          have : s.1 ∈ (L.liveOf gs).map (·.1) := List.mem_map_of_mem (f := (·.1)) hs'
          rw [hmap] at this
          exact (List.mem_filter.mp this).1
        exact C07.decode_encode _ (hwf _ hsJ))
      simpa [List.map_map, Function.comp_def] using this
    rw [h2] at h1
    have h3 : ((L.liveOf gs).map fun s => s.1.e) = (J.filter fun j => decide (F ≤ j.loc)).map (·.e) := by
      rw [← hmap, List.map_map]; rfl
    rw [← h3]; exact h1

/-- **C08 over crash-reachable states and arbitrary in-place damage** (satisfiable clause) -/
theorem C08_crash_genuine_clean (g : Geom) (hB : g.B ≤ 65542) (cap : Nat) (l : Log) (img : Image) (b : BufSt)
    (W : List Entry) (h : C02W.ReachXW g cap l img b W) :
    ∃ J : List JE, L.CInvX g l J (C02U.flushDisk img b) ∧ (∀ j ∈ J, C07.WF j.e) ∧ (∀ j ∈ J, j.e ∈ W) ∧
      ∀ W', SameShape (C02U.flushDisk img b) W' → CleanDamage g (C02U.flushDisk img b) W' →
      ∀ (policy : Policy) (order : List Bytes) (r : Recovered), recover g W' policy order none = .ok r →
        C08X.Genuine J (l.files.headD 0) r ∧
        ∀ kv ∈ r.log.queues, ∀ rec ∈ kv.2.recs, (kv.1, rec.pos, rec.payload) ∈ recordsOfE W := by
  obtain ⟨J, hc, hw, hJW⟩ := C02W.reachXW_journal g hB cap h
  refine ⟨J, hc, hw, hJW, ?_⟩
  intro W' hshape hN policy order r hr
  obtain ⟨init, t, x, res, ais, lead, gs, hx⟩ := hc.disk
  obtain ⟨L, hL1, hL2⟩ := diskX_delivered_clean g hB hx.diskX hw W' hshape hN policy order r hr
  have hG := C08X.genuine_of_sublist g W' policy order r hr J _ L hL1 hL2
  exact ⟨hG, fun kv hkv rec hrec => C08X.appended_subset hJW _ (hG.2.1 kv hkv rec hrec)⟩

/-- **C12 over crash-reachable states and arbitrary in-place damage** (satisfiable clause) -/
theorem C12_crash_damage_clean (g : Geom) (hB : g.B ≤ 65542) (cap : Nat) (l : Log) (img : Image) (b : BufSt)
    (W : List Entry) (h : C02W.ReachXW g cap l img b W) :
    ∃ J : List JE, L.CInvX g l J (C02U.flushDisk img b) ∧ (∀ j ∈ J, C07.WF j.e) ∧ (∀ j ∈ J, j.e ∈ W) ∧
      ∀ W', SameShape (C02U.flushDisk img b) W' → CleanDamage g (C02U.flushDisk img b) W' →
      ∀ (policy : Policy) (order : List Bytes) (r : Recovered), recover g W' policy order none = .ok r →
        C12X.Exposed J (l.files.headD 0) W r := by
  obtain ⟨J, hc, hw, hJW, hall⟩ := C08_crash_genuine_clean g hB cap l img b W h
  refine ⟨J, hc, hw, hJW, ?_⟩
  intro W' hshape hN policy order r hr
  obtain ⟨⟨_, _, L, hL1, hL2⟩, _⟩ := hall W' hshape hN policy order r hr
  exact C12X.exposed_of J _ W hJW r L hL1 hL2

/-- **no restart exposes a batch with a hole or a missing tail** (satisfiable clause) -/
theorem C12_crash_no_hole_clean (g : Geom) (hB : g.B ≤ 65542) (cap : Nat) (l : Log) (img : Image) (b : BufSt)
    (W : List Entry) (h : C02W.ReachXW g cap l img b W) :
    ∀ W', SameShape (C02U.flushDisk img b) W' → CleanDamage g (C02U.flushDisk img b) W' →
    ∀ (policy : Policy) (order : List Bytes) (r : Recovered), recover g W' policy order none = .ok r →
      ∃ L : List (Nat × Entry), (∀ fe ∈ L, fe.2 ∈ W) ∧ replayEntries [] L = some r.log.queues ∧
        (∀ es₁ es₂ f name p bt, L = es₁ ++ [(f, Entry.append name p bt)] ++ es₂ →
          (∀ rc ∈ bt, (name, rc.1, rc.2) ∉ recordsOf es₁ ∧ (name, rc.1, rc.2) ∉ recordsOf es₂) →
          ∀ q, r.log.queues.get? name = some q →
            ∃ k, bt.filter (fun rc => decide (rc ∈ plain q)) = bt.drop k ∧
              (noTrunc name es₂ = true → k = 0 ∨ bt.length ≤ k)) ∧
        (∀ name rc, (name, rc.1, rc.2) ∉ recordsOf L →
          ∀ q, r.log.queues.get? name = some q → rc ∉ plain q) := by
  obtain ⟨J, _, _, _, hall⟩ := C12_crash_damage_clean g hB cap l img b W h
  intro W' hshape hN policy order r hr
  obtain ⟨L, _, hLW, hL1, _⟩ := hall W' hshape hN policy order r hr
  refine ⟨L, hLW, hL1, ?_, ?_⟩
  · intro es₁ es₂ f name p bt hL hfresh q hq
    exact C12X.no_hole L _ hL1 es₁ es₂ f name p bt hL hfresh q hq
  · intro name rc hnot q hq
    exact C12X.undelivered_nothing L _ hL1 name rc hnot q hq

end MRL.CD
