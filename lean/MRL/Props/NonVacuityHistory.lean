/-
Non-vacuity, part 1: a concrete crash-reachable state, built step by step.

Geometry `B = 16`, `K = 2` (files of 32 bytes), `BufWriter` capacity 0, policy `DoNothing`.
History 1, from the empty directory:
  `open`; `create_queue "a"`;
  `append "a" [[1],[2]]` — CRASH after 11 OS operations, 11 bytes into the 12th (a Middle frame cut in
    its payload: a junk slot whose checksum fails stays on disk, after two orphan frames); `open`
    (recovers the empty queue, writes a `RecordPosition` entry, unlinks `wal-0`, `wal-1`);
  `append "a" [[3],[4]]`, `append "a" [[5],[6]]`, `append "a" [[7],[8]]` (completed; each entry is 6
    frames over 3 files);
  `truncate "a" ..=1` — CRASH after 10 OS operations, BETWEEN TWO UNLINKS of its GC pass (`wal-2`
    gone, `wal-3`, `wal-4` still there); `open` (its own GC pass unlinks `wal-3`, `wal-4`).
The result `S*` = (`R2.log`, `img6`, empty buffer) is a `C02W.ReachXW` state (`reachS`), with the
list `Wfin` of the 7 entries handed to the writer. Every side condition of the constructors is
discharged: `WF` of the journal entries, the collision clause `TornStep` for the frames of the two
interrupted calls (every proper zero-filled prefix of every payload: checksums evaluated), the
equations `recoverPre … = .ok …`, `recover … = .ok …`.

Method (`MRL/Proofs/EvalTwin.lean`): the literals below are `#eval` output; every equation is then
PROVED by `rw [step_twin]` / `recover_twin` / `stepJ_twin` / `gcJ_twin` (the well-founded
`writeEntryBufs` replaced by its fuel version, equal for all arguments) and `decide +kernel` —
kernel reduction only, no compiler, no axiom beyond `propext`, `Quot.sound`. Each evaluation takes
at most ~12 s.
-/
import MRL.Proofs.EvalTwin
import MRL.Proofs.LProvReach
import MRL.Props.CrashDamageClean
import MRL.Props.C02
import MRL.Props.C09Crash
import MRL.Props.C10Reach
namespace MRL.NV
open MRL Log Twin Codec

def g : Geom := { B := 16, K := 2, hB := by decide, hK := by decide }
def c1 : Call := .create [97]
def c2 : Call := .append [97] none [[1],[2]]
def c3 : Call := .append [97] none [[3],[4]]
def c4 : Call := .append [97] none [[5],[6]]
def c5 : Call := .append [97] none [[7],[8]]
def c6 : Call := .truncate [97] 1

def R0 : Recovered :=
  { log := { files := [0], cur := 0, off := 0, queues := [], policy := MRL.Policy.doNothing }, effects := [MRL.Effect.create 0,
    MRL.Effect.setLen 0 32,
    MRL.Effect.ensureLen 0 32], ioCalls := 3 }

def img0 : Image :=
  [(0, [0, 0, 0, 0, 0, 0, 0, 0, 0, 0, 0, 0, 0, 0, 0, 0, 0, 0, 0, 0, 0, 0, 0, 0, 0, 0, 0, 0, 0, 0, 0, 0])]

def s1 : Log × Outcome × List Effect :=
  ({ files := [0], cur := 0, off := 26, queues := [([97], { start := 0, recs := [] })], policy := MRL.Policy.doNothing }, MRL.Outcome.created 26, [MRL.Effect.write 0 0 [205, 144, 137, 201, 9, 0, 2, 2, 0, 0, 0, 0, 0, 0, 0, 0],
    MRL.Effect.write 0 16 [178, 115, 81, 149, 3, 0, 4, 1, 0, 97],
    MRL.Effect.flush,
    MRL.Effect.fsyncFile 0,
    MRL.Effect.fsyncDir])

def img1 : Image :=
  [(0, [205, 144, 137, 201, 9, 0, 2, 2, 0, 0, 0, 0, 0, 0, 0, 0, 178, 115, 81, 149, 3, 0, 4, 1, 0, 97, 0, 0, 0, 0, 0, 0])]

def s2 : Log × Outcome × List Effect :=
  ({ files := [0, 1, 2, 3], cur := 3, off := 9, queues := [([97], { start := 0, recs := [{ pos := 0, payload := [1], file := none }, { pos := 1, payload := [2], file := some 0 }] })], policy := MRL.Policy.doNothing }, MRL.Outcome.appended (some 1) 79, [MRL.Effect.write 0 26 [0, 0, 0, 0, 0, 0],
    MRL.Effect.flush,
    MRL.Effect.fsyncFile 0,
    MRL.Effect.fsyncDir,
    MRL.Effect.create 1,
    MRL.Effect.setLen 1 32,
    MRL.Effect.write 1 0 [71, 233, 147, 186, 9, 0, 2, 4, 0, 0, 0, 0, 0, 0, 0, 0],
    MRL.Effect.write 1 16 [103, 128, 7, 50, 9, 0, 3, 1, 0, 97, 0, 0, 0, 0, 0, 0],
    MRL.Effect.flush,
    MRL.Effect.fsyncFile 1,
    MRL.Effect.fsyncDir,
    MRL.Effect.create 2,
    MRL.Effect.setLen 2 32,
    MRL.Effect.write 2 0 [183, 131, 19, 182, 9, 0, 3, 0, 0, 1, 0, 0, 0, 1, 1, 0],
    MRL.Effect.write 2 16 [66, 185, 127, 9, 9, 0, 3, 0, 0, 0, 0, 0, 0, 1, 0, 0],
    MRL.Effect.flush,
    MRL.Effect.fsyncFile 2,
    MRL.Effect.fsyncDir,
    MRL.Effect.create 3,
    MRL.Effect.setLen 3 32,
    MRL.Effect.write 3 0 [226, 16, 70, 22, 2, 0, 4, 0, 2]])

def X1 : Image :=
  [(0, [205, 144, 137, 201, 9, 0, 2, 2, 0, 0, 0, 0, 0, 0, 0, 0, 178, 115, 81, 149, 3, 0, 4, 1, 0, 97, 0, 0, 0, 0, 0, 0]),
    (1, [71, 233, 147, 186, 9, 0, 2, 4, 0, 0, 0, 0, 0, 0, 0, 0, 103, 128, 7, 50, 9, 0, 3, 1, 0, 97, 0, 0, 0, 0, 0, 0]),
    (2, [183, 131, 19, 182, 9, 0, 3, 0, 0, 1, 0, 0, 0, 0, 0, 0, 0, 0, 0, 0, 0, 0, 0, 0, 0, 0, 0, 0, 0, 0, 0, 0])]

def P1 : Log × List Effect × Nat :=
  ({ files := [0, 1, 2], cur := 2, off := 16, queues := [([97], { start := 0, recs := [] })], policy := MRL.Policy.doNothing }, [MRL.Effect.ensureLen 0 32], 12)

def R1 : Recovered :=
  { log := { files := [2, 3], cur := 3, off := 10, queues := [([97], { start := 0, recs := [] })], policy := MRL.Policy.doNothing }, effects := [MRL.Effect.ensureLen 0 32,
    MRL.Effect.write 2 16 [205, 144, 137, 201, 9, 0, 2, 2, 0, 0, 0, 0, 0, 0, 0, 0],
    MRL.Effect.flush,
    MRL.Effect.fsyncFile 2,
    MRL.Effect.fsyncDir,
    MRL.Effect.create 3,
    MRL.Effect.setLen 3 32,
    MRL.Effect.write 3 0 [178, 115, 81, 149, 3, 0, 4, 1, 0, 97],
    MRL.Effect.flush,
    MRL.Effect.fsyncFile 3,
    MRL.Effect.fsyncDir,
    MRL.Effect.unlink 0,
    MRL.Effect.unlink 1], ioCalls := 12 }

def img2 : Image :=
  [(2, [183, 131, 19, 182, 9, 0, 3, 0, 0, 1, 0, 0, 0, 0, 0, 0, 205, 144, 137, 201, 9, 0, 2, 2, 0, 0, 0, 0, 0, 0, 0, 0]),
    (3, [178, 115, 81, 149, 3, 0, 4, 1, 0, 97, 0, 0, 0, 0, 0, 0, 0, 0, 0, 0, 0, 0, 0, 0, 0, 0, 0, 0, 0, 0, 0, 0])]

def s3 : Log × Outcome × List Effect :=
  ({ files := [2, 3, 4, 5], cur := 5, off := 25, queues := [([97], { start := 0, recs := [{ pos := 0, payload := [3], file := none }, { pos := 1, payload := [4], file := some 3 }] })], policy := MRL.Policy.doNothing }, MRL.Outcome.appended (some 1) 79, [MRL.Effect.write 3 10 [0, 0, 0, 0, 0, 0],
    MRL.Effect.write 3 16 [71, 233, 147, 186, 9, 0, 2, 4, 0, 0, 0, 0, 0, 0, 0, 0],
    MRL.Effect.flush,
    MRL.Effect.fsyncFile 3,
    MRL.Effect.fsyncDir,
    MRL.Effect.create 4,
    MRL.Effect.setLen 4 32,
    MRL.Effect.write 4 0 [103, 128, 7, 50, 9, 0, 3, 1, 0, 97, 0, 0, 0, 0, 0, 0],
    MRL.Effect.write 4 16 [217, 87, 151, 181, 9, 0, 3, 0, 0, 1, 0, 0, 0, 3, 1, 0],
    MRL.Effect.flush,
    MRL.Effect.fsyncFile 4,
    MRL.Effect.fsyncDir,
    MRL.Effect.create 5,
    MRL.Effect.setLen 5 32,
    MRL.Effect.write 5 0 [66, 185, 127, 9, 9, 0, 3, 0, 0, 0, 0, 0, 0, 1, 0, 0],
    MRL.Effect.write 5 16 [215, 181, 37, 255, 2, 0, 4, 0, 4]])

def img3 : Image :=
  [(2, [183, 131, 19, 182, 9, 0, 3, 0, 0, 1, 0, 0, 0, 0, 0, 0, 205, 144, 137, 201, 9, 0, 2, 2, 0, 0, 0, 0, 0, 0, 0, 0]),
    (3, [178, 115, 81, 149, 3, 0, 4, 1, 0, 97, 0, 0, 0, 0, 0, 0, 71, 233, 147, 186, 9, 0, 2, 4, 0, 0, 0, 0, 0, 0, 0, 0]),
    (4, [103, 128, 7, 50, 9, 0, 3, 1, 0, 97, 0, 0, 0, 0, 0, 0, 217, 87, 151, 181, 9, 0, 3, 0, 0, 1, 0, 0, 0, 3, 1, 0]),
    (5, [66, 185, 127, 9, 9, 0, 3, 0, 0, 0, 0, 0, 0, 1, 0, 0, 215, 181, 37, 255, 2, 0, 4, 0, 4, 0, 0, 0, 0, 0, 0, 0])]

def s4 : Log × Outcome × List Effect :=
  ({ files := [2, 3, 4, 5, 6, 7, 8], cur := 8, off := 9, queues := [([97], { start := 0, recs := [{ pos := 0, payload := [3], file := none }, { pos := 1, payload := [4], file := some 3 }, { pos := 2, payload := [5], file := none }, { pos := 3, payload := [6], file := some 5 }] })], policy := MRL.Policy.doNothing }, MRL.Outcome.appended (some 3) 80, [MRL.Effect.write 5 25 [161, 142, 12, 60, 0, 0, 2],
    MRL.Effect.flush,
    MRL.Effect.fsyncFile 5,
    MRL.Effect.fsyncDir,
    MRL.Effect.create 6,
    MRL.Effect.setLen 6 32,
    MRL.Effect.write 6 0 [4, 133, 116, 23, 9, 0, 3, 4, 2, 0, 0, 0, 0, 0, 0, 0],
    MRL.Effect.write 6 16 [108, 33, 207, 127, 9, 0, 3, 1, 0, 97, 2, 0, 0, 0, 0, 0],
    MRL.Effect.flush,
    MRL.Effect.fsyncFile 6,
    MRL.Effect.fsyncDir,
    MRL.Effect.create 7,
    MRL.Effect.setLen 7 32,
    MRL.Effect.write 7 0 [233, 73, 44, 131, 9, 0, 3, 0, 0, 1, 0, 0, 0, 5, 3, 0],
    MRL.Effect.write 7 16 [66, 185, 127, 9, 9, 0, 3, 0, 0, 0, 0, 0, 0, 1, 0, 0],
    MRL.Effect.flush,
    MRL.Effect.fsyncFile 7,
    MRL.Effect.fsyncDir,
    MRL.Effect.create 8,
    MRL.Effect.setLen 8 32,
    MRL.Effect.write 8 0 [251, 212, 43, 17, 2, 0, 4, 0, 6]])

def img4 : Image :=
  [(2, [183, 131, 19, 182, 9, 0, 3, 0, 0, 1, 0, 0, 0, 0, 0, 0, 205, 144, 137, 201, 9, 0, 2, 2, 0, 0, 0, 0, 0, 0, 0, 0]),
    (3, [178, 115, 81, 149, 3, 0, 4, 1, 0, 97, 0, 0, 0, 0, 0, 0, 71, 233, 147, 186, 9, 0, 2, 4, 0, 0, 0, 0, 0, 0, 0, 0]),
    (4, [103, 128, 7, 50, 9, 0, 3, 1, 0, 97, 0, 0, 0, 0, 0, 0, 217, 87, 151, 181, 9, 0, 3, 0, 0, 1, 0, 0, 0, 3, 1, 0]),
    (5, [66, 185, 127, 9, 9, 0, 3, 0, 0, 0, 0, 0, 0, 1, 0, 0, 215, 181, 37, 255, 2, 0, 4, 0, 4, 161, 142, 12, 60, 0, 0, 2]),
    (6, [4, 133, 116, 23, 9, 0, 3, 4, 2, 0, 0, 0, 0, 0, 0, 0, 108, 33, 207, 127, 9, 0, 3, 1, 0, 97, 2, 0, 0, 0, 0, 0]),
    (7, [233, 73, 44, 131, 9, 0, 3, 0, 0, 1, 0, 0, 0, 5, 3, 0, 66, 185, 127, 9, 9, 0, 3, 0, 0, 0, 0, 0, 0, 1, 0, 0]),
    (8, [251, 212, 43, 17, 2, 0, 4, 0, 6, 0, 0, 0, 0, 0, 0, 0, 0, 0, 0, 0, 0, 0, 0, 0, 0, 0, 0, 0, 0, 0, 0, 0])]

def s5 : Log × Outcome × List Effect :=
  ({ files := [2, 3, 4, 5, 6, 7, 8, 9, 10], cur := 10, off := 25, queues := [([97], { start := 0, recs := [{ pos := 0, payload := [3], file := none }, { pos := 1, payload := [4], file := some 3 }, { pos := 2, payload := [5], file := none }, { pos := 3, payload := [6], file := some 5 }, { pos := 4, payload := [7], file := none }, { pos := 5, payload := [8], file := some 8 }] })], policy := MRL.Policy.doNothing }, MRL.Outcome.appended (some 5) 80, [MRL.Effect.write 8 9 [161, 142, 12, 60, 0, 0, 2],
    MRL.Effect.write 8 16 [131, 140, 27, 209, 9, 0, 3, 4, 4, 0, 0, 0, 0, 0, 0, 0],
    MRL.Effect.flush,
    MRL.Effect.fsyncFile 8,
    MRL.Effect.fsyncDir,
    MRL.Effect.create 9,
    MRL.Effect.setLen 9 32,
    MRL.Effect.write 9 0 [113, 194, 150, 169, 9, 0, 3, 1, 0, 97, 4, 0, 0, 0, 0, 0],
    MRL.Effect.write 9 16 [1, 58, 242, 214, 9, 0, 3, 0, 0, 1, 0, 0, 0, 7, 5, 0],
    MRL.Effect.flush,
    MRL.Effect.fsyncFile 9,
    MRL.Effect.fsyncDir,
    MRL.Effect.create 10,
    MRL.Effect.setLen 10 32,
    MRL.Effect.write 10 0 [66, 185, 127, 9, 9, 0, 3, 0, 0, 0, 0, 0, 0, 1, 0, 0],
    MRL.Effect.write 10 16 [252, 249, 147, 246, 2, 0, 4, 0, 8]])

def img5 : Image :=
  [(2, [183, 131, 19, 182, 9, 0, 3, 0, 0, 1, 0, 0, 0, 0, 0, 0, 205, 144, 137, 201, 9, 0, 2, 2, 0, 0, 0, 0, 0, 0, 0, 0]),
    (3, [178, 115, 81, 149, 3, 0, 4, 1, 0, 97, 0, 0, 0, 0, 0, 0, 71, 233, 147, 186, 9, 0, 2, 4, 0, 0, 0, 0, 0, 0, 0, 0]),
    (4, [103, 128, 7, 50, 9, 0, 3, 1, 0, 97, 0, 0, 0, 0, 0, 0, 217, 87, 151, 181, 9, 0, 3, 0, 0, 1, 0, 0, 0, 3, 1, 0]),
    (5, [66, 185, 127, 9, 9, 0, 3, 0, 0, 0, 0, 0, 0, 1, 0, 0, 215, 181, 37, 255, 2, 0, 4, 0, 4, 161, 142, 12, 60, 0, 0, 2]),
    (6, [4, 133, 116, 23, 9, 0, 3, 4, 2, 0, 0, 0, 0, 0, 0, 0, 108, 33, 207, 127, 9, 0, 3, 1, 0, 97, 2, 0, 0, 0, 0, 0]),
    (7, [233, 73, 44, 131, 9, 0, 3, 0, 0, 1, 0, 0, 0, 5, 3, 0, 66, 185, 127, 9, 9, 0, 3, 0, 0, 0, 0, 0, 0, 1, 0, 0]),
    (8, [251, 212, 43, 17, 2, 0, 4, 0, 6, 161, 142, 12, 60, 0, 0, 2, 131, 140, 27, 209, 9, 0, 3, 4, 4, 0, 0, 0, 0, 0, 0, 0]),
    (9, [113, 194, 150, 169, 9, 0, 3, 1, 0, 97, 4, 0, 0, 0, 0, 0, 1, 58, 242, 214, 9, 0, 3, 0, 0, 1, 0, 0, 0, 7, 5, 0]),
    (10, [66, 185, 127, 9, 9, 0, 3, 0, 0, 0, 0, 0, 0, 1, 0, 0, 252, 249, 147, 246, 2, 0, 4, 0, 8, 0, 0, 0, 0, 0, 0, 0])]

def s6 : Log × Outcome × List Effect :=
  ({ files := [5, 6, 7, 8, 9, 10, 11], cur := 11, off := 26, queues := [([97], { start := 2, recs := [{ pos := 2, payload := [5], file := none }, { pos := 3, payload := [6], file := some 5 }, { pos := 4, payload := [7], file := none }, { pos := 5, payload := [8], file := some 8 }] })], policy := MRL.Policy.doNothing }, MRL.Outcome.truncated 2 33, [MRL.Effect.write 10 25 [161, 142, 12, 60, 0, 0, 2],
    MRL.Effect.flush,
    MRL.Effect.fsyncFile 10,
    MRL.Effect.fsyncDir,
    MRL.Effect.create 11,
    MRL.Effect.setLen 11 32,
    MRL.Effect.write 11 0 [168, 199, 108, 211, 9, 0, 3, 1, 1, 0, 0, 0, 0, 0, 0, 0],
    MRL.Effect.write 11 16 [178, 115, 81, 149, 3, 0, 4, 1, 0, 97],
    MRL.Effect.flush,
    MRL.Effect.fsyncFile 11,
    MRL.Effect.fsyncDir,
    MRL.Effect.unlink 2,
    MRL.Effect.unlink 3,
    MRL.Effect.unlink 4])

def X2 : Image :=
  [(3, [178, 115, 81, 149, 3, 0, 4, 1, 0, 97, 0, 0, 0, 0, 0, 0, 71, 233, 147, 186, 9, 0, 2, 4, 0, 0, 0, 0, 0, 0, 0, 0]),
    (4, [103, 128, 7, 50, 9, 0, 3, 1, 0, 97, 0, 0, 0, 0, 0, 0, 217, 87, 151, 181, 9, 0, 3, 0, 0, 1, 0, 0, 0, 3, 1, 0]),
    (5, [66, 185, 127, 9, 9, 0, 3, 0, 0, 0, 0, 0, 0, 1, 0, 0, 215, 181, 37, 255, 2, 0, 4, 0, 4, 161, 142, 12, 60, 0, 0, 2]),
    (6, [4, 133, 116, 23, 9, 0, 3, 4, 2, 0, 0, 0, 0, 0, 0, 0, 108, 33, 207, 127, 9, 0, 3, 1, 0, 97, 2, 0, 0, 0, 0, 0]),
    (7, [233, 73, 44, 131, 9, 0, 3, 0, 0, 1, 0, 0, 0, 5, 3, 0, 66, 185, 127, 9, 9, 0, 3, 0, 0, 0, 0, 0, 0, 1, 0, 0]),
    (8, [251, 212, 43, 17, 2, 0, 4, 0, 6, 161, 142, 12, 60, 0, 0, 2, 131, 140, 27, 209, 9, 0, 3, 4, 4, 0, 0, 0, 0, 0, 0, 0]),
    (9, [113, 194, 150, 169, 9, 0, 3, 1, 0, 97, 4, 0, 0, 0, 0, 0, 1, 58, 242, 214, 9, 0, 3, 0, 0, 1, 0, 0, 0, 7, 5, 0]),
    (10, [66, 185, 127, 9, 9, 0, 3, 0, 0, 0, 0, 0, 0, 1, 0, 0, 252, 249, 147, 246, 2, 0, 4, 0, 8, 161, 142, 12, 60, 0, 0, 2]),
    (11, [168, 199, 108, 211, 9, 0, 3, 1, 1, 0, 0, 0, 0, 0, 0, 0, 178, 115, 81, 149, 3, 0, 4, 1, 0, 97, 0, 0, 0, 0, 0, 0])]

def P2 : Log × List Effect × Nat :=
  ({ files := [3, 4, 5, 6, 7, 8, 9, 10, 11], cur := 11, off := 26, queues := [([97], { start := 2, recs := [{ pos := 2, payload := [5], file := none }, { pos := 3, payload := [6], file := some 5 }, { pos := 4, payload := [7], file := none }, { pos := 5, payload := [8], file := some 8 }] })], policy := MRL.Policy.doNothing }, [MRL.Effect.ensureLen 3 32], 37)

def R2 : Recovered :=
  { log := { files := [5, 6, 7, 8, 9, 10, 11], cur := 11, off := 26, queues := [([97], { start := 2, recs := [{ pos := 2, payload := [5], file := none }, { pos := 3, payload := [6], file := some 5 }, { pos := 4, payload := [7], file := none }, { pos := 5, payload := [8], file := some 8 }] })], policy := MRL.Policy.doNothing }, effects := [MRL.Effect.ensureLen 3 32,
    MRL.Effect.flush,
    MRL.Effect.fsyncFile 11,
    MRL.Effect.fsyncDir,
    MRL.Effect.unlink 3,
    MRL.Effect.unlink 4], ioCalls := 37 }

def img6 : Image :=
  [(5, [66, 185, 127, 9, 9, 0, 3, 0, 0, 0, 0, 0, 0, 1, 0, 0, 215, 181, 37, 255, 2, 0, 4, 0, 4, 161, 142, 12, 60, 0, 0, 2]),
    (6, [4, 133, 116, 23, 9, 0, 3, 4, 2, 0, 0, 0, 0, 0, 0, 0, 108, 33, 207, 127, 9, 0, 3, 1, 0, 97, 2, 0, 0, 0, 0, 0]),
    (7, [233, 73, 44, 131, 9, 0, 3, 0, 0, 1, 0, 0, 0, 5, 3, 0, 66, 185, 127, 9, 9, 0, 3, 0, 0, 0, 0, 0, 0, 1, 0, 0]),
    (8, [251, 212, 43, 17, 2, 0, 4, 0, 6, 161, 142, 12, 60, 0, 0, 2, 131, 140, 27, 209, 9, 0, 3, 4, 4, 0, 0, 0, 0, 0, 0, 0]),
    (9, [113, 194, 150, 169, 9, 0, 3, 1, 0, 97, 4, 0, 0, 0, 0, 0, 1, 58, 242, 214, 9, 0, 3, 0, 0, 1, 0, 0, 0, 7, 5, 0]),
    (10, [66, 185, 127, 9, 9, 0, 3, 0, 0, 0, 0, 0, 0, 1, 0, 0, 252, 249, 147, 246, 2, 0, 4, 0, 8, 161, 142, 12, 60, 0, 0, 2]),
    (11, [168, 199, 108, 211, 9, 0, 3, 1, 1, 0, 0, 0, 0, 0, 0, 0, 178, 115, 81, 149, 3, 0, 4, 1, 0, 97, 0, 0, 0, 0, 0, 0])]

set_option maxRecDepth 100000

/-! ### tools -/

theorem cast {g : Geom} {cap : Nat} {l l' : Log} {img img' : Image} {b b' : BufSt} {W W' : List Entry}
    (h : C02W.ReachXW g cap l img b W) (e1 : l = l') (e2 : img = img') (e3 : b = b') (e4 : W = W') :
    C02W.ReachXW g cap l' img' b' W' := by subst e1 e2 e3 e4; exact h

/-- finite check of the collision clause for the frames a call writes -/
theorem tornEffs_check (es : List Effect) (fr : List (FrameType × Bytes))
    (h1 : es.all (fun e => match e with
      | .write _ _ d => decide (d.length < 7) || decide (d ∈ fr.map (fun x => encodeFrame x.1 x.2))
      | _ => true) = true)
    (h2 : ∀ x ∈ fr, H.TornFrame x.1 x.2) : H.TornEffs es := by
  intro t p f off hmem
  have := List.all_eq_true.mp h1 _ hmem
  simp only [Bool.or_eq_true, decide_eq_true_eq] at this
  rcases this with hlt | hm
  · rw [Codec.length_encodeFrame] at hlt; omega
  · obtain ⟨x, hx, he⟩ := List.mem_map.mp hm
    obtain ⟨e1, e2⟩ := C02.encodeFrame_inj _ _ _ _ he
    rw [← e1, ← e2]
    exact h2 x hx


/-! ### history 1 -/

theorem hR0 : recover g [] .doNothing [] none = .ok R0 := by rw [recover_twin]; decide +kernel
theorem e_img0 : applyOsOps [] (toOsOps 0 {} R0.effects).2 = img0 ∧ (toOsOps 0 {} R0.effects).1 = {} := by
  decide +kernel

theorem reach0 : C02W.ReachXW g 0 R0.log img0 {} [] :=
  cast (C02W.ReachXW.base (C01R.ReachD.init .doNothing [] R0 hR0) (fun j hj => by cases hj))
    rfl e_img0.1 e_img0.2 rfl

-- call 1: create_queue "a" (completed)
theorem e_s1 : R0.log.step g c1 false [] = s1 := by rw [step_twin]; decide +kernel
theorem e_img1 : applyOsOps img0 (toOsOps 0 {} s1.2.2).2 = img1 ∧ (toOsOps 0 {} s1.2.2).1 = {} := by decide +kernel
theorem e_j1 : C02W.ents (R0.log.stepJ g c1 []) = [.touch [97] 0] := by rw [stepJ_twin]; decide +kernel
theorem wf1 : ∀ j ∈ R0.log.stepJ g c1 [], C07.WF j.e := by rw [stepJ_twin]; decide +kernel

def W1 : List Entry := [.touch [97] 0]

theorem reach1 : C02W.ReachXW g 0 s1.1 img1 {} W1 :=
  cast (C02W.ReachXW.step c1 false [] reach0 wf1) (by rw [e_s1]) (by rw [e_s1]; exact e_img1.1)
    (by rw [e_s1]; exact e_img1.2) (by rw [e_j1]; rfl)


-- call 2: append "a" [[1],[2]] — CRASH after 11 OS operations, 11 bytes into the 12th (a Middle frame:
-- header and 4 payload bytes written; the torn slot fails its checksum), then `open`
theorem e_s2 : s1.1.step g c2 false [] = s2 := by rw [step_twin]; decide +kernel
theorem wf2 : ∀ j ∈ s1.1.stepJ g c2 [], C07.WF j.e := by rw [stepJ_twin]; decide +kernel
theorem e_j2 : C02W.ents (s1.1.stepJ g c2 []) = [.append [97] 0 [(0, [1]), (1, [2])]] := by
  rw [stepJ_twin]; decide +kernel
theorem torn2 : C02A.TornStep g s1.1 c2 false [] := by
  show H.TornEffs (s1.1.step g c2 false []).2.2
  rw [e_s2]
  apply tornEffs_check _ [(.first, [4, 0, 0, 0, 0, 0, 0, 0, 0]), (.middle, [1, 0, 97, 0, 0, 0, 0, 0, 0]),
    (.middle, [0, 0, 1, 0, 0, 0, 1, 1, 0]), (.middle, [0, 0, 0, 0, 0, 0, 1, 0, 0]), (.last, [0, 2])]
  · decide +kernel
  · decide +kernel
theorem e_X1 : X1 = crashImage img1 (toOsOps 0 {} (s1.1.step g c2 false []).2.2).2 11 11 := by
  rw [e_s2]; decide +kernel
theorem e_P1 : recoverPre g X1 .doNothing none = .ok (P1.1, P1.2.1, P1.2.2) := by decide +kernel
theorem e_R1 : recover g X1 .doNothing [] none = .ok R1 := by rw [recover_twin]; decide +kernel
theorem wfg1 : ∀ j ∈ P1.1.gcJ g [], C07.WF j.e := by rw [gcJ_twin]; decide +kernel
theorem e_jg1 : C02W.ents (P1.1.gcJ g []) = [.touch [97] 0] := by rw [gcJ_twin]; decide +kernel
theorem e_img2 : applyOsOps X1 (toOsOps 0 {} R1.effects).2 = img2 ∧ (toOsOps 0 {} R1.effects).1 = {} := by
  decide +kernel

def W2 : List Entry := [.touch [97] 0, .append [97] 0 [(0, [1]), (1, [2])], .touch [97] 0]

theorem reach2 : C02W.ReachXW g 0 R1.log img2 {} W2 :=
  cast (C02W.ReachXW.crash c2 false [] 11 11 X1 .doNothing [] P1.1 P1.2.1 P1.2.2 R1 reach1 rfl wf2 torn2 e_X1
    e_P1 e_R1 wfg1) rfl e_img2.1 e_img2.2 (by rw [e_j2, e_jg1]; rfl)

-- calls 3, 4, 5: three batches of two records, completed
theorem e_s3 : R1.log.step g c3 false [] = s3 := by rw [step_twin]; decide +kernel
theorem e_img3 : applyOsOps img2 (toOsOps 0 {} s3.2.2).2 = img3 ∧ (toOsOps 0 {} s3.2.2).1 = {} := by decide +kernel
theorem e_j3 : C02W.ents (R1.log.stepJ g c3 []) = [.append [97] 0 [(0, [3]), (1, [4])]] := by
  rw [stepJ_twin]; decide +kernel
theorem wf3 : ∀ j ∈ R1.log.stepJ g c3 [], C07.WF j.e := by rw [stepJ_twin]; decide +kernel

def W3 : List Entry := W2 ++ [.append [97] 0 [(0, [3]), (1, [4])]]

theorem reach3 : C02W.ReachXW g 0 s3.1 img3 {} W3 :=
  cast (C02W.ReachXW.step c3 false [] reach2 wf3) (by rw [e_s3]) (by rw [e_s3]; exact e_img3.1)
    (by rw [e_s3]; exact e_img3.2) (by rw [e_j3]; rfl)

theorem e_s4 : s3.1.step g c4 false [] = s4 := by rw [step_twin]; decide +kernel
theorem e_img4 : applyOsOps img3 (toOsOps 0 {} s4.2.2).2 = img4 ∧ (toOsOps 0 {} s4.2.2).1 = {} := by decide +kernel
theorem e_j4 : C02W.ents (s3.1.stepJ g c4 []) = [.append [97] 2 [(2, [5]), (3, [6])]] := by
  rw [stepJ_twin]; decide +kernel
theorem wf4 : ∀ j ∈ s3.1.stepJ g c4 [], C07.WF j.e := by rw [stepJ_twin]; decide +kernel

def W4 : List Entry := W3 ++ [.append [97] 2 [(2, [5]), (3, [6])]]

theorem reach4 : C02W.ReachXW g 0 s4.1 img4 {} W4 :=
  cast (C02W.ReachXW.step c4 false [] reach3 wf4) (by rw [e_s4]) (by rw [e_s4]; exact e_img4.1)
    (by rw [e_s4]; exact e_img4.2) (by rw [e_j4]; rfl)

theorem e_s5 : s4.1.step g c5 false [] = s5 := by rw [step_twin]; decide +kernel
theorem e_img5 : applyOsOps img4 (toOsOps 0 {} s5.2.2).2 = img5 ∧ (toOsOps 0 {} s5.2.2).1 = {} := by decide +kernel
theorem e_j5 : C02W.ents (s4.1.stepJ g c5 []) = [.append [97] 4 [(4, [7]), (5, [8])]] := by
  rw [stepJ_twin]; decide +kernel
theorem wf5 : ∀ j ∈ s4.1.stepJ g c5 [], C07.WF j.e := by rw [stepJ_twin]; decide +kernel

def W5 : List Entry := W4 ++ [.append [97] 4 [(4, [7]), (5, [8])]]

theorem reach5 : C02W.ReachXW g 0 s5.1 img5 {} W5 :=
  cast (C02W.ReachXW.step c5 false [] reach4 wf5) (by rw [e_s5]) (by rw [e_s5]; exact e_img5.1)
    (by rw [e_s5]; exact e_img5.2) (by rw [e_j5]; rfl)

-- call 6: truncate "a" ..=1 — CRASH after 10 OS operations: `wal-2` unlinked, `wal-3`, `wal-4` not yet
theorem e_s6 : s5.1.step g c6 false [] = s6 := by rw [step_twin]; decide +kernel
theorem wf6 : ∀ j ∈ s5.1.stepJ g c6 [], C07.WF j.e := by rw [stepJ_twin]; decide +kernel
theorem e_j6 : C02W.ents (s5.1.stepJ g c6 []) = [.truncate [97] 1] := by rw [stepJ_twin]; decide +kernel
theorem torn6 : C02A.TornStep g s5.1 c6 false [] := by
  show H.TornEffs (s5.1.step g c6 false []).2.2
  rw [e_s6]
  apply tornEffs_check _ [(.first, []), (.middle, [1, 1, 0, 0, 0, 0, 0, 0, 0]), (.last, [1, 0, 97])]
  · decide +kernel
  · decide +kernel
theorem e_X2 : X2 = crashImage img5 (toOsOps 0 {} (s5.1.step g c6 false []).2.2).2 10 0 := by
  rw [e_s6]; decide +kernel
theorem e_P2 : recoverPre g X2 .doNothing none = .ok (P2.1, P2.2.1, P2.2.2) := by decide +kernel
theorem e_R2 : recover g X2 .doNothing [] none = .ok R2 := by rw [recover_twin]; decide +kernel
theorem wfg2 : ∀ j ∈ P2.1.gcJ g [], C07.WF j.e := by rw [gcJ_twin]; decide +kernel
theorem e_jg2 : C02W.ents (P2.1.gcJ g []) = [] := by rw [gcJ_twin]; decide +kernel
theorem e_img6 : applyOsOps X2 (toOsOps 0 {} R2.effects).2 = img6 ∧ (toOsOps 0 {} R2.effects).1 = {} := by
  decide +kernel

/-- every entry handed to the writer by history 1 -/
def Wfin : List Entry := W5 ++ [.truncate [97] 1]

/-- **the state `S*` of history 1 is crash-reachable** -/
theorem reachS : C02W.ReachXW g 0 R2.log img6 {} Wfin :=
  cast (C02W.ReachXW.crash c6 false [] 10 0 X2 .doNothing [] P2.1 P2.2.1 P2.2.2 R2 reach5 rfl wf6 torn6 e_X2
    e_P2 e_R2 wfg2) rfl e_img6.1 e_img6.2 (by rw [e_j6, e_jg2]; rfl)

end MRL.NV
