/-
C02 (model level), last gap — the recovered log is fully usable.

FULL STATEMENT (as posed). "The recovered log is fully usable: further operations and restarts
behave exactly as on a log that never crashed." Generalise the invariant `CInv` of reachable
(log, journal, flushed disk) triples to an invariant `CInvX` that holds after EVERY crash point
(k, cut) of every call — allowing dead regions on the tape (torn frames, abandoned block tails,
orphan First/Middle frames), one pre-created next file (empty or zero-filled) and files not yet
unlinked by a partial GC pass — show that it is preserved by `step` and by `reopen`, define `ReachX`
(a `ReachD` state, one crash-recovery at any crash point, then any number of steps, reopens and
further crash-recoveries) and prove on `ReachX`: (a) restarts reproduce the abstract state, (b)
crash atomicity from any call boundary, (c) the C05 refinement keeps applying.

WHAT IS PROVED (no `sorry`, no new axiom) — for EVERY crash point (k, cut), any number of times.
* `CInvX` (`MRL/Proofs/LInv.lean`): `JInv l J` for SOME journal `J` (the in-memory part, unchanged)
  and a relaxed disk invariant (`XInvX`, `MRL/Proofs/LDisk.lean`): the tracked files `F … cur` are
  full-size and hold the bytes of a list of ITEMS followed by zeros; the NEXT FILE MAY ALREADY EXIST,
  EMPTY (`x = true`). An item (`MRL/Proofs/LItems.lean`) is a tagged frame with an optional
  override of the bytes of its slot: `none` = the frame as written; `some r` = JUNK, the frame being
  only a placeholder of the exact slot size (so the position theory `endPos`/`hdrPos`/`Fits`/
  `Tagged`/cuts is reused). Junk (`JunkOK`) is either a complete slot whose checksum fails (a torn
  PAYLOAD with intact header: one `corrupt` event, the reader goes on after the slot) or a torn
  HEADER (1–6 bytes, not all zero, zeros to the end of the block, another block follows: one
  `corrupt` event, the rest of the block is given up). Moreover a RESIDUE of at most 6 junk bytes may
  stand where the writer stands, in the very last block (a torn header there: the reader stops in
  front of it; the next frame overwrites it). The items are lead frames followed by GROUPS: live
  groups (the frames of the retained journal entries, in order), dead groups (a proper prefix of
  the frames of an entry that was never finished: orphan First/Middle frames) and junk groups (one
  junk slot). Nothing relates the handles on disk and in memory: everything is up to `AbsEq`.
  `CInvX.of_cinv`: every `CInv` triple is a `CInvX` triple.
* preservation: `cinvx_step` (one call; the first frame written overwrites the residue),
  `cinvx_reopen` (`open`: the recovered log satisfies `CInvX` on the same disk for the RE-ATTRIBUTED
  journal — the retained entries, each attributed to the file the reader attributes it to, a
  `corrupt` event moving the attribution to its file — and has the same abstract state).
* `crash_cinvx`: from any `ReachX` call boundary (in particular any `ReachD` one), for EVERY crash
  point (k, cut), the recovered log, with the disk and `BufWriter` state after the effects of
  `recover`, satisfies `CInvX` (+ `BufOK`) and has the abstract state before or after the call.
  The heart is `L.CutCtx.classify` (`MRL/Proofs/LClass.lean`): whatever the byte at which the write
  of an entry was cut, the tape is a tape of items again — the frames written entirely are kept
  (as a dead group if the entry is unfinished); the frame that was cut leaves nothing (only zeros
  reached the disk, or it is complete), a junk slot (torn payload whose checksum fails — this is
  where the CRC collision clause `TornStep` is used; torn header not in the last block), or a residue
  (torn header in the last block, possibly mixed with what was left of an older residue). The
  reader over items is `L.readS_itemsJ` / `L.read_diskX` (`LScanJ.lean`, `LRead.lean`), built on
  the codec agent's `Torn.scanB_raw` and `Torn.scanB_torn`.
  (`crash_cinvx_partial`, the previous delivery restricted to effect boundaries, is kept as a
  corollary; `op_boundaries_covered`, `crashImage_full_write`, `crashImage_nonwrite` too.)
* `ReachX`: `ReachD` states, closed under `step`, `reopen`, crash-recovery of a call at ANY crash
  point (`crash`), crash-recovery during the effects of `open` itself at ANY crash point (`crash2`).
  `reachX_inv`: every `ReachX` state satisfies `CInvX` for some serialisable journal.
* on every `ReachX` state — hence after arbitrary byte-level crashes, any number of times:
  (a) `C02_usable_restart`: dropping the log and opening the directory again succeeds and gives the
      same abstract state (`AbsEq`: names, positions, payloads, next positions).
  (b) `C02_usable_crash_atomic`: from any call boundary (`b.pend = []`), for EVERY crash point
      (k, cut), `recover` succeeds with the abstract state before or after the call.
      `C02_usable_second_crash`: the same for EVERY crash point of `open` itself.
  (c) `C02_usable_refines`: `C05.Inv` holds, so `C05_refines` applies to every further call.
* `C02_usable`: for EVERY crash point (k, cut) of a call from a `ReachX` boundary, `recover` succeeds
  and the recovered log behaves exactly as the log `lref ∈ {l, l after the call}` that never
  crashed: for any further calls (whatever the tick / GC-order oracles on either side) the logical
  outcomes are identical and the final abstract states are equal (`absEq_run`, through the C05
  specification). The recovered state is `ReachX` again (`C02_usable_reach_all`), so (a), (b), (c)
  and `C02_usable` apply to it and to everything that follows.

DEVIATIONS. (1) the journal of a recovered state is not `J` / `J ++ l.stepJ g c order (++ gcJ)`:
it is that journal restricted to the entries at or after the first remaining file, with the
attributions the READER makes (they can differ from the writer's when an entry spans a whole file,
after a roll-over into a pre-created file, or after a `corrupt` slot — the handle finding of
`C02Atomic`); it exists (`∃ J'`), is serialisable, and replays to the recovered queues exactly.
(2) (a)/(b) are stated with `AbsEq` as allowed. (3) the hypotheses are those of `C02_crash_atomic`:
`g.B ≤ 65542`, serialisable entries (`C07.WF`), the CRC collision clause for the frames of the call
being interrupted (`TornStep`, resp. `TornEffs` for `open`), a call boundary with an empty
`BufWriter` (`b.pend = []`).
No misbehaving continuation was found: an exhaustive run (`g = ⟨16, 2⟩`, `cap = 16`, all (k, cut) of
truncate / append / delete calls, 7 further calls, two reopens, and double crashes) found none.
-/
import MRL.Proofs.LCrash
import MRL.Proofs.LSim
import MRL.Proofs.LBoundary
import MRL.Props.C02Atomic
import MRL.Props.C08

namespace MRL.C02U
open MRL Log C05 C01J G H L Buf Codec

abbrev flushDisk (img : Image) (b : BufSt) : Image := C01R.flushDisk img b
abbrev CInvX := @L.CInvX
abbrev AbsEq := H.AbsEq

/-- `X` is the image after a whole number of the effects (no write is cut) -/
def AtBoundary (img : Image) (effs : List Effect) (X : Image) : Prop :=
  ∃ n, X = applyOsOps img (directOps (effs.take n))

/-- states reachable with crashes: (log, OS image, `BufWriter` state) -/
inductive ReachX (g : Geom) (cap : Nat) : Log → Image → BufSt → Prop
  | base {l : Log} {J : List JE} {img : Image} {b : BufSt} :
      C01R.ReachD g cap l J img b → (∀ j ∈ J, C07.WF j.e) → ReachX g cap l img b
  | step {l : Log} {img : Image} {b : BufSt} (c : Call) (tick : Bool) (order : List Bytes) :
      ReachX g cap l img b → (∀ j ∈ l.stepJ g c order, C07.WF j.e) →
      ReachX g cap (l.step g c tick order).1
        (applyOsOps img (toOsOps cap b (l.step g c tick order).2.2).2)
        (toOsOps cap b (l.step g c tick order).2.2).1
  | reopen {l : Log} {img : Image} {b : BufSt} (policy : Policy) (order : List Bytes)
      (lp : Log) (e0 : List Effect) (io : Nat) (r : Recovered) :
      ReachX g cap l img b →
      recoverPre g (flushDisk img b) policy none = .ok (lp, e0, io) →
      recover g (flushDisk img b) policy order none = .ok r →
      (∀ j ∈ lp.gcJ g order, C07.WF j.e) →
      ReachX g cap r.log (applyOsOps (flushDisk img b) (toOsOps cap {} r.effects).2) (toOsOps cap {} r.effects).1
  | crash {l : Log} {img : Image} {b : BufSt} (c : Call) (tick : Bool) (order : List Bytes) (k cut : Nat)
      (X : Image) (policy' : Policy) (order' : List Bytes) (lp : Log) (e0 : List Effect) (io : Nat)
      (r : Recovered) :
      ReachX g cap l img b → b.pend = [] →
      (∀ j ∈ l.stepJ g c order, C07.WF j.e) → C02A.TornStep g l c tick order →
      X = crashImage img (toOsOps cap b (l.step g c tick order).2.2).2 k cut →
      recoverPre g X policy' none = .ok (lp, e0, io) →
      recover g X policy' order' none = .ok r →
      (∀ j ∈ lp.gcJ g order', C07.WF j.e) →
      ReachX g cap r.log (applyOsOps X (toOsOps cap {} r.effects).2) (toOsOps cap {} r.effects).1
  | crash2 {l : Log} {img : Image} {b : BufSt} (policy : Policy) (order : List Bytes) (lp0 : Log)
      (e00 : List Effect) (io0 : Nat) (r0 : Recovered) (k cut : Nat) (X : Image) (policy' : Policy)
      (order' : List Bytes) (lp : Log) (e0 : List Effect) (io : Nat) (r : Recovered) :
      ReachX g cap l img b →
      recoverPre g (flushDisk img b) policy none = .ok (lp0, e00, io0) →
      recover g (flushDisk img b) policy order none = .ok r0 →
      (∀ j ∈ lp0.gcJ g order, C07.WF j.e) → TornEffs r0.effects →
      X = crashImage (flushDisk img b) (toOsOps cap {} r0.effects).2 k cut →
      recoverPre g X policy' none = .ok (lp, e0, io) →
      recover g X policy' order' none = .ok r →
      (∀ j ∈ lp.gcJ g order', C07.WF j.e) →
      ReachX g cap r.log (applyOsOps X (toOsOps cap {} r.effects).2) (toOsOps cap {} r.effects).1

/-- the invariant of `ReachX` states -/
structure XRInv (g : Geom) (cap : Nat) (l : Log) (img : Image) (b : BufSt) : Prop where
  inv : ∃ J, CInvX g l J (flushDisk img b) ∧ ∀ j ∈ J, C07.WF j.e
  buf : BufOK cap l b

/-! ### preservation -/

/-- one call preserves the relaxed invariant (re-export) -/
theorem cinvx_step (g : Geom) {l : Log} {J : List JE} {D : Image} (h : CInvX g l J D) (c : Call)
    (tick : Bool) (order : List Bytes) :
    CInvX g (l.step g c tick order).1 (J ++ l.stepJ g c order)
      (applyOsOps D (directOps (l.step g c tick order).2.2)) := L.cinvx_step g h c tick order

/-- `open` on a relaxed disk: the recovered log satisfies the relaxed invariant on the same disk,
    for a serialisable journal `J'`, and has the same abstract state -/
theorem cinvx_reopen (g : Geom) (hB : g.B ≤ 65542) {l : Log} {J : List JE} {D : Image} (h : CInvX g l J D)
    (hwf : ∀ j ∈ J, C07.WF j.e) (policy : Policy) :
    ∃ (J' : List JE) (lp : Log) (io : Nat),
      recoverPre g D policy none = .ok (lp, [.ensureLen (l.files.headD 0) g.fileBytes], io) ∧
      CInvX g lp J' D ∧ (∀ j ∈ J', C07.WF j.e) ∧ AbsEq lp.queues l.queues ∧ lp.policy = policy := by
  obtain ⟨J', lp, io, h1, h2, h3, h4, h5, _⟩ := open_okX g hB h hwf policy
  exact ⟨J', lp, io, h1, h2, h3, h4, h5⟩

/-- after `recoverPre` returned a log satisfying the relaxed invariant: the state after `recover` -/
theorem after_recover (g : Geom) (cap : Nat) {X : Image} {lp : Log} {J' : List JE} (hc : CInvX g lp J' X)
    (hw : ∀ j ∈ J', C07.WF j.e) (policy : Policy) (order : List Bytes) (io : Nat) (r : Recovered)
    (hpre : recoverPre g X policy none = .ok (lp, [.ensureLen (lp.files.headD 0) g.fileBytes], io))
    (hrec : recover g X policy order none = .ok r) (hgw : ∀ j ∈ lp.gcJ g order, C07.WF j.e) :
    XRInv g cap r.log (applyOsOps X (toOsOps cap {} r.effects).2) (toOsOps cap {} r.effects).1 := by
  rw [Rec.recover_none, hpre] at hrec
  simp only [Except.ok.injEq] at hrec
  subst hrec
  simp only
  obtain ⟨st', hrun, hclean'⟩ := C14.runGc_Disc g lp order none (Or.inl rfl)
  have hrun' : Buf.run none ([Effect.ensureLen (lp.files.headD 0) g.fileBytes] ++ (runGc g lp order).2.1) =
      some st' := by
    simp only [List.cons_append, List.nil_append, Buf.run, Buf.run1, if_true, Option.bind_some]
    exact hrun
  obtain ⟨hfl, hinv'⟩ := flushDisk_toOsOps cap X {} _ none st' (Buf.inv_empty cap none) hrun'
  refine ⟨⟨J' ++ lp.gcJ g order, ?_, ?_⟩, st', hinv', hclean'⟩
  · show L.CInvX g _ _ (G.flushDisk _ _)
    rw [hfl]
    have hD : G.flushDisk X {} = X := rfl
    rw [hD, directOps_append, applyOsOps_append, ensureLen_head g hc]
    exact cinvx_gc g hc order
  · intro j hj
    rcases List.mem_append.mp hj with hj | hj
    · exact hw j hj
    · exact hgw j hj

/-- from an `XInvRes` disk -/
theorem after_xinvres (g : Geom) (cap : Nat) {qB qA : MemQueues} {X : Image} (hres : XInvRes g qB qA X)
    (policy : Policy) (order : List Bytes) (lp : Log) (e0 : List Effect) (io : Nat) (r : Recovered)
    (hpre : recoverPre g X policy none = .ok (lp, e0, io))
    (hrec : recover g X policy order none = .ok r) (hgw : ∀ j ∈ lp.gcJ g order, C07.WF j.e) :
    XRInv g cap r.log (applyOsOps X (toOsOps cap {} r.effects).2) (toOsOps cap {} r.effects).1 ∧
      (AbsEq r.log.queues qB ∨ AbsEq r.log.queues qA) := by
  obtain ⟨J', lp1, io1, F', h1, h2, h3, h4, _, h6⟩ := hres policy
  rw [hpre] at h1
  simp only [Except.ok.injEq, Prod.mk.injEq] at h1
  obtain ⟨rfl, rfl, rfl⟩ := h1
  rw [← h2] at hpre
  refine ⟨after_recover g cap h3 h4 policy order io r hpre hrec hgw, ?_⟩
  have hq : r.log.queues = lp.queues := by
    rw [Rec.recover_none, hpre] at hrec
    simp only [Except.ok.injEq] at hrec
    subst hrec
    exact runGc_queues g lp order
  rw [hq]; exact h6

theorem flushDisk_of_empty (img : Image) (b : BufSt) (hb : b.pend = []) : flushDisk img b = img :=
  C02A.flushDisk_of_empty img b hb

/-- the crash states of `open` on a relaxed disk, at effect boundaries -/
theorem recover_boundary (g : Geom) (hB : g.B ≤ 65542) {l : Log} {J : List JE} {D : Image}
    (h : CInvX g l J D) (hwf : ∀ j ∈ J, C07.WF j.e) (policy : Policy) (order : List Bytes) (lp0 : Log)
    (e00 : List Effect) (io0 : Nat) (r0 : Recovered)
    (hpre0 : recoverPre g D policy none = .ok (lp0, e00, io0))
    (hrec0 : recover g D policy order none = .ok r0)
    (hgw0 : ∀ j ∈ lp0.gcJ g order, C07.WF j.e) (htorn : TornEffs r0.effects) :
    AbsEq lp0.queues l.queues ∧ (∃ st', Buf.run none r0.effects = some st') ∧
    (∀ (w : Bool) X, CutW w D r0.effects X → XInvRes g lp0.queues lp0.queues X) := by
  obtain ⟨J0, lp, io, r, hpre, hrec, hlog, heff, hc0, hw0, hab, _⟩ := recover_okX g hB h hwf policy order
  rw [hpre0] at hpre
  simp only [Except.ok.injEq, Prod.mk.injEq] at hpre
  obtain ⟨rfl, _, _⟩ := hpre
  rw [hrec0] at hrec
  simp only [Except.ok.injEq] at hrec
  subst hrec
  have hdisc : ∃ st', Buf.run none ([Effect.ensureLen (lp0.files.headD 0) g.fileBytes] ++ (runGc g lp0 order).2.1) =
      some st' := by
    obtain ⟨st', hrun, _⟩ := C14.runGc_Disc g lp0 order none (Or.inl rfl)
    refine ⟨st', ?_⟩
    simp only [List.cons_append, List.nil_append, Buf.run, Buf.run1, if_true, Option.bind_some]
    exact hrun
  refine ⟨hab, by rw [heff]; exact hdisc, ?_⟩
  intro w X hX
  rw [heff] at hX htorn
  have hfits : ∀ j ∈ J0 ++ gcJ g lp0 order, C07.WF j.e := by
    intro j hj
    rcases List.mem_append.mp hj with hj | hj
    · exact hw0 j hj
    · exact hgw0 j hj
  have htorn2 : TornEffs (runGc g lp0 order).2.1 :=
    htorn.mono (fun v hv => List.mem_append_right _ hv)
  have hens := ensureLen_head g hc0
  rcases CutW.of_append _ hX with hX | hX
  · -- inside `[ensureLen …]`: the disk itself
    have hXD : X = D := by
      rcases hX.cons_inv with h1 | ⟨_, _, _, _, _, hw1, _⟩ | h1
      · exact h1
      · cases hw1
      · have := h1.nil_inv
        rw [this]
        simpa [directOps] using hens
    rw [hXD]
    exact gc_cutX g hB hc0 order hfits htorn2 w D (CutW.stop _ _ _)
  · rw [hens] at hX
    exact gc_cutX g hB hc0 order hfits htorn2 w X hX

/-- **every `ReachX` state satisfies the relaxed invariant** -/
theorem reachX_inv (g : Geom) (hB : g.B ≤ 65542) (cap : Nat) {l : Log} {img : Image} {b : BufSt}
    (h : ReachX g cap l img b) : XRInv g cap l img b := by
  induction h with
  | base hr hwf =>
    have := C01R.reach_rinv g hB cap hr hwf
    exact ⟨⟨_, CInvX.of_cinv this.c, hwf⟩, this.buf⟩
  | @step l img b c tick order _ hwf ih =>
    obtain ⟨⟨J, hc, hw⟩, st, hinv, hclean⟩ := ih
    obtain ⟨st', hrun, hclean'⟩ := C14.step_Disc g l c tick order st hclean
    obtain ⟨hfl, hinv'⟩ := flushDisk_toOsOps cap img b _ st st' hinv hrun
    refine ⟨⟨J ++ l.stepJ g c order, ?_, ?_⟩, st', hinv', hclean'⟩
    · show L.CInvX g _ _ (G.flushDisk _ _)
      rw [hfl]
      exact L.cinvx_step g hc c tick order
    · intro j hj
      rcases List.mem_append.mp hj with hj | hj
      · exact hw j hj
      · exact hwf j hj
  | @reopen l img b policy order lp e0 io r _ hpre hrec hgw ih =>
    obtain ⟨⟨J, hc, hw⟩, _⟩ := ih
    have hres : XInvRes g l.queues l.queues (flushDisk img b) := by
      intro pol
      obtain ⟨J', lp1, io1, F', a1, a2, a3, a4, a5, a6⟩ := xinvres_of_cinvx g hB hc hw pol
      exact ⟨J', lp1, io1, F', a1, a2, a3, a4, a5, Or.inl a6⟩
    exact (after_xinvres g cap hres policy order lp e0 io r hpre hrec hgw).1
  | @crash l img b c tick order k cut X policy' order' lp e0 io r _ hb hwf htorn hXeq hpre hrec hgw ih =>
    obtain ⟨⟨J, hc, hw⟩, st, hinv, hclean⟩ := ih
    rw [flushDisk_of_empty img b hb] at hc
    obtain ⟨st', hrun, _⟩ := C14.step_Disc g l c tick order st hclean
    have hcut := crash_cut cap _ b st st' img hinv hrun k cut
    rw [pendW_nil b hb, List.nil_append, ← hXeq] at hcut
    have hfits : ∀ j ∈ J ++ l.stepJ g c order, C07.WF j.e := by
      intro j hj
      rcases List.mem_append.mp hj with hj | hj
      · exact hw j hj
      · exact hwf j hj
    have hres := call_cutX g hB hc c tick order hfits htorn false X (CutW.of_cutState hcut)
    exact (after_xinvres g cap hres policy' order' lp e0 io r hpre hrec hgw).1
  | @crash2 l img b policy order lp0 e00 io0 r0 k cut X policy' order' lp e0 io r _ hpre0 hrec0 hgw0 htorn hXeq
      hpre hrec hgw ih =>
    obtain ⟨⟨J, hc, hw⟩, _⟩ := ih
    obtain ⟨_, ⟨st', hrun⟩, hcut⟩ := recover_boundary g hB hc hw policy order lp0 e00 io0 r0 hpre0 hrec0 hgw0 htorn
    have hX := crash_cut cap _ {} none st' (flushDisk img b) (Buf.inv_empty cap none) hrun k cut
    have hn : pendW ({} : BufSt) = [] := rfl
    rw [hn, List.nil_append, ← hXeq] at hX
    have hres := hcut false X (CutW.of_cutState hX)
    exact (after_xinvres g cap hres policy' order' lp e0 io r hpre hrec hgw).1

/-! ### the theorems on `ReachX` -/

/-- **(a) restarts** reproduce the abstract state -/
theorem C02_usable_restart (g : Geom) (hB : g.B ≤ 65542) (cap : Nat) (l : Log) (img : Image) (b : BufSt)
    (h : ReachX g cap l img b) (policy : Policy) (order : List Bytes) :
    ∃ r, recover g (flushDisk img b) policy order none = .ok r ∧ AbsEq r.log.queues l.queues := by
  obtain ⟨⟨J, hc, hw⟩, _⟩ := reachX_inv g hB cap h
  obtain ⟨J', lp, io, r, _, hrec, hlog, _, _, _, hab, _⟩ := recover_okX g hB hc hw policy order
  exact ⟨r, hrec, by rw [hlog, runGc_queues]; exact hab⟩

/-- **(b) crash atomicity** from any `ReachX` call boundary, EVERY crash point -/
theorem C02_usable_crash_atomic (g : Geom) (hB : g.B ≤ 65542) (cap : Nat) (l : Log) (img : Image)
    (b : BufSt) (h : ReachX g cap l img b) (hb : b.pend = []) (c : Call) (tick : Bool)
    (order : List Bytes) (hfits : ∀ j ∈ l.stepJ g c order, C07.WF j.e)
    (htorn : C02A.TornStep g l c tick order) (k cut : Nat) (policy' : Policy) (order' : List Bytes) :
    ∃ rec, recover g (crashImage img (toOsOps cap b (l.step g c tick order).2.2).2 k cut) policy' order' none = .ok rec ∧
      (AbsEq rec.log.queues l.queues ∨ AbsEq rec.log.queues (l.step g c tick order).1.queues) := by
  obtain ⟨⟨J, hc, hw⟩, st, hinv, hclean⟩ := reachX_inv g hB cap h
  rw [flushDisk_of_empty img b hb] at hc
  obtain ⟨st', hrun, _⟩ := C14.step_Disc g l c tick order st hclean
  have hX := crash_cut cap _ b st st' img hinv hrun k cut
  rw [pendW_nil b hb, List.nil_append] at hX
  have hfits' : ∀ j ∈ J ++ l.stepJ g c order, C07.WF j.e := by
    intro j hj
    rcases List.mem_append.mp hj with hj | hj
    · exact hw j hj
    · exact hfits j hj
  obtain ⟨lp, e0, io, hrec, hq⟩ := (call_cutX g hB hc c tick order hfits' htorn false _
    (CutW.of_cutState hX)).xres policy'
  obtain ⟨r, hr, hrq⟩ := recover_of_pre g _ policy' order' lp e0 io hrec
  exact ⟨r, hr, by rw [hrq]; exact hq⟩

/-- **(b′) second crash**: EVERY crash point of `open` itself on a `ReachX` state -/
theorem C02_usable_second_crash (g : Geom) (hB : g.B ≤ 65542) (cap : Nat) (l : Log) (img : Image)
    (b : BufSt) (h : ReachX g cap l img b) (policy : Policy) (order : List Bytes) (lp0 : Log)
    (e00 : List Effect) (io0 : Nat) (r0 : Recovered)
    (hpre0 : recoverPre g (flushDisk img b) policy none = .ok (lp0, e00, io0))
    (hrec0 : recover g (flushDisk img b) policy order none = .ok r0)
    (hgw0 : ∀ j ∈ lp0.gcJ g order, C07.WF j.e) (htorn : TornEffs r0.effects)
    (k cut : Nat) (policy' : Policy) (order' : List Bytes) :
    ∃ rec', recover g (crashImage (flushDisk img b) (toOsOps cap {} r0.effects).2 k cut)
        policy' order' none = .ok rec' ∧ AbsEq rec'.log.queues l.queues := by
  obtain ⟨⟨J, hc, hw⟩, _⟩ := reachX_inv g hB cap h
  obtain ⟨hab, ⟨st', hrun⟩, hcut⟩ := recover_boundary g hB hc hw policy order lp0 e00 io0 r0 hpre0 hrec0 hgw0 htorn
  have hX := crash_cut cap _ {} none st' (flushDisk img b) (Buf.inv_empty cap none) hrun k cut
  have hn : pendW ({} : BufSt) = [] := rfl
  rw [hn, List.nil_append] at hX
  obtain ⟨lp, e0, io, hrec, hq⟩ := (hcut false _ (CutW.of_cutState hX)).xres policy'
  obtain ⟨r, hr, hrq⟩ := recover_of_pre g _ policy' order' lp e0 io hrec
  exact ⟨r, hr, by rw [hrq]; exact (hq.elim id id).trans hab⟩

/-- **(c) the C05 refinement keeps applying** -/
theorem C02_usable_refines (g : Geom) (hB : g.B ≤ 65542) (cap : Nat) (l : Log) (img : Image) (b : BufSt)
    (h : ReachX g cap l img b) (c : Call) (tick : Bool) (order : List Bytes) :
    C05.Inv l ∧ (l.step g c tick order).1.abs = (Spec.step l.abs c).1 ∧
      (l.step g c tick order).2.1.logical = (Spec.step l.abs c).2 ∧ C05.Inv (l.step g c tick order).1 := by
  obtain ⟨⟨J, hc, _⟩, _⟩ := reachX_inv g hB cap h
  exact ⟨hc.jinv.h.inv, C05_refines g l hc.jinv.h.inv c tick order⟩

/-- **`crash_cinvx`, EVERY crash point**: from any `ReachX` call boundary, whatever the number `k` of
    OS operations done and the byte `cut` at which operation `k` was cut, the recovered log with the
    disk and buffer after the effects of `recover` satisfies the relaxed invariant, and has the
    abstract state before or after the call -/
theorem crash_cinvx (g : Geom) (hB : g.B ≤ 65542) (cap : Nat) (l : Log) (img : Image) (b : BufSt)
    (h : ReachX g cap l img b) (hb : b.pend = []) (c : Call) (tick : Bool) (order : List Bytes)
    (hfits : ∀ j ∈ l.stepJ g c order, C07.WF j.e) (htorn : C02A.TornStep g l c tick order) (k cut : Nat)
    (policy' : Policy) (order' : List Bytes) (lp : Log) (e0 : List Effect) (io : Nat) (rec : Recovered)
    (hpre : recoverPre g (crashImage img (toOsOps cap b (l.step g c tick order).2.2).2 k cut) policy' none =
      .ok (lp, e0, io))
    (hrec : recover g (crashImage img (toOsOps cap b (l.step g c tick order).2.2).2 k cut) policy' order' none =
      .ok rec)
    (hgw : ∀ j ∈ lp.gcJ g order', C07.WF j.e) :
    (∃ J', CInvX g rec.log J'
        (flushDisk (applyOsOps (crashImage img (toOsOps cap b (l.step g c tick order).2.2).2 k cut)
          (toOsOps cap {} rec.effects).2) (toOsOps cap {} rec.effects).1) ∧ ∀ j ∈ J', C07.WF j.e) ∧
      BufOK cap rec.log (toOsOps cap {} rec.effects).1 ∧
      (AbsEq rec.log.queues l.queues ∨ AbsEq rec.log.queues (l.step g c tick order).1.queues) := by
  obtain ⟨⟨J, hc, hw⟩, st, hinv, hclean⟩ := reachX_inv g hB cap h
  rw [flushDisk_of_empty img b hb] at hc
  obtain ⟨st', hrun, _⟩ := C14.step_Disc g l c tick order st hclean
  have hcut := crash_cut cap _ b st st' img hinv hrun k cut
  rw [pendW_nil b hb, List.nil_append] at hcut
  have hfits' : ∀ j ∈ J ++ l.stepJ g c order, C07.WF j.e := by
    intro j hj
    rcases List.mem_append.mp hj with hj | hj
    · exact hw j hj
    · exact hfits j hj
  have hres := call_cutX g hB hc c tick order hfits' htorn false _ (CutW.of_cutState hcut)
  obtain ⟨hx, hq⟩ := after_xinvres g cap hres policy' order' lp e0 io rec hpre hrec hgw
  exact ⟨hx.inv, hx.buf, hq⟩

/-- `crash_cinvx` at the crash points lying at an effect boundary (kept from the previous delivery;
    now a special case of `crash_cinvx`) -/
theorem crash_cinvx_partial (g : Geom) (hB : g.B ≤ 65542) (cap : Nat) (l : Log) (img : Image) (b : BufSt)
    (h : ReachX g cap l img b) (hb : b.pend = []) (c : Call) (tick : Bool) (order : List Bytes)
    (hfits : ∀ j ∈ l.stepJ g c order, C07.WF j.e) (htorn : C02A.TornStep g l c tick order) (k cut : Nat)
    (_hbd : AtBoundary img (l.step g c tick order).2.2
      (crashImage img (toOsOps cap b (l.step g c tick order).2.2).2 k cut))
    (policy' : Policy) (order' : List Bytes) (lp : Log) (e0 : List Effect) (io : Nat) (rec : Recovered)
    (hpre : recoverPre g (crashImage img (toOsOps cap b (l.step g c tick order).2.2).2 k cut) policy' none =
      .ok (lp, e0, io))
    (hrec : recover g (crashImage img (toOsOps cap b (l.step g c tick order).2.2).2 k cut) policy' order' none =
      .ok rec)
    (hgw : ∀ j ∈ lp.gcJ g order', C07.WF j.e) :
    (∃ J', CInvX g rec.log J'
        (flushDisk (applyOsOps (crashImage img (toOsOps cap b (l.step g c tick order).2.2).2 k cut)
          (toOsOps cap {} rec.effects).2) (toOsOps cap {} rec.effects).1) ∧ ∀ j ∈ J', C07.WF j.e) ∧
      BufOK cap rec.log (toOsOps cap {} rec.effects).1 ∧
      (AbsEq rec.log.queues l.queues ∨ AbsEq rec.log.queues (l.step g c tick order).1.queues) :=
  crash_cinvx g hB cap l img b h hb c tick order hfits htorn k cut policy' order' lp e0 io rec hpre hrec hgw

/-! ### which crash points lie at effect boundaries -/

theorem crashImage_full_write (img : Image) (ops : List OsOp) (k cut f off : Nat) (d : Bytes)
    (h : ops[k]? = some (.write f off d)) (hc : d.length ≤ cut) :
    crashImage img ops k cut = applyOsOps img (ops.take (k + 1)) := by
  have hk : k < ops.length := by
    rcases Nat.lt_or_ge k ops.length with h1 | h1
    · exact h1
    · rw [List.getElem?_eq_none h1] at h; cases h
  have ht : ops.take (k + 1) = ops.take k ++ [OsOp.write f off d] := by
    rw [List.take_succ, h]; rfl
  simp only [crashImage, h]
  rw [ht, applyOsOps_append, List.take_of_length_le hc]
  rfl

theorem crashImage_nonwrite (img : Image) (ops : List OsOp) (k cut : Nat)
    (h : ∀ f off d, ops[k]? ≠ some (.write f off d)) :
    crashImage img ops k cut = applyOsOps img (ops.take k) := by
  unfold crashImage
  split
  · rename_i f off d hw; exact absurd hw (h f off d)
  · rfl

/-- the image after any whole number of OS operations of a call lies at an effect boundary:
    every crash point (k, cut) where operation `k` is not a write, or is a write of at most `cut`
    bytes, is covered by `crash_cinvx_partial` / `ReachX.crash` -/
theorem op_boundaries_covered (g : Geom) (hB : g.B ≤ 65542) (cap : Nat) (l : Log) (img : Image) (b : BufSt)
    (h : ReachX g cap l img b) (hb : b.pend = []) (c : Call) (tick : Bool) (order : List Bytes) (k : Nat) :
    AtBoundary img (l.step g c tick order).2.2
      (applyOsOps img ((toOsOps cap b (l.step g c tick order).2.2).2.take k)) := by
  obtain ⟨_, st, hinv, hclean⟩ := reachX_inv g hB cap h
  obtain ⟨st', hrun, _⟩ := C14.step_Disc g l c tick order st hclean
  obtain ⟨n, hn⟩ := op_boundary cap _ b st st' img hinv hrun k
  rw [pendW_nil b hb, List.nil_append] at hn
  exact ⟨n, hn⟩

/-- after a crash at ANY point the recovered state is `ReachX` again: (a), (b), (c) apply to it and to
    everything that follows -/
theorem C02_usable_reach_all (g : Geom) (cap : Nat) (l : Log) (img : Image) (b : BufSt)
    (h : ReachX g cap l img b) (hb : b.pend = []) (c : Call) (tick : Bool) (order : List Bytes)
    (hfits : ∀ j ∈ l.stepJ g c order, C07.WF j.e) (htorn : C02A.TornStep g l c tick order) (k cut : Nat)
    (policy' : Policy) (order' : List Bytes) (lp : Log) (e0 : List Effect) (io : Nat) (rec : Recovered)
    (hpre : recoverPre g (crashImage img (toOsOps cap b (l.step g c tick order).2.2).2 k cut) policy' none =
      .ok (lp, e0, io))
    (hrec : recover g (crashImage img (toOsOps cap b (l.step g c tick order).2.2).2 k cut) policy' order' none =
      .ok rec)
    (hgw : ∀ j ∈ lp.gcJ g order', C07.WF j.e) :
    ReachX g cap rec.log
      (applyOsOps (crashImage img (toOsOps cap b (l.step g c tick order).2.2).2 k cut)
        (toOsOps cap {} rec.effects).2) (toOsOps cap {} rec.effects).1 :=
  ReachX.crash c tick order k cut _ policy' order' lp e0 io rec h hb hfits htorn rfl hpre hrec hgw

/-- the same at the crash points lying at an effect boundary (kept from the previous delivery) -/
theorem C02_usable_reach (g : Geom) (cap : Nat) (l : Log) (img : Image) (b : BufSt)
    (h : ReachX g cap l img b) (hb : b.pend = []) (c : Call) (tick : Bool) (order : List Bytes)
    (hfits : ∀ j ∈ l.stepJ g c order, C07.WF j.e) (htorn : C02A.TornStep g l c tick order) (k cut : Nat)
    (_hbd : AtBoundary img (l.step g c tick order).2.2
      (crashImage img (toOsOps cap b (l.step g c tick order).2.2).2 k cut))
    (policy' : Policy) (order' : List Bytes) (lp : Log) (e0 : List Effect) (io : Nat) (rec : Recovered)
    (hpre : recoverPre g (crashImage img (toOsOps cap b (l.step g c tick order).2.2).2 k cut) policy' none =
      .ok (lp, e0, io))
    (hrec : recover g (crashImage img (toOsOps cap b (l.step g c tick order).2.2).2 k cut) policy' order' none =
      .ok rec)
    (hgw : ∀ j ∈ lp.gcJ g order', C07.WF j.e) :
    ReachX g cap rec.log
      (applyOsOps (crashImage img (toOsOps cap b (l.step g c tick order).2.2).2 k cut)
        (toOsOps cap {} rec.effects).2) (toOsOps cap {} rec.effects).1 :=
  C02_usable_reach_all g cap l img b h hb c tick order hfits htorn k cut policy' order' lp e0 io rec hpre hrec hgw

/-- **C02, usability**: at EVERY crash point of a call from a `ReachX` boundary `recover`
    succeeds and the recovered log behaves exactly as the log `lref` — the log before the call or
    the log after it — that never crashed: same logical outcomes for any further calls, whatever
    the oracles, and equal abstract states at the end -/
theorem C02_usable (g : Geom) (hB : g.B ≤ 65542) (cap : Nat) (l : Log) (img : Image) (b : BufSt)
    (h : ReachX g cap l img b) (hb : b.pend = []) (c : Call) (tick : Bool) (order : List Bytes)
    (hfits : ∀ j ∈ l.stepJ g c order, C07.WF j.e) (htorn : C02A.TornStep g l c tick order) (k cut : Nat)
    (policy' : Policy) (order' : List Bytes) :
    ∃ rec lref, recover g (crashImage img (toOsOps cap b (l.step g c tick order).2.2).2 k cut) policy' order' none = .ok rec ∧
      (lref = l ∨ lref = (l.step g c tick order).1) ∧ AbsEq rec.log.queues lref.queues ∧
      ∀ cs1 cs2, SameCalls cs1 cs2 →
        (runL g rec.log cs1).2 = (runL g lref cs2).2 ∧
        AbsEq (runL g rec.log cs1).1.queues (runL g lref cs2).1.queues := by
  obtain ⟨rec, hrec, hq⟩ := C02_usable_crash_atomic g hB cap l img b h hb c tick order hfits htorn k cut policy' order'
  have hIl : C05.Inv l := (C02_usable_refines g hB cap l img b h c tick order).1
  have hIl' : C05.Inv (l.step g c tick order).1 := (C02_usable_refines g hB cap l img b h c tick order).2.2.2
  have hIr : C05.Inv rec.log := C08.recover_sorted g _ policy' order' none rec hrec
  rcases hq with hq | hq
  · refine ⟨rec, l, hrec, Or.inl rfl, hq, fun cs1 cs2 hs => ?_⟩
    obtain ⟨a1, a2, _, _⟩ := absEq_run g cs1 cs2 hs hIr hIl hq
    exact ⟨a1, a2⟩
  · refine ⟨rec, _, hrec, Or.inr rfl, hq, fun cs1 cs2 hs => ?_⟩
    obtain ⟨a1, a2, _, _⟩ := absEq_run g cs1 cs2 hs hIr hIl' hq
    exact ⟨a1, a2⟩

end MRL.C02U
