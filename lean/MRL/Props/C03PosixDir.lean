/-
C03 under power loss with a LAZY DIRECTORY: unlinks that stay volatile beyond their call.

MODEL (`MRL/Model/PowerLossDir.lean`, executable). `powerImageD img ops u`: as `powerImage`, but of
the unlinks issued since the last `fsync(dir)` only the first `u` (program order) are durable; the
others are undone — the file reappears, with its last-`fsync`ed content fitted to the length it had
when it was unlinked. Directory operations persist in order; creations since the last `fsync(dir)`
are dropped as before. `powerImageD_all`: with `u ≥` the number of pending unlinks it is `powerImage`.

FULL STATEMENT (as posed): `C03PX.C03_posix_reachX` with `powerImageD … u` for every `u`.

PROVED, `C03_posix_dir_partial`: exactly that, for EVERY `u` and every instant `k`, under ONE
additional hypothesis on the instant: `lateSync img (opsP.take k) = false` — no `fsync(file)` has made
NEW content durable while an unlink was not yet covered by an `fsync(dir)` (`lateSync` is computed by
the model: `DState.hard`). Since in the code every `fsync(file)` is immediately followed by
`fsync(dir)` (`persist`, roll-over), the excluded instants are exactly: the power is lost BETWEEN the
`fsync(file)` and the `fsync(dir)` of a `flush, fsync(file), fsync(dir)` that makes appends durable
which were issued AFTER a GC pass whose unlinks no `fsync(dir)` has covered yet (a GC pass in
`truncate` under a policy that does not fsync, or the GC pass of `open`, followed by appends, then a
persist; and the power lost within that persist). Everything else is covered: the window between
the unlinks and the `fsync(dir)` of the same call, later calls that only write, restarts in between,
any number of pending unlinks, any `u`.

WHY IT HOLDS (`PD.powerD_prefix`, `PD.power_reductionD`). Unlinks are issued only when everything is
durable (`PX.pd`), and nothing issued after them is durable before the next `fsync(file)`. So as long
as `lateSync = false` the image with `u` durable unlinks is the volatile image at the instant of the
`u`-th pending unlink — an effect-boundary image of the ordered-persistence model (a between-unlinks
crash point of C02A) at or after the promise point; `PX.runX_cut` concludes. An undone unlink just
moves the instant back (`PD.putFile_filter`: putting the file back into the sorted listing gives the
listing before the unlink).

WHAT IS MISSING for the full statement: at the excluded instants the image holds, side by side,
files older than every tracked file (their unlink is not durable) AND appends issued after those
unlinks (made durable by the `fsync(file)`). It is no cut state of the ordered model. Recovery from
it reads the old files first (entries that no live queue needs: `H.rep_at`) and then the tape as it
is; proving that needs the crash analysis for a log that still tracks the leftover files while the
real log — which issues the effects, and may have been re-read by a restart in between — does not
(the simulation of the two logs through `writeBuf`/`writeEntry`/`open`). No failure is expected: an
exhaustive `#eval` on a history with three GC passes, a restart and roll-overs (`g = ⟨16, 2⟩`, every
instant with pending unlinks, every `u`, the excluded instants included) recovers every time to a
state at or after the promise point.
-/
import MRL.Proofs.PDRun
import MRL.Props.C03PosixX

namespace MRL.C03PD
open MRL Log C05 C01J G H L K Buf Codec P PX PD

abbrev AbsEq := H.AbsEq

/-- all the pending unlinks durable: the model of `PowerLoss.lean` -/
theorem powerImageD_all (img : Image) (ops : List OsOpP) (u : Nat) (h : pendingUnlinks img ops ≤ u) :
    powerImageD img ops u = powerImage img ops := by
  unfold powerImageD powerImage DState.image pendingUnlinks at *
  rw [List.drop_of_length_le h]
  simp only [List.foldr_nil]
  rw [prunD_s]
  rfl

/-- the common core: from any state satisfying the relaxed invariant -/
theorem C03_posix_dir_cinvx (g : Geom) (hB : g.B ≤ 65542) (cap : Nat) (l : Log) (J : List JE) (D : Image)
    (b : BufSt) (hc : CInvX g l J D) (hwJ : ∀ j ∈ J, C07.WF j.e) (hb : b.pend = []) (evs : List Ev)
    (hfits : ∀ j ∈ jourX g l D evs, C07.WF j.e) (htorn : TornEffs (effsX g l D evs))
    (m : Nat) (hm : m ≤ evs.length) (pre : List Effect) (f : Nat)
    (htail : effsX g l D (evs.take m) = pre ++ [.flush, .fsyncFile f, .fsyncDir])
    (k : Nat) (hk : (toOsOpsP cap b (effsX g l D (evs.take m))).2.length ≤ k)
    (hns : lateSync D ((toOsOpsP cap b (effsX g l D evs)).2.take k) = false) (u : Nat)
    (policy' : Policy) (order' : List Bytes) :
    ∃ rec i, m ≤ i ∧ i ≤ evs.length ∧
      recover g (powerImageD D ((toOsOpsP cap b (effsX g l D evs)).2.take k) u) policy' order' none = .ok rec ∧
      AbsEq rec.log.queues (logX g l D (evs.take i)).queues := by
  obtain ⟨p, hred⟩ := power_reductionD g hB cap l J D b hc hwJ hb evs hfits htorn m pre f htail k hk hns u
  have hsplit : evs = evs.take m ++ evs.drop m := (List.take_append_drop m evs).symm
  have heffs : effsX g l D evs = effsX g l D (evs.take m) ++
      effsX g (logX g l D (evs.take m)) (diskXs g l D (evs.take m)) (evs.drop m) := by
    conv => lhs; rw [hsplit]
    exact effsX_append g _ _ l D
  have hjour : jourX g l D evs = jourX g l D (evs.take m) ++
      jourX g (logX g l D (evs.take m)) (diskXs g l D (evs.take m)) (evs.drop m) := by
    conv => lhs; rw [hsplit]
    exact jourX_append g _ _ l D
  obtain ⟨⟨Jm, hcm, hwm⟩, _, _⟩ := runX_inv g hB (evs.take m) hc hwJ
    (fun j hj => hfits j (by rw [hjour]; exact List.mem_append_left _ hj))
    (torn_left (by rw [← heffs]; exact htorn))
  obtain ⟨i, _, lp, e0, io, hi, hrec, _, hq⟩ := runX_cut g hB (evs.drop m) hcm hwm
    (fun j hj => hfits j (by rw [hjour]; exact List.mem_append_right _ hj))
    (torn_right (by rw [← heffs]; exact htorn)) false _ (L.CutW.of_take false _ p _) policy'
  obtain ⟨r, hr, hrq⟩ := recover_of_pre g _ policy' order' lp e0 io hrec
  refine ⟨r, m + i, Nat.le_add_right _ _, ?_, by rw [hred]; exact hr, ?_⟩
  · simp at hi; omega
  · rw [hrq]
    have : evs.take (m + i) = evs.take m ++ (evs.drop m).take i := List.take_add
    rw [this, logX_append]
    exact hq

/-- **C03 under power loss with a lazy directory** (every `u`; every instant at which no
    `fsync(file)` has made new content durable while unlinks were pending) -/
theorem C03_posix_dir_partial (g : Geom) (hB : g.B ≤ 65542) (cap : Nat) (l : Log) (img : Image) (b : BufSt)
    (h : C02U.ReachX g cap l img b) (hb : b.pend = []) (evs : List Ev)
    (hfits : ∀ j ∈ jourX g l img evs, C07.WF j.e) (htorn : TornEffs (effsX g l img evs))
    (m : Nat) (hm : m ≤ evs.length) (pre : List Effect) (f : Nat)
    (htail : effsX g l img (evs.take m) = pre ++ [.flush, .fsyncFile f, .fsyncDir])
    (k : Nat) (hk : (toOsOpsP cap b (effsX g l img (evs.take m))).2.length ≤ k)
    (hns : lateSync img ((toOsOpsP cap b (effsX g l img evs)).2.take k) = false) (u : Nat)
    (policy' : Policy) (order' : List Bytes) :
    ∃ rec i, m ≤ i ∧ i ≤ evs.length ∧
      recover g (powerImageD img ((toOsOpsP cap b (effsX g l img evs)).2.take k) u) policy' order' none = .ok rec ∧
      AbsEq rec.log.queues (logX g l img (evs.take i)).queues := by
  obtain ⟨⟨J, hc, hw⟩, _⟩ := C02U.reachX_inv g hB cap h
  rw [C02U.flushDisk_of_empty img b hb] at hc
  exact C03_posix_dir_cinvx g hB cap l J img b hc hw hb evs hfits htorn m hm pre f htail k hk hns u policy' order'

/-- the reduction behind it, exported: the image is an effect-boundary image of the ordered model -/
theorem powerImageD_is_cut (g : Geom) (hB : g.B ≤ 65542) (cap : Nat) (l : Log) (img : Image) (b : BufSt)
    (h : C02U.ReachX g cap l img b) (hb : b.pend = []) (evs : List Ev)
    (hfits : ∀ j ∈ jourX g l img evs, C07.WF j.e) (htorn : TornEffs (effsX g l img evs))
    (m : Nat) (pre : List Effect) (f : Nat)
    (htail : effsX g l img (evs.take m) = pre ++ [.flush, .fsyncFile f, .fsyncDir])
    (k : Nat) (hk : (toOsOpsP cap b (effsX g l img (evs.take m))).2.length ≤ k)
    (hns : lateSync img ((toOsOpsP cap b (effsX g l img evs)).2.take k) = false) (u : Nat) :
    ∃ p, powerImageD img ((toOsOpsP cap b (effsX g l img evs)).2.take k) u =
      applyOsOps (diskXs g l img (evs.take m))
        (directOps ((effsX g (logX g l img (evs.take m)) (diskXs g l img (evs.take m)) (evs.drop m)).take p)) := by
  obtain ⟨⟨J, hc, hw⟩, _⟩ := C02U.reachX_inv g hB cap h
  rw [C02U.flushDisk_of_empty img b hb] at hc
  exact power_reductionD g hB cap l J img b hc hw hb evs hfits htorn m pre f htail k hk hns u

end MRL.C03PD
