/-
C08 (second half, byte level) — whatever bytes of the WAL are overwritten in place, a successful
open never returns an entry (hence a record) that was not written, up to a CRC-32 collision.

Setting of C07/C09: entries `es` written from cursor `c`; `fs := Torn.framesOf g c hc es` the
frames; `W := zeros c ++ bufs.flatten ++ zeros z` the clean stream (whole blocks). `W'` is ANY
byte string of the same length. `locs g c fs` lists the frames with the absolute offset of their
headers in `W` (`genuine_location`: `encodeFrame t p` is there in `W`).

`NoAccidentalFrame` is the precise content of "up to a CRC-32 collision". It is about LOCATIONS,
because the checksum does not cover the length field (after a damaged length the reader is
desynchronised and parses whatever follows — the inside of user payloads included — as frame
headers) and because frames carry no binding to their location: at every block `k` and cursor `x`
where the reader's acceptance test passes on `W'` (`Gen.Accepts`: header not all zero, type byte
decodes to `t`, `x + 7 + len ≤ g.B`, stored checksum = `frameCrc t p'`), the clean stream has a
genuine frame `(t, p')` of the layout starting exactly there.

* `C08_genuine_entries`: reading `W'` (the pipeline of `C07_roundtrip`) succeeds and the entries
  delivered form a SUB-SEQUENCE of `es` (`List.Sublist`): each is a written entry, in order,
  without duplicates, nothing invented. (`g.B ≤ 65542` is not needed for this direction.)
* `C08_genuine_records`: for API-level entries (`es = entries.map Entry.encode`, each decoding
  back — `C07.decode_encode` for `C07.WF` entries), every record of every queue after a successful
  `replay` of what was read is `(queue, position, payload)` of an `append` entry of `entries`.
* `negative_example`: the hypothesis is needed. Overwriting the second block of a two-block entry
  with a copy of the second block of ANOTHER entry (valid frames, valid checksums) makes the
  reader deliver bytes that are in no entry. Finding about the code: frames carry no location or
  sequence binding.

Proof machinery: MRL/Proofs/Gen*.lean.
-/
import MRL.Proofs.GenStream
import MRL.Props.C09
import MRL.Props.C08

namespace MRL.C08G
open MRL Consts Codec Torn Gen

/-- the frames of the layout of `es` with the absolute offsets of their headers in the stream -/
noncomputable def genuineLocs (g : Geom) (c : Nat) (hc : c < g.B) (es : List Bytes) : List (Nat × Frm) :=
  locs g c (framesOf g c hc es)

/-- a located frame is in the clean stream at its location -/
theorem genuine_location (g : Geom) (c : Nat) (hc : c < g.B) (es : List Bytes) (z : Nat)
    (q : Nat) (t : FrameType) (p : Bytes) (h : (q, (t, p)) ∈ genuineLocs g c hc es) :
    ((zeros c ++ (C07.writeEntriesBufs g c hc es).flatten ++ zeros z).drop q).take (7 + p.length) =
      encodeFrame t p := by
  obtain ⟨h1, _, h3⟩ := framesOf_spec g es c hc
  have hm : c % g.B = c := Nat.mod_eq_of_lt hc
  have := locs_in_stream g (framesOf g c hc es) c (zeros c) (zeros z) (length_zeros c) (by rw [hm]; exact h3) _ h
  rw [hm, ← h1] at this
  exact this

/-- **the collision clause**: wherever the reader's acceptance test passes on `W'`, the layout has
    that very frame (type and payload) at that very location -/
def NoAccidentalFrame (g : Geom) (c : Nat) (hc : c < g.B) (es : List Bytes) (W' : Bytes) : Prop :=
  ∀ k x t p, Accepts g W' k x t p → (k * g.B + x, (t, p)) ∈ genuineLocs g c hc es

/-- **C08_genuine_entries.** -/
theorem C08_genuine_entries (g : Geom) (c : Nat) (hc : c < g.B) (es : List Bytes) (file z : Nat) (hz : 7 ≤ z)
    (W' : Bytes) (hN : NoAccidentalFrame g c hc es W') :
    let W := zeros c ++ (C07.writeEntriesBufs g c hc es).flatten ++ zeros z
    W.length % g.B = 0 → W'.length = W.length →
    ∃ b0 rest evs e io,
      fileBlocks g file W' 1 0 (W'.length / g.B) = b0 :: rest ∧
      scanBlocks g none 1 0 b0 c rest = some (evs, e, io) ∧
      List.Sublist (entriesOf (assemble { within := false, buf := [], attr := file } evs))
        (es.map (RecEv.entry file)) ∧
      ∀ a bytes, RecEv.entry a bytes ∈ assemble { within := false, buf := [], attr := file } evs →
        a = file ∧ bytes ∈ es := by
  intro W hmod hsame
  obtain ⟨n, hn⟩ := C02.whole_blocks g W' (by rw [hsame]; exact hmod) (by rw [hsame]; simp [W]; omega)
  obtain ⟨b0, rest, io, hfb, hsb⟩ := pipeline g file W' c n hn
  have hL := located_locs g (framesOf g c hc es) c
  have htr := trace_blocks g file _ hL W' hN n 0 c (by simpa using hn) (Nat.le_of_lt hc) false (fun h => by cases h)
  simp only [Nat.zero_mul, List.drop_zero, Nat.zero_add] at htr
  have hall : ahead (locs g c (framesOf g c hc es)) c = locs g c (framesOf g c hc es) := by
    unfold ahead
    rw [List.filter_eq_self]
    intro y hy
    have h1 := locs_ge g _ c y hy
    have h2 := G.le_hdrPos g c
    simp; omega
  rw [hall, locs_snd] at htr
  have hsub := asm_trace_init file es _ (framesOf_spec g es c hc).2.1 false _ htr
  refine ⟨b0, rest, _, _, io, hfb, hsb, hsub, ?_⟩
  intro a bytes hmem
  have h1 : RecEv.entry a bytes ∈ entriesOf (assemble { within := false, buf := [], attr := file }
      (readFrom g file W' 0 n c).1) := by
    unfold entriesOf; rw [List.mem_filter]; exact ⟨hmem, rfl⟩
  have h2 := hsub.subset h1
  simp only [List.mem_map, RecEv.entry.injEq] at h2
  obtain ⟨b, hb, rfl, rfl⟩ := h2
  exact ⟨rfl, hb⟩

/-- what `replay` acts on: a sub-sequence of the API-level entries -/
theorem delivered_decoded (file : Nat) (entries : List Entry)
    (hdec : ∀ e ∈ entries, Entry.decode e.encode = some e) (recEvs : List RecEv)
    (hsub : List.Sublist (entriesOf recEvs) ((entries.map Entry.encode).map (RecEv.entry file))) :
    ∃ l', List.Sublist l' entries ∧ Rec.decoded recEvs = l'.map fun e => (file, e) := by
  rw [List.map_map] at hsub
  obtain ⟨l', hl, he⟩ := List.sublist_map_iff.mp hsub
  refine ⟨l', hl, ?_⟩
  rw [← decoded_entriesOf, he]
  exact decoded_encoded file l' (fun e he => hdec e (hl.subset he))

/-- **C08_genuine_records.** -/
theorem C08_genuine_records (g : Geom) (c : Nat) (hc : c < g.B) (entries : List Entry)
    (hwf : ∀ e ∈ entries, C07.WF e) (file z : Nat) (hz : 7 ≤ z) (W' : Bytes)
    (hN : NoAccidentalFrame g c hc (entries.map Entry.encode) W') :
    let es := entries.map Entry.encode
    let W := zeros c ++ (C07.writeEntriesBufs g c hc es).flatten ++ zeros z
    W.length % g.B = 0 → W'.length = W.length →
    ∃ b0 rest evs e io,
      fileBlocks g file W' 1 0 (W'.length / g.B) = b0 :: rest ∧
      scanBlocks g none 1 0 b0 c rest = some (evs, e, io) ∧
      (∃ l', List.Sublist l' entries ∧
        Rec.decoded (assemble { within := false, buf := [], attr := file } evs) = l'.map fun e => (file, e)) ∧
      ∀ qs, replay [] (assemble { within := false, buf := [], attr := file } evs) = some qs →
        ∀ kv ∈ qs, ∀ rec ∈ kv.2.recs,
          (kv.1, rec.pos, rec.payload) ∈ Rec.recordsOf (entries.map fun e => (file, e)) := by
  intro es W hmod hsame
  obtain ⟨b0, rest, evs, e, io, h1, h2, h3, _⟩ := C08_genuine_entries g c hc es file z hz W' hN hmod hsame
  obtain ⟨l', hl, hd⟩ := delivered_decoded file entries (fun e he => C07.decode_encode e (hwf e he)) _ h3
  refine ⟨b0, rest, evs, e, io, h1, h2, ⟨l', hl, hd⟩, ?_⟩
  intro qs hq kv hkv rec hrec
  rw [Rec.replay_eq, hd] at hq
  have := C08.replay_records_subset _ qs hq kv hkv rec hrec
  exact recordsOf_sublist (hl.map _) _ this

/-! ### non-vacuity on `g.B = 16`

The two entries of the C02/C09 example: frames at offsets 0 (Full `[1, 2]`), 9 (empty First),
16 (Middle), 32 (Last); clean stream `exW` (64 bytes). `NoAccidentalFrame` is checked location by
location (`Gen.checkAll`: 4 blocks × 10 cursors, by kernel evaluation, checksums included). -/

open C02 in
def exLocs : List (Nat × Frm) :=
  [(0, (.full, [1, 2])), (9, (.first, [])), (16, (.middle, [3, 0, 0, 0, 0, 0, 0, 0, 0])), (32, (.last, [0, 0, 4]))]

open C02 in
theorem exGenuineLocs : genuineLocs g16 0 (by decide) exEs = exLocs := by
  unfold genuineLocs
  rw [C09.exFrames]
  decide

/-- the clean stream of the example, byte by byte -/
def exW : Bytes :=
  [72, 227, 150, 9, 2, 0, 1, 1, 2, 161, 142, 12, 60, 0, 0, 2, 176, 239, 48, 49, 9, 0, 3, 3, 0, 0, 0, 0, 0, 0, 0, 0, 82,
   140, 75, 169, 3, 0, 4, 0, 0, 4, 0, 0, 0, 0, 0, 0, 0, 0, 0, 0, 0, 0, 0, 0, 0, 0, 0, 0, 0, 0, 0, 0]

open C02 in
set_option maxRecDepth 100000 in
theorem exW_eq : zeros 0 ++ (C07.writeEntriesBufs g16 0 (by decide) exEs).flatten ++ zeros 22 = exW := by
  rw [exBufs]
  decide

/-- (a) one payload byte of the Full frame changed (offset 8: `2 ↦ 9`) -/
def exWa : Bytes := exW.set 8 9
/-- (b) the length field of the Middle frame zeroed (offsets 20, 21): the reader is desynchronised
    inside block 1, parses payload bytes as a header, gives the block up -/
def exWb : Bytes := (exW.set 20 0).set 21 0

set_option maxRecDepth 100000 in
theorem exCheck : checkAll C02.g16 exLocs exWa 4 = true ∧ checkAll C02.g16 exLocs exWb 4 = true := by decide

open C02 in
theorem exNoAcc (W' : Bytes) (hl : W'.length = 64) (h : checkAll g16 exLocs W' 4 = true) :
    NoAccidentalFrame g16 0 (by decide) exEs W' := by
  unfold NoAccidentalFrame
  rw [exGenuineLocs]
  exact noAcc_of_check g16 exLocs W' 4 (by rw [hl]; decide) h

open C02 in
/-- (a): every hypothesis discharged. The executable model delivers `[corrupt, entry 5 [3, 0, …, 4]]`:
    the sub-sequence `[es[1]]`. -/
example := C08_genuine_entries g16 0 (by decide) exEs 5 22 (by decide) exWa (exNoAcc exWa rfl exCheck.1)
  (by rw [exW_eq]; decide) (by rw [exW_eq]; decide)

open C02 in
/-- (b): the executable model delivers `[entry 5 [1, 2], corrupt, corrupt]`: the sub-sequence `[es[0]]`. -/
example := C08_genuine_entries g16 0 (by decide) exEs 5 22 (by decide) exWb (exNoAcc exWb rfl exCheck.2)
  (by rw [exW_eq]; decide) (by rw [exW_eq]; decide)

/-! ### the hypothesis is needed: a block replaced by a copy of another valid block

Two 18-byte entries, each a First frame filling one block and a Last frame filling the next.
Block 1 (the Last frame of entry 0) is overwritten with a copy of block 3 (the Last frame of entry
1): every frame of the damaged stream is valid, and the reader delivers `b1 ++ c2`, which is in no
entry. -/

def exEs2 : List Bytes :=
  [[1, 1, 1, 1, 1, 1, 1, 1, 1, 2, 2, 2, 2, 2, 2, 2, 2, 2], [3, 3, 3, 3, 3, 3, 3, 3, 3, 4, 4, 4, 4, 4, 4, 4, 4, 4]]

theorem exBufs2 : C07.writeEntriesBufs C02.g16 0 (by decide) exEs2 =
    [encodeFrame .first [1, 1, 1, 1, 1, 1, 1, 1, 1], encodeFrame .last [2, 2, 2, 2, 2, 2, 2, 2, 2],
     encodeFrame .first [3, 3, 3, 3, 3, 3, 3, 3, 3], encodeFrame .last [4, 4, 4, 4, 4, 4, 4, 4, 4]] := by
  simp [exEs2, C07.writeEntriesBufs, writeEntry, writeEntryBufs, C07.cursorAfter, C02.g16, maxFrameLen,
    frameWrites, frameEndCursor, adv, HEADER_LEN, FrameType.ofFlags, length_encodeFrame]

/-- the frames the damaged stream is made of: all valid, but the second is not where it belongs -/
def exFs2' : List Frm :=
  [(.first, [1, 1, 1, 1, 1, 1, 1, 1, 1]), (.last, [4, 4, 4, 4, 4, 4, 4, 4, 4]),
   (.first, [3, 3, 3, 3, 3, 3, 3, 3, 3]), (.last, [4, 4, 4, 4, 4, 4, 4, 4, 4])]

/-- the damaged stream -/
def exW2' : Bytes := zeros 0 ++ (layoutBufs C02.g16 0 exFs2').flatten ++ zeros 16

open C02 in
set_option maxRecDepth 100000 in
/-- it is the clean stream with block 1 replaced by a copy of block 3 -/
theorem exW2'_is_overwrite :
    let W := zeros 0 ++ (C07.writeEntriesBufs g16 0 (by decide) exEs2).flatten ++ zeros 16
    exW2' = W.take 16 ++ (W.drop 48).take 16 ++ W.drop 32 ∧ exW2'.length = W.length := by
  intro W
  have hW : W = zeros 0 ++ [encodeFrame .first [1, 1, 1, 1, 1, 1, 1, 1, 1], encodeFrame .last [2, 2, 2, 2, 2, 2, 2, 2, 2],
      encodeFrame .first [3, 3, 3, 3, 3, 3, 3, 3, 3], encodeFrame .last [4, 4, 4, 4, 4, 4, 4, 4, 4]].flatten ++ zeros 16 := by
    show zeros 0 ++ (C07.writeEntriesBufs g16 0 (by decide) exEs2).flatten ++ zeros 16 = _
    rw [exBufs2]
  rw [hW]
  decide

open C02 in
/-- **negative example**: a stream of the same length, every frame of which passes the reader's
    test, read without any corruption event, delivering an entry that was never written -/
theorem negative_example :
    ∃ b0 rest evs e io,
      fileBlocks g16 5 exW2' 1 0 (exW2'.length / 16) = b0 :: rest ∧
      scanBlocks g16 none 1 0 b0 0 rest = some (evs, e, io) ∧
      assemble { within := false, buf := [], attr := 5 } evs =
        [.entry 5 [1, 1, 1, 1, 1, 1, 1, 1, 1, 4, 4, 4, 4, 4, 4, 4, 4, 4],
         .entry 5 [3, 3, 3, 3, 3, 3, 3, 3, 3, 4, 4, 4, 4, 4, 4, 4, 4, 4]] ∧
      [1, 1, 1, 1, 1, 1, 1, 1, 1, 4, 4, 4, 4, 4, 4, 4, 4, 4] ∉ exEs2 := by
  have hfits : Fits g16 0 exFs2' := by
    simp [exFs2', Fits, maxFrameLen, frameEndCursor, adv, g16, HEADER_LEN]
  have hlen : exW2'.length = (4 + 1) * g16.B := by
    simp [exW2', exFs2', layoutBufs, frameWrites, frameEndCursor, adv, g16, HEADER_LEN, length_encodeFrame]
  have hdrop : exW2'.drop 0 = (layoutBufs g16 0 exFs2').flatten ++ zeros 16 := by simp [exW2', zeros]
  obtain ⟨e, r1, _, _⟩ := readFrom_layout g16 (by decide) 5 16 (by decide) exFs2' exW2' 0 4 0 (by decide)
    hfits hlen hdrop
  obtain ⟨b0, rest, io, hfb, hsb⟩ := pipeline g16 5 exW2' 0 4 hlen
  rw [r1] at hsb
  exact ⟨b0, rest, _, e, io, hfb, hsb, rfl, by decide⟩

set_option maxRecDepth 100000 in
open C02 in
/-- and indeed `NoAccidentalFrame` fails for it: the reader accepts a `Last [4…]` frame at offset 16,
    where the layout has `Last [2…]` -/
theorem negative_violates : ¬ NoAccidentalFrame g16 0 (by decide) exEs2 exW2' := by
  intro h
  have hacc : Accepts g16 exW2' 1 0 .last [4, 4, 4, 4, 4, 4, 4, 4, 4] := by
    unfold Accepts; decide
  have hmem := h 1 0 _ _ hacc
  have hframes : framesOf g16 0 (by decide) exEs2 =
      [(.first, [1, 1, 1, 1, 1, 1, 1, 1, 1]), (.last, [2, 2, 2, 2, 2, 2, 2, 2, 2]),
       (.first, [3, 3, 3, 3, 3, 3, 3, 3, 3]), (.last, [4, 4, 4, 4, 4, 4, 4, 4, 4])] := by
    apply C09.layoutBufs_inj g16 _ _ 0
    rw [← (framesOf_spec g16 exEs2 0 (by decide)).1, exBufs2]
    simp [layoutBufs, frameWrites, frameEndCursor, adv, g16, HEADER_LEN]
  unfold genuineLocs at hmem
  rw [hframes] at hmem
  revert hmem
  decide

end MRL.C08G
