/-
C05, implementation level: the in-memory queue as the code stores it — one ring buffer of
concatenated payloads plus per-record start offsets (`MRL/Model/RollingBuffer.lean`) — is
abstracted by the one-payload-per-record `MemQueue` of the log model, for EVERY wrap point of the
ring buffer and every bound shape.
-/
import MRL.Model.RollingBuffer
import MRL.Proofs.RecReplay

namespace MRL.C05I
open MRL MRL.MemQueueI

/-! ### `get_range` over an arbitrary split -/

/-- **`get_range` is slicing of the logical content**, wherever `as_slices` cuts it. -/
theorem getRange_split (left right : Bytes) (start end_ : Nat) (h1 : start ≤ end_) :
    getRange left right start end_ = ((left ++ right).drop start).take (end_ - start) := by
  rw [List.drop_append, List.take_append]
  simp only [List.length_drop]
  unfold getRange
  by_cases ha : end_ < left.length
  · rw [if_pos ha]
    have : end_ - start - (left.length - start) = 0 := by omega
    rw [this, List.take_zero, List.append_nil]
  · rw [if_neg ha]
    by_cases hb : start ≥ left.length
    · rw [if_pos hb]
      have h0 : left.drop start = [] := List.drop_of_length_le hb
      have : end_ - left.length - (start - left.length) = end_ - start := by omega
      simp only [h0, List.take_nil, List.nil_append, this]
      have : left.length - start = 0 := by omega
      rw [this, Nat.sub_zero]
    · rw [if_neg hb]
      have h0 : (left.drop start).take (end_ - start) = left.drop start :=
        List.take_of_length_le (by simp only [List.length_drop]; omega)
      have h3 : start - left.length = 0 := by omega
      have h4 : end_ - start - (left.length - start) = end_ - left.length := by omega
      rw [h0, h3, List.drop_zero, h4]

/-- in terms of the split point of a buffer -/
theorem getRange_buf (buf : Bytes) (split start end_ : Nat) (h1 : start ≤ end_) :
    getRange (buf.take split) (buf.drop split) start end_ = (buf.drop start).take (end_ - start) := by
  have := getRange_split (buf.take split) (buf.drop split) start end_ h1
  rw [List.take_append_drop] at this
  exact this

/-! ### `slots` -/

theorem slots_map_fst (ms : List MetaI) (n : Nat) : (slots ms n).map (·.1) = ms := by
  induction ms with
  | nil => rfl
  | cons m ms ih =>
    cases ms with
    | nil => rfl
    | cons m' rest => simp only [slots, List.map_cons, ih]

theorem slots_length (ms : List MetaI) (n : Nat) : (slots ms n).length = ms.length := by
  rw [← List.length_map (f := (·.1)), slots_map_fst]

theorem slots_snoc (ms : List MetaI) (m : MetaI) (n : Nat) :
    slots (ms ++ [m]) n = slots ms m.startOff ++ [(m, n)] := by
  induction ms with
  | nil => rfl
  | cons a ms ih =>
    cases ms with
    | nil => rfl
    | cons b rest =>
      simp only [List.cons_append, slots] at ih ⊢
      rw [ih]

theorem slots_drop (ms : List MetaI) (n k : Nat) : (slots ms n).drop k = slots (ms.drop k) n := by
  induction k generalizing ms with
  | zero => rfl
  | succ k ih =>
    cases ms with
    | nil => rfl
    | cons m ms =>
      cases ms with
      | nil => simp [slots]
      | cons m' rest => simp only [slots, List.drop_succ_cons]; exact ih (m' :: rest)

theorem slots_getLast? (ms : List MetaI) (n : Nat) : (slots ms n).getLast? = ms.getLast?.map fun m => (m, n) := by
  induction ms with
  | nil => rfl
  | cons m ms ih =>
    cases ms with
    | nil => rfl
    | cons m' rest =>
      simp only [slots]
      cases hs : slots (m' :: rest) n with
      | nil =>
        have := slots_length (m' :: rest) n
        rw [hs] at this; cases this
      | cons s t =>
        rw [List.getLast?_cons_cons, ← hs, List.getLast?_cons_cons]
        exact ih

/-- re-basing the offsets -/
def rebase (off : Nat) (m : MetaI) : MetaI := { m with startOff := m.startOff - off }

theorem slots_rebase (ms : List MetaI) (n off : Nat) :
    slots (ms.map (rebase off)) (n - off) = (slots ms n).map fun s => (rebase off s.1, s.2 - off) := by
  induction ms with
  | nil => rfl
  | cons m ms ih =>
    cases ms with
    | nil => rfl
    | cons m' rest =>
      simp only [List.map_cons, slots] at ih ⊢
      rw [ih]
      rfl

/-! ### The abstraction and the representation invariant -/

/-- the abstract record of a slot -/
def recOf (buf : Bytes) (s : MetaI × Nat) : Rec :=
  { pos := s.1.pos, payload := (buf.drop s.1.startOff).take (s.2 - s.1.startOff), file := s.1.file }

theorem absI_eq (q : MemQueueI) :
    absI q = { start := q.start, recs := (slots q.metas q.buf.length).map (recOf q.buf) } := rfl

/-- offsets are non-decreasing and within the buffer -/
def Off (ms : List MetaI) (n : Nat) : Prop := ∀ s ∈ slots ms n, s.1.startOff ≤ s.2 ∧ s.2 ≤ n

/-- **Representation invariant**: offsets start at 0, are non-decreasing and `≤ buf.length`; an
    empty queue has an empty buffer; positions as in `C05.QInv`. -/
structure RepInv (q : MemQueueI) : Prop where
  off : Off q.metas q.buf.length
  head0 : ∀ m, q.metas.head? = some m → m.startOff = 0
  empty : q.metas = [] → q.buf = []
  pos : C05.QInv (absI q)

theorem repInv_empty (s : Nat) : RepInv { start := s, metas := [], buf := [] } :=
  ⟨fun _ h => (by cases h), fun _ h => (by cases h), fun _ => rfl,
    ⟨List.Pairwise.nil, fun _ h => (by cases h)⟩⟩

theorem absI_pos (q : MemQueueI) : (absI q).recs.map (·.pos) = q.metas.map (·.pos) := by
  rw [absI_eq]
  simp only [List.map_map]
  rw [← slots_map_fst q.metas q.buf.length, List.map_map]
  simp only [slots_map_fst]
  rfl

theorem absI_length (q : MemQueueI) : (absI q).recs.length = q.metas.length := by
  rw [absI_eq]; simp [slots_length]

theorem absI_nextPosition (q : MemQueueI) : (absI q).nextPosition = q.nextPosition := by
  unfold MemQueue.nextPosition MemQueueI.nextPosition
  rw [absI_eq]
  simp only [List.getLast?_map, slots_getLast?]
  cases q.metas.getLast? <;> rfl

theorem absI_isEmpty (q : MemQueueI) : (absI q).recs.isEmpty = q.metas.isEmpty := by
  have := absI_length q
  cases h1 : (absI q).recs <;> cases h2 : q.metas <;> simp_all

theorem Off.head_le {m : MetaI} {rest : List MetaI} {n : Nat} (h : Off (m :: rest) n) :
    ∀ s ∈ slots (m :: rest) n, m.startOff ≤ s.1.startOff := by
  induction rest generalizing m with
  | nil => intro s hs; simp only [slots, List.mem_singleton] at hs; subst hs; exact Nat.le_refl _
  | cons m' rest ih =>
    intro s hs
    simp only [slots, List.mem_cons] at hs
    rcases hs with rfl | hs
    · exact Nat.le_refl _
    · have h1 := (h (m, m'.startOff) (by simp [slots])).1
      have h' : Off (m' :: rest) n := fun s hs => h s (by simp only [slots]; exact List.mem_cons_of_mem _ hs)
      have := ih h' s hs
      simp only at h1
      omega

theorem Off.drop {ms : List MetaI} {n : Nat} (h : Off ms n) (k : Nat) : Off (ms.drop k) n := by
  intro s hs
  rw [← slots_drop] at hs
  exact h s (List.mem_of_mem_drop hs)

/-! ### `append_record` -/

/-- shape of `dropLastHandle` on the metas -/
theorem dlh_cases (ms : List MetaI) (file : Nat) :
    dropLastHandle ms file = ms ∨
    ∃ init m, ms = init ++ [m] ∧ m.file = some file ∧
      dropLastHandle ms file = init ++ [{ m with file := none }] := by
  unfold dropLastHandle
  cases h : ms.getLast? with
  | none => left; rfl
  | some m =>
    obtain ⟨init, rfl⟩ := List.getLast?_eq_some_iff.mp h
    simp only
    split
    · rename_i hf
      right
      exact ⟨init, m, rfl, hf, by simp⟩
    · left; rfl

theorem dlh_recs (ms : List MetaI) (file n : Nat) (buf : Bytes) :
    (slots (dropLastHandle ms file) n).map (recOf buf) =
      MemQueue.dropLastHandle ((slots ms n).map (recOf buf)) file := by
  rcases dlh_cases ms file with h | ⟨init, m, rfl, hf, h⟩
  · rw [h]
    -- the abstract side does not move the handle either
    unfold MemQueue.dropLastHandle
    simp only [List.getLast?_map, slots_getLast?]
    cases hl : ms.getLast? with
    | none => rfl
    | some m =>
      simp only [Option.map_some, recOf]
      split
      · rename_i hf
        -- then the concrete side would have moved it: contradiction with `h`
        exfalso
        unfold dropLastHandle at h
        rw [hl] at h
        simp only at hf h
        rw [if_pos hf] at h
        obtain ⟨init, rfl⟩ := List.getLast?_eq_some_iff.mp hl
        simp only [List.dropLast_concat, List.append_cancel_left_eq, List.cons.injEq, and_true] at h
        rw [← h] at hf
        cases hf
      · rfl
  · rw [h, slots_snoc, slots_snoc]
    unfold MemQueue.dropLastHandle
    simp only [List.map_append, List.map_cons, List.map_nil, List.getLast?_concat, recOf, hf, if_true,
      List.dropLast_concat]

theorem dlh_off {ms : List MetaI} {n : Nat} (h : Off ms n) (file : Nat) : Off (dropLastHandle ms file) n := by
  rcases dlh_cases ms file with e | ⟨init, m, rfl, _, e⟩
  · rw [e]; exact h
  · rw [e]
    intro s hs
    rw [slots_snoc] at hs
    rcases List.mem_append.mp hs with hs | hs
    · exact h s (by rw [slots_snoc]; exact List.mem_append_left _ hs)
    · simp only [List.mem_singleton] at hs
      subst hs
      exact h (m, n) (by rw [slots_snoc]; simp)

theorem dlh_head (ms : List MetaI) (file : Nat) :
    (dropLastHandle ms file).head?.map (·.startOff) = ms.head?.map (·.startOff) := by
  rcases dlh_cases ms file with e | ⟨init, m, rfl, _, e⟩
  · rw [e]
  · rw [e]
    cases init <;> rfl

/-- a slot that ends within `buf` reads the same bytes from `buf ++ more` -/
theorem recOf_append (buf more : Bytes) (s : MetaI × Nat) (h : s.2 ≤ buf.length) :
    recOf (buf ++ more) s = recOf buf s := by
  unfold recOf
  congr 1
  rw [List.drop_append, List.take_append]
  have : s.2 - s.1.startOff - (buf.drop s.1.startOff).length = 0 := by
    simp only [List.length_drop]; omega
  rw [this, List.take_zero, List.append_nil]

theorem mq_eq (a a' : Nat) (b b' : List Rec) (h1 : a = a') (h2 : b = b') :
    ({ start := a, recs := b } : MemQueue) = { start := a', recs := b' } := by
  subst h1 h2; rfl

/-- **`append_record` commutes with the abstraction.** -/
theorem absI_appendRecordI (q : MemQueueI) (h : RepInv q) (file pos : Nat) (pl : Bytes) :
    (q.appendRecordI file pos pl).map absI = (absI q).appendRecord file pos pl := by
  unfold appendRecordI MemQueue.appendRecord
  rw [absI_nextPosition]
  by_cases hp : pos < q.nextPosition
  · simp only [hp, if_true, Option.map_none]
  · simp only [hp, if_false, Option.map_some, Option.some.injEq]
    have hstart : (if q.start = 0 ∧ q.metas.isEmpty then pos else q.start) =
        (if (absI q).start = 0 ∧ (absI q).recs.isEmpty then pos else (absI q).start) := by
      rw [absI_isEmpty]; rfl
    have hrecs : (slots (dropLastHandle q.metas file ++ [{ startOff := q.buf.length, file := some file, pos := pos }])
          (q.buf ++ pl).length).map (recOf (q.buf ++ pl)) =
        MemQueue.dropLastHandle (absI q).recs file ++ [{ pos := pos, payload := pl, file := some file }] := by
      rw [slots_snoc, List.map_append, absI_eq, ← dlh_recs]
      congr 1
      · apply List.map_congr_left
        intro s hs
        exact recOf_append _ _ s (dlh_off h.off file s hs).2
      · simp [recOf]
    exact mq_eq _ _ _ _ hstart hrecs

theorem repInv_appendRecordI (q q' : MemQueueI) (h : RepInv q) (file pos : Nat) (pl : Bytes)
    (ha : q.appendRecordI file pos pl = some q') : RepInv q' := by
  have hcomm := absI_appendRecordI q h file pos pl
  rw [ha] at hcomm
  have hpos : C05.QInv (absI q') := Rec.QInv_appendRecord hcomm.symm h.pos
  unfold appendRecordI at ha
  split at ha
  · cases ha
  · injection ha with ha
    subst ha
    refine ⟨?_, ?_, ?_, hpos⟩
    · intro s hs
      simp only [List.length_append] at hs ⊢
      rw [slots_snoc] at hs
      rcases List.mem_append.mp hs with hs | hs
      · have := dlh_off h.off file s hs
        omega
      · simp only [List.mem_singleton] at hs
        subst hs
        simp
    · intro m hm
      cases hms : q.metas with
      | nil =>
        rw [hms] at hm
        simp only [dropLastHandle, List.getLast?_nil, List.nil_append, List.head?_cons, Option.some.injEq] at hm
        subst hm
        simp [h.empty hms]
      | cons a rest =>
        have hd := dlh_head q.metas file
        rw [hms] at hd hm
        simp only [List.head?_cons, Option.map_some] at hd
        cases hdl : dropLastHandle (a :: rest) file with
        | nil => rw [hdl] at hd; cases hd
        | cons b t =>
          rw [hdl] at hd hm
          simp only [List.cons_append, List.head?_cons, Option.some.injEq, Option.map_some] at hd hm
          subst hm
          rw [hd]
          exact h.head0 a (by rw [hms]; rfl)
    · intro he
      simp at he

/-! ### `truncate_head` -/

theorem takeWhile_length_lt {α} (P : α → Bool) (l : List α) (x : α) (hx : x ∈ l) (hP : P x = false) :
    (l.takeWhile P).length < l.length := by
  induction l with
  | nil => cases hx
  | cons a l ih =>
    by_cases ha : P a = true
    · simp only [List.takeWhile_cons, ha, if_true, List.length_cons]
      rcases List.mem_cons.mp hx with rfl | hm
      · rw [hP] at ha; cases ha
      · exact Nat.succ_lt_succ (ih hm)
    · simp [ha]

theorem idxOf_abs (q : MemQueueI) (p : Nat) :
    idxOf q.metas (p + 1) = ((absI q).recs.takeWhile (·.pos ≤ p)).length := by
  unfold idxOf
  rw [absI_eq]
  simp only [List.takeWhile_map, List.length_map]
  conv => lhs; rw [← slots_map_fst q.metas q.buf.length]
  rw [List.takeWhile_map, List.length_map]
  congr 2
  funext s
  show decide (s.1.pos < p + 1) = decide (s.1.pos ≤ p)
  by_cases hc : s.1.pos ≤ p
  · rw [decide_eq_true hc, decide_eq_true (by omega : s.1.pos < p + 1)]
  · rw [decide_eq_false hc, decide_eq_false (by omega : ¬ s.1.pos < p + 1)]

theorem idxOf_lt (q : MemQueueI) (p : Nat) (hs : ¬ q.start > p) (hn : ¬ p + 1 ≥ q.nextPosition) :
    idxOf q.metas (p + 1) < q.metas.length := by
  unfold MemQueueI.nextPosition at hn
  cases hl : q.metas.getLast? with
  | none => rw [hl] at hn; simp only at hn; omega
  | some m =>
    rw [hl] at hn
    simp only at hn
    exact takeWhile_length_lt _ _ m (List.mem_of_getLast? hl) (by simp only [decide_eq_false_iff_not]; omega)

/-- a re-based slot reads the same bytes from the re-based buffer -/
theorem recOf_rebase (buf : Bytes) (off : Nat) (s : MetaI × Nat) (h1 : off ≤ s.1.startOff) (h2 : s.1.startOff ≤ s.2) :
    recOf (buf.drop off) (rebase off s.1, s.2 - off) = recOf buf s := by
  unfold recOf rebase
  simp only [List.drop_drop]
  have e1 : off + (s.1.startOff - off) = s.1.startOff := by omega
  have e2 : s.2 - off - (s.1.startOff - off) = s.2 - s.1.startOff := by omega
  rw [e1, e2]

/-- the third branch of `truncate_head`, on the records -/
theorem truncate_recs (q : MemQueueI) (h : RepInv q) (k : Nat) (mk : MetaI) (hk : q.metas[k]? = some mk) :
    (slots ((q.metas.drop k).map fun m => { m with startOff := m.startOff - mk.startOff })
        (q.buf.drop mk.startOff).length).map (recOf (q.buf.drop mk.startOff)) =
      ((slots q.metas q.buf.length).map (recOf q.buf)).drop k := by
  have hdrop : q.metas.drop k = mk :: q.metas.drop (k + 1) := by
    have hlt : k < q.metas.length := by
      rcases Nat.lt_or_ge k q.metas.length with h' | h'
      · exact h'
      · rw [List.getElem?_eq_none h'] at hk; cases hk
    rw [List.drop_eq_getElem_cons hlt]
    congr 1
    rw [List.getElem?_eq_getElem hlt] at hk
    exact Option.some.inj hk
  have hoff : Off (q.metas.drop k) q.buf.length := h.off.drop k
  rw [← List.map_drop, slots_drop, List.length_drop]
  change (slots ((q.metas.drop k).map (rebase mk.startOff)) _).map _ = _
  rw [slots_rebase, List.map_map]
  apply List.map_congr_left
  intro s hs
  simp only [Function.comp]
  refine recOf_rebase _ _ s ?_ (hoff s hs).1
  rw [hdrop] at hs hoff
  exact hoff.head_le s hs

/-- **`truncate_head` commutes with the abstraction**, with the same evicted count. -/
theorem absI_truncateHeadI (q : MemQueueI) (h : RepInv q) (p : Nat) :
    absI (q.truncateHeadI p).1 = ((absI q).truncateHead p).1 ∧
    (q.truncateHeadI p).2 = ((absI q).truncateHead p).2 := by
  unfold truncateHeadI MemQueue.truncateHead
  rw [absI_nextPosition]
  have hst : (absI q).start = q.start := rfl
  rw [hst]
  by_cases h1 : q.start > p
  · simp only [h1, if_true, and_self]
  · simp only [h1, if_false]
    by_cases h2 : p + 1 ≥ q.nextPosition
    · simp only [h2, if_true]
      exact ⟨rfl, (absI_length q).symm⟩
    · simp only [h2, if_false]
      have hk := idxOf_lt q p h1 h2
      rw [← idxOf_abs]
      refine ⟨?_, rfl⟩
      obtain ⟨mk, hmk⟩ : ∃ mk, q.metas[idxOf q.metas (p + 1)]? = some mk :=
        ⟨_, List.getElem?_eq_getElem hk⟩
      simp only [hmk]
      exact mq_eq _ _ _ _ rfl (truncate_recs q h _ mk hmk)

theorem repInv_truncateHeadI (q : MemQueueI) (h : RepInv q) (p : Nat) : RepInv (q.truncateHeadI p).1 := by
  have hpos : C05.QInv (absI (q.truncateHeadI p).1) := by
    rw [(absI_truncateHeadI q h p).1]
    exact Rec.QInv_truncateHead _ p h.pos
  revert hpos
  unfold truncateHeadI
  by_cases h1 : q.start > p
  · simp only [h1, if_true]; intro _; exact h
  · simp only [h1, if_false]
    by_cases h2 : p + 1 ≥ q.nextPosition
    · simp only [h2, if_true]; intro _; exact repInv_empty _
    · simp only [h2, if_false]
      intro hpos
      have hk := idxOf_lt q p h1 h2
      obtain ⟨mk, hmk⟩ : ∃ mk, q.metas[idxOf q.metas (p + 1)]? = some mk :=
        ⟨_, List.getElem?_eq_getElem hk⟩
      simp only [hmk] at hpos ⊢
      have hdrop : q.metas.drop (idxOf q.metas (p + 1)) = mk :: q.metas.drop (idxOf q.metas (p + 1) + 1) := by
        rw [List.drop_eq_getElem_cons hk]
        congr 1
        rw [List.getElem?_eq_getElem hk] at hmk
        exact Option.some.inj hmk
      have hoff : Off (q.metas.drop (idxOf q.metas (p + 1))) q.buf.length := h.off.drop _
      refine ⟨?_, ?_, ?_, hpos⟩
      · intro s hs
        simp only [List.length_drop] at hs ⊢
        change s ∈ slots ((q.metas.drop _).map (rebase mk.startOff)) _ at hs
        rw [slots_rebase] at hs
        obtain ⟨s0, hs0, rfl⟩ := List.mem_map.mp hs
        have := hoff s0 hs0
        simp only [rebase]
        omega
      · intro m hm
        simp only [hdrop, List.map_cons, List.head?_cons, Option.some.injEq] at hm
        subst hm
        simp
      · intro he
        simp only [hdrop, List.map_cons] at he
        cases he

/-! ### `range`, `last_record`, `size` — for every wrap point -/

theorem takeWhile_len (q : MemQueueI) (P : Nat → Bool) :
    ((absI q).recs.takeWhile fun r => P r.pos).length = (q.metas.takeWhile fun m => P m.pos).length := by
  rw [absI_eq]
  simp only [List.takeWhile_map, List.length_map]
  conv => rhs; rw [← slots_map_fst q.metas q.buf.length]
  rw [List.takeWhile_map, List.length_map]
  rfl

/-- **`range` returns exactly the abstract records' bytes**, for every wrap point `split` of the
    ring buffer and every shape of bounds. -/
theorem rangeI_eq (q : MemQueueI) (h : RepInv q) (lo hi : MemQueue.Bound) (split : Nat) :
    q.rangeI lo hi split = (absI q).range lo hi := by
  have key : ∀ k : Nat,
      (((slots q.metas q.buf.length).drop k).takeWhile fun s => lo.okLo s.1.pos && hi.okHi s.1.pos).map
        (fun s => (s.1.pos, getRange (q.buf.take split) (q.buf.drop split) s.1.startOff s.2)) =
      (((absI q).recs.drop k).takeWhile fun r => lo.okLo r.pos && hi.okHi r.pos).map
        fun r => (r.pos, r.payload) := by
    intro k
    rw [absI_eq]
    simp only [← List.map_drop, List.takeWhile_map, List.map_map]
    apply List.map_congr_left
    intro s hs
    have hmem : s ∈ slots q.metas q.buf.length :=
      List.mem_of_mem_drop ((List.takeWhile_sublist _).subset hs)
    simp only [Function.comp, recOf]
    rw [getRange_buf _ _ _ _ (h.off s hmem).1]
  cases lo with
  | unbounded => exact key 0
  | incl n =>
    unfold rangeI MemQueue.range idxOf
    simp only
    rw [takeWhile_len q (fun x => decide (x < n))]
    exact key _
  | excl n =>
    unfold rangeI MemQueue.range
    simp only
    rw [takeWhile_len q (fun x => decide (x ≤ n))]
    exact key _

/-- **`last_record`**, likewise. -/
theorem lastRecordI_eq (q : MemQueueI) (h : RepInv q) (split : Nat) :
    q.lastRecordI split = (absI q).lastRecord := by
  unfold lastRecordI MemQueue.lastRecord
  rw [absI_eq]
  simp only [List.getLast?_map, slots_getLast?, Option.map_map]
  cases hl : q.metas.getLast? with
  | none => rfl
  | some m =>
    simp only [Option.map_some, Function.comp, recOf]
    have hmem : (m, q.buf.length) ∈ slots q.metas q.buf.length := by
      have := slots_getLast? q.metas q.buf.length
      rw [hl] at this
      exact List.mem_of_getLast? this
    rw [getRange_buf _ _ _ _ (h.off _ hmem).1]

/-- total payload bytes of the slots of a well-formed meta list -/
theorem payload_sum (buf : Bytes) : ∀ (ms : List MetaI) (m : MetaI), Off (m :: ms) buf.length →
    (((slots (m :: ms) buf.length).map (recOf buf)).map (·.payload.length)).sum = buf.length - m.startOff := by
  intro ms
  induction ms with
  | nil =>
    intro m h
    have := h (m, buf.length) (by simp [slots])
    simp [slots, recOf, List.length_take, List.length_drop]
  | cons m' rest ih =>
    intro m h
    have h1 := h (m, m'.startOff) (by simp [slots])
    have h' : Off (m' :: rest) buf.length :=
      fun s hs => h s (by simp only [slots]; exact List.mem_cons_of_mem _ hs)
    have := ih m' h'
    simp only [slots, List.map_cons, List.sum_cons, this, recOf, List.length_take, List.length_drop]
    have hle : m'.startOff ≤ buf.length := by
      cases rest with
      | nil => exact (h' (m', buf.length) (by simp [slots])).1
      | cons m'' r =>
        have a := h' (m', m''.startOff) (by simp [slots])
        omega
    simp only at h1
    omega

/-- **`size()`** is the abstract size: the buffer holds exactly the payloads. -/
theorem sizeI_eq (q : MemQueueI) (h : RepInv q) (msz : Nat) : q.sizeI msz = (absI q).size msz := by
  unfold sizeI MemQueue.size
  rw [absI_length]
  congr 1
  rw [absI_eq]
  cases hm : q.metas with
  | nil => simp [slots, h.empty hm]
  | cons m ms =>
    have hoff := h.off
    rw [hm] at hoff
    simp only
    rw [payload_sum q.buf ms m hoff, h.head0 m (by rw [hm]; rfl)]
    rfl

/-- the invariant along any sequence of appends and truncations from the empty queue -/
theorem repInv_default : RepInv {} := repInv_empty 0

/-! ### Non-vacuity -/

/-- three records `3 ↦ [1,2]`, `4 ↦ [3,4,5]`, `6 ↦ [6,7]` in one 7-byte buffer -/
def qEx : MemQueueI :=
  { start := 3, metas := [⟨0, none, 3⟩, ⟨2, some 0, 4⟩, ⟨5, some 1, 6⟩], buf := [1, 2, 3, 4, 5, 6, 7] }

theorem qEx_inv : RepInv qEx :=
  ⟨(by unfold Off; decide), (fun m hm => by cases hm; rfl), (fun he => by cases he),
    (by unfold C05.QInv; decide)⟩

example : absI qEx = { start := 3, recs := [⟨3, [1, 2], none⟩, ⟨4, [3, 4, 5], some 0⟩, ⟨6, [6, 7], some 1⟩] } := by
  decide

/-- the ring wraps in the middle of record 4 (`left = [1,2,3]`, `right = [4,5,6,7]`): the record
    is reassembled from both slices -/
example : qEx.rangeI .unbounded .unbounded 3 = [(3, [1, 2]), (4, [3, 4, 5]), (6, [6, 7])] ∧
    qEx.rangeI (.excl 3) (.incl 5) 3 = [(4, [3, 4, 5])] ∧
    qEx.lastRecordI 6 = some (6, [6, 7]) ∧
    getRange [1, 2, 3] [4, 5, 6, 7] 2 5 = [3, 4, 5] := by
  decide

/-- … and for every wrap point the answers are the same -/
example : ∀ split, split ≤ 7 →
    qEx.rangeI (.incl 4) .unbounded split = [(4, [3, 4, 5]), (6, [6, 7])] ∧
    qEx.lastRecordI split = some (6, [6, 7]) := by
  decide

/-- truncating `..=3` drops the first record and re-bases the offsets by 2 -/
example : qEx.truncateHeadI 3 =
    ({ start := 4, metas := [⟨0, some 0, 4⟩, ⟨3, some 1, 6⟩], buf := [3, 4, 5, 6, 7] }, 1) := by
  decide

/-- appending at position 9 from file 1 moves the handle off record 6 -/
example : qEx.appendRecordI 1 9 [8] =
    some { start := 3, metas := [⟨0, none, 3⟩, ⟨2, some 0, 4⟩, ⟨5, none, 6⟩, ⟨7, some 1, 9⟩],
           buf := [1, 2, 3, 4, 5, 6, 7, 8] } ∧ qEx.appendRecordI 1 6 [8] = none := by
  decide

end MRL.C05I
