/-
C07F: the hypothesis "every journal entry serialises" (`C07.WF`) of the end-to-end theorems,
discharged from conditions on the CALLS.

* `CallFits c`: what the API's types and limits give — a `create` names its queue by valid UTF-8 of
  fewer than 65536 bytes, every payload of an `append` is shorter than 2^32 bytes;
* `C05B.CallOK K c`: the positions of the call stay below `u64::MAX` in a state whose next positions
  are at most `K` (the quantifier "positions < 2^62" of the properties);
* `NamesFit l`: the names of the existing queues fit (an invariant: names only enter through `create`).

`stepJ_wf` / `gcJ_wf`: under these, every journal entry written by a call / by the GC pass of `open`
satisfies `C07.WF`. `ReachDF` / `ReachXF` are `C01R.ReachD` / `C02U.ReachX` with `CallFits` and the
position bookkeeping of `C05B.run_no_panic` at every step, and NO `WF` premise; `reachDF_inv` /
`reachXF_inv` project them to `ReachD` / `ReachX` together with `∀ j ∈ J, C07.WF j.e`. The corollaries
`…_calls` restate `C01_restart_exact`, `C02_crash_atomic`, `C02_usable_crash_atomic` and
`C03_durable` without any `hfits`.
-/
import MRL.Props.C05Bounds
import MRL.Props.C02Usable
import MRL.Props.C03Durable
import MRL.Props.C03PosixX

namespace MRL.C07F
open MRL MRL.Log

/-- a queue name the codec can carry: valid UTF-8 (it is a `&str`), length in a `u16` -/
def NameFits (q : Bytes) : Prop := utf8Valid q = true ∧ q.length < 65536

/-- the limits the API puts on the arguments of a call, positions apart -/
def CallFits : Call → Prop
  | .create q => NameFits q
  | .append _ _ pls => ∀ p ∈ pls, p.length < 2 ^ 32
  | _ => True

/-- the names of the existing queues fit -/
def NamesFit (l : Log) : Prop := ∀ kv ∈ l.queues, NameFits kv.1

theorem U64MAX_lt : U64MAX < 2 ^ 64 := by decide

theorem NamesFit.get {l : Log} (h : NamesFit l) {q : Bytes} {mq : MemQueue}
    (hg : l.queues.get? q = some mq) : NameFits q := h (q, mq) (get_mem hg)

theorem NamesFit.of_queues {l l' : Log} (hq : l'.queues = l.queues) (h : NamesFit l) : NamesFit l' := by
  unfold NamesFit; rw [hq]; exact h

theorem PosBnd.of_queues {K : Nat} {l l' : Log} (hq : l'.queues = l.queues) (h : C05B.PosBnd K l) :
    C05B.PosBnd K l' := by
  unfold C05B.PosBnd; rw [hq]; exact h

theorem NamesFit.set {l l' : Log} {q : Bytes} {mq : MemQueue} (h : NamesFit l)
    (hq : l'.queues = l.queues.set q mq) (hn : NameFits q) : NamesFit l' := by
  intro kv hkv
  rw [hq] at hkv
  rcases mem_set hkv with hkv | rfl
  · exact h kv hkv
  · exact hn

theorem NamesFit.remove {l l' : Log} {q : Bytes} (h : NamesFit l) (hq : l'.queues = l.queues.remove q) :
    NamesFit l' := by
  intro kv hkv
  rw [hq] at hkv
  exact h kv (mem_remove hkv)

/-! ### the entries of the GC pass -/

theorem mem_emptyNames {qs : MemQueues} {n : Bytes} (h : n ∈ qs.emptyNames) : ∃ kv ∈ qs, kv.1 = n := by
  unfold MemQueues.emptyNames at h
  obtain ⟨kv, hkv, rfl⟩ := List.mem_map.mp h
  exact ⟨kv, (List.mem_filter.mp hkv).1, rfl⟩

theorem mem_of_isPermOf {a b : List Bytes} (h : isPermOf a b = true) {n : Bytes} (hn : n ∈ a) : n ∈ b := by
  unfold isPermOf at h
  simp only [Bool.and_eq_true, List.all_eq_true, beq_iff_eq] at h
  have hc := h.2 n hn
  have : 0 < a.count n := List.count_pos_iff.mpr hn
  exact List.count_pos_iff.mp (by omega)

section
variable (g : Geom)

theorem touchesJ_wf (names : List Bytes) : ∀ (l : Log), (∀ n ∈ names, NameFits n) →
    (∀ n q, l.queues.get? n = some q → q.nextPosition < 2 ^ 64) →
    ∀ j ∈ touchesJ g l names, C07.WF j.e := by
  induction names with
  | nil => intro l _ _ j hj; cases hj
  | cons n ns ih =>
    intro l hn hp j hj
    simp only [touchesJ, List.mem_cons] at hj
    rcases hj with rfl | hj
    · have hf := hn n List.mem_cons_self
      simp only [je, C07.WF]
      refine ⟨hf.1, hf.2, ?_⟩
      cases hg : l.queues.get? n with
      | none => simp
      | some q => exact hp n q hg
    · refine ih _ (fun m hm => hn m (List.mem_cons_of_mem _ hm)) ?_ j hj
      intro m q hg
      rw [writeEntry_queues] at hg
      exact hp m q hg

/-- **the GC pass**: the position entries it writes serialise -/
theorem gcJ_wf (l : Log) (order : List Bytes) (K : Nat) (hn : NamesFit l) (hp : C05B.PosBnd K l)
    (hK : K < 2 ^ 64) : ∀ j ∈ l.gcJ g order, C07.WF j.e := by
  have hpos : ∀ n q, l.queues.get? n = some q → q.nextPosition < 2 ^ 64 :=
    fun n q hg => Nat.lt_of_le_of_lt (hp.get hg) hK
  have hempty : ∀ n ∈ l.queues.emptyNames, NameFits n := by
    intro n hm
    obtain ⟨kv, hkv, rfl⟩ := mem_emptyNames hm
    exact hn kv hkv
  intro j hj
  unfold gcJ at hj
  split at hj
  · split at hj
    · simp only at hj
      split at hj
      · rename_i hperm
        exact touchesJ_wf g order l (fun n hm => hempty n (mem_of_isPermOf hperm hm)) hpos j hj
      · exact touchesJ_wf g _ l hempty hpos j hj
    · cases hj
  · cases hj

theorem mem_numberFrom (pls : List Bytes) : ∀ (pos : Nat) (r : Nat × Bytes), r ∈ numberFrom pos pls →
    pos ≤ r.1 ∧ r.1 < pos + pls.length ∧ r.2 ∈ pls := by
  induction pls with
  | nil => intro pos r h; cases h
  | cons p ps ih =>
    intro pos r h
    simp only [numberFrom, List.mem_cons] at h
    rcases h with rfl | h
    · exact ⟨Nat.le_refl _, by simp, List.mem_cons_self⟩
    · obtain ⟨h1, h2, h3⟩ := ih (pos + 1) r h
      exact ⟨by omega, by simp only [List.length_cons]; omega, List.mem_cons_of_mem _ h3⟩

/-- **one call**: every journal entry it writes — its own and the GC's — serialises -/
theorem stepJ_wf (l : Log) (c : Call) (order : List Bytes) (K : Nat) (hI : C05.Inv l) (hn : NamesFit l)
    (hp : C05B.PosBnd K l) (hK : K < U64MAX) (hf : CallFits c) (hc : C05B.CallOK K c) :
    ∀ j ∈ l.stepJ g c order, C07.WF j.e := by
  have hU := U64MAX_lt
  cases c with
  | persist a => intro j hj; cases hj
  | create q =>
    intro j hj
    simp only [stepJ] at hj
    split at hj
    · cases hj
    · simp only [List.mem_singleton] at hj
      subst hj
      have : NameFits q := hf
      exact ⟨this.1, this.2, by decide⟩
  | delete q =>
    intro j hj
    simp only [stepJ] at hj
    split at hj
    · cases hj
    · rename_i mq hg
      simp only [List.mem_cons] at hj
      have hnq := hn.get hg
      have hnext := hp.get hg
      rcases hj with rfl | hj
      · exact ⟨hnq.1, hnq.2, by omega⟩
      · refine gcJ_wf g _ order K ?_ ?_ (by omega) j hj
        · exact (hn.of_queues (writeEntry_queues g l _)).remove (l := (l.writeEntry g (.delete q mq.nextPosition)).1) rfl
        · intro kv hkv
          simp only at hkv
          have := mem_remove hkv
          rw [writeEntry_queues] at this
          exact hp kv this
  | truncate q p =>
    intro j hj
    simp only [stepJ] at hj
    split at hj
    · cases hj
    · rename_i mq hg
      simp only [List.mem_cons] at hj
      have hnq := hn.get hg
      have hnext := hp.get hg
      have hpp : p < U64MAX := hc
      rcases hj with rfl | hj
      · exact ⟨hnq.1, hnq.2, by omega⟩
      · have hqi := hI.get hg
        obtain ⟨_, hnx, _⟩ := MemQueue.truncateHead_spec mq p hqi.1 hqi.2
        refine gcJ_wf g _ order (max K (p + 1)) ?_ ?_ (by omega) j hj
        · exact (hn.of_queues (writeEntry_queues g l _)).set (l := (l.writeEntry g (.truncate q p)).1) rfl hnq
        · intro kv hkv
          simp only at hkv
          rcases mem_set hkv with hkv | rfl
          · rw [writeEntry_queues] at hkv
            exact Nat.le_trans (hp kv hkv) (Nat.le_max_left _ _)
          · simp only [hnx]; omega
  | append q pos? pls =>
    intro j hj
    simp only [stepJ] at hj
    split at hj
    · cases hj
    · rename_i mq hg
      have hnq := hn.get hg
      have hnext := hp.get hg
      have hpl : ∀ x ∈ pls, x.length < 2 ^ 32 := hf
      -- the position the entry is written at
      have key : ∀ pos, pos + pls.length < U64MAX → j ∈ (if pls.isEmpty = true then [] else
          [l.je g (.append q pos (numberFrom pos pls))]) → C07.WF j.e := by
        intro pos hpos hj
        split at hj
        · cases hj
        · simp only [List.mem_singleton] at hj
          subst hj
          refine ⟨hnq.1, hnq.2, by omega, ?_⟩
          intro r hr
          obtain ⟨_, h2, h3⟩ := mem_numberFrom pls pos r hr
          exact ⟨by omega, hpl _ h3⟩
      cases pos? with
      | none =>
        have : K + pls.length < U64MAX := hc
        simp only at hj
        exact key mq.nextPosition (by omega) hj
      | some p0 =>
        have : p0 + pls.length < U64MAX := hc
        by_cases h1 : p0 + 1 = mq.nextPosition
        · simp only [h1, if_true] at hj
          cases hj
        · by_cases h2 : p0 < mq.nextPosition
          · simp only [h1, h2, if_false, if_true] at hj
            cases hj
          · simp only [h1, h2, if_false] at hj
            exact key p0 this hj

end

/-! ### the invariants along calls and restarts -/

section
variable (g : Geom)

/-- names only enter through `create` -/
theorem step_namesFit (l : Log) (c : Call) (tick : Bool) (order : List Bytes) (hn : NamesFit l)
    (hf : CallFits c) : NamesFit (step g l c tick order).1 := by
  cases c with
  | persist a => exact hn
  | create q =>
    cases hg : l.queues.get? q with
    | some mq => rw [step_create_some g l tick order q mq hg]; exact hn
    | none =>
      obtain ⟨hq, _⟩ := step_create_none g l tick order q hg
      exact hn.set hq hf
  | delete q =>
    cases hg : l.queues.get? q with
    | none => rw [step_delete_none g l tick order q hg]; exact hn
    | some mq =>
      obtain ⟨hq, _⟩ := step_delete_some g l tick order q mq hg
      exact hn.remove hq
  | truncate q p =>
    cases hg : l.queues.get? q with
    | none => rw [step_truncate_none g l tick order q p hg]; exact hn
    | some mq =>
      obtain ⟨hq, _⟩ := step_truncate_some g l tick order q p mq hg
      exact hn.set hq (hn.get hg)
  | append q pos? pls =>
    cases hg : l.queues.get? q with
    | none => rw [step_append_none g l tick order q pos? pls hg]; exact hn
    | some mq =>
      cases hs : appendStart mq pos? with
      | none => rw [C05B.step_noop_of_start_none g l q mq pos? pls tick order hg hs]; exact hn
      | some pos =>
        obtain ⟨hle, hp⟩ := C05B.appendStart_some hs
        cases hne : pls.isEmpty with
        | true =>
          have hnil : pls = [] := List.isEmpty_iff.mp hne
          subst hnil
          rw [step_append_empty g l tick order q mq pos? hg (by
            intro p hpp
            rcases hp with h | ⟨h, _⟩
            · rw [hpp] at h; cases h; exact hle
            · rw [hpp] at h; cases h)]
          exact hn
        | false =>
          obtain ⟨mq', _, heq⟩ := C05B.step_append_eq g l q mq pos? pls pos tick order hg hs hne
          rw [heq]
          refine hn.set (l := l) (q := q) (mq := mq') ?_ (hn.get hg)
          simp only
          rw [Step.writeEntry_queues]

end

theorem mem_get_nodup {qs : MemQueues} (hn : (qs.map (·.1)).Nodup) {kv : Bytes × MemQueue} (h : kv ∈ qs) :
    qs.get? kv.1 = some kv.2 := by
  induction qs with
  | nil => cases h
  | cons x xs ih =>
    rw [List.map_cons, List.nodup_cons] at hn
    unfold MemQueues.get?
    rcases List.mem_cons.mp h with rfl | h
    · simp [List.find?_cons]
    · have hne : (x.1 == kv.1) = false := by
        cases hb : x.1 == kv.1 with
        | false => rfl
        | true =>
          rw [beq_iff_eq] at hb
          exact absurd (List.mem_map.mpr ⟨kv, h, hb.symm⟩) hn.1
      rw [List.find?_cons, hne]
      exact ih hn.2 h

/-- queues with the same abstraction as queues that fit, fit -/
theorem fits_of_absEq {a b : Log} {K : Nat} (hI : C05.Inv a) (h : H.AbsEq a.queues b.queues)
    (hn : NamesFit b) (hp : C05B.PosBnd K b) : NamesFit a ∧ C05B.PosBnd K a := by
  have key : ∀ kv ∈ a.queues, ∃ y, b.queues.get? kv.1 = some y ∧ kv.2.abs = y.abs := by
    intro kv hkv
    have hg := mem_get_nodup hI.1 hkv
    have := h kv.1
    rw [hg] at this
    cases hb : b.queues.get? kv.1 with
    | none => rw [hb] at this; cases this
    | some y =>
      rw [hb] at this
      simp only [Option.map_some, Option.some.injEq] at this
      exact ⟨y, rfl, this⟩
  constructor
  · intro kv hkv
    obtain ⟨y, hy, _⟩ := key kv hkv
    exact hn.get hy
  · intro kv hkv
    obtain ⟨y, hy, he⟩ := key kv hkv
    rw [H.abs_next he]
    exact hp.get hy

/-- the log `open` returns has the queues of the log before the GC pass -/
theorem recover_queues {g : Geom} {img : Image} {policy : Policy} {order : List Bytes} {lp : Log}
    {e0 : List Effect} {io : Nat} {r : Recovered}
    (hpre : recoverPre g img policy none = .ok (lp, e0, io))
    (hrec : recover g img policy order none = .ok r) : lp.queues = r.log.queues := by
  obtain ⟨lp', e0', io', hpre', hlog, _⟩ := Step.recover_ok g img policy order none r hrec
  rw [hpre] at hpre'
  cases hpre'
  rw [hlog, runGc_queues]

/-- the bundle carried along every derivation -/
structure Fit (K : Nat) (l : Log) : Prop where
  inv : C05.Inv l
  names : NamesFit l
  pos : C05B.PosBnd K l

theorem Fit.mono {K K' : Nat} {l : Log} (h : Fit K l) (hk : K ≤ K') : Fit K' l :=
  ⟨h.inv, h.names, h.pos.mono hk⟩

/-- a recovered log whose queues have the abstraction of a fitting log fits; so does the log before
    its GC pass, hence the GC's entries serialise -/
theorem Fit.of_recover {g : Geom} {img : Image} {policy : Policy} {order : List Bytes} {lp : Log}
    {e0 : List Effect} {io : Nat} {r : Recovered} {K : Nat} {l : Log}
    (hpre : recoverPre g img policy none = .ok (lp, e0, io))
    (hrec : recover g img policy order none = .ok r)
    (hab : H.AbsEq r.log.queues l.queues) (hf : Fit K l) (hK : K < 2 ^ 64) :
    Fit K r.log ∧ ∀ j ∈ lp.gcJ g order, C07.WF j.e := by
  have hI := C08.recover_sorted g img policy order none r hrec
  obtain ⟨h1, h2⟩ := fits_of_absEq hI hab hf.names hf.pos
  have hq := recover_queues hpre hrec
  exact ⟨⟨hI, h1, h2⟩, gcJ_wf g lp order K (h1.of_queues hq) (PosBnd.of_queues hq h2) hK⟩

/-- one call from a fitting log -/
theorem Fit.step (g : Geom) {K : Nat} {l : Log} (h : Fit K l) (c : Call) (tick : Bool) (order : List Bytes)
    (P : Nat) (hPK : P ≤ K) (hf : CallFits c) (hb : C05B.CallBelow P c) (hK : K + C05B.callRecs c < U64MAX) :
    (∀ j ∈ l.stepJ g c order, C07.WF j.e) ∧ Fit (K + C05B.callRecs c) (step g l c tick order).1 := by
  have hcok : C05B.CallOK K c := by
    cases c with
    | append q pos? pls =>
      cases pos? with
      | none => simp only [C05B.CallOK, C05B.callRecs] at hK ⊢; omega
      | some p => have : p < P := hb; simp only [C05B.CallOK, C05B.callRecs] at hK ⊢; omega
    | truncate q p => have : p < P := hb; simp only [C05B.CallOK]; omega
    | create q => trivial
    | delete q => trivial
    | persist a => trivial
  have htop : max K (C05B.callTop K c) ≤ K + C05B.callRecs c := by
    cases c with
    | append q pos? pls =>
      cases pos? with
      | none => simp only [C05B.callTop, C05B.callRecs]; omega
      | some p => have : p < P := hb; simp only [C05B.callTop, C05B.callRecs]; omega
    | truncate q p => have : p < P := hb; simp only [C05B.callTop, C05B.callRecs]; omega
    | create q => simp [C05B.callTop, C05B.callRecs]
    | delete q => simp [C05B.callTop, C05B.callRecs]
    | persist a => simp [C05B.callTop, C05B.callRecs]
  refine ⟨stepJ_wf g l c order K h.inv h.names h.pos (by omega) hf hcok, ?_, ?_, ?_⟩
  · exact (C05.C05_refines g l h.inv c tick order).2.2
  · exact step_namesFit g l c tick order h.names hf
  · exact (C05B.step_posBnd g l h.inv c tick order K h.pos).mono htop

/-! ### `ReachD` with fitting calls -/

/-- `C01R.ReachD` where every call satisfies `CallFits`, explicit positions and truncate bounds are
    below `P`, and `n` = number of records appended so far with `P + n < u64::MAX`. No hypothesis on
    the journal. -/
inductive ReachDF (g : Geom) (cap P : Nat) : Nat → Log → List JE → Image → BufSt → Prop
  | init (policy : Policy) (order : List Bytes) (r : Recovered) :
      recover g [] policy order none = .ok r →
      ReachDF g cap P 0 r.log [] (applyOsOps [] (toOsOps cap {} r.effects).2) (toOsOps cap {} r.effects).1
  | step {n : Nat} {l : Log} {J : List JE} {img : Image} {b : BufSt} (c : Call) (tick : Bool)
      (order : List Bytes) :
      ReachDF g cap P n l J img b → CallFits c → C05B.CallBelow P c →
      P + n + C05B.callRecs c < U64MAX →
      ReachDF g cap P (n + C05B.callRecs c) (l.step g c tick order).1 (J ++ l.stepJ g c order)
        (applyOsOps img (toOsOps cap b (l.step g c tick order).2.2).2)
        (toOsOps cap b (l.step g c tick order).2.2).1
  | reopen {n : Nat} {l : Log} {J : List JE} {img : Image} {b : BufSt} (policy : Policy) (order : List Bytes)
      (lp : Log) (e0 : List Effect) (io : Nat) (r : Recovered) :
      ReachDF g cap P n l J img b →
      recoverPre g (C01R.flushDisk img b) policy none = .ok (lp, e0, io) →
      recover g (C01R.flushDisk img b) policy order none = .ok r →
      ReachDF g cap P n r.log (J ++ lp.gcJ g order)
        (applyOsOps (C01R.flushDisk img b) (toOsOps cap {} r.effects).2) (toOsOps cap {} r.effects).1

/-- **A1, `ReachD`.** Every `ReachDF` state is a `ReachD` state whose journal serialises, and it
    carries the bundle `Fit`. -/
theorem reachDF_inv (g : Geom) (hB : g.B ≤ 65542) (cap P : Nat) (hP : P < U64MAX) {n : Nat} {l : Log}
    {J : List JE} {img : Image} {b : BufSt} (h : ReachDF g cap P n l J img b) :
    C01R.ReachD g cap l J img b ∧ (∀ j ∈ J, C07.WF j.e) ∧ Fit (P + n) l ∧ P + n < U64MAX := by
  have hU := U64MAX_lt
  induction h with
  | init policy order r hr =>
    have hd := C01R.ReachD.init (g := g) (cap := cap) policy order r hr
    have hw : ∀ j ∈ ([] : List JE), C07.WF j.e := fun j hj => by cases hj
    refine ⟨hd, hw, ?_, by omega⟩
    have hri := C01R.reach_rinv g hB cap hd hw
    obtain ⟨qs, h1, h2, _⟩ := hri.c.jinv.rep
    have hqs : qs = [] := by
      have : replayJ (r.log.files.headD 0) [] [] = some [] := rfl
      rw [this] at h1; exact (Option.some.inj h1).symm
    subst hqs
    have hI := C08.recover_sorted g [] policy order none r hr
    have hab : H.AbsEq r.log.queues ({ r.log with queues := [] } : Log).queues :=
      (H.AbsEq.of_qsEquiv h2).symm
    obtain ⟨a1, a2⟩ := fits_of_absEq (K := P + 0) hI hab (fun kv hkv => by cases hkv) (fun kv hkv => by cases hkv)
    exact ⟨hI, a1, a2⟩
  | step c tick order _ hf hb hK ih =>
    obtain ⟨hd, hw, hfit, _⟩ := ih
    obtain ⟨hsw, hfit'⟩ := hfit.step g c tick order P (Nat.le_add_right _ _) hf hb hK
    refine ⟨C01R.ReachD.step c tick order hd, ?_, ?_, by omega⟩
    · intro j hj
      rcases List.mem_append.mp hj with hj | hj
      · exact hw j hj
      · exact hsw j hj
    · rw [← Nat.add_assoc]; exact hfit'
  | reopen policy order lp e0 io r _ hpre hrec ih =>
    obtain ⟨hd, hw, hfit, hb⟩ := ih
    obtain ⟨r', hr', hq⟩ := C01R.C01_restart_exact g hB cap _ _ _ _ hd hw policy order
    rw [hrec] at hr'
    cases hr'
    obtain ⟨hfit', hgw⟩ := Fit.of_recover hpre hrec (H.AbsEq.of_qsEquiv hq) hfit (by omega)
    refine ⟨C01R.ReachD.reopen policy order lp e0 io r hd hpre hrec, ?_, hfit', hb⟩
    intro j hj
    rcases List.mem_append.mp hj with hj | hj
    · exact hw j hj
    · exact hgw j hj

/-- the journal of a run of fitting calls from a fitting log serialises -/
theorem jourD_wf (g : Geom) (P : Nat) (cs : List (Call × Bool × List Bytes)) : ∀ (l : Log) (K : Nat),
    Fit K l → P ≤ K → (∀ x ∈ cs, CallFits x.1 ∧ C05B.CallBelow P x.1) → K + C05B.histRecs cs < U64MAX →
    ∀ j ∈ MRL.K.jourD g l cs, C07.WF j.e := by
  induction cs with
  | nil => intro l K _ _ _ _ j hj; cases hj
  | cons x cs ih =>
    intro l K hfit hPK hall hK j hj
    obtain ⟨c, tick, order⟩ := x
    simp only [C05B.histRecs, List.map_cons, List.sum_cons] at hK
    obtain ⟨hcf, hcb⟩ := hall (c, tick, order) List.mem_cons_self
    obtain ⟨hsw, hfit'⟩ := hfit.step g c tick order P hPK hcf hcb (by omega)
    simp only [MRL.K.jourD, List.mem_append] at hj
    rcases hj with hj | hj
    · exact hsw j hj
    · exact ih _ _ hfit' (by omega) (fun y hy => hall y (List.mem_cons_of_mem _ hy))
        (by unfold C05B.histRecs; omega) j hj

/-! ### the end-to-end theorems, without `hfits` -/

/-- **C01, from the calls.** -/
theorem C01_restart_exact_calls (g : Geom) (hB : g.B ≤ 65542) (cap P : Nat) (hP : P < U64MAX) {n : Nat}
    {l : Log} {J : List JE} {img : Image} {b : BufSt} (h : ReachDF g cap P n l J img b)
    (policy : Policy) (order : List Bytes) :
    ∃ r, recover g (C01R.flushDisk img b) policy order none = .ok r ∧ QsEquiv r.log.queues l.queues := by
  obtain ⟨hd, hw, _, _⟩ := reachDF_inv g hB cap P hP h
  exact C01R.C01_restart_exact g hB cap l J img b hd hw policy order

/-- **C02, from the calls**: the call in flight fits too. -/
theorem C02_crash_atomic_calls (g : Geom) (hB : g.B ≤ 65542) (cap P : Nat) (hP : P < U64MAX) {n : Nat}
    {l : Log} {J : List JE} {img : Image} {b : BufSt} (h : ReachDF g cap P n l J img b) (hb : b.pend = [])
    (c : Call) (tick : Bool) (order : List Bytes) (hcf : CallFits c) (hcb : C05B.CallBelow P c)
    (hK : P + n + C05B.callRecs c < U64MAX) (htorn : C02A.TornStep g l c tick order) (k cut : Nat)
    (policy' : Policy) (order' : List Bytes) :
    ∃ rec, recover g (crashImage img (toOsOps cap b (l.step g c tick order).2.2).2 k cut) policy' order' none = .ok rec ∧
      (C02A.AbsEq rec.log.queues l.queues ∨ C02A.AbsEq rec.log.queues (l.step g c tick order).1.queues) := by
  obtain ⟨hd, hw, hfit, _⟩ := reachDF_inv g hB cap P hP h
  obtain ⟨hsw, _⟩ := hfit.step g c tick order P (Nat.le_add_right _ _) hcf hcb hK
  refine C02A.C02_crash_atomic g hB cap l J img b hd hb c tick order ?_ htorn k cut policy' order'
  intro j hj
  rcases List.mem_append.mp hj with hj | hj
  · exact hw j hj
  · exact hsw j hj

/-- **C03, from the calls**: a run of fitting calls from a persist point. -/
theorem C03_durable_calls (g : Geom) (hB : g.B ≤ 65542) (cap P : Nat) (hP : P < U64MAX) {n : Nat}
    {l : Log} {J : List JE} {img : Image} {b : BufSt} (h : ReachDF g cap P n l J img b) (hb : b.pend = [])
    (cs : List (Call × Bool × List Bytes)) (hall : ∀ x ∈ cs, CallFits x.1 ∧ C05B.CallBelow P x.1)
    (hK : P + n + C05B.histRecs cs < U64MAX) (htorn : C03D.TornRun g l cs)
    (k cut : Nat) (policy' : Policy) (order' : List Bytes) :
    ∃ rec i, i ≤ cs.length ∧
      recover g (crashImage img (MRL.K.runD g cap ⟨l, J, b, []⟩ cs).ops k cut) policy' order' none = .ok rec ∧
      C03D.AbsEq rec.log.queues (MRL.K.runD g cap ⟨l, J, b, []⟩ (cs.take i)).l.queues := by
  obtain ⟨hd, hw, hfit, _⟩ := reachDF_inv g hB cap P hP h
  refine C03D.C03_durable g hB cap l J img b hd hb cs ?_ htorn k cut policy' order'
  rw [MRL.K.runD_eq]
  intro j hj
  simp only at hj
  rcases List.mem_append.mp hj with hj | hj
  · exact hw j hj
  · exact jourD_wf g P cs l (P + n) hfit (Nat.le_add_right _ _) hall hK j hj

/-! ### `ReachX` with fitting calls -/

/-- `C02U.ReachX` (crashes at any point of a call or of `open`, any number of times) where every
    call — completed or in flight — satisfies `CallFits`, with the same bookkeeping as `ReachDF`
    and no `WF` premise -/
inductive ReachXF (g : Geom) (cap P : Nat) : Nat → Log → Image → BufSt → Prop
  | base {n : Nat} {l : Log} {J : List JE} {img : Image} {b : BufSt} :
      ReachDF g cap P n l J img b → ReachXF g cap P n l img b
  | step {n : Nat} {l : Log} {img : Image} {b : BufSt} (c : Call) (tick : Bool) (order : List Bytes) :
      ReachXF g cap P n l img b → CallFits c → C05B.CallBelow P c → P + n + C05B.callRecs c < U64MAX →
      ReachXF g cap P (n + C05B.callRecs c) (l.step g c tick order).1
        (applyOsOps img (toOsOps cap b (l.step g c tick order).2.2).2)
        (toOsOps cap b (l.step g c tick order).2.2).1
  | reopen {n : Nat} {l : Log} {img : Image} {b : BufSt} (policy : Policy) (order : List Bytes)
      (lp : Log) (e0 : List Effect) (io : Nat) (r : Recovered) :
      ReachXF g cap P n l img b →
      recoverPre g (C02U.flushDisk img b) policy none = .ok (lp, e0, io) →
      recover g (C02U.flushDisk img b) policy order none = .ok r →
      ReachXF g cap P n r.log (applyOsOps (C02U.flushDisk img b) (toOsOps cap {} r.effects).2)
        (toOsOps cap {} r.effects).1
  | crash {n : Nat} {l : Log} {img : Image} {b : BufSt} (c : Call) (tick : Bool) (order : List Bytes)
      (k cut : Nat) (X : Image) (policy' : Policy) (order' : List Bytes) (lp : Log) (e0 : List Effect)
      (io : Nat) (r : Recovered) :
      ReachXF g cap P n l img b → b.pend = [] →
      CallFits c → C05B.CallBelow P c → P + n + C05B.callRecs c < U64MAX →
      C02A.TornStep g l c tick order →
      X = crashImage img (toOsOps cap b (l.step g c tick order).2.2).2 k cut →
      recoverPre g X policy' none = .ok (lp, e0, io) →
      recover g X policy' order' none = .ok r →
      ReachXF g cap P (n + C05B.callRecs c) r.log (applyOsOps X (toOsOps cap {} r.effects).2)
        (toOsOps cap {} r.effects).1
  | crash2 {n : Nat} {l : Log} {img : Image} {b : BufSt} (policy : Policy) (order : List Bytes) (lp0 : Log)
      (e00 : List Effect) (io0 : Nat) (r0 : Recovered) (k cut : Nat) (X : Image) (policy' : Policy)
      (order' : List Bytes) (lp : Log) (e0 : List Effect) (io : Nat) (r : Recovered) :
      ReachXF g cap P n l img b →
      recoverPre g (C02U.flushDisk img b) policy none = .ok (lp0, e00, io0) →
      recover g (C02U.flushDisk img b) policy order none = .ok r0 →
      H.TornEffs r0.effects →
      X = crashImage (C02U.flushDisk img b) (toOsOps cap {} r0.effects).2 k cut →
      recoverPre g X policy' none = .ok (lp, e0, io) →
      recover g X policy' order' none = .ok r →
      ReachXF g cap P n r.log (applyOsOps X (toOsOps cap {} r.effects).2) (toOsOps cap {} r.effects).1

/-- **A1, `ReachX`.** Every `ReachXF` state is a `ReachX` state (all the `WF` premises of its
    constructors are discharged), and it carries the bundle `Fit`. -/
theorem reachXF_inv (g : Geom) (hB : g.B ≤ 65542) (cap P : Nat) (hP : P < U64MAX) {n : Nat} {l : Log}
    {img : Image} {b : BufSt} (h : ReachXF g cap P n l img b) :
    C02U.ReachX g cap l img b ∧ Fit (P + n) l ∧ P + n < U64MAX := by
  have hU := U64MAX_lt
  induction h with
  | base hd =>
    obtain ⟨h1, h2, h3, h4⟩ := reachDF_inv g hB cap P hP hd
    exact ⟨C02U.ReachX.base h1 h2, h3, h4⟩
  | step c tick order _ hf hb hK ih =>
    obtain ⟨hx, hfit, _⟩ := ih
    obtain ⟨hsw, hfit'⟩ := hfit.step g c tick order P (Nat.le_add_right _ _) hf hb hK
    exact ⟨C02U.ReachX.step c tick order hx hsw, by rw [← Nat.add_assoc]; exact hfit', by omega⟩
  | reopen policy order lp e0 io r _ hpre hrec ih =>
    obtain ⟨hx, hfit, hb⟩ := ih
    obtain ⟨r', hr', hab⟩ := C02U.C02_usable_restart g hB cap _ _ _ hx policy order
    rw [hrec] at hr'
    cases hr'
    obtain ⟨hfit', hgw⟩ := Fit.of_recover hpre hrec hab hfit (by omega)
    exact ⟨C02U.ReachX.reopen policy order lp e0 io r hx hpre hrec hgw, hfit', hb⟩
  | @crash n0 l0 img0 b0 c tick order k cut X policy' order' lp e0 io r _ hbp hf hcb hK htorn hX hpre hrec ih =>
    obtain ⟨hx, hfit, _⟩ := ih
    obtain ⟨hsw, hfit1⟩ := hfit.step g c tick order P (Nat.le_add_right _ _) hf hcb hK
    subst hX
    obtain ⟨rec, hr', hab⟩ := C02U.C02_usable_crash_atomic g hB cap _ _ _ hx hbp c tick order hsw htorn k cut
      policy' order'
    rw [hrec] at hr'
    cases hr'
    have hfitr : ∃ l', H.AbsEq r.log.queues l'.queues ∧ Fit (P + n0 + C05B.callRecs c) l' := by
      rcases hab with hab | hab
      · exact ⟨_, hab, hfit.mono (Nat.le_add_right _ _)⟩
      · exact ⟨_, hab, hfit1⟩
    obtain ⟨l', hab', hfl'⟩ := hfitr
    obtain ⟨hfit', hgw⟩ := Fit.of_recover hpre hrec hab' hfl' (by omega)
    exact ⟨C02U.ReachX.crash c tick order k cut _ policy' order' lp e0 io r hx hbp hsw htorn rfl hpre hrec hgw,
      by rw [← Nat.add_assoc]; exact hfit', by omega⟩
  | crash2 policy order lp0 e00 io0 r0 k cut X policy' order' lp e0 io r _ hpre0 hrec0 htorn hX hpre hrec ih =>
    obtain ⟨hx, hfit, hb⟩ := ih
    obtain ⟨r0', hr0', hab0⟩ := C02U.C02_usable_restart g hB cap _ _ _ hx policy order
    rw [hrec0] at hr0'
    cases hr0'
    obtain ⟨_, hgw0⟩ := Fit.of_recover hpre0 hrec0 hab0 hfit (by omega)
    subst hX
    obtain ⟨rec', hr', hab⟩ := C02U.C02_usable_second_crash g hB cap _ _ _ hx policy order lp0 e00 io0 r0
      hpre0 hrec0 hgw0 htorn k cut policy' order'
    rw [hrec] at hr'
    cases hr'
    obtain ⟨hfit', hgw⟩ := Fit.of_recover hpre hrec hab hfit (by omega)
    exact ⟨C02U.ReachX.crash2 policy order lp0 e00 io0 r0 k cut _ policy' order' lp e0 io r hx hpre0 hrec0
      hgw0 htorn rfl hpre hrec hgw, hfit', hb⟩

/-- **C02 on crash-reachable states, from the calls.** -/
theorem C02_usable_crash_atomic_calls (g : Geom) (hB : g.B ≤ 65542) (cap P : Nat) (hP : P < U64MAX) {n : Nat}
    {l : Log} {img : Image} {b : BufSt} (h : ReachXF g cap P n l img b) (hb : b.pend = [])
    (c : Call) (tick : Bool) (order : List Bytes) (hcf : CallFits c) (hcb : C05B.CallBelow P c)
    (hK : P + n + C05B.callRecs c < U64MAX) (htorn : C02A.TornStep g l c tick order) (k cut : Nat)
    (policy' : Policy) (order' : List Bytes) :
    ∃ rec, recover g (crashImage img (toOsOps cap b (l.step g c tick order).2.2).2 k cut) policy' order' none = .ok rec ∧
      (C02A.AbsEq rec.log.queues l.queues ∨ C02A.AbsEq rec.log.queues (l.step g c tick order).1.queues) := by
  obtain ⟨hx, hfit, _⟩ := reachXF_inv g hB cap P hP h
  obtain ⟨hsw, _⟩ := hfit.step g c tick order P (Nat.le_add_right _ _) hcf hcb hK
  exact C02U.C02_usable_crash_atomic g hB cap l img b hx hb c tick order hsw htorn k cut policy' order'

/-- restarts of crash-reachable states, from the calls -/
theorem C02_usable_restart_calls (g : Geom) (hB : g.B ≤ 65542) (cap P : Nat) (hP : P < U64MAX) {n : Nat}
    {l : Log} {img : Image} {b : BufSt} (h : ReachXF g cap P n l img b) (policy : Policy) (order : List Bytes) :
    ∃ r, recover g (C02U.flushDisk img b) policy order none = .ok r ∧ C02A.AbsEq r.log.queues l.queues :=
  C02U.C02_usable_restart g hB cap l img b (reachXF_inv g hB cap P hP h).1 policy order

/-! ### histories with restarts (`PX`: calls and clean reopens), from the calls -/

/-- the calls of a history fit; reopens are unconstrained -/
def EvFits (P : Nat) : PX.Ev → Prop
  | .call c _ _ => CallFits c ∧ C05B.CallBelow P c
  | .reopen _ _ => True

def evRecs : PX.Ev → Nat
  | .call c _ _ => C05B.callRecs c
  | .reopen _ _ => 0

def histRecsX (evs : List PX.Ev) : Nat := (evs.map evRecs).sum

/-- one event from a fitting `ReachX` state: its journal entries serialise and the next log fits -/
theorem ev_wf (g : Geom) (hB : g.B ≤ 65542) (cap P : Nat) {l : Log} {img : Image} {b : BufSt} {K : Nat}
    (h : C02U.ReachX g cap l img b) (hfit : Fit K l) (hPK : P ≤ K) (e : PX.Ev) (he : EvFits P e)
    (hK : K + evRecs e < U64MAX) :
    (∀ j ∈ PX.evJ g l (C02U.flushDisk img b) e, C07.WF j.e) ∧
    Fit (K + evRecs e) (PX.evLog g l (C02U.flushDisk img b) e) := by
  have hU := U64MAX_lt
  cases e with
  | call c tick order =>
    obtain ⟨hcf, hcb⟩ := he
    exact hfit.step g c tick order P hPK hcf hcb hK
  | reopen policy order =>
    obtain ⟨r, hrec, hab⟩ := C02U.C02_usable_restart g hB cap l img b h policy order
    obtain ⟨lp, e0, io, hpre, _, _⟩ := Step.recover_ok g _ policy order none r hrec
    obtain ⟨hfit', hgw⟩ := Fit.of_recover hpre hrec hab hfit (by simp only [evRecs] at hK; omega)
    constructor
    · intro j hj
      simp only [PX.evJ, hpre] at hj
      exact hgw j hj
    · simp only [PX.evLog, hrec, evRecs, Nat.add_zero]
      exact hfit'

/-- **the journal of a history of fitting calls and clean restarts serialises** -/
theorem jourX_wf (g : Geom) (hB : g.B ≤ 65542) (cap P : Nat) (evs : List PX.Ev) :
    ∀ (l : Log) (img : Image) (b : BufSt) (K : Nat), C02U.ReachX g cap l img b → Fit K l → P ≤ K →
    (∀ e ∈ evs, EvFits P e) → K + histRecsX evs < U64MAX →
    ∀ j ∈ PX.jourX g l (C02U.flushDisk img b) evs, C07.WF j.e := by
  induction evs with
  | nil => intro l img b K _ _ _ _ _ j hj; cases hj
  | cons e es ih =>
    intro l img b K h hfit hPK hall hK j hj
    simp only [histRecsX, List.map_cons, List.sum_cons] at hK
    obtain ⟨hwe, hfit'⟩ := ev_wf g hB cap P h hfit hPK e (hall e List.mem_cons_self) (by omega)
    simp only [PX.jourX, List.mem_append] at hj
    rcases hj with hj | hj
    · exact hwe j hj
    · obtain ⟨h1, hfl⟩ := C03PX.reachX_ev g hB cap h e hwe
      rw [← hfl] at hj
      exact ih _ _ _ _ h1 hfit' (by omega) (fun e' he' => hall e' (List.mem_cons_of_mem _ he'))
        (by unfold histRecsX; omega) j hj

/-- **C03 (POSIX power loss, histories with restarts, start state reachable with crashes), from the
    calls.** -/
theorem C03_posix_reachX_calls (g : Geom) (hB : g.B ≤ 65542) (cap P : Nat) (hP : P < U64MAX) {n : Nat}
    {l : Log} {img : Image} {b : BufSt} (h : ReachXF g cap P n l img b) (hb : b.pend = [])
    (evs : List PX.Ev) (hall : ∀ e ∈ evs, EvFits P e) (hK : P + n + histRecsX evs < U64MAX)
    (htorn : H.TornEffs (PX.effsX g l img evs))
    (m : Nat) (hm : m ≤ evs.length) (pre : List Effect) (f : Nat)
    (htail : PX.effsX g l img (evs.take m) = pre ++ [.flush, .fsyncFile f, .fsyncDir])
    (k : Nat) (hk : (toOsOpsP cap b (PX.effsX g l img (evs.take m))).2.length ≤ k)
    (policy' : Policy) (order' : List Bytes) :
    ∃ rec i, m ≤ i ∧ i ≤ evs.length ∧
      recover g (powerImage img ((toOsOpsP cap b (PX.effsX g l img evs)).2.take k)) policy' order' none = .ok rec ∧
      H.AbsEq rec.log.queues (PX.logX g l img (evs.take i)).queues := by
  obtain ⟨hx, hfit, _⟩ := reachXF_inv g hB cap P hP h
  have hw := jourX_wf g hB cap P evs l img b (P + n) hx hfit (Nat.le_add_right _ _) hall hK
  rw [C02U.flushDisk_of_empty img b hb] at hw
  exact C03PX.C03_posix_reachX g hB cap l img b hx hb evs hw htorn m hm pre f htail k hk policy' order'

/-! ### non-vacuity -/

theorem utf8Valid_one : utf8Valid [1] = true := by
  rw [utf8Valid]
  simp [utf8Valid]

/-- the first `open` of an empty directory, `create [1]`, an append of one record: a `ReachDF`
    derivation with positions below 2^62 exists for every geometry, and `C01_restart_exact_calls`
    applies to it — no hypothesis on any journal is left -/
theorem reachDF_nonvacuous (g : Geom) (hB : g.B ≤ 65542) (cap : Nat) (policy : Policy) (order : List Bytes) :
    ∃ (l : Log) (J : List JE) (img : Image) (b : BufSt), ReachDF g cap (2 ^ 62) 1 l J img b ∧
      (∀ j ∈ J, C07.WF j.e) ∧
      ∃ r, recover g (C01R.flushDisk img b) policy order none = .ok r ∧ QsEquiv r.log.queues l.queues := by
  obtain ⟨r0, hr0⟩ := C01R.init_ok g hB policy order
  have d0 := ReachDF.init (g := g) (cap := cap) (P := 2 ^ 62) policy order r0 hr0
  have d1 := ReachDF.step (.create [1]) false [] d0 (show NameFits [1] from ⟨utf8Valid_one, by decide⟩) trivial (by decide)
  have d2 := ReachDF.step (.append [1] none [[7]]) false [] d1
    (show ∀ p ∈ [[(7 : UInt8)]], p.length < 2 ^ 32 by decide) trivial (by decide)
  have hP : 2 ^ 62 < U64MAX := by decide
  exact ⟨_, _, _, _, d2, (reachDF_inv g hB cap _ hP d2).2.1, C01_restart_exact_calls g hB cap _ hP d2 policy order⟩

end MRL.C07F
