/-
C09 over crash-reachable states — losing one frame costs at most the entry it belongs to, on the
image of ANY state reachable with restarts and crashes at any byte. Nothing is partial.

FULL STATEMENT (as posed), proved as `C09_crash_one_frame`. Let `C02W.ReachXW g cap l img b W`
(= `C02U.ReachX g cap l img b`, with the list `W` of the entries handed to the writer), `W₀ :=
flushDisk img b`. There are a journal `J` (`L.CInvX g l J W₀`, entries serialisable and in `W`) and
an item tape `ais` of `W₀` — `streamOf W₀ = flatJ g 0 ais ++ zeros z0 ++ res ++ zeros z1`: frames as
written (`a.2 = none`), junk slots left by earlier crashes (`a.2 = some raw`), a residue `res` of at
most 6 bytes — such that for ANY frame as written `a` of the tape (`ais = A1 ++ a :: A2`,
`a.2 = none`), any replacement `crc'`, `p'` of its checksum / payload bytes (same lengths) that fails
the frame's check, and any image `W'` of the same shape carrying the damaged stream (the stream of
`A1 ++ damaged a crc' p' :: A2`: the same bytes except the checksum and payload bytes of that slot):
`recover g W' policy order none` SUCCEEDS, and for some journal index `idx` every record of every
live queue of `l` that was not appended by `J[idx]` is in the recovered log with the same position
and payload.

REPLAY-LEVEL HALF, `C09_drop_one_crash`: `C09R.C09_drop_one` for the hidden journal of every
crash-reachable state: replaying `J` with ANY entry erased, from the first tracked file, never
fails and keeps every record not appended by the erased entry.

HOW. (1) `LR.RunOK J l.queues` for the hidden journal of every `ReachXW` state (`LR.reachXR_journal`,
MRL/Proofs/LRun*.lean): `J` replays entry by entry as the API wrote it (`Drop.Run`) from SOME
well-formed start — the queues as they were when the oldest retained entry was written — to queues
with the abstract state of `l.queues`. The crash lemmas were re-proved carrying it
(`open_diskXR … call_cutXR, gc_cutXR, recover_boundaryR`): a journal read back from a disk is the
retained part of the journal the disk was written from, re-attributed, and `RunOK` survives that
(`RunOK.retained`: cut the run at the first retained entry, transport it along `AbsEq`). The drop-one
simulation `Drop.inv3_run / inv3_erase` never needed the run to start from the empty map
(`LR.drop_coreX`). (2) Byte level: the damaged frame is one more junk item (`L.JunkOK`, first
alternative) of the same slot size, so all positions are unchanged (`damaged_layout`) and
`L.scan_diskX` reads the damaged tape; `LR.asm_damaged` (MRL/Proofs/LDamage.lean) reassembles it:
the frames of the same entry before the junk slot are an unfinished entry, those after it are
non-first frames met outside an entry (skipped), every other group is read as before
(`L.asm_groups`). Damage inside an existing junk slot is not covered by the statement (`a.2 = none`
is asked); it changes nothing as long as the slot stays junk, but a junk slot could be "repaired"
into a valid frame by an adversarial replacement, which is the collision situation of C08, not C09.
-/
import MRL.Proofs.LDamage
import MRL.Props.C08CrashFull
import MRL.Props.C09Close

namespace MRL.C09X
open MRL Consts Codec Log Img C05 C01J G H L Torn LR

/-- the frame `a` with its checksum bytes replaced by `crc'` and its payload bytes by `p'` -/
def damaged (a : AItm) (crc' p' : Bytes) : AItm :=
  ((a.1.1, (a.1.2.1, p')), some (Raw.bytes (crc', a.1.2.1, p')))

/-- the slot of a frame as written: checksum, length, type, payload -/
theorem slot_written (a : AItm) (ha : a.2 = none) :
    slot a = leBytes (frameCrc a.1.2.1 a.1.2.2) 4 ++ leBytes a.1.2.2.length 2 ++ [a.1.2.1.code.toUInt8] ++ a.1.2.2 := by
  unfold slot
  rw [ha, Option.getD_none, ← good_bytes]
  simp [good, Raw.bytes]

/-- the slot of the damaged frame: the same length and type bytes, the checksum bytes `crc'`, the
    payload bytes `p'` -/
theorem slot_damaged (a : AItm) (crc' p' : Bytes) (hp : p'.length = a.1.2.2.length) :
    slot (damaged a crc' p') = crc' ++ leBytes a.1.2.2.length 2 ++ [a.1.2.1.code.toUInt8] ++ p' := by
  simp [slot, damaged, Raw.bytes, hp]

/-- same slot size: every position of the tape is unchanged -/
theorem damaged_layout (g : Geom) (F L : Nat) (A1 : List AItm) (a : AItm) (A2 : List AItm) (crc' p' : Bytes)
    (h4 : crc'.length = 4) (hp : p'.length = a.1.2.2.length) (hdet : frameCrc a.1.2.1 p' ≠ leNat crc')
    (hfits : Fits g 0 (frs (A1 ++ a :: A2))) (htag : Tagged g F 0 (tfs (A1 ++ a :: A2)))
    (hjok : JOK g L 0 (A1 ++ a :: A2)) :
    Fits g 0 (frs (A1 ++ damaged a crc' p' :: A2)) ∧ Tagged g F 0 (tfs (A1 ++ damaged a crc' p' :: A2)) ∧
    JOK g L 0 (A1 ++ damaged a crc' p' :: A2) ∧
    endPos g 0 (frs (A1 ++ damaged a crc' p' :: A2)) = endPos g 0 (frs (A1 ++ a :: A2)) := by
  refine ⟨?_, ?_, ?_, ?_⟩
  · rw [frs_append, frs_cons] at hfits ⊢
    exact Fits_len_congr g (frs A1) a.1.2.1 a.1.2.2 p' (frs A2) hp 0 hfits
  · rw [tfs_append, tfs_cons, Tagged_append] at htag ⊢
    refine ⟨htag.1, ?_⟩
    have h2 := htag.2
    simp only [Tagged, damaged] at h2 ⊢
    rw [hp]; exact h2
  · rw [JOK_append] at hjok ⊢
    refine ⟨hjok.1, ?_⟩
    have h2 := hjok.2
    simp only [JOK, damaged] at h2 ⊢
    rw [hp]
    refine ⟨?_, h2.2⟩
    intro r hr
    simp only [Option.some.injEq] at hr
    exact Or.inl ⟨crc', h4, hr.symm, by simp [Raw.ev, hdet]⟩
  · rw [frs_append, frs_cons, frs_append, frs_cons, endPos_append, endPos_append]
    simp only [endPos, damaged]
    rw [hp]

theorem abs_mem {x y : MemQueue} (h : x.abs = y.abs) {p : Nat} {pl : Bytes} (hm : (p, pl) ∈ Rec.plain x) :
    ∃ r' ∈ y.recs, r'.pos = p ∧ r'.payload = pl := by
  have hr := congrArg SQueue.recs h
  simp only [MemQueue.abs] at hr
  unfold Rec.plain at hm
  rw [hr] at hm
  obtain ⟨r', hr', he⟩ := List.mem_map.mp hm
  simp only [Prod.mk.injEq] at he
  exact ⟨r', hr', he.1, he.2⟩

/-- **one damaged frame on a `DiskX` disk** -/
theorem one_frame_diskX (g : Geom) (hB : g.B ≤ 65542) {D : Image} {F : Nat} {J : List JE} (hd : DiskX g D F J)
    (hwf : ∀ j ∈ J, C07.WF j.e) (hmono : J.Pairwise (fun a b => a.loc ≤ b.loc)) (qs lq : MemQueues)
    (hrep : replayJ F [] J = some qs) (hEq : QsEquiv qs lq) (hR : RunOK J lq) :
    ∃ (ais : List AItm) (z0 : Nat) (res : Bytes) (z1 : Nat),
      streamOf D = flatJ g 0 ais ++ zeros z0 ++ res ++ zeros z1 ∧ Fits g 0 (frs ais) ∧
      ∀ A1 a A2, ais = A1 ++ a :: A2 → a.2 = none →
      ∀ crc' p' : Bytes, crc'.length = 4 → p'.length = a.1.2.2.length → frameCrc a.1.2.1 p' ≠ leNat crc' →
      ∀ W', SameShape D W' →
        streamOf W' = flatJ g 0 (A1 ++ damaged a crc' p' :: A2) ++ zeros z0 ++ res ++ zeros z1 →
      ∀ (policy : Policy) (order : List Bytes),
        ∃ r idx, recover g W' policy order none = .ok r ∧
          ∀ name q, lq.get? name = some q → ∀ rc ∈ q.recs, ¬ C09V.RecordOfIdx J idx name rc →
            ∃ q', r.log.queues.get? name = some q' ∧ ∃ r' ∈ q'.recs, r'.pos = rc.pos ∧ r'.payload = rc.payload := by
  obtain ⟨cs, x, ais, res, z0, hne, hfull, ⟨z1, hflat⟩, hX, hlast, hfits, htag, hjok, hresok, lead, gs, hais, hlead,
    hmap, hok⟩ := hd
  have hstreamD : streamOf D = cs.flatten := by
    rw [hX, streamOf_append, streamOf_imgOf, streamOf_xtra, List.append_nil]
  refine ⟨ais, z0, res, z1, by rw [hstreamD]; exact hflat, hfits, ?_⟩
  intro A1 a A2 hsplit ha crc' p' h4 hp hdet W' hshape hS' policy order
  subst hsplit
  obtain ⟨hfits', htag', hjok', hend⟩ := damaged_layout g F _ A1 a A2 crc' p' h4 hp hdet hfits htag hjok
  -- the damaged image
  rw [hX] at hshape
  obtain ⟨A', B', hW', hsA, hsB⟩ := sameShape_append _ _ W' hshape
  have hB' := sameShape_xtra x _ B' hsB
  obtain ⟨hA', hlens⟩ := sameShape_imgOf cs F A' hsA
  generalize hcs' : A'.map (·.2) = cs' at hA' hlens
  have hfull' : ∀ c ∈ cs', c.length = g.fileBytes := by
    intro c hc
    have : c.length ∈ cs'.map List.length := List.mem_map_of_mem hc
    rw [hlens] at this
    obtain ⟨c0, hc0, he⟩ := List.mem_map.mp this
    rw [← he]; exact hfull c0 hc0
  have hne' : cs' ≠ [] := by
    intro hn
    rw [hn] at hlens
    simp only [List.map_nil] at hlens
    exact hne (List.map_eq_nil_iff.mp hlens.symm)
  have hlen' : cs'.length = cs.length := by
    have := congrArg List.length hlens
    simpa using this
  have hW'' : W' = G.imgOf F cs' ++ L.xtra x (F + cs'.length) := by rw [hW', hA', hB', hlen']
  have hstream' : streamOf W' = cs'.flatten := by
    rw [hW'', streamOf_append, streamOf_imgOf, streamOf_xtra, List.append_nil]
  rw [hstream'] at hS'
  -- the scan of the damaged tape
  obtain ⟨evT, e, ke, ce, zz, hscan, hevT, _⟩ := scan_diskX g hB F cs' hne' hfull' _ res z0 z1 hS' hfits' htag'
    (by rw [hlen']; exact hjok') (by rw [hlen', hend]; exact hlast) (by rw [hlen', hend]; exact hresok)
  -- reassembly
  have hmonoT := tags_mono g F _ 0 htag
  have hFT : ∀ y ∈ tfs (A1 ++ a :: A2), F ≤ y.1 := by
    intro y hy
    obtain ⟨h, _, _, h3⟩ := tag_pos g F _ 0 htag y hy
    rw [h3]; exact Nat.le_add_right _ _
  obtain ⟨Jd, st', R, hasm, hents, hcases⟩ := asm_damaged F lead gs hlead hok (by rw [← hais]; exact hmonoT)
    (by rw [← hais]; exact hFT) A1 a A2 hais.symm ha (damaged a crc' p') rfl rfl _ rfl evT
  obtain ⟨Rt, hRt, hRt0⟩ : ∃ Rt, assemble st' evT = Rt ∧ entriesOf Rt = [] := by
    rcases hevT with h | ⟨f, h⟩
    · subst h; exact ⟨[], rfl, rfl⟩
    · subst h; exact ⟨[RecEv.corrupt], rfl, rfl⟩
  rw [hRt] at hasm
  have hlive : liveJ gs = J.filter (fun j => decide (F ≤ j.loc)) := hmap
  -- the journal, split at the first tracked file
  obtain ⟨J1, J2, hJ, h1, h2⟩ := C09R.split_loc F J hmono
  subst hJ
  rw [filter_split F J1 J2 h1 h2] at hlive
  rw [hlive] at hcases
  obtain ⟨L0, Lf, hw0, hrun, _, _⟩ := hR
  -- common end: from a target journal `T` with the same entries as the one delivered
  have hfinish : ∀ (T : List JE) (qsT : MemQueues), (∀ j ∈ T, j ∈ J2) → All2 (Rel F) Jd T →
      replayJ F [] T = some qsT →
      ∃ r, recover g W' policy order none = .ok r ∧ H.AbsEq qsT r.log.queues := by
    intro T qsT hTsub hrel hT
    have hJdwf : ∀ j ∈ Jd, C07.WF j.e ∧ F ≤ j.attr ∧ j.attr ≤ j.loc := by
      intro j hj
      obtain ⟨b, hb, hb1, _, hb3, hb4⟩ := hrel.mem_left j hj
      exact ⟨by rw [hb1]; exact hwf b (List.mem_append_right _ (hTsub b hb)), hb3, hb4⟩
    have hrepl : replay [] (R ++ Rt) = replayJ F [] Jd := by
      rw [replay_entriesOf, entriesOf_append, hents, hRt0, List.append_nil]
      exact replay_entriesEv F _ [] hJdwf
    obtain ⟨r1, hr1, hab⟩ := replayJ_abs F Jd T [] [] qsT (hrel.imp (fun a b h => h.1))
      (fun j hj => by have := hJdwf j hj; omega) (fun j hj => h2 j (hTsub j hj))
      (AbsEq.refl _) QsWF.nil QsWF.nil hT
    obtain ⟨io, hrec⟩ := recoverPre_scanX g F cs' hne' hfull' x W' hW'' policy _ e r1 hscan
      (by rw [hasm, hrepl, hr1])
    obtain ⟨r, hr, hrq⟩ := recover_of_pre g W' policy order _ _ io hrec
    exact ⟨r, hr, by rw [hrq]; exact hab⟩
  have hskip : ∀ js', replayJ F [] (J1 ++ js') = replayJ F [] js' := by
    intro js'
    rw [replayJ_append, Drop.replayJ_skip F [] J1 h1]; rfl
  rcases hcases with hall | ⟨k, hk, hsome⟩
  · -- nothing is lost
    obtain ⟨r, hr, hab⟩ := hfinish J2 qs (fun j hj => hj) hall (by rw [← hskip]; exact hrep)
    refine ⟨r, (J1 ++ J2).length, hr, ?_⟩
    intro name q hq rc hrc _
    obtain ⟨xq, hxq, hxe⟩ := hEq.symm.get_some hq
    obtain ⟨y, hy, hxy⟩ := hab.get_some hxq
    have hmem : (rc.pos, rc.payload) ∈ Rec.plain xq := by
      unfold Rec.plain; rw [← hxe.1]
      exact List.mem_map_of_mem (f := fun r : MRL.Rec => (r.pos, r.payload)) hrc
    exact ⟨y, hy, abs_mem hxy hmem⟩
  · -- the entry of the damaged frame is lost
    have ha' : J1.length + k < (J1 ++ J2).length := by simp; omega
    have hers : (J1 ++ J2).eraseIdx (J1.length + k) = J1 ++ J2.eraseIdx k := by
      rw [List.eraseIdx_append_of_length_le (by omega)]
      congr 2; omega
    obtain ⟨qs', hq1, _, hq2⟩ := drop_coreX F (J1 ++ J2) L0 Lf qs lq hw0 hrun hmono hrep hEq _ ha'
    rw [hers, hskip] at hq1
    obtain ⟨r, hr, hab⟩ := hfinish (J2.eraseIdx k) qs' (fun j hj => List.mem_of_mem_eraseIdx hj) hsome hq1
    refine ⟨r, J1.length + k, hr, ?_⟩
    intro name q hq rc hrc hnot
    obtain ⟨q', hq', hm'⟩ := hq2 name q hq rc hrc (fun hrec => hnot ⟨ha', hrec⟩)
    obtain ⟨y, hy, hxy⟩ := hab.get_some hq'
    exact ⟨y, hy, abs_mem hxy hm'⟩

/-- **C09_drop_one_crash**: the replay-level half, for the hidden journal of every crash-reachable
    state -/
theorem C09_drop_one_crash (g : Geom) (hB : g.B ≤ 65542) (cap : Nat) (l : Log) (img : Image) (b : BufSt)
    (W : List Entry) (h : C02W.ReachXW g cap l img b W) :
    ∃ J : List JE, L.CInvX g l J (C02U.flushDisk img b) ∧ (∀ j ∈ J, C07.WF j.e) ∧ (∀ j ∈ J, j.e ∈ W) ∧
      ∀ (a : Nat) (ha : a < J.length),
        ∃ qs', replayJ (l.files.headD 0) [] (J.eraseIdx a) = some qs' ∧
          ∀ name q, l.queues.get? name = some q → ∀ r ∈ q.recs, ¬ C09R.RecordOf (J[a]) name r →
            ∃ q', qs'.get? name = some q' ∧ ∃ r' ∈ q'.recs, r'.pos = r.pos ∧ r'.payload = r.payload := by
  obtain ⟨J, hc, hw, hJW, hR⟩ := reachXR_journal g hB cap h
  refine ⟨J, hc, hw, hJW, ?_⟩
  intro a ha
  obtain ⟨hH, chunk, qs, hrep, heq, hqwf⟩ := hc.jinv
  obtain ⟨L0, Lf, hw0, hrun, _, _⟩ := hR
  obtain ⟨qs', hq1, _, hq2⟩ := drop_coreX _ J L0 Lf qs l.queues hw0 hrun chunk.mono hrep heq a ha
  refine ⟨qs', hq1, ?_⟩
  intro name q hq r hr hnot
  obtain ⟨q', hq', hm⟩ := hq2 name q hq r hr hnot
  unfold Rec.plain at hm
  obtain ⟨r', hr', he⟩ := List.mem_map.mp hm
  simp only [Prod.mk.injEq] at he
  exact ⟨q', hq', r', hr', he.1, he.2⟩

/-- **C09_crash_one_frame.** -/
theorem C09_crash_one_frame (g : Geom) (hB : g.B ≤ 65542) (cap : Nat) (l : Log) (img : Image) (b : BufSt)
    (W : List Entry) (h : C02W.ReachXW g cap l img b W) :
    ∃ (J : List JE) (ais : List AItm) (z0 : Nat) (res : Bytes) (z1 : Nat),
      L.CInvX g l J (C02U.flushDisk img b) ∧ (∀ j ∈ J, C07.WF j.e) ∧ (∀ j ∈ J, j.e ∈ W) ∧
      streamOf (C02U.flushDisk img b) = flatJ g 0 ais ++ zeros z0 ++ res ++ zeros z1 ∧ Fits g 0 (frs ais) ∧
      ∀ A1 a A2, ais = A1 ++ a :: A2 → a.2 = none →
      ∀ crc' p' : Bytes, crc'.length = 4 → p'.length = a.1.2.2.length → frameCrc a.1.2.1 p' ≠ leNat crc' →
      ∀ W', SameShape (C02U.flushDisk img b) W' →
        streamOf W' = flatJ g 0 (A1 ++ damaged a crc' p' :: A2) ++ zeros z0 ++ res ++ zeros z1 →
      ∀ (policy : Policy) (order : List Bytes),
        ∃ r idx, recover g W' policy order none = .ok r ∧
          ∀ name q, l.queues.get? name = some q → ∀ rc ∈ q.recs, ¬ C09V.RecordOfIdx J idx name rc →
            ∃ q', r.log.queues.get? name = some q' ∧ ∃ r' ∈ q'.recs, r'.pos = rc.pos ∧ r'.payload = rc.payload := by
  obtain ⟨J, hc, hw, hJW, hR⟩ := reachXR_journal g hB cap h
  obtain ⟨hH, chunk, qs, hrep, heq, hqwf⟩ := hc.jinv
  obtain ⟨init, t, x, res0, ais0, lead, gs, hx⟩ := hc.disk
  obtain ⟨ais, z0, res, z1, h1, h2, h3⟩ := one_frame_diskX g hB hx.diskX hw chunk.mono qs l.queues hrep heq hR
  exact ⟨J, ais, z0, res, z1, hc, hw, hJW, h1, h2, h3⟩

/-- the same on `C02U.ReachX` -/
theorem C09_crash_one_frame_reachX (g : Geom) (hB : g.B ≤ 65542) (cap : Nat) (l : Log) (img : Image) (b : BufSt)
    (h : C02U.ReachX g cap l img b) :
    ∃ (J : List JE) (ais : List AItm) (z0 : Nat) (res : Bytes) (z1 : Nat),
      L.CInvX g l J (C02U.flushDisk img b) ∧ (∀ j ∈ J, C07.WF j.e) ∧
      streamOf (C02U.flushDisk img b) = flatJ g 0 ais ++ zeros z0 ++ res ++ zeros z1 ∧ Fits g 0 (frs ais) ∧
      ∀ A1 a A2, ais = A1 ++ a :: A2 → a.2 = none →
      ∀ crc' p' : Bytes, crc'.length = 4 → p'.length = a.1.2.2.length → frameCrc a.1.2.1 p' ≠ leNat crc' →
      ∀ W', SameShape (C02U.flushDisk img b) W' →
        streamOf W' = flatJ g 0 (A1 ++ damaged a crc' p' :: A2) ++ zeros z0 ++ res ++ zeros z1 →
      ∀ (policy : Policy) (order : List Bytes),
        ∃ r idx, recover g W' policy order none = .ok r ∧
          ∀ name q, l.queues.get? name = some q → ∀ rc ∈ q.recs, ¬ C09V.RecordOfIdx J idx name rc →
            ∃ q', r.log.queues.get? name = some q' ∧ ∃ r' ∈ q'.recs, r'.pos = rc.pos ∧ r'.payload = rc.payload := by
  obtain ⟨W, hW⟩ := C02W.ReachXW.ofReachX h
  obtain ⟨J, ais, z0, res, z1, a1, a2, _, a4, a5, a6⟩ := C09_crash_one_frame g hB cap l img b W hW
  exact ⟨J, ais, z0, res, z1, a1, a2, a4, a5, a6⟩

end MRL.C09X
