/-
C09 (replay level) — losing ONE entry of the WAL costs at most that entry: `open` still succeeds,
and every retained record whose append was not the lost entry is recovered intact.

`C09.C09_one_frame` (byte level) shows that damage confined to the checksum/payload bytes of one
frame makes the reader deliver the entries with exactly one erased. Here: for every reachable
state `(l, J)` of the log and its journal (`C01J.Reach`) and every index `a`, replaying the
journal with entry `a` erased, from the first tracked file,
  (i)  never fails (no `Corruption`: no later append becomes `Past`), and
  (ii) yields, for every live queue and every record of it that was not appended by the erased
       entry itself, a queue of that name holding a record with the same position and payload.

Why it is true (`Drop.T`, the simulation relation, per queue name): the damaged replay `B` keeps
every record of the intact replay `A` that the erased entry did not append, with a next position
never above `A`'s (so later appends still fit); a queue that only `A` has holds nothing but
records of the erased entry; a queue that only `B` has (erased `delete`) does not exist in the
live state, so the next entry on it can only be its re-creation `touch name 0`, whose
`ack_position` RESETS the stale queue (`!is_empty() || next != next_position`) — the property
depends on that reset; and any touch makes `A` and `B` agree again. The discipline of
API-generated journals that is used (`Drop.OkEntry`, `Drop.reach_run`): appends and truncates
address existing queues, a touch is a creation of a missing queue or a GC touch of an empty one
at its next position.

Proof machinery: MRL/Proofs/Drop*.lean.
-/
import MRL.Proofs.DropSim
import MRL.Proofs.GenStream
import MRL.Props.C09

namespace MRL.C09R
open MRL Log C05 Rec Drop

/-- `r` (of queue `name`) was appended by journal entry `j` -/
def RecordOf (j : JE) (name : Bytes) (r : MRL.Rec) : Prop :=
  ∃ p recs, j.e = Entry.append name p recs ∧ (r.pos, r.payload) ∈ recs

theorem split_loc (F : Nat) : ∀ J : List JE, J.Pairwise (fun a b => a.loc ≤ b.loc) →
    ∃ J1 J2, J = J1 ++ J2 ∧ (∀ j ∈ J1, j.loc < F) ∧ (∀ j ∈ J2, F ≤ j.loc) := by
  intro J
  induction J with
  | nil => intro _; exact ⟨[], [], rfl, (fun _ h => by cases h), (fun _ h => by cases h)⟩
  | cons j js ih =>
    intro hp
    rw [List.pairwise_cons] at hp
    by_cases hj : j.loc < F
    · obtain ⟨J1, J2, h1, h2, h3⟩ := ih hp.2
      refine ⟨j :: J1, J2, by rw [h1]; rfl, ?_, h3⟩
      intro x hx
      rcases List.mem_cons.mp hx with rfl | hx
      · exact hj
      · exact h2 x hx
    · refine ⟨[], j :: js, rfl, (fun _ h => by cases h), ?_⟩
      intro x hx
      rcases List.mem_cons.mp hx with rfl | hx
      · omega
      · have := hp.1 x hx; omega

theorem run_split {c : MemQueues} (js js' : List JE) : ∀ {a : MemQueues}, Run a (js ++ js') c →
    ∃ b, Run a js b ∧ Run b js' c := by
  induction js with
  | nil => intro a h; exact ⟨a, Run.nil, h⟩
  | cons j js ih =>
    intro a h
    cases h with
    | cons ho hr hrest =>
      obtain ⟨b, h1, h2⟩ := ih hrest
      exact ⟨b, Run.cons ho hr h1, h2⟩

theorem run_wf {a b : MemQueues} {js : List JE} (h : Run a js b) (hw : QsWF a) : QsWF b := by
  induction h with
  | nil => exact hw
  | cons _ hr _ ih => exact ih (replayEntry_wf hw hr)

theorem inv3_nil (Er : List (Nat × Bytes)) (nx : Bytes) (L : MemQueues) (hw : QsWF L) : Inv3 Er nx L [] [] :=
  ⟨hw, QsWF.nil, QsWF.nil, fun _ => ⟨trivial, trivial⟩⟩

theorem mem_erasedOf {x : JE} {name : Bytes} {r : MRL.Rec}
    (h : (r.pos, r.payload) ∈ (if name = x.e.queue then erasedOf x.e else [])) : RecordOf x name r := by
  split at h
  · rename_i hn
    cases he : x.e with
    | append q p recs =>
      rw [he] at h hn
      simp only [Entry.queue] at hn
      subst hn
      exact ⟨p, recs, he, h⟩
    | truncate q p => rw [he] at h; cases h
    | touch q p => rw [he] at h; cases h
    | delete q p => rw [he] at h; cases h
  · cases h

/-- **C09_drop_one.** -/
theorem C09_drop_one (g : Geom) (l : Log) (J : List JE) (h : C01J.Reach g l J) (a : Nat) (ha : a < J.length) :
    let F := l.files.headD 0
    ∃ qs', replayJ F [] (J.eraseIdx a) = some qs' ∧
      ∀ name q, l.queues.get? name = some q →
        ∀ r ∈ q.recs, ¬ RecordOf (J[a]) name r →
          ∃ q', qs'.get? name = some q' ∧ ∃ r' ∈ q'.recs, r'.pos = r.pos ∧ r'.payload = r.payload := by
  intro F
  obtain ⟨qsA, hA, hEq⟩ := C01J.C01_journal g l J h
  have hrun := reach_run g h
  have hmono := (C01J.reach_jinv g h).chunk.mono
  obtain ⟨J1, J2, hJ, h1, h2⟩ := split_loc F J hmono
  subst hJ
  obtain ⟨Lk, hr1, hr2⟩ := run_split (c := l.queues) J1 J2 hrun
  have hwk : QsWF Lk := run_wf hr1 QsWF.nil
  have hskip : ∀ js : List JE, (∀ j ∈ js, j.loc < F) → ∀ js', replayJ F [] (js ++ js') = replayJ F [] js' := by
    intro js hjs js'
    rw [replayJ_append, replayJ_skip F [] js hjs]; rfl
  by_cases hlt : a < J1.length
  · -- the erased entry is in a deleted file: nothing changes
    have hers : (J1 ++ J2).eraseIdx a = J1.eraseIdx a ++ J2 := List.eraseIdx_append_of_lt_length hlt J2
    refine ⟨qsA, ?_, ?_⟩
    · rw [hers, hskip _ (fun j hj => h1 j (List.mem_of_mem_eraseIdx hj)), ← hskip J1 h1]
      exact hA
    · intro name q hq r hr _
      obtain ⟨x, hx, hxq⟩ := hEq.symm.get_some hq
      exact ⟨x, hx, r, by rw [← hxq.1]; exact hr, rfl, rfl⟩
  · -- the erased entry is replayed
    have hge : J1.length ≤ a := by omega
    have hb : a - J1.length < J2.length := by simp at ha; omega
    have hsplit2 : J2 = J2.take (a - J1.length) ++ J2[a - J1.length] :: J2.drop (a - J1.length + 1) := by
      rw [← List.drop_eq_getElem_cons hb, List.take_append_drop]
    have hers : (J1 ++ J2).eraseIdx a = J1 ++ (J2.take (a - J1.length) ++ J2.drop (a - J1.length + 1)) := by
      rw [List.eraseIdx_append_of_length_le hge, List.eraseIdx_eq_take_drop_succ]
    have hget : (J1 ++ J2)[a] = J2[a - J1.length] := List.getElem_append_right hge
    generalize hP : J2.take (a - J1.length) = P at hsplit2 hers
    generalize hS : J2.drop (a - J1.length + 1) = S at hsplit2 hers
    generalize hx : J2[a - J1.length] = x at hsplit2 hget
    have h2P : ∀ j ∈ P, F ≤ j.loc := fun j hj => h2 j (by rw [hsplit2]; exact List.mem_append_left _ hj)
    have h2x : F ≤ x.loc := h2 x (by rw [hsplit2]; simp)
    have h2S : ∀ j ∈ S, F ≤ j.loc := fun j hj => h2 j (by rw [hsplit2]; simp [hj])
    rw [hsplit2] at hr2
    obtain ⟨L1, hrP, hrxS⟩ := run_split (c := l.queues) P (x :: S) hr2
    cases hrxS with
    | @cons _ L2 _ _ _ hok hrx hrS =>
      -- before the erased entry: `B = A`
      obtain ⟨A1, B1, hA1, hB1, hI1⟩ := inv3_run (F := F) hrP h2P (inv3_nil (erasedOf x.e) x.e.queue Lk hwk)
      have hAB : B1 = A1 := by rw [hA1] at hB1; exact (Option.some.inj hB1).symm
      subst hAB
      -- the erased entry
      obtain ⟨A2, hA2, hI2⟩ := inv3_erase (fA := max x.attr F) hok hrx hI1
      -- after it
      obtain ⟨A3, B3, hA3, hB3, hI3⟩ := inv3_run (F := F) hrS h2S hI2
      -- the intact replay is the one of C01
      have hAfull : replayJ F [] (J1 ++ J2) = some A3 := by
        rw [hskip J1 h1, hsplit2, replayJ_append, hA1]
        simp only [Option.bind_some]
        rw [replayJ_cons_ge F B1 x S h2x, hA2]
        exact hA3
      rw [hA] at hAfull
      cases hAfull
      refine ⟨B3, ?_, ?_⟩
      · rw [hers, hskip J1 h1, replayJ_append, hA1]
        exact hB3
      · intro name q hq r hr hnot
        rw [hget] at hnot
        obtain ⟨xq, hxq, hxe⟩ := hEq.symm.get_some hq
        have hmem : (r.pos, r.payload) ∈ plain xq := by
          unfold plain
          rw [← hxe.1]
          exact List.mem_map_of_mem (f := fun r : MRL.Rec => (r.pos, r.payload)) hr
        have hT := hI3.2.2.2 name
        rw [hxq] at hT
        have hnotEr : (r.pos, r.payload) ∉ (if name = x.e.queue then erasedOf x.e else []) :=
          fun hin => hnot (mem_erasedOf hin)
        cases hB : B3.get? name with
        | none =>
          rw [hB] at hT
          exact absurd (hT.2 _ hmem) hnotEr
        | some y =>
          rw [hB] at hT
          have := hT.2.2 _ hmem hnotEr
          unfold plain at this
          obtain ⟨r', hr', he⟩ := List.mem_map.mp this
          simp only [Prod.mk.injEq] at he
          exact ⟨y, rfl, r', hr', he.1, he.2⟩

/-- the theorem applies to every history (`C01J.run`: log and journal after a list of calls) -/
theorem C09_drop_one_run (g : Geom) (policy : Policy) (cs : List (Call × Bool × List Bytes)) (a : Nat) :
    let r := C01J.run g { files := [0], cur := 0, off := 0, queues := [], policy := policy } [] cs
    ∀ ha : a < r.2.length,
    ∃ qs', replayJ (r.1.files.headD 0) [] (r.2.eraseIdx a) = some qs' ∧
      ∀ name q, r.1.queues.get? name = some q →
        ∀ rc ∈ q.recs, ¬ RecordOf (r.2[a]) name rc →
          ∃ q', qs'.get? name = some q' ∧ ∃ r' ∈ q'.recs, r'.pos = rc.pos ∧ r'.payload = rc.payload := by
  intro r ha
  exact C09_drop_one g r.1 r.2 (C01J.reach_run g cs _ _ (C01J.Reach.init policy)) a ha

/-! ### illustration on the journal `C01J.exJ` (a real history, see there)

`[touch [1] 0, touch [2] 0, append [1] 0 [(0,[9])], append [1] 1 [(1,[8])], truncate [1] 0,
touch [2] 0]`, live queues `[1] ↦ {1 ↦ [8]}`, `[2] ↦ ∅`. Erasing the creation of `[1]`, its first
append, its truncate (one more record retained), or the second append (its own record lost, the
others kept): the replay succeeds each time. -/
example :
    (replayJ 0 [] (C01J.exJ.eraseIdx 0)).map (fun qs => (qs.get? [1]).map plain) = some (some [(1, [8])]) ∧
    (replayJ 0 [] (C01J.exJ.eraseIdx 2)).map (fun qs => (qs.get? [1]).map plain) = some (some [(1, [8])]) ∧
    (replayJ 0 [] (C01J.exJ.eraseIdx 4)).map (fun qs => (qs.get? [1]).map plain) = some (some [(0, [9]), (1, [8])]) ∧
    (replayJ 0 [] (C01J.exJ.eraseIdx 3)).map (fun qs => (qs.get? [1]).map plain) = some (some []) := by
  refine ⟨by decide, by decide, by decide, by decide⟩

/-! ### end to end, single file

A journal whose entries are all located in and attributed to file 0 (no roll-over yet), written
from cursor 0: the clean content of the file is the stream of `C07`/`C09` for the encoded entries.
Damage the checksum/payload bytes of one frame (detected, `hdet`): the reader delivers all entries
but one (`C09.C09_one_frame`), they decode back (`C07.decode_encode`), the replay is that of the
journal with that entry erased, and `C09_drop_one` applies. (That the bytes on disk ARE this
stream is the business of the disk layer; here the stream is defined from the journal.) -/

theorem eraseIdx_map' {α β : Type} (f : α → β) : ∀ (l : List α) (i : Nat),
    (l.map f).eraseIdx i = (l.eraseIdx i).map f := by
  intro l
  induction l with
  | nil => intro i; rfl
  | cons x l ih =>
    intro i
    cases i with
    | zero => rfl
    | succ i => simp only [List.map_cons, List.eraseIdx_cons_succ, ih]

theorem replayJ_zero (js : List JE) (h : ∀ j ∈ js, j.attr = 0) : ∀ qs,
    replayJ 0 qs js = replayEntries qs (js.map fun j => (0, j.e)) := by
  induction js with
  | nil => intro qs; rfl
  | cons j js ih =>
    intro qs
    have hj : max j.attr 0 = 0 := by rw [h j List.mem_cons_self]; rfl
    simp only [replayJ, Nat.not_lt_zero, if_false, hj, List.map_cons, replayEntries]
    cases replayEntry qs 0 j.e with
    | none => rfl
    | some qs' => exact ih (fun j' hj' => h j' (List.mem_cons_of_mem _ hj')) qs'

theorem C09_end_to_end (g : Geom) (hB : g.B ≤ 65542) (l : Log) (J : List JE) (h : C01J.Reach g l J)
    (hfile : ∀ j ∈ J, j.attr = 0) (hF : l.files.headD 0 = 0) (hwf : ∀ j ∈ J, C07.WF j.e)
    (z : Nat) (hz : 7 ≤ z) (fs1 : List Codec.Frm) (t : FrameType) (p : Bytes) (fs2 : List Codec.Frm)
    (hfs : Torn.framesOf g 0 (Torn.Bpos g) (J.map fun j => j.e.encode) = fs1 ++ (t, p) :: fs2)
    (crc' p' : Bytes) (h4 : crc'.length = 4) (hp : p'.length = p.length) (hdet : frameCrc t p' ≠ leNat crc') :
    let stream' := zeros 0 ++ (C09.damagedBufs g 0 fs1 t fs2 crc' p').flatten ++ zeros z
    stream'.length % g.B = 0 →
    ∃ (a : Nat) (ha : a < J.length) (b0 : Blk) (rest : List Blk) (evs : List RdEv) (e : EndPos) (io : Nat)
      (qs' : MemQueues),
      fileBlocks g 0 stream' 1 0 (stream'.length / g.B) = b0 :: rest ∧
      scanBlocks g none 1 0 b0 0 rest = some (evs, e, io) ∧
      replay [] (assemble { within := false, buf := [], attr := 0 } evs) = some qs' ∧
      ∀ name q, l.queues.get? name = some q →
        ∀ r ∈ q.recs, ¬ RecordOf (J[a]) name r →
          ∃ q', qs'.get? name = some q' ∧ ∃ r' ∈ q'.recs, r'.pos = r.pos ∧ r'.payload = r.payload := by
  intro stream' hmod
  obtain ⟨a, ha, _, _, b0, rest, evs, e, io, h1, h2, h3, _, _⟩ :=
    C09.C09_one_frame g hB 0 (Torn.Bpos g) (J.map fun j => j.e.encode) 0 z hz fs1 t p fs2 hfs crc' p' h4 hp hdet hmod
  have ha' : a < J.length := by simpa using ha
  obtain ⟨qs', hq1, hq2⟩ := C09_drop_one g l J h a ha'
  rw [hF] at hq1
  refine ⟨a, ha', b0, rest, evs, e, io, qs', h1, h2, ?_, hq2⟩
  rw [replay_eq, ← Gen.decoded_entriesOf, show Torn.entriesOf _ = _ from h3]
  have hmap : ((J.map fun j => j.e.encode).eraseIdx a).map (RecEv.entry 0) =
      ((J.eraseIdx a).map (·.e)).map (fun en => RecEv.entry 0 en.encode) := by
    rw [eraseIdx_map']; simp
  rw [hmap, Gen.decoded_encoded 0 _ (fun en hen => by
    obtain ⟨j, hj, rfl⟩ := List.mem_map.mp hen
    exact C07.decode_encode j.e (hwf j (List.mem_of_mem_eraseIdx hj)))]
  rw [replayJ_zero _ (fun j hj => hfile j (List.mem_of_mem_eraseIdx hj))] at hq1
  simpa [Function.comp_def] using hq1

end MRL.C09R
