/-
C06: after `truncate` or `delete_queue` returns (and after `open`), the directory holds exactly a
contiguous run of WAL files ending at the file being written; the oldest of them is not older than
both the file being written when the call began and every file some queue still holds a handle on;
`disk_used_bytes` is the total nominal size of those files. GC never releases a referenced file.
-/
import MRL.Proofs.StepGc
import MRL.Props.C14

namespace MRL.C06
open MRL MRL.Log MRL.Step

/-! ### Contiguous runs -/

/-- non-empty, each element the successor of the previous one -/
def Contig : List Nat → Prop
  | [] => False
  | [_] => True
  | a :: b :: rest => b = a + 1 ∧ Contig (b :: rest)

/-- the tracked files are a contiguous run ending at the file being written -/
def FilesOk (l : Log) : Prop := Contig l.files ∧ l.files.getLast? = some l.cur

theorem contig_ne_nil {fs : List Nat} (h : Contig fs) : fs ≠ [] := by
  intro e; subst e; exact h

theorem contig_sorted {fs : List Nat} (h : Contig fs) : fs.Pairwise (· < ·) := by
  induction fs with
  | nil => exact List.Pairwise.nil
  | cons a fs ih =>
    cases fs with
    | nil => exact List.pairwise_singleton _ _
    | cons b rest =>
      obtain ⟨hb, hc⟩ := h
      have ih' := ih hc
      rw [List.pairwise_cons]
      refine ⟨?_, ih'⟩
      intro x hx
      rcases List.mem_cons.mp hx with rfl | hx
      · omega
      · have := (List.pairwise_cons.mp ih').1 x hx
        omega

theorem contig_nodup {fs : List Nat} (h : Contig fs) : fs.Nodup :=
  (contig_sorted h).imp (fun hab => Nat.ne_of_lt hab)

theorem contig_suffix {d r : List Nat} (h : Contig (d ++ r)) (hr : r ≠ []) : Contig r := by
  induction d with
  | nil => exact h
  | cons a d ih =>
    apply ih
    cases hdr : d ++ r with
    | nil =>
      have := List.append_eq_nil_iff.mp hdr
      exact absurd this.2 hr
    | cons b t =>
      rw [List.cons_append, hdr] at h
      exact h.2

theorem contig_snoc {fs : List Nat} {c : Nat} (h : Contig fs) (hl : fs.getLast? = some c) :
    Contig (fs ++ [c + 1]) := by
  induction fs with
  | nil => exact absurd h id
  | cons a fs ih =>
    cases fs with
    | nil =>
      simp only [List.getLast?_singleton, Option.some.injEq] at hl
      subst hl
      exact ⟨rfl, trivial⟩
    | cons b rest =>
      obtain ⟨hb, hc⟩ := h
      rw [List.getLast?_cons_cons] at hl
      exact ⟨hb, ih hc hl⟩

theorem contig_le_last {fs : List Nat} {c : Nat} (h : Contig fs) (hl : fs.getLast? = some c) :
    ∀ x ∈ fs, x ≤ c := by
  obtain ⟨ys, rfl⟩ := List.getLast?_eq_some_iff.mp hl
  have := List.pairwise_append.mp (contig_sorted h)
  intro x hx
  rcases List.mem_append.mp hx with hx | hx
  · exact Nat.le_of_lt (this.2.2 x hx c (List.mem_singleton.mpr rfl))
  · rw [List.mem_singleton.mp hx]; exact Nat.le_refl _

theorem getLast?_suffix {d r : List Nat} (hr : r ≠ []) : (d ++ r).getLast? = r.getLast? := by
  rw [List.getLast?_append]
  cases h : r.getLast? with
  | none => exact absurd (List.getLast?_eq_none_iff.mp h) hr
  | some x => rfl

theorem FilesOk.same {l l' : Log} (h : FilesOk l) (hf : l'.files = l.files) (hc : l'.cur = l.cur) : FilesOk l' := by
  unfold FilesOk; rw [hf, hc]; exact h

theorem FilesOk.cur_mem {l : Log} (h : FilesOk l) : l.cur ∈ l.files := List.mem_of_getLast? h.2

/-- the initial log -/
theorem filesOk_init (off : Nat) (qs : MemQueues) (p : Policy) :
    FilesOk { files := [0], cur := 0, off := off, queues := qs, policy := p } := ⟨trivial, rfl⟩

/-! ### The invariant along the write path -/

section
variable (g : Geom)

theorem nextFile_none_of_ok {l : Log} (h : FilesOk l) : nextFile l.files l.cur = none := by
  unfold nextFile
  rw [List.find?_eq_none]
  intro x hx
  have := contig_le_last h.1 h.2 x hx
  simp only [decide_eq_true_eq]
  omega

theorem writeBuf_filesOk (l : Log) (buf : Bytes) (h : FilesOk l) : FilesOk (writeBuf g l buf).1 := by
  unfold writeBuf
  rw [nextFile_none_of_ok h]
  split
  · exact h
  · split
    · exact ⟨contig_snoc h.1 h.2, List.getLast?_concat⟩
    · exact h.same rfl rfl

theorem writeBufs_filesOk (bufs : List Bytes) : ∀ l : Log, FilesOk l → FilesOk (writeBufs g l bufs).1 := by
  induction bufs with
  | nil => intro l h; exact h
  | cons b bs ih => intro l h; rw [writeBufs_cons]; exact ih _ (writeBuf_filesOk g l b h)

theorem writeEntry_filesOk (l : Log) (e : Entry) (h : FilesOk l) : FilesOk (l.writeEntry g e).1 := by
  rw [writeEntry_eq]; exact writeBufs_filesOk g _ l h

theorem writeTouches_filesOk (names : List Bytes) : ∀ l : Log, FilesOk l → FilesOk (writeTouches g l names).1 := by
  induction names with
  | nil => intro l h; exact h
  | cons n ns ih => intro l h; rw [writeTouches_cons]; exact ih _ (writeEntry_filesOk g l _ h)

/-- what one GC pass guarantees -/
theorem runGc_reclaim (l : Log) (order : List Bytes) (h : FilesOk l) :
    FilesOk (runGc g l order).1 ∧ (runGc g l order).1.queues = l.queues ∧
    l.cur ≤ (runGc g l order).1.cur ∧
    ∀ f₀, (runGc g l order).1.files.head? = some f₀ →
      l.cur ≤ f₀ ∨ (runGc g l order).1.queues.refsFile f₀ = true := by
  rcases runGc_trichotomy g l order with ⟨hr, _⟩ | ⟨hr, f, f', rest, hfs, hd⟩ | ⟨hr, hshort⟩
  · rw [hr]
    simp only [gcResult]
    have hok1 := writeTouches_filesOk g (gcNames l order) l h
    have hq1 := writeTouches_queues g (gcNames l order) l
    have hc1 := writeTouches_cur_le g (gcNames l order) l
    generalize writeTouches g l (gcNames l order) = r at hok1 hq1 hc1
    have hsplit := gcFiles_split (r.1.canDelete l.cur) r.1.files
    have hne := gcFiles_ne_nil (r.1.canDelete l.cur) r.1.files (contig_ne_nil hok1.1)
    refine ⟨⟨?_, ?_⟩, hq1, hc1, ?_⟩
    · have := hok1.1
      rw [← hsplit] at this
      exact contig_suffix this hne
    · have := hok1.2
      rw [← hsplit, getLast?_suffix hne] at this
      exact this
    · intro f₀ hf₀
      rcases gcFiles_head _ _ f₀ hf₀ with hone | hnd
      · left
        have : (gcFiles (r.1.canDelete l.cur) r.1.files).1.getLast? = some r.1.cur := by
          have := hok1.2
          rw [← hsplit, getLast?_suffix hne] at this
          exact this
        rw [hone] at this
        simp only [List.getLast?_singleton, Option.some.injEq] at this
        omega
      · simp only [canDelete, Bool.and_eq_false_iff, bne_eq_false_iff_eq, Bool.not_eq_false'] at hnd
        rcases hnd with (hnd | hnd) | hnd
        · left; omega
        · left; omega
        · right; exact hnd
  · rw [hr]
    refine ⟨h, rfl, Nat.le_refl _, ?_⟩
    intro f₀ hf₀
    rw [hfs] at hf₀
    simp only [List.head?_cons, Option.some.injEq] at hf₀
    subst hf₀
    simp only [canDelete, Bool.and_eq_false_iff, bne_eq_false_iff_eq, Bool.not_eq_false'] at hd
    rcases hd with (hd | hd) | hd
    · left; omega
    · left; omega
    · right; exact hd
  · rw [hr]
    refine ⟨h, rfl, Nat.le_refl _, ?_⟩
    intro f₀ hf₀
    left
    match hfs : l.files, hshort with
    | [], _ => rw [hfs] at hf₀; cases hf₀
    | [x], _ =>
      have h2 := h.2
      rw [hfs] at hf₀ h2
      simp only [List.head?_cons, List.getLast?_singleton, Option.some.injEq] at hf₀ h2
      omega
    | a :: b :: rest, hs => exact absurd rfl (hs a b rest)

end

/-! ### (a) the invariant is preserved by every call -/

variable (g : Geom) (l : Log) (c : Call) (tick : Bool) (order : List Bytes)

/-- **C06 (a).** A contiguous run ending at the current file stays one. -/
theorem filesOk_step (h : FilesOk l) : FilesOk (Log.step g l c tick order).1 := by
  rcases step_shape2 g l c tick order with ⟨out, hs⟩ | ⟨a, _, hs⟩ | ⟨e, qs', out, hs⟩
  · rw [hs]; exact h
  · rw [hs]; exact h
  · rw [hs]
    have h1 := writeEntry_filesOk g l e h
    have h2 : FilesOk { (l.writeEntry g e).1 with queues := qs' } := h1.same rfl rfl
    cases isGcCall c with
    | false => exact h2
    | true => exact (runGc_reclaim g _ order h2).1

/-- … hence by every history -/
theorem filesOk_run (cs : List (Call × List Bytes)) :
    ∀ (l : Log) (ticks : List Bool), FilesOk l → FilesOk (C14.run g l cs ticks).1 := by
  induction cs with
  | nil => intro l _ h; exact h
  | cons co cs ih =>
    intro l ticks h
    obtain ⟨c, order⟩ := co
    simp only [C14.run]
    exact ih _ _ (filesOk_step g l c _ order h)

/-- the current file number never decreases -/
theorem cur_le_step (h : FilesOk l) : l.cur ≤ (Log.step g l c tick order).1.cur := by
  rcases step_shape2 g l c tick order with ⟨out, hs⟩ | ⟨a, _, hs⟩ | ⟨e, qs', out, hs⟩
  · rw [hs]; exact Nat.le_refl _
  · rw [hs]; exact Nat.le_refl _
  · rw [hs]
    have h1 := writeEntry_filesOk g l e h
    have hle := writeEntry_cur_le g l e
    have h2 : FilesOk { (l.writeEntry g e).1 with queues := qs' } := h1.same rfl rfl
    cases isGcCall c with
    | false => exact hle
    | true => exact Nat.le_trans hle (runGc_reclaim g _ order h2).2.2.1

/-! ### (b) what `truncate` and `delete_queue` leave on disk -/

theorem reclaim_core (e : Entry) (qs' : MemQueues) (h : FilesOk l) :
    let r3 := runGc g { (l.writeEntry g e).1 with queues := qs' } order
    FilesOk r3.1 ∧ ∀ f₀, r3.1.files.head? = some f₀ → l.cur ≤ f₀ ∨ r3.1.queues.refsFile f₀ = true := by
  intro r3
  have h1 := writeEntry_filesOk g l e h
  have hle := writeEntry_cur_le g l e
  have h2 : FilesOk { (l.writeEntry g e).1 with queues := qs' } := h1.same rfl rfl
  obtain ⟨hok, _, _, hhead⟩ := runGc_reclaim g _ order h2
  refine ⟨hok, fun f₀ hf₀ => ?_⟩
  rcases hhead f₀ hf₀ with hh | hh
  · left; exact Nat.le_trans hle hh
  · right; exact hh

/-- **C06 (b).** After a `truncate` or `delete_queue` (`isGcCall c`): the directory is a contiguous
    run ending at the file being written; `disk_used_bytes` is the number of files times the file
    size; and — unless the call was rejected — the oldest file on disk is not older than the file
    being written when the call began, or some queue still holds a handle on it. -/
theorem C06_reclaim (h : FilesOk l) (hc : isGcCall c = true) :
    let r := Log.step g l c tick order
    FilesOk r.1 ∧ r.1.diskUsed g = r.1.files.length * g.fileBytes ∧
    (r.2.1 ≠ .missingQueue → ∀ f₀, r.1.files.head? = some f₀ →
      l.cur ≤ f₀ ∨ r.1.queues.refsFile f₀ = true) := by
  intro r
  refine ⟨filesOk_step g l c tick order h, rfl, ?_⟩
  cases c with
  | delete q =>
    cases hq : l.queues.get? q with
    | none => intro hne; exact absurd (by simp [r, step, hq]) hne
    | some mq =>
      intro _
      simp only [r, step_delete_eq g l q mq tick order hq]
      exact (reclaim_core g l order _ _ h).2
  | truncate q p =>
    cases hq : l.queues.get? q with
    | none => intro hne; exact absurd (by simp [r, step, hq]) hne
    | some mq =>
      intro _
      simp only [r, step_truncate_eq g l q p mq tick order hq]
      exact (reclaim_core g l order _ _ h).2
  | create q => cases hc
  | append q pos pls => cases hc
  | persist a => cases hc

theorem C06_truncate (h : FilesOk l) (q : Bytes) (p : Nat) (mq : MemQueue) (hq : l.queues.get? q = some mq) :
    let r := Log.step g l (.truncate q p) tick order
    FilesOk r.1 ∧ ∀ f₀, r.1.files.head? = some f₀ → l.cur ≤ f₀ ∨ r.1.queues.refsFile f₀ = true := by
  intro r
  obtain ⟨h1, _, h3⟩ := C06_reclaim g l (.truncate q p) tick order h rfl
  refine ⟨h1, h3 ?_⟩
  simp [step_truncate_eq g l q p mq tick order hq]

theorem C06_delete (h : FilesOk l) (q : Bytes) (mq : MemQueue) (hq : l.queues.get? q = some mq) :
    let r := Log.step g l (.delete q) tick order
    FilesOk r.1 ∧ ∀ f₀, r.1.files.head? = some f₀ → l.cur ≤ f₀ ∨ r.1.queues.refsFile f₀ = true := by
  intro r
  obtain ⟨h1, _, h3⟩ := C06_reclaim g l (.delete q) tick order h rfl
  refine ⟨h1, h3 ?_⟩
  simp [step_delete_eq g l q mq tick order hq]

/-! ### (d) GC never releases a referenced file -/

theorem runGc_unlinked (l : Log) (order : List Bytes) :
    ∀ f ∈ unlinked (runGc g l order).2.1,
      (runGc g l order).1.queues.refsFile f = false ∧ f ≠ (runGc g l order).1.cur ∧
      (FilesOk l → f ∉ (runGc g l order).1.files) := by
  rcases runGc_trichotomy g l order with ⟨hr, _⟩ | ⟨hr, _⟩ | ⟨hr, _⟩
  · rw [hr]
    simp only [gcResult, unlinked_append, writeTouches_unlinked, unlinked_persist, unlinked_map, List.nil_append]
    intro f hf
    have hd := gcFiles_deleted _ _ f hf
    simp only [canDelete, Bool.and_eq_true, bne_iff_ne, ne_eq, Bool.not_eq_true'] at hd
    refine ⟨hd.2, hd.1.1, fun hok => ?_⟩
    have hok1 := writeTouches_filesOk g (gcNames l order) l hok
    have hnd := contig_nodup hok1.1
    rw [← gcFiles_split ((writeTouches g l (gcNames l order)).1.canDelete l.cur)
      (writeTouches g l (gcNames l order)).1.files] at hnd
    intro hmem
    exact (List.nodup_append.mp hnd).2.2 f hf f hmem rfl
  · rw [hr]; intro f hf; cases hf
  · rw [hr]; intro f hf; cases hf

/-- **C06 (d).** Every file unlinked by a call is, when the call returns, referenced by no queue,
    different from the file being written, and no longer tracked. -/
theorem no_premature_release (f : Nat) (hf : Effect.unlink f ∈ (Log.step g l c tick order).2.2) :
    (Log.step g l c tick order).1.queues.refsFile f = false ∧ f ≠ (Log.step g l c tick order).1.cur ∧
    (FilesOk l → f ∉ (Log.step g l c tick order).1.files) := by
  rw [← mem_unlinked] at hf
  rcases step_shape2 g l c tick order with ⟨out, hs⟩ | ⟨a, _, hs⟩ | ⟨e, qs', out, hs⟩
  · rw [hs] at hf; cases hf
  · rw [hs] at hf; simp [unlinked_persist] at hf
  · rw [hs] at hf ⊢
    simp only [unlinked_append, writeEntry_unlinked, unlinked_tailSync, List.nil_append, List.append_nil] at hf
    cases hgc : isGcCall c with
    | false => rw [hgc] at hf; cases hf
    | true =>
      rw [hgc] at hf
      simp only [if_true] at hf ⊢
      obtain ⟨h1, h2, h3⟩ := runGc_unlinked g _ order f hf
      exact ⟨h1, h2, fun hok => h3 ((writeEntry_filesOk g l e hok).same rfl rfl)⟩

/-! ### (c) the GC pass that ends `open` -/

/-- **C06 (c).** If the log rebuilt from the image is a contiguous run ending at its current file,
    so is the log `open` returns, and its oldest file is not older than the file the writer
    resumes in, or is still referenced. -/
theorem C06_open (img : Image) (policy : Policy) (failAt : Option Nat) (r : Recovered) (lp : Log)
    (e0 : List Effect) (io : Nat) (hpre : recoverPre g img policy failAt = .ok (lp, e0, io))
    (hrec : recover g img policy order failAt = .ok r) (hok : FilesOk lp) :
    FilesOk r.log ∧ r.log.diskUsed g = r.log.files.length * g.fileBytes ∧
    (∀ f₀, r.log.files.head? = some f₀ → lp.cur ≤ f₀ ∨ r.log.queues.refsFile f₀ = true) ∧
    (∀ f, Effect.unlink f ∈ r.effects →
      r.log.queues.refsFile f = false ∧ f ≠ r.log.cur ∧ f ∉ r.log.files) := by
  obtain ⟨lp', e0', io', hpre', hlog, heff⟩ := recover_ok g img policy order failAt r hrec
  rw [hpre] at hpre'
  injection hpre' with hpre'
  injection hpre' with h1 h2
  injection h2 with h2 h3
  subst h1 h2 h3
  obtain ⟨hok', _, _, hhead⟩ := runGc_reclaim g lp order hok
  rw [hlog]
  refine ⟨hok', rfl, hhead, ?_⟩
  intro f hf
  rw [heff, ← mem_unlinked, unlinked_append, recoverPre_effects g img policy failAt lp e0 io hpre,
    prepareImage_unlinked, List.nil_append] at hf
  obtain ⟨a, b, c⟩ := runGc_unlinked g lp order f hf
  exact ⟨a, b, c hok⟩

/-! ### Non-vacuity -/

/-- a short entry at an in-block offset that leaves room is one full frame, written in place -/
theorem entry_one_buf (l : Log) (e : Entry) (hfit : Consts.HEADER_LEN + e.encode.length ≤ g.B - l.off % g.B)
    (hfile : l.off + (Consts.HEADER_LEN + e.encode.length) ≤ g.fileBytes) :
    l.writeEntry g e = ({ l with off := l.off + (Consts.HEADER_LEN + e.encode.length) },
      [.write l.cur l.off (encodeFrame .full e.encode)], Consts.HEADER_LEN + e.encode.length) := by
  have hb : entryBufs g l e = [encodeFrame .full e.encode] := by
    unfold entryBufs MRL.writeEntry
    rw [writeEntryBufs]
    have h1 : min (maxFrameLen g (l.off % g.B)) e.encode.length = e.encode.length := by
      unfold maxFrameLen
      simp only [Consts.HEADER_LEN] at hfit ⊢
      split <;> omega
    simp only [h1, List.drop_length, List.isEmpty_nil, List.take_length, dite_true]
    unfold frameWrites
    simp only [Consts.HEADER_LEN] at hfit ⊢
    rw [if_neg (by omega)]
    rfl
  rw [writeEntry_eq, hb]
  have hne : (encodeFrame .full e.encode).isEmpty = false := by
    have := encodeFrame_ne_nil .full e.encode
    cases h : encodeFrame .full e.encode <;> simp_all
  have hnr : ¬ g.fileBytes < l.off + (Consts.HEADER_LEN + e.encode.length) := by omega
  simp [writeBufs, writeBuf, hne, encodeFrame_length, totalLen, hnr]

def g64 : Geom := { B := 64, K := 4, hB := by decide, hK := by decide }

/-- three files, writing in file 2; the only queue holds one record, written into file 1 -/
def lx : Log := { files := [0, 1, 2], cur := 2, off := 0, policy := .doNothing,
                  queues := [([1], { start := 0, recs := [⟨0, [9], some 1⟩] })] }

theorem lx_ok : FilesOk lx := ⟨⟨rfl, rfl, trivial⟩, rfl⟩

def lx2 : Log := { lx with off := 19, queues := [([1], { start := 1, recs := [] })] }

theorem lx2_gc : runGc g64 lx2 [] =
    ({ lx2 with files := [2], off := 38 },
     [.write 2 19 (encodeFrame .full (Entry.touch [1] 1).encode), .flush, .fsyncFile 2, .fsyncDir,
      .unlink 0, .unlink 1], 19) := by
  rw [runGc_run g64 lx2 [] 0 1 [2] rfl (by decide)]
  have hn : gcNames lx2 [] = [[1]] := by decide
  have ht : touchEntry lx2 [1] = .touch [1] 1 := by decide
  simp only [gcResult, hn, writeTouches_cons, writeTouches_nil, ht]
  rw [entry_one_buf g64 lx2 (.touch [1] 1) (by decide) (by decide)]
  rfl

/-- Truncating the queue entirely: the `Truncate` entry, then the GC pass — one `RecordPosition`
    entry for the now empty queue, flush + fsync, then files 0 and 1 are unlinked; file 2 remains. -/
theorem lx_truncate : Log.step g64 lx (.truncate [1] 0) false [] =
    ({ lx2 with files := [2], off := 38 }, .truncated 1 38,
     [.write 2 0 (encodeFrame .full (Entry.truncate [1] 0).encode),
      .write 2 19 (encodeFrame .full (Entry.touch [1] 1).encode), .flush, .fsyncFile 2, .fsyncDir,
      .unlink 0, .unlink 1]) := by
  have hq : lx.queues.get? [1] = some { start := 0, recs := [⟨0, [9], some 1⟩] } := rfl
  simp only [step_truncate_eq g64 lx [1] 0 _ false [] hq]
  rw [entry_one_buf g64 lx (.truncate [1] 0) (by decide) (by decide)]
  have : ({ (({ lx with off := lx.off + (Consts.HEADER_LEN + (Entry.truncate [1] 0).encode.length) } : Log)) with
      queues := ({ lx with off := lx.off + (Consts.HEADER_LEN + (Entry.truncate [1] 0).encode.length) } : Log).queues.set [1]
        (MemQueue.truncateHead { start := 0, recs := [⟨0, [9], some 1⟩] } 0).1 } : Log) = lx2 := by rfl
  simp only [this, lx2_gc]
  rfl

example : let r := Log.step g64 lx (.truncate [1] 0) false []
    r.1.files = [2] ∧ r.1.cur = 2 ∧ unlinked r.2.2 = [0, 1] ∧ r.1.diskUsed g64 = 256 := by
  rw [lx_truncate]; exact ⟨rfl, rfl, rfl, rfl⟩

/-- the same log with a second queue whose oldest record was written into file 0 -/
def ly : Log := { lx with queues := [([1], { start := 0, recs := [⟨0, [9], some 1⟩] }),
                                     ([2], { start := 0, recs := [⟨0, [8], some 0⟩] })] }

theorem ly_ok : FilesOk ly := ⟨⟨rfl, rfl, trivial⟩, rfl⟩

/-- … the same truncation now deletes nothing: file 0 is still referenced, and GC only ever
    drops a prefix -/
theorem ly_truncate : Log.step g64 ly (.truncate [1] 0) false [] =
    ({ ly with off := 19, queues := [([1], { start := 1, recs := [] }), ([2], { start := 0, recs := [⟨0, [8], some 0⟩] })] },
     .truncated 1 19, [.write 2 0 (encodeFrame .full (Entry.truncate [1] 0).encode)]) := by
  have hq : ly.queues.get? [1] = some { start := 0, recs := [⟨0, [9], some 1⟩] } := rfl
  simp only [step_truncate_eq g64 ly [1] 0 _ false [] hq]
  rw [entry_one_buf g64 ly (.truncate [1] 0) (by decide) (by decide)]
  rw [runGc_skip g64 _ [] 0 1 [2] rfl (by decide)]
  rfl

example : let r := Log.step g64 ly (.truncate [1] 0) false []
    r.1.files = [0, 1, 2] ∧ unlinked r.2.2 = [] ∧ r.1.queues.refsFile 0 = true := by
  rw [ly_truncate]; exact ⟨rfl, rfl, by decide⟩

end MRL.C06
