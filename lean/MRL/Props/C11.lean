/-
C11 — I/O errors during recovery are reported, promptly.

If listing the directory, opening or reading any WAL file fails at any point during `open`, `open`
stops at that call and reports an I/O error: it neither retries nor returns a log built from the
part of the WAL read so far. In the model, `recover g img policy order failAt` with
`failAt = some n` fails the `n`-th (0-based) list/open/read call; `Recovered.ioCalls` counts the
calls made. The model stops at the first failing call, so a persistent failure and a transient
one behave alike.

Proof machinery: MRL/Proofs/RecIo.lean (`scanBlocks_fault` is the core: a fault at a call index
inside the range of calls the scan makes aborts it, a fault outside changes nothing).
-/
import MRL.Proofs.RecIo

namespace MRL.C11
open MRL Consts Rec

variable (g : Geom) (img : Image) (policy : Policy) (order : List Bytes)

/-- (a) a fault at any call recovery actually makes is reported as an I/O error -/
theorem io_reported (r : Recovered) (n : Nat)
    (h : recover g img policy order none = .ok r) (hn : n < r.ioCalls) :
    recover g img policy order (some n) = .error .io :=
  (recover_fault_ok g img policy order n r h).1 hn

/-- (b) a fault planned at a call recovery never makes changes nothing -/
theorem io_irrelevant_beyond (r : Recovered) (n : Nat)
    (h : recover g img policy order none = .ok r) (hn : r.ioCalls ≤ n) :
    recover g img policy order (some n) = .ok r :=
  (recover_fault_ok g img policy order n r h).2 hn

/-- (d) when the fault-free recovery fails, no fault plan turns it into a success: the result is
    the I/O error or the same error -/
theorem fault_never_ok_on_bad_image (e : OpenErr) (n : Nat)
    (h : recover g img policy order none = .error e) :
    recover g img policy order (some n) = .error .io ∨ recover g img policy order (some n) = .error e :=
  recover_fault_err g img policy order n e h

/-- (c) a log returned under a fault plan is the fault-free log (and the fault was never hit):
    never a log built from a partially read WAL -/
theorem never_partial (r : Recovered) (n : Nat)
    (h : recover g img policy order (some n) = .ok r) :
    recover g img policy order none = .ok r ∧ r.ioCalls ≤ n := by
  cases h0 : recover g img policy order none with
  | error e =>
    rcases recover_fault_err g img policy order n e h0 with h1 | h1 <;> rw [h1] at h <;> cases h
  | ok r0 =>
    obtain ⟨p1, p2⟩ := recover_fault_ok g img policy order n r0 h0
    by_cases hn : n < r0.ioCalls
    · rw [p1 hn] at h; cases h
    · rw [p2 (by omega)] at h
      simp only [Except.ok.injEq] at h
      subst h
      exact ⟨rfl, by omega⟩

/-- every outcome under a fault plan, in one statement -/
theorem fault_outcomes (n : Nat) :
    recover g img policy order (some n) = .error .io ∨
    recover g img policy order (some n) = recover g img policy order none := by
  cases h0 : recover g img policy order none with
  | error e => exact recover_fault_err g img policy order n e h0
  | ok r0 =>
    obtain ⟨p1, p2⟩ := recover_fault_ok g img policy order n r0 h0
    by_cases hn : n < r0.ioCalls
    · exact Or.inl (p1 hn)
    · exact Or.inr (p2 (by omega))

/-! ### bounded number of calls -/

theorem prepareImage_length : (prepareImage g img).1.length = max 1 img.length := by
  unfold prepareImage
  cases img with
  | nil => rfl
  | cons fc rest =>
    obtain ⟨f, content⟩ := fc
    simp only
    split <;> simp <;> omega

/-- (e) Recovery makes a bounded number of I/O calls (no retry loop): one directory listing, an
    open and a read per file of the prepared image `img'`, one read per full block of `img'`
    (`fullBlocks g img' = Σ content.length / g.B`), and one `open_file` per roll-over into an
    existing file during the final GC pass (those are visible as `openFile` effects; the
    preparation effects contain none). -/
theorem ioCalls_bounded (r : Recovered) (h : recover g img policy order none = .ok r) :
    r.ioCalls ≤ 1 + 2 * (prepareImage g img).1.length + fullBlocks g (prepareImage g img).1
      + countOpen r.effects := by
  rw [recover_none] at h
  cases h0 : recoverPre g img policy none with
  | error e => rw [h0] at h; cases h
  | ok x =>
    obtain ⟨l, e0, io⟩ := x
    rw [h0] at h
    simp only [Except.ok.injEq] at h
    subst h
    obtain ⟨hio, he0⟩ := recoverPre_io_le g img policy l e0 io h0
    simp only [countOpen_append, he0, countOpen_prepare]
    omega

/-- the same with the prepared image's length spelled out -/
theorem ioCalls_bounded' (r : Recovered) (h : recover g img policy order none = .ok r) :
    r.ioCalls ≤ 1 + 2 * max 1 img.length + fullBlocks g (prepareImage g img).1 + countOpen r.effects := by
  have := ioCalls_bounded g img policy order r h
  rwa [prepareImage_length] at this

/-! ### non-vacuity: a two-block image whose first block is garbage

`B = 16`; the only file holds one block of `0xFF` bytes (a corrupt header: the reader gives the
block up and loads the next one) and one block of zeros (end of log). The fault-free recovery
makes 4 calls: list, open, read block 0, read block 1. -/

def g16 : Geom := ⟨16, 2, by decide, by decide⟩
def img0 : Image := [(0, List.replicate 16 255 ++ zeros 16)]
def blkA : Blk := ⟨0, 0, List.replicate 16 255, 3⟩
def blkB : Blk := ⟨0, 1, zeros 16, 1⟩

theorem scanA : scanBlock g16 blkA.data 0 = ([.corrupt], .needNext 0) := by
  unfold scanBlock
  rw [scanBlockFrom]
  simp [g16, blkA, HEADER_LEN, isAllZero, FrameType.ofCode, FT_FULL, FT_FIRST, FT_MIDDLE, FT_LAST]

theorem scanB : scanBlock g16 blkB.data 0 = ([], .zeroHeader 0) := by
  unfold scanBlock
  rw [scanBlockFrom]
  simp [g16, blkB, HEADER_LEN, isAllZero, zeros]

theorem prep0 : prepareImage g16 img0 = (img0, [.ensureLen 0 32]) := by
  simp [prepareImage, img0, Geom.fileBytes, g16, zeros]

theorem blocks0 : blocksOf g16 (prepareImage g16 img0).1 1 = (blkA :: [blkB], 1) := by
  rw [prep0]; rfl

theorem scan0 (fa : Option Nat) : scanBlocks g16 fa 1 blkA.cost blkA 0 [blkB] =
    if ioFails fa 3 4 then none else some ([.corrupt 0], ⟨0, 1, 0⟩, 4) := by
  rw [scanBlocks_next_cons g16 fa 1 blkA.cost blkA 0 blkB [] _ _ scanA,
    scanBlocks_zero g16 fa 1 (blkA.cost + blkB.cost) blkB 0 [] _ _ scanB]
  rfl

/-- the fault-free recovery succeeds with 4 I/O calls -/
theorem ex_ok : recover g16 img0 .doNothing [] none =
    .ok { log := { files := [0], cur := 0, off := 16, queues := [], policy := .doNothing },
          effects := [.ensureLen 0 32], ioCalls := 4 } := by
  rw [recover_eq, recoverPre_cons g16 img0 _ _ blkA [blkB] 1 blocks0, scan0, prep0]
  rfl

/-- failing call 1 (the `open` of the file) is reported — computed directly … -/
example : recover g16 img0 .doNothing [] (some 1) = .error .io := by
  rw [recover_eq, recoverPre_cons g16 img0 _ _ blkA [blkB] 1 blocks0]
  rfl

/-- … failing call 3 (the read of the second block, after the corrupt one) too — computed … -/
example : recover g16 img0 .doNothing [] (some 3) = .error .io := by
  rw [recover_eq, recoverPre_cons g16 img0 _ _ blkA [blkB] 1 blocks0, scan0]
  rfl

/-- … and every failing call `n < 4` by (a); a fault at call 4 or later is never reached, by (b) -/
example (n : Nat) (hn : n < 4) : recover g16 img0 .doNothing [] (some n) = .error .io :=
  io_reported g16 img0 .doNothing [] _ n ex_ok hn

example (n : Nat) (hn : 4 ≤ n) : recover g16 img0 .doNothing [] (some n) = recover g16 img0 .doNothing [] none := by
  rw [ex_ok]; exact io_irrelevant_beyond g16 img0 .doNothing [] _ n ex_ok hn

/-- the bound (e) on this image: `4 ≤ 1 + 2·1 + 2 + 0` -/
example : (4 : Nat) ≤ 1 + 2 * (prepareImage g16 img0).1.length + fullBlocks g16 (prepareImage g16 img0).1
    + countOpen [Effect.ensureLen 0 32] :=
  ioCalls_bounded g16 img0 .doNothing [] _ ex_ok

end MRL.C11
