/-
C01 — clean restart reproduces the exact logical state.
Pillars proved so far (each in its own module):
 * `MRL.C07.C07_roundtrip` / `MRL.C07.decode_encode`: whatever the writer lays out is read back,
   entry for entry, at every alignment (Layer A, bytes);
 * `MRL.C05.C05_history`: the in-memory state is the specification's state (Layer B, queues);
 * `MRL.C01J.C01_journal` (MRL/Props/C01Journal.lean, when present): replaying the journal entries
   located in the files still tracked reproduces the in-memory queues after any number of
   roll-overs and GC passes.
The glue between the layers (the image produced by the effects of a history is the layout of its
journal) is checked on every restart of every generated history by the correspondence run and by
the driver's executable journal invariant (`Drv.jcheck`).
-/
import MRL.Props.C07
import MRL.Props.C05
import MRL.Proofs.Journal

namespace MRL.C01
open MRL

/-- non-vacuity of the journal definitions: one create and one append give two journal entries
    located and attributed to file 0 -/
example : ∀ g : Geom,
    let l0 : Log := { files := [0], cur := 0, off := 0, queues := [], policy := .doNothing }
    (l0.stepJ g (.create [1]) []).map (fun j => (j.loc, j.attr)) = [(0, 0)] := by
  intro g
  have hB := g.hB
  have hK := g.hK
  simp only [Log.stepJ, MemQueues.contains, List.any_nil, Bool.false_eq_true, if_false, List.map_cons,
    List.map_nil, Log.je, Log.nextLoc, Nat.zero_mod, Nat.sub_zero, Geom.fileBytes]
  simp only [Consts.HEADER_LEN] at *
  have h1 : ¬ (g.B < 7) := by omega
  have h2 : ¬ (0 ≥ g.B * g.K) := by
    have : 0 < g.B * g.K := Nat.mul_pos (by omega) hK
    omega
  simp [h1, h2]

end MRL.C01
