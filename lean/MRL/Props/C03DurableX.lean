/-
C03, process-crash durability (ordered persistence), from ANY state reachable with crashes and over
histories of calls AND restarts (audit item A7).

`C03D.C03_durable`, `C03_durable_after`, `C03_power_loss` start from a `C01R.ReachD` state and run calls
only. Here: from any `C02U.ReachX g cap l img b` state (clean restarts and crash-recoveries at any
crash point, of calls and of `open` itself) whose `BufWriter` is empty (`b.pend = []`), over any
history `evs : List PX.Ev` (calls under any policy, and `reopen`s):
* `C03_durableX`: a process crash after any number `k` of OS operations of the history, the `k`-th cut
  at any byte, recovers the state after SOME prefix of the events;
* `C03_durable_afterX`: never older than a point `m` of the history at which the `BufWriter` is empty,
  when the crash comes after the operations of the first `m` events;
* `C03_power_lossX`: in particular after a prefix whose effects end with
  `flush, fsync(file), fsync(dir)` (the last operation of that prefix is then a `sync`).

THE CONDITION `b.pend = []`. It holds right after every `open` (`recover_buf_empty`,
`reopen_buf_empty`: the effects of `recover` are `ensureLen` on the first file and the GC pass, which —
if it writes anything — ends with `flush, fsync, fsync(dir)` and the unlinks), hence for every state
produced by `ReachX.reopen`, `ReachX.crash`, `ReachX.crash2`, and after every call that ends with a
flush (every call under `Always(_)`, `create`, `delete`, `persist`); it fails only between such points,
while appended bytes sit in the `BufWriter` — there the theorem applies from the last such point.
-/
import MRL.Props.C03PosixX
import MRL.Props.C03Durable

namespace MRL.C03DX
open MRL Log C05 C01J G H L K Buf Codec PX

abbrev AbsEq := H.AbsEq

/-! ### the `BufWriter` is empty right after `open` -/

theorem toOsOps_unlinks (cap : Nat) (b : BufSt) : ∀ U : List Nat, (toOsOps cap b (U.map Effect.unlink)).1 = b
  | [] => rfl
  | f :: U => by
    rw [List.map_cons, toOsOps_cons]
    exact toOsOps_unlinks cap b U

theorem recover_buf_empty (g : Geom) (cap : Nat) (X : Image) (policy : Policy) (order : List Bytes) (lp : Log)
    (F io : Nat) (r : Recovered)
    (hpre : recoverPre g X policy none = .ok (lp, [.ensureLen F g.fileBytes], io))
    (hrec : recover g X policy order none = .ok r) : (toOsOps cap {} r.effects).1.pend = [] := by
  rw [Rec.recover_none, hpre] at hrec
  simp only [Except.ok.injEq] at hrec
  subst hrec
  simp only
  rcases G.runGc_full g lp order with ⟨h1, _⟩ | ⟨names, _, h2⟩
  · rw [h1]; rfl
  · rw [h2]
    simp only
    rw [toOsOps_append, toOsOps_append, toOsOps_append]
    simp only
    rw [toOsOps_unlinks]
    simp [persistEffects, toOsOps, bufStep]

/-- after a clean restart from any `ReachX` state -/
theorem reopen_buf_empty (g : Geom) (hB : g.B ≤ 65542) (cap : Nat) {l : Log} {img : Image} {b : BufSt}
    (h : C02U.ReachX g cap l img b) (policy : Policy) (order : List Bytes) (r : Recovered)
    (hrec : recover g (C02U.flushDisk img b) policy order none = .ok r) :
    (toOsOps cap {} r.effects).1.pend = [] := by
  obtain ⟨⟨J, hc, hw⟩, _⟩ := C02U.reachX_inv g hB cap h
  obtain ⟨J', lp, io, r', hpre, _, _, _, _, _, _, _⟩ := recover_okX g hB hc hw policy order
  exact recover_buf_empty g cap _ policy order lp _ io r hpre hrec

/-! ### the theorems -/

/-- **C03, durability, from a crash-reachable state, over calls and restarts.** -/
theorem C03_durableX (g : Geom) (hB : g.B ≤ 65542) (cap : Nat) (l : Log) (img : Image) (b : BufSt)
    (h : C02U.ReachX g cap l img b) (hb : b.pend = []) (evs : List Ev)
    (hfits : ∀ j ∈ jourX g l img evs, C07.WF j.e) (htorn : TornEffs (effsX g l img evs))
    (k cut : Nat) (policy' : Policy) (order' : List Bytes) :
    ∃ rec i, i ≤ evs.length ∧
      recover g (crashImage img (toOsOps cap b (effsX g l img evs)).2 k cut) policy' order' none = .ok rec ∧
      AbsEq rec.log.queues (logX g l img (evs.take i)).queues := by
  obtain ⟨⟨J, hc, hw⟩, st, hinv, hclean⟩ := C02U.reachX_inv g hB cap h
  rw [C02U.flushDisk_of_empty img b hb] at hc
  obtain ⟨_, _, hdisc⟩ := runX_inv g hB evs hc hw hfits htorn
  obtain ⟨st', hrun, _⟩ := hdisc st hclean
  have hX := crash_cut cap _ b st st' img hinv hrun k cut
  rw [pendW_nil b hb, List.nil_append] at hX
  obtain ⟨i, _, lp, e0, io, hi, hrec, _, hq⟩ := runX_cut g hB evs hc hw hfits htorn false _
    (L.CutW.of_cutState hX) policy'
  obtain ⟨r, hr, hrq⟩ := recover_of_pre g _ policy' order' lp e0 io hrec
  exact ⟨r, i, hi, hr, by rw [hrq]; exact hq⟩

/-- **C03, durability after a point of the history where the `BufWriter` is empty.** -/
theorem C03_durable_afterX (g : Geom) (hB : g.B ≤ 65542) (cap : Nat) (l : Log) (img : Image) (b : BufSt)
    (h : C02U.ReachX g cap l img b) (hb : b.pend = []) (evs : List Ev)
    (hfits : ∀ j ∈ jourX g l img evs, C07.WF j.e) (htorn : TornEffs (effsX g l img evs))
    (m : Nat) (hm : m ≤ evs.length)
    (hpm : (toOsOps cap b (effsX g l img (evs.take m))).1.pend = [])
    (k cut : Nat) (hk : (toOsOps cap b (effsX g l img (evs.take m))).2.length ≤ k)
    (policy' : Policy) (order' : List Bytes) :
    ∃ rec i, m ≤ i ∧ i ≤ evs.length ∧
      recover g (crashImage img (toOsOps cap b (effsX g l img evs)).2 k cut) policy' order' none = .ok rec ∧
      AbsEq rec.log.queues (logX g l img (evs.take i)).queues := by
  have hsplit : evs = evs.take m ++ evs.drop m := (List.take_append_drop m evs).symm
  have heffs : effsX g l img evs = effsX g l img (evs.take m) ++
      effsX g (logX g l img (evs.take m)) (diskXs g l img (evs.take m)) (evs.drop m) := by
    conv => lhs; rw [hsplit]
    exact effsX_append g _ _ l img
  have hjour : jourX g l img evs = jourX g l img (evs.take m) ++
      jourX g (logX g l img (evs.take m)) (diskXs g l img (evs.take m)) (evs.drop m) := by
    conv => lhs; rw [hsplit]
    exact jourX_append g _ _ l img
  have hfd : C02U.flushDisk img b = img := C02U.flushDisk_of_empty img b hb
  -- the state after the first `m` events
  obtain ⟨hreach, hflush⟩ := C03PX.reachX_history g hB cap (evs.take m) l img b h
    (by rw [hfd]; exact fun j hj => hfits j (by rw [hjour]; exact List.mem_append_left _ hj))
  rw [hfd] at hreach hflush
  have hfd2 : C02U.flushDisk (applyOsOps img (toOsOps cap b (effsX g l img (evs.take m))).2)
      (toOsOps cap b (effsX g l img (evs.take m))).1 =
      applyOsOps img (toOsOps cap b (effsX g l img (evs.take m))).2 := C02U.flushDisk_of_empty _ _ hpm
  rw [hfd2] at hflush
  rw [heffs, toOsOps_append]
  simp only
  rw [crashImage_append_ge _ _ _ _ _ hk]
  obtain ⟨rec, i', hi', hrec, hq⟩ := C03_durableX g hB cap _ _ _ hreach hpm (evs.drop m)
    (by rw [hflush]; exact fun j hj => hfits j (by rw [hjour]; exact List.mem_append_right _ hj))
    (by rw [hflush]; exact torn_right (by rw [← heffs]; exact htorn))
    (k - (toOsOps cap b (effsX g l img (evs.take m))).2.length) cut policy' order'
  refine ⟨rec, m + i', Nat.le_add_right _ _, ?_, by rw [← hflush]; exact hrec, ?_⟩
  · simp at hi'; omega
  · have : evs.take (m + i') = evs.take m ++ (evs.drop m).take i' := List.take_add
    rw [this, logX_append, ← hflush]
    exact hq

/-- **C03, power loss (ordered persistence), from a crash-reachable state, over calls and restarts.** -/
theorem C03_power_lossX (g : Geom) (hB : g.B ≤ 65542) (cap : Nat) (l : Log) (img : Image) (b : BufSt)
    (h : C02U.ReachX g cap l img b) (hb : b.pend = []) (evs : List Ev)
    (hfits : ∀ j ∈ jourX g l img evs, C07.WF j.e) (htorn : TornEffs (effsX g l img evs))
    (m : Nat) (hm : m ≤ evs.length) (pre : List Effect) (f : Nat)
    (htail : effsX g l img (evs.take m) = pre ++ [.flush, .fsyncFile f, .fsyncDir]) :
    (toOsOps cap b (effsX g l img (evs.take m))).2.getLast? = some .sync ∧
    ∀ k cut policy' order', (toOsOps cap b (effsX g l img (evs.take m))).2.length ≤ k →
      ∃ rec i, m ≤ i ∧ i ≤ evs.length ∧
        recover g (crashImage img (toOsOps cap b (effsX g l img evs)).2 k cut) policy' order' none = .ok rec ∧
        AbsEq rec.log.queues (logX g l img (evs.take i)).queues := by
  have hft := C03D.fsync_tail cap b pre f
  rw [← htail] at hft
  refine ⟨hft.2, ?_⟩
  intro k cut policy' order' hk
  exact C03_durable_afterX g hB cap l img b h hb evs hfits htorn m hm hft.1 k cut hk policy' order'

end MRL.C03DX
