/-
C06 over crash-reachable states (`C02U.ReachX`: calls, restarts and crashes at any byte, any number
of times).

FINDING. The clause "the tracked files are a contiguous run ENDING AT THE CURRENT FILE"
(`C06.FilesOk`) is FALSE on crash-reachable states: a crash between the `create` of the next file
and the first write into it leaves an empty `wal-(cur+1)`; `open` lists it, tracks it, and resumes
writing in `wal-cur` (the reader stops at the end of the last non-empty file). `filesOk_fails` below
builds such a `ReachX` state on a small geometry (files `[0, 1]`, current file `0`). Consequently
`disk_used_bytes = files.length * fileBytes` (nominal sizes, `C06`'s clause) over-counts the real
directory by one file size in such a state (`dir_sizes`: every file of the directory has the
nominal size, except possibly that empty `wal-(cur+1)`).

WHAT SURVIVES, and is proved here (no extra hypothesis; nothing is `_partial`).
`FilesOkX l`: the tracked files are a contiguous run, the current file is tracked, and the run ends
at the current file OR AT ITS SUCCESSOR.
* model level (any log satisfying `FilesOkX`, no reachability needed): `filesOkX_step` — every call
  preserves `FilesOkX`, and after the call the strict `FilesOk` holds again or the current file has
  not changed (the writer rolls INTO the pre-created file: the first roll-over restores `FilesOk`,
  and then `C06.filesOk_step` keeps it); `C06X_reclaim` — after `truncate`/`delete_queue` the
  reclaim clause holds as in C06 (the oldest tracked file is not older than the file being written
  when the call began, or some queue references it); `no_premature_release` — every file unlinked
  by a call is referenced by no queue, is not the current file and is no longer tracked;
  `C06X_open` — the same three for the GC pass that ends `open`.
* crash-reachable states: `filesOkX_reachX` (`FilesOkX`, the directory holds EXACTLY the tracked
  files, all of nominal size except possibly an empty successor of the current file);
  `C06_crash_reclaim`, `C06_crash_open`, and `C06_crash_recover` / `C06_crash2_recover`: the
  `open` that follows a crash at ANY crash point of a call (resp. of an `open`) already
  re-establishes the reclaim clause — files left behind by a GC pass interrupted between two
  unlinks are listed, tracked, and released by the GC pass of that very `open`.
-/
import MRL.Props.C06
import MRL.Props.C02Usable
import MRL.Props.C02

namespace MRL.C06X
open MRL MRL.Log MRL.Step C06

/-! ### The relaxed invariant -/

/-- the tracked files are a contiguous run containing the current file and ending at it or at its
    successor (a pre-created, still unused next file) -/
def FilesOkX (l : Log) : Prop :=
  Contig l.files ∧ l.cur ∈ l.files ∧
    (l.files.getLast? = some l.cur ∨ l.files.getLast? = some (l.cur + 1))

theorem FilesOkX.of_ok {l : Log} (h : FilesOk l) : FilesOkX l := ⟨h.1, h.cur_mem, Or.inl h.2⟩

theorem FilesOkX.same {l l' : Log} (h : FilesOkX l) (hf : l'.files = l.files) (hc : l'.cur = l.cur) :
    FilesOkX l' := by
  unfold FilesOkX; rw [hf, hc]; exact h

/-- what a call leaves: the relaxed invariant, and the strict one unless the current file is the
    same as before -/
def After (l l' : Log) : Prop := FilesOkX l' ∧ (FilesOk l' ∨ l'.cur = l.cur)

theorem After.refl {l : Log} (h : FilesOkX l) : After l l := ⟨h, Or.inr rfl⟩

theorem After.of_ok {l l' : Log} (h : FilesOk l') : After l l' := ⟨FilesOkX.of_ok h, Or.inl h⟩

theorem After.trans {l l1 l2 : Log} (p1 : After l l1) (p2 : After l1 l2) (hs : FilesOk l1 → FilesOk l2) :
    After l l2 := by
  refine ⟨p2.1, ?_⟩
  rcases p1.2 with s | e
  · exact Or.inl (hs s)
  · rcases p2.2 with s | e2
    · exact Or.inl s
    · exact Or.inr (e2.trans e)

theorem After.same {l l1 l2 : Log} (p : After l l1) (hf : l2.files = l1.files) (hc : l2.cur = l1.cur) :
    After l l2 := by
  refine ⟨p.1.same hf hc, ?_⟩
  rcases p.2 with s | e
  · exact Or.inl (s.same hf hc)
  · exact Or.inr (hc.trans e)

theorem contig_range' (F : Nat) : ∀ n, Contig (List.range' F (n + 1))
  | 0 => trivial
  | n + 1 => by
    rw [List.range'_succ, List.range'_succ]
    refine ⟨rfl, ?_⟩
    have := contig_range' (F + 1) n
    rwa [List.range'_succ] at this

theorem getLast?_range' (F n : Nat) : (List.range' F (n + 1)).getLast? = some (F + n) := by
  rw [List.range'_concat, List.getLast?_concat]
  simp

/-- the shape the crash invariant gives -/
theorem filesOkX_range {l : Log} (F n : Nat) (x : Bool)
    (hf : l.files = List.range' F (n + 1 + (if x then 1 else 0))) (hc : l.cur = F + n) : FilesOkX l := by
  unfold FilesOkX
  rw [hf, hc]
  cases x with
  | false =>
    simp only [Bool.false_eq_true, if_false, Nat.add_zero]
    exact ⟨contig_range' F n, by simp [List.mem_range'_1], Or.inl (getLast?_range' F n)⟩
  | true =>
    simp only [if_true]
    refine ⟨contig_range' F (n + 1), by simp [List.mem_range'_1]; omega, Or.inr ?_⟩
    rw [getLast?_range' F (n + 1)]; rfl

/-! ### The write path -/

section
variable (g : Geom)

theorem nextFile_succ {l : Log} (h : FilesOkX l) (hl : l.files.getLast? = some (l.cur + 1)) :
    nextFile l.files l.cur = some (l.cur + 1) := by
  unfold nextFile
  cases hf : l.files.find? (fun x => decide (l.cur < x)) with
  | none =>
    rw [List.find?_eq_none] at hf
    have := hf (l.cur + 1) (List.mem_of_getLast? hl)
    simp at this
  | some y =>
    have hy := List.mem_of_find?_eq_some hf
    have hlt := List.find?_some hf
    simp only [decide_eq_true_eq] at hlt
    have := contig_le_last h.1 hl y hy
    congr 1; omega

theorem writeBuf_after (l : Log) (buf : Bytes) (h : FilesOkX l) : After l (writeBuf g l buf).1 := by
  rcases h.2.2 with hl | hl
  · exact After.of_ok (writeBuf_filesOk g l buf ⟨h.1, hl⟩)
  · unfold writeBuf
    rw [nextFile_succ h hl]
    split
    · exact After.refl h
    · split
      · exact After.of_ok ⟨h.1, hl⟩
      · exact (After.refl h).same rfl rfl

theorem writeBufs_after (bufs : List Bytes) : ∀ l : Log, FilesOkX l → After l (writeBufs g l bufs).1 := by
  induction bufs with
  | nil => intro l h; exact After.refl h
  | cons b bs ih =>
    intro l h
    rw [Step.writeBufs_cons]
    have p1 := writeBuf_after g l b h
    exact p1.trans (ih _ p1.1) (writeBufs_filesOk g bs _)

theorem writeEntry_after (l : Log) (e : Entry) (h : FilesOkX l) : After l (l.writeEntry g e).1 := by
  rw [writeEntry_eq]; exact writeBufs_after g _ l h

theorem writeTouches_after (names : List Bytes) : ∀ l : Log, FilesOkX l → After l (writeTouches g l names).1 := by
  induction names with
  | nil => intro l h; exact After.refl h
  | cons n ns ih =>
    intro l h
    rw [Step.writeTouches_cons]
    have p1 := writeEntry_after g l (touchEntry l n) h
    exact p1.trans (ih _ p1.1) (writeTouches_filesOk g ns _)

/-- what one GC pass guarantees on a relaxed log -/
theorem runGc_reclaimX (l : Log) (order : List Bytes) (h : FilesOkX l) :
    After l (runGc g l order).1 ∧ (runGc g l order).1.queues = l.queues ∧
    l.cur ≤ (runGc g l order).1.cur ∧
    ∀ f₀, (runGc g l order).1.files.head? = some f₀ →
      l.cur ≤ f₀ ∨ (runGc g l order).1.queues.refsFile f₀ = true := by
  rcases runGc_trichotomy g l order with ⟨hr, _⟩ | ⟨hr, f, f', rest, hfs, hd⟩ | ⟨hr, hshort⟩
  · rw [hr]
    simp only [gcResult]
    have hok1 := writeTouches_after g (gcNames l order) l h
    have hq1 := Step.writeTouches_queues g (gcNames l order) l
    have hc1 := writeTouches_cur_le g (gcNames l order) l
    generalize writeTouches g l (gcNames l order) = r at hok1 hq1 hc1
    have hsplit := gcFiles_split (r.1.canDelete l.cur) r.1.files
    have hne := gcFiles_ne_nil (r.1.canDelete l.cur) r.1.files (contig_ne_nil hok1.1.1)
    have hlast : (gcFiles (r.1.canDelete l.cur) r.1.files).1.getLast? = r.1.files.getLast? := by
      conv => rhs; rw [← hsplit]
      rw [getLast?_suffix hne]
    have hcontig : Contig (gcFiles (r.1.canDelete l.cur) r.1.files).1 := by
      have := hok1.1.1
      rw [← hsplit] at this
      exact contig_suffix this hne
    have hmem : r.1.cur ∈ (gcFiles (r.1.canDelete l.cur) r.1.files).1 := by
      have := hok1.1.2.1
      rw [← hsplit] at this
      rcases List.mem_append.mp this with hd | hr
      · have := gcFiles_deleted _ _ _ hd
        simp [canDelete] at this
      · exact hr
    refine ⟨⟨⟨hcontig, hmem, ?_⟩, ?_⟩, hq1, hc1, ?_⟩
    · show (gcFiles (r.1.canDelete l.cur) r.1.files).1.getLast? = some r.1.cur ∨
        (gcFiles (r.1.canDelete l.cur) r.1.files).1.getLast? = some (r.1.cur + 1)
      rw [hlast]; exact hok1.1.2.2
    · rcases hok1.2 with s | e
      · left
        refine ⟨hcontig, ?_⟩
        show (gcFiles (r.1.canDelete l.cur) r.1.files).1.getLast? = some r.1.cur
        rw [hlast]; exact s.2
      · right; exact e
    · intro f₀ hf₀
      rcases gcFiles_head _ _ f₀ hf₀ with hone | hnd
      · left
        have hl := hlast
        rw [hone] at hl
        simp only [List.getLast?_singleton] at hl
        rcases hok1.1.2.2 with h2 | h2
        · rw [h2] at hl; simp only [Option.some.injEq] at hl; omega
        · rw [h2] at hl; simp only [Option.some.injEq] at hl; omega
      · simp only [canDelete, Bool.and_eq_false_iff, bne_eq_false_iff_eq, Bool.not_eq_false'] at hnd
        rcases hnd with (hnd | hnd) | hnd
        · left; omega
        · left; omega
        · right; exact hnd
  · rw [hr]
    refine ⟨After.refl h, rfl, Nat.le_refl _, ?_⟩
    intro f₀ hf₀
    rw [hfs] at hf₀
    simp only [List.head?_cons, Option.some.injEq] at hf₀
    subst hf₀
    simp only [canDelete, Bool.and_eq_false_iff, bne_eq_false_iff_eq, Bool.not_eq_false'] at hd
    rcases hd with (hd | hd) | hd
    · left; omega
    · left; omega
    · right; exact hd
  · rw [hr]
    refine ⟨After.refl h, rfl, Nat.le_refl _, ?_⟩
    intro f₀ hf₀
    left
    match hfs : l.files, hshort with
    | [], _ => rw [hfs] at hf₀; cases hf₀
    | [x], _ =>
      have h2 := h.2.1
      rw [hfs] at hf₀ h2
      simp only [List.head?_cons, Option.some.injEq] at hf₀
      simp only [List.mem_singleton] at h2
      omega
    | a :: b :: rest, hs => exact absurd rfl (hs a b rest)

theorem runGc_strict (l : Log) (order : List Bytes) (h : FilesOk l) : FilesOk (runGc g l order).1 :=
  (runGc_reclaim g l order h).1

end

/-! ### (a) every call -/

variable (g : Geom) (l : Log) (c : Call) (tick : Bool) (order : List Bytes)

/-- **C06X (a).** Every call preserves the relaxed invariant; and when it returns the tracked
    files end at the current file again, unless the current file has not changed. -/
theorem filesOkX_step (h : FilesOkX l) : After l (Log.step g l c tick order).1 := by
  rcases step_shape2 g l c tick order with ⟨out, hs⟩ | ⟨a, _, hs⟩ | ⟨e, qs', out, hs⟩
  · rw [hs]; exact After.refl h
  · rw [hs]; exact After.refl h
  · rw [hs]
    have h1 := writeEntry_after g l e h
    have h2 : After l { (l.writeEntry g e).1 with queues := qs' } := h1.same rfl rfl
    cases isGcCall c with
    | false => exact h2
    | true => exact h2.trans (runGc_reclaimX g _ order h2.1).1 (runGc_strict g _ order)

/-- once strict, always strict (re-export of `C06.filesOk_step`) -/
theorem filesOk_step_strict (h : FilesOk l) : FilesOk (Log.step g l c tick order).1 :=
  filesOk_step g l c tick order h

/-! ### (b) what `truncate` and `delete_queue` leave -/

theorem reclaim_coreX (e : Entry) (qs' : MemQueues) (h : FilesOkX l) :
    let r3 := runGc g { (l.writeEntry g e).1 with queues := qs' } order
    FilesOkX r3.1 ∧ ∀ f₀, r3.1.files.head? = some f₀ → l.cur ≤ f₀ ∨ r3.1.queues.refsFile f₀ = true := by
  intro r3
  have h1 := writeEntry_after g l e h
  have hle := writeEntry_cur_le g l e
  have h2 : FilesOkX { (l.writeEntry g e).1 with queues := qs' } := h1.1.same rfl rfl
  obtain ⟨hok, _, _, hhead⟩ := runGc_reclaimX g _ order h2
  refine ⟨hok.1, fun f₀ hf₀ => ?_⟩
  rcases hhead f₀ hf₀ with hh | hh
  · left; exact Nat.le_trans hle hh
  · right; exact hh

/-- **C06X (b).** After a `truncate` or `delete_queue` on a relaxed log: the relaxed invariant;
    `disk_used_bytes` is the number of tracked files times the file size; and — unless the call
    was rejected — the oldest tracked file is not older than the file being written when the call
    began, or some queue still references it. -/
theorem C06X_reclaim (h : FilesOkX l) (hc : isGcCall c = true) :
    let r := Log.step g l c tick order
    FilesOkX r.1 ∧ r.1.diskUsed g = r.1.files.length * g.fileBytes ∧
    (r.2.1 ≠ .missingQueue → ∀ f₀, r.1.files.head? = some f₀ →
      l.cur ≤ f₀ ∨ r.1.queues.refsFile f₀ = true) := by
  intro r
  refine ⟨(filesOkX_step g l c tick order h).1, rfl, ?_⟩
  cases c with
  | delete q =>
    cases hq : l.queues.get? q with
    | none => intro hne; exact absurd (by simp [r, step, hq]) hne
    | some mq =>
      intro _
      simp only [r, step_delete_eq g l q mq tick order hq]
      exact (reclaim_coreX g l order _ _ h).2
  | truncate q p =>
    cases hq : l.queues.get? q with
    | none => intro hne; exact absurd (by simp [r, step, hq]) hne
    | some mq =>
      intro _
      simp only [r, step_truncate_eq g l q p mq tick order hq]
      exact (reclaim_coreX g l order _ _ h).2
  | create q => cases hc
  | append q pos pls => cases hc
  | persist a => cases hc

/-! ### (d) GC never releases a referenced file -/

theorem runGc_unlinkedX (l : Log) (order : List Bytes) (h : FilesOkX l) :
    ∀ f ∈ unlinked (runGc g l order).2.1,
      (runGc g l order).1.queues.refsFile f = false ∧ f ≠ (runGc g l order).1.cur ∧
      f ∉ (runGc g l order).1.files := by
  intro f hf
  obtain ⟨a, b, _⟩ := runGc_unlinked g l order f hf
  refine ⟨a, b, ?_⟩
  rcases runGc_trichotomy g l order with ⟨hr, _⟩ | ⟨hr, _⟩ | ⟨hr, _⟩
  · rw [hr] at hf ⊢
    simp only [gcResult, unlinked_append, writeTouches_unlinked, unlinked_persist, unlinked_map,
      List.nil_append] at hf ⊢
    have hok1 := writeTouches_after g (gcNames l order) l h
    have hnd := contig_nodup hok1.1.1
    rw [← gcFiles_split ((writeTouches g l (gcNames l order)).1.canDelete l.cur)
      (writeTouches g l (gcNames l order)).1.files] at hnd
    intro hmem
    exact (List.nodup_append.mp hnd).2.2 f hf f hmem rfl
  · rw [hr] at hf; cases hf
  · rw [hr] at hf; cases hf

/-- **C06X (d).** Every file unlinked by a call on a relaxed log is, when the call returns,
    referenced by no queue, different from the file being written, and no longer tracked. -/
theorem no_premature_release (h : FilesOkX l) (f : Nat)
    (hf : Effect.unlink f ∈ (Log.step g l c tick order).2.2) :
    (Log.step g l c tick order).1.queues.refsFile f = false ∧ f ≠ (Log.step g l c tick order).1.cur ∧
    f ∉ (Log.step g l c tick order).1.files := by
  obtain ⟨a, b, _⟩ := C06.no_premature_release g l c tick order f hf
  refine ⟨a, b, ?_⟩
  rw [← mem_unlinked] at hf
  rcases step_shape2 g l c tick order with ⟨out, hs⟩ | ⟨a, _, hs⟩ | ⟨e, qs', out, hs⟩
  · rw [hs] at hf; cases hf
  · rw [hs] at hf; simp [unlinked_persist] at hf
  · rw [hs] at hf ⊢
    simp only [unlinked_append, writeEntry_unlinked, unlinked_tailSync, List.nil_append, List.append_nil] at hf
    cases hgc : isGcCall c with
    | false => rw [hgc] at hf; cases hf
    | true =>
      rw [hgc] at hf
      simp only [if_true] at hf ⊢
      have hx : FilesOkX { (l.writeEntry g e).1 with queues := qs' } :=
        (writeEntry_after g l e h).1.same rfl rfl
      exact (runGc_unlinkedX g _ order hx f hf).2.2

/-! ### (c) the GC pass that ends `open` -/

/-- **C06X (c).** If the log rebuilt from the image satisfies the relaxed invariant, so does the
    log `open` returns; its oldest file is not older than the file the writer resumes in, or is
    still referenced; and what `open` unlinked is unreferenced, not current, not tracked. -/
theorem C06X_open (img : Image) (policy : Policy) (failAt : Option Nat) (r : Recovered) (lp : Log)
    (e0 : List Effect) (io : Nat) (hpre : recoverPre g img policy failAt = .ok (lp, e0, io))
    (hrec : recover g img policy order failAt = .ok r) (hok : FilesOkX lp) :
    After lp r.log ∧ r.log.diskUsed g = r.log.files.length * g.fileBytes ∧
    (∀ f₀, r.log.files.head? = some f₀ → lp.cur ≤ f₀ ∨ r.log.queues.refsFile f₀ = true) ∧
    (∀ f, Effect.unlink f ∈ r.effects →
      r.log.queues.refsFile f = false ∧ f ≠ r.log.cur ∧ f ∉ r.log.files) := by
  obtain ⟨lp', e0', io', hpre', hlog, heff⟩ := recover_ok g img policy order failAt r hrec
  rw [hpre] at hpre'
  injection hpre' with hpre'
  injection hpre' with h1 h2
  injection h2 with h2 h3
  subst h1 h2 h3
  obtain ⟨hok', _, _, hhead⟩ := runGc_reclaimX g lp order hok
  rw [hlog]
  refine ⟨hok', rfl, hhead, ?_⟩
  intro f hf
  rw [heff, ← mem_unlinked, unlinked_append, recoverPre_effects g img policy failAt lp e0 io hpre,
    prepareImage_unlinked, List.nil_append] at hf
  exact runGc_unlinkedX g lp order hok f hf

/-! ### Crash-reachable states -/

section Crash
open C05 C01J G H L Buf Codec

theorem imgOf_vals : ∀ (cs : List Bytes) (F : Nat), ∀ kv ∈ imgOf F cs, kv.2 ∈ cs
  | [], _, kv, h => by cases h
  | c :: cs, F, kv, h => by
    simp only [imgOf, List.mem_cons] at h
    rcases h with rfl | h
    · exact List.mem_cons_self
    · exact List.mem_cons_of_mem _ (imgOf_vals cs (F + 1) kv h)

/-- the relaxed invariant is part of the crash invariant -/
theorem filesOkX_of_cinvx {g : Geom} {l : Log} {J : List JE} {D : Image} (h : L.CInvX g l J D) : FilesOkX l := by
  obtain ⟨init, t, x, res, ais, lead, gs, hx⟩ := h.disk
  exact filesOkX_range _ init.length x hx.tape.files hx.tape.cur

/-- the directory holds EXACTLY the tracked files -/
theorem dir_eq_files {g : Geom} {l : Log} {J : List JE} {D : Image} (h : L.CInvX g l J D) :
    D.map (·.1) = l.files := by
  obtain ⟨init, t, x, res, ais, lead, gs, hx⟩ := h.disk
  generalize l.files.headD 0 = F at hx
  rw [hx.tape.img, hx.tape.files, List.map_append, imgOf_keys]
  cases x with
  | false => simp [xtra]
  | true =>
    simp only [xtra, if_true, List.map_cons, List.map_nil, List.length_append, List.length_cons,
      List.length_nil]
    rw [List.range'_concat (n := init.length + 0 + 1)]
    simp only [Nat.add_zero, Nat.one_mul, Nat.zero_add, Nat.add_assoc]

/-- every file has the nominal size, except possibly an empty successor of the current file -/
theorem dir_sizes {g : Geom} {l : Log} {J : List JE} {D : Image} (h : L.CInvX g l J D) :
    ∀ kv ∈ D, kv.2.length = g.fileBytes ∨ (kv.2 = [] ∧ kv.1 = l.cur + 1) := by
  obtain ⟨init, t, x, res, ais, lead, gs, hx⟩ := h.disk
  intro kv hkv
  rw [hx.tape.img] at hkv
  rcases List.mem_append.mp hkv with hk | hk
  · left
    rcases List.mem_append.mp (imgOf_vals _ _ kv hk) with hi | hi
    · exact hx.tape.full _ hi
    · rw [List.mem_singleton.mp hi]
      have := hx.tape.resle
      have := hx.tape.tlen
      simp only [List.length_append, zeros, List.length_replicate]
      omega
  · right
    cases x with
    | false => simp [xtra] at hk
    | true =>
      simp only [xtra, if_true, List.mem_singleton] at hk
      rw [hk, hx.tape.cur]
      exact ⟨rfl, rfl⟩

/-- the current file is the last non-empty file of the directory -/
theorem cur_char {g : Geom} {l : Log} {J : List JE} {D : Image} (h : L.CInvX g l J D) :
    (∀ kv ∈ D, kv.2 ≠ [] → kv.1 ≤ l.cur) ∧ ∃ c, (l.cur, c) ∈ D ∧ c ≠ [] := by
  obtain ⟨init, t, x, res, ais, lead, gs, hx⟩ := h.disk
  have hfb := fileBytes_pos g
  refine ⟨?_, ?_⟩
  · intro kv hkv hne
    rw [hx.tape.img] at hkv
    rcases List.mem_append.mp hkv with hk | hk
    · have := (imgOf_key_bounds _ _ kv hk).2
      simp only [List.length_append, List.length_cons, List.length_nil] at this
      rw [hx.tape.cur]; omega
    · cases x with
      | false => simp [xtra] at hk
      | true =>
        simp only [xtra, if_true, List.mem_singleton] at hk
        rw [hk] at hne
        exact absurd rfl hne
  · refine ⟨t ++ (res ++ zeros (g.fileBytes - l.off - res.length)), ?_, ?_⟩
    · rw [hx.tape.img, imgOf_snoc, hx.tape.cur]
      exact List.mem_append_left _ (List.mem_append_right _ (List.mem_singleton.mpr rfl))
    · intro he
      have hl := congrArg List.length he
      have := hx.tape.resle
      have := hx.tape.tlen
      simp only [List.length_append, zeros, List.length_replicate, List.length_nil] at hl
      omega

/-- two logs satisfying the crash invariant on the same directory track the same files and write
    in the same file -/
theorem same_dir {g : Geom} {l l' : Log} {J J' : List JE} {D : Image} (h : L.CInvX g l J D)
    (h' : L.CInvX g l' J' D) : l'.files = l.files ∧ l'.cur = l.cur := by
  refine ⟨by rw [← dir_eq_files h, ← dir_eq_files h'], ?_⟩
  obtain ⟨a1, c, hc, hne⟩ := cur_char h
  obtain ⟨a1', c', hc', hne'⟩ := cur_char h'
  have := a1 _ hc' hne'
  have := a1' _ hc hne
  simp only at *
  omega

variable {g}

/-- **`FilesOkX` at every crash-reachable state**, the directory holding exactly the tracked files,
    all of nominal size except possibly an empty successor of the current file. -/
theorem filesOkX_reachX (hB : g.B ≤ 65542) (cap : Nat) {l : Log} {img : Image} {b : BufSt}
    (h : C02U.ReachX g cap l img b) :
    FilesOkX l ∧ (C02U.flushDisk img b).map (·.1) = l.files ∧
    ∀ kv ∈ C02U.flushDisk img b, kv.2.length = g.fileBytes ∨ (kv.2 = [] ∧ kv.1 = l.cur + 1) := by
  obtain ⟨⟨J, hc, _⟩, _⟩ := C02U.reachX_inv g hB cap h
  exact ⟨filesOkX_of_cinvx hc, dir_eq_files hc, dir_sizes hc⟩

/-- **every call from a crash-reachable state**: the relaxed invariant, and the strict one again
    as soon as the writer has moved to another file -/
theorem C06_crash_step (hB : g.B ≤ 65542) (cap : Nat) {l : Log} {img : Image} {b : BufSt}
    (h : C02U.ReachX g cap l img b) (c : Call) (tick : Bool) (order : List Bytes) :
    After l (Log.step g l c tick order).1 :=
  filesOkX_step g l c tick order (filesOkX_reachX hB cap h).1

/-- **C06 at every `truncate`/`delete_queue` of a crash-reachable state.** -/
theorem C06_crash_reclaim (hB : g.B ≤ 65542) (cap : Nat) {l : Log} {img : Image} {b : BufSt}
    (h : C02U.ReachX g cap l img b) (c : Call) (tick : Bool) (order : List Bytes)
    (hc : Step.isGcCall c = true) :
    let r := Log.step g l c tick order
    FilesOkX r.1 ∧ r.1.diskUsed g = r.1.files.length * g.fileBytes ∧
    (r.2.1 ≠ .missingQueue → ∀ f₀, r.1.files.head? = some f₀ →
      l.cur ≤ f₀ ∨ r.1.queues.refsFile f₀ = true) ∧
    (∀ f, Effect.unlink f ∈ r.2.2 → r.1.queues.refsFile f = false ∧ f ≠ r.1.cur ∧ f ∉ r.1.files) := by
  intro r
  have hok := (filesOkX_reachX hB cap h).1
  obtain ⟨h1, h2, h3⟩ := C06X_reclaim g l c tick order hok hc
  exact ⟨h1, h2, h3, fun f hf => no_premature_release g l c tick order hok f hf⟩

/-- **C06 at every restart of a crash-reachable state**: the log rebuilt from the directory tracks
    the same files and resumes in the same file; the GC pass of `open` re-establishes the reclaim
    clause. -/
theorem C06_crash_open (hB : g.B ≤ 65542) (cap : Nat) {l : Log} {img : Image} {b : BufSt}
    (h : C02U.ReachX g cap l img b) (policy : Policy) (order : List Bytes) (lp : Log) (e0 : List Effect)
    (io : Nat) (r : Recovered)
    (hpre : recoverPre g (C02U.flushDisk img b) policy none = .ok (lp, e0, io))
    (hrec : recover g (C02U.flushDisk img b) policy order none = .ok r) :
    lp.files = l.files ∧ lp.cur = l.cur ∧
    After l r.log ∧ r.log.diskUsed g = r.log.files.length * g.fileBytes ∧
    (∀ f₀, r.log.files.head? = some f₀ → l.cur ≤ f₀ ∨ r.log.queues.refsFile f₀ = true) ∧
    (∀ f, Effect.unlink f ∈ r.effects →
      r.log.queues.refsFile f = false ∧ f ≠ r.log.cur ∧ f ∉ r.log.files) := by
  obtain ⟨⟨J, hc, hw⟩, _⟩ := C02U.reachX_inv g hB cap h
  obtain ⟨J', lp1, io1, F', a1, _, a3, _, _, _⟩ := xinvres_of_cinvx g hB hc hw policy
  rw [hpre] at a1
  simp only [Except.ok.injEq, Prod.mk.injEq] at a1
  obtain ⟨rfl, _, _⟩ := a1
  obtain ⟨hf, hcur⟩ := same_dir hc a3
  obtain ⟨b1, b2, b3, b4⟩ := C06X_open g order _ policy none r lp e0 io hpre hrec (filesOkX_of_cinvx a3)
  refine ⟨hf, hcur, ?_, b2, by rw [← hcur]; exact b3, b4⟩
  refine ⟨b1.1, ?_⟩
  rcases b1.2 with s | e
  · exact Or.inl s
  · exact Or.inr (e.trans hcur)

/-- **C06 after a crash at ANY point of a call**: the `open` that follows — whatever the number
    `k` of OS operations done and the byte `cut` at which operation `k` was cut, in particular
    between two unlinks of a GC pass, or between the creation of the next file and the first write
    into it — rebuilds a log satisfying the relaxed invariant, and its GC pass re-establishes the
    reclaim clause at once. -/
theorem C06_crash_recover (hB : g.B ≤ 65542) (cap : Nat) {l : Log} {img : Image} {b : BufSt}
    (h : C02U.ReachX g cap l img b) (hb : b.pend = []) (c : Call) (tick : Bool) (order : List Bytes)
    (hfits : ∀ j ∈ l.stepJ g c order, C07.WF j.e) (htorn : C02A.TornStep g l c tick order) (k cut : Nat)
    (policy' : Policy) (order' : List Bytes) (lp : Log) (e0 : List Effect) (io : Nat) (r : Recovered)
    (hpre : recoverPre g (crashImage img (toOsOps cap b (l.step g c tick order).2.2).2 k cut) policy' none =
      .ok (lp, e0, io))
    (hrec : recover g (crashImage img (toOsOps cap b (l.step g c tick order).2.2).2 k cut) policy' order' none =
      .ok r) :
    FilesOkX lp ∧ After lp r.log ∧ r.log.diskUsed g = r.log.files.length * g.fileBytes ∧
    (∀ f₀, r.log.files.head? = some f₀ → lp.cur ≤ f₀ ∨ r.log.queues.refsFile f₀ = true) ∧
    (∀ f, Effect.unlink f ∈ r.effects →
      r.log.queues.refsFile f = false ∧ f ≠ r.log.cur ∧ f ∉ r.log.files) := by
  obtain ⟨⟨J, hc, hw⟩, st, hinv, hclean⟩ := C02U.reachX_inv g hB cap h
  rw [C02U.flushDisk_of_empty img b hb] at hc
  obtain ⟨st', hrun, _⟩ := C14.step_Disc g l c tick order st hclean
  have hcut := crash_cut cap _ b st st' img hinv hrun k cut
  rw [pendW_nil b hb, List.nil_append] at hcut
  have hfits' : ∀ j ∈ J ++ l.stepJ g c order, C07.WF j.e := by
    intro j hj
    rcases List.mem_append.mp hj with hj | hj
    · exact hw j hj
    · exact hfits j hj
  have hres := call_cutX g hB hc c tick order hfits' htorn false _ (CutW.of_cutState hcut)
  obtain ⟨J', lp1, io1, F', a1, _, a3, _, _, _⟩ := hres policy'
  rw [hpre] at a1
  simp only [Except.ok.injEq, Prod.mk.injEq] at a1
  obtain ⟨rfl, _, _⟩ := a1
  have hok := filesOkX_of_cinvx a3
  exact ⟨hok, C06X_open g order' _ policy' none r lp e0 io hpre hrec hok⟩

/-- **… and after a crash at ANY point of `open` itself.** -/
theorem C06_crash2_recover (hB : g.B ≤ 65542) (cap : Nat) {l : Log} {img : Image} {b : BufSt}
    (h : C02U.ReachX g cap l img b) (policy : Policy) (order : List Bytes) (lp0 : Log)
    (e00 : List Effect) (io0 : Nat) (r0 : Recovered)
    (hpre0 : recoverPre g (C02U.flushDisk img b) policy none = .ok (lp0, e00, io0))
    (hrec0 : recover g (C02U.flushDisk img b) policy order none = .ok r0)
    (hgw0 : ∀ j ∈ lp0.gcJ g order, C07.WF j.e) (htorn : TornEffs r0.effects)
    (k cut : Nat) (policy' : Policy) (order' : List Bytes) (lp : Log) (e0 : List Effect) (io : Nat)
    (r : Recovered)
    (hpre : recoverPre g (crashImage (C02U.flushDisk img b) (toOsOps cap {} r0.effects).2 k cut) policy' none =
      .ok (lp, e0, io))
    (hrec : recover g (crashImage (C02U.flushDisk img b) (toOsOps cap {} r0.effects).2 k cut) policy' order' none =
      .ok r) :
    FilesOkX lp ∧ After lp r.log ∧ r.log.diskUsed g = r.log.files.length * g.fileBytes ∧
    (∀ f₀, r.log.files.head? = some f₀ → lp.cur ≤ f₀ ∨ r.log.queues.refsFile f₀ = true) ∧
    (∀ f, Effect.unlink f ∈ r.effects →
      r.log.queues.refsFile f = false ∧ f ≠ r.log.cur ∧ f ∉ r.log.files) := by
  obtain ⟨⟨J, hc, hw⟩, _⟩ := C02U.reachX_inv g hB cap h
  obtain ⟨_, ⟨st', hrun⟩, hcut⟩ :=
    C02U.recover_boundary g hB hc hw policy order lp0 e00 io0 r0 hpre0 hrec0 hgw0 htorn
  have hX := crash_cut cap _ {} none st' (C02U.flushDisk img b) (Buf.inv_empty cap none) hrun k cut
  have hn : pendW ({} : BufSt) = [] := rfl
  rw [hn, List.nil_append] at hX
  have hres := hcut false _ (CutW.of_cutState hX)
  obtain ⟨J', lp1, io1, F', a1, _, a3, _, _, _⟩ := hres policy'
  rw [hpre] at a1
  simp only [Except.ok.injEq, Prod.mk.injEq] at a1
  obtain ⟨rfl, _, _⟩ := a1
  have hok := filesOkX_of_cinvx a3
  exact ⟨hok, C06X_open g order' _ policy' none r lp e0 io hpre hrec hok⟩

end Crash

/-! ### The strict clause fails: a concrete crash-reachable state

Geometry `B = 8`, `K = 1` (one 8-byte block per file), `BufWriter` capacity 0. From the empty
directory: `open`, then `create_queue "a"` whose entry takes 12 one-byte frames, one file each.
The OS operations of the call begin with `write wal-0`, `sync`, `sync`, `create wal-1`,
`set_len wal-1`, …; the crash happens after 4 of them. The well-founded `writeEntryBufs` is
evaluated through a fuel version (`web_eq`); everything else is evaluated by the kernel
(`decide +kernel`: no compiler, no extra axiom). -/

section Counter

deriving instance DecidableEq for MRL.Log
deriving instance DecidableEq for MRL.Recovered
deriving instance DecidableEq for Except

/-- `writeEntryBufs` with fuel instead of well-founded recursion (the kernel can evaluate it) -/
def webF (g : Geom) : Nat → Nat → Bool → Bytes → List Bytes
  | 0, _, _, _ => []
  | fuel + 1, c, isFirst, payload =>
    let n := min (maxFrameLen g c) payload.length
    let rest := payload.drop n
    let bufs := frameWrites g c (FrameType.ofFlags isFirst rest.isEmpty) (payload.take n)
    if rest.isEmpty then bufs else bufs ++ webF g fuel (frameEndCursor g c n) false rest

theorem web_eq (g : Geom) : ∀ (fuel c : Nat) (isFirst : Bool) (payload : Bytes) (hc : c < g.B),
    2 * payload.length + (if maxFrameLen g c = 0 then 1 else 0) < fuel →
    writeEntryBufs g c isFirst payload hc = webF g fuel c isFirst payload := by
  intro fuel
  induction fuel with
  | zero => intro c b p hc h; omega
  | succ fuel ih =>
    intro c b p hc h
    rw [writeEntryBufs]
    simp only [webF]
    by_cases hr : (p.drop (min (maxFrameLen g c) p.length)).isEmpty = true
    · simp only [hr, dite_true, if_true]
    · simp only [hr, Bool.false_eq_true, ↓reduceDIte, ↓reduceIte]
      congr 1
      apply ih
      have hlen : (p.drop (min (maxFrameLen g c) p.length)).length = p.length - min (maxFrameLen g c) p.length :=
        List.length_drop
      have hne : (p.drop (min (maxFrameLen g c) p.length)).length ≠ 0 := by
        intro h0; apply hr; simp only [List.isEmpty_iff]; exact List.eq_nil_of_length_eq_zero h0
      by_cases hn : min (maxFrameLen g c) p.length = 0
      · have hm : maxFrameLen g c = 0 := by omega
        have h2 := maxFrameLen_adv_of_zero g c hc hm
        rw [hn] at hlen ⊢
        rw [if_neg h2]
        rw [if_pos hm] at h
        simp only [List.drop_zero] at hlen ⊢
        omega
      · split <;> split at h <;> omega


instance (t : FrameType) (p : Bytes) : Decidable (H.TornFrame t p) := by
  unfold H.TornFrame; infer_instance

theorem tornEffs_check (es : List Effect) (fr : List (FrameType × Bytes))
    (h1 : es.all (fun e => match e with
      | .write _ _ d => decide (d ∈ fr.map (fun x => encodeFrame x.1 x.2))
      | _ => true) = true)
    (h2 : ∀ x ∈ fr, H.TornFrame x.1 x.2) : H.TornEffs es := by
  intro t p f off hmem
  have := List.all_eq_true.mp h1 _ hmem
  simp only [decide_eq_true_eq] at this
  obtain ⟨x, hx, he⟩ := List.mem_map.mp this
  obtain ⟨e1, e2⟩ := C02.encodeFrame_inj _ _ _ _ he
  rw [← e1, ← e2]
  exact h2 x hx

def g8 : Geom := { B := 8, K := 1, hB := by decide, hK := by decide }
def l0 : Log := { files := [0], cur := 0, off := 0, queues := [], policy := .doNothing }
def r0 : Recovered := { log := l0, effects := [.create 0, .setLen 0 8, .ensureLen 0 8], ioCalls := 3 }
def img0 : Image := applyOsOps [] (toOsOps 0 {} r0.effects).2
def b0 : BufSt := (toOsOps 0 {} r0.effects).1
def cX : Call := .create [97]
def imgX : Image := [(0, [81, 17, 225, 157, 1, 0, 2, 2]), (1, [])]
def l1 : Log := { files := [0, 1], cur := 0, off := 8, queues := [], policy := .doNothing }
def r1 : Recovered := { log := l1, effects := [.ensureLen 0 8], ioCalls := 6 }


set_option maxRecDepth 100000 in
theorem hr0 : recover g8 [] .doNothing [] none = .ok r0 := by decide +kernel

/-- the call, with the frames of the entry computed by the fuel version -/
def stepC (bufs : List Bytes) : Log × Outcome × List Effect :=
  let w := writeBufs g8 l0 bufs
  ({ w.1 with queues := w.1.queues.set [97] {} }, .created (totalLen bufs),
    w.2 ++ w.1.persistEffects .flushAndFsync)

theorem step_struct : l0.step g8 cX false [] = stepC (webF g8 40 0 true (Entry.touch [97] 0).encode) := by
  have h : l0.step g8 cX false [] = stepC (Step.entryBufs g8 l0 (Entry.touch [97] 0)) := rfl
  rw [h]
  congr 1
  unfold Step.entryBufs MRL.writeEntry
  exact web_eq g8 40 _ true _ _ (by decide)


set_option maxRecDepth 100000 in
theorem imgX_eq : imgX = crashImage img0 (toOsOps 0 b0 (r0.log.step g8 cX false []).2.2).2 4 0 := by
  show imgX = crashImage img0 (toOsOps 0 b0 (l0.step g8 cX false []).2.2).2 4 0
  rw [step_struct]
  decide +kernel

set_option maxRecDepth 100000 in
theorem torn0 : C02A.TornStep g8 r0.log cX false [] := by
  show H.TornEffs (l0.step g8 cX false []).2.2
  rw [step_struct]
  apply tornEffs_check _ [(.first, [2]), (.middle, [0]), (.middle, [1]), (.last, [97])]
  · decide +kernel
  · decide +kernel

set_option maxRecDepth 100000 in
theorem hp1 : recoverPre g8 imgX .doNothing none = .ok (l1, [.ensureLen 0 8], 6) := by decide +kernel

set_option maxRecDepth 100000 in
theorem hr1 : recover g8 imgX .doNothing [] none = .ok r1 := by decide +kernel

set_option maxRecDepth 100000 in
/-- **the strict C06 clause fails on a crash-reachable state**: a crash right after the creation
    of `wal-1` (4 OS operations into `create_queue`), then `open`: files `[0, 1]`, current file `0`. -/
theorem filesOk_fails :
    ∃ (l : Log) (img : Image) (b : BufSt), C02U.ReachX g8 0 l img b ∧
      l.files = [0, 1] ∧ l.cur = 0 ∧ ¬ FilesOk l ∧ FilesOkX l := by
  have h0 : C02U.ReachX g8 0 r0.log img0 b0 :=
    C02U.ReachX.base (C01R.ReachD.init .doNothing [] r0 hr0) (fun j hj => by cases hj)
  have h1 := C02U.ReachX.crash cX false [] 4 0 imgX .doNothing [] l1 [.ensureLen 0 8] 6 r1 h0 rfl
    (by decide +kernel) torn0 imgX_eq hp1 hr1 (by decide +kernel)
  refine ⟨_, _, _, h1, rfl, rfl, ?_, ?_⟩
  · intro h
    have := h.2
    simp [r1, l1] at this
  · exact ⟨⟨rfl, trivial⟩, by simp [r1, l1], Or.inr rfl⟩

end Counter

end MRL.C06X
