/-
C09 (byte level) — damage confined to the checksum and/or payload bytes of a single frame costs
at most the one WAL entry that frame belongs to.

Setting of C07: entries `es` written from cursor `c`, the complete stream followed by zeros. The
frames of the layout are `Torn.framesOf g c hc es = fs1 ++ (t, p) :: fs2` (`framesOf_is_layout`:
the writer's buffers are `layoutBufs` of them); the damaged stream has, in place of the buffer
`encodeFrame t p` of the chosen frame, `crc' ++ len(2) ++ type(1) ++ p'` with ARBITRARY `crc'`
(4 bytes) and `p'` (same length as `p`) — length field and type byte untouched, everything else
identical (`damaged_buffers`; with the original bytes it is the original stream, `undamaged`).
`hdet` is the detection hypothesis: the altered frame fails its check.

`C09_one_frame`: the damaged stream is read to its end, stopping where the writer stopped, and
the entries delivered (corrupt events dropped) are `es` with exactly entry `a` removed, in
order, `a` being the entry the frame belongs to — whatever the frame's role (Full, First, Middle,
Last) and position (next to a block end, followed by padding …). The length field is intact, so
the reader resynchronises on the next frame; `assemble` leaves the entry on the corrupt event,
ignores the remaining Middle/Last frames of entry `a`, and the next First/Full starts cleanly.

Proof machinery: MRL/Proofs/TornDamage.lean, MRL/Proofs/TornRaw.lean.
-/
import MRL.Proofs.TornDamage
import MRL.Props.C02

namespace MRL.C09
open MRL Consts Codec Torn

/-- the frames of the entries are what the writer lays out -/
theorem framesOf_is_layout (g : Geom) (c : Nat) (hc : c < g.B) (es : List Bytes) :
    C07.writeEntriesBufs g c hc es = layoutBufs g c (framesOf g c hc es) ∧
    EntriesFrames es (framesOf g c hc es) ∧ Fits g c (framesOf g c hc es) :=
  framesOf_spec g es c hc

/-- the buffers of the stream with frame `(t, p)` (after the frames `fs1`, before `fs2`) damaged:
    checksum bytes `crc'`, payload `p'` -/
def damagedBufs (g : Geom) (c : Nat) (fs1 : List Frm) (t : FrameType) (fs2 : List Frm) (crc' p' : Bytes) :
    List Bytes :=
  rawLayout g c (fs1.map good ++ (crc', t, p') :: fs2.map good)

/-- the damaged stream is the original one, buffer by buffer, except for the frame's buffer,
    which keeps its length, its length field and its type byte -/
theorem damaged_buffers (g : Geom) (c : Nat) (fs1 : List Frm) (t : FrameType) (p : Bytes) (fs2 : List Frm)
    (crc' p' : Bytes) (hp : p'.length = p.length) :
    damagedBufs g c fs1 t fs2 crc' p' =
      layoutBufs g c fs1 ++
        ((if g.B - endCursor g c fs1 < HEADER_LEN then [zeros (g.B - endCursor g c fs1)] else []) ++
          [crc' ++ leBytes p.length 2 ++ [t.code.toUInt8] ++ p'] ++
          layoutBufs g (frameEndCursor g (endCursor g c fs1) p.length) fs2) ∧
    layoutBufs g c (fs1 ++ (t, p) :: fs2) =
      layoutBufs g c fs1 ++
        ((if g.B - endCursor g c fs1 < HEADER_LEN then [zeros (g.B - endCursor g c fs1)] else []) ++
          [leBytes (frameCrc t p) 4 ++ leBytes p.length 2 ++ [t.code.toUInt8] ++ p] ++
          layoutBufs g (frameEndCursor g (endCursor g c fs1) p.length) fs2) := by
  constructor
  · unfold damagedBufs
    rw [rawLayout_damaged g c fs1 p fs2 (crc', t, p') hp]
    unfold rawWrites Raw.bytes
    simp only [hp]
    split <;> simp
  · rw [layout_split]
    unfold frameWrites encodeFrame encodeHeader
    split <;> simp

/-- with the original checksum and payload it is the original stream -/
theorem undamaged (g : Geom) (c : Nat) (fs1 : List Frm) (t : FrameType) (p : Bytes) (fs2 : List Frm) :
    damagedBufs g c fs1 t fs2 (leBytes (frameCrc t p) 4) p = layoutBufs g c (fs1 ++ (t, p) :: fs2) := by
  unfold damagedBufs
  have : fs1.map good ++ (leBytes (frameCrc t p) 4, t, p) :: fs2.map good = (fs1 ++ (t, p) :: fs2).map good := by
    simp [good]
  rw [this, rawLayout_good]

/-- **C09.** -/
theorem C09_one_frame (g : Geom) (hB : g.B ≤ 65542) (c : Nat) (hc : c < g.B) (es : List Bytes)
    (file z : Nat) (hz : 7 ≤ z) (fs1 : List Frm) (t : FrameType) (p : Bytes) (fs2 : List Frm)
    (hfs : framesOf g c hc es = fs1 ++ (t, p) :: fs2)
    (crc' p' : Bytes) (h4 : crc'.length = 4) (hp : p'.length = p.length)
    (hdet : frameCrc t p' ≠ leNat crc') :
    let stream' := zeros c ++ (damagedBufs g c fs1 t fs2 crc' p').flatten ++ zeros z
    stream'.length % g.B = 0 →
    ∃ a, a < es.length ∧
      (framesOf g c hc (es.take a)).length ≤ fs1.length ∧
      fs1.length < (framesOf g c hc (es.take (a + 1))).length ∧
      ∃ b0 rest evs e io,
        fileBlocks g file stream' 1 0 (stream'.length / g.B) = b0 :: rest ∧
        scanBlocks g none 1 0 b0 c rest = some (evs, e, io) ∧
        entriesOf (assemble { within := false, buf := [], attr := file } evs) =
          (es.eraseIdx a).map (RecEv.entry file) ∧
        e.file = file ∧
        e.idx * g.B + e.cursor = finalPos g (c + totalLen (C07.writeEntriesBufs g c hc es)) := by
  intro stream' hmod
  obtain ⟨a, gp1, gs', ha, h1, h2, h3⟩ := next_frame g es c hc fs1 t p fs2 hfs
  obtain ⟨rest, hsplit, hR⟩ := framesOf_split g es c hc (a + 1)
  have hfs2 : fs2 = gs' ++ rest := by
    rw [hfs, h3, h1, List.append_assoc, List.append_assoc, List.append_assoc] at hsplit
    have := List.append_cancel_left (List.append_cancel_left hsplit)
    simpa using this
  refine ⟨a, ha, by rw [h1]; simp, by rw [h3, h1]; simp, ?_⟩
  -- the read
  have hF := (framesOf_spec g es c hc).2.2
  rw [hfs] at hF
  have hfx := FitsRaw_damaged g c fs1 t p fs2 (crc', t, p') h4 hp hF
  obtain ⟨n, hn⟩ := C02.whole_blocks g stream' hmod (by simp [stream']; omega)
  have hdrop : stream'.drop c = (rawLayout g c (fs1.map good ++ (crc', t, p') :: fs2.map good)).flatten ++ zeros z := by
    show (zeros c ++ (damagedBufs g c fs1 t fs2 crc' p').flatten ++ zeros z).drop c = _
    rw [List.append_assoc, List.drop_left' (length_zeros c)]; rfl
  obtain ⟨e, e1, e2, e3⟩ := readFrom_raw_end g hB file _ stream' 0 n c z hc hfx hn hdrop hz
  obtain ⟨b0, rest', io, hfb, hsb⟩ := pipeline g file stream' c n hn
  rw [e1] at hsb
  refine ⟨b0, rest', _, e, io, hfb, hsb, ?_, e2, ?_⟩
  · have hev : tagEvs file ((fs1.map good ++ (crc', t, p') :: fs2.map good).map Raw.ev) =
        tagF file fs1 ++ RdEv.corrupt file :: tagF file fs2 := by
      rw [List.map_append, tagEvs_append, tagEvs_good, List.map_cons]
      have hx : Raw.ev (crc', t, p') = FrameEv.corrupt := by simp [Raw.ev, hdet]
      rw [hx]
      show _ ++ RdEv.corrupt file :: tagEvs file ((fs2.map good).map Raw.ev) = _
      rw [tagEvs_good]
    rw [hev, h1, hfs2]
    have := asm_damaged file (es.take a) _ gp1 gs' rest (t, p) (es.drop (a + 1))
      (framesOf_spec g (es.take a) c hc).2.1 h2 hR
    rw [List.eraseIdx_eq_take_drop_succ]
    exact this
  · rw [e3, Nat.zero_mul, Nat.zero_add]
    congr 1
    rw [totalLen_eq, (framesOf_spec g es c hc).1, hfs, rawLayout_damaged g c fs1 p fs2 (crc', t, p') hp,
      layout_split]
    simp only [List.flatten_append, List.length_append, rawWrites_length g _ (crc', t, p') t p h4 hp]

/-! ### non-vacuity on `g.B = 16` (the two entries of the C02 example) -/

theorem layoutBufs_inj (g : Geom) : ∀ (fs fs' : List Frm) (c : Nat),
    layoutBufs g c fs = layoutBufs g c fs' → fs = fs' := by
  intro fs
  induction fs with
  | nil =>
    intro fs' c h
    cases fs' with
    | nil => rfl
    | cons fr fs' =>
      exfalso
      simp only [layoutBufs, frameWrites] at h
      split at h <;> simp at h
  | cons fr fs ih =>
    intro fs' c h
    obtain ⟨t, p⟩ := fr
    cases fs' with
    | nil =>
      exfalso
      simp only [layoutBufs, frameWrites] at h
      split at h <;> simp at h
    | cons fr' fs' =>
      obtain ⟨t', p'⟩ := fr'
      simp only [layoutBufs, frameWrites] at h
      have hkey : encodeFrame t p = encodeFrame t' p' ∧
          layoutBufs g (frameEndCursor g c p.length) fs = layoutBufs g (frameEndCursor g c p'.length) fs' := by
        split at h <;> simpa using h
      obtain ⟨rfl, rfl⟩ := C02.encodeFrame_inj _ _ _ _ hkey.1
      rw [ih fs' _ hkey.2]

open C02 in
theorem exFrames : framesOf g16 0 (by decide) exEs =
    [(.full, [1, 2]), (.first, []), (.middle, [3, 0, 0, 0, 0, 0, 0, 0, 0]), (.last, [0, 0, 4])] := by
  apply layoutBufs_inj g16 _ _ 0
  rw [← (framesOf_spec g16 exEs 0 (by decide)).1, exBufs]
  simp [layoutBufs, frameWrites, frameEndCursor, adv, g16, HEADER_LEN]

set_option maxRecDepth 100000 in
theorem crcEx : frameCrc .middle [3, 0, 0, 0, 0, 0, 0, 0, 0] ≠ leNat [0, 0, 0, 0] ∧
    frameCrc .full [9, 9] ≠ frameCrc .full [1, 2] := by decide

open C02 in
/-- checksum bytes of the Middle frame of entry 1 zeroed (payload intact): entry 1 is lost, entry
    0 is delivered. The executable model gives `[entry 5 [1, 2], corrupt]`. -/
example := C09_one_frame g16 (by decide) 0 (by decide) exEs 5 22 (by decide)
  [(.full, [1, 2]), (.first, [])] .middle [3, 0, 0, 0, 0, 0, 0, 0, 0] [(.last, [0, 0, 4])] exFrames
  [0, 0, 0, 0] [3, 0, 0, 0, 0, 0, 0, 0, 0] rfl rfl crcEx.1
  (by simp [damagedBufs, rawLayout, rawWrites, Raw.bytes, good, frameEndCursor, adv, g16, HEADER_LEN, length_leBytes])

open C02 in
/-- payload of the Full frame of entry 0 altered (checksum bytes intact): entry 0 is lost, entry
    1 is delivered although its first frame sits right behind the damaged one, at the very end
    of the block. The executable model gives `[corrupt, entry 5 [3, 0, …, 4]]`. -/
example := C09_one_frame g16 (by decide) 0 (by decide) exEs 5 22 (by decide)
  [] .full [1, 2] [(.first, []), (.middle, [3, 0, 0, 0, 0, 0, 0, 0, 0]), (.last, [0, 0, 4])] exFrames
  (leBytes (frameCrc .full [1, 2]) 4) [9, 9] (length_leBytes _ _) rfl
  (by rw [leNat_leBytes4 _ (frameCrc_lt _ _)]; exact crcEx.2)
  (by simp [damagedBufs, rawLayout, rawWrites, Raw.bytes, good, frameEndCursor, adv, g16, HEADER_LEN, length_leBytes])

end MRL.C09
