/-
C01 (end to end) — a clean restart reproduces the exact logical state.

FULL STATEMENT. Let `ReachD g cap l J img b` be the (log, journal, OS image, `BufWriter` state)
quadruples reachable from the first `open` of an empty directory by any sequence of API calls
(`step`: the image is driven only by the effects the model emits, through the `BufWriter` model
`toOsOps cap`) and of restarts (`reopen`: the `BufWriter` is dropped — flushed — and the directory
is opened again; the journal is extended by the touches of the GC pass that ends `open`). Then for
every geometry with `g.B ≤ 65542` (frame lengths fit their 2-byte field), every capacity `cap`,
every reachable quadruple whose journal entries are serialisable (`C07.WF`: UTF-8 names shorter
than 2^16 bytes, positions < 2^64, payloads shorter than 2^32 bytes), every policy and GC order:

    ∃ r, recover g (flushDisk img b) policy order none = .ok r ∧ QsEquiv r.log.queues l.queues

i.e. dropping the log at any reachable point — after any calls, roll-overs, GC passes that deleted
any number of files, and earlier restarts — and opening the directory again succeeds and yields
the same queue names, the same records (positions, payloads, file handles) and the same next
positions. Corollaries: no deleted queue reappears (`C01_no_resurrection`) and the abstract state
of C05 is the same (`C01_obs`). Nothing is assumed but `ReachD`, `g.B ≤ 65542` and `WF`.
-/
import MRL.Proofs.GRestart

namespace MRL.C01R
open MRL Log C05 C01J G Codec

/-- what the OS holds once the `BufWriter` is dropped -/
abbrev flushDisk (img : Image) (b : BufSt) : Image := G.flushDisk img b

/-- reachable (log, journal, OS image, `BufWriter` state), restarts included -/
inductive ReachD (g : Geom) (cap : Nat) : Log → List JE → Image → BufSt → Prop
  | init (policy : Policy) (order : List Bytes) (r : Recovered) :
      recover g [] policy order none = .ok r →
      ReachD g cap r.log [] (applyOsOps [] (toOsOps cap {} r.effects).2) (toOsOps cap {} r.effects).1
  | step {l : Log} {J : List JE} {img : Image} {b : BufSt} (c : Call) (tick : Bool) (order : List Bytes) :
      ReachD g cap l J img b →
      ReachD g cap (l.step g c tick order).1 (J ++ l.stepJ g c order)
        (applyOsOps img (toOsOps cap b (l.step g c tick order).2.2).2)
        (toOsOps cap b (l.step g c tick order).2.2).1
  | reopen {l : Log} {J : List JE} {img : Image} {b : BufSt} (policy : Policy) (order : List Bytes)
      (lp : Log) (e0 : List Effect) (io : Nat) (r : Recovered) :
      ReachD g cap l J img b →
      recoverPre g (flushDisk img b) policy none = .ok (lp, e0, io) →
      recover g (flushDisk img b) policy order none = .ok r →
      ReachD g cap r.log (J ++ lp.gcJ g order)
        (applyOsOps (flushDisk img b) (toOsOps cap {} r.effects).2) (toOsOps cap {} r.effects).1

/-- the invariant of reachable quadruples -/
structure RInv (g : Geom) (cap : Nat) (l : Log) (J : List JE) (img : Image) (b : BufSt) : Prop where
  c : CInv g l J (flushDisk img b)
  buf : BufOK cap l b

theorem flushDisk_empty (D : Image) : flushDisk D {} = D := rfl

theorem DInvF_full {g : Geom} {l : Log} {D : Image} {J : List JE} {F : Nat} (h : DInvF g l D J F) :
    ∀ kv ∈ D, kv.2.length = g.fileBytes := by
  obtain ⟨init, t, afs, hT, _⟩ := h
  have hfull : ∀ c ∈ init ++ [t ++ zeros (g.fileBytes - l.off)], c.length = g.fileBytes := by
    intro c hc
    rcases List.mem_append.mp hc with hc | hc
    · exact hT.full c hc
    · simp only [List.mem_singleton] at hc
      have := hT.off_le
      rw [hc]; simp [hT.tlen]; omega
  rw [hT.img]
  generalize init ++ [t ++ zeros (g.fileBytes - l.off)] = cs at hfull
  generalize F = F0
  induction cs generalizing F0 with
  | nil => intro kv hkv; cases hkv
  | cons c cs ih =>
    intro kv hkv
    simp only [imgOf, List.mem_cons] at hkv
    rcases hkv with rfl | hkv
    · exact hfull c List.mem_cons_self
    · exact ih (fun c' hc' => hfull c' (List.mem_cons_of_mem _ hc')) (F0 + 1) kv hkv

theorem recoverPre_img1 (g : Geom) (img img' : Image) (policy : Policy)
    (h1 : (prepareImage g img').1 = (prepareImage g img).1) {lp : Log} {e0 : List Effect} {io : Nat}
    (h : recoverPre g img policy none = .ok (lp, e0, io)) :
    recoverPre g img' policy none = .ok (lp, (prepareImage g img').2, io) := by
  rcases hb : blocksOf g (prepareImage g img).1 1 with ⟨bs, trail⟩
  cases bs with
  | nil => rw [Rec.recoverPre_nil g img policy none trail hb] at h; cases h
  | cons b0 rest =>
    have hb' : blocksOf g (prepareImage g img').1 1 = (b0 :: rest, trail) := by rw [h1]; exact hb
    rw [Rec.recoverPre_cons g img policy none b0 rest trail hb] at h
    rw [Rec.recoverPre_cons g img' policy none b0 rest trail hb']
    simp only [ioFails, Bool.false_eq_true, if_false] at h ⊢
    cases hs : scanBlocks g none trail b0.cost b0 0 rest with
    | none => rw [hs] at h; cases h
    | some x =>
      obtain ⟨evs, e, io1⟩ := x
      rw [hs] at h
      simp only [Rec.finishPre] at h ⊢
      cases hr : replay [] (assemble { within := false, buf := [], attr := b0.file } evs) with
      | none => rw [hr] at h; cases h
      | some qs =>
        rw [hr] at h
        simp only [Except.ok.injEq, Prod.mk.injEq] at h ⊢
        obtain ⟨a1, _, a3⟩ := h
        exact ⟨by rw [h1]; exact a1, trivial, a3⟩

theorem runGc_single (g : Geom) (l : Log) (order : List Bytes) (f : Nat) (h : l.files = [f]) :
    runGc g l order = (l, [], 0) ∧ gcJ g l order = [] := by
  constructor <;> simp [runGc, gcJ, h]

/-! ### the invariant holds at every reachable quadruple -/

theorem rinv_init (g : Geom) (hB : g.B ≤ 65542) (cap : Nat) (policy : Policy) (order : List Bytes)
    (r : Recovered) (h : recover g [] policy order none = .ok r) :
    RInv g cap r.log [] (applyOsOps [] (toOsOps cap {} r.effects).2) (toOsOps cap {} r.effects).1 := by
  have hfb := fileBytes_pos g
  -- the state after creating `wal-0`
  let l0 : Log := { files := [0], cur := 0, off := 0, queues := [], policy := policy }
  have hD0 : (prepareImage g []).1 = imgOf 0 [zeros g.fileBytes] := rfl
  have hd0 : DInvF g l0 (imgOf 0 [zeros g.fileBytes]) [] 0 := by
    refine ⟨[], [], [], ?_, ?_, ?_, ?_, Or.inl rfl⟩
    · refine ⟨?_, ?_, rfl, Nat.zero_le _, rfl, rfl⟩
      · simp [l0]
      · intro c hc; cases hc
    · refine ⟨?_, trivial, trivial, Or.inl rfl⟩
      simp [untag, layoutBufs, endPos, zeros]
    · refine ⟨[], [], rfl, ?_, rfl, ?_, trivial⟩
      · intro a ha; cases ha
      · intro s hs; cases hs
    · intro a ha; cases ha
  have hc0 : CInv g l0 [] (imgOf 0 [zeros g.fileBytes]) :=
    ⟨jinv_init policy, List.Pairwise.nil, Or.inr rfl, hd0⟩
  obtain ⟨lp, io, r', hrec, _, _, _, hc, _, hf, _⟩ :=
    recover_ok g hB hc0 (fun _ h => by cases h) policy order
  have hprep : (prepareImage g (imgOf 0 [zeros g.fileBytes])).1 = (prepareImage g []).1 := by
    rw [prepare_full g 0 _ [] (by simp)]; rfl
  have hrec0 := recoverPre_img1 g (imgOf 0 [zeros g.fileBytes]) [] policy hprep.symm hrec
  have hlpf : lp.files = [0] := hf
  obtain ⟨hgc1, _⟩ := runGc_single g lp order 0 hlpf
  rw [Rec.recover_none, hrec0] at h
  simp only [hgc1, Except.ok.injEq] at h
  subst h
  have heff : (prepareImage g ([] : Image)).2 =
      [.create 0, .setLen 0 g.fileBytes, .ensureLen 0 g.fileBytes] := rfl
  simp only [heff, List.append_nil]
  have hops : toOsOps cap {} [Effect.create 0, .setLen 0 g.fileBytes, .ensureLen 0 g.fileBytes] =
      ({}, [OsOp.create 0, .setLen 0 g.fileBytes, .ensureLen 0 g.fileBytes]) := by
    simp [toOsOps, bufStep]
  rw [hops]
  have himg : applyOsOps [] [OsOp.create 0, .setLen 0 g.fileBytes, .ensureLen 0 g.fileBytes] =
      imgOf 0 [zeros g.fileBytes] := by
    simp [applyOsOps, applyOs, insertFile, mapFile, setLenBytes_nil, imgOf]
  rw [himg]
  exact ⟨hc, bufOK_empty cap lp⟩

theorem rinv_step (g : Geom) (cap : Nat) {l : Log} {J : List JE} {img : Image} {b : BufSt}
    (h : RInv g cap l J img b) (c : Call) (tick : Bool) (order : List Bytes) :
    RInv g cap (l.step g c tick order).1 (J ++ l.stepJ g c order)
      (applyOsOps img (toOsOps cap b (l.step g c tick order).2.2).2)
      (toOsOps cap b (l.step g c tick order).2.2).1 := by
  obtain ⟨st, hinv, hclean⟩ := h.buf
  obtain ⟨st', hrun, hclean'⟩ := C14.step_Disc g l c tick order st hclean
  obtain ⟨hfl, hinv'⟩ := flushDisk_toOsOps cap img b _ st st' hinv hrun
  refine ⟨?_, st', hinv', hclean'⟩
  show CInv g _ _ (G.flushDisk _ _)
  rw [hfl]
  exact cinv_step g h.c c tick order

theorem rinv_reopen (g : Geom) (hB : g.B ≤ 65542) (cap : Nat) {l : Log} {J : List JE} {img : Image}
    {b : BufSt} (h : RInv g cap l J img b) (hwf : ∀ j ∈ J, C07.WF j.e) (policy : Policy)
    (order : List Bytes) (lp : Log) (e0 : List Effect) (io : Nat) (r : Recovered)
    (hpre : recoverPre g (flushDisk img b) policy none = .ok (lp, e0, io))
    (hrec : recover g (flushDisk img b) policy order none = .ok r) :
    RInv g cap r.log (J ++ lp.gcJ g order)
      (applyOsOps (flushDisk img b) (toOsOps cap {} r.effects).2) (toOsOps cap {} r.effects).1 := by
  obtain ⟨lp', io', r', hpre', hrec', hlog, heff, hc, _, _, _⟩ := recover_ok g hB h.c hwf policy order
  rw [hpre] at hpre'
  simp only [Except.ok.injEq, Prod.mk.injEq] at hpre'
  obtain ⟨rfl, _, _⟩ := hpre'
  rw [hrec] at hrec'
  simp only [Except.ok.injEq] at hrec'
  subst hrec'
  rw [hlog, heff]
  -- buffer discipline of the effects of `open`
  obtain ⟨st', hrun, hclean'⟩ := C14.runGc_Disc g lp order none (Or.inl rfl)
  have hrun' : Buf.run none ([Effect.ensureLen (l.files.headD 0) g.fileBytes] ++ (runGc g lp order).2.1) =
      some st' := by
    simp only [List.cons_append, List.nil_append, Buf.run, Buf.run1, if_true, Option.bind_some]
    exact hrun
  obtain ⟨hfl, hinv'⟩ := flushDisk_toOsOps cap (flushDisk img b) {} _ none st' (Buf.inv_empty cap none) hrun'
  refine ⟨?_, st', hinv', hclean'⟩
  show CInv g _ _ (G.flushDisk _ _)
  rw [hfl]
  have hD : G.flushDisk (flushDisk img b) {} = flushDisk img b := rfl
  rw [hD, Buf.directOps_append, Buf.applyOsOps_append]
  have hens : applyOsOps (flushDisk img b) (Buf.directOps [Effect.ensureLen (l.files.headD 0) g.fileBytes]) =
      flushDisk img b := by
    simp only [Buf.directOps, List.flatMap_cons, List.flatMap_nil, Buf.direct, List.append_nil,
      applyOsOps, List.foldl_cons, List.foldl_nil]
    apply ensureLen_full
    intro kv hkv _
    rw [DInvF_full h.c.disk kv hkv]; omega
  rw [hens]
  exact cinv_gc g hc order

theorem reach_rinv (g : Geom) (hB : g.B ≤ 65542) (cap : Nat) {l : Log} {J : List JE} {img : Image}
    {b : BufSt} (h : ReachD g cap l J img b) : (∀ j ∈ J, C07.WF j.e) → RInv g cap l J img b := by
  induction h with
  | init policy order r hr => intro _; exact rinv_init g hB cap policy order r hr
  | step c tick order _ ih =>
    intro hwf
    exact rinv_step g cap (ih fun j hj => hwf j (List.mem_append_left _ hj)) c tick order
  | reopen policy order lp e0 io r _ hpre hrec ih =>
    intro hwf
    have hwf' := fun j hj => hwf j (List.mem_append_left _ hj)
    exact rinv_reopen g hB cap (ih hwf') hwf' policy order lp e0 io r hpre hrec

/-! ### the theorems -/

/-- **C01 (end to end).** -/
theorem C01_restart_exact (g : Geom) (hB : g.B ≤ 65542) (cap : Nat) (l : Log) (J : List JE)
    (img : Image) (b : BufSt) (h : ReachD g cap l J img b) (hfits : ∀ j ∈ J, C07.WF j.e)
    (policy : Policy) (order : List Bytes) :
    ∃ r, recover g (flushDisk img b) policy order none = .ok r ∧ QsEquiv r.log.queues l.queues := by
  have hr := reach_rinv g hB cap h hfits
  obtain ⟨lp, io, r, _, hrec, hlog, _, _, hq, _, _⟩ := recover_ok g hB hr.c hfits policy order
  refine ⟨r, hrec, ?_⟩
  rw [hlog, runGc_queues]
  exact hq

/-- no deleted (or never created) queue reappears after a restart -/
theorem C01_no_resurrection (g : Geom) (hB : g.B ≤ 65542) (cap : Nat) (l : Log) (J : List JE)
    (img : Image) (b : BufSt) (h : ReachD g cap l J img b) (hfits : ∀ j ∈ J, C07.WF j.e)
    (policy : Policy) (order : List Bytes) (r : Recovered)
    (hr : recover g (flushDisk img b) policy order none = .ok r) (name : Bytes)
    (hn : l.queues.get? name = none) : r.log.queues.get? name = none := by
  obtain ⟨r', hr', hq⟩ := C01_restart_exact g hB cap l J img b h hfits policy order
  rw [hr] at hr'
  simp only [Except.ok.injEq] at hr'
  subst hr'
  exact hq.symm.get_none hn

/-- and every queue that exists still exists -/
theorem C01_no_loss (g : Geom) (hB : g.B ≤ 65542) (cap : Nat) (l : Log) (J : List JE)
    (img : Image) (b : BufSt) (h : ReachD g cap l J img b) (hfits : ∀ j ∈ J, C07.WF j.e)
    (policy : Policy) (order : List Bytes) (r : Recovered)
    (hr : recover g (flushDisk img b) policy order none = .ok r) (name : Bytes) (q : MemQueue)
    (hn : l.queues.get? name = some q) :
    ∃ q', r.log.queues.get? name = some q' ∧ q'.recs = q.recs ∧ q'.nextPosition = q.nextPosition := by
  obtain ⟨r', hr', hq⟩ := C01_restart_exact g hB cap l J img b h hfits policy order
  rw [hr] at hr'
  simp only [Except.ok.injEq] at hr'
  subst hr'
  obtain ⟨y, hy, hxy⟩ := hq.symm.get_some hn
  exact ⟨y, hy, hxy.1.symm, hxy.2.symm⟩

/-- the abstract state of C05 (queue name ↦ records and next position) is the same map -/
theorem C01_obs (g : Geom) (hB : g.B ≤ 65542) (cap : Nat) (l : Log) (J : List JE)
    (img : Image) (b : BufSt) (h : ReachD g cap l J img b) (hfits : ∀ j ∈ J, C07.WF j.e)
    (policy : Policy) (order : List Bytes) (r : Recovered)
    (hr : recover g (flushDisk img b) policy order none = .ok r) :
    ∀ name, r.log.abs.get? name = l.abs.get? name := by
  obtain ⟨r', hr', hq⟩ := C01_restart_exact g hB cap l J img b h hfits policy order
  rw [hr] at hr'
  simp only [Except.ok.injEq] at hr'
  subst hr'
  intro name
  rw [abs_get_eq, abs_get_eq]
  have := qsEquiv_iff.mp hq name
  cases h1 : r.log.queues.get? name with
  | none =>
    rw [h1] at this
    cases h2 : l.queues.get? name with
    | none => rfl
    | some y => rw [h2] at this; exact this.elim
  | some x =>
    rw [h1] at this
    cases h2 : l.queues.get? name with
    | none => rw [h2] at this; exact this.elim
    | some y =>
      rw [h2] at this
      simp only [Option.map_some, Option.some.injEq]
      simp only [OEquiv] at this
      unfold MemQueue.abs
      rw [this.1, this.2]

/-! ### non-vacuity: the premises of the constructors can always be met -/

/-- the first `open` of an empty directory succeeds, so `ReachD.init` applies -/
theorem init_ok (g : Geom) (hB : g.B ≤ 65542) (policy : Policy) (order : List Bytes) :
    ∃ r, recover g [] policy order none = .ok r := by
  let l0 : Log := { files := [0], cur := 0, off := 0, queues := [], policy := policy }
  have hd0 : DInvF g l0 (imgOf 0 [zeros g.fileBytes]) [] 0 := by
    refine ⟨[], [], [], ?_, ?_, ?_, ?_, Or.inl rfl⟩
    · refine ⟨?_, ?_, rfl, Nat.zero_le _, rfl, rfl⟩
      · simp [l0]
      · intro c hc; cases hc
    · refine ⟨?_, trivial, trivial, Or.inl rfl⟩
      simp [untag, layoutBufs, endPos, zeros]
    · refine ⟨[], [], rfl, ?_, rfl, ?_, trivial⟩
      · intro a ha; cases ha
      · intro s hs; cases hs
    · intro a ha; cases ha
  have hc0 : CInv g l0 [] (imgOf 0 [zeros g.fileBytes]) :=
    ⟨jinv_init policy, List.Pairwise.nil, Or.inr rfl, hd0⟩
  obtain ⟨lp, io, r', hrec, _, _, _, _, _, _, _⟩ :=
    recover_ok g hB hc0 (fun _ h => by cases h) policy order
  have hprep : (prepareImage g (imgOf 0 [zeros g.fileBytes])).1 = (prepareImage g []).1 := by
    rw [prepare_full g 0 _ [] (by simp)]; rfl
  have hrec0 := recoverPre_img1 g (imgOf 0 [zeros g.fileBytes]) [] policy hprep.symm hrec
  rw [Rec.recover_none, hrec0]
  exact ⟨_, rfl⟩

/-- at every reachable quadruple a restart succeeds, so `ReachD.reopen` applies -/
theorem reopen_ok (g : Geom) (hB : g.B ≤ 65542) (cap : Nat) (l : Log) (J : List JE)
    (img : Image) (b : BufSt) (h : ReachD g cap l J img b) (hfits : ∀ j ∈ J, C07.WF j.e)
    (policy : Policy) (order : List Bytes) :
    ∃ lp e0 io r, recoverPre g (flushDisk img b) policy none = .ok (lp, e0, io) ∧
      recover g (flushDisk img b) policy order none = .ok r := by
  have hr := reach_rinv g hB cap h hfits
  obtain ⟨lp, io, r, hpre, hrec, _⟩ := recover_ok g hB hr.c hfits policy order
  exact ⟨lp, _, io, r, hpre, hrec⟩

/-- by-product: `open` (before its GC pass) finds exactly the tracked files and installs the
    requested policy -/
theorem C01_files_kept (g : Geom) (hB : g.B ≤ 65542) (cap : Nat) (l : Log) (J : List JE)
    (img : Image) (b : BufSt) (h : ReachD g cap l J img b) (hfits : ∀ j ∈ J, C07.WF j.e)
    (policy : Policy) :
    ∃ lp e0 io, recoverPre g (flushDisk img b) policy none = .ok (lp, e0, io) ∧ lp.files = l.files ∧
      lp.policy = policy := by
  have hr := reach_rinv g hB cap h hfits
  obtain ⟨lp, io, hrec, _, _, hf, hp⟩ := open_ok g hB hr.c hfits policy
  exact ⟨lp, _, io, hrec, hf, hp⟩

end MRL.C01R
