/-
C10, "never allocates without bound", for the RESULT of `open`, on EVERY image (arbitrary bytes,
arbitrary file lengths, any I/O fault plan).

`C10.recover_buf_bounded` bounds the reassembly buffer. Here: what the recovered queues hold.

The argument is a potential. Give every record a nominal overhead of `REC_HEADER_LEN = 12` bytes
(what it costs in an `AppendRecords` entry): `usedBytes 12 qs` = names + payloads + 12 per record.
* an entry of `n` bytes that decodes to `e` has `11 + entryCost 12 e ≤ n` (`decode_cost`): the name
  and every record header and payload are disjoint slices of it;
* replaying `e` raises the potential by at most `entryCost 12 e` (`replayEntry_used`; truncations
  and deletions only lower it);
* the entries `assemble` delivers are made of disjoint frame payloads: their total length is at
  most the payload bytes of the frames (`assemble_entryBytes`), which lie in the blocks, which
  lie in the prepared image (`C10.scanPrefix_bytes`, `C10.blocksOf_bytes`).
Distinctness of the delivered entries is therefore never needed: the bound is per delivered
entry and the delivered entries' total length is bounded by the stream.

`I := imageBytes (prepareImage g img).1` (the image as `open` reads it: an empty directory gets
`wal-0`, a first file shorter than a block is zero-extended to the nominal size — a frame may
reach into that padding, so `I` and not `imageBytes img` is the right bound; `I ≤ imageBytes img +
g.fileBytes`, `prepared_le`).

* `recoverPre_potential` / `recover_potential`: `usedBytes 12 queues ≤ I`.
* (1) `recover_payload_bounded`: names + payload bytes `≤ I`.
* (2) `recover_records_bounded`: `12 * (number of records) ≤ I`.
* (3) `recover_used_bounded`: `12 * usedBytes msz queues ≤ (12 + msz) * I`, hence
  `usedBytes msz queues ≤ (1 + msz) * I` (`recover_used_bounded'`) and `usedBytes msz queues ≤ I`
  when `msz ≤ 12` (`recover_used_small`).
* the same for `recoverC` (arbitrary directory content, clipped view: `I ≤` the bytes of the
  directory `+ g.fileBytes`).
-/
import MRL.Props.C10
import MRL.Props.C16Calls
import MRL.Proofs.RecReplay

namespace MRL.C10M
open MRL Log Consts C10 C16 Rec

/-! ### what an entry costs -/

/-- bytes of names, payloads and `msz` per record that replaying `e` can add -/
def entryCost (msz : Nat) : Entry → Nat
  | .append q _ recs => q.length + (recs.map (·.2.length)).sum + msz * recs.length
  | .touch q _ => q.length
  | .truncate _ _ => 0
  | .delete _ _ => 0

theorem sum_add_const (recs : List (Nat × Bytes)) :
    (recs.map fun r => 12 + r.2.length).sum = (recs.map (·.2.length)).sum + 12 * recs.length := by
  induction recs with
  | nil => rfl
  | cons r rs ih => simp only [List.map_cons, List.sum_cons, List.length_cons, ih]; omega

/-- the records of a batch body are disjoint slices of it, 12 header bytes each -/
theorem decodeRecs_cost (bs : Bytes) : ∀ recs, Entry.decodeRecs bs = some recs →
    (recs.map fun r => 12 + r.2.length).sum ≤ bs.length := by
  fun_induction Entry.decodeRecs bs with
  | case1 bs h => intro recs hr; cases hr; simp
  | case2 => intro recs hr; cases hr
  | case3 => intro recs hr; cases hr
  | case4 bs _ hlen pos len rest hfit ih =>
    intro recs hr
    cases hd : Entry.decodeRecs (List.drop len rest) with
    | none => rw [hd] at hr; cases hr
    | some rs =>
      rw [hd] at hr
      simp only [Option.map_some, Option.some.injEq] at hr
      subst hr
      have := ih rs hd
      simp only [REC_HEADER_LEN] at hlen
      simp only [List.map_cons, List.sum_cons, List.length_take, List.length_drop, rest,
        REC_HEADER_LEN] at this hfit ⊢
      omega

/-- **an entry that decodes is at least its header, its name, and 12 bytes plus the payload for
    every record** -/
theorem decode_cost (bs : Bytes) (e : Entry) (h : Entry.decode bs = some e) :
    ENTRY_HEADER_LEN + entryCost 12 e ≤ bs.length := by
  unfold Entry.decode at h
  simp only [ENTRY_HEADER_LEN] at h ⊢
  split at h
  · cases h
  · rename_i hlen
    split at h
    · cases h
    · split at h
      · cases h
      · rename_i hq
        have hql : (List.take (leNat (List.take 2 (List.drop 9 bs))) (List.drop 11 bs)).length =
            leNat (List.take 2 (List.drop 9 bs)) := by
          rw [List.length_take]; omega
        simp only [List.length_drop] at hq
        split at h
        · cases h
        · split at h
          · cases hd : Entry.decodeRecs (List.drop (leNat (List.take 2 (List.drop 9 bs))) (List.drop 11 bs)) with
            | none => rw [hd] at h; cases h
            | some recs =>
              rw [hd] at h
              simp only [Option.map_some, Option.some.injEq] at h
              subst h
              have := decodeRecs_cost _ recs hd
              rw [sum_add_const] at this
              simp only [List.length_drop] at this
              simp only [entryCost, hql]
              omega
          · split at h
            · cases h; simp only [entryCost]; omega
            · split at h
              · cases h; simp only [entryCost, hql]; omega
              · cases h; simp only [entryCost]; omega

/-! ### what replaying an entry costs -/

theorem sum_filter_le {α : Type} (f : α → Nat) (p : α → Bool) (l : List α) :
    ((l.filter p).map f).sum ≤ (l.map f).sum := by
  induction l with
  | nil => simp
  | cons a l ih =>
    by_cases h : p a = true
    · simp only [List.filter_cons_of_pos h, List.map_cons, List.sum_cons]; omega
    · simp only [List.filter_cons_of_neg h, List.map_cons, List.sum_cons]; omega

theorem used_remove_le (msz : Nat) (qs : MemQueues) (n : Bytes) :
    MemQueues.usedBytes msz (qs.remove n) ≤ MemQueues.usedBytes msz qs :=
  sum_filter_le _ _ qs

theorem sum_drop_le (f : Rec → Nat) (l : List Rec) (k : Nat) : ((l.drop k).map f).sum ≤ (l.map f).sum := by
  induction l generalizing k with
  | nil => simp
  | cons a l ih =>
    cases k with
    | zero => simp
    | succ k =>
      have := ih k
      simp only [List.drop_succ_cons, List.map_cons, List.sum_cons]; omega

theorem truncateHead_size_le (msz : Nat) (q : MemQueue) (p : Nat) :
    (q.truncateHead p).1.size msz ≤ q.size msz := by
  unfold MemQueue.truncateHead
  split
  · exact Nat.le_refl _
  · split
    · simp [MemQueue.size]
    · simp only [MemQueue.size]
      have h1 := sum_drop_le (·.payload.length) q.recs (q.recs.takeWhile (·.pos ≤ p)).length
      have h2 : (q.recs.drop (q.recs.takeWhile (·.pos ≤ p)).length).length ≤ q.recs.length := by
        rw [List.length_drop]; omega
      have h3 := Nat.mul_le_mul_right msz h2
      omega

theorem size_withNext (msz p : Nat) : (MemQueue.withNextPosition p).size msz = 0 := by
  simp [MemQueue.size, MemQueue.withNextPosition]

theorem used_set_le (msz : Nat) (qs : MemQueues) (hnd : (qs.map (·.1)).Nodup) (n : Bytes) (q : MemQueue) :
    MemQueues.usedBytes msz (qs.set n q) ≤ MemQueues.usedBytes msz qs + n.length + q.size msz := by
  cases hg : qs.get? n with
  | none => rw [C16K.used_set_new msz qs n q hg]; omega
  | some q0 => have := C16K.used_set_replace msz qs hnd n q0 q hg; omega

theorem used_ack_le (msz : Nat) (qs : MemQueues) (hnd : (qs.map (·.1)).Nodup) (n : Bytes) (next : Nat) :
    MemQueues.usedBytes msz (qs.ackPosition n next) ≤ MemQueues.usedBytes msz qs + n.length := by
  unfold MemQueues.ackPosition
  cases hg : qs.get? n with
  | none =>
    simp only
    rw [C16K.used_set_new msz qs n _ hg, size_withNext]; omega
  | some q0 =>
    simp only
    split
    · have := C16K.used_set_replace msz qs hnd n q0 (MemQueue.withNextPosition next) hg
      rw [size_withNext] at this
      omega
    · omega

/-- **replaying one entry raises `usedBytes msz` by at most `entryCost msz`** -/
theorem replayEntry_used (msz : Nat) {qs qs' : MemQueues} {file : Nat} {e : Entry}
    (h : replayEntry qs file e = some qs') (hI : QsInv qs) :
    MemQueues.usedBytes msz qs' ≤ MemQueues.usedBytes msz qs + entryCost msz e := by
  cases e with
  | append q pos recs =>
    simp only [replayEntry] at h
    have hI1 : QsInv (if qs.contains q then qs else qs.ackPosition q pos) := by
      split
      · exact hI
      · exact hI.ack q pos
    have hu1 : MemQueues.usedBytes msz (if qs.contains q then qs else qs.ackPosition q pos) ≤
        MemQueues.usedBytes msz qs + q.length := by
      split
      · omega
      · exact used_ack_le msz qs hI.1 q pos
    generalize (if qs.contains q then qs else qs.ackPosition q pos) = qs1 at h hI1 hu1
    cases hg : qs1.get? q with
    | none => rw [hg] at h; cases h
    | some mq =>
      rw [hg] at h
      simp only at h
      cases ha : Log.appendAll mq file recs with
      | none => rw [ha] at h; cases h
      | some mq' =>
        rw [ha] at h
        simp only [Option.map_some, Option.some.injEq] at h
        subst h
        have h1 := C16K.used_set_replace msz qs1 hI1.1 q mq mq' hg
        have h2 := C16K.appendAll_size msz file recs mq mq' ha
        simp only [entryCost]
        omega
  | truncate q p =>
    simp only [replayEntry] at h
    cases hg : qs.get? q with
    | none => rw [hg] at h; cases h; simp [entryCost]
    | some mq =>
      rw [hg] at h
      simp only [Option.some.injEq] at h
      subst h
      have h1 := C16K.used_set_replace msz qs hI.1 q mq (mq.truncateHead p).1 hg
      have h2 := truncateHead_size_le msz mq p
      simp only [entryCost]
      omega
  | touch q p =>
    simp only [replayEntry, Option.some.injEq] at h
    subst h
    exact used_ack_le msz qs hI.1 q p
  | delete q p =>
    simp only [replayEntry, Option.some.injEq] at h
    subst h
    have := used_remove_le msz qs q
    simp only [entryCost]; omega

/-! ### the replay loop -/

/-- total length of the delivered entries -/
def entryBytes : List RecEv → Nat
  | [] => 0
  | .entry _ bytes :: evs => bytes.length + entryBytes evs
  | .corrupt :: evs => entryBytes evs

/-- **the potential after the replay loop is at most the bytes of the entries delivered** -/
theorem replay_potential (evs : List RecEv) : ∀ (qs qs' : MemQueues), replay qs evs = some qs' → QsInv qs →
    MemQueues.usedBytes 12 qs' ≤ MemQueues.usedBytes 12 qs + entryBytes evs := by
  induction evs with
  | nil => intro qs qs' h _; simp only [replay, Option.some.injEq] at h; subst h; simp [entryBytes]
  | cons ev evs ih =>
    intro qs qs' h hI
    cases ev with
    | corrupt =>
      simp only [replay] at h
      simpa [entryBytes] using ih qs qs' h hI
    | entry f bytes =>
      simp only [replay] at h
      cases hd : Entry.decode bytes with
      | none =>
        rw [hd] at h
        have := ih qs qs' h hI
        simp only [entryBytes]; omega
      | some e =>
        rw [hd] at h
        simp only at h
        cases hr : replayEntry qs f e with
        | none => rw [hr] at h; cases h
        | some qs1 =>
          rw [hr] at h
          simp only [Option.bind_some] at h
          have h1 := replayEntry_used 12 hr hI
          have h2 := ih qs1 qs' h (QsInv_replayEntry hr hI)
          have h3 := decode_cost bytes e hd
          simp only [entryBytes]; omega

/-! ### the entries delivered are made of disjoint frame payloads -/

theorem assemble_entryBytes (evs : List RdEv) : ∀ (st : AsmSt),
    entryBytes (assemble st evs) ≤ (if st.within then st.buf.length else 0) + frameBytes evs := by
  induction evs with
  | nil => intro st; simp [assemble, entryBytes]
  | cons ev evs ih =>
    intro st
    cases ev with
    | corrupt file =>
      have := ih { within := false, buf := st.buf, attr := file }
      simp only [assemble, entryBytes, frameBytes] at this ⊢
      simp only [Bool.false_eq_true, if_false, Nat.zero_add] at this
      omega
    | frame file t p =>
      simp only [assemble, frameBytes]
      cases hw : st.within <;> cases hf : t.isFirst
      · -- not within, not a first frame: skipped
        have := ih st
        simp only [hw, Bool.false_eq_true, if_false, Nat.zero_add, Bool.or_self] at this ⊢
        omega
      · -- a first frame
        simp only [Bool.or_true, if_true, List.nil_append, Bool.false_eq_true, if_false, Nat.zero_add]
        split
        · have := ih { within := false, buf := p, attr := file }
          simp only [Bool.false_eq_true, if_false, Nat.zero_add] at this
          simp only [entryBytes]; omega
        · have := ih { within := true, buf := p, attr := st.attr }
          simp only [if_true] at this
          omega
      · -- within, continuation frame
        simp only [Bool.or_false, if_true, Bool.false_eq_true, if_false]
        split
        · have := ih { within := false, buf := st.buf ++ p, attr := file }
          simp only [Bool.false_eq_true, if_false, Nat.zero_add] at this
          simp only [entryBytes, List.length_append]; omega
        · have := ih { within := true, buf := st.buf ++ p, attr := st.attr }
          simp only [if_true, List.length_append] at this
          omega
      · -- within, a first frame: the buffer restarts
        simp only [Bool.or_true, if_true, List.nil_append]
        split
        · have := ih { within := false, buf := p, attr := file }
          simp only [Bool.false_eq_true, if_false, Nat.zero_add] at this
          simp only [entryBytes]; omega
        · have := ih { within := true, buf := p, attr := st.attr }
          simp only [if_true] at this
          omega

/-- the entries `open` replays, whatever the image and the fault plan, total at most the bytes of
    the prepared image -/
theorem delivered_bytes (g : Geom) (img : Image) (failAt : Option Nat) :
    entryBytes (deliveredEvents g img failAt) ≤ imageBytes (prepareImage g img).1 := by
  unfold deliveredEvents
  split
  · simp [entryBytes]
  · rename_i b0 rest trail hb
    split
    · simp [entryBytes]
    · have h1 := assemble_entryBytes (scanPrefix g failAt b0.cost b0 0 rest)
        { within := false, buf := [], attr := b0.file }
      have h2 := scanPrefix_bytes g failAt rest b0.cost b0 0
      have h3 := blocksOf_bytes g (prepareImage g img).1 1
      rw [hb] at h3
      have h3' : blocksBytes (b0 :: rest) ≤ imageBytes (prepareImage g img).1 := h3
      simp only [Bool.false_eq_true, if_false, Nat.zero_add] at h1
      omega

/-- the prepared image is the image plus at most one nominal file of zeros -/
theorem prepared_le (g : Geom) (img : Image) :
    imageBytes (prepareImage g img).1 ≤ imageBytes img + g.fileBytes := by
  unfold prepareImage
  split
  · simp [imageBytes, zeros]
  · split
    · simp only [imageBytes, List.map_cons, List.sum_cons, List.length_append, zeros, List.length_replicate]
      omega
    · exact Nat.le_add_right _ _

theorem clip_le (g : Geom) (img : Image) : imageBytes (clipImage g img) ≤ imageBytes img := by
  unfold clipImage imageBytes
  induction img with
  | nil => simp
  | cons kv img ih =>
    simp only [List.map_cons, List.sum_cons, List.length_take] at ih ⊢
    omega

/-! ### the theorems -/

/-- **the potential of the log rebuilt by `open`** (before its GC pass) -/
theorem recoverPre_potential (g : Geom) (img : Image) (policy : Policy) (failAt : Option Nat) (lp : Log)
    (e0 : List Effect) (io : Nat) (h : recoverPre g img policy failAt = .ok (lp, e0, io)) :
    MemQueues.usedBytes 12 lp.queues ≤ imageBytes (prepareImage g img).1 := by
  have h1 := replay_potential _ [] lp.queues (deliveredEvents_of_pre h) QsInv_nil
  have h2 := delivered_bytes g img failAt
  have h0 : MemQueues.usedBytes 12 [] = 0 := rfl
  omega

/-- the GC pass of `open` writes entries; it allocates nothing in the queues -/
theorem recover_queues (g : Geom) (img : Image) (policy : Policy) (order : List Bytes) (failAt : Option Nat)
    (r : Recovered) (h : recover g img policy order failAt = .ok r) :
    ∃ lp e0 io, recoverPre g img policy failAt = .ok (lp, e0, io) ∧ r.log.queues = lp.queues := by
  obtain ⟨lp, e0, io, hpre, hlog, _⟩ := Step.recover_ok g img policy order failAt r h
  exact ⟨lp, e0, io, hpre, by rw [hlog]; exact runGc_queues g lp order⟩

/-- **names + payloads + 12 bytes per record ≤ the bytes read**, for every image and fault plan -/
theorem recover_potential (g : Geom) (img : Image) (policy : Policy) (order : List Bytes) (failAt : Option Nat)
    (r : Recovered) (h : recover g img policy order failAt = .ok r) :
    MemQueues.usedBytes 12 r.log.queues ≤ imageBytes (prepareImage g img).1 := by
  obtain ⟨lp, e0, io, hpre, hq⟩ := recover_queues g img policy order failAt r h
  rw [hq]
  exact recoverPre_potential g img policy failAt lp e0 io hpre

/-- **(1)** the queue names and the payloads held by the recovered queues fit in the image -/
theorem recover_payload_bounded (g : Geom) (img : Image) (policy : Policy) (order : List Bytes)
    (failAt : Option Nat) (r : Recovered) (h : recover g img policy order failAt = .ok r) :
    nameBytes r.log.queues + totalPayload r.log.queues ≤ imageBytes (prepareImage g img).1 :=
  Nat.le_trans (C16_used_ge 12 _) (recover_potential g img policy order failAt r h)

/-- **(2)** every recovered record cost at least its 12-byte header on disk -/
theorem recover_records_bounded (g : Geom) (img : Image) (policy : Policy) (order : List Bytes)
    (failAt : Option Nat) (r : Recovered) (h : recover g img policy order failAt = .ok r) :
    12 * totalRecords r.log.queues ≤ imageBytes (prepareImage g img).1 := by
  have := recover_potential g img policy order failAt r h
  rw [C16_used_split] at this
  omega

theorem used_scale (msz : Nat) (qs : MemQueues) (I : Nat) (h : MemQueues.usedBytes 12 qs ≤ I) :
    12 * MemQueues.usedBytes msz qs ≤ (12 + msz) * I := by
  rw [C16_used_split] at h ⊢
  generalize nameBytes qs + totalPayload qs = a at h ⊢
  generalize totalRecords qs = n at h ⊢
  have h1 : 12 * n ≤ I := by omega
  have h2 : msz * (12 * n) ≤ msz * I := Nat.mul_le_mul_left msz h1
  have h3 : 12 * (msz * n) = msz * (12 * n) := by
    rw [← Nat.mul_assoc, ← Nat.mul_assoc, Nat.mul_comm 12 msz]
  rw [Nat.mul_add, Nat.add_mul, h3]
  omega

/-- **(3)** `memory_used_bytes` of the recovered queues, `msz` = size of a `RecordMeta` -/
theorem recover_used_bounded (msz : Nat) (g : Geom) (img : Image) (policy : Policy) (order : List Bytes)
    (failAt : Option Nat) (r : Recovered) (h : recover g img policy order failAt = .ok r) :
    12 * MemQueues.usedBytes msz r.log.queues ≤ (12 + msz) * imageBytes (prepareImage g img).1 :=
  used_scale msz _ _ (recover_potential g img policy order failAt r h)

theorem recover_used_bounded' (msz : Nat) (g : Geom) (img : Image) (policy : Policy) (order : List Bytes)
    (failAt : Option Nat) (r : Recovered) (h : recover g img policy order failAt = .ok r) :
    MemQueues.usedBytes msz r.log.queues ≤ (1 + msz) * imageBytes (prepareImage g img).1 := by
  have h1 := recover_used_bounded msz g img policy order failAt r h
  generalize imageBytes (prepareImage g img).1 = I at h1 ⊢
  generalize MemQueues.usedBytes msz r.log.queues = u at h1 ⊢
  have h2 : (12 + msz) * I ≤ 12 * ((1 + msz) * I) := by
    rw [← Nat.mul_assoc]
    exact Nat.mul_le_mul_right I (by omega)
  omega

/-- with a `RecordMeta` of at most 12 bytes the memory used is at most the bytes read -/
theorem recover_used_small (msz : Nat) (hm : msz ≤ 12) (g : Geom) (img : Image) (policy : Policy)
    (order : List Bytes) (failAt : Option Nat) (r : Recovered)
    (h : recover g img policy order failAt = .ok r) :
    MemQueues.usedBytes msz r.log.queues ≤ imageBytes (prepareImage g img).1 := by
  have h1 := recover_potential g img policy order failAt r h
  rw [C16_used_split] at h1 ⊢
  have := Nat.mul_le_mul_right (totalRecords r.log.queues) hm
  omega

/-- the same before the GC pass -/
theorem recoverPre_bounded (msz : Nat) (g : Geom) (img : Image) (policy : Policy) (failAt : Option Nat)
    (lp : Log) (e0 : List Effect) (io : Nat) (h : recoverPre g img policy failAt = .ok (lp, e0, io)) :
    nameBytes lp.queues + totalPayload lp.queues ≤ imageBytes (prepareImage g img).1 ∧
    12 * totalRecords lp.queues ≤ imageBytes (prepareImage g img).1 ∧
    12 * MemQueues.usedBytes msz lp.queues ≤ (12 + msz) * imageBytes (prepareImage g img).1 := by
  have hp := recoverPre_potential g img policy failAt lp e0 io h
  refine ⟨Nat.le_trans (C16_used_ge 12 _) hp, ?_, used_scale msz _ _ hp⟩
  rw [C16_used_split] at hp
  omega

/-- **`open` on an arbitrary directory content** (`recoverC`: the clipped view): everything is
    bounded by the bytes of the directory plus one nominal file -/
theorem recoverC_bounded (msz : Nat) (g : Geom) (img : Image) (policy : Policy) (order : List Bytes)
    (failAt : Option Nat) (r : Recovered) (h : recoverC g img policy order failAt = .ok r) :
    nameBytes r.log.queues + totalPayload r.log.queues ≤ imageBytes img + g.fileBytes ∧
    12 * totalRecords r.log.queues ≤ imageBytes img + g.fileBytes ∧
    12 * MemQueues.usedBytes msz r.log.queues ≤ (12 + msz) * (imageBytes img + g.fileBytes) := by
  unfold recoverC at h
  have hI : imageBytes (prepareImage g (clipImage g img)).1 ≤ imageBytes img + g.fileBytes :=
    Nat.le_trans (prepared_le g _) (Nat.add_le_add_right (clip_le g img) _)
  have hp := Nat.le_trans (recover_potential g _ policy order failAt r h) hI
  refine ⟨Nat.le_trans (C16_used_ge 12 _) hp, ?_, used_scale msz _ _ hp⟩
  rw [C16_used_split] at hp
  omega

/-! ### `I` cannot be replaced by the bytes of the directory

`open` zero-extends a first file shorter than a block to its nominal size (repair F2) before
reading it, and a frame may reach into that padding. A 27-byte `wal-0` — the header of a Full
frame of 123 bytes, the header of an `AppendRecords` entry and of one record announcing a payload
of 100 bytes — whose checksum is the one of the zero-extended frame: `open` succeeds and the
recovered queue holds a 100-byte payload (of zeros). The bound `imageBytes img + g.fileBytes`
(`prepared_le`) accounts for it. -/

def gPad : Geom := { B := 256, K := 1, hB := by decide, hK := by decide }

def imgPad : Image :=
  [(0, [193, 239, 226, 55, 123, 0, 1, 4, 0, 0, 0, 0, 0, 0, 0, 0, 0, 0, 0, 0, 0, 0, 0, 0, 0, 0, 100])]

def payloadOfResult (x : Except OpenErr Recovered) : Nat :=
  match x with
  | .ok r => totalPayload r.log.queues
  | .error _ => 0

set_option maxRecDepth 100000 in
/-- 27 bytes on disk, 100 payload bytes in memory (kernel evaluation, no compiler) -/
theorem padding_example :
    imageBytes imgPad = 27 ∧ payloadOfResult (recover gPad imgPad .doNothing [] none) = 100 := by
  decide +kernel

end MRL.C10M
