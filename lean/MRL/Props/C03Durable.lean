/-
C03 (model level) — once persisted, never undone.

FULL STATEMENTS. Let `C01R.ReachD g cap l J img b` be a reachable quadruple at a persist point
(`b.pend = []`) and run ANY list of calls `cs` from it under ANY policies, threading the
`BufWriter` (`runD`: `s.ops` = all OS operations emitted, `s.b` = what is still buffered). Assume
`g.B ≤ 65542`, serialisable journal entries (`C07.WF`) and the CRC collision clause for the frames
written during the run (`TornRun`).

* `C03_durable`: for EVERY prefix length `k` of `s.ops` and EVERY byte cut, opening the crash image
  succeeds and yields — up to the file handles, `AbsEq`, see the finding of C02Atomic — the queues
  reached after SOME prefix `cs.take i` of the calls: never older than the persist point the run
  started from, never a mixture of states, whatever was buffered, rolled over or garbage-collected.
* `C03_durable_after`: if after the first `m` calls nothing is left in the `BufWriter`
  (`(runD … (cs.take m)).b.pend = []`: after every `create`/`delete`, every `persist`, every
  mutating call under `Always`/a due `OnDelay` — `C03.buffer_empty_of_flushedAtEnd`,
  `C03.always_persists`, `C03.create_synced`) and the crash happens after those calls' operations
  (`k ≥ (runD … (cs.take m)).ops.length`), then `m ≤ i`: recovery yields a state at least as recent
  as that point.
* `C03_power_loss`: if the effects of the first `m` calls end with `flush, fsync(file),
  fsync(dir)` (after `create`, `delete`, `persist FlushAndFsync`, and every mutating call under
  `Always(FlushAndFsync)`: `forced_tail`, `persist_tail`), then their OS operations end with a
  `sync`, nothing is buffered, and every crash/power-loss image that includes that `sync`
  (`k ≥` its position) recovers a state with `m ≤ i`.

All three are proved below as stated. Key fact: `H.crash_cut` — every `crashImage` of the
`BufWriter`'s output is the direct application of a prefix of the concatenated effects of the run,
the last write cut at any byte — reduces a crash during a multi-call run, whatever the buffering,
to a cut state of ONE call from the flushed disk of the state before it, which carries the
invariant `CInv` (`G.cinv_step`); `H.step_decomp` (C02Atomic) does the rest.
-/
import MRL.Proofs.KRun
import MRL.Props.C03

namespace MRL.C03D
open MRL Log C05 C01J G H K Buf Codec

export MRL.K (RunSt runD logD effsD jourD)

abbrev AbsEq := H.AbsEq

/-- the collision clause for every frame written during the run -/
def TornRun (g : Geom) (l : Log) (cs : List (Call × Bool × List Bytes)) : Prop := TornEffs (effsD g l cs)

theorem logD_append (g : Geom) (a b : List (Call × Bool × List Bytes)) : ∀ l : Log,
    logD g l (a ++ b) = logD g (logD g l a) b := by
  induction a with
  | nil => intro l; rfl
  | cons x a ih => intro l; obtain ⟨c, t, o⟩ := x; simp only [List.cons_append, logD]; exact ih _

theorem effsD_append (g : Geom) (a b : List (Call × Bool × List Bytes)) : ∀ l : Log,
    effsD g l (a ++ b) = effsD g l a ++ effsD g (logD g l a) b := by
  induction a with
  | nil => intro l; rfl
  | cons x a ih =>
    intro l; obtain ⟨c, t, o⟩ := x
    simp only [List.cons_append, effsD, logD, ih, List.append_assoc]

theorem jourD_append (g : Geom) (a b : List (Call × Bool × List Bytes)) : ∀ l : Log,
    jourD g l (a ++ b) = jourD g l a ++ jourD g (logD g l a) b := by
  induction a with
  | nil => intro l; rfl
  | cons x a ih =>
    intro l; obtain ⟨c, t, o⟩ := x
    simp only [List.cons_append, jourD, logD, ih, List.append_assoc]

/-- **C03, durability.** -/
theorem C03_durable (g : Geom) (hB : g.B ≤ 65542) (cap : Nat) (l : Log) (J : List JE) (img : Image)
    (b : BufSt) (h : C01R.ReachD g cap l J img b) (hb : b.pend = [])
    (cs : List (Call × Bool × List Bytes))
    (hfits : ∀ j ∈ (runD g cap ⟨l, J, b, []⟩ cs).J, C07.WF j.e) (htorn : TornRun g l cs)
    (k cut : Nat) (policy' : Policy) (order' : List Bytes) :
    ∃ rec i, i ≤ cs.length ∧
      recover g (crashImage img (runD g cap ⟨l, J, b, []⟩ cs).ops k cut) policy' order' none = .ok rec ∧
      AbsEq rec.log.queues (runD g cap ⟨l, J, b, []⟩ (cs.take i)).l.queues := by
  rw [runD_eq] at hfits ⊢
  simp only [List.nil_append] at hfits ⊢
  have hwfJ : ∀ j ∈ J, C07.WF j.e := fun j hj => hfits j (List.mem_append_left _ hj)
  have hr := C01R.reach_rinv g hB cap h hwfJ
  have hc := hr.c
  have hD : C01R.flushDisk img b = img := by
    simp [C01R.flushDisk, G.flushDisk, flushOps_nil b hb, applyOsOps]
  rw [hD] at hc
  obtain ⟨st, hinv, hclean⟩ := hr.buf
  obtain ⟨st', hrun, _⟩ := effsD_Disc g cs l st hclean
  have hX := crash_cut cap _ b st st' img hinv hrun k cut
  rw [pendW_nil b hb, List.nil_append] at hX
  obtain ⟨i, lp, e0, io, hi, hrec, hq⟩ := run_cut g hB cs hc hfits htorn _ hX policy'
  obtain ⟨r, hr', hrq⟩ := recover_of_pre g _ policy' order' lp e0 io hrec
  refine ⟨r, i, hi, hr', ?_⟩
  rw [hrq, runD_eq]
  exact hq

/-- **C03, durability after a persist point inside the run.** -/
theorem C03_durable_after (g : Geom) (hB : g.B ≤ 65542) (cap : Nat) (l : Log) (J : List JE) (img : Image)
    (b : BufSt) (h : C01R.ReachD g cap l J img b) (hb : b.pend = [])
    (cs : List (Call × Bool × List Bytes))
    (hfits : ∀ j ∈ (runD g cap ⟨l, J, b, []⟩ cs).J, C07.WF j.e) (htorn : TornRun g l cs)
    (m : Nat) (hm : m ≤ cs.length)
    (hpm : (runD g cap ⟨l, J, b, []⟩ (cs.take m)).b.pend = [])
    (k cut : Nat) (hk : (runD g cap ⟨l, J, b, []⟩ (cs.take m)).ops.length ≤ k)
    (policy' : Policy) (order' : List Bytes) :
    ∃ rec i, m ≤ i ∧ i ≤ cs.length ∧
      recover g (crashImage img (runD g cap ⟨l, J, b, []⟩ cs).ops k cut) policy' order' none = .ok rec ∧
      AbsEq rec.log.queues (runD g cap ⟨l, J, b, []⟩ (cs.take i)).l.queues := by
  -- the state after the first `m` calls is reachable, with an empty buffer
  have hsplit : cs = cs.take m ++ cs.drop m := (List.take_append_drop m cs).symm
  have hreach := reach_runD g cap (cs.take m) l J img b h
  rw [runD_eq] at hpm hk
  simp only [List.nil_append] at hpm hk
  -- the whole run, from the middle state
  have hops : (runD g cap ⟨l, J, b, []⟩ cs).ops =
      (toOsOps cap b (effsD g l (cs.take m))).2 ++
        (runD g cap ⟨logD g l (cs.take m), J ++ jourD g l (cs.take m),
          (toOsOps cap b (effsD g l (cs.take m))).1, []⟩ (cs.drop m)).ops := by
    conv => lhs; rw [hsplit, runD_append]
    rw [runD_eq g cap (cs.take m), runD_eq g cap (cs.drop m), runD_eq g cap (cs.drop m)]
    simp
  have hJ : (runD g cap ⟨l, J, b, []⟩ cs).J =
      (runD g cap ⟨logD g l (cs.take m), J ++ jourD g l (cs.take m),
        (toOsOps cap b (effsD g l (cs.take m))).1, []⟩ (cs.drop m)).J := by
    conv => lhs; rw [hsplit, runD_append]
    rw [runD_eq g cap (cs.take m), runD_eq g cap (cs.drop m), runD_eq g cap (cs.drop m)]
  have htorn' : TornRun g (logD g l (cs.take m)) (cs.drop m) := by
    unfold TornRun at htorn ⊢
    rw [hsplit, effsD_append] at htorn
    exact htorn.mono fun v hv => List.mem_append_right _ hv
  rw [hops, crashImage_append_ge _ _ _ _ _ hk]
  obtain ⟨rec, i', hi', hrec, hq⟩ := C03_durable g hB cap _ _ _ _ hreach hpm (cs.drop m)
    (by rw [← hJ]; exact hfits) htorn' (k - (toOsOps cap b (effsD g l (cs.take m))).2.length) cut policy' order'
  refine ⟨rec, m + i', Nat.le_add_right _ _, ?_, hrec, ?_⟩
  · simp at hi'; omega
  · rw [runD_eq] at hq ⊢
    simp only at hq ⊢
    have : cs.take (m + i') = cs.take m ++ (cs.drop m).take i' := List.take_add
    rw [this, logD_append]
    exact hq

/-! ### power loss -/

/-- effects ending with `flush, fsync(file), fsync(dir)`: nothing stays buffered and the last OS
    operation is a `sync` -/
theorem fsync_tail (cap : Nat) (b : BufSt) (pre : List Effect) (f : Nat) :
    (toOsOps cap b (pre ++ [.flush, .fsyncFile f, .fsyncDir])).1.pend = [] ∧
    (toOsOps cap b (pre ++ [.flush, .fsyncFile f, .fsyncDir])).2.getLast? = some .sync := by
  rw [toOsOps_append]
  simp [toOsOps, bufStep]

/-- a `create`/`delete` that is not rejected ends with `flush, fsync(file), fsync(dir)` -/
theorem forced_tail (g : Geom) (l : Log) (c : Call) (tick : Bool) (order : List Bytes)
    (hc : Step.isForced c = true) (hne : (l.step g c tick order).2.2 ≠ []) :
    ∃ pre f, (l.step g c tick order).2.2 = pre ++ [.flush, .fsyncFile f, .fsyncDir] := by
  rcases C03.step_tail (g := g) (l := l) (tick := tick) (order := order) c with h | ⟨a, h⟩ | ⟨pre, h⟩
  · exact absurd h hne
  · subst h; cases hc
  · refine ⟨pre, (l.step g c tick order).1.cur, ?_⟩
    rw [h]
    simp [Step.tailSync, hc, persistEffects]

/-- an explicit `persist FlushAndFsync` is `flush, fsync(file), fsync(dir)` -/
theorem persist_tail (g : Geom) (l : Log) (tick : Bool) (order : List Bytes) :
    (l.step g (.persist .flushAndFsync) tick order).2.2 = [] ++ [.flush, .fsyncFile l.cur, .fsyncDir] := rfl

/-- **C03, power loss (ordered persistence).** -/
theorem C03_power_loss (g : Geom) (hB : g.B ≤ 65542) (cap : Nat) (l : Log) (J : List JE) (img : Image)
    (b : BufSt) (h : C01R.ReachD g cap l J img b) (hb : b.pend = [])
    (cs : List (Call × Bool × List Bytes))
    (hfits : ∀ j ∈ (runD g cap ⟨l, J, b, []⟩ cs).J, C07.WF j.e) (htorn : TornRun g l cs)
    (m : Nat) (hm : m ≤ cs.length) (pre : List Effect) (f : Nat)
    (htail : effsD g l (cs.take m) = pre ++ [.flush, .fsyncFile f, .fsyncDir]) :
    -- the operations of the first `m` calls end with a `sync` …
    (runD g cap ⟨l, J, b, []⟩ (cs.take m)).ops.getLast? = some .sync ∧
    -- … and every image that includes it recovers a state at least as recent
    ∀ k cut policy' order', (runD g cap ⟨l, J, b, []⟩ (cs.take m)).ops.length ≤ k →
      ∃ rec i, m ≤ i ∧ i ≤ cs.length ∧
        recover g (crashImage img (runD g cap ⟨l, J, b, []⟩ cs).ops k cut) policy' order' none = .ok rec ∧
        AbsEq rec.log.queues (runD g cap ⟨l, J, b, []⟩ (cs.take i)).l.queues := by
  have hft := fsync_tail cap b pre f
  rw [← htail] at hft
  have hops : (runD g cap ⟨l, J, b, []⟩ (cs.take m)).ops = (toOsOps cap b (effsD g l (cs.take m))).2 := by
    rw [runD_eq]; simp
  have hbuf : (runD g cap ⟨l, J, b, []⟩ (cs.take m)).b = (toOsOps cap b (effsD g l (cs.take m))).1 := by
    rw [runD_eq]
  refine ⟨by rw [hops]; exact hft.2, ?_⟩
  intro k cut policy' order' hk
  exact C03_durable_after g hB cap l J img b h hb cs hfits htorn m hm (by rw [hbuf]; exact hft.1) k cut hk
    policy' order'

end MRL.C03D
