/-
C03 (model level) under POSIX-style power loss — what was promised to be on stable storage
survives a power loss, when a power loss keeps only what `fsync` made durable.

MODEL (`MRL/Model/PowerLoss.lean`, executable). `toOsOpsP` is the `BufWriter` model `toOsOps` with
the two kinds of `fsync` kept apart (`OsOpP.syncFile f`, `OsOpP.syncDir`; `opsP_erase`: it erases to
`toOsOps`). `powerImage img ops` is what a power loss leaves after the refined operations `ops`
issued on the (durable) image `img`: a file survives iff its name was in the directory at the last
`syncDir` and it was not unlinked since (removals are taken from the volatile state, as the harness
does); its content is what it was at its last `syncFile` (its initial content if never synced; zeros
if created since and never synced), its length is the volatile one. This is `power_loss_image` of
`harness/src/real.rs` (`synced_end`, `dir_synced`, recipe `drop`/`zero`), stated with content
snapshots instead of "zero from the synced end" — the same thing for the sequential writes into
pre-sized files that the log issues.

THEOREM `C03_posix`. Let `C01R.ReachD g cap l J img b` with `b.pend = []`, a run of calls `cs` under
any policies, `m ≤ cs.length` such that the effects of the first `m` calls end with
`flush, fsync(file), fsync(dir)` — a call that promises stable storage: `create`, `delete`
(`forced_tail`), `persist FlushAndFsync` (`persist_tail`), any mutating call under
`Always(FlushAndFsync)` (`always_tail`) or a due `OnDelay(FlushAndFsync)` (`onDelay_tail`); lifted to
the run by `effsD_take_tail`. Then for EVERY later instant `k` (number of refined OS operations done
when the power is lost, `k ≥` the number of operations of the first `m` calls), opening the
directory `powerImage img (opsP.take k)` succeeds and yields — up to the file handles, `AbsEq` — the
queues reached after `i` calls for some `m ≤ i ≤ cs.length`. Hypotheses as in `C03_durable`:
`g.B ≤ 65542`, `C07.WF`, `TornRun`.

HOW. `P.power_reduction`: the power-loss image at instant `k` IS the image obtained from the flushed
disk after the first `m` calls by applying directly a whole number `p` of the remaining EFFECTS —
i.e. an effect-boundary crash image of the ordered-persistence model at or after the promised sync
(`K.run_cut` then concludes as for `C03_durable_after`). Ingredients:
* `P.pd` (`PSem.lean`): a syntactic discipline — writes go to the current file only; `fsync(file)`
  on it only with an empty `BufWriter`; `fsync(dir)` only after it; a file is created only when
  everything is durable, with a larger number, sized, then written; a file other than the current
  one is unlinked only when everything is durable. `P.pd_effsD` (`PDisc.lean`): every run from a
  reachable log obeys it (roll-over = `flush, fsync(old), fsync(dir)` THEN `create, set_len, write`;
  GC = touches, `flush, fsync, fsync(dir)`, THEN the unlinks).
* `P.power_prefix`: for such effects, from a state where everything is durable, the power-loss
  image after `n` effects is the volatile image after some `p ≤ n` of them (`p = n` whenever
  everything is durable). Nothing durable is ever lost, nothing is reordered.
* `P.op_boundaryP` (`PBuf.lean`): the power-loss state after any number of refined OS operations is
  the state after a whole number of effects applied directly (every `fsync` is issued with an empty
  buffer).
* file sizes (`P.run_foe`): every prefix state of a run has full-size files, or a just-created empty
  one — from the crash analysis of C02 (`L.call_cutX`).

CHECK OF THE CODE AS WRITTEN (the coordinator's list; none fails, no finding):
(1) every roll-over syncs the old file and the directory before creating the next file: yes
    (`pd_writeBuf`); a file created after the last `fsync(dir)` never holds durable data that matters:
    it is dropped, and everything older is complete. The theorem takes the initial image `img` as
    durable (a `ReachD` boundary): for the very first `open` of an empty directory the name `wal-0`
    is not durable before the first call that fsyncs; a power loss before it leaves an EMPTY
    directory, which opens as the empty log — the state after 0 calls (nothing was promised yet).
(2) after a promising call the current file was synced after its last write and the directory after
    the last create: `pd_triple_end`.
(3) between promise points what is lost is a suffix of the effects (modulo `fsync`s and flushes):
    `power_prefix`. A `syncFile` on a file whose name is not durable does happen (roll-over, then a
    `flush, fsync(file)` with the power lost before `fsync(dir)`): the file is dropped, harmless.
    Unlinks are taken from the volatile state; by `unlink_after_sync` (here: the discipline)
    everything was durable when they were issued.
-/
import MRL.Proofs.PRun

namespace MRL.C03P
open MRL Log C05 C01J G H K Buf Codec P

abbrev AbsEq := H.AbsEq

/-- the refined operations erase to the operations of the coarse model -/
theorem opsP_erase (g : Geom) (cap : Nat) (l : Log) (J : List JE) (b : BufSt)
    (cs : List (Call × Bool × List Bytes)) :
    (toOsOpsP cap b (effsD g l cs)).2.map OsOpP.erase = (runD g cap ⟨l, J, b, []⟩ cs).ops := by
  rw [runD_eq, (toOsOpsP_erase cap _ b).2]; simp

/-- before the first `fsync` of the directory nothing created is durable: from an empty directory
    a power loss leaves an empty directory (which opens as the empty log) -/
theorem powerImage_empty_no_syncDir (ops : List OsOpP) (h : OsOpP.syncDir ∉ ops) : powerImage [] ops = [] := by
  have key : ∀ (ops : List OsOpP) (S : PState), OsOpP.syncDir ∉ ops → S.dirs = [] → (prun S ops).dirs = [] := by
    intro ops
    induction ops with
    | nil => intro S _ hS; exact hS
    | cons o ops ih =>
      intro S ho hS
      simp only [List.mem_cons, not_or] at ho
      apply ih _ ho.2
      cases o with
      | syncDir => exact absurd rfl ho.1
      | syncFile f => simp only [pstep]; split <;> exact hS
      | write f off d => exact hS
      | create f => exact hS
      | setLen f n => exact hS
      | ensureLen f n => exact hS
      | unlink f => exact hS
  unfold powerImage PState.image
  rw [key ops (PState.init []) h rfl]
  simp

/-! ### which calls promise stable storage -/

/-- a `create`/`delete` that is not rejected -/
theorem forced_tail (g : Geom) (l : Log) (c : Call) (tick : Bool) (order : List Bytes)
    (hc : Step.isForced c = true) (hne : (l.step g c tick order).2.2 ≠ []) :
    ∃ pre f, (l.step g c tick order).2.2 = pre ++ [.flush, .fsyncFile f, .fsyncDir] :=
  C03D.forced_tail g l c tick order hc hne

/-- an explicit `persist FlushAndFsync` -/
theorem persist_tail (g : Geom) (l : Log) (tick : Bool) (order : List Bytes) :
    (l.step g (.persist .flushAndFsync) tick order).2.2 = [] ++ [.flush, .fsyncFile l.cur, .fsyncDir] := rfl

/-- a mutating call (it wrote something, it is no `persist`) under `Always(FlushAndFsync)` -/
theorem always_tail (g : Geom) (l : Log) (c : Call) (tick : Bool) (order : List Bytes)
    (hp : (l.step g c tick order).1.policy = .always .flushAndFsync)
    (hne : (l.step g c tick order).2.2 ≠ []) (hnp : ∀ a, c ≠ .persist a) :
    ∃ pre f, (l.step g c tick order).2.2 = pre ++ [.flush, .fsyncFile f, .fsyncDir] := by
  rcases C03.step_tail (g := g) (l := l) (tick := tick) (order := order) c with h | ⟨a, h⟩ | ⟨pre, h⟩
  · exact absurd h hne
  · exact absurd h (hnp a)
  · refine ⟨pre, (l.step g c tick order).1.cur, ?_⟩
    rw [h]
    rcases C03.tailSync_always (tick := tick) (l.step g c tick order).1 c .flushAndFsync hp with h1 | h1 <;>
      rw [h1] <;> rfl

/-- a mutating call under `OnDelay(FlushAndFsync)` when the delay has elapsed -/
theorem onDelay_tail (g : Geom) (l : Log) (c : Call) (order : List Bytes)
    (hp : (l.step g c true order).1.policy = .onDelay .flushAndFsync)
    (hne : (l.step g c true order).2.2 ≠ []) (hnp : ∀ a, c ≠ .persist a) :
    ∃ pre f, (l.step g c true order).2.2 = pre ++ [.flush, .fsyncFile f, .fsyncDir] := by
  rcases C03.step_tail (g := g) (l := l) (tick := true) (order := order) c with h | ⟨a, h⟩ | ⟨pre, h⟩
  · exact absurd h hne
  · exact absurd h (hnp a)
  · refine ⟨pre, (l.step g c true order).1.cur, ?_⟩
    rw [h]
    rcases C03.tailSync_onDelay (l.step g c true order).1 c .flushAndFsync hp with h1 | h1 <;>
      rw [h1] <;> rfl

/-- the tail of the last call of a prefix of the run is the tail of the prefix -/
theorem effsD_take_tail (g : Geom) (l : Log) (cs : List (Call × Bool × List Bytes)) (j : Nat)
    (c : Call) (tick : Bool) (order : List Bytes) (hj : cs[j]? = some (c, tick, order))
    (pre : List Effect) (f : Nat)
    (h : ((logD g l (cs.take j)).step g c tick order).2.2 = pre ++ [.flush, .fsyncFile f, .fsyncDir]) :
    effsD g l (cs.take (j + 1)) = (effsD g l (cs.take j) ++ pre) ++ [.flush, .fsyncFile f, .fsyncDir] := by
  have : cs.take (j + 1) = cs.take j ++ [(c, tick, order)] := by rw [List.take_succ, hj]; rfl
  rw [this, C03D.effsD_append]
  simp only [effsD, List.append_nil]
  rw [h, List.append_assoc]

/-! ### the theorem -/

/-- from the reduction to the statement (kept separate: `hred` is what `P.power_reduction` proves) -/
theorem C03_posix_of_reduction (g : Geom) (hB : g.B ≤ 65542) (l : Log) (J : List JE) (img : Image)
    (hc : CInv g l J img) (cs : List (Call × Bool × List Bytes))
    (hwf : ∀ j ∈ J ++ jourD g l cs, C07.WF j.e) (htorn : TornEffs (effsD g l cs))
    (m : Nat) (hm : m ≤ cs.length) (X : Image) (p : Nat)
    (hred : X = applyOsOps (applyOsOps img (directOps (effsD g l (cs.take m))))
      (directOps ((effsD g (logD g l (cs.take m)) (cs.drop m)).take p)))
    (policy' : Policy) (order' : List Bytes) :
    ∃ rec i, m ≤ i ∧ i ≤ cs.length ∧ recover g X policy' order' none = .ok rec ∧
      AbsEq rec.log.queues (logD g l (cs.take i)).queues := by
  have hsplit : cs = cs.take m ++ cs.drop m := (List.take_append_drop m cs).symm
  have heffs : effsD g l cs = effsD g l (cs.take m) ++ effsD g (logD g l (cs.take m)) (cs.drop m) := by
    conv => lhs; rw [hsplit]
    exact C03D.effsD_append g _ _ l
  have hjour : jourD g l cs = jourD g l (cs.take m) ++ jourD g (logD g l (cs.take m)) (cs.drop m) := by
    conv => lhs; rw [hsplit]
    exact C03D.jourD_append g _ _ l
  have hcm := cinv_run g (cs.take m) hc
  have hX : CutState (applyOsOps img (directOps (effsD g l (cs.take m))))
      (effsD g (logD g l (cs.take m)) (cs.drop m)) X := by
    rw [hred]; exact (L.CutW.of_take false _ p _).to_cutState
  obtain ⟨i, lp, e0, io, hi, hrec, hq⟩ := run_cut g hB (cs.drop m) hcm
    (by rw [List.append_assoc, ← hjour]; exact hwf)
    (fun t pp f off hmem => htorn t pp f off (by rw [heffs]; exact List.mem_append_right _ hmem)) X hX policy'
  obtain ⟨r, hr, hrq⟩ := recover_of_pre g X policy' order' lp e0 io hrec
  refine ⟨r, m + i, Nat.le_add_right _ _, ?_, hr, ?_⟩
  · simp at hi; omega
  · rw [hrq]
    have : cs.take (m + i) = cs.take m ++ (cs.drop m).take i := List.take_add
    rw [this, C03D.logD_append]
    exact hq

/-- **C03 under POSIX-style power loss.** -/
theorem C03_posix (g : Geom) (hB : g.B ≤ 65542) (cap : Nat) (l : Log) (J : List JE) (img : Image)
    (b : BufSt) (h : C01R.ReachD g cap l J img b) (hb : b.pend = [])
    (cs : List (Call × Bool × List Bytes))
    (hfits : ∀ j ∈ (runD g cap ⟨l, J, b, []⟩ cs).J, C07.WF j.e) (htorn : C03D.TornRun g l cs)
    (m : Nat) (hm : m ≤ cs.length) (pre : List Effect) (f : Nat)
    (htail : effsD g l (cs.take m) = pre ++ [.flush, .fsyncFile f, .fsyncDir])
    (k : Nat) (hk : (toOsOpsP cap b (effsD g l (cs.take m))).2.length ≤ k)
    (policy' : Policy) (order' : List Bytes) :
    ∃ rec i, m ≤ i ∧ i ≤ cs.length ∧
      recover g (powerImage img ((toOsOpsP cap b (effsD g l cs)).2.take k)) policy' order' none = .ok rec ∧
      AbsEq rec.log.queues (runD g cap ⟨l, J, b, []⟩ (cs.take i)).l.queues := by
  rw [runD_eq] at hfits
  simp only at hfits
  have hwfJ : ∀ j ∈ J, C07.WF j.e := fun j hj => hfits j (List.mem_append_left _ hj)
  have hr := C01R.reach_rinv g hB cap h hwfJ
  have hc := hr.c
  have hfd : C01R.flushDisk img b = img := by
    simp [C01R.flushDisk, G.flushDisk, flushOps_nil b hb, applyOsOps]
  rw [hfd] at hc
  obtain ⟨p, hred⟩ := power_reduction g hB cap l J img b hc hb cs hfits htorn m pre f htail k hk
  obtain ⟨rec, i, h1, h2, h3, h4⟩ := C03_posix_of_reduction g hB l J img hc cs hfits htorn m hm _ p hred policy' order'
  refine ⟨rec, i, h1, h2, h3, ?_⟩
  rw [runD_eq]
  exact h4

end MRL.C03P
