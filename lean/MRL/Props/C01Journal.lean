/-
C01 (journal layer) — at every reachable state, replaying only the journal entries located in
the WAL files still tracked reproduces the in-memory queues: no retained record or queue position
is lost to file deletion and no deleted queue reappears, after any number of roll-overs,
truncations, deletions, re-creations and GC passes.
-/
import MRL.Proofs.JSuffix
import MRL.Proofs.JInv

namespace MRL.C01J
open MRL Log C05

/-- reachable (log, journal) pairs -/
inductive Reach (g : Geom) : Log → List JE → Prop
  | init (policy : Policy) :
      Reach g { files := [0], cur := 0, off := 0, queues := [], policy := policy } []
  | step {l : Log} {J : List JE} (c : Call) (tick : Bool) (order : List Bytes) :
      Reach g l J → Reach g (l.step g c tick order).1 (J ++ l.stepJ g c order)

/-- the invariant carried along a history -/
structure JInv (l : Log) (J : List JE) : Prop where
  /-- files ascending, current file tracked, handles on tracked files, queue invariant -/
  h : HInv l
  /-- journal ordered by location, `attr ≤ loc ≤ cur`, appends well formed -/
  chunk : Chunk 0 J l.cur
  /-- replay from the first tracked file gives the in-memory queues -/
  rep : ∃ qs, replayJ (l.files.headD 0) [] J = some qs ∧ QsEquiv qs l.queues ∧ QsWF qs

theorem jinv_init (policy : Policy) :
    JInv { files := [0], cur := 0, off := 0, queues := [], policy := policy } [] := by
  refine ⟨⟨⟨by simp, by simp⟩, Inv_empty _ _ _ _, ?_⟩, Chunk.nil (Nat.le_refl _),
    [], rfl, QsEquiv.refl _, QsWF.nil⟩
  intro kv hkv; cases hkv

/-- replay of the single entry a call writes, from the queues of the log -/
theorem replay_je (g : Geom) (l : Log) (e : Entry) (qs' : MemQueues) (F : Nat) (hF : F ≤ l.cur)
    (hre : replayEntry l.queues l.cur e = some qs') :
    replayJ F l.queues [l.je g e] = some qs' := by
  have h1 := nextLoc_ge g l
  have hloc : ¬ (l.je g e).loc < F := by simp only [je]; omega
  have hmax : max (l.je g e).attr F = l.cur := by simp only [je]; omega
  simp only [replayJ, hloc, if_false, hmax]
  show (replayEntry l.queues l.cur e).bind _ = _
  rw [hre]; rfl

/-- transfer of an exact replay on the log's queues to the replayed queues, and extension of
    the journal -/
theorem extend_rep {l : Log} {J js : List JE} {qs qs' : MemQueues} {F : Nat}
    (hinv : Inv l) (hrep : replayJ F [] J = some qs) (heq : QsEquiv qs l.queues) (hwf : QsWF qs)
    (hjs : replayJ F l.queues js = some qs') :
    ∃ qs1, replayJ F [] (J ++ js) = some qs1 ∧ QsEquiv qs1 qs' ∧ QsWF qs1 := by
  obtain ⟨qs1, h1, he⟩ := replayJ_congr F js heq.symm (QsWF.of_inv hinv) hwf hjs
  refine ⟨qs1, ?_, he.symm, replayJ_wf F js hwf h1⟩
  rw [replayJ_append, hrep]
  exact h1

theorem jinv_step (g : Geom) {l : Log} {J : List JE} (c : Call) (tick : Bool) (order : List Bytes)
    (hJ : JInv l J) : JInv (l.step g c tick order).1 (J ++ l.stepJ g c order) := by
  obtain ⟨h, chunk, qs, hrep, heq, hwf⟩ := hJ
  have hF : l.files.headD 0 ≤ l.cur := head_le_of_mem h.files.sorted h.files.cur_mem
  have hInv' : Inv (l.step g c tick order).1 := (C05_refines g l h.inv c tick order).2.2
  rcases step_shape g l h.inv c tick order with
    ⟨hj, hl⟩ | ⟨e, qs', hewf, hre, (⟨hj, hl⟩ | ⟨hj, hl⟩)⟩
  · -- nothing written
    rw [hj, hl, List.append_nil]
    exact ⟨h, chunk, qs, hrep, heq, hwf⟩
  · -- one entry, no GC
    have hgrow := writeEntry_grow g l e h.files
    rw [hl] at hInv'
    have h2 := write_hinv g l e qs' h hre hInv'
    rw [hj, hl]
    refine ⟨h2, chunk.append (je_chunk g l e h.files hewf), ?_⟩
    obtain ⟨qs1, r1, r2, r3⟩ := extend_rep h.inv hrep heq hwf (replay_je g l e qs' _ hF hre)
    have hhead : ({ (Log.writeEntry g l e).1 with queues := qs' } : Log).files.headD 0 = l.files.headD 0 := by
      have := hgrow.head h.files; exact this
    rw [hhead]
    exact ⟨qs1, r1, r2, r3⟩
  · -- one entry, then a GC pass
    have hgrow := writeEntry_grow g l e h.files
    have hq' : (runGc g { (Log.writeEntry g l e).1 with queues := qs' } order).1.queues = qs' :=
      runGc_queues g _ order
    rw [hl] at hInv'
    have hInv2 : Inv ({ (Log.writeEntry g l e).1 with queues := qs' } : Log) :=
      Inv.of_queues (l := (runGc g { (Log.writeEntry g l e).1 with queues := qs' } order).1) hq'.symm hInv'
    have h2 := write_hinv g l e qs' h hre hInv2
    have hF2 : l.files.headD 0 ≤ ({ (Log.writeEntry g l e).1 with queues := qs' } : Log).cur :=
      Nat.le_trans hF hgrow.cur_le
    obtain ⟨hH', _, hchunk, hreplay, hhead⟩ := gc_facts g _ order h2 (l.files.headD 0) hF2
    have hhead2 : ({ (Log.writeEntry g l e).1 with queues := qs' } : Log).files.headD 0 = l.files.headD 0 := by
      have := hgrow.head h.files; exact this
    rw [hhead2] at hhead
    rw [hj, hl]
    have hjs : l.je g e :: gcJ g { (Log.writeEntry g l e).1 with queues := qs' } order =
        [l.je g e] ++ gcJ g { (Log.writeEntry g l e).1 with queues := qs' } order := rfl
    have hchunk' : Chunk 0 (J ++ l.je g e :: gcJ g { (Log.writeEntry g l e).1 with queues := qs' } order)
        (runGc g { (Log.writeEntry g l e).1 with queues := qs' } order).1.cur := by
      rw [hjs]
      exact chunk.append ((je_chunk g l e h.files hewf).append hchunk)
    have hexact : replayJ (l.files.headD 0) l.queues
        (l.je g e :: gcJ g { (Log.writeEntry g l e).1 with queues := qs' } order) = some qs' := by
      rw [hjs, replayJ_append, replay_je g l e qs' _ hF hre]
      exact hreplay
    obtain ⟨qs1, r1, r2, r3⟩ := extend_rep h.inv hrep heq hwf hexact
    refine ⟨hH', hchunk', ?_⟩
    rw [← hq'] at r2
    rcases hhead with hsame | ⟨hle, hT, hempty⟩
    · rw [hsame]; exact ⟨qs1, r1, r2, r3⟩
    · by_cases hFF : (runGc g { (Log.writeEntry g l e).1 with queues := qs' } order).1.files.headD 0 =
          l.files.headD 0
      · rw [hFF]; exact ⟨qs1, r1, r2, r3⟩
      · -- files were deleted: the suffix lemma
        have hlt : l.files.headD 0 <
            (runGc g { (Log.writeEntry g l e).1 with queues := qs' } order).1.files.headD 0 := by omega
        have hassoc : J ++ l.je g e :: gcJ g { (Log.writeEntry g l e).1 with queues := qs' } order =
            (J ++ [l.je g e]) ++ gcJ g { (Log.writeEntry g l e).1 with queues := qs' } order := by
          simp
        rw [hassoc] at r1 hchunk' ⊢
        obtain ⟨qb, b1, b2⟩ := suffix_lemma _ _ hlt (J ++ [l.je g e]) _ hchunk'.mono
          (fun j hj => ⟨(hchunk'.bounds j hj).2.1, hchunk'.wf j hj⟩) hT qs1 r1
          (by
            intro n x hx r hr f hf
            obtain ⟨y, hy, hxy⟩ := r2.get_some hx
            rw [hxy.1] at hr
            exact head_le_of_mem hH'.files.sorted (hH'.handles (n, y) (get_mem hy) r hr f hf))
          (by
            intro n x hx hxe
            obtain ⟨y, hy, hxy⟩ := r2.get_some hx
            have hye : y.recs = [] := by rw [← hxy.1]; exact hxe
            have hmem : n ∈ (runGc g { (Log.writeEntry g l e).1 with queues := qs' } order).1.queues.emptyNames :=
              (mem_emptyNames hH'.inv.1 n).mpr ⟨y, hy, hye⟩
            rw [hq'] at hmem
            exact hempty n hmem)
        exact ⟨qb, b1, b2.trans r2, replayJ_wf _ _ QsWF.nil b1⟩

theorem reach_jinv (g : Geom) {l : Log} {J : List JE} (h : Reach g l J) : JInv l J := by
  induction h with
  | init policy => exact jinv_init policy
  | step c tick order _ ih => exact jinv_step g c tick order ih

/-- **C01 (journal).** At every reachable state, replaying the journal entries located in the
    files still tracked (first tracked file `l.files.headD 0`) rebuilds queues observationally
    equal to the in-memory queues. -/
theorem C01_journal (g : Geom) (l : Log) (J : List JE) (h : Reach g l J) :
    ∃ qs, replayJ (l.files.headD 0) [] J = some qs ∧ QsEquiv qs l.queues := by
  obtain ⟨qs, h1, h2, _⟩ := (reach_jinv g h).rep
  exact ⟨qs, h1, h2⟩

/-- structural facts about reachable states, by-products of the proof -/
theorem reach_structure (g : Geom) (l : Log) (J : List JE) (h : Reach g l J) :
    l.files.Pairwise (· < ·) ∧ l.cur ∈ l.files ∧
    (∀ kv ∈ l.queues, ∀ r ∈ kv.2.recs, ∀ f, r.file = some f → f ∈ l.files) ∧
    J.Pairwise (fun a b => a.loc ≤ b.loc) ∧ (∀ j ∈ J, j.attr ≤ j.loc ∧ j.loc ≤ l.cur) := by
  have hj := reach_jinv g h
  exact ⟨hj.h.files.sorted, hj.h.files.cur_mem, hj.h.handles, hj.chunk.mono,
    fun j hm => ⟨(hj.chunk.bounds j hm).2.1, (hj.chunk.bounds j hm).2.2⟩⟩

/-! ### non-vacuity -/

/-- log and journal after a history -/
def run (g : Geom) : Log → List JE → List (Call × Bool × List Bytes) → Log × List JE
  | l, J, [] => (l, J)
  | l, J, (c, t, o) :: cs => run g (l.step g c t o).1 (J ++ l.stepJ g c o) cs

/-- `Reach` is inhabited by every history: the theorem applies to all of them -/
theorem reach_run (g : Geom) (cs : List (Call × Bool × List Bytes)) : ∀ (l : Log) (J : List JE),
    Reach g l J → Reach g (run g l J cs).1 (run g l J cs).2 := by
  induction cs with
  | nil => intro l J h; exact h
  | cons x cs ih =>
    intro l J h
    obtain ⟨c, t, o⟩ := x
    exact ih _ _ (Reach.step c t o h)

theorem C01_journal_run (g : Geom) (policy : Policy) (cs : List (Call × Bool × List Bytes)) :
    let r := run g { files := [0], cur := 0, off := 0, queues := [], policy := policy } [] cs
    ∃ qs, replayJ (r.1.files.headD 0) [] r.2 = some qs ∧ QsEquiv qs r.1.queues :=
  C01_journal g _ _ (reach_run g cs _ _ (Reach.init policy))

/-- The journal of the history `create [1]; create [2]; append [1] [9]; append [1] [8];
    truncate [1] ..=0` in geometry `B = 16, K = 2` (obtained by `#eval`; the kernel cannot
    evaluate the writer, which is defined by well-founded recursion): the GC of the last call
    deletes files 0, 1, 2. Replaying from file 3 gives the same queues as replaying everything;
    queue `[2]` survives only thanks to the GC touch located in file 6: without it it is lost. -/
def exJ : List JE :=
  [⟨0, 0, .touch [1] 0⟩, ⟨1, 0, .touch [2] 0⟩, ⟨2, 1, .append [1] 0 [(0, [9])]⟩,
   ⟨3, 3, .append [1] 1 [(1, [8])]⟩, ⟨5, 4, .truncate [1] 0⟩, ⟨6, 5, .touch [2] 0⟩]

example :
    replayJ 0 [] exJ = some [([1], { start := 1, recs := [⟨1, [8], some 3⟩] }), ([2], {})] ∧
    replayJ 3 [] exJ = some [([1], { start := 1, recs := [⟨1, [8], some 3⟩] }), ([2], {})] ∧
    replayJ 3 [] exJ.dropLast = some [([1], { start := 1, recs := [⟨1, [8], some 3⟩] })] := by
  decide

end MRL.C01J
