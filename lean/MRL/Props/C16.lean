/-
C16: memory accounting. `usedBytes` is exactly names + payloads + one `RecordMeta` per record;
truncation gives back exactly the evicted payloads and metadata; empty queues cost their names.
-/
import MRL.Model.MemQueue

namespace MRL.C16
open MRL

/-! ### Definitions -/

/-- payload bytes held by a queue -/
def payloadBytes (q : MemQueue) : Nat := (q.recs.map (·.payload.length)).sum

def nameBytes (qs : MemQueues) : Nat := (qs.map (·.1.length)).sum
def totalPayload (qs : MemQueues) : Nat := (qs.map fun kv => payloadBytes kv.2).sum
def totalRecords (qs : MemQueues) : Nat := (qs.map (·.2.recs.length)).sum

/-- payload bytes of the records at positions `≤ p` -/
def evictedBytes (q : MemQueue) (p : Nat) : Nat :=
  ((q.recs.filter (·.pos ≤ p)).map (·.payload.length)).sum

/-! ### `usedBytes` -/

theorem size_eq (msz : Nat) (q : MemQueue) : q.size msz = payloadBytes q + msz * q.recs.length := by
  simp [MemQueue.size, payloadBytes, Nat.mul_comm]

/-- **C16.** per-queue form: name + payloads + `msz` per record -/
theorem C16_used_exact (msz : Nat) (qs : MemQueues) :
    MemQueues.usedBytes msz qs =
      (qs.map fun kv => kv.1.length + (kv.2.recs.map (·.payload.length)).sum + msz * kv.2.recs.length).sum := by
  unfold MemQueues.usedBytes
  congr 1
  apply List.map_congr_left
  intro kv _
  rw [size_eq, payloadBytes, Nat.add_assoc]

/-- **C16.** global form -/
theorem C16_used_split (msz : Nat) (qs : MemQueues) :
    MemQueues.usedBytes msz qs = nameBytes qs + totalPayload qs + msz * totalRecords qs := by
  induction qs with
  | nil => rfl
  | cons kv qs ih =>
    have h : MemQueues.usedBytes msz (kv :: qs) = kv.1.length + kv.2.size msz + MemQueues.usedBytes msz qs := by
      simp [MemQueues.usedBytes]
    rw [h, ih, size_eq]
    simp only [nameBytes, totalPayload, totalRecords, List.map_cons, List.sum_cons, Nat.mul_add]
    omega

theorem C16_used_ge (msz : Nat) (qs : MemQueues) :
    nameBytes qs + totalPayload qs ≤ MemQueues.usedBytes msz qs := by
  rw [C16_used_split]; omega

theorem C16_used_le (msz : Nat) (qs : MemQueues) :
    MemQueues.usedBytes msz qs ≤ nameBytes qs + totalPayload qs + msz * totalRecords qs := by
  rw [C16_used_split]; omega

/-- **C16.** empty queues cost exactly their names -/
theorem C16_baseline (msz : Nat) (qs : MemQueues) (h : ∀ kv ∈ qs, kv.2.isEmpty = true) :
    MemQueues.usedBytes msz qs = nameBytes qs := by
  induction qs with
  | nil => rfl
  | cons kv qs ih =>
    have h1 : kv.2.recs = [] := by
      have := h kv List.mem_cons_self
      simpa [MemQueue.isEmpty] using this
    have ih' := ih (fun kv' hm => h kv' (List.mem_cons_of_mem _ hm))
    simp only [MemQueues.usedBytes, nameBytes, List.map_cons, List.sum_cons] at ih' ⊢
    rw [ih']
    simp [MemQueue.size, h1]

/-! ### Truncation -/

theorem filter_eq_takeWhile_of_sorted (rs : List Rec) (p : Nat) (h : rs.Pairwise (·.pos < ·.pos)) :
    rs.filter (·.pos ≤ p) = rs.takeWhile (·.pos ≤ p) := by
  induction rs with
  | nil => rfl
  | cons r rs ih =>
    rw [List.pairwise_cons] at h
    by_cases hr : r.pos ≤ p
    · simp [hr, ih h.2]
    · simp only [List.filter_cons, List.takeWhile_cons, hr, decide_false, Bool.false_eq_true, if_false]
      rw [List.filter_eq_nil_iff]
      intro r' hr'
      have := h.1 r' hr'
      simp only [decide_eq_true_eq]
      omega

theorem all_le_of_sorted_last (rs : List Rec) (p : Nat) (h : rs.Pairwise (·.pos < ·.pos))
    (hl : ∀ r, rs.getLast? = some r → r.pos ≤ p) : ∀ r ∈ rs, r.pos ≤ p := by
  induction rs with
  | nil => intro r hr; cases hr
  | cons r rs ih =>
    rw [List.pairwise_cons] at h
    intro r' hr'
    cases rs with
    | nil =>
      simp only [List.mem_singleton] at hr'
      subst hr'
      exact hl _ rfl
    | cons r2 rs2 =>
      have hl' : ∀ x, (r2 :: rs2).getLast? = some x → x.pos ≤ p := by
        intro x hx
        apply hl
        rw [List.getLast?_cons_cons]
        exact hx
      have ih' := ih h.2 hl'
      rcases List.mem_cons.mp hr' with rfl | hm
      · have := h.1 r2 List.mem_cons_self
        have := ih' r2 List.mem_cons_self
        omega
      · exact ih' r' hm

theorem drop_takeWhile_length (rs : List Rec) (P : Rec → Bool) :
    rs.drop (rs.takeWhile P).length = rs.dropWhile P := by
  induction rs with
  | nil => rfl
  | cons r rs ih =>
    by_cases h : P r = true
    · simp [h, ih]
    · simp [h]

theorem sum_takeWhile_drop (rs : List Rec) (P : Rec → Bool) :
    ((rs.takeWhile P).map (·.payload.length)).sum +
      ((rs.drop (rs.takeWhile P).length).map (·.payload.length)).sum = (rs.map (·.payload.length)).sum := by
  rw [drop_takeWhile_length, ← List.sum_append, ← List.map_append, List.takeWhile_append_dropWhile]

theorem length_takeWhile_drop (rs : List Rec) (P : Rec → Bool) :
    (rs.drop (rs.takeWhile P).length).length + (rs.takeWhile P).length = rs.length := by
  rw [drop_takeWhile_length]
  have := congrArg List.length (List.takeWhile_append_dropWhile (p := P) (l := rs))
  rw [List.length_append] at this
  omega

/-- a truncation below the queue's start changes nothing -/
theorem C16_truncate_noop (q : MemQueue) (p : Nat) (h : q.start > p) : q.truncateHead p = (q, 0) := by
  simp [MemQueue.truncateHead, h]

/-- **C16.** A truncation gives back exactly the payload bytes of the evicted records (those at
    positions `≤ p`) plus one `RecordMeta` per evicted record. -/
theorem C16_truncate_drop (msz : Nat) (q : MemQueue) (p : Nat) (hs : q.recs.Pairwise (·.pos < ·.pos))
    (hp : q.start ≤ p) :
    (q.truncateHead p).1.size msz + evictedBytes q p + msz * (q.truncateHead p).2 = q.size msz := by
  have hnot : ¬ q.start > p := by omega
  unfold MemQueue.truncateHead
  rw [if_neg hnot]
  by_cases h2 : p + 1 ≥ q.nextPosition
  · rw [if_pos h2]
    have hall : ∀ r ∈ q.recs, r.pos ≤ p := by
      apply all_le_of_sorted_last _ _ hs
      intro r hr
      simp only [MemQueue.nextPosition, hr] at h2
      omega
    have hf : q.recs.filter (·.pos ≤ p) = q.recs := by
      rw [List.filter_eq_self]
      intro r hr
      simpa using hall r hr
    simp only [evictedBytes, hf, MemQueue.size, List.map_nil, List.sum_nil, List.length_nil]
    rw [Nat.mul_comm msz]
    omega
  · rw [if_neg h2]
    simp only [evictedBytes, filter_eq_takeWhile_of_sorted _ _ hs, MemQueue.size]
    have := sum_takeWhile_drop q.recs (·.pos ≤ p)
    have hl := length_takeWhile_drop q.recs (·.pos ≤ p)
    rw [← hl, Nat.add_mul, Nat.mul_comm msz]
    omega

/-- the number of evicted records is the number of records at positions `≤ p` -/
theorem C16_truncate_count (q : MemQueue) (p : Nat) (hs : q.recs.Pairwise (·.pos < ·.pos)) (hp : q.start ≤ p) :
    (q.truncateHead p).2 = (q.recs.filter (·.pos ≤ p)).length := by
  have hnot : ¬ q.start > p := by omega
  unfold MemQueue.truncateHead
  rw [if_neg hnot]
  by_cases h2 : p + 1 ≥ q.nextPosition
  · rw [if_pos h2]
    have hall : ∀ r ∈ q.recs, r.pos ≤ p := by
      apply all_le_of_sorted_last _ _ hs
      intro r hr
      simp only [MemQueue.nextPosition, hr] at h2
      omega
    have hf : q.recs.filter (·.pos ≤ p) = q.recs := by
      rw [List.filter_eq_self]
      intro r hr
      simpa using hall r hr
    rw [hf]
  · rw [if_neg h2, filter_eq_takeWhile_of_sorted _ _ hs]

/-! ### Appending -/

theorem dropLastHandle_payloads (rs : List Rec) (file : Nat) :
    (MemQueue.dropLastHandle rs file).map (·.payload.length) = rs.map (·.payload.length) := by
  unfold MemQueue.dropLastHandle
  split
  · rename_i r hr
    split
    · have hne : rs ≠ [] := by intro h; simp [h] at hr
      have hlast : rs.getLast hne = r := by
        rw [List.getLast?_eq_some_getLast hne] at hr
        exact Option.some.inj hr
      conv => rhs; rw [← List.dropLast_concat_getLast hne]
      simp [hlast]
    · rfl
  · rfl

/-- appending one record costs its payload plus one `RecordMeta` -/
theorem C16_append_grows (msz : Nat) (q q' : MemQueue) (file pos : Nat) (pl : Bytes)
    (h : q.appendRecord file pos pl = some q') : q'.size msz = q.size msz + pl.length + msz := by
  unfold MemQueue.appendRecord at h
  split at h
  · cases h
  · injection h with h
    subst h
    have hp := dropLastHandle_payloads q.recs file
    have hl := congrArg List.length hp
    simp only [List.length_map] at hl
    simp only [MemQueue.size, List.map_append, List.sum_append, hp, List.length_append, hl,
      List.map_cons, List.map_nil, List.sum_cons, List.sum_nil, List.length_cons, List.length_nil, Nat.add_mul]
    omega

/-! ### Non-vacuity -/

def qA : MemQueue :=
  { start := 3, recs := [⟨3, [1, 2, 3], none⟩, ⟨4, [4, 5], some 0⟩, ⟨7, [6, 7, 8, 9], some 1⟩] }

def qsEx : MemQueues := [([97, 98], qA), ([99], {})]

/-- names 3 + payloads 9 + 3 records of 24 bytes = 84 -/
example : MemQueues.usedBytes 24 qsEx = 84 ∧ nameBytes qsEx = 3 ∧ totalPayload qsEx = 9 ∧ totalRecords qsEx = 3 := by
  decide

/-- truncating `..=5` evicts positions 3 and 4: 5 payload bytes and two metas -/
example : qA.recs.Pairwise (·.pos < ·.pos) ∧ qA.start ≤ 5 ∧ (qA.truncateHead 5).2 = 2 ∧ evictedBytes qA 5 = 5 ∧
    (qA.truncateHead 5).1.size 24 = 28 ∧ qA.size 24 = 81 := by
  decide

example : (qA.truncateHead 2) = (qA, 0) ∧ (qA.truncateHead 100).1.size 24 = 0 := by decide

end MRL.C16
