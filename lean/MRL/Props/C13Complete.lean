/-
C13, completeness of `C13.Rejected`: the seven shapes are ALL the rejected / no-op calls. Whenever
`Log.step` returns `alreadyExists`, `missingQueue`, `past` or `appended none _`, the call is one of
the shapes of `Rejected`, hence (`C13_no_trace`) it left the log unchanged, reported 0 bytes and
emitted no effect. In particular the branch of `step` that returns `past` *after* having written
(`appendAll` failing on a batch at or above the next position) is never taken.
-/
import MRL.Props.C13
import MRL.Props.C05Bounds

namespace MRL.C13C
open MRL Log C13

/-- the outcome says "rejected" or "nothing to do" -/
def IsRejection : Outcome → Prop
  | .alreadyExists | .missingQueue | .past => True
  | .appended none _ => True
  | _ => False

/-- **completeness**: a rejecting / no-op outcome only comes from a `Rejected` shape -/
theorem rejected_of_outcome (g : Geom) (l : Log) (c : Call) (tick : Bool) (order : List Bytes)
    (h : IsRejection (step g l c tick order).2.1) : Rejected l c (step g l c tick order).2.1 := by
  cases c with
  | persist a => exact absurd h (by simp [step, IsRejection])
  | create q =>
    cases hg : l.queues.get? q with
    | some mq =>
      have hc : l.queues.contains q = true := by rw [contains_eq_isSome, hg]; rfl
      rw [step_create_some g l tick order q mq hg]
      exact Rejected.createExisting q hc
    | none =>
      obtain ⟨_, n, hn⟩ := step_create_none g l tick order q hg
      rw [hn] at h
      exact absurd h (by simp [IsRejection])
  | delete q =>
    cases hg : l.queues.get? q with
    | none => rw [step_delete_none g l tick order q hg]; exact Rejected.deleteMissing q hg
    | some mq =>
      obtain ⟨_, n, hn⟩ := step_delete_some g l tick order q mq hg
      rw [hn] at h
      exact absurd h (by simp [IsRejection])
  | truncate q p =>
    cases hg : l.queues.get? q with
    | none => rw [step_truncate_none g l tick order q p hg]; exact Rejected.truncateMissing q p hg
    | some mq =>
      obtain ⟨_, n, hn⟩ := step_truncate_some g l tick order q p mq hg
      rw [hn] at h
      exact absurd h (by simp [IsRejection])
  | append q pos? pls =>
    cases hg : l.queues.get? q with
    | none => rw [step_append_none g l tick order q pos? pls hg]; exact Rejected.appendMissing q pos? pls hg
    | some mq =>
      -- a batch that reaches the writer is acknowledged with `appended (some _)`
      have written : ∀ pos, appendStart mq pos? = some pos → pls.isEmpty = false → False := by
        intro pos hs hne
        obtain ⟨mq', _, heq⟩ := C05B.step_append_eq g l q mq pos? pls pos tick order hg hs hne
        rw [heq] at h
        exact h
      cases pos? with
      | none =>
        cases hne : pls.isEmpty with
        | false => exact absurd (written mq.nextPosition rfl hne) id
        | true =>
          have hnil : pls = [] := List.isEmpty_iff.mp hne
          subst hnil
          rw [step_append_empty g l tick order q mq none hg (fun p hp => by cases hp)]
          exact Rejected.appendEmpty q mq none hg (fun p hp => by cases hp)
      | some p =>
        by_cases h1 : p + 1 = mq.nextPosition
        · rw [step_append_retry g l tick order q mq p pls hg h1]
          exact Rejected.appendRetry q mq p pls hg h1
        · by_cases h2 : p < mq.nextPosition
          · rw [step_append_past g l tick order q mq p pls hg h1 h2]
            exact Rejected.appendPast q mq p pls hg (by omega)
          · have hs : appendStart mq (some p) = some p := by simp [appendStart, h1, h2]
            cases hne : pls.isEmpty with
            | false => exact absurd (written p hs hne) id
            | true =>
              have hnil : pls = [] := List.isEmpty_iff.mp hne
              subst hnil
              have hle : ∀ p', some p = some p' → mq.nextPosition ≤ p' := by
                intro p' hp'; cases hp'; omega
              rw [step_append_empty g l tick order q mq (some p) hg hle]
              exact Rejected.appendEmpty q mq (some p) hg hle

/-- **C13 for every rejected or no-op call**, stated on the outcome alone: the log is unchanged,
    no effect is emitted, and the reported byte count is 0. -/
theorem C13_no_trace_of_outcome (g : Geom) (l : Log) (c : Call) (tick : Bool) (order : List Bytes)
    (h : IsRejection (step g l c tick order).2.1) :
    step g l c tick order = (l, (step g l c tick order).2.1, []) ∧ walBytes (step g l c tick order).2.1 = 0 :=
  ⟨C13_no_trace g l tick order c _ (rejected_of_outcome g l c tick order h),
   C13_zero_bytes l c _ (rejected_of_outcome g l c tick order h)⟩

/-- and conversely a `Rejected` shape has a rejecting outcome: `IsRejection` characterises them -/
theorem rejected_iff (g : Geom) (l : Log) (c : Call) (tick : Bool) (order : List Bytes) :
    IsRejection (step g l c tick order).2.1 ↔ Rejected l c (step g l c tick order).2.1 := by
  constructor
  · exact rejected_of_outcome g l c tick order
  · intro h
    generalize (step g l c tick order).2.1 = out at h
    cases h <;> trivial

end MRL.C13C
