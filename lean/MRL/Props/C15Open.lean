/-
C15 for `open`: the bytes the GC pass of `open_with_prefs` appends to the WAL (the count
`run_gc_if_necessary` returns and `open` discards: "not surfaced to any user-facing API") are
exactly the bytes of the `write` effects of `open`; preparing the directory writes nothing.
-/
import MRL.Props.C15
import MRL.Proofs.StepGc

namespace MRL.C15O
open MRL Log C15

/-- preparing the directory (`create wal-0` / `set_len`) writes no WAL byte -/
theorem prepare_no_write (g : Geom) (img : Image) :
    (prepareImage g img).2.all (fun e => !isWrite e) = true ∧ writtenBytes (prepareImage g img).2 = 0 := by
  unfold prepareImage
  split
  · exact ⟨rfl, rfl⟩
  · split <;> exact ⟨rfl, rfl⟩

/-- **C15 for `open`.** -/
theorem C15_open (g : Geom) (img : Image) (policy : Policy) (order : List Bytes) (failAt : Option Nat)
    (r : Recovered) (lp : Log) (e0 : List Effect) (io : Nat)
    (hpre : recoverPre g img policy failAt = .ok (lp, e0, io))
    (hrec : recover g img policy order failAt = .ok r) :
    writtenBytes r.effects = (lp.runGc g order).2.2 ∧
    e0.all (fun e => !isWrite e) = true ∧
    cursorAfter (lp.cur, lp.off) r.effects = some (r.log.cur, r.log.off) := by
  obtain ⟨lp', e0', io', hpre', hlog, heff⟩ := Step.recover_ok g img policy order failAt r hrec
  rw [hpre] at hpre'
  simp only [Except.ok.injEq, Prod.mk.injEq] at hpre'
  obtain ⟨rfl, rfl, rfl⟩ := hpre'
  have he0 := Step.recoverPre_effects g img policy failAt lp e0 io hpre
  obtain ⟨h1, h2⟩ := prepare_no_write g img
  rw [← he0] at h1 h2
  refine ⟨?_, h1, ?_⟩
  · rw [heff, writtenBytes_append, h2, Nat.zero_add]
    exact runGc_bytes g lp order
  · rw [heff, hlog, cursorAfter_append, cursorAfter_noWrite _ h1, Option.bind_some]
    exact runGc_cursor g lp order

/-- zero reported bytes ⇔ `open` wrote nothing to the WAL -/
theorem C15_open_zero_iff (g : Geom) (img : Image) (policy : Policy) (order : List Bytes) (failAt : Option Nat)
    (r : Recovered) (lp : Log) (e0 : List Effect) (io : Nat)
    (hpre : recoverPre g img policy failAt = .ok (lp, e0, io))
    (hrec : recover g img policy order failAt = .ok r) :
    (lp.runGc g order).2.2 = 0 ↔ r.effects.all (fun e => !isWrite e) = true := by
  obtain ⟨h1, h2, _⟩ := C15_open g img policy order failAt r lp e0 io hpre hrec
  rw [← h1]
  apply writtenBytes_eq_zero_iff
  obtain ⟨lp', e0', io', hpre', _, heff⟩ := Step.recover_ok g img policy order failAt r hrec
  rw [hpre] at hpre'
  simp only [Except.ok.injEq, Prod.mk.injEq] at hpre'
  obtain ⟨rfl, rfl, rfl⟩ := hpre'
  rw [heff]
  exact (writesNonempty_of_noWrite _ h2).append (runGc_nonempty g lp order)

end MRL.C15O
