/-
C09 over crash-reachable states, saying WHICH entry is lost (audit item A3).

`C09X.C09_crash_one_frame` concludes "for SOME journal index `idx`, every record not appended by
`J[idx]` is recovered": at most one entry is lost. Here the index is identified: it is the entry the
damaged frame belongs to — and when the frame belongs to no retained entry NOTHING is lost.

The item tape of the image of a crash-reachable state is `ais = lead ++ gs.flatMap (·.2)`
(`L.DiskX`): lead frames (the tail of an entry that began in a collected file), then groups — live
groups `(some j, fs)` (the frames `fs` of the retained journal entry `j`: `payloadOf (frs fs) =
j.e.encode`), dead groups (unfinished entries), junk slots. `LR.hitGroup lead gs n : Option Nat`
(computable, MRL/Proofs/LDamageW.lean) is `some k` when position `n` of the tape lies in the `k`-th
live group, `none` when it lies in the lead frames, a dead group or a junk slot. The live groups are
the retained entries `J.filter (F ≤ ·.loc)` in order, and these are the last entries of `J`, so the
`k`-th live group is `J[J.length - (liveOf gs).length + k]`.

`C09_crash_which` (and `_reachX`): for the frame as written `a` at position `A1.length`
(`ais = A1 ++ a :: A2`, `a.2 = none`) damaged as in `C09_crash_one_frame`, `recover` on the damaged
image succeeds with `r`, and
* if `hitGroup lead gs A1.length = none`: EVERY record of every live queue is recovered;
* if `= some k`: with `idx := J.length - (liveOf gs).length + k`, the entry `J[idx] = j` is the one
  the frame belongs to — `(some j, fs) ∈ gs`, `a ∈ fs`, `payloadOf (frs fs) = j.e.encode`,
  `EntryFrames true (frs fs)`: the damaged bytes are bytes of the serialisation of `j.e` — and every
  record not appended by `J[idx]` is recovered.

The `C01R.ReachD`-level theorem `C09V.C09_recover_one_frame_all` is not re-stated: every `ReachD` state
is a `ReachX` state (`C02U.ReachX.base`), so `C09_crash_which_reachX` applies to it (with the item tape
in place of the frame layout; on such a state every item is a frame as written).
-/
import MRL.Proofs.LDamageW
import MRL.Props.C09Crash

namespace MRL.C09W
open MRL Consts Codec Log Img C05 C01J G H L Torn LR C09X

/-- **one damaged frame on a `DiskX` disk** -/
theorem one_frame_diskXW (g : Geom) (hB : g.B ≤ 65542) {D : Image} {F : Nat} {J : List JE} (hd : DiskX g D F J)
    (hwf : ∀ j ∈ J, C07.WF j.e) (hmono : J.Pairwise (fun a b => a.loc ≤ b.loc)) (qs lq : MemQueues)
    (hrep : replayJ F [] J = some qs) (hEq : QsEquiv qs lq) (hR : RunOK J lq) :
    ∃ (ais lead : List AItm) (gs : List Grp) (z0 : Nat) (res : Bytes) (z1 : Nat),
      streamOf D = flatJ g 0 ais ++ zeros z0 ++ res ++ zeros z1 ∧ Fits g 0 (frs ais) ∧
      ais = lead ++ gs.flatMap (·.2) ∧ (∀ x ∈ lead, x.2 = none ∧ x.1.2.1.isFirst = false) ∧
      (liveOf gs).map (·.1) = J.filter (fun j => decide (F ≤ j.loc)) ∧ (∀ y ∈ gs, GrpOK y) ∧
      ∀ A1 a A2, ais = A1 ++ a :: A2 → a.2 = none →
      ∀ crc' p' : Bytes, crc'.length = 4 → p'.length = a.1.2.2.length → frameCrc a.1.2.1 p' ≠ leNat crc' →
      ∀ W', SameShape D W' →
        streamOf W' = flatJ g 0 (A1 ++ damaged a crc' p' :: A2) ++ zeros z0 ++ res ++ zeros z1 →
      ∀ (policy : Policy) (order : List Bytes),
        ∃ r, recover g W' policy order none = .ok r ∧
          match hitGroup lead gs A1.length with
          | none => ∀ name q, lq.get? name = some q → ∀ rc ∈ q.recs,
              ∃ q', r.log.queues.get? name = some q' ∧ ∃ r' ∈ q'.recs, r'.pos = rc.pos ∧ r'.payload = rc.payload
          | some k =>
            (∃ j fs, J[J.length - (liveOf gs).length + k]? = some j ∧ (some j, fs) ∈ gs ∧ a ∈ fs ∧
              payloadOf (frs fs) = j.e.encode ∧ EntryFrames true (frs fs)) ∧
            ∀ name q, lq.get? name = some q → ∀ rc ∈ q.recs,
              ¬ C09V.RecordOfIdx J (J.length - (liveOf gs).length + k) name rc →
              ∃ q', r.log.queues.get? name = some q' ∧ ∃ r' ∈ q'.recs, r'.pos = rc.pos ∧ r'.payload = rc.payload := by
  obtain ⟨cs, x, ais, res, z0, hne, hfull, ⟨z1, hflat⟩, hX, hlast, hfits, htag, hjok, hresok, lead, gs, hais, hlead,
    hmap, hok⟩ := hd
  have hstreamD : streamOf D = cs.flatten := by
    rw [hX, streamOf_append, streamOf_imgOf, streamOf_xtra, List.append_nil]
  refine ⟨ais, lead, gs, z0, res, z1, by rw [hstreamD]; exact hflat, hfits, hais, hlead, hmap, hok, ?_⟩
  intro A1 a A2 hsplit ha crc' p' h4 hp hdet W' hshape hS' policy order
  subst hsplit
  obtain ⟨hfits', htag', hjok', hend⟩ := damaged_layout g F _ A1 a A2 crc' p' h4 hp hdet hfits htag hjok
  -- the damaged image
  rw [hX] at hshape
  obtain ⟨A', B', hW', hsA, hsB⟩ := sameShape_append _ _ W' hshape
  have hB' := sameShape_xtra x _ B' hsB
  obtain ⟨hA', hlens⟩ := sameShape_imgOf cs F A' hsA
  generalize hcs' : A'.map (·.2) = cs' at hA' hlens
  have hfull' : ∀ c ∈ cs', c.length = g.fileBytes := by
    intro c hc
    have : c.length ∈ cs'.map List.length := List.mem_map_of_mem hc
    rw [hlens] at this
    obtain ⟨c0, hc0, he⟩ := List.mem_map.mp this
    rw [← he]; exact hfull c0 hc0
  have hne' : cs' ≠ [] := by
    intro hn
    rw [hn] at hlens
    simp only [List.map_nil] at hlens
    exact hne (List.map_eq_nil_iff.mp hlens.symm)
  have hlen' : cs'.length = cs.length := by
    have := congrArg List.length hlens
    simpa using this
  have hW'' : W' = G.imgOf F cs' ++ L.xtra x (F + cs'.length) := by rw [hW', hA', hB', hlen']
  have hstream' : streamOf W' = cs'.flatten := by
    rw [hW'', streamOf_append, streamOf_imgOf, streamOf_xtra, List.append_nil]
  rw [hstream'] at hS'
  -- the scan of the damaged tape
  obtain ⟨evT, e, ke, ce, zz, hscan, hevT, _⟩ := scan_diskX g hB F cs' hne' hfull' _ res z0 z1 hS' hfits' htag'
    (by rw [hlen']; exact hjok') (by rw [hlen', hend]; exact hlast) (by rw [hlen', hend]; exact hresok)
  -- reassembly
  have hmonoT := tags_mono g F _ 0 htag
  have hFT : ∀ y ∈ tfs (A1 ++ a :: A2), F ≤ y.1 := by
    intro y hy
    obtain ⟨h, _, _, h3⟩ := tag_pos g F _ 0 htag y hy
    rw [h3]; exact Nat.le_add_right _ _
  obtain ⟨Jd, st', R, hasm, hents, hcases⟩ := asm_damagedW F lead gs hlead hok (by rw [← hais]; exact hmonoT)
    (by rw [← hais]; exact hFT) A1 a A2 hais.symm ha (damaged a crc' p') rfl rfl _ rfl evT
  obtain ⟨Rt, hRt, hRt0⟩ : ∃ Rt, assemble st' evT = Rt ∧ entriesOf Rt = [] := by
    rcases hevT with h | ⟨f, h⟩
    · subst h; exact ⟨[], rfl, rfl⟩
    · subst h; exact ⟨[RecEv.corrupt], rfl, rfl⟩
  rw [hRt] at hasm
  have hlive : liveJ gs = J.filter (fun j => decide (F ≤ j.loc)) := hmap
  -- the journal, split at the first tracked file
  obtain ⟨J1, J2, hJ, h1, h2⟩ := C09R.split_loc F J hmono
  subst hJ
  rw [filter_split F J1 J2 h1 h2] at hlive
  have hlen2 : (liveOf gs).length = J2.length := by
    have := congrArg List.length hlive
    simpa [liveJ] using this
  have hJlen : (J1 ++ J2).length - (liveOf gs).length = J1.length := by rw [hlen2]; simp
  obtain ⟨L0, Lf, hw0, hrun, _, _⟩ := hR
  -- common end: from a target journal `T` with the same entries as the one delivered
  have hfinish : ∀ (T : List JE) (qsT : MemQueues), (∀ j ∈ T, j ∈ J2) → All2 (Rel F) Jd T →
      replayJ F [] T = some qsT →
      ∃ r, recover g W' policy order none = .ok r ∧ H.AbsEq qsT r.log.queues := by
    intro T qsT hTsub hrel hT
    have hJdwf : ∀ j ∈ Jd, C07.WF j.e ∧ F ≤ j.attr ∧ j.attr ≤ j.loc := by
      intro j hj
      obtain ⟨b, hb, hb1, _, hb3, hb4⟩ := hrel.mem_left j hj
      exact ⟨by rw [hb1]; exact hwf b (List.mem_append_right _ (hTsub b hb)), hb3, hb4⟩
    have hrepl : replay [] (R ++ Rt) = replayJ F [] Jd := by
      rw [replay_entriesOf, entriesOf_append, hents, hRt0, List.append_nil]
      exact replay_entriesEv F _ [] hJdwf
    obtain ⟨r1, hr1, hab⟩ := replayJ_abs F Jd T [] [] qsT (hrel.imp (fun a b h => h.1))
      (fun j hj => by have := hJdwf j hj; omega) (fun j hj => h2 j (hTsub j hj))
      (AbsEq.refl _) QsWF.nil QsWF.nil hT
    obtain ⟨io, hrec⟩ := recoverPre_scanX g F cs' hne' hfull' x W' hW'' policy _ e r1 hscan
      (by rw [hasm, hrepl, hr1])
    obtain ⟨r, hr, hrq⟩ := recover_of_pre g W' policy order _ _ io hrec
    exact ⟨r, hr, by rw [hrq]; exact hab⟩
  have hskip : ∀ js', replayJ F [] (J1 ++ js') = replayJ F [] js' := by
    intro js'
    rw [replayJ_append, Drop.replayJ_skip F [] J1 h1]; rfl
  cases hh : hitGroup lead gs A1.length with
  | none =>
    rw [hh] at hcases
    simp only at hcases ⊢
    rw [hlive] at hcases
    obtain ⟨r, hr, hab⟩ := hfinish J2 qs (fun j hj => hj) hcases (by rw [← hskip]; exact hrep)
    refine ⟨r, hr, ?_⟩
    intro name q hq rc hrc
    obtain ⟨xq, hxq, hxe⟩ := hEq.symm.get_some hq
    obtain ⟨y, hy, hxy⟩ := hab.get_some hxq
    have hmem : (rc.pos, rc.payload) ∈ Rec.plain xq := by
      unfold Rec.plain; rw [← hxe.1]
      exact List.mem_map_of_mem (f := fun r : MRL.Rec => (r.pos, r.payload)) hrc
    exact ⟨y, hy, abs_mem hxy hmem⟩
  | some k =>
    rw [hh] at hcases
    simp only at hcases ⊢
    rw [hlive] at hcases
    obtain ⟨hsome, j, fs, hjk, hjfs, hafs⟩ := hcases
    have hk : k < J2.length := by
      apply Classical.byContradiction
      intro hn
      rw [List.getElem?_eq_none (by omega)] at hjk; cases hjk
    have ha' : J1.length + k < (J1 ++ J2).length := by simp; omega
    have hers : (J1 ++ J2).eraseIdx (J1.length + k) = J1 ++ J2.eraseIdx k := by
      rw [List.eraseIdx_append_of_length_le (by omega)]
      congr 2; omega
    obtain ⟨qs', hq1, _, hq2⟩ := drop_coreX F (J1 ++ J2) L0 Lf qs lq hw0 hrun hmono hrep hEq _ ha'
    rw [hers, hskip] at hq1
    obtain ⟨r, hr, hab⟩ := hfinish (J2.eraseIdx k) qs' (fun j hj => List.mem_of_mem_eraseIdx hj) hsome hq1
    rw [hJlen]
    refine ⟨r, hr, ⟨j, fs, ?_, hjfs, hafs, ?_, ?_⟩, ?_⟩
    · rw [List.getElem?_append_right (by omega)]
      have : J1.length + k - J1.length = k := by omega
      rw [this]; exact hjk
    · have := (hok _ hjfs)
      exact this.1.payload
    · have := (hok _ hjfs)
      exact this.1.frames
    · intro name q hq rc hrc hnot
      obtain ⟨q', hq', hm'⟩ := hq2 name q hq rc hrc (fun hrec => hnot ⟨ha', hrec⟩)
      obtain ⟨y, hy, hxy⟩ := hab.get_some hq'
      exact ⟨y, hy, abs_mem hxy hm'⟩

/-- **C09_crash_which.** -/
theorem C09_crash_which (g : Geom) (hB : g.B ≤ 65542) (cap : Nat) (l : Log) (img : Image) (b : BufSt)
    (W : List Entry) (h : C02W.ReachXW g cap l img b W) :
    ∃ (J : List JE) (ais lead : List AItm) (gs : List Grp) (z0 : Nat) (res : Bytes) (z1 : Nat),
      L.CInvX g l J (C02U.flushDisk img b) ∧ (∀ j ∈ J, C07.WF j.e) ∧ (∀ j ∈ J, j.e ∈ W) ∧
      streamOf (C02U.flushDisk img b) = flatJ g 0 ais ++ zeros z0 ++ res ++ zeros z1 ∧ Fits g 0 (frs ais) ∧
      ais = lead ++ gs.flatMap (·.2) ∧ (∀ x ∈ lead, x.2 = none ∧ x.1.2.1.isFirst = false) ∧
      (liveOf gs).map (·.1) = J.filter (fun j => decide (l.files.headD 0 ≤ j.loc)) ∧ (∀ y ∈ gs, GrpOK y) ∧
      ∀ A1 a A2, ais = A1 ++ a :: A2 → a.2 = none →
      ∀ crc' p' : Bytes, crc'.length = 4 → p'.length = a.1.2.2.length → frameCrc a.1.2.1 p' ≠ leNat crc' →
      ∀ W', SameShape (C02U.flushDisk img b) W' →
        streamOf W' = flatJ g 0 (A1 ++ damaged a crc' p' :: A2) ++ zeros z0 ++ res ++ zeros z1 →
      ∀ (policy : Policy) (order : List Bytes),
        ∃ r, recover g W' policy order none = .ok r ∧
          match hitGroup lead gs A1.length with
          | none => ∀ name q, l.queues.get? name = some q → ∀ rc ∈ q.recs,
              ∃ q', r.log.queues.get? name = some q' ∧ ∃ r' ∈ q'.recs, r'.pos = rc.pos ∧ r'.payload = rc.payload
          | some k =>
            (∃ j fs, J[J.length - (liveOf gs).length + k]? = some j ∧ (some j, fs) ∈ gs ∧ a ∈ fs ∧
              payloadOf (frs fs) = j.e.encode ∧ EntryFrames true (frs fs)) ∧
            ∀ name q, l.queues.get? name = some q → ∀ rc ∈ q.recs,
              ¬ C09V.RecordOfIdx J (J.length - (liveOf gs).length + k) name rc →
              ∃ q', r.log.queues.get? name = some q' ∧ ∃ r' ∈ q'.recs, r'.pos = rc.pos ∧ r'.payload = rc.payload := by
  obtain ⟨J, hc, hw, hJW, hR⟩ := reachXR_journal g hB cap h
  obtain ⟨hH, chunk, qs, hrep, heq, hqwf⟩ := hc.jinv
  obtain ⟨init, t, x, res0, ais0, lead0, gs0, hx⟩ := hc.disk
  obtain ⟨ais, lead, gs, z0, res, z1, h1, h2, h3, h4, h5, h6, h7⟩ :=
    one_frame_diskXW g hB hx.diskX hw chunk.mono qs l.queues hrep heq hR
  exact ⟨J, ais, lead, gs, z0, res, z1, hc, hw, hJW, h1, h2, h3, h4, h5, h6, h7⟩

/-- the same on `C02U.ReachX` -/
theorem C09_crash_which_reachX (g : Geom) (hB : g.B ≤ 65542) (cap : Nat) (l : Log) (img : Image) (b : BufSt)
    (h : C02U.ReachX g cap l img b) :
    ∃ (J : List JE) (ais lead : List AItm) (gs : List Grp) (z0 : Nat) (res : Bytes) (z1 : Nat),
      L.CInvX g l J (C02U.flushDisk img b) ∧ (∀ j ∈ J, C07.WF j.e) ∧
      streamOf (C02U.flushDisk img b) = flatJ g 0 ais ++ zeros z0 ++ res ++ zeros z1 ∧ Fits g 0 (frs ais) ∧
      ais = lead ++ gs.flatMap (·.2) ∧ (∀ x ∈ lead, x.2 = none ∧ x.1.2.1.isFirst = false) ∧
      (liveOf gs).map (·.1) = J.filter (fun j => decide (l.files.headD 0 ≤ j.loc)) ∧ (∀ y ∈ gs, GrpOK y) ∧
      ∀ A1 a A2, ais = A1 ++ a :: A2 → a.2 = none →
      ∀ crc' p' : Bytes, crc'.length = 4 → p'.length = a.1.2.2.length → frameCrc a.1.2.1 p' ≠ leNat crc' →
      ∀ W', SameShape (C02U.flushDisk img b) W' →
        streamOf W' = flatJ g 0 (A1 ++ damaged a crc' p' :: A2) ++ zeros z0 ++ res ++ zeros z1 →
      ∀ (policy : Policy) (order : List Bytes),
        ∃ r, recover g W' policy order none = .ok r ∧
          match hitGroup lead gs A1.length with
          | none => ∀ name q, l.queues.get? name = some q → ∀ rc ∈ q.recs,
              ∃ q', r.log.queues.get? name = some q' ∧ ∃ r' ∈ q'.recs, r'.pos = rc.pos ∧ r'.payload = rc.payload
          | some k =>
            (∃ j fs, J[J.length - (liveOf gs).length + k]? = some j ∧ (some j, fs) ∈ gs ∧ a ∈ fs ∧
              payloadOf (frs fs) = j.e.encode ∧ EntryFrames true (frs fs)) ∧
            ∀ name q, l.queues.get? name = some q → ∀ rc ∈ q.recs,
              ¬ C09V.RecordOfIdx J (J.length - (liveOf gs).length + k) name rc →
              ∃ q', r.log.queues.get? name = some q' ∧ ∃ r' ∈ q'.recs, r'.pos = rc.pos ∧ r'.payload = rc.payload := by
  obtain ⟨W, hW⟩ := C02W.ReachXW.ofReachX h
  obtain ⟨J, ais, lead, gs, z0, res, z1, a1, a2, _, a4, a5, a6, a7, a8, a9, a10⟩ :=
    C09_crash_which g hB cap l img b W hW
  exact ⟨J, ais, lead, gs, z0, res, z1, a1, a2, a4, a5, a6, a7, a8, a9, a10⟩

/-- the live group hit by a position is the one `hitGroup` computes (specification) -/
theorem hitGroup_live (lead : List AItm) (g1 : List Grp) (j : JE) (fs : List AItm) (g2 : List Grp)
    (pre : List AItm) (a : AItm) (post : List AItm) (hfs : fs = pre ++ a :: post) :
    hitGroup lead (g1 ++ (some j, fs) :: g2) ((lead ++ g1.flatMap (·.2) ++ pre).length) =
      some (liveJ g1).length := by
  unfold hitGroup
  rw [if_neg (by simp)]
  have hn : (lead ++ g1.flatMap (·.2) ++ pre).length - lead.length = (g1.flatMap (·.2)).length + pre.length := by
    simp
  rw [hn, hitGroups_spec g1 (some j, fs) g2 pre a post hfs 0]
  simp

/-- a position in the lead frames hits no entry -/
theorem hitGroup_lead (lead : List AItm) (gs : List Grp) (n : Nat) (h : n < lead.length) :
    hitGroup lead gs n = none := by
  unfold hitGroup; rw [if_pos h]

/-- histories without crashes (`C01R.ReachD`) are a special case -/
theorem C09_reachD_which (g : Geom) (hB : g.B ≤ 65542) (cap : Nat) (l : Log) (J0 : List JE) (img : Image) (b : BufSt)
    (h : C01R.ReachD g cap l J0 img b) (hwf : ∀ j ∈ J0, C07.WF j.e) :
    ∃ (J : List JE) (ais lead : List AItm) (gs : List Grp) (z0 : Nat) (res : Bytes) (z1 : Nat),
      L.CInvX g l J (C02U.flushDisk img b) ∧ (∀ j ∈ J, C07.WF j.e) ∧
      streamOf (C02U.flushDisk img b) = flatJ g 0 ais ++ zeros z0 ++ res ++ zeros z1 ∧ Fits g 0 (frs ais) ∧
      ais = lead ++ gs.flatMap (·.2) ∧ (∀ x ∈ lead, x.2 = none ∧ x.1.2.1.isFirst = false) ∧
      (liveOf gs).map (·.1) = J.filter (fun j => decide (l.files.headD 0 ≤ j.loc)) ∧ (∀ y ∈ gs, GrpOK y) ∧
      ∀ A1 a A2, ais = A1 ++ a :: A2 → a.2 = none →
      ∀ crc' p' : Bytes, crc'.length = 4 → p'.length = a.1.2.2.length → frameCrc a.1.2.1 p' ≠ leNat crc' →
      ∀ W', SameShape (C02U.flushDisk img b) W' →
        streamOf W' = flatJ g 0 (A1 ++ damaged a crc' p' :: A2) ++ zeros z0 ++ res ++ zeros z1 →
      ∀ (policy : Policy) (order : List Bytes),
        ∃ r, recover g W' policy order none = .ok r ∧
          match hitGroup lead gs A1.length with
          | none => ∀ name q, l.queues.get? name = some q → ∀ rc ∈ q.recs,
              ∃ q', r.log.queues.get? name = some q' ∧ ∃ r' ∈ q'.recs, r'.pos = rc.pos ∧ r'.payload = rc.payload
          | some k =>
            (∃ j fs, J[J.length - (liveOf gs).length + k]? = some j ∧ (some j, fs) ∈ gs ∧ a ∈ fs ∧
              payloadOf (frs fs) = j.e.encode ∧ EntryFrames true (frs fs)) ∧
            ∀ name q, l.queues.get? name = some q → ∀ rc ∈ q.recs,
              ¬ C09V.RecordOfIdx J (J.length - (liveOf gs).length + k) name rc →
              ∃ q', r.log.queues.get? name = some q' ∧ ∃ r' ∈ q'.recs, r'.pos = rc.pos ∧ r'.payload = rc.payload :=
  C09_crash_which_reachX g hB cap l img b (C02U.ReachX.base h hwf)

end MRL.C09W
