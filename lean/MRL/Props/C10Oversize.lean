/-
C10, WAL files longer than the nominal size (finding F6, repaired in `/repo` by
"fix: ignore bytes beyond the nominal size of a wal file when reading").

Before the fix the reader followed a WAL file to its end; the writer then resumed beyond the nominal
size, its next write rolled over in the middle of a block and the frame after it tripped
`assert!(buf.len() <= self.num_bytes_remaining_in_block())` — inside `open`, when its GC pass
recorded the position of an empty queue with a long name (`C10A.oversize_assert_fires` is the model
of that state; `corpus/oversize__F6-…` the directory on which the unrepaired library panics).

Since the fix `open` is `recoverC = recover ∘ clipImage`: what lies beyond `fileBytes` is ignored.
* `clipImage_noOversize`, `clipImage_id`: the clipped view has no oversized file; clipping is the
  identity on images without one — in particular on every image the log itself produces
  (`C10V.reach_noOversize` in MRL/Props/C10Reach.lean), so all theorems stated with `recover` on
  reachable images are theorems about `recoverC`.
* `recoverC_asserts`: for EVERY image, arbitrary bytes and lengths, every write-path assertion
  that the GC pass of `open` reaches holds — `C10A.recover_asserts` without its hypothesis.
* `recoverC_no_panic`: `C10.recover_no_panic_img` transported: the checked arithmetic of the replay
  does not overflow under `NoMax` (finding F4 stays).
-/
import MRL.Props.C10Asserts

namespace MRL.C10V
open MRL Log C10A

theorem clipImage_noOversize (g : Geom) (img : Image) : NoOversize g (clipImage g img) := by
  intro kv hkv
  simp only [clipImage, List.mem_map] at hkv
  obtain ⟨kv0, _, rfl⟩ := hkv
  simp only [List.length_take]
  exact Nat.min_le_left _ _

theorem clipImage_id (g : Geom) (img : Image) (h : NoOversize g img) : clipImage g img = img := by
  unfold clipImage
  induction img with
  | nil => rfl
  | cons kv rest ih =>
    have h1 : kv.2.length ≤ g.fileBytes := h kv (List.mem_cons_self ..)
    have h2 : NoOversize g rest := fun x hx => h x (List.mem_cons_of_mem _ hx)
    simp only [List.map_cons, List.take_of_length_le h1, ih h2]

theorem clipImage_idem (g : Geom) (img : Image) : clipImage g (clipImage g img) = clipImage g img :=
  clipImage_id g _ (clipImage_noOversize g img)

/-- the file numbers and their order are untouched -/
theorem clipImage_files (g : Geom) (img : Image) : (clipImage g img).map (·.1) = img.map (·.1) := by
  simp [clipImage, List.map_map, Function.comp_def]

/-- on images without an oversized file `open` is `recover` -/
theorem recoverC_eq_recover (g : Geom) (img : Image) (policy : Policy) (order : List Bytes)
    (failAt : Option Nat) (h : NoOversize g img) :
    recoverC g img policy order failAt = recover g img policy order failAt := by
  unfold recoverC; rw [clipImage_id g img h]

/-- **C10, assertions, every image.** Whatever the directory holds, every write-path assertion
    the GC pass of `open` reaches holds and the writer resumes within the nominal file size. -/
theorem recoverC_asserts (g : Geom) (img : Image) (policy : Policy) (order : List Bytes)
    (failAt : Option Nat) (lp : Log) (e0 : List Effect) (io : Nat)
    (hpre : recoverPre g (clipImage g img) policy failAt = .ok (lp, e0, io)) :
    gcAsserts g lp order = true ∧ lp.off ≤ g.fileBytes ∧ NamesShort lp.queues :=
  recover_asserts g (clipImage g img) policy order failAt lp e0 io (clipImage_noOversize g img) hpre

/-- **C10 (b), every image.** `C10.recover_no_panic_img` for `open` as the code does it: entries
    below `u64::MAX` and file numbers leaving room for the GC's roll-overs ⇒ no panic, and the read
    accessors of the returned log do not panic. -/
theorem recoverC_no_panic (g : Geom) (img : Image) (policy : Policy) (order : List Bytes)
    (failAt : Option Nat) (n : Nat) (hev : C10.NoMax (deliveredEvents g (clipImage g img) failAt))
    (hfiles : ∀ f ∈ img.map (·.1), f + n ≤ U64MAX) (hn : n ≤ U64MAX)
    (hcount : ∀ lp e0 io, recoverPre g (clipImage g img) policy failAt = .ok (lp, e0, io) → gcBufCount g lp order ≤ n) :
    recoverP g (clipImage g img) policy order failAt ≠ .error () ∧
    ∀ r, recoverC g img policy order failAt = .ok r → accessorsPanic r.log.queues = false :=
  C10.recover_no_panic_img g (clipImage g img) policy order failAt n hev
    (by rw [clipImage_files]; exact hfiles) hn hcount

/-- non-vacuity: an oversized image whose clipped view recovers -/
example : ¬ NoOversize g16 [(0, zeros 40)] ∧ NoOversize g16 (clipImage g16 [(0, zeros 40)]) := by
  constructor
  · intro h; have := h (0, zeros 40) (List.mem_singleton.mpr rfl); simp [zeros, g16, Geom.fileBytes] at this
  · exact clipImage_noOversize _ _

end MRL.C10V
