/-
C10, file numbers along crash-reachable histories (namespace `MRL.C10FN`).

`C10R.call_no_panic` carries `hcur : (l.step g c tick order).1.cur ≤ U64MAX`, and
`C10R.reopen_no_panic` / `crash_open_no_panic` / `crash2_open_no_panic` carry `hfiles`, `hn`, `hcount`
(the image's file numbers leave room for the roll-overs of the GC pass of `open`). This file
discharges all four from ONE counter carried along the history.

`ReachXN g cap P n N l img b` is `C07F.ReachXF g cap P n l img b` (fitting calls, restarts, crashes at
any point of a call or of `open`, any number of times) with one more index `N`, which counts
roll-overs:

* a call adds `FN.crs effects`, the number of files the call creates (= its roll-overs into a NEW file);
* an `open` adds `gcBufCount g lp order`, the number of buffers its GC pass hands to the writer (each
  rolls at most once; this is the quantity of `hcount`);
* a crashed call adds both (the files the complete call would create, then the `open`);
* a crashed `open` adds the buffers of both `open`s.

`N` starts at `gcBufCount` of the first `open` (on the empty directory; the log starts at file 0).

Results:
* `toXF`, `exists_counter` : `ReachXN` and `ReachXF` have the same states (every history has a counter);
* `bound` : in a `ReachXN … N` state every tracked file number, the current file and every file of the
  directory are at most `N`;
* `call_ok`, `reopen_ok`, `crash_ok`, `crash2_ok`, `accessors_ok` and their bundle
  **`no_panic_reach`** : from a `ReachXN … N` state, every fitting call, every restart, every crash of
  a call or of `open` followed by `open`, whose counter AFTER the event is at most `u64::MAX`
  (in particular: fewer than 2^62 roll-overs so far, `no_panic_reach_2_62`), does not panic: `stepP`
  returns `.ok step`, `recoverP (clipImage X) = .ok (recover X)`, and the accessors of the result
  do not overflow. Remaining hypotheses: `g.B ≤ 65542`, `P < u64::MAX` and the fitting of the calls
  (the premises of the `ReachXF` constructors), the crash premises of the constructors
  (`b.pend = []`, `TornStep`, `TornEffs`), and the bound on the counter. No hypothesis on file
  numbers is left.
-/
import MRL.Proofs.FNGrow

namespace MRL.C10FN
open MRL Log C07F FN

/-- `C07F.ReachXF` with a roll-over counter `N` -/
inductive ReachXN (g : Geom) (cap P : Nat) : Nat → Nat → Log → Image → BufSt → Prop
  | init (policy : Policy) (order : List Bytes) (lp : Log) (e0 : List Effect) (io : Nat) (r : Recovered) :
      recoverPre g [] policy none = .ok (lp, e0, io) →
      recover g [] policy order none = .ok r →
      ReachXN g cap P 0 (gcBufCount g lp order) r.log
        (applyOsOps [] (toOsOps cap {} r.effects).2) (toOsOps cap {} r.effects).1
  | step {n N : Nat} {l : Log} {img : Image} {b : BufSt} (c : Call) (tick : Bool) (order : List Bytes) :
      ReachXN g cap P n N l img b → CallFits c → C05B.CallBelow P c → P + n + C05B.callRecs c < U64MAX →
      ReachXN g cap P (n + C05B.callRecs c) (N + crs (l.step g c tick order).2.2) (l.step g c tick order).1
        (applyOsOps img (toOsOps cap b (l.step g c tick order).2.2).2)
        (toOsOps cap b (l.step g c tick order).2.2).1
  | reopen {n N : Nat} {l : Log} {img : Image} {b : BufSt} (policy : Policy) (order : List Bytes)
      (lp : Log) (e0 : List Effect) (io : Nat) (r : Recovered) :
      ReachXN g cap P n N l img b →
      recoverPre g (C02U.flushDisk img b) policy none = .ok (lp, e0, io) →
      recover g (C02U.flushDisk img b) policy order none = .ok r →
      ReachXN g cap P n (N + gcBufCount g lp order) r.log
        (applyOsOps (C02U.flushDisk img b) (toOsOps cap {} r.effects).2) (toOsOps cap {} r.effects).1
  | crash {n N : Nat} {l : Log} {img : Image} {b : BufSt} (c : Call) (tick : Bool) (order : List Bytes)
      (k cut : Nat) (X : Image) (policy' : Policy) (order' : List Bytes) (lp : Log) (e0 : List Effect)
      (io : Nat) (r : Recovered) :
      ReachXN g cap P n N l img b → b.pend = [] →
      CallFits c → C05B.CallBelow P c → P + n + C05B.callRecs c < U64MAX →
      C02A.TornStep g l c tick order →
      X = crashImage img (toOsOps cap b (l.step g c tick order).2.2).2 k cut →
      recoverPre g X policy' none = .ok (lp, e0, io) →
      recover g X policy' order' none = .ok r →
      ReachXN g cap P (n + C05B.callRecs c) (N + crs (l.step g c tick order).2.2 + gcBufCount g lp order')
        r.log (applyOsOps X (toOsOps cap {} r.effects).2) (toOsOps cap {} r.effects).1
  | crash2 {n N : Nat} {l : Log} {img : Image} {b : BufSt} (policy : Policy) (order : List Bytes) (lp0 : Log)
      (e00 : List Effect) (io0 : Nat) (r0 : Recovered) (k cut : Nat) (X : Image) (policy' : Policy)
      (order' : List Bytes) (lp : Log) (e0 : List Effect) (io : Nat) (r : Recovered) :
      ReachXN g cap P n N l img b →
      recoverPre g (C02U.flushDisk img b) policy none = .ok (lp0, e00, io0) →
      recover g (C02U.flushDisk img b) policy order none = .ok r0 →
      H.TornEffs r0.effects →
      X = crashImage (C02U.flushDisk img b) (toOsOps cap {} r0.effects).2 k cut →
      recoverPre g X policy' none = .ok (lp, e0, io) →
      recover g X policy' order' none = .ok r →
      ReachXN g cap P n (N + gcBufCount g lp0 order + gcBufCount g lp order') r.log
        (applyOsOps X (toOsOps cap {} r.effects).2) (toOsOps cap {} r.effects).1

/-! ### `ReachXN` and `ReachXF` have the same states -/

/-- forget the counter -/
theorem toXF {g : Geom} {cap P n N : Nat} {l : Log} {img : Image} {b : BufSt}
    (h : ReachXN g cap P n N l img b) : ReachXF g cap P n l img b := by
  induction h with
  | init policy order lp e0 io r _ hrec => exact ReachXF.base (ReachDF.init policy order r hrec)
  | step c tick order _ hf hb hK ih => exact ReachXF.step c tick order ih hf hb hK
  | reopen policy order lp e0 io r _ hpre hrec ih => exact ReachXF.reopen policy order lp e0 io r ih hpre hrec
  | crash c tick order k cut X policy' order' lp e0 io r _ hbp hf hcb hK htorn hX hpre hrec ih =>
    exact ReachXF.crash c tick order k cut X policy' order' lp e0 io r ih hbp hf hcb hK htorn hX hpre hrec
  | crash2 policy order lp0 e00 io0 r0 k cut X policy' order' lp e0 io r _ hpre0 hrec0 htorn hX hpre hrec ih =>
    exact ReachXF.crash2 policy order lp0 e00 io0 r0 k cut X policy' order' lp e0 io r ih hpre0 hrec0 htorn hX
      hpre hrec

theorem exists_counterD {g : Geom} {cap P n : Nat} {l : Log} {J : List JE} {img : Image} {b : BufSt}
    (h : ReachDF g cap P n l J img b) : ∃ N, ReachXN g cap P n N l img b := by
  induction h with
  | init policy order r hrec =>
    obtain ⟨lp, e0, io, hpre, _, _⟩ := Step.recover_ok g [] policy order none r hrec
    exact ⟨_, ReachXN.init policy order lp e0 io r hpre hrec⟩
  | step c tick order _ hf hb hK ih =>
    obtain ⟨N, ih⟩ := ih
    exact ⟨_, ReachXN.step c tick order ih hf hb hK⟩
  | reopen policy order lp e0 io r _ hpre hrec ih =>
    obtain ⟨N, ih⟩ := ih
    exact ⟨_, ReachXN.reopen policy order lp e0 io r ih hpre hrec⟩

/-- every `ReachXF` history has a counter -/
theorem exists_counter {g : Geom} {cap P n : Nat} {l : Log} {img : Image} {b : BufSt}
    (h : ReachXF g cap P n l img b) : ∃ N, ReachXN g cap P n N l img b := by
  induction h with
  | base hd => exact exists_counterD hd
  | step c tick order _ hf hb hK ih =>
    obtain ⟨N, ih⟩ := ih
    exact ⟨_, ReachXN.step c tick order ih hf hb hK⟩
  | reopen policy order lp e0 io r _ hpre hrec ih =>
    obtain ⟨N, ih⟩ := ih
    exact ⟨_, ReachXN.reopen policy order lp e0 io r ih hpre hrec⟩
  | crash c tick order k cut X policy' order' lp e0 io r _ hbp hf hcb hK htorn hX hpre hrec ih =>
    obtain ⟨N, ih⟩ := ih
    exact ⟨_, ReachXN.crash c tick order k cut X policy' order' lp e0 io r ih hbp hf hcb hK htorn hX hpre hrec⟩
  | crash2 policy order lp0 e00 io0 r0 k cut X policy' order' lp e0 io r _ hpre0 hrec0 htorn hX hpre hrec ih =>
    obtain ⟨N, ih⟩ := ih
    exact ⟨_, ReachXN.crash2 policy order lp0 e00 io0 r0 k cut X policy' order' lp e0 io r ih hpre0 hrec0 htorn
      hX hpre hrec⟩

/-! ### the counter bounds the file numbers -/

/-- what an `open` of an image with keys `≤ M` leaves behind -/
theorem after_open (g : Geom) (cap : Nat) {X : Image} {policy : Policy} {order : List Bytes} {lp : Log}
    {e0 : List Effect} {io : Nat} {r : Recovered} {M : Nat} (hk : KeysLe M X)
    (hpre : recoverPre g X policy none = .ok (lp, e0, io))
    (hrec : recover g X policy order none = .ok r) :
    C10.Bnd (M + gcBufCount g lp order) r.log ∧
    KeysLe (M + gcBufCount g lp order) (applyOsOps X (toOsOps cap {} r.effects).2) ∧
    ∀ k cut, KeysLe (M + gcBufCount g lp order) (crashImage X (toOsOps cap {} r.effects).2 k cut) := by
  obtain ⟨h1, h2⟩ := recover_grow g hk hpre hrec
  obtain ⟨h3, h4⟩ := effects_keys cap {} r.effects (hk.mono (Nat.le_add_right _ _)) h2
  exact ⟨h1, h3, h4⟩

/-- what a call leaves behind, and every crash image on the way -/
theorem after_call (g : Geom) (cap : Nat) {l : Log} {img : Image} (b : BufSt) {M : Nat} (hb : C10.Bnd M l)
    (hk : KeysLe M img) (c : Call) (tick : Bool) (order : List Bytes) :
    C10.Bnd (M + crs (l.step g c tick order).2.2) (l.step g c tick order).1 ∧
    KeysLe (M + crs (l.step g c tick order).2.2) (applyOsOps img (toOsOps cap b (l.step g c tick order).2.2).2) ∧
    ∀ k cut, KeysLe (M + crs (l.step g c tick order).2.2)
      (crashImage img (toOsOps cap b (l.step g c tick order).2.2).2 k cut) := by
  obtain ⟨h1, h2⟩ := step_grow g l c tick order M hb
  obtain ⟨h3, h4⟩ := effects_keys cap b _ (hk.mono (Nat.le_add_right _ _)) h2
  exact ⟨h1, h3, h4⟩

/-- **The counter bounds every file number**: the tracked files, the current file, and the files of
    the directory. -/
theorem bound {g : Geom} {cap P n N : Nat} {l : Log} {img : Image} {b : BufSt}
    (h : ReachXN g cap P n N l img b) : C10.Bnd N l ∧ KeysLe N img := by
  induction h with
  | init policy order lp e0 io r hpre hrec =>
    obtain ⟨h1, h2, _⟩ := after_open g cap (KeysLe.nil 0) hpre hrec
    rw [Nat.zero_add] at h1 h2
    exact ⟨h1, h2⟩
  | @step n0 N0 l0 img0 b0 c tick order _ _ _ _ ih =>
    obtain ⟨h1, h2, _⟩ := after_call g cap b0 ih.1 ih.2 c tick order
    exact ⟨h1, h2⟩
  | @reopen n0 N0 l0 img0 b0 policy order lp e0 io r _ hpre hrec ih =>
    obtain ⟨h1, h2, _⟩ := after_open g cap (flushDisk_keys b0 ih.2) hpre hrec
    exact ⟨h1, h2⟩
  | @crash n0 N0 l0 img0 b0 c tick order k cut X policy' order' lp e0 io r _ _ _ _ _ _ hX hpre hrec ih =>
    obtain ⟨_, _, h3⟩ := after_call g cap b0 ih.1 ih.2 c tick order
    have hk := h3 k cut
    rw [← hX] at hk
    obtain ⟨h1, h2, _⟩ := after_open g cap hk hpre hrec
    exact ⟨h1, h2⟩
  | @crash2 n0 N0 l0 img0 b0 policy order lp0 e00 io0 r0 k cut X policy' order' lp e0 io r _ hpre0 hrec0 _ hX hpre
      hrec ih =>
    obtain ⟨_, _, h3⟩ := after_open g cap (flushDisk_keys b0 ih.2) hpre0 hrec0
    have hk := h3 k cut
    rw [← hX] at hk
    obtain ⟨h1, h2, _⟩ := after_open g cap hk hpre hrec
    exact ⟨h1, h2⟩

/-- the counter starts at `0`: the first `open` (empty directory, one file) has no GC pass -/
theorem init_counter {g : Geom} {policy : Policy} {order : List Bytes} {lp : Log} {e0 : List Effect} {io : Nat}
    (hpre : recoverPre g [] policy none = .ok (lp, e0, io)) : gcBufCount g lp order = 0 := by
  obtain ⟨hf, _⟩ := C10.recoverPre_files hpre
  rw [C10.prepareImage_files] at hf
  simp only [if_true] at hf
  unfold gcBufCount gcNamesOf
  rw [hf]
  rfl

/-- the per-call statement: `cur` grows by at most the number of files the call creates -/
theorem cur_step {g : Geom} {cap P n N : Nat} {l : Log} {img : Image} {b : BufSt}
    (h : ReachXN g cap P n N l img b) (c : Call) (tick : Bool) (order : List Bytes) :
    (l.step g c tick order).1.cur ≤ N + crs (l.step g c tick order).2.2 :=
  step_cur_le g l c tick order N (bound h).1

/-! ### no call and no `open` panics -/

/-- the three hypotheses `hfiles`, `hn`, `hcount` of `C10R.open_agrees`, from a bound on the keys -/
theorem room {g : Geom} {X : Image} {policy : Policy} {order : List Bytes} {lp : Log} {e0 : List Effect}
    {io : Nat} {M : Nat} (hk : KeysLe M X) (hpre : recoverPre g X policy none = .ok (lp, e0, io))
    (hM : M + gcBufCount g lp order ≤ U64MAX) :
    (∀ f ∈ X.map (·.1), f + gcBufCount g lp order ≤ U64MAX) ∧ gcBufCount g lp order ≤ U64MAX ∧
    (∀ lp' e0' io', recoverPre g X policy none = .ok (lp', e0', io') →
      gcBufCount g lp' order ≤ gcBufCount g lp order) := by
  refine ⟨fun f hf => ?_, by omega, ?_⟩
  · have := hk f hf; omega
  · intro lp' e0' io' hpre'
    rw [hpre] at hpre'
    cases hpre'
    exact Nat.le_refl _

section
variable (g : Geom) (hB : g.B ≤ 65542) (cap P : Nat) (hP : P < U64MAX)
include hB hP

/-- the read accessors of a reachable log do not overflow -/
theorem accessors_ok {n N : Nat} {l : Log} {img : Image} {b : BufSt} (h : ReachXN g cap P n N l img b) :
    accessorsPanic l.queues = false := by
  obtain ⟨_, hfit, hlt⟩ := reachXF_inv g hB cap P hP (toXF h)
  unfold accessorsPanic
  rw [List.any_eq_false]
  intro kv hkv
  have := hfit.pos kv hkv
  rw [C05B.not_poisoned_of_next (Nat.lt_of_le_of_lt this hlt)]
  simp

/-- **every call**: counter after the call at most `u64::MAX` ⇒ the twin agrees -/
theorem call_ok {n N : Nat} {l : Log} {img : Image} {b : BufSt} (h : ReachXN g cap P n N l img b)
    (c : Call) (tick : Bool) (order : List Bytes) (hcb : C05B.CallBelow P c)
    (hK : P + n + C05B.callRecs c < U64MAX) (hN : N + crs (l.step g c tick order).2.2 ≤ U64MAX) :
    l.stepP g c tick order = .ok (l.step g c tick order) :=
  C10R.call_no_panic g hB cap P hP (toXF h) c tick order hcb hK (Nat.le_trans (cur_step h c tick order) hN)

/-- **every clean restart** -/
theorem reopen_ok {n N : Nat} {l : Log} {img : Image} {b : BufSt} (h : ReachXN g cap P n N l img b)
    (policy : Policy) (order : List Bytes) (lp : Log) (e0 : List Effect) (io : Nat)
    (hpre : recoverPre g (C02U.flushDisk img b) policy none = .ok (lp, e0, io))
    (hN : N + gcBufCount g lp order ≤ U64MAX) :
    clipImage g (C02U.flushDisk img b) = C02U.flushDisk img b ∧
    recoverP g (clipImage g (C02U.flushDisk img b)) policy order none =
      .ok (recover g (C02U.flushDisk img b) policy order none) ∧
    ∀ r, recover g (C02U.flushDisk img b) policy order none = .ok r → accessorsPanic r.log.queues = false := by
  obtain ⟨r1, r2, r3⟩ := room (flushDisk_keys b (bound h).2) hpre hN
  obtain ⟨_, a1, a2, a3⟩ := C10R.reopen_no_panic g hB cap P hP (toXF h) policy order _ r1 r2 r3
  exact ⟨a1, a2, a3⟩

/-- **the `open` after a crash at any point of a fitting call** -/
theorem crash_ok {n N : Nat} {l : Log} {img : Image} {b : BufSt} (h : ReachXN g cap P n N l img b)
    (hb : b.pend = []) (c : Call) (tick : Bool) (order : List Bytes) (hcf : CallFits c)
    (hcb : C05B.CallBelow P c) (hK : P + n + C05B.callRecs c < U64MAX)
    (htorn : C02A.TornStep g l c tick order) (k cut : Nat) (policy' : Policy) (order' : List Bytes)
    (lp : Log) (e0 : List Effect) (io : Nat)
    (hpre : recoverPre g (crashImage img (toOsOps cap b (l.step g c tick order).2.2).2 k cut) policy' none =
      .ok (lp, e0, io))
    (hN : N + crs (l.step g c tick order).2.2 + gcBufCount g lp order' ≤ U64MAX) :
    let X := crashImage img (toOsOps cap b (l.step g c tick order).2.2).2 k cut
    clipImage g X = X ∧
    recoverP g (clipImage g X) policy' order' none = .ok (recover g X policy' order' none) ∧
    ∀ r, recover g X policy' order' none = .ok r → accessorsPanic r.log.queues = false := by
  intro X
  obtain ⟨_, _, h3⟩ := after_call g cap b (bound h).1 (bound h).2 c tick order
  obtain ⟨r1, r2, r3⟩ := room (h3 k cut) hpre hN
  obtain ⟨_, a1, a2, a3⟩ := C10R.crash_open_no_panic g hB cap P hP (toXF h) hb c tick order hcf hcb hK htorn k cut
    policy' order' _ r1 r2 r3
  exact ⟨a1, a2, a3⟩

/-- **the `open` after a crash at any point of `open`** -/
theorem crash2_ok {n N : Nat} {l : Log} {img : Image} {b : BufSt} (h : ReachXN g cap P n N l img b)
    (policy : Policy) (order : List Bytes) (lp0 : Log) (e00 : List Effect) (io0 : Nat) (r0 : Recovered)
    (hpre0 : recoverPre g (C02U.flushDisk img b) policy none = .ok (lp0, e00, io0))
    (hrec0 : recover g (C02U.flushDisk img b) policy order none = .ok r0)
    (htorn : H.TornEffs r0.effects) (k cut : Nat) (policy' : Policy) (order' : List Bytes)
    (lp : Log) (e0 : List Effect) (io : Nat)
    (hpre : recoverPre g (crashImage (C02U.flushDisk img b) (toOsOps cap {} r0.effects).2 k cut) policy' none =
      .ok (lp, e0, io))
    (hN : N + gcBufCount g lp0 order + gcBufCount g lp order' ≤ U64MAX) :
    let X := crashImage (C02U.flushDisk img b) (toOsOps cap {} r0.effects).2 k cut
    clipImage g X = X ∧
    recoverP g (clipImage g X) policy' order' none = .ok (recover g X policy' order' none) ∧
    ∀ r, recover g X policy' order' none = .ok r → accessorsPanic r.log.queues = false := by
  intro X
  obtain ⟨_, _, h3⟩ := after_open g cap (flushDisk_keys b (bound h).2) hpre0 hrec0
  obtain ⟨r1, r2, r3⟩ := room (h3 k cut) hpre hN
  obtain ⟨_, a1, a2, a3⟩ := C10R.crash2_open_no_panic g hB cap P hP (toXF h) policy order lp0 e00 io0 r0 hpre0 hrec0
    htorn k cut policy' order' _ r1 r2 r3
  exact ⟨a1, a2, a3⟩

end

/-- what "nothing panics from this state on, as long as the counter fits" means: the accessors of the
    state, every fitting call, every restart, every crash of a call or of `open` followed by `open`;
    `C` is the bound on the counter AFTER the event -/
structure NoPanicFrom (g : Geom) (cap P C : Nat) (n N : Nat) (l : Log) (img : Image) (b : BufSt) : Prop where
  accessors : accessorsPanic l.queues = false
  call : ∀ (c : Call) (tick : Bool) (order : List Bytes), CallFits c → C05B.CallBelow P c →
    P + n + C05B.callRecs c < U64MAX → N + crs (l.step g c tick order).2.2 ≤ C →
    l.stepP g c tick order = .ok (l.step g c tick order)
  reopen : ∀ (policy : Policy) (order : List Bytes) (lp : Log) (e0 : List Effect) (io : Nat),
    recoverPre g (C02U.flushDisk img b) policy none = .ok (lp, e0, io) →
    N + gcBufCount g lp order ≤ C →
    clipImage g (C02U.flushDisk img b) = C02U.flushDisk img b ∧
    recoverP g (clipImage g (C02U.flushDisk img b)) policy order none =
      .ok (recover g (C02U.flushDisk img b) policy order none) ∧
    ∀ r, recover g (C02U.flushDisk img b) policy order none = .ok r → accessorsPanic r.log.queues = false
  crash : b.pend = [] → ∀ (c : Call) (tick : Bool) (order : List Bytes), CallFits c → C05B.CallBelow P c →
    P + n + C05B.callRecs c < U64MAX → C02A.TornStep g l c tick order →
    ∀ (k cut : Nat) (policy' : Policy) (order' : List Bytes) (lp : Log) (e0 : List Effect) (io : Nat),
    recoverPre g (crashImage img (toOsOps cap b (l.step g c tick order).2.2).2 k cut) policy' none =
      .ok (lp, e0, io) →
    N + crs (l.step g c tick order).2.2 + gcBufCount g lp order' ≤ C →
    clipImage g (crashImage img (toOsOps cap b (l.step g c tick order).2.2).2 k cut) =
      crashImage img (toOsOps cap b (l.step g c tick order).2.2).2 k cut ∧
    recoverP g (clipImage g (crashImage img (toOsOps cap b (l.step g c tick order).2.2).2 k cut)) policy' order'
        none =
      .ok (recover g (crashImage img (toOsOps cap b (l.step g c tick order).2.2).2 k cut) policy' order' none) ∧
    ∀ r, recover g (crashImage img (toOsOps cap b (l.step g c tick order).2.2).2 k cut) policy' order' none = .ok r →
      accessorsPanic r.log.queues = false
  crash2 : ∀ (policy : Policy) (order : List Bytes) (lp0 : Log) (e00 : List Effect) (io0 : Nat) (r0 : Recovered),
    recoverPre g (C02U.flushDisk img b) policy none = .ok (lp0, e00, io0) →
    recover g (C02U.flushDisk img b) policy order none = .ok r0 → H.TornEffs r0.effects →
    ∀ (k cut : Nat) (policy' : Policy) (order' : List Bytes) (lp : Log) (e0 : List Effect) (io : Nat),
    recoverPre g (crashImage (C02U.flushDisk img b) (toOsOps cap {} r0.effects).2 k cut) policy' none =
      .ok (lp, e0, io) →
    N + gcBufCount g lp0 order + gcBufCount g lp order' ≤ C →
    clipImage g (crashImage (C02U.flushDisk img b) (toOsOps cap {} r0.effects).2 k cut) =
      crashImage (C02U.flushDisk img b) (toOsOps cap {} r0.effects).2 k cut ∧
    recoverP g (clipImage g (crashImage (C02U.flushDisk img b) (toOsOps cap {} r0.effects).2 k cut)) policy' order'
        none =
      .ok (recover g (crashImage (C02U.flushDisk img b) (toOsOps cap {} r0.effects).2 k cut) policy' order' none) ∧
    ∀ r, recover g (crashImage (C02U.flushDisk img b) (toOsOps cap {} r0.effects).2 k cut) policy' order' none =
        .ok r → accessorsPanic r.log.queues = false

theorem NoPanicFrom.mono {g : Geom} {cap P C C' n N : Nat} {l : Log} {img : Image} {b : BufSt}
    (h : NoPanicFrom g cap P C n N l img b) (hc : C' ≤ C) : NoPanicFrom g cap P C' n N l img b :=
  ⟨h.accessors,
   fun c tick order a1 a2 a3 a4 => h.call c tick order a1 a2 a3 (Nat.le_trans a4 hc),
   fun policy order lp e0 io a1 a2 => h.reopen policy order lp e0 io a1 (Nat.le_trans a2 hc),
   fun hb c tick order a1 a2 a3 a4 k cut policy' order' lp e0 io a5 a6 =>
     h.crash hb c tick order a1 a2 a3 a4 k cut policy' order' lp e0 io a5 (Nat.le_trans a6 hc),
   fun policy order lp0 e00 io0 r0 a1 a2 a3 k cut policy' order' lp e0 io a4 a5 =>
     h.crash2 policy order lp0 e00 io0 r0 a1 a2 a3 k cut policy' order' lp e0 io a4 (Nat.le_trans a5 hc)⟩

/-- **C10 along crash-reachable histories, without a hypothesis on file numbers.** From every state
    of a history of fitting calls, restarts and crashes, with roll-over counter `N`: no call and no
    `open` whose counter afterwards is at most `u64::MAX` panics. -/
theorem no_panic_reach (g : Geom) (hB : g.B ≤ 65542) (cap P : Nat) (hP : P < U64MAX) {n N : Nat} {l : Log}
    {img : Image} {b : BufSt} (h : ReachXN g cap P n N l img b) :
    NoPanicFrom g cap P U64MAX n N l img b :=
  ⟨accessors_ok g hB cap P hP h,
   fun c tick order _ a2 a3 a4 => call_ok g hB cap P hP h c tick order a2 a3 a4,
   fun policy order lp e0 io a1 a2 => reopen_ok g hB cap P hP h policy order lp e0 io a1 a2,
   fun hb c tick order a1 a2 a3 a4 k cut policy' order' lp e0 io a5 a6 =>
     crash_ok g hB cap P hP h hb c tick order a1 a2 a3 a4 k cut policy' order' lp e0 io a5 a6,
   fun policy order lp0 e00 io0 r0 a1 a2 a3 k cut policy' order' lp e0 io a4 a5 =>
     crash2_ok g hB cap P hP h policy order lp0 e00 io0 r0 a1 a2 a3 k cut policy' order' lp e0 io a4 a5⟩

/-- the same with "fewer than 2^62 roll-overs" -/
theorem no_panic_reach_2_62 (g : Geom) (hB : g.B ≤ 65542) (cap P : Nat) (hP : P < U64MAX) {n N : Nat} {l : Log}
    {img : Image} {b : BufSt} (h : ReachXN g cap P n N l img b) :
    NoPanicFrom g cap P (2 ^ 62) n N l img b :=
  (no_panic_reach g hB cap P hP h).mono (by decide)

/-- the same for a `ReachXF` state: it has a counter, and nothing panics while the counter fits -/
theorem no_panic_reachXF (g : Geom) (hB : g.B ≤ 65542) (cap P : Nat) (hP : P < U64MAX) {n : Nat} {l : Log}
    {img : Image} {b : BufSt} (h : ReachXF g cap P n l img b) :
    ∃ N, ReachXN g cap P n N l img b ∧ C10.Bnd N l ∧ KeysLe N img ∧ NoPanicFrom g cap P U64MAX n N l img b := by
  obtain ⟨N, hN⟩ := exists_counter h
  exact ⟨N, hN, (bound hN).1, (bound hN).2, no_panic_reach g hB cap P hP hN⟩

end MRL.C10FN
