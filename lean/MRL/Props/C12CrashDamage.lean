/-
C12 over crash-reachable states and arbitrary in-place damage — "no restart ever exposes a batch
with a hole or a missing tail".

`C02W.ReachXW g cap l img b W`: the states reachable by calls, restarts and crashes at any point,
with the list `W` of every entry handed to the writer by the history. `W₀ := flushDisk img b`.

* `C12_crash_damage`: there is a journal `J` (`L.CInvX g l J W₀`, serialisable, every entry in
  `W`) such that for ANY image `W'` of the same shape satisfying the collision clause
  `Img.NoAccidentalFrameImgX g W₀ W'`, a successful `recover g W' …` returns queues that are the
  replay of a list `L` of delivered entries — a SUB-SEQUENCE of the retained entries of `J`, all
  of them entries of `W` — with `C12C.AllOrSuffix L r.log.queues`: for every delivered batch
  `append name p b` the records of queue `name` are
      (records of earlier delivered appends) ++ b.drop k' ++ (records of later delivered appends),
  the surviving records of the batch being the contiguous suffix `b.drop k'`; `k' = 0` or
  `b.length ≤ k'` (all or nothing) unless a delivered `truncate name` follows; and batches that
  were not delivered contribute nothing.
* `C12_crash_restart`: no damage, no hypothesis: the same for `recover g W₀ …`, `L` being ALL the
  retained entries of `J`.
* `C12_crash_damage_reachX`: the same stated on `C02U.ReachX` (`∃ W`).
* On records, as the property says it (`no_hole`, `undelivered_nothing`, and their instances
  `C12_crash_no_hole`): for a delivered batch `b` whose records are not records of another
  delivered append of the same queue (the incarnation caveat: after `delete`/re-create the same
  position and payload may be appended again), the records of `b` present in the recovered queue
  `q`, IN THE ORDER OF `b`, are exactly a suffix of `b`:
      b.filter (· ∈ plain q) = b.drop k,
  with `k = 0 ∨ b.length ≤ k` when no delivered truncate of the queue follows; and a record that
  no delivered append carries is in no recovered queue.

Ingredients: `C08X.C08_crash_genuine` (with `C02W.reachXW_journal`), `L.read_diskX`,
`C12C.allOrSuffix_of_replay`.
-/
import MRL.Props.C08CrashFull
import MRL.Props.C12Compose

namespace MRL.C12X
open MRL Consts Codec Log Img Rec

/-- what a successful `recover` exposes of the batches: the queues are the replay of a list `L` of
    entries of `W`, a sub-sequence of the retained entries of `J`, and every batch of `L` is
    all-or-suffix -/
def Exposed (J : List JE) (F : Nat) (W : List Entry) (r : Recovered) : Prop :=
  ∃ L : List (Nat × Entry),
    List.Sublist (L.map (·.2)) ((J.filter fun j => decide (F ≤ j.loc)).map (·.e)) ∧
    (∀ fe ∈ L, fe.2 ∈ W) ∧
    replayEntries [] L = some r.log.queues ∧
    C12C.AllOrSuffix L r.log.queues

theorem exposed_of (J : List JE) (F : Nat) (W : List Entry) (hJW : ∀ j ∈ J, j.e ∈ W) (r : Recovered)
    (L : List (Nat × Entry)) (hL1 : replayEntries [] L = some r.log.queues)
    (hL2 : List.Sublist (L.map (·.2)) ((J.filter fun j => decide (F ≤ j.loc)).map (·.e))) :
    Exposed J F W r := by
  refine ⟨L, hL2, ?_, hL1, C12C.allOrSuffix_of_replay L _ hL1⟩
  intro fe hfe
  have : fe.2 ∈ L.map (·.2) := List.mem_map_of_mem (f := (·.2)) hfe
  obtain ⟨j, hj, he⟩ := List.mem_map.mp (hL2.subset this)
  rw [← he]
  exact hJW j (List.mem_filter.mp hj).1

/-- **C12_crash_damage.** -/
theorem C12_crash_damage (g : Geom) (hB : g.B ≤ 65542) (cap : Nat) (l : Log) (img : Image) (b : BufSt)
    (W : List Entry) (h : C02W.ReachXW g cap l img b W) :
    ∃ J : List JE, L.CInvX g l J (C02U.flushDisk img b) ∧ (∀ j ∈ J, C07.WF j.e) ∧ (∀ j ∈ J, j.e ∈ W) ∧
      ∀ W', SameShape (C02U.flushDisk img b) W' → NoAccidentalFrameImgX g (C02U.flushDisk img b) W' →
      ∀ (policy : Policy) (order : List Bytes) (r : Recovered), recover g W' policy order none = .ok r →
        Exposed J (l.files.headD 0) W r := by
  obtain ⟨J, hc, hw, hJW, hall⟩ := C08X.C08_crash_genuine g hB cap l img b W h
  refine ⟨J, hc, hw, hJW, ?_⟩
  intro W' hshape hN policy order r hr
  obtain ⟨⟨_, _, L, hL1, hL2⟩, _⟩ := hall W' hshape hN policy order r hr
  exact exposed_of J _ W hJW r L hL1 hL2

/-- **C12_crash_restart.** No damage, no collision hypothesis. -/
theorem C12_crash_restart (g : Geom) (hB : g.B ≤ 65542) (cap : Nat) (l : Log) (img : Image) (b : BufSt)
    (W : List Entry) (h : C02W.ReachXW g cap l img b W) :
    ∃ J : List JE, L.CInvX g l J (C02U.flushDisk img b) ∧ (∀ j ∈ J, C07.WF j.e) ∧ (∀ j ∈ J, j.e ∈ W) ∧
      ∀ (policy : Policy) (order : List Bytes) (r : Recovered),
        recover g (C02U.flushDisk img b) policy order none = .ok r →
        Exposed J (l.files.headD 0) W r := by
  obtain ⟨J, hc, hw, hJW⟩ := C02W.reachXW_journal g hB cap h
  refine ⟨J, hc, hw, hJW, ?_⟩
  intro policy order r hr
  obtain ⟨init, t, x, res, ais, lead, gs, hx⟩ := hc.disk
  obtain ⟨qs, hrep, _, _⟩ := hc.jinv.rep
  obtain ⟨J', lp, io, _, _, _, _, _, _, _, hrec, _, hJ', _, _, hrel, _⟩ :=
    L.read_diskX g hB hx.diskX hw qs hrep policy
  have hq : r.log.queues = lp.queues := by
    rw [Rec.recover_none, hrec] at hr
    simp only [Except.ok.injEq] at hr
    subst hr
    simp only [runGc_queues]
  have hJ'ge : ∀ j ∈ J', l.files.headD 0 ≤ j.loc := by
    intro j hj
    obtain ⟨b', hb', _, h2, _, _⟩ := hrel.mem_left j hj
    have := (List.mem_filter.mp hb').2
    rw [h2]; simpa using this
  rw [replayJ_ge _ J' [] hJ'ge, ← hq] at hJ'
  have hents : (J'.map fun j => j.e) = (J.filter fun j => decide (l.files.headD 0 ≤ j.loc)).map (·.e) := by
    have : ∀ (A B : List JE), L.All2 (fun a b : JE => a.e = b.e ∧ a.loc = b.loc ∧ l.files.headD 0 ≤ a.attr ∧
        a.attr ≤ a.loc) A B → A.map (·.e) = B.map (·.e) := by
      intro A B hAB
      induction hAB with
      | nil => rfl
      | cons hab _ ih => simp only [List.map_cons, hab.1, ih]
    exact this _ _ hrel
  refine exposed_of J _ W hJW r _ hJ' ?_
  rw [List.map_map]
  show List.Sublist (J'.map fun j => j.e) _
  rw [hents]
  exact List.Sublist.refl _

/-- the same on `C02U.ReachX` -/
theorem C12_crash_damage_reachX (g : Geom) (hB : g.B ≤ 65542) (cap : Nat) (l : Log) (img : Image) (b : BufSt)
    (h : C02U.ReachX g cap l img b) :
    ∃ W : List Entry, C02W.ReachXW g cap l img b W ∧
    ∃ J : List JE, L.CInvX g l J (C02U.flushDisk img b) ∧ (∀ j ∈ J, C07.WF j.e) ∧ (∀ j ∈ J, j.e ∈ W) ∧
      ∀ W', SameShape (C02U.flushDisk img b) W' → NoAccidentalFrameImgX g (C02U.flushDisk img b) W' →
      ∀ (policy : Policy) (order : List Bytes) (r : Recovered), recover g W' policy order none = .ok r →
        Exposed J (l.files.headD 0) W r := by
  obtain ⟨W, hW⟩ := C02W.ReachXW.ofReachX h
  exact ⟨W, hW, C12_crash_damage g hB cap l img b W hW⟩

/-! ### on records: no hole, no missing tail -/

/-- a successful batch has strictly increasing positions, at or above the next position -/
theorem appendAll_sorted (f : Nat) : ∀ (b : List (Nat × Bytes)) {q q' : MemQueue},
    Log.appendAll q f b = some q' →
    (b.map (·.1)).Pairwise (· < ·) ∧ ∀ r ∈ b, q.nextPosition ≤ r.1 := by
  intro b
  induction b with
  | nil => intro q q' _; exact ⟨List.Pairwise.nil, fun _ h => by cases h⟩
  | cons r rs ih =>
    intro q q' h
    obtain ⟨p, pl⟩ := r
    simp only [Log.appendAll] at h
    cases h1 : q.appendRecord f p pl with
    | none => rw [h1] at h; cases h
    | some q1 =>
      rw [h1] at h
      obtain ⟨i1, i2⟩ := ih h
      have hle := appendRecord_some_le h1
      have hn := appendRecord_next h1
      refine ⟨?_, ?_⟩
      · simp only [List.map_cons, List.pairwise_cons]
        refine ⟨?_, i1⟩
        intro x hx
        obtain ⟨r', hr', rfl⟩ := List.mem_map.mp hx
        have := i2 r' hr'
        omega
      · intro r' hr'
        rcases List.mem_cons.mp hr' with rfl | hr'
        · exact hle
        · have := i2 r' hr'; omega

theorem nodup_of_sorted (b : List (Nat × Bytes)) (h : (b.map (·.1)).Pairwise (· < ·)) : b.Nodup := by
  rw [List.pairwise_map] at h
  exact h.imp (fun hab he => by rw [he] at hab; exact Nat.lt_irrefl _ hab)

theorem filter_mem_drop (b : List (Nat × Bytes)) (hn : b.Nodup) (k : Nat) :
    b.filter (fun r => decide (r ∈ b.drop k)) = b.drop k := by
  have hsplit : b = b.take k ++ b.drop k := (List.take_append_drop k b).symm
  have hdis : ∀ r ∈ b.take k, r ∉ b.drop k := by
    rw [hsplit, List.nodup_append] at hn
    intro r h1 h2
    exact hn.2.2 r h1 r h2 rfl
  have e0 : b.filter (fun r => decide (r ∈ b.drop k)) =
      (b.take k ++ b.drop k).filter (fun r => decide (r ∈ b.drop k)) := by
    rw [List.take_append_drop]
  rw [e0, List.filter_append]
  have e1 : (b.take k).filter (fun r => decide (r ∈ b.drop k)) = [] := by
    rw [List.filter_eq_nil_iff]; intro r hr; simpa using hdis r hr
  have e2 : (b.drop k).filter (fun r => decide (r ∈ b.drop k)) = b.drop k := by
    rw [List.filter_eq_self]; intro r hr; simpa using hr
  rw [e1, e2, List.nil_append]

/-- **no hole, no missing tail.** A delivered batch whose records are not records of another
    delivered append of its queue: the records of the batch present in the recovered queue, in
    the order of the batch, are a suffix of it. -/
theorem no_hole (L : List (Nat × Entry)) (qs : MemQueues) (h : replayEntries [] L = some qs)
    (es₁ es₂ : List (Nat × Entry)) (f : Nat) (name : Bytes) (p : Nat) (b : List (Nat × Bytes))
    (hL : L = es₁ ++ [(f, Entry.append name p b)] ++ es₂)
    (hfresh : ∀ r ∈ b, (name, r.1, r.2) ∉ recordsOf es₁ ∧ (name, r.1, r.2) ∉ recordsOf es₂)
    (q : MemQueue) (hq : qs.get? name = some q) :
    ∃ k, b.filter (fun r => decide (r ∈ plain q)) = b.drop k ∧
      (noTrunc name es₂ = true → k = 0 ∨ b.length ≤ k) := by
  subst hL
  -- the batch itself was appended successfully: strictly increasing positions
  have hnodup : b.Nodup := by
    rw [replayEntries_append, replayEntries_append] at h
    cases h1 : replayEntries [] es₁ with
    | none => rw [h1] at h; cases h
    | some qs₁ =>
      rw [h1] at h
      simp only [Option.bind_some, replayEntries] at h
      cases h2 : replayEntry qs₁ f (Entry.append name p b) with
      | none => rw [h2] at h; cases h
      | some qs₂ =>
        obtain ⟨ho, _⟩ := Drop.replayEntry_opQ h2
        simp only [Drop.opQ, Entry.queue] at ho
        cases ha : Log.appendAll ((qs₁.get? name).getD (MemQueue.withNextPosition p)) f b with
        | none => rw [ha] at ho; cases ho
        | some q' => exact nodup_of_sorted b (appendAll_sorted f b ha).1
  obtain ⟨k, hk1, hk2⟩ := C12.batch_suffix_fresh es₁ es₂ f name p b qs q h hq hfresh
  refine ⟨k, ?_, hk2⟩
  rw [← filter_mem_drop b hnodup k]
  apply List.filter_congr
  intro r hr
  simp only [decide_eq_decide]
  exact hk1 r hr

/-- the freshness hypothesis of `no_hole` (the incarnation caveat) cannot be dropped from the
    all-or-nothing clause: after `delete` and re-creation at position 1 the same record `(1, b)`
    is appended again; of the first batch `[(0, a), (1, b)]` exactly the proper suffix `[(1, b)]` is
    (as a value) in the queue, although no truncate follows. -/
example :
    let n : Bytes := [1]
    let bt : List (Nat × Bytes) := [(0, [10]), (1, [11])]
    let es₂ : List (Nat × Entry) := [(0, Entry.delete n 0), (0, Entry.append n 1 [(1, [11])])]
    ∃ qs q, replayEntries [] ([] ++ [(0, Entry.append n 0 bt)] ++ es₂) = some qs ∧
      qs.get? n = some q ∧ noTrunc n es₂ = true ∧
      bt.filter (fun r => decide (r ∈ plain q)) = bt.drop 1 := by
  refine ⟨_, _, rfl, rfl, rfl, ?_⟩
  decide

/-- a record that no delivered append carries is in no recovered queue -/
theorem undelivered_nothing (L : List (Nat × Entry)) (qs : MemQueues) (h : replayEntries [] L = some qs)
    (name : Bytes) (r : Nat × Bytes) (hnot : (name, r.1, r.2) ∉ recordsOf L)
    (q : MemQueue) (hq : qs.get? name = some q) : r ∉ plain q := by
  intro hr
  unfold plain at hr
  obtain ⟨rec, hrec, he⟩ := List.mem_map.mp hr
  have := C08.replay_records_subset L qs h (name, q) (get_mem hq) rec hrec
  rw [← he] at hnot
  exact hnot this

/-- **C12_crash_no_hole.** The record-level statement for every crash-reachable state and every
    admissible damaged image: whatever `recover` returns, each delivered batch (fresh in the sense
    above) shows up in its queue as a suffix of itself, and undelivered records do not show up. -/
theorem C12_crash_no_hole (g : Geom) (hB : g.B ≤ 65542) (cap : Nat) (l : Log) (img : Image) (b : BufSt)
    (W : List Entry) (h : C02W.ReachXW g cap l img b W) :
    ∀ W', SameShape (C02U.flushDisk img b) W' → NoAccidentalFrameImgX g (C02U.flushDisk img b) W' →
    ∀ (policy : Policy) (order : List Bytes) (r : Recovered), recover g W' policy order none = .ok r →
      ∃ L : List (Nat × Entry), (∀ fe ∈ L, fe.2 ∈ W) ∧
        (∀ es₁ es₂ f name p bt, L = es₁ ++ [(f, Entry.append name p bt)] ++ es₂ →
          (∀ rc ∈ bt, (name, rc.1, rc.2) ∉ recordsOf es₁ ∧ (name, rc.1, rc.2) ∉ recordsOf es₂) →
          ∀ q, r.log.queues.get? name = some q →
            ∃ k, bt.filter (fun rc => decide (rc ∈ plain q)) = bt.drop k ∧
              (noTrunc name es₂ = true → k = 0 ∨ bt.length ≤ k)) ∧
        (∀ name rc, (name, rc.1, rc.2) ∉ recordsOf L →
          ∀ q, r.log.queues.get? name = some q → rc ∉ plain q) := by
  obtain ⟨J, _, _, _, hall⟩ := C12_crash_damage g hB cap l img b W h
  intro W' hshape hN policy order r hr
  obtain ⟨L, _, hLW, hL1, _⟩ := hall W' hshape hN policy order r hr
  refine ⟨L, hLW, ?_, ?_⟩
  · intro es₁ es₂ f name p bt hL hfresh q hq
    exact no_hole L _ hL1 es₁ es₂ f name p bt hL hfresh q hq
  · intro name rc hnot q hq
    exact undelivered_nothing L _ hL1 name rc hnot q hq

end MRL.C12X
