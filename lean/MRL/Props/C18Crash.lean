/-
C18, crash leg: crash recovery does not mix queues. Whatever happens to the call in flight —
lost or completed —, every queue it was not addressed to is, after recovery, exactly as before.
-/
import MRL.Proofs.StepCrash

namespace MRL.C18C
open MRL Log C01J C02A Crash

/-- a completed call leaves the queues it is not addressed to alone (model level) -/
theorem step_other_view (g : Geom) (l : Log) (hI : C05.Inv l) (c : Call) (tick : Bool) (order : List Bytes)
    (q : Bytes) (hq : C18.addressed q c = false) :
    C18.view (l.step g c tick order).1 q = C18.view l q := by
  obtain ⟨habs, _, _⟩ := C05.C05_refines g l hI c tick order
  rw [C18.view_abs, C18.view_abs, habs]
  exact C18.spec_other_untouched l.abs c q hq

/-- **C18 across a crash.** -/
theorem C18_crash_other_untouched (g : Geom) (hB : g.B ≤ 65542) (cap : Nat) (l : Log) (J : List JE)
    (img : Image) (b : BufSt) (h : C01R.ReachD g cap l J img b) (hb : b.pend = []) (c : Call) (tick : Bool)
    (order : List Bytes) (hfits : ∀ j ∈ J ++ l.stepJ g c order, C07.WF j.e)
    (htorn : TornStep g l c tick order) (k cut : Nat) (policy' : Policy) (order' : List Bytes) :
    ∃ rec, recover g (crashDisk g cap l img b c tick order k cut) policy' order' none = .ok rec ∧
      ∀ q, C18.addressed q c = false → C18.view rec.log q = C18.view l q := by
  obtain ⟨rec, hrec, _, hI, hv⟩ :=
    crash_views g hB cap l J img b h hb c tick order hfits htorn k cut policy' order'
  refine ⟨rec, hrec, fun q hq => ?_⟩
  rcases hv with hv | hv
  · exact hv q
  · rw [hv q]; exact step_other_view g l hI c tick order q hq

/-- in particular a `persist` in flight changes no queue at all -/
theorem C18_crash_persist (g : Geom) (hB : g.B ≤ 65542) (cap : Nat) (l : Log) (J : List JE)
    (img : Image) (b : BufSt) (h : C01R.ReachD g cap l J img b) (hb : b.pend = []) (a : PersistAction)
    (tick : Bool) (order : List Bytes) (hfits : ∀ j ∈ J ++ l.stepJ g (.persist a) order, C07.WF j.e)
    (htorn : TornStep g l (.persist a) tick order) (k cut : Nat) (policy' : Policy) (order' : List Bytes) :
    ∃ rec, recover g (crashDisk g cap l img b (.persist a) tick order k cut) policy' order' none = .ok rec ∧
      ∀ q, C18.view rec.log q = C18.view l q := by
  obtain ⟨rec, hrec, hq⟩ :=
    C18_crash_other_untouched g hB cap l J img b h hb (.persist a) tick order hfits htorn k cut policy' order'
  exact ⟨rec, hrec, fun q => hq q rfl⟩

end MRL.C18C
