/-
C18 — queues are isolated from one another.
What a queue holds and what the calls addressed to it return depend only on the calls addressed
to that queue: erasing every other call from a history changes neither. Proved on the
specification and transferred to the model through C05.
-/
import MRL.Props.C05
import MRL.Proofs.QSpecStep

namespace MRL.C18
open MRL Log Spec

/-- is the call addressed to queue `q`? (`persist` is addressed to no queue) -/
def addressed (q : Bytes) : Call → Bool
  | .create q' => q' == q
  | .delete q' => q' == q
  | .append q' _ _ => q' == q
  | .truncate q' _ => q' == q
  | .persist _ => false

theorem addressed_iff (q : Bytes) (c : Call) : addressed q c = true ↔ c.queue? = some q := by
  cases c <;> simp [addressed, Call.queue?]

/-! ### specification level -/

/-- (a) a call not addressed to `q` leaves `q` as it is -/
theorem spec_other_untouched (s : Spec) (c : Call) (q : Bytes) (h : addressed q c = false) :
    (Spec.step s c).1.get? q = s.get? q := by
  apply step_get?_other
  intro hc
  rw [← addressed_iff, h] at hc
  cases hc

/-- (b) a call addressed to `q` sees nothing but `q`: same outcome and same resulting `q`
    from any two states that agree on `q` -/
theorem spec_outcome_local (s₁ s₂ : Spec) (c : Call) (q : Bytes)
    (hq : s₁.get? q = s₂.get? q) (h : addressed q c = true) :
    (Spec.step s₁ c).2 = (Spec.step s₂ c).2 ∧
    (Spec.step s₁ c).1.get? q = (Spec.step s₂ c).1.get? q := by
  rw [addressed_iff] at h
  cases c with
  | persist a => cases h
  | create q' =>
    simp only [Call.queue?, Option.some.injEq] at h; subst h
    simp only [Spec.step, hq]
    cases s₂.get? q' with
    | none => simp only [get?_set_same]; exact ⟨trivial, trivial⟩
    | some v => exact ⟨rfl, hq⟩
  | delete q' =>
    simp only [Call.queue?, Option.some.injEq] at h; subst h
    simp only [Spec.step, hq]
    cases s₂.get? q' with
    | none => exact ⟨rfl, hq⟩
    | some v => simp only [get?_remove_same]; exact ⟨trivial, trivial⟩
  | truncate q' p =>
    simp only [Call.queue?, Option.some.injEq] at h; subst h
    simp only [Spec.step, hq]
    cases s₂.get? q' with
    | none => exact ⟨rfl, hq⟩
    | some v => simp only [get?_set_same]; exact ⟨trivial, trivial⟩
  | append q' pos? pls =>
    simp only [Call.queue?, Option.some.injEq] at h; subst h
    simp only [Spec.step, hq]
    cases s₂.get? q' with
    | none => exact ⟨rfl, hq⟩
    | some v =>
      simp only
      split
      · split
        · exact ⟨rfl, hq⟩
        · split
          · exact ⟨rfl, hq⟩
          · split
            · exact ⟨rfl, hq⟩
            · simp only [get?_set_same]; exact ⟨trivial, trivial⟩
      · split
        · exact ⟨rfl, hq⟩
        · simp only [get?_set_same]; exact ⟨trivial, trivial⟩

/-- the outcomes of the calls addressed to `q`, out of the outcomes `os` of the history `cs` -/
def qOutcomes {α : Type} (q : Bytes) (cs : List Call) (os : List α) : List α :=
  ((cs.zip os).filter (fun x => addressed q x.1)).map (·.2)

theorem qOutcomes_cons {α : Type} (q : Bytes) (c : Call) (cs : List Call) (o : α) (os : List α) :
    qOutcomes q (c :: cs) (o :: os) =
      if addressed q c then o :: qOutcomes q cs os else qOutcomes q cs os := by
  unfold qOutcomes
  simp only [List.zip_cons_cons, List.filter_cons]
  split <;> rfl

theorem qOutcomes_map {α β : Type} (f : α → β) (q : Bytes) (cs : List Call) (os : List α) :
    qOutcomes q cs (os.map f) = (qOutcomes q cs os).map f := by
  induction cs generalizing os with
  | nil => simp [qOutcomes]
  | cons c cs ih =>
    cases os with
    | nil => simp [qOutcomes]
    | cons o os =>
      rw [List.map_cons, qOutcomes_cons, qOutcomes_cons, ih]
      split <;> simp

/-- (c) **C18 on the specification.** Running the whole history `cs`, or only its calls
    addressed to `q`, from states that agree on `q`: `q` ends up the same, and the calls
    addressed to `q` return the same outcomes. -/
theorem C18_spec_projection (q : Bytes) (cs : List Call) : ∀ (s₁ s₂ : Spec),
    s₁.get? q = s₂.get? q →
    (Spec.run s₁ cs).get? q = (Spec.run s₂ (cs.filter (addressed q))).get? q ∧
    qOutcomes q cs (Spec.outcomes s₁ cs) = Spec.outcomes s₂ (cs.filter (addressed q)) := by
  induction cs with
  | nil => intro s₁ s₂ h; exact ⟨h, rfl⟩
  | cons c cs ih =>
    intro s₁ s₂ h
    cases ha : addressed q c with
    | true =>
      obtain ⟨ho, hs⟩ := spec_outcome_local s₁ s₂ c q h ha
      obtain ⟨i1, i2⟩ := ih _ _ hs
      simp only [List.filter_cons, ha, if_true, Spec.run, Spec.outcomes, qOutcomes_cons]
      exact ⟨i1, by rw [i2, ho]⟩
    | false =>
      have hs := spec_other_untouched s₁ c q ha
      obtain ⟨i1, i2⟩ := ih (Spec.step s₁ c).1 s₂ (hs.trans h)
      simp only [List.filter_cons, ha, Bool.false_eq_true, if_false, Spec.run, Spec.outcomes,
        qOutcomes_cons]
      exact ⟨i1, i2⟩

/-! ### transfer to the model -/

/-- the abstract content of queue `q` in a log -/
def view (l : Log) (q : Bytes) : Option SQueue := (l.queues.get? q).map MemQueue.abs

theorem view_abs (l : Log) (q : Bytes) : view l q = l.abs.get? q := (C05.abs_get_eq l q).symm

/-- (d) **C18 on the model.** `l₁` runs the history `cs₁`; `l₂` (possibly another log, with
    another geometry, other clock bits and hash-map orders) runs a history `cs₂` whose calls are
    those of `cs₁` addressed to `q`. If the two logs agree on `q` at the start, they agree on `q`
    at the end, and the calls addressed to `q` return the same logical outcomes. -/
theorem C18_model_projection (g₁ g₂ : Geom) (l₁ l₂ : Log) (h₁ : C05.Inv l₁) (h₂ : C05.Inv l₂)
    (q : Bytes) (cs₁ cs₂ : List (Call × Bool × List Bytes))
    (hcs : cs₂.map (·.1) = (cs₁.map (·.1)).filter (addressed q))
    (hq : view l₁ q = view l₂ q) :
    view (C05.run g₁ l₁ cs₁) q = view (C05.run g₂ l₂ cs₂) q ∧
    (qOutcomes q (cs₁.map (·.1)) (C05.outcomes g₁ l₁ cs₁)).map Outcome.logical =
      (C05.outcomes g₂ l₂ cs₂).map Outcome.logical := by
  obtain ⟨a1, o1, _⟩ := C05.C05_history g₁ cs₁ l₁ h₁
  obtain ⟨a2, o2, _⟩ := C05.C05_history g₂ cs₂ l₂ h₂
  rw [view_abs, view_abs] at hq
  obtain ⟨p1, p2⟩ := C18_spec_projection q (cs₁.map (·.1)) l₁.abs l₂.abs hq
  rw [view_abs, view_abs, a1, a2, o2, hcs, ← qOutcomes_map, o1]
  exact ⟨p1, p2⟩

/-- the special case asked for: the second run is the first one with the other calls erased -/
theorem C18_model_projection_filter (g : Geom) (l₁ l₂ : Log) (h₁ : C05.Inv l₁) (h₂ : C05.Inv l₂)
    (q : Bytes) (cs : List (Call × Bool × List Bytes)) (hq : view l₁ q = view l₂ q) :
    view (C05.run g l₁ cs) q = view (C05.run g l₂ (cs.filter (fun x => addressed q x.1))) q ∧
    (qOutcomes q (cs.map (·.1)) (C05.outcomes g l₁ cs)).map Outcome.logical =
      (C05.outcomes g l₂ (cs.filter (fun x => addressed q x.1))).map Outcome.logical := by
  apply C18_model_projection g g l₁ l₂ h₁ h₂ q cs _ _ hq
  rw [List.filter_map]
  rfl

/-! ### non-vacuity -/

/-- a two-queue state and a history with interleaved traffic -/
def exSpec : Spec := [([1], { next := 7, recs := [(5, [0]), (6, [1])] }), ([2], {})]
def exCalls : List Call :=
  [.append [2] none [[4]], .append [1] none [[9]], .delete [2], .truncate [1] 5, .create [3],
   .persist .flush]

/-- interleaved traffic on queue `[2]` (including its deletion) is invisible from queue `[1]` -/
example :
    exCalls.filter (addressed [1]) = [.append [1] none [[9]], .truncate [1] 5] ∧
    (Spec.run exSpec exCalls).get? [1] = some { next := 8, recs := [(6, [1]), (7, [9])] } ∧
    (Spec.run exSpec (exCalls.filter (addressed [1]))).get? [1] =
      some { next := 8, recs := [(6, [1]), (7, [9])] } ∧
    qOutcomes [1] exCalls (Spec.outcomes exSpec exCalls) = [.appended (some 7), .truncated 1] ∧
    Spec.run exSpec exCalls ≠ Spec.run exSpec (exCalls.filter (addressed [1])) :=
  ⟨rfl, by decide, by decide, by decide, by decide⟩

/-- the model theorem applies to the concrete log of C05 -/
example (g : Geom) (cs : List (Call × Bool × List Bytes)) :
    view (C05.run g C05.exLog cs) [1] =
      view (C05.run g C05.exLog (cs.filter (fun x => addressed [1] x.1))) [1] :=
  (C18_model_projection_filter g _ _ C05.exLog_Inv C05.exLog_Inv [1] cs rfl).1

end MRL.C18
