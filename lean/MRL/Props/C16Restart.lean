/-
C16, restart leg: memory accounting survives a restart. From C01 (end to end) every queue comes
back with the same records, hence the same `size()`; the total `usedBytes` is a sum over an
association list whose order may differ after a restart, so it is compared through a
permutation-invariant argument on maps with distinct keys.
-/
import MRL.Proofs.StepRestart
import MRL.Proofs.RecBatch
import MRL.Props.C16
import MRL.Props.C08

namespace MRL.C16R
open MRL Log C01R C01J Restart

/-- `size()` only looks at the records -/
theorem size_of_recs (msz : Nat) (a b : MemQueue) (h : a.recs = b.recs) : a.size msz = b.size msz := by
  unfold MemQueue.size; rw [h]

/-- **Per queue**: after a restart every queue has the same `size()`, and no other queue exists. -/
theorem C16_restart_queue (g : Geom) (hB : g.B ≤ 65542) (cap : Nat) (l : Log) (J : List JE) (img : Image)
    (b : BufSt) (h : ReachD g cap l J img b) (hfits : ∀ j ∈ J, C07.WF j.e) (policy : Policy)
    (order : List Bytes) (r : Recovered) (hr : recover g (flushDisk img b) policy order none = .ok r)
    (msz : Nat) (name : Bytes) :
    (r.log.queues.get? name).map (MemQueue.size msz) = (l.queues.get? name).map (MemQueue.size msz) := by
  obtain ⟨r', hr', hq⟩ := C01_restart_exact g hB cap l J img b h hfits policy order
  rw [hr] at hr'
  simp only [Except.ok.injEq] at hr'
  subst hr'
  have := qsEquiv_iff.mp hq name
  cases h1 : r.log.queues.get? name <;> cases h2 : l.queues.get? name <;> rw [h1, h2] at this
  · exact this.elim
  · exact this.elim
  · simp only [Option.map_some, Option.some.injEq]; exact size_of_recs msz _ _ this.1

/-! ### sums over association lists with distinct keys -/

section
variable (f : MemQueue → Nat)

def cost (kv : Bytes × MemQueue) : Nat := kv.1.length + f kv.2

theorem get_none_of_not_mem (qs : MemQueues) (n : Bytes) (h : n ∉ qs.map (·.1)) : qs.get? n = none := by
  have hc : qs.contains n = false := by
    cases hcc : qs.contains n with
    | false => rfl
    | true => exact absurd ((contains_iff_mem_keys qs n).mp hcc) h
  rw [contains_eq_isSome] at hc
  cases hg : qs.get? n with
  | none => rfl
  | some x => rw [hg] at hc; cases hc

theorem remove_of_not_mem (qs : MemQueues) (n : Bytes) (h : n ∉ qs.map (·.1)) : qs.remove n = qs := by
  unfold MemQueues.remove
  rw [List.filter_eq_self]
  intro kv hkv
  simp only [bne_iff_ne, ne_eq]
  intro e
  exact h (List.mem_map.mpr ⟨kv, hkv, e⟩)

theorem sum_remove (qs : MemQueues) (hnd : (qs.map (·.1)).Nodup) (k : Bytes) (v : MemQueue)
    (hg : qs.get? k = some v) :
    (qs.map (cost f)).sum = cost f (k, v) + ((qs.remove k).map (cost f)).sum := by
  induction qs with
  | nil => cases hg
  | cons kv qs ih =>
    obtain ⟨k0, v0⟩ := kv
    simp only [List.map_cons, List.nodup_cons] at hnd
    by_cases hk : k0 = k
    · subst hk
      have hv : v0 = v := by simpa [MemQueues.get?] using hg
      subst hv
      have : MemQueues.remove ((k0, v0) :: qs) k0 = qs := by
        have := remove_of_not_mem qs k0 hnd.1
        simp only [MemQueues.remove, List.filter_cons, bne_self_eq_false, Bool.false_eq_true, if_false] at this ⊢
        exact this
      rw [this]; simp
    · have hg' : MemQueues.get? qs k = some v := by
        simpa [MemQueues.get?, List.find?_cons, hk] using hg
      have hrem : MemQueues.remove ((k0, v0) :: qs) k = (k0, v0) :: MemQueues.remove qs k := by
        simp [MemQueues.remove, hk]
      rw [hrem]
      simp only [List.map_cons, List.sum_cons, ih hnd.2 hg']
      omega

/-- two maps with distinct keys that agree, name by name, on `f`: same total cost -/
theorem sum_congr (a : MemQueues) : ∀ b : MemQueues, (a.map (·.1)).Nodup → (b.map (·.1)).Nodup →
    (∀ n, (a.get? n).map f = (b.get? n).map f) → (a.map (cost f)).sum = (b.map (cost f)).sum := by
  induction a with
  | nil =>
    intro b _ _ h
    cases b with
    | nil => rfl
    | cons kv b =>
      have := h kv.1
      simp [MemQueues.get?] at this
  | cons kv a ih =>
    intro b ha hb h
    obtain ⟨k, v⟩ := kv
    simp only [List.map_cons, List.nodup_cons] at ha
    have hk := h k
    have hak : MemQueues.get? ((k, v) :: a) k = some v := by simp [MemQueues.get?]
    rw [hak] at hk
    cases hbk : b.get? k with
    | none => rw [hbk] at hk; cases hk
    | some v' =>
      rw [hbk] at hk
      simp only [Option.map_some, Option.some.injEq] at hk
      rw [sum_remove f b hb k v' hbk]
      have hrec := ih (b.remove k) ha.2 (remove_keys_nodup b k hb) (by
        intro n
        by_cases hn : n = k
        · subst hn
          rw [get_none_of_not_mem a n ha.1, Rec.get_remove_same]
        · rw [Rec.get_remove_other b k n hn, ← h n]
          have : MemQueues.get? ((k, v) :: a) n = MemQueues.get? a n := by
            simp [MemQueues.get?, Ne.symm hn]
          rw [this])
      simp only [List.map_cons, List.sum_cons, hrec, cost, hk]

end

/-- **Total**: `memory_used_bytes` is the same after a restart. -/
theorem C16_restart_used (g : Geom) (hB : g.B ≤ 65542) (cap : Nat) (l : Log) (J : List JE) (img : Image)
    (b : BufSt) (h : ReachD g cap l J img b) (hfits : ∀ j ∈ J, C07.WF j.e) (policy : Policy)
    (order : List Bytes) (r : Recovered) (hr : recover g (flushDisk img b) policy order none = .ok r)
    (msz : Nat) : MemQueues.usedBytes msz r.log.queues = MemQueues.usedBytes msz l.queues := by
  have hIr := C08.recover_sorted g _ policy order none r hr
  have hIl : C05.Inv l := Reach.inv (s := ⟨l, J, img, b⟩) hB h hfits
  exact sum_congr (MemQueue.size msz) r.log.queues l.queues hIr.1 hIl.1
    (C16_restart_queue g hB cap l J img b h hfits policy order r hr msz)

/-- on system states -/
theorem reopens_used {g : Geom} {cap : Nat} (hB : g.B ≤ 65542) {s s' : Sys} (h : Reach g cap s) (hwf : WFJ s)
    {policy : Policy} {order : List Bytes} (hr : Reopens g cap s policy order s') (msz : Nat) :
    MemQueues.usedBytes msz s'.l.queues = MemQueues.usedBytes msz s.l.queues := by
  obtain ⟨lp, e0, io, r, _, hrec, rfl⟩ := hr
  exact C16_restart_used g hB cap s.l s.J s.img s.b h hwf policy order r hrec msz

/-- non-vacuity of the order-independence: the same map listed in two orders, with different
    `start` fields, has the same `usedBytes` -/
example : MemQueues.usedBytes 24 [([1], { start := 0, recs := [⟨3, [7, 7], none⟩] }), ([2, 2], {})] =
    MemQueues.usedBytes 24 [([2, 2], { start := 9, recs := [] }), ([1], { start := 3, recs := [⟨3, [7, 7], none⟩] })] := by
  decide

end MRL.C16R
