/-
C14, restart leg: the persist policy does not change the state after a clean restart. The same
calls under two policies and two clocks leave the same flushed disk (`C14_history_same_image`),
`recover` is a function of the disk, and it uses the policy it is given only to fill the `policy`
field of the log it returns.
-/
import MRL.Proofs.StepRestart
import MRL.Props.C14

namespace MRL.C14R
open MRL Log C01R Restart C14

/-- `Recovered` with another policy in its log -/
def withPolicyR (r : Recovered) (p : Policy) : Recovered := { r with log := withPolicy r.log p }

theorem recoverPre_policy (g : Geom) (img : Image) (p₁ p₂ : Policy) (fa : Option Nat) :
    recoverPre g img p₂ fa =
      match recoverPre g img p₁ fa with
      | .error e => .error e
      | .ok (l, e0, io) => .ok (withPolicy l p₂, e0, io) := by
  rcases hb : blocksOf g (prepareImage g img).1 1 with ⟨bs, trail⟩
  cases bs with
  | nil => rw [Rec.recoverPre_nil g img p₁ fa trail hb, Rec.recoverPre_nil g img p₂ fa trail hb]
  | cons b0 rest =>
    rw [Rec.recoverPre_cons g img p₁ fa b0 rest trail hb, Rec.recoverPre_cons g img p₂ fa b0 rest trail hb]
    split
    · rfl
    · cases scanBlocks g fa trail b0.cost b0 0 rest with
      | none => rfl
      | some x =>
        obtain ⟨evs, e, io⟩ := x
        simp only [Rec.finishPre]
        cases replay [] (assemble { within := false, buf := [], attr := b0.file } evs) with
        | none => rfl
        | some qs => rfl

/-- **`recover` depends on the policy only through the `policy` field of the returned log**:
    same success/failure, same effects, same I/O count, same files, cursor and queues. -/
theorem recover_policy_irrelevant (g : Geom) (img : Image) (p₁ p₂ : Policy) (order : List Bytes)
    (fa : Option Nat) :
    recover g img p₂ order fa =
      match recover g img p₁ order fa with
      | .error e => .error e
      | .ok r => .ok (withPolicyR r p₂) := by
  rw [Rec.recover_eq g img p₂, Rec.recover_eq g img p₁, recoverPre_policy g img p₁ p₂ fa]
  cases recoverPre g img p₁ fa with
  | error e => rfl
  | ok x =>
    obtain ⟨l, e0, io⟩ := x
    simp only [runGc_policy]
    split <;> rfl

/-- the disk a history leaves behind: drive the effects through the `BufWriter` from an empty
    buffer, then drop (flush) it -/
def diskAfter (cap : Nat) (img : Image) (es : List Effect) : Image :=
  flushDisk (applyOsOps img (toOsOps cap {} es).2) (toOsOps cap {} es).1

theorem diskAfter_eq (cap : Nat) (img : Image) (es : List Effect) :
    diskAfter cap img es = applyOsOps img (toOsOps cap {} (es ++ [.flush])).2 := by
  unfold diskAfter flushDisk G.flushDisk
  rw [Buf.toOsOps_append, Buf.applyOsOps_append]
  simp [toOsOps, bufStep]

/-- **C14 across a restart.** From the same disk and the same log up to the policy, the same
    calls under two policies and two clocks, then a clean restart: the two disks are the same, so
    the two restarts (with the same reopening policy) return literally the same result; with two
    different reopening policies, the same result up to the policy field. -/
theorem C14_restart (g : Geom) (cs : List (Call × List Bytes)) (l : Log) (p₁ p₂ : Policy)
    (ticks₁ ticks₂ : List Bool) (cap : Nat) (img : Image) (order : List Bytes) (fa : Option Nat) :
    let d₁ := diskAfter cap img (run g (withPolicy l p₁) cs ticks₁).2.2
    let d₂ := diskAfter cap img (run g (withPolicy l p₂) cs ticks₂).2.2
    d₁ = d₂ ∧
    (∀ p, recover g d₁ p order fa = recover g d₂ p order fa) ∧
    (∀ q₁ q₂, recover g d₂ q₂ order fa =
      match recover g d₁ q₁ order fa with
      | .error e => .error e
      | .ok r => .ok (withPolicyR r q₂)) := by
  intro d₁ d₂
  have hd : d₁ = d₂ := by
    simp only [d₁, d₂, diskAfter_eq]
    exact C14_history_same_image g cs l p₁ p₂ ticks₁ ticks₂ cap img
  refine ⟨hd, fun p => by rw [hd], fun q₁ q₂ => ?_⟩
  rw [hd]
  exact recover_policy_irrelevant g d₂ q₁ q₂ order fa

/-- non-vacuity: the two policies really produce different effect lists (C14's example) while
    the theorem above applies to them -/
example : let es₁ := (run C14.g16 (withPolicy C14.l0 .doNothing) [(.append [1] none [[7]], [])] [false]).2.2
    let es₂ := (run C14.g16 (withPolicy C14.l0 (.always .flushAndFsync)) [(.append [1] none [[7]], [])] [true]).2.2
    diskAfter 8 [(0, zeros 64)] es₁ = diskAfter 8 [(0, zeros 64)] es₂ :=
  (C14_restart C14.g16 [(.append [1] none [[7]], [])] C14.l0 .doNothing (.always .flushAndFsync)
    [false] [true] 8 [(0, zeros 64)] [] none).1

end MRL.C14R
