/-
C13 — rejected and no-op calls leave no trace.
Every rejected / acknowledged-no-op call shape returns the log unchanged, the corresponding
outcome (with `wal_bytes_written = 0`) and **no** file-system effect; therefore the disk, the
`BufWriter` and every later restart are untouched.
-/
import MRL.Model.Disk

namespace MRL.C13
open MRL Log

variable (g : Geom) (l : Log) (tick : Bool) (order : List Bytes)

theorem create_existing (q : Bytes) (h : l.queues.contains q = true) :
    step g l (.create q) tick order = (l, .alreadyExists, []) := by
  simp [step, h]

theorem delete_missing (q : Bytes) (h : l.queues.get? q = none) :
    step g l (.delete q) tick order = (l, .missingQueue, []) := by
  simp [step, h]

theorem truncate_missing (q : Bytes) (p : Nat) (h : l.queues.get? q = none) :
    step g l (.truncate q p) tick order = (l, .missingQueue, []) := by
  simp [step, h]

theorem append_missing (q : Bytes) (pos : Option Nat) (pls : List Bytes) (h : l.queues.get? q = none) :
    step g l (.append q pos pls) tick order = (l, .missingQueue, []) := by
  simp [step, h]

/-- retry of the last position: acknowledged, nothing written -/
theorem append_retry (q : Bytes) (mq : MemQueue) (p : Nat) (pls : List Bytes)
    (h : l.queues.get? q = some mq) (hp : p + 1 = mq.nextPosition) :
    step g l (.append q (some p) pls) tick order = (l, .appended none 0, []) := by
  simp [step, h, hp]

/-- an older explicit position: `Past`, nothing written -/
theorem append_past (q : Bytes) (mq : MemQueue) (p : Nat) (pls : List Bytes)
    (h : l.queues.get? q = some mq) (hp : p + 1 < mq.nextPosition) :
    step g l (.append q (some p) pls) tick order = (l, .past, []) := by
  have h1 : ¬ (p + 1 = mq.nextPosition) := by omega
  have h2 : p < mq.nextPosition := by omega
  simp [step, h, h1, h2]

/-- an empty batch that passes the position checks: acknowledged, nothing written -/
theorem append_empty_batch (q : Bytes) (mq : MemQueue) (pos : Option Nat)
    (h : l.queues.get? q = some mq) (hp : ∀ p, pos = some p → mq.nextPosition ≤ p) :
    step g l (.append q pos []) tick order = (l, .appended none 0, []) := by
  cases pos with
  | none => simp [step, h]
  | some p =>
    have := hp p rfl
    have h1 : ¬ (p + 1 = mq.nextPosition) := by omega
    have h2 : ¬ (p < mq.nextPosition) := by omega
    simp [step, h, h1, h2]

/-- The complete list of rejected / no-op shapes of the property. -/
inductive Rejected (l : Log) : Call → Outcome → Prop
  | createExisting (q) : l.queues.contains q = true → Rejected l (.create q) .alreadyExists
  | deleteMissing (q) : l.queues.get? q = none → Rejected l (.delete q) .missingQueue
  | truncateMissing (q p) : l.queues.get? q = none → Rejected l (.truncate q p) .missingQueue
  | appendMissing (q pos pls) : l.queues.get? q = none → Rejected l (.append q pos pls) .missingQueue
  | appendRetry (q mq p pls) : l.queues.get? q = some mq → p + 1 = mq.nextPosition →
      Rejected l (.append q (some p) pls) (.appended none 0)
  | appendPast (q mq p pls) : l.queues.get? q = some mq → p + 1 < mq.nextPosition →
      Rejected l (.append q (some p) pls) .past
  | appendEmpty (q mq pos) : l.queues.get? q = some mq → (∀ p, pos = some p → mq.nextPosition ≤ p) →
      Rejected l (.append q pos []) (.appended none 0)

/-- **C13.** A rejected or no-op call returns the log unchanged, reports its outcome with zero
    WAL bytes and emits no file-system effect whatsoever. -/
theorem C13_no_trace (c : Call) (out : Outcome) (h : Rejected l c out) :
    step g l c tick order = (l, out, []) := by
  cases h with
  | createExisting q h => exact create_existing g l tick order q h
  | deleteMissing q h => exact delete_missing g l tick order q h
  | truncateMissing q p h => exact truncate_missing g l tick order q p h
  | appendMissing q pos pls h => exact append_missing g l tick order q pos pls h
  | appendRetry q mq p pls h hp => exact append_retry g l tick order q mq p pls h hp
  | appendPast q mq p pls h hp => exact append_past g l tick order q mq p pls h hp
  | appendEmpty q mq pos h hp => exact append_empty_batch g l tick order q mq pos h hp

/-- No effect means: nothing reaches the `BufWriter`, nothing reaches the OS, the image an
    `open` would see is the same; hence (by determinism of `recover`) every later restart too. -/
theorem C13_disk_untouched (c : Call) (out : Outcome) (h : Rejected l c out)
    (cap : Nat) (b : BufSt) (img : Image) :
    let es := (step g l c tick order).2.2
    toOsOps cap b es = (b, []) ∧ applyOsOps img (toOsOps cap b es).2 = img := by
  rw [C13_no_trace g l tick order c out h]
  simp [toOsOps, applyOsOps]

/-- reported `wal_bytes_written` of a rejected/no-op call is 0 -/
def walBytes : Outcome → Nat
  | .created n | .deleted n | .appended _ n | .truncated _ n => n
  | _ => 0

theorem C13_zero_bytes (c : Call) (out : Outcome) (h : Rejected l c out) : walBytes out = 0 := by
  cases h <;> rfl

/-- non-vacuity: a concrete log on which each shape is reachable -/
example : ∃ l : Log, Rejected l (.create [1]) .alreadyExists ∧ Rejected l (.delete [2]) .missingQueue ∧
    Rejected l (.append [1] (some 4) [[9]]) (.appended none 0) ∧ Rejected l (.append [1] (some 2) [[9]]) .past := by
  refine ⟨{ files := [0], cur := 0, off := 0, policy := .doNothing,
            queues := [([1], { start := 5, recs := [] })] }, ?_, ?_, ?_, ?_⟩
  · exact .createExisting _ (by decide)
  · exact .deleteMissing _ (by decide)
  · exact .appendRetry _ { start := 5, recs := [] } _ _ (by decide) (by decide)
  · exact .appendPast _ { start := 5, recs := [] } _ _ (by decide) (by decide)

end MRL.C13
