/-
C14: the persist policy never changes logical behaviour. Two logs that differ only in their
policy answer every call with the same outcome (byte counts included), stay equal up to the policy
field, and emit the same effects once `flush`/`fsync` are erased — whatever the clock says.
-/
import MRL.Proofs.StepLemmas
import MRL.Proofs.StepBuf

namespace MRL.C14
open MRL MRL.Log MRL.Step

/-! ### Definitions -/

def isSyncEff : Effect → Bool
  | .flush | .fsyncFile _ | .fsyncDir => true
  | _ => false

/-- drop `flush`, `fsync(file)`, `fsync(dir)` -/
def eraseSync (es : List Effect) : List Effect := es.filter (fun e => !isSyncEff e)

def withPolicy (l : Log) (p : Policy) : Log := { l with policy := p }

@[simp] theorem withPolicy_files (l : Log) (p : Policy) : (withPolicy l p).files = l.files := rfl
@[simp] theorem withPolicy_cur (l : Log) (p : Policy) : (withPolicy l p).cur = l.cur := rfl
@[simp] theorem withPolicy_off (l : Log) (p : Policy) : (withPolicy l p).off = l.off := rfl
@[simp] theorem withPolicy_queues (l : Log) (p : Policy) : (withPolicy l p).queues = l.queues := rfl
@[simp] theorem withPolicy_policy (l : Log) (p : Policy) : (withPolicy l p).policy = p := rfl
@[simp] theorem withPolicy_withPolicy (l : Log) (p q : Policy) : withPolicy (withPolicy l p) q = withPolicy l q := rfl
theorem withPolicy_self (l : Log) : withPolicy l l.policy = l := rfl

@[simp] theorem eraseSync_nil : eraseSync [] = [] := rfl
@[simp] theorem eraseSync_append (a b : List Effect) : eraseSync (a ++ b) = eraseSync a ++ eraseSync b := by
  simp [eraseSync]

@[simp] theorem eraseSync_persist (l : Log) (a : PersistAction) : eraseSync (l.persistEffects a) = [] := by
  cases a <;> rfl

@[simp] theorem eraseSync_policy (l : Log) (tick : Bool) : eraseSync (l.policyEffects tick) = [] := by
  rcases policyEffects_isSync l tick with h | ⟨a, h⟩ <;> rw [h]
  · rfl
  · exact eraseSync_persist l a

theorem persistEffects_withPolicy (l : Log) (p : Policy) (a : PersistAction) :
    (withPolicy l p).persistEffects a = l.persistEffects a := rfl

/-! ### The write path ignores the policy -/

section
variable (g : Geom)

theorem writeBuf_policy (l : Log) (p : Policy) (buf : Bytes) :
    writeBuf g (withPolicy l p) buf = (withPolicy (writeBuf g l buf).1 p, (writeBuf g l buf).2) := by
  by_cases h1 : buf.isEmpty = true
  · simp [writeBuf, h1]
  · by_cases h2 : l.off + buf.length > g.fileBytes
    · cases h3 : nextFile l.files l.cur <;> simp [writeBuf, h1, h2, h3, withPolicy]
    · simp [writeBuf, h1, h2, withPolicy]

theorem writeBufs_policy (p : Policy) (bufs : List Bytes) :
    ∀ l : Log, writeBufs g (withPolicy l p) bufs = (withPolicy (writeBufs g l bufs).1 p, (writeBufs g l bufs).2) := by
  induction bufs with
  | nil => intro l; rfl
  | cons b bs ih =>
    intro l
    rw [writeBufs_cons, writeBufs_cons, writeBuf_policy, ih]

theorem writeEntry_policy (l : Log) (p : Policy) (e : Entry) :
    (withPolicy l p).writeEntry g e =
      (withPolicy (l.writeEntry g e).1 p, (l.writeEntry g e).2.1, (l.writeEntry g e).2.2) := by
  rw [writeEntry_eq, writeEntry_eq]
  show (_, _, totalLen (entryBufs g l e)) = _
  rw [show entryBufs g (withPolicy l p) e = entryBufs g l e from rfl, writeBufs_policy]

theorem writeTouches_policy (p : Policy) (names : List Bytes) :
    ∀ l : Log, writeTouches g (withPolicy l p) names =
      (withPolicy (writeTouches g l names).1 p, (writeTouches g l names).2.1, (writeTouches g l names).2.2) := by
  induction names with
  | nil => intro l; rfl
  | cons n ns ih =>
    intro l
    rw [writeTouches_cons, writeTouches_cons,
      show touchEntry (withPolicy l p) n = touchEntry l n from rfl, writeEntry_policy, ih]

theorem runGc_policy (l : Log) (p : Policy) (order : List Bytes) :
    runGc g (withPolicy l p) order =
      (withPolicy (runGc g l order).1 p, (runGc g l order).2.1, (runGc g l order).2.2) := by
  unfold runGc
  simp only [withPolicy_files, withPolicy_cur, withPolicy_queues,
    show ∀ f f', (withPolicy l p).canDelete f f' = l.canDelete f f' from fun _ _ => rfl]
  split
  · split
    · rw [writeTouches_policy]
      rfl
    · rfl
  · rfl

end

/-! ### One call -/

variable (g : Geom)

theorem gc_tail (X : Log) (p : Policy) (order : List Bytes) :
    (runGc g (withPolicy X p) order).1 = withPolicy (runGc g X order).1 p ∧
    (runGc g (withPolicy X p) order).2.2 = (runGc g X order).2.2 ∧
    (runGc g (withPolicy X p) order).2.1 = (runGc g X order).2.1 := by
  rw [runGc_policy]
  exact ⟨rfl, rfl, rfl⟩

/-- changing the policy (and the clock) changes the state only in the policy field, leaves the
    outcome alone and changes the effects only in `flush`/`fsync` -/
theorem step_policy (l : Log) (p : Policy) (c : Call) (t t' : Bool) (order : List Bytes) :
    (step g (withPolicy l p) c t' order).1 = withPolicy (step g l c t order).1 p ∧
    (step g (withPolicy l p) c t' order).2.1 = (step g l c t order).2.1 ∧
    eraseSync (step g (withPolicy l p) c t' order).2.2 = eraseSync (step g l c t order).2.2 := by
  cases c with
  | persist a => exact ⟨rfl, rfl, by simp [step]⟩
  | create q =>
    by_cases hc : l.queues.contains q = true
    · simp [step, hc]
    · simp [step, hc, writeEntry_policy, persistEffects_withPolicy]
      rfl
  | delete q =>
    cases hq : l.queues.get? q with
    | none => simp [step, hq]
    | some mq =>
      simp [step, hq, writeEntry_policy]
      obtain ⟨h1, h2, h3⟩ := gc_tail g
        { (l.writeEntry g (.delete q mq.nextPosition)).1 with
          queues := (l.writeEntry g (.delete q mq.nextPosition)).1.queues.remove q } p order
      exact ⟨h1, h2, congrArg eraseSync h3⟩
  | truncate q k =>
    cases hq : l.queues.get? q with
    | none => simp [step, hq]
    | some mq =>
      simp [step, hq, writeEntry_policy]
      obtain ⟨h1, h2, h3⟩ := gc_tail g
        { (l.writeEntry g (.truncate q k)).1 with
          queues := (l.writeEntry g (.truncate q k)).1.queues.set q (mq.truncateHead k).1 } p order
      exact ⟨h1, h2, congrArg eraseSync h3⟩
  | append q pos? pls =>
    cases hq : l.queues.get? q with
    | none => simp [step, hq]
    | some mq =>
      have main : ∀ pos : Nat, mq.nextPosition ≤ pos →
          (∀ (l : Log) (tk : Bool) mq', l.queues.get? q = some mq → appendAll mq l.cur (numberFrom pos pls) = some mq' →
            step g l (.append q pos? pls) tk order =
              ({ (l.writeEntry g (.append q pos (numberFrom pos pls))).1 with
                  queues := (l.writeEntry g (.append q pos (numberFrom pos pls))).1.queues.set q mq' },
               .appended (some (pos + pls.length - 1)) (l.writeEntry g (.append q pos (numberFrom pos pls))).2.2,
               (l.writeEntry g (.append q pos (numberFrom pos pls))).2.1 ++
                 (l.writeEntry g (.append q pos (numberFrom pos pls))).1.policyEffects tk)) →
          (step g (withPolicy l p) (.append q pos? pls) t' order).1 = withPolicy (step g l (.append q pos? pls) t order).1 p ∧
          (step g (withPolicy l p) (.append q pos? pls) t' order).2.1 = (step g l (.append q pos? pls) t order).2.1 ∧
          eraseSync (step g (withPolicy l p) (.append q pos? pls) t' order).2.2 =
            eraseSync (step g l (.append q pos? pls) t order).2.2 := by
        intro pos hpos hstep
        obtain ⟨mq', hmq'⟩ := appendAll_isSome l.cur pls mq pos hpos
        rw [hstep l t mq' hq hmq', hstep (withPolicy l p) t' mq' hq hmq', writeEntry_policy]
        simp
        rfl
      cases pos? with
      | none =>
        by_cases hne : pls.isEmpty = true
        · simp [step, hq, hne]
        · exact main mq.nextPosition (Nat.le_refl _) (fun l tk mq' hq h => by simp [step, hq, hne, h])
      | some k =>
        by_cases h1 : k + 1 = mq.nextPosition
        · simp [step, hq, h1]
        · by_cases h2 : k < mq.nextPosition
          · simp [step, hq, h1, h2]
          · by_cases hne : pls.isEmpty = true
            · simp [step, hq, h1, h2, hne]
            · exact main k (by omega) (fun l tk mq' hq h => by simp [step, hq, h1, h2, hne, h])

/-- **C14.** Two logs differing only in their persist policy, given the same call (and the same
    hash-order oracle) but arbitrary clock readings: same outcome — byte counts included —, final
    states equal up to the policy field, effects equal up to `flush`/`fsync`. -/
theorem C14_policy_irrelevant (l : Log) (c : Call) (t₁ t₂ : Bool) (order : List Bytes) (p₁ p₂ : Policy) :
    let r₁ := Log.step g (withPolicy l p₁) c t₁ order
    let r₂ := Log.step g (withPolicy l p₂) c t₂ order
    r₂.1 = withPolicy r₁.1 p₂ ∧ r₁.2.1 = r₂.2.1 ∧ eraseSync r₁.2.2 = eraseSync r₂.2.2 := by
  intro r₁ r₂
  obtain ⟨h1, h2, h3⟩ := step_policy g (withPolicy l p₁) p₂ c t₁ t₂ order
  exact ⟨h1, h2.symm, h3.symm⟩

/-- the policy of the state is never changed by a call -/
theorem step_keeps_policy (l : Log) (c : Call) (t : Bool) (order : List Bytes) :
    (Log.step g l c t order).1.policy = l.policy := by
  have := (step_policy g l l.policy c t t order).1
  rw [withPolicy_self] at this
  rw [this]
  rfl

/-! ### Histories -/

/-- run a list of calls (each with its hash-order oracle); the clock readings are taken from
    `ticks` (`false` once exhausted). Returns the final state, the outcomes and all effects. -/
def run (g : Geom) : Log → List (Call × List Bytes) → List Bool → Log × List Outcome × List Effect
  | l, [], _ => (l, [], [])
  | l, (c, order) :: cs, ticks =>
    let r := Log.step g l c (ticks.headD false) order
    let r' := run g r.1 cs ticks.tail
    (r'.1, r.2.1 :: r'.2.1, r.2.2 ++ r'.2.2)

/-- **C14 for histories.** The same calls issued to two logs differing only in the policy, with
    arbitrary (different) clock readings on the two sides: final states equal up to the policy,
    the same outcomes, the same effects up to `flush`/`fsync`. -/
theorem C14_history (cs : List (Call × List Bytes)) :
    ∀ (l : Log) (p₁ p₂ : Policy) (ticks₁ ticks₂ : List Bool),
      let r₁ := run g (withPolicy l p₁) cs ticks₁
      let r₂ := run g (withPolicy l p₂) cs ticks₂
      r₂.1 = withPolicy r₁.1 p₂ ∧ r₁.2.1 = r₂.2.1 ∧ eraseSync r₁.2.2 = eraseSync r₂.2.2 := by
  induction cs with
  | nil => intro l p₁ p₂ _ _; exact ⟨rfl, rfl, rfl⟩
  | cons co cs ih =>
    intro l p₁ p₂ ticks₁ ticks₂
    obtain ⟨c, order⟩ := co
    obtain ⟨h1, h2, h3⟩ := C14_policy_irrelevant g l c (ticks₁.headD false) (ticks₂.headD false) order p₁ p₂
    have hp : (Log.step g (withPolicy l p₁) c (ticks₁.headD false) order).1 =
        withPolicy (Log.step g (withPolicy l p₁) c (ticks₁.headD false) order).1 p₁ := by
      exact congrArg (withPolicy _) (step_keeps_policy g (withPolicy l p₁) c (ticks₁.headD false) order)
    obtain ⟨k1, k2, k3⟩ := ih (Log.step g (withPolicy l p₁) c (ticks₁.headD false) order).1 p₁ p₂
      ticks₁.tail ticks₂.tail
    simp only [run]
    rw [← hp] at k1 k2 k3
    rw [← h1] at k1 k2 k3
    refine ⟨k1, ?_, ?_⟩
    · rw [h2, k2]
    · rw [eraseSync_append, eraseSync_append, h3, k3]

/-! ### Consequence on disk: the same image once everything is flushed

The `BufWriter` model merges consecutive writes whatever their target, so erasing a `flush` that
separates writes to two files changes what reaches the OS: the statement "`es` and `eraseSync es`
give the same flushed image" is false as such (`same_image_literal_false`). What holds: two effect
lists that use the buffer the way the rolling writer does (`Buf.run … ≠ none`: contiguous non-empty
writes, a flush before every file-level operation and before changing file) and agree up to
`flush`/`fsync` leave the same image after a final flush. Every call — hence every history — is
such a list, under every policy. -/

theorem same_image_literal_false :
    ¬ (∀ (cap : Nat) (img : Image) (es : List Effect),
        applyOsOps img (toOsOps cap {} (es ++ [.flush])).2 =
          applyOsOps img (toOsOps cap {} (eraseSync es ++ [.flush])).2) := by
  intro h
  have := h 8 [(0, []), (1, [])] [.write 0 0 [1], .flush, .write 1 0 [2]]
  revert this
  decide

/-- syncs do not change what direct application leaves -/
theorem direct_eraseSync (es : List Effect) :
    ∀ img, applyOsOps img (Buf.directOps es) = applyOsOps img (Buf.directOps (eraseSync es)) := by
  induction es with
  | nil => intro img; rfl
  | cons e es ih =>
    intro img
    have hc : eraseSync (e :: es) = if isSyncEff e then eraseSync es else e :: eraseSync es := by
      simp only [eraseSync, List.filter_cons]
      cases isSyncEff e <;> rfl
    rw [hc, Buf.directOps_cons, Buf.applyOsOps_append]
    cases e <;> simp only [isSyncEff, Bool.false_eq_true, if_false, if_true] <;>
      first
      | (rw [Buf.directOps_cons, Buf.applyOsOps_append, ih])
      | (simp only [Buf.direct, applyOsOps, List.foldl_cons, List.foldl_nil, applyOs]; exact ih _)

/-- **C14, disk form.** Two disciplined effect lists that agree up to `flush`/`fsync` leave the
    same image once everything is flushed, whatever the buffer capacity. -/
theorem C14_same_image (cap : Nat) (img : Image) (es₁ es₂ : List Effect)
    (h₁ : (Buf.run none es₁).isSome) (h₂ : (Buf.run none es₂).isSome)
    (he : eraseSync es₁ = eraseSync es₂) :
    applyOsOps img (toOsOps cap {} (es₁ ++ [.flush])).2 = applyOsOps img (toOsOps cap {} (es₂ ++ [.flush])).2 := by
  rw [Buf.flushed_image cap img es₁ h₁, Buf.flushed_image cap img es₂ h₂, direct_eraseSync es₁,
    direct_eraseSync es₂, he]

/-! #### every call uses the buffer in the disciplined way -/

/-- abstract buffer states compatible with a log: clean, or dirty up to the writer's cursor -/
def Clean (l : Log) (st : Buf.St) : Prop := st = none ∨ st = some (l.cur, l.off)

/-- `es` keeps the discipline from any state compatible with `l`, ending compatible with `l'` -/
def Disc (l : Log) (es : List Effect) (l' : Log) : Prop :=
  ∀ st, Clean l st → ∃ st', Buf.run st es = some st' ∧ Clean l' st'

theorem Disc.same {l l' : Log} (hc : l'.cur = l.cur) (ho : l'.off = l.off) : Disc l [] l' := by
  intro st h
  exact ⟨st, rfl, by unfold Clean at *; rw [hc, ho]; exact h⟩

theorem Disc.trans {l l1 l2 : Log} {a b : List Effect} (h1 : Disc l a l1) (h2 : Disc l1 b l2) :
    Disc l (a ++ b) l2 := by
  intro st h
  obtain ⟨st1, hr1, hc1⟩ := h1 st h
  obtain ⟨st2, hr2, hc2⟩ := h2 st1 hc1
  exact ⟨st2, by rw [Buf.run_append, hr1]; exact hr2, hc2⟩

theorem persist_Disc (l : Log) (a : PersistAction) : Disc l (l.persistEffects a) l := by
  intro st _
  exact ⟨none, by cases a <;> rfl, .inl rfl⟩

theorem isSync_Disc (l : Log) (sy : List Effect) (hs : IsSync l sy) : Disc l sy l := by
  rcases hs with rfl | ⟨a, rfl⟩
  · exact Disc.same rfl rfl
  · exact persist_Disc l a

theorem unlinks_run (fs : List Nat) : Buf.run none (fs.map Effect.unlink) = some none := by
  induction fs with
  | nil => rfl
  | cons f fs ih => simp [Buf.run, Buf.run1, ih]

section
variable (g : Geom)

theorem writeBuf_Disc (l : Log) (buf : Bytes) : Disc l (writeBuf g l buf).2 (writeBuf g l buf).1 := by
  unfold writeBuf
  split
  · exact Disc.same rfl rfl
  · rename_i hne
    have hb : buf ≠ [] := fun h => hne (by simp [h])
    split
    · split
      · rename_i nf _
        intro st _
        exact ⟨some (nf, buf.length), by simp [Buf.run, Buf.run1, hb], .inr rfl⟩
      · intro st _
        exact ⟨some (l.cur + 1, buf.length), by simp [Buf.run, Buf.run1, hb], .inr rfl⟩
    · intro st h
      have hst : st = none ∨ st = some (l.cur, l.off) := h
      exact ⟨_, by simp [Buf.run, Buf.run1, hb, hst], .inr rfl⟩

theorem writeBufs_Disc (bufs : List Bytes) : ∀ l : Log, Disc l (writeBufs g l bufs).2 (writeBufs g l bufs).1 := by
  induction bufs with
  | nil => intro l; exact Disc.same rfl rfl
  | cons b bs ih =>
    intro l
    rw [writeBufs_cons]
    exact (writeBuf_Disc g l b).trans (ih _)

theorem writeEntry_Disc (l : Log) (e : Entry) : Disc l (l.writeEntry g e).2.1 (l.writeEntry g e).1 := by
  rw [writeEntry_eq]
  exact writeBufs_Disc g _ l

theorem writeTouches_Disc (names : List Bytes) :
    ∀ l : Log, Disc l (writeTouches g l names).2.1 (writeTouches g l names).1 := by
  induction names with
  | nil => intro l; exact Disc.same rfl rfl
  | cons n ns ih =>
    intro l
    rw [writeTouches_cons]
    exact (writeEntry_Disc g l _).trans (ih _)

theorem runGc_Disc (l : Log) (order : List Bytes) : Disc l (runGc g l order).2.1 (runGc g l order).1 := by
  rcases runGc_cases g l order with h | h
  · rw [h]; exact Disc.same rfl rfl
  · rw [h]
    intro st hst
    obtain ⟨st1, hr1, _⟩ := writeTouches_Disc g (gcNames l order) l st hst
    refine ⟨none, ?_, .inl rfl⟩
    simp only [Buf.run_append, hr1, Option.bind_some]
    have : Buf.run st1 ((writeTouches g l (gcNames l order)).1.persistEffects .flushAndFsync) = some none := rfl
    rw [this, Option.bind_some, unlinks_run]

/-- every call keeps the buffer discipline -/
theorem step_Disc (l : Log) (c : Call) (tick : Bool) (order : List Bytes) :
    Disc l (Log.step g l c tick order).2.2 (Log.step g l c tick order).1 := by
  rcases step_shape g l c tick order with ⟨out, h, _⟩ | ⟨a, h⟩ | ⟨e, qs', gc, sy, out, h, _, hs⟩
  · rw [h]; exact Disc.same rfl rfl
  · rw [h]; exact persist_Disc l a
  · rw [h]
    have h2 : Disc (l.writeEntry g e).1 [] { (l.writeEntry g e).1 with queues := qs' } := Disc.same rfl rfl
    cases gc with
    | false =>
      simp only [Bool.false_eq_true, if_false, List.append_nil] at hs ⊢
      have := ((writeEntry_Disc g l e).trans h2).trans (isSync_Disc _ sy hs)
      simpa using this
    | true =>
      simp only [if_true] at hs ⊢
      have := (((writeEntry_Disc g l e).trans h2).trans (runGc_Disc g _ order)).trans (isSync_Disc _ sy hs)
      simpa using this

/-- … and so does every history -/
theorem run_Disc (cs : List (Call × List Bytes)) :
    ∀ (l : Log) (ticks : List Bool), Disc l (run g l cs ticks).2.2 (run g l cs ticks).1 := by
  induction cs with
  | nil => intro l _; exact Disc.same rfl rfl
  | cons co cs ih =>
    intro l ticks
    obtain ⟨c, order⟩ := co
    simp only [run]
    exact (step_Disc g l c _ order).trans (ih _ _)

end

/-- **C14, disk form, for histories.** The same calls under two policies and two clocks: after a
    final flush the two disks hold the same image. (Both sides start with an empty `BufWriter`.) -/
theorem C14_history_same_image (cs : List (Call × List Bytes)) (l : Log) (p₁ p₂ : Policy)
    (ticks₁ ticks₂ : List Bool) (cap : Nat) (img : Image) :
    let es₁ := (run g (withPolicy l p₁) cs ticks₁).2.2
    let es₂ := (run g (withPolicy l p₂) cs ticks₂).2.2
    applyOsOps img (toOsOps cap {} (es₁ ++ [.flush])).2 = applyOsOps img (toOsOps cap {} (es₂ ++ [.flush])).2 := by
  intro es₁ es₂
  apply C14_same_image
  · obtain ⟨st', h, _⟩ := run_Disc g cs (withPolicy l p₁) ticks₁ none (.inl rfl)
    simp [es₁, h]
  · obtain ⟨st', h, _⟩ := run_Disc g cs (withPolicy l p₂) ticks₂ none (.inl rfl)
    simp [es₂, h]
  · exact (C14_history g cs l p₁ p₂ ticks₁ ticks₂).2.2

/-! ### Non-vacuity -/

def g16 : Geom := { B := 16, K := 4, hB := by decide, hK := by decide }

def l0 : Log :=
  { files := [0], cur := 0, off := 0, policy := .doNothing, queues := [([1], {})] }

/-- the raw effects of an append under `DoNothing` and under `Always(FlushAndFsync)` differ … -/
example :
    (Log.step g16 (withPolicy l0 .doNothing) (.append [1] none [[7]]) false []).2.2 ≠
    (Log.step g16 (withPolicy l0 (.always .flushAndFsync)) (.append [1] none [[7]]) false []).2.2 := by
  intro h
  have := congrArg List.length h
  have hq : l0.queues.get? [1] = some {} := rfl
  simp [step, hq, MemQueue.nextPosition, numberFrom, appendAll,
    MemQueue.appendRecord, policyEffects, persistEffects, writeEntry_policy] at this

/-- … but they agree once the syncs are erased, and so do outcome and state -/
example :
    let r₁ := Log.step g16 (withPolicy l0 .doNothing) (.append [1] none [[7]]) false []
    let r₂ := Log.step g16 (withPolicy l0 (.always .flushAndFsync)) (.append [1] none [[7]]) true []
    r₂.1 = withPolicy r₁.1 (.always .flushAndFsync) ∧ r₁.2.1 = r₂.2.1 ∧ eraseSync r₁.2.2 = eraseSync r₂.2.2 :=
  C14_policy_irrelevant g16 l0 _ false true [] _ _

end MRL.C14
