/-
C08 over crash-reachable states (PARTIAL in one respect, see below).

`C02U.ReachX g cap l img b`: the states reachable by calls, restarts AND crashes at any point. The
image `W := flushDisk img b` of such a state holds a tape of ITEMS (`L.DiskX`): frames as written,
junk slots left by cut writes (a slot whose checksum fails, or a torn header), orphan First/Middle
runs of entries that were never finished (dead groups), possibly a residue of at most 6 junk bytes
and an empty next file.

* `C08_crash_genuine_partial`: there is a journal `J` with `L.CInvX g l J W` (the relaxed combined
  invariant: `J` replays to the in-memory queues, the live groups of the tape are the entries of
  `J` located in the tracked files), all entries serialisable, such that for ANY image `W'` of the
  same shape (arbitrary in-place damage) satisfying the collision clause
  `Img.NoAccidentalFrameImgX g W W'` — wherever the reader's acceptance test passes on `W'`, the
  tape of `W` has that very frame, AS WRITTEN (not a junk slot), at that very location — a
  successful `recover g W' …` returns a log satisfying `C05.Inv` whose every record is
  `(name, position, payload)` of an `append` entry of `J`, its queues being the replay of a
  SUB-SEQUENCE of the retained entries of `J`.
* `C08_crash_restart_partial`: without damage and without any hypothesis, the same conclusion for
  `recover g W …` itself.

WHAT IS MISSING (hence `_partial`): that every entry of the hidden journal `J` was handed to the
writer by a call or a GC pass of the history. `J` comes out of `C02U.reachX_inv`, where the crash
constructors obtain it from `L.XInvRes`, which hides the journal of the recovered state; relating
it to the journal before the crash plus the entries of the interrupted call would require
strengthening `L.call_cutX` / `L.gc_cutX` / `L.read_diskX` to export that relation (`read_diskX`
already gives it for one restart: the new journal has the entries of the retained old one).

Proof machinery: MRL/Proofs/Img3*.lean (genuine located frames of an item tape, reassembly with
dead groups, blocks with the empty next file) on top of Gen*/Img* and the crash layer (L*).
-/
import MRL.Proofs.Img3Read
import MRL.Props.C02Usable
import MRL.Props.C08Recover

namespace MRL.C08X
open MRL Consts Codec Log Img

/-- what a successful `recover` of a (possibly damaged) image delivers, against a journal `J` -/
def Genuine (J : List JE) (F : Nat) (r : Recovered) : Prop :=
  C05.Inv r.log ∧
  (∀ kv ∈ r.log.queues, ∀ rec ∈ kv.2.recs, (kv.1, rec.pos, rec.payload) ∈ C08V.appended J) ∧
  ∃ L : List (Nat × Entry), Rec.replayEntries [] L = some r.log.queues ∧
    List.Sublist (L.map (·.2)) ((J.filter fun j => decide (F ≤ j.loc)).map (·.e))

theorem genuine_of_sublist (g : Geom) (W' : Image) (policy : Policy) (order : List Bytes) (r : Recovered)
    (hr : recover g W' policy order none = .ok r) (J : List JE) (F : Nat) (L : List (Nat × Entry))
    (hL1 : Rec.replayEntries [] L = some r.log.queues)
    (hL2 : List.Sublist (L.map (·.2)) ((J.filter fun j => decide (F ≤ j.loc)).map (·.e))) :
    Genuine J F r := by
  refine ⟨C08.recover_sorted g W' policy order none r hr, ?_, L, hL1, hL2⟩
  intro kv hkv rec hrec
  have h1 := C08.replay_records_subset L _ hL1 kv hkv rec hrec
  rw [recordsOf_eq] at h1
  have h2 := recordsOfE_sublist hL2 _ h1
  have h3 : List.Sublist ((J.filter fun j => decide (F ≤ j.loc)).map (·.e)) (J.map (·.e)) :=
    List.filter_sublist.map _
  have h4 := recordsOfE_sublist h3 _ h2
  unfold C08V.appended
  rw [recordsOf_eq, List.map_map]
  exact h4

/-- the damaged read on a `DiskX` disk -/
theorem diskX_delivered (g : Geom) {D : Image} {F : Nat} {J : List JE} (hd : L.DiskX g D F J)
    (hwf : ∀ j ∈ J, C07.WF j.e) (W' : Image) (hshape : SameShape D W') (hN : NoAccidentalFrameImgX g D W')
    (policy : Policy) (order : List Bytes) (r : Recovered) (hr : recover g W' policy order none = .ok r) :
    ∃ L : List (Nat × Entry), Rec.replayEntries [] L = some r.log.queues ∧
      List.Sublist (L.map (·.2)) ((J.filter fun j => decide (F ≤ j.loc)).map (·.e)) := by
  obtain ⟨cs, x, ais, res, z0, hne, hfull, ⟨z1, hflat⟩, hX, _, hfits, _, hjok, _, lead, gs, hais, hlead, hmap, hok⟩ := hd
  -- the tape of `D`
  have hstreamD : streamOf D = cs.flatten := by
    rw [hX, streamOf_append, streamOf_imgOf, streamOf_xtra, List.append_nil]
  have htape : ItemTape g D ais := by
    refine ⟨hfits, ?_, z0, res, z1, by rw [hstreamD]; exact hflat⟩
    rw [hstreamD, G.flatten_length_full _ _ hfull]; exact hjok
  -- the damaged image
  rw [hX] at hshape
  obtain ⟨A', B', hW', hsA, hsB⟩ := sameShape_append _ _ W' hshape
  have hB' := sameShape_xtra x _ B' hsB
  obtain ⟨hA', hlens⟩ := sameShape_imgOf cs F A' hsA
  generalize hcs' : A'.map (·.2) = cs' at hA' hlens
  have hfull' : ∀ c ∈ cs', c.length = g.fileBytes := by
    intro c hc
    have : c.length ∈ cs'.map List.length := List.mem_map_of_mem hc
    rw [hlens] at this
    obtain ⟨c0, hc0, he⟩ := List.mem_map.mp this
    rw [← he]; exact hfull c0 hc0
  have hne' : cs' ≠ [] := by
    intro hn
    rw [hn] at hlens
    simp only [List.map_nil] at hlens
    exact hne (List.map_eq_nil_iff.mp hlens.symm)
  have hW'' : W' = G.imgOf F cs' ++ L.xtra x (F + cs.length) := by rw [hW', hA', hB']
  have hstream' : streamOf W' = cs'.flatten := by
    rw [hW'', streamOf_append, streamOf_imgOf, streamOf_xtra, List.append_nil]
  have hNoAcc := hN ais htape
  rw [hstream'] at hNoAcc
  -- what `recover` scanned and replayed
  obtain ⟨b0, rest, trail, rdEvs, e, io, hb, hs, hrep⟩ := Rec.recover_ok_replay' hr
  rw [hW''] at hb
  have hsub := img_deliveredX g F cs' hne' hfull' x _ ais lead gs hais hlead hok hNoAcc b0 rest trail rdEvs e io hb hs
  refine ⟨Rec.decoded (assemble { within := false, buf := [], attr := b0.file } rdEvs), ?_, ?_⟩
  · rw [← Rec.replay_eq]; exact hrep
  · rw [decoded_snd]
    have h1 : List.Sublist (decodedE (bytesOf (assemble { within := false, buf := [], attr := b0.file } rdEvs)))
        (decodedE ((L.liveOf gs).map fun s => s.1.e.encode)) := hsub.filterMap _
    have h2 : decodedE ((L.liveOf gs).map fun s => s.1.e.encode) = (L.liveOf gs).map fun s => s.1.e := by
      have := decodedE_encoded ((L.liveOf gs).map fun s => s.1.e) (by
        intro en hen
        obtain ⟨s, hs', rfl⟩ := List.mem_map.mp hen
        have hsJ : s.1 ∈ J := by
          have : s.1 ∈ (L.liveOf gs).map (·.1) := List.mem_map_of_mem (f := (·.1)) hs'
          rw [hmap] at this
          exact (List.mem_filter.mp this).1
        exact C07.decode_encode _ (hwf _ hsJ))
      simpa [List.map_map, Function.comp_def] using this
    rw [h2] at h1
    have h3 : ((L.liveOf gs).map fun s => s.1.e) = (J.filter fun j => decide (F ≤ j.loc)).map (·.e) := by
      rw [← hmap, List.map_map]; rfl
    rw [← h3]; exact h1

/-- **C08_crash_genuine_partial.** -/
theorem C08_crash_genuine_partial (g : Geom) (hB : g.B ≤ 65542) (cap : Nat) (l : Log) (img : Image) (b : BufSt)
    (h : C02U.ReachX g cap l img b) :
    ∃ J : List JE, L.CInvX g l J (C02U.flushDisk img b) ∧ (∀ j ∈ J, C07.WF j.e) ∧
      ∀ W', SameShape (C02U.flushDisk img b) W' → NoAccidentalFrameImgX g (C02U.flushDisk img b) W' →
      ∀ (policy : Policy) (order : List Bytes) (r : Recovered), recover g W' policy order none = .ok r →
        Genuine J (l.files.headD 0) r := by
  obtain ⟨⟨J, hc, hw⟩, _⟩ := C02U.reachX_inv g hB cap h
  refine ⟨J, hc, hw, ?_⟩
  intro W' hshape hN policy order r hr
  obtain ⟨init, t, x, res, ais, lead, gs, hx⟩ := hc.disk
  obtain ⟨L, hL1, hL2⟩ := diskX_delivered g hx.diskX hw W' hshape hN policy order r hr
  exact genuine_of_sublist g W' policy order r hr J _ L hL1 hL2

/-- **C08_crash_restart_partial.** No damage, no hypothesis: restarting from a crash-reachable
    state returns only records of `append` entries of the journal. -/
theorem C08_crash_restart_partial (g : Geom) (hB : g.B ≤ 65542) (cap : Nat) (l : Log) (img : Image) (b : BufSt)
    (h : C02U.ReachX g cap l img b) :
    ∃ J : List JE, L.CInvX g l J (C02U.flushDisk img b) ∧ (∀ j ∈ J, C07.WF j.e) ∧
      ∀ (policy : Policy) (order : List Bytes) (r : Recovered),
        recover g (C02U.flushDisk img b) policy order none = .ok r →
        C05.Inv r.log ∧
        ∀ kv ∈ r.log.queues, ∀ rec ∈ kv.2.recs, (kv.1, rec.pos, rec.payload) ∈ C08V.appended J := by
  obtain ⟨⟨J, hc, hw⟩, _⟩ := C02U.reachX_inv g hB cap h
  refine ⟨J, hc, hw, ?_⟩
  intro policy order r hr
  refine ⟨C08.recover_sorted g _ policy order none r hr, ?_⟩
  obtain ⟨init, t, x, res, ais, lead, gs, hx⟩ := hc.disk
  obtain ⟨qs, hrep, _, _⟩ := hc.jinv.rep
  obtain ⟨J', lp, io, _, _, _, _, _, _, _, hrec, _, hJ', _, _, hrel, _⟩ :=
    L.read_diskX g hB hx.diskX hw qs hrep policy
  -- the recovered queues are those of `recoverPre`
  have hq : r.log.queues = lp.queues := by
    rw [Rec.recover_none, hrec] at hr
    simp only [Except.ok.injEq] at hr
    subst hr
    simp only [runGc_queues]
  intro kv hkv rec hrec'
  rw [hq] at hkv
  -- `lp.queues` is the replay of `J'`, whose entries are those of the retained part of `J`
  have hJ'ge : ∀ j ∈ J', l.files.headD 0 ≤ j.loc := by
    intro j hj
    obtain ⟨b', hb', _, h2, _, _⟩ := hrel.mem_left j hj
    have := (List.mem_filter.mp hb').2
    rw [h2]; simpa using this
  rw [replayJ_ge _ J' [] hJ'ge] at hJ'
  have h1 := C08.replay_records_subset _ _ hJ' kv hkv rec hrec'
  rw [recordsOf_eq, List.map_map] at h1
  have hents : (J'.map fun j => j.e) = (J.filter fun j => decide (l.files.headD 0 ≤ j.loc)).map (·.e) := by
    have : ∀ (A B : List JE), L.All2 (fun a b : JE => a.e = b.e ∧ a.loc = b.loc ∧ l.files.headD 0 ≤ a.attr ∧
        a.attr ≤ a.loc) A B → A.map (·.e) = B.map (·.e) := by
      intro A B hAB
      induction hAB with
      | nil => rfl
      | cons hab _ ih => simp only [List.map_cons, hab.1, ih]
    exact this _ _ hrel
  have h1' : (kv.1, rec.pos, rec.payload) ∈ recordsOfE (J'.map fun j => j.e) := h1
  rw [hents] at h1'
  have h3 : List.Sublist ((J.filter fun j => decide (l.files.headD 0 ≤ j.loc)).map (·.e)) (J.map (·.e)) :=
    List.filter_sublist.map _
  have h4 := recordsOfE_sublist h3 _ h1'
  unfold C08V.appended
  rw [recordsOf_eq, List.map_map]
  exact h4

end MRL.C08X
