/-
C05 (bounds): the API calls over `u64`. `MRL/Model/PanicCalls.lean` is the panic-instrumented
twin `Log.stepP` of `Log.step`; here:
(0) whenever the twin does not report a panic it returns the value of `Log.step`;
(1) it does not report one when the positions of the state and of the call, and the file numbers,
    stay below `u64::MAX` (`stepP_agrees`, `stepP_agrees_cur`, `stepP_agrees_bytes`), so every
    theorem about `Log.step` over `Nat` is a theorem about the checked code under that bound;
(2) the bound is kept along runs: from a log whose positions are small, no call of a history with
    small explicit positions, few appended records and few WAL bytes panics (`run_no_panic`);
(3) the bound is needed: witnesses on tiny states.
-/
import MRL.Model.PanicCalls
import MRL.Props.C10
import MRL.Props.C05

namespace MRL.C05B
open MRL MRL.Log

/-! ### (0) the twin agrees with the model whenever it does not panic -/

theorem stepP_ok (g : Geom) (l : Log) (c : Call) (tick : Bool) (order : List Bytes)
    (x : Log × Outcome × List Effect) (h : stepP g l c tick order = .ok x) :
    x = step g l c tick order := by
  unfold stepP at h
  cases c <;> simp only at h <;>
    repeat' (first | (cases h; rfl) | (cases h; done) | split at h)

theorem stepPU_ok (g : Geom) (l : Log) (c : Call) (tick : Bool) (order : List Bytes)
    (x : Log × Outcome × List Effect) (h : stepPU g l c tick order = .ok x) :
    x = step g l c tick order := by
  unfold stepPU at h
  split at h
  · cases h
  · rename_i r hr
    cases h
    exact stepP_ok g l c tick order _ hr

/-- the three views of the twin say the same thing -/
theorem stepPanics_iff (g : Geom) (l : Log) (c : Call) (tick : Bool) (order : List Bytes) :
    (stepPanics g l c tick order = false ↔ stepP g l c tick order = .ok (step g l c tick order)) ∧
    (stepPanics g l c tick order = false ↔ stepPU g l c tick order = .ok (step g l c tick order)) := by
  unfold stepPanics stepPU
  cases h : stepP g l c tick order with
  | error es => simp
  | ok r =>
    have := stepP_ok g l c tick order r h
    subst this
    simp

/-! ### (1) no panic below `u64::MAX` -/

/-- every queue's next position is at most `K` -/
def PosBnd (K : Nat) (l : Log) : Prop := ∀ kv ∈ l.queues, kv.2.nextPosition ≤ K

/-- what the call asks of the positions, for a state whose next positions are at most `K`:
    explicit (or implicit) position plus batch length, and truncate bound, below `u64::MAX` -/
def CallOK (K : Nat) : Call → Prop
  | .append _ (some p) pls => p + pls.length < U64MAX
  | .append _ none pls => K + pls.length < U64MAX
  | .truncate _ p => p < U64MAX
  | _ => True

theorem PosBnd.mono {K K' : Nat} {l : Log} (h : PosBnd K l) (hk : K ≤ K') : PosBnd K' l :=
  fun kv hkv => Nat.le_trans (h kv hkv) hk

theorem not_poisoned_of_next {q : MemQueue} (h : q.nextPosition < U64MAX) : q.poisoned = false := by
  unfold MemQueue.poisoned
  unfold MemQueue.nextPosition at h
  split
  · rename_i r hr
    rw [hr] at h
    simp only at h
    simp only [decide_eq_false_iff_not]
    omega
  · rfl

theorem PosBnd.get {K : Nat} {l : Log} (h : PosBnd K l) {q : Bytes} {mq : MemQueue}
    (hg : l.queues.get? q = some mq) : mq.nextPosition ≤ K := h (q, mq) (get_mem hg)

section
variable (g : Geom)

/-! #### the current file only moves up, and an overflowing roll-over moves it above `u64::MAX` -/

theorem writeBufPanics_cur (l : Log) (buf : Bytes) (h : writeBufPanics g l buf = true) :
    U64MAX < (writeBuf g l buf).1.cur := by
  unfold writeBufPanics at h
  simp only [Bool.and_eq_true, Bool.not_eq_true', decide_eq_true_eq, Option.isNone_iff_eq_none] at h
  obtain ⟨⟨⟨h1, h2⟩, h3⟩, h4⟩ := h
  unfold writeBuf
  rw [h1]
  simp only [Bool.false_eq_true, if_false, h2, if_true, h3]
  omega

theorem writeBufsPanics_cur (bufs : List Bytes) : ∀ l : Log, writeBufsPanics g l bufs = true →
    U64MAX < (writeBufs g l bufs).1.cur := by
  induction bufs with
  | nil => intro l h; cases h
  | cons b bs ih =>
    intro l h
    rw [Step.writeBufs_cons]
    simp only [writeBufsPanics, Bool.or_eq_true] at h
    rcases h with h | h
    · exact Nat.lt_of_lt_of_le (writeBufPanics_cur g l b h) (Step.writeBufs_cur_le g bs _)
    · exact ih _ h

theorem writeEntryPanics_cur (l : Log) (e : Entry) (h : writeEntryPanics g l e = true) :
    U64MAX < (l.writeEntry g e).1.cur := by
  rw [Step.writeEntry_eq]
  exact writeBufsPanics_cur g _ l h

theorem writeTouchesPanics_cur (names : List Bytes) : ∀ l : Log, writeTouchesPanics g l names = true →
    U64MAX < (writeTouches g l names).1.cur := by
  induction names with
  | nil => intro l h; cases h
  | cons n ns ih =>
    intro l h
    rw [Step.writeTouches_cons]
    simp only [writeTouchesPanics, Bool.or_eq_true] at h
    rcases h with h | h
    · exact Nat.lt_of_lt_of_le (writeEntryPanics_cur g l _ h) (Step.writeTouches_cur_le g ns _)
    · exact ih _ h

theorem runGc_cur_le (l : Log) (order : List Bytes) : l.cur ≤ (runGc g l order).1.cur := by
  rcases Step.runGc_cases g l order with h | h
  · rw [h]; exact Nat.le_refl _
  · rw [h]; exact Step.writeTouches_cur_le g _ l

theorem runGcPanics_cur (l : Log) (order : List Bytes) (h : runGcPanics g l order = true) :
    U64MAX < (runGc g l order).1.cur := by
  unfold runGcPanics at h
  rcases Step.runGc_trichotomy g l order with ⟨hr, f, f', rest, hf, hd⟩ | ⟨_, f, f', rest, hf, hd⟩ | ⟨_, hf⟩
  · have hn : gcNamesOf l order = Step.gcNames l order := by
      unfold gcNamesOf Step.gcNames
      rw [hf]
      simp only [hd, if_true]
    rw [hn] at h
    rw [hr]
    exact writeTouchesPanics_cur g _ l h
  · have hn : gcNamesOf l order = [] := by
      unfold gcNamesOf
      rw [hf]
      simp only [hd, Bool.false_eq_true, if_false]
    rw [hn] at h
    cases h
  · have hn : gcNamesOf l order = [] := by
      unfold gcNamesOf
      split
      · rename_i f f' rest hfs
        exact absurd hfs (hf f f' rest)
      · rfl
    rw [hn] at h
    cases h

/-! #### where the current file ends up, call by call -/

theorem appendStart_some {mq : MemQueue} {pos? : Option Nat} {pos : Nat} (h : appendStart mq pos? = some pos) :
    mq.nextPosition ≤ pos ∧ (pos? = some pos ∨ (pos? = none ∧ pos = mq.nextPosition)) := by
  cases pos? with
  | none =>
    simp only [appendStart, Option.some.injEq] at h
    exact ⟨by omega, .inr ⟨rfl, h.symm⟩⟩
  | some p =>
    simp only [appendStart] at h
    split at h
    · cases h
    · split at h
      · cases h
      · cases h
        exact ⟨by omega, .inl rfl⟩

/-- the equation of `step` for an append that writes -/
theorem step_append_eq (l : Log) (q : Bytes) (mq : MemQueue) (pos? : Option Nat) (pls : List Bytes) (pos : Nat)
    (tick : Bool) (order : List Bytes)
    (hg : l.queues.get? q = some mq) (hs : appendStart mq pos? = some pos) (hne : pls.isEmpty = false) :
    ∃ mq', appendAll mq l.cur (numberFrom pos pls) = some mq' ∧
      step g l (.append q pos? pls) tick order =
        ({ (l.writeEntry g (.append q pos (numberFrom pos pls))).1 with
            queues := (l.writeEntry g (.append q pos (numberFrom pos pls))).1.queues.set q mq' },
         .appended (some (pos + pls.length - 1)) (l.writeEntry g (.append q pos (numberFrom pos pls))).2.2,
         (l.writeEntry g (.append q pos (numberFrom pos pls))).2.1 ++
           (l.writeEntry g (.append q pos (numberFrom pos pls))).1.policyEffects tick) := by
  obtain ⟨hle, hp⟩ := appendStart_some hs
  obtain ⟨mq', hmq'⟩ := Step.appendAll_isSome l.cur pls mq pos hle
  refine ⟨mq', hmq', ?_⟩
  rcases hp with rfl | ⟨rfl, rfl⟩
  · have h1 : ¬ (pos + 1 = mq.nextPosition) := by omega
    have h2 : ¬ (pos < mq.nextPosition) := by omega
    simp [step, hg, h1, h2, hne, hmq']
  · simp [step, hg, hne, hmq']

theorem step_noop_of_start_none (l : Log) (q : Bytes) (mq : MemQueue) (pos? : Option Nat) (pls : List Bytes)
    (tick : Bool) (order : List Bytes)
    (hg : l.queues.get? q = some mq) (hs : appendStart mq pos? = none) :
    (step g l (.append q pos? pls) tick order).1 = l := by
  cases pos? with
  | none => simp [appendStart] at hs
  | some p =>
    simp only [appendStart] at hs
    by_cases h1 : p + 1 = mq.nextPosition
    · simp [step, hg, h1]
    · by_cases h2 : p < mq.nextPosition
      · simp [step, hg, h1, h2]
      · simp [h1, h2] at hs

/-- **C05B (1), tight form.** Positions: every next position of the state is at most `K < u64::MAX`
    and the call satisfies `CallOK K`. File numbers: the `Nat` model ends the call with a current
    file that fits a `u64`. Then the checked code does not panic, and returns what `Log.step`
    returns. (The file hypothesis is exact: an overflowing roll-over leaves the model at
    `u64::MAX + 1` or above, `writeBufPanics_cur`.) -/
theorem stepP_agrees_cur (l : Log) (c : Call) (tick : Bool) (order : List Bytes) (K : Nat)
    (hpos : PosBnd K l) (hK : K < U64MAX) (hc : CallOK K c)
    (hcur : (step g l c tick order).1.cur ≤ U64MAX) :
    stepP g l c tick order = .ok (step g l c tick order) := by
  cases c with
  | persist a => rfl
  | create q =>
    unfold stepP
    simp only
    by_cases hq : l.queues.contains q = true
    · rw [if_pos hq]
    · have hq' : l.queues.contains q = false := by simpa using hq
      rw [Step.step_create_eq g l q tick order hq'] at hcur
      rw [if_neg hq]
      split
      · rename_i hp
        exact absurd (Nat.lt_of_lt_of_le (writeEntryPanics_cur g l _ hp) hcur) (Nat.lt_irrefl _)
      · rfl
  | delete q =>
    unfold stepP
    simp only
    cases hg : l.queues.get? q with
    | none => rfl
    | some mq =>
      have hnp : mq.poisoned = false := not_poisoned_of_next (Nat.lt_of_le_of_lt (hpos.get hg) hK)
      rw [Step.step_delete_eq g l q mq tick order hg] at hcur
      have hcur' : (runGc g { (l.writeEntry g (.delete q mq.nextPosition)).1 with
          queues := (l.writeEntry g (.delete q mq.nextPosition)).1.queues.remove q } order).1.cur ≤ U64MAX := hcur
      simp only [hnp, Bool.false_eq_true, if_false]
      split
      · rename_i hp
        exact absurd (Nat.lt_of_lt_of_le (writeEntryPanics_cur g l _ hp)
          (Nat.le_trans (runGc_cur_le g { (l.writeEntry g (.delete q mq.nextPosition)).1 with
            queues := (l.writeEntry g (.delete q mq.nextPosition)).1.queues.remove q } order) hcur'))
          (Nat.lt_irrefl _)
      · split
        · rename_i hp
          exact absurd (Nat.lt_of_lt_of_le (runGcPanics_cur g _ order hp) hcur) (Nat.lt_irrefl _)
        · rfl
  | truncate q p =>
    unfold stepP
    simp only
    cases hg : l.queues.get? q with
    | none => rfl
    | some mq =>
      have hnp : mq.poisoned = false := not_poisoned_of_next (Nat.lt_of_le_of_lt (hpos.get hg) hK)
      have hp : p < U64MAX := hc
      have ht : truncatePanics mq p = false := by
        unfold truncatePanics
        split
        · rfl
        · simp only [hnp, Bool.or_false, decide_eq_false_iff_not]
          omega
      rw [Step.step_truncate_eq g l q p mq tick order hg] at hcur
      have hcur' : (runGc g { (l.writeEntry g (.truncate q p)).1 with
          queues := (l.writeEntry g (.truncate q p)).1.queues.set q (mq.truncateHead p).1 } order).1.cur ≤ U64MAX :=
        hcur
      simp only [ht, Bool.false_eq_true, if_false]
      split
      · rename_i hp
        exact absurd (Nat.lt_of_lt_of_le (writeEntryPanics_cur g l _ hp)
          (Nat.le_trans (runGc_cur_le g { (l.writeEntry g (.truncate q p)).1 with
            queues := (l.writeEntry g (.truncate q p)).1.queues.set q (mq.truncateHead p).1 } order) hcur'))
          (Nat.lt_irrefl _)
      · split
        · rename_i hp
          exact absurd (Nat.lt_of_lt_of_le (runGcPanics_cur g _ order hp) hcur) (Nat.lt_irrefl _)
        · rfl
  | append q pos? pls =>
    unfold stepP
    simp only
    cases hg : l.queues.get? q with
    | none => rfl
    | some mq =>
      have hnext := hpos.get hg
      have hnp : mq.poisoned = false := not_poisoned_of_next (Nat.lt_of_le_of_lt hnext hK)
      simp only [hnp, Bool.false_eq_true, if_false]
      have h190 : explicitAtMax pos? = false := by
        cases pos? with
        | none => rfl
        | some p =>
          have : p + pls.length < U64MAX := hc
          simp only [explicitAtMax, decide_eq_false_iff_not]
          omega
      simp only [h190, Bool.false_eq_true, if_false]
      cases hs : appendStart mq pos? with
      | none => rfl
      | some pos =>
        simp only
        obtain ⟨hle, hp⟩ := appendStart_some hs
        have hser : ¬ U64MAX ≤ pos + pls.length := by
          rcases hp with rfl | ⟨rfl, rfl⟩
          · have : pos + pls.length < U64MAX := hc
            omega
          · have : K + pls.length < U64MAX := hc
            omega
        rw [if_neg hser]
        cases hne : pls.isEmpty with
        | true => rfl
        | false =>
          obtain ⟨mq', _, heq⟩ := step_append_eq g l q mq pos? pls pos tick order hg hs hne
          rw [heq] at hcur
          simp only [Bool.false_eq_true, if_false]
          split
          · rename_i hp
            exact absurd (Nat.lt_of_lt_of_le (writeEntryPanics_cur g l _ hp) hcur) (Nat.lt_irrefl _)
          · rfl

/-! #### file numbers grow at most by the number of bytes written -/

theorem writeBuf_bndB (l : Log) (buf : Bytes) (M : Nat) (h : C10.Bnd M l) :
    C10.Bnd (M + buf.length) (writeBuf g l buf).1 := by
  cases buf with
  | nil => simp only [writeBuf, List.isEmpty_nil, if_true, List.length_nil, Nat.add_zero]; exact h
  | cons b bs =>
    exact (C10.writeBuf_bnd g l (b :: bs) M h).mono (by simp only [List.length_cons]; omega)

theorem totalLen_cons (b : Bytes) (bs : List Bytes) : totalLen (b :: bs) = b.length + totalLen bs := by
  simp [totalLen]

theorem writeBufs_bndB (bufs : List Bytes) : ∀ (l : Log) (M : Nat), C10.Bnd M l →
    C10.Bnd (M + totalLen bufs) (writeBufs g l bufs).1 := by
  induction bufs with
  | nil => intro l M h; exact h
  | cons b bs ih =>
    intro l M h
    rw [Step.writeBufs_cons, totalLen_cons, ← Nat.add_assoc]
    exact ih _ _ (writeBuf_bndB g l b M h)

theorem writeEntry_bndB (l : Log) (e : Entry) (M : Nat) (h : C10.Bnd M l) :
    C10.Bnd (M + (l.writeEntry g e).2.2) (l.writeEntry g e).1 := by
  rw [Step.writeEntry_eq]
  exact writeBufs_bndB g _ l M h

theorem writeTouches_bndB (names : List Bytes) : ∀ (l : Log) (M : Nat), C10.Bnd M l →
    C10.Bnd (M + (writeTouches g l names).2.2) (writeTouches g l names).1 := by
  induction names with
  | nil => intro l M h; exact h
  | cons n ns ih =>
    intro l M h
    rw [Step.writeTouches_cons]
    simp only
    rw [← Nat.add_assoc]
    exact ih _ _ (writeEntry_bndB g l _ M h)

theorem runGc_bndB (l : Log) (order : List Bytes) (M : Nat) (h : C10.Bnd M l) :
    C10.Bnd (M + (runGc g l order).2.2) (runGc g l order).1 := by
  rcases Step.runGc_cases g l order with hr | hr
  · rw [hr]; exact h
  · rw [hr]
    simp only
    have hb := writeTouches_bndB g (Step.gcNames l order) l M h
    refine ⟨hb.1, fun f hf => hb.2 f ?_⟩
    have hsplit := Step.gcFiles_split
      ((writeTouches g l (Step.gcNames l order)).1.canDelete l.cur) (writeTouches g l (Step.gcNames l order)).1.files
    rw [← hsplit]
    exact List.mem_append_right _ hf

/-- **File numbers vs. bytes.** A call moves the file numbers up by at most the number of WAL
    bytes it reports (`wal_bytes_written`): every roll-over is caused by a non-empty buffer. -/
theorem step_bndB (l : Log) (c : Call) (tick : Bool) (order : List Bytes) (M : Nat) (h : C10.Bnd M l) :
    C10.Bnd (M + Step.outBytes (step g l c tick order).2.1) (step g l c tick order).1 := by
  rcases Step.step_shape g l c tick order with ⟨out, hs, hb⟩ | ⟨a, hs⟩ | ⟨e, qs', gc, sy, out, hs, hb, _⟩
  · rw [hs]; simp only [hb, Nat.add_zero]; exact h
  · rw [hs]; exact h
  · rw [hs]
    simp only [hb]
    have h1 := writeEntry_bndB g l e M h
    have h2 : C10.Bnd (M + (l.writeEntry g e).2.2) { (l.writeEntry g e).1 with queues := qs' } := h1
    cases gc with
    | false => simp only [Bool.false_eq_true, if_false, Nat.add_zero]; exact h2
    | true =>
      simp only [if_true]
      rw [← Nat.add_assoc]
      exact runGc_bndB g _ order _ h2

/-- **C05B (1), `Bnd` form** (the file hypothesis of C10): `M` bounds the current and the tracked
    file numbers, and `M` plus the WAL bytes the call reports fits a `u64`. -/
theorem stepP_agrees (l : Log) (c : Call) (tick : Bool) (order : List Bytes) (K M : Nat)
    (hpos : PosBnd K l) (hK : K < U64MAX) (hc : CallOK K c)
    (hfiles : C10.Bnd M l) (hM : M + Step.outBytes (step g l c tick order).2.1 ≤ U64MAX) :
    stepP g l c tick order = .ok (step g l c tick order) ∧
    C10.Bnd (M + Step.outBytes (step g l c tick order).2.1) (step g l c tick order).1 := by
  have hb := step_bndB g l c tick order M hfiles
  exact ⟨stepP_agrees_cur g l c tick order K hpos hK hc (Nat.le_trans hb.1 hM), hb⟩

/-! ### (2) the bound along runs -/

/-- the largest next position a call can install, in a state bounded by `K` -/
def callTop (K : Nat) : Call → Nat
  | .append _ (some p) pls => p + pls.length
  | .append _ none pls => K + pls.length
  | .truncate _ p => p + 1
  | _ => 0

theorem PosBnd.set {K : Nat} {l l' : Log} {q : Bytes} {mq : MemQueue} (h : PosBnd K l)
    (hq : l'.queues = l.queues.set q mq) (hm : mq.nextPosition ≤ K) : PosBnd K l' := by
  intro kv hkv
  rw [hq] at hkv
  rcases mem_set hkv with hkv | rfl
  · exact h kv hkv
  · exact hm

/-- positions after a call: under the representation invariant, every next position is at most
    `max K (callTop K c)` -/
theorem step_posBnd (l : Log) (hI : C05.Inv l) (c : Call) (tick : Bool) (order : List Bytes) (K : Nat)
    (hpos : PosBnd K l) : PosBnd (max K (callTop K c)) (step g l c tick order).1 := by
  have hmono : PosBnd (max K (callTop K c)) l := hpos.mono (Nat.le_max_left _ _)
  cases c with
  | persist a => exact hmono
  | create q =>
    cases hg : l.queues.get? q with
    | some mq => rw [step_create_some g l tick order q mq hg]; exact hmono
    | none =>
      obtain ⟨hq, _⟩ := step_create_none g l tick order q hg
      exact hmono.set hq (Nat.zero_le _)
  | delete q =>
    cases hg : l.queues.get? q with
    | none => rw [step_delete_none g l tick order q hg]; exact hmono
    | some mq =>
      obtain ⟨hq, _⟩ := step_delete_some g l tick order q mq hg
      intro kv hkv
      rw [hq] at hkv
      exact hmono kv (mem_remove hkv)
  | truncate q p =>
    cases hg : l.queues.get? q with
    | none => rw [step_truncate_none g l tick order q p hg]; exact hmono
    | some mq =>
      obtain ⟨hq, _⟩ := step_truncate_some g l tick order q p mq hg
      have hqi := hI.get hg
      obtain ⟨_, hn, _⟩ := MemQueue.truncateHead_spec mq p hqi.1 hqi.2
      refine hmono.set hq ?_
      rw [hn]
      have := hpos.get hg
      simp only [callTop]
      omega
  | append q pos? pls =>
    cases hg : l.queues.get? q with
    | none => rw [step_append_none g l tick order q pos? pls hg]; exact hmono
    | some mq =>
      cases hs : appendStart mq pos? with
      | none => rw [step_noop_of_start_none g l q mq pos? pls tick order hg hs]; exact hmono
      | some pos =>
        obtain ⟨hle, hp⟩ := appendStart_some hs
        cases hne : pls.isEmpty with
        | true =>
          have hnil : pls = [] := List.isEmpty_iff.mp hne
          subst hnil
          rw [step_append_empty g l tick order q mq pos? hg (by
            intro p hpp
            rcases hp with h | ⟨h, _⟩
            · rw [hpp] at h; cases h; exact hle
            · rw [hpp] at h; cases h)]
          exact hmono
        | false =>
          obtain ⟨mq', hall, heq⟩ := step_append_eq g l q mq pos? pls pos tick order hg hs hne
          have hqi := hI.get hg
          obtain ⟨mq'', hall', _, hn, _⟩ := appendAll_spec l.cur pls mq pos hqi.1 hqi.2 hle
          rw [hall] at hall'
          cases hall'
          have hnn : pls ≠ [] := by intro h; rw [h] at hne; cases hne
          rw [heq]
          refine hmono.set (l := l) (q := q) (mq := mq') ?_ ?_
          · simp only
            rw [Step.writeEntry_queues]
          · rw [hn hnn]
            have := hpos.get hg
            rcases hp with rfl | ⟨rfl, rfl⟩
            · simp only [callTop]; omega
            · simp only [callTop]; omega

end

/-- the twin of `C05.run`: stop at the first panic -/
def runP (g : Geom) (l : Log) : List (Call × Bool × List Bytes) → Except (List Effect) Log
  | [] => .ok l
  | (c, tick, order) :: cs =>
    match stepP g l c tick order with
    | .error es => .error es
    | .ok r => runP g r.1 cs

/-- explicit append positions and truncate bounds of a call are below `P` -/
def CallBelow (P : Nat) : Call → Prop
  | .append _ (some p) _ => p < P
  | .truncate _ p => p < P
  | _ => True

/-- number of records a call appends at most -/
def callRecs : Call → Nat
  | .append _ _ pls => pls.length
  | _ => 0

def histRecs (cs : List (Call × Bool × List Bytes)) : Nat := (cs.map fun x => callRecs x.1).sum

/-- WAL bytes reported by the calls of a run of the `Nat` model -/
def histBytes (g : Geom) (l : Log) (cs : List (Call × Bool × List Bytes)) : Nat :=
  ((C05.outcomes g l cs).map Step.outBytes).sum

/-- **C05B (2).** From a log that satisfies the representation invariant, whose next positions are
    at most `K` and whose file numbers are at most `M`: a history whose explicit positions and
    truncate bounds are below `P`, that appends at most `R` records with `max K P + R < u64::MAX`,
    and whose calls report at most `u64::MAX - M` WAL bytes in total, never panics — the checked
    code computes exactly the run of the `Nat` model. -/
theorem run_no_panic (g : Geom) (P : Nat) (cs : List (Call × Bool × List Bytes)) :
    ∀ (l : Log) (K M : Nat), C05.Inv l → PosBnd K l → C10.Bnd M l → P ≤ K →
      (∀ x ∈ cs, CallBelow P x.1) → K + histRecs cs < U64MAX → M + histBytes g l cs ≤ U64MAX →
      runP g l cs = .ok (C05.run g l cs) ∧
      PosBnd (K + histRecs cs) (C05.run g l cs) ∧ C10.Bnd (M + histBytes g l cs) (C05.run g l cs) := by
  induction cs with
  | nil => intro l K M _ hpos hb _ _ _ _; exact ⟨rfl, hpos, hb⟩
  | cons x cs ih =>
    intro l K M hI hpos hb hPK hbelow hrec hbytes
    obtain ⟨c, tick, order⟩ := x
    simp only [histRecs, List.map_cons, List.sum_cons] at hrec
    simp only [histBytes, C05.outcomes, List.map_cons, List.sum_cons] at hbytes
    have hcb : CallBelow P c := hbelow (c, tick, order) List.mem_cons_self
    have hcok : CallOK K c := by
      cases c with
      | append q pos? pls =>
        cases pos? with
        | none => simp only [CallOK, callRecs] at hrec ⊢; omega
        | some p =>
          have : p < P := hcb
          simp only [CallOK, callRecs] at hrec ⊢; omega
      | truncate q p => have : p < P := hcb; simp only [CallOK]; omega
      | create q => trivial
      | delete q => trivial
      | persist a => trivial
    obtain ⟨hok, hb'⟩ := stepP_agrees g l c tick order K M hpos (by omega) hcok hb (by omega)
    have htop : max K (callTop K c) ≤ K + callRecs c := by
      cases c with
      | append q pos? pls =>
        cases pos? with
        | none => simp only [callTop, callRecs]; omega
        | some p => have : p < P := hcb; simp only [callTop, callRecs]; omega
      | truncate q p => have : p < P := hcb; simp only [callTop, callRecs]; omega
      | create q => simp [callTop, callRecs]
      | delete q => simp [callTop, callRecs]
      | persist a => simp [callTop, callRecs]
    have hpos' : PosBnd (K + callRecs c) (step g l c tick order).1 :=
      (step_posBnd g l hI c tick order K hpos).mono htop
    have hI' : C05.Inv (step g l c tick order).1 := (C05.C05_refines g l hI c tick order).2.2
    obtain ⟨h1, h2, h3⟩ := ih (step g l c tick order).1 (K + callRecs c)
      (M + Step.outBytes (step g l c tick order).2.1) hI' hpos' hb' (by omega)
      (fun x hx => hbelow x (List.mem_cons_of_mem _ hx))
      (by unfold histRecs; omega) (by unfold histBytes; omega)
    refine ⟨?_, ?_, ?_⟩
    · simp only [runP, hok, C05.run]
      exact h1
    · simp only [C05.run, histRecs, List.map_cons, List.sum_cons]
      rw [← Nat.add_assoc]; exact h2
    · simp only [C05.run, histBytes, C05.outcomes, List.map_cons, List.sum_cons]
      rw [← Nat.add_assoc]; exact h3

/-- the log right after `open` created `wal-0` in an empty directory (`l0` of `C01Restart.rinv_init`) -/
def fresh (policy : Policy) : Log := { files := [0], cur := 0, off := 0, queues := [], policy := policy }

/-- **C05B (2), from the fresh log**, with the quantifier of the properties: explicit positions
    and truncate bounds below `2^62`, fewer than `2^62` records appended, fewer than `2^63` WAL
    bytes reported. No call panics, every next position stays below `2^63`. -/
theorem fresh_no_panic (g : Geom) (policy : Policy) (cs : List (Call × Bool × List Bytes))
    (hbelow : ∀ x ∈ cs, CallBelow (2 ^ 62) x.1) (hrec : histRecs cs < 2 ^ 62)
    (hbytes : histBytes g (fresh policy) cs < 2 ^ 63) :
    runP g (fresh policy) cs = .ok (C05.run g (fresh policy) cs) ∧
    PosBnd (2 ^ 63) (C05.run g (fresh policy) cs) := by
  have hI : C05.Inv (fresh policy) := C05.Inv_empty [0] 0 0 policy
  have hpos : PosBnd (2 ^ 62) (fresh policy) := fun kv hkv => by cases hkv
  have hb : C10.Bnd 0 (fresh policy) := ⟨Nat.le_refl _, fun f hf => by
    simp only [fresh, List.mem_singleton] at hf; omega⟩
  have hU : U64MAX = 2 ^ 64 - 1 := rfl
  obtain ⟨h1, h2, _⟩ := run_no_panic g (2 ^ 62) cs (fresh policy) (2 ^ 62) 0 hI hpos hb (Nat.le_refl _) hbelow
    (by omega) (by omega)
  exact ⟨h1, h2.mono (by omega)⟩

/-! ### (3) the bounds are needed -/

section
variable (g : Geom) (l : Log) (tick : Bool) (order : List Bytes)

/-- **Finding (F4 on the API path).** `truncate(q, ..=u64::MAX)` on an existing queue (whose start
    position fits a `u64`) panics in `truncate_head` (`truncate_up_to_pos + 1`, mem/queue.rs:172)
    *after* the `Truncate` entry has been handed to the writer (multi_record_log.rs:275-280): the
    partial effect is the whole `write_record`. On restart the replay of that entry panics again
    (C10, `truncatePanics`). -/
theorem truncate_at_max_panics (q : Bytes) (mq : MemQueue) (hg : l.queues.get? q = some mq)
    (hs : mq.start ≤ U64MAX) (hw : writeEntryPanics g l (.truncate q U64MAX) = false) :
    stepP g l (.truncate q U64MAX) tick order = .error (l.writeEntry g (.truncate q U64MAX)).2.1 := by
  have ht : truncatePanics mq U64MAX = true := by
    unfold truncatePanics
    rw [if_neg (by omega)]
    simp
  unfold stepP
  simp only [hg, hw, ht, Bool.false_eq_true, if_false, if_true]

/-- an explicit position at `u64::MAX` panics at once (`position + 1`, multi_record_log.rs:190),
    whatever the queue holds and whatever the payloads — also for an empty batch; nothing has
    been written -/
theorem append_at_max_panics (q : Bytes) (mq : MemQueue) (pls : List Bytes) (hg : l.queues.get? q = some mq) :
    stepP g l (.append q (some U64MAX) pls) tick order = .error [] := by
  unfold stepP
  simp only [hg]
  split
  · rfl
  · have : explicitAtMax (some U64MAX) = true := by simp [explicitAtMax]
    rw [if_pos this]

/-- `CallOK` is tight for appends: a batch that would end at `u64::MAX - 1` or above panics in
    `MultiRecord::serialize` (`(position..).zip(..)`, record.rs:228) before anything is written -/
theorem append_serialize_panics (q : Bytes) (mq : MemQueue) (pos? : Option Nat) (pls : List Bytes) (pos : Nat)
    (hg : l.queues.get? q = some mq) (hs : appendStart mq pos? = some pos) (hp : U64MAX ≤ pos + pls.length) :
    stepP g l (.append q pos? pls) tick order = .error [] := by
  unfold stepP
  simp only [hg, hs, if_pos hp]
  repeat' (first | rfl | split)

end

/-- 19-byte blocks, one block per file: a 12-byte entry fills a file -/
abbrev g19 : Geom := C10.g19

/-- one empty queue, nothing written yet -/
def lq : Log := { files := [0], cur := 0, off := 0, queues := [([1], {})], policy := .doNothing }

theorem lq_writes (e : Entry) (hlen : e.encode.length = 12) :
    writeEntryPanics g19 lq e = false ∧
    (lq.writeEntry g19 e).2.1 = [.write 0 0 (encodeFrame .full e.encode)] ∧
    (lq.writeEntry g19 e).1 = { lq with off := 19 } := by
  have hb : entryBufsOf g19 lq e = [encodeFrame .full e.encode] :=
    C10.entryBufsOf_one g19 lq e (by rw [hlen]; decide)
  have hl : (encodeFrame .full e.encode).length = 19 := by
    rw [Step.encodeFrame_length, hlen]
  have hne : (encodeFrame .full e.encode).isEmpty = false := by
    cases h : encodeFrame .full e.encode with
    | nil => rw [h] at hl; cases hl
    | cons a b => rfl
  have hfit : ¬ (lq.off + 19 > g19.fileBytes) := by decide
  refine ⟨?_, ?_, ?_⟩
  · simp only [writeEntryPanics, hb, writeBufsPanics, writeBufPanics, hne, hl]
    decide
  · rw [Step.writeEntry_eq]
    show (writeBufs g19 lq (entryBufsOf g19 lq e)).2 = _
    rw [hb]
    simp only [writeBufs, writeBuf, hne, hl, Bool.false_eq_true, if_false, if_neg hfit, List.append_nil]
    rfl
  · rw [Step.writeEntry_eq]
    show (writeBufs g19 lq (entryBufsOf g19 lq e)).1 = _
    rw [hb]
    simp only [writeBufs, writeBuf, hne, hl, Bool.false_eq_true, if_false, if_neg hfit]
    rfl

/-- **Witness 1.** `truncate(q, ..=u64::MAX)` on a fresh queue: the 19-byte frame of the `Truncate`
    entry is written to `wal-0` at offset 0, then `truncate_head` panics. -/
theorem witness_truncate_max :
    stepP g19 lq (.truncate [1] U64MAX) false [] =
      .error [.write 0 0 (encodeFrame .full (Entry.truncate [1] U64MAX).encode)] ∧
    stepPanics g19 lq (.truncate [1] U64MAX) false [] = true ∧
    -- one below: no panic
    stepP g19 lq (.truncate [1] (U64MAX - 1)) false [] = .ok (step g19 lq (.truncate [1] (U64MAX - 1)) false []) := by
  have hlen : (Entry.truncate [1] U64MAX).encode.length = 12 := by
    simp [Entry.encode, Entry.encodeRaw, Step.leBytes_length]
  obtain ⟨hw, he, _⟩ := lq_writes _ hlen
  have h1 := truncate_at_max_panics g19 lq false [] [1] {} (by decide) (by decide) hw
  rw [he] at h1
  refine ⟨h1, ?_, ?_⟩
  · unfold stepPanics; rw [h1]
  · have hlen' : (Entry.truncate [1] (U64MAX - 1)).encode.length = 12 := by
      simp [Entry.encode, Entry.encodeRaw, Step.leBytes_length]
    obtain ⟨hw', _, hst⟩ := lq_writes _ hlen'
    have hgc : ∀ qs, runGcPanics g19 { (lq.writeEntry g19 (.truncate [1] (U64MAX - 1))).1 with queues := qs } [] = false := by
      intro qs
      rw [hst]
      rfl
    unfold stepP
    have hg : lq.queues.get? [1] = some {} := by decide
    have ht : truncatePanics ({} : MemQueue) (U64MAX - 1) = false := by decide
    simp only [hg, hw', ht, hgc, Bool.false_eq_true, if_false]

/-- **Witness 2.** `append(q, Some(u64::MAX), [p])` on a fresh queue panics (checked build) before
    anything is written; so does **witness 3**, the same call with an empty batch — while the `Nat`
    model accepts the first (a record at `u64::MAX`) and makes the second a no-op. One record
    can be appended at `u64::MAX - 2`, none at `u64::MAX - 1`. -/
theorem witness_append_max :
    stepP g19 lq (.append [1] (some U64MAX) [[7]]) false [] = .error [] ∧
    stepP g19 lq (.append [1] (some U64MAX) []) false [] = .error [] ∧
    (step g19 lq (.append [1] (some U64MAX) []) false []) = (lq, .appended none 0, []) ∧
    (step g19 lq (.append [1] (some U64MAX) [[7]]) false []).2.1 ≠ .past ∧
    stepP g19 lq (.append [1] (some (U64MAX - 1)) [[7]]) false [] = .error [] ∧
    stepP g19 lq (.append [1] (some (U64MAX - 1)) []) false [] =
      .ok (step g19 lq (.append [1] (some (U64MAX - 1)) []) false []) := by
  have hg : lq.queues.get? [1] = some {} := by decide
  refine ⟨append_at_max_panics g19 lq false [] [1] {} _ hg, append_at_max_panics g19 lq false [] [1] {} _ hg,
    ?_, ?_, ?_, ?_⟩
  · exact step_append_empty g19 lq false [] [1] {} (some U64MAX) hg (fun p hp => Nat.zero_le _)
  · obtain ⟨_, n, hn⟩ := step_append_ok g19 lq false [] [1] {} _ (some U64MAX) [[7]] hg
      (fun p _ => Nat.zero_le _) (by simp) rfl
    rw [hn]; intro h; cases h
  · exact append_serialize_panics g19 lq false [] [1] {} (some (U64MAX - 1)) [[7]] (U64MAX - 1) hg (by decide) (by decide)
  · unfold stepP
    simp only [hg]
    have h1 : ({} : MemQueue).poisoned = false := rfl
    have h2 : explicitAtMax (some (U64MAX - 1)) = false := by decide
    have h3 : appendStart ({} : MemQueue) (some (U64MAX - 1)) = some (U64MAX - 1) := by decide
    have h4 : ¬ U64MAX ≤ U64MAX - 1 + ([] : List Bytes).length := by decide
    simp only [h1, h2, h3, Bool.false_eq_true, if_false]
    rw [if_neg h4]
    rfl

/-- **Witness 4 (implicit position).** After `truncate(q, ..=u64::MAX - 1)` — which does not panic —
    the queue's next position is `u64::MAX`: every later `append(q, None, _)`, even of an empty
    batch, panics in `MultiRecord::serialize`. -/
theorem witness_implicit_max (g : Geom) (l : Log) (q : Bytes) (pls : List Bytes) (tick : Bool) (order : List Bytes)
    (hg : l.queues.get? q = some (MemQueue.withNextPosition U64MAX)) :
    stepP g l (.append q none pls) tick order = .error [] :=
  append_serialize_panics g l tick order q _ none pls U64MAX hg rfl (Nat.le_add_right _ _)

/-- the current file is `u64::MAX` and full -/
def lfull : Log := { files := [U64MAX], cur := U64MAX, off := 19, queues := [], policy := .doNothing }

/-- **Witness 5 (file numbers).** `create_queue` when the current file `u64::MAX` is full: the
    roll-over flushes and syncs, then `FileTracker::inc` overflows (rolling/file_number.rs:59). -/
theorem witness_file_max :
    stepP g19 lfull (.create [1]) false [] = .error [.flush, .fsyncFile U64MAX, .fsyncDir] := by
  have hlen : (Entry.touch [1] 0).encode.length = 12 := by decide
  have hb : entryBufsOf g19 lfull (.touch [1] 0) = [encodeFrame .full (Entry.touch [1] 0).encode] :=
    C10.entryBufsOf_one g19 lfull _ (by decide)
  have hl : (encodeFrame .full (Entry.touch [1] 0).encode).length = 19 := by
    rw [Step.encodeFrame_length, hlen]
  have hne : (encodeFrame .full (Entry.touch [1] 0).encode).isEmpty = false := by
    cases h : encodeFrame .full (Entry.touch [1] 0).encode with
    | nil => rw [h] at hl; cases hl
    | cons a b => rfl
  have hp : writeBufPanics g19 lfull (encodeFrame .full (Entry.touch [1] 0).encode) = true := by
    simp only [writeBufPanics, hne, hl]
    decide
  unfold stepP
  have hc : lfull.queues.contains [1] = false := rfl
  simp only [hc, Bool.false_eq_true, if_false, writeEntryPanics, writeEntryPre, hb, writeBufsPanics, writeBufsPre,
    hp, Bool.true_or, if_true]
  rfl

end MRL.C05B
