/-
C10, oversize: no image the log itself produces — clean restarts and crashes at ANY byte included
— has a file longer than the nominal size, so on all of them `open` as the code does it since fix
F6 (`recoverC = recover ∘ clipImage`) IS `recover`. Every theorem stated with `recover` on reachable
images, on the crash images of a call and on the crash images of `open` itself is a theorem about
`recoverC`.

* `noOversize_of_cinvx`: the relaxed invariant `CInvX` gives full-size or empty files (`P.foe_of_cinvx`).
* `reach_noOversize` (`C02U.ReachX`), `reachD_noOversize` (`C01R.ReachD`): the flushed disk.
* `crash_noOversize`: every crash image `crashImage img ops k cut` of a call from a `ReachX` call
  boundary — exactly the images `C02U.ReachX.crash` ranges over (same hypotheses: `b.pend = []`,
  serialisable entries, the CRC clause `TornStep`).
* `crash2_noOversize`: every crash image of `open` itself (those of `C02U.ReachX.crash2`).
* `recoverC_reach`, `recoverC_reachD`, `recoverC_crash`, `recoverC_crash2`: `recoverC = recover` there.
-/
import MRL.Props.C10Oversize
import MRL.Props.C03PosixX

namespace MRL.C10V
open MRL Log C10A C01J G H L Buf Codec

theorem noOversize_of_foe {g : Geom} {X : Image} (h : P.FullOrEmpty g.fileBytes X) : NoOversize g X := by
  intro kv hkv
  rcases h kv hkv with h1 | h1
  · exact Nat.le_of_eq h1
  · rw [h1]; exact Nat.zero_le _

theorem noOversize_of_cinvx {g : Geom} {l : Log} {J : List JE} {D : Image} (h : L.CInvX g l J D) :
    NoOversize g D := noOversize_of_foe (P.foe_of_cinvx h)

theorem noOversize_of_xinvres {g : Geom} {qB qA : MemQueues} {X : Image} (h : XInvRes g qB qA X) :
    NoOversize g X := by
  obtain ⟨_, _, _, _, _, _, hc, _⟩ := h .doNothing
  exact noOversize_of_cinvx hc

/-- **(a)** every state reachable with restarts and crashes: the flushed disk has no oversized file -/
theorem reach_noOversize (g : Geom) (hB : g.B ≤ 65542) (cap : Nat) {l : Log} {img : Image} {b : BufSt}
    (h : C02U.ReachX g cap l img b) : NoOversize g (C02U.flushDisk img b) := by
  obtain ⟨⟨J, hc, _⟩, _⟩ := C02U.reachX_inv g hB cap h
  exact noOversize_of_cinvx hc

theorem reachD_noOversize (g : Geom) (hB : g.B ≤ 65542) (cap : Nat) {l : Log} {J : List JE} {img : Image}
    {b : BufSt} (h : C01R.ReachD g cap l J img b) (hwf : ∀ j ∈ J, C07.WF j.e) :
    NoOversize g (C01R.flushDisk img b) :=
  reach_noOversize g hB cap (C02U.ReachX.base h hwf)

/-- **(a′)** every crash image of a call from a `ReachX` call boundary -/
theorem crash_noOversize (g : Geom) (hB : g.B ≤ 65542) (cap : Nat) {l : Log} {img : Image} {b : BufSt}
    (h : C02U.ReachX g cap l img b) (hb : b.pend = []) (c : Call) (tick : Bool) (order : List Bytes)
    (hfits : ∀ j ∈ l.stepJ g c order, C07.WF j.e) (htorn : C02A.TornStep g l c tick order) (k cut : Nat) :
    NoOversize g (crashImage img (toOsOps cap b (l.step g c tick order).2.2).2 k cut) := by
  obtain ⟨⟨J, hc, hw⟩, st, hinv, hclean⟩ := C02U.reachX_inv g hB cap h
  rw [C02U.flushDisk_of_empty img b hb] at hc
  obtain ⟨st', hrun, _⟩ := C14.step_Disc g l c tick order st hclean
  have hcut := crash_cut cap _ b st st' img hinv hrun k cut
  rw [pendW_nil b hb, List.nil_append] at hcut
  have hfits' : ∀ j ∈ J ++ l.stepJ g c order, C07.WF j.e := by
    intro j hj
    rcases List.mem_append.mp hj with hj | hj
    · exact hw j hj
    · exact hfits j hj
  exact noOversize_of_xinvres (call_cutX g hB hc c tick order hfits' htorn false _ (CutW.of_cutState hcut))

/-- **(a″)** every crash image of `open` itself on a `ReachX` state -/
theorem crash2_noOversize (g : Geom) (hB : g.B ≤ 65542) (cap : Nat) {l : Log} {img : Image} {b : BufSt}
    (h : C02U.ReachX g cap l img b) (policy : Policy) (order : List Bytes) (lp0 : Log)
    (e00 : List Effect) (io0 : Nat) (r0 : Recovered)
    (hpre0 : recoverPre g (C02U.flushDisk img b) policy none = .ok (lp0, e00, io0))
    (hrec0 : recover g (C02U.flushDisk img b) policy order none = .ok r0)
    (hgw0 : ∀ j ∈ lp0.gcJ g order, C07.WF j.e) (htorn : TornEffs r0.effects) (k cut : Nat) :
    NoOversize g (crashImage (C02U.flushDisk img b) (toOsOps cap {} r0.effects).2 k cut) := by
  obtain ⟨⟨J, hc, hw⟩, _⟩ := C02U.reachX_inv g hB cap h
  obtain ⟨_, ⟨st', hrun⟩, hcut⟩ := C02U.recover_boundary g hB hc hw policy order lp0 e00 io0 r0 hpre0 hrec0 hgw0 htorn
  have hX := crash_cut cap _ {} none st' (C02U.flushDisk img b) (Buf.inv_empty cap none) hrun k cut
  have hn : pendW ({} : BufSt) = [] := rfl
  rw [hn, List.nil_append] at hX
  exact noOversize_of_xinvres (hcut false _ (CutW.of_cutState hX))

/-! ### `recoverC` is `recover` on all of them -/

/-- **(b)** -/
theorem recoverC_reach (g : Geom) (hB : g.B ≤ 65542) (cap : Nat) {l : Log} {img : Image} {b : BufSt}
    (h : C02U.ReachX g cap l img b) (policy : Policy) (order : List Bytes) (failAt : Option Nat) :
    recoverC g (C02U.flushDisk img b) policy order failAt = recover g (C02U.flushDisk img b) policy order failAt :=
  recoverC_eq_recover g _ policy order failAt (reach_noOversize g hB cap h)

theorem recoverC_reachD (g : Geom) (hB : g.B ≤ 65542) (cap : Nat) {l : Log} {J : List JE} {img : Image}
    {b : BufSt} (h : C01R.ReachD g cap l J img b) (hwf : ∀ j ∈ J, C07.WF j.e) (policy : Policy)
    (order : List Bytes) (failAt : Option Nat) :
    recoverC g (C01R.flushDisk img b) policy order failAt = recover g (C01R.flushDisk img b) policy order failAt :=
  recoverC_eq_recover g _ policy order failAt (reachD_noOversize g hB cap h hwf)

theorem recoverC_crash (g : Geom) (hB : g.B ≤ 65542) (cap : Nat) {l : Log} {img : Image} {b : BufSt}
    (h : C02U.ReachX g cap l img b) (hb : b.pend = []) (c : Call) (tick : Bool) (order : List Bytes)
    (hfits : ∀ j ∈ l.stepJ g c order, C07.WF j.e) (htorn : C02A.TornStep g l c tick order) (k cut : Nat)
    (policy' : Policy) (order' : List Bytes) (failAt : Option Nat) :
    recoverC g (crashImage img (toOsOps cap b (l.step g c tick order).2.2).2 k cut) policy' order' failAt =
      recover g (crashImage img (toOsOps cap b (l.step g c tick order).2.2).2 k cut) policy' order' failAt :=
  recoverC_eq_recover g _ policy' order' failAt (crash_noOversize g hB cap h hb c tick order hfits htorn k cut)

theorem recoverC_crash2 (g : Geom) (hB : g.B ≤ 65542) (cap : Nat) {l : Log} {img : Image} {b : BufSt}
    (h : C02U.ReachX g cap l img b) (policy : Policy) (order : List Bytes) (lp0 : Log)
    (e00 : List Effect) (io0 : Nat) (r0 : Recovered)
    (hpre0 : recoverPre g (C02U.flushDisk img b) policy none = .ok (lp0, e00, io0))
    (hrec0 : recover g (C02U.flushDisk img b) policy order none = .ok r0)
    (hgw0 : ∀ j ∈ lp0.gcJ g order, C07.WF j.e) (htorn : TornEffs r0.effects) (k cut : Nat)
    (policy' : Policy) (order' : List Bytes) (failAt : Option Nat) :
    recoverC g (crashImage (C02U.flushDisk img b) (toOsOps cap {} r0.effects).2 k cut) policy' order' failAt =
      recover g (crashImage (C02U.flushDisk img b) (toOsOps cap {} r0.effects).2 k cut) policy' order' failAt :=
  recoverC_eq_recover g _ policy' order' failAt
    (crash2_noOversize g hB cap h policy order lp0 e00 io0 r0 hpre0 hrec0 hgw0 htorn k cut)

end MRL.C10V
