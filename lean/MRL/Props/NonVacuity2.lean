/-
Non-vacuity of the `ReachD`-level damage theorems (no crash in the history).

TASK-1 ANSWER. The clause `Img.NoAccidentalFrameImg g W W'` (used by `C08V.C08_recover_genuine`,
`C12V.C12_recover_damage`) is NOT vacuous. It quantifies over the frame layouts `fs` of the tape of `W`
(`TapeLayout`: the stream is the layout of `fs`, then ZEROS — no free residue as in `ItemTape`), and on
a clean image that layout is unique (`Img.tapeLayout_unique`, `MRL/Proofs/Img5Clean.lean`);
`Img.noAccImg_of_clean` derives the clause from the decidable `Img.CleanDamage`. Below it is
established on a concrete non-trivial reachable state, for the undamaged image and for a damaged
one, and the three theorems are instantiated with non-trivial conclusions. The existential layout
of `C09V.C09_recover_one_frame_all` is INSTANTIATED (uniqueness), not only illustrated.
The other clauses: `C08G.NoAccidentalFrame` is a hypothesis on an explicit layout and is witnessed
in `C08Genuine.lean` (`exCheck`, `exNoAcc`); `C02A.TornStep` and `C03D.TornRun` were discharged on
concrete calls in `NonVacuityHistory.lean` (`torn2`, `torn6`) and `NonVacuity.lean` (`tornC`, `tornE`).

History 2 (geometry `B = 16`, `K = 2`, capacity 0, no crash), from the empty directory:
`open`; `create_queue "a"`; `append [[1],[2]]` (A), `append [[3],[4]]` (B), `append [[5],[6]]` (C) — each
entry is 5–6 frames and rolls over two or three times; `truncate "a" ..=1` — its GC pass unlinks
`wal-0`, `wal-1`, `wal-2`. State `T*` = (`t4.1`, `JJ`, `jm4`, empty buffer): 7 files, 16 frames (the Last
frame of A as a lead frame, B and C live with 6 frames each, the truncate entry).
-/
import MRL.Props.NonVacuity
import MRL.Proofs.Img5Clean
import MRL.Props.C09Close

namespace MRL.NV2
open MRL Log Twin Codec Img Gen NV
set_option maxRecDepth 100000

def a1 : Call := .append [97] none [[1],[2]]

def t1 : Log × Outcome × List Effect :=
  ({ files := [0, 1, 2, 3], cur := 3, off := 9, queues := [([97], { start := 0, recs := [{ pos := 0, payload := [1], file := none }, { pos := 1, payload := [2], file := some 0 }] })], policy := MRL.Policy.doNothing }, MRL.Outcome.appended (some 1) 79, [MRL.Effect.write 0 26 [0, 0, 0, 0, 0, 0],
    MRL.Effect.flush,
    MRL.Effect.fsyncFile 0,
    MRL.Effect.fsyncDir,
    MRL.Effect.create 1,
    MRL.Effect.setLen 1 32,
    MRL.Effect.write 1 0 [71, 233, 147, 186, 9, 0, 2, 4, 0, 0, 0, 0, 0, 0, 0, 0],
    MRL.Effect.write 1 16 [103, 128, 7, 50, 9, 0, 3, 1, 0, 97, 0, 0, 0, 0, 0, 0],
    MRL.Effect.flush,
    MRL.Effect.fsyncFile 1,
    MRL.Effect.fsyncDir,
    MRL.Effect.create 2,
    MRL.Effect.setLen 2 32,
    MRL.Effect.write 2 0 [183, 131, 19, 182, 9, 0, 3, 0, 0, 1, 0, 0, 0, 1, 1, 0],
    MRL.Effect.write 2 16 [66, 185, 127, 9, 9, 0, 3, 0, 0, 0, 0, 0, 0, 1, 0, 0],
    MRL.Effect.flush,
    MRL.Effect.fsyncFile 2,
    MRL.Effect.fsyncDir,
    MRL.Effect.create 3,
    MRL.Effect.setLen 3 32,
    MRL.Effect.write 3 0 [226, 16, 70, 22, 2, 0, 4, 0, 2]])

def jm1 : Image :=
  [(0, [205, 144, 137, 201, 9, 0, 2, 2, 0, 0, 0, 0, 0, 0, 0, 0, 178, 115, 81, 149, 3, 0, 4, 1, 0, 97, 0, 0, 0, 0, 0, 0]),
    (1, [71, 233, 147, 186, 9, 0, 2, 4, 0, 0, 0, 0, 0, 0, 0, 0, 103, 128, 7, 50, 9, 0, 3, 1, 0, 97, 0, 0, 0, 0, 0, 0]),
    (2, [183, 131, 19, 182, 9, 0, 3, 0, 0, 1, 0, 0, 0, 1, 1, 0, 66, 185, 127, 9, 9, 0, 3, 0, 0, 0, 0, 0, 0, 1, 0, 0]),
    (3, [226, 16, 70, 22, 2, 0, 4, 0, 2, 0, 0, 0, 0, 0, 0, 0, 0, 0, 0, 0, 0, 0, 0, 0, 0, 0, 0, 0, 0, 0, 0, 0])]

def t2 : Log × Outcome × List Effect :=
  ({ files := [0, 1, 2, 3, 4, 5], cur := 5, off := 25, queues := [([97], { start := 0, recs := [{ pos := 0, payload := [1], file := none }, { pos := 1, payload := [2], file := some 0 }, { pos := 2, payload := [3], file := none }, { pos := 3, payload := [4], file := some 3 }] })], policy := MRL.Policy.doNothing }, MRL.Outcome.appended (some 3) 80, [MRL.Effect.write 3 9 [161, 142, 12, 60, 0, 0, 2],
    MRL.Effect.write 3 16 [4, 133, 116, 23, 9, 0, 3, 4, 2, 0, 0, 0, 0, 0, 0, 0],
    MRL.Effect.flush,
    MRL.Effect.fsyncFile 3,
    MRL.Effect.fsyncDir,
    MRL.Effect.create 4,
    MRL.Effect.setLen 4 32,
    MRL.Effect.write 4 0 [108, 33, 207, 127, 9, 0, 3, 1, 0, 97, 2, 0, 0, 0, 0, 0],
    MRL.Effect.write 4 16 [91, 53, 161, 135, 9, 0, 3, 0, 0, 1, 0, 0, 0, 3, 3, 0],
    MRL.Effect.flush,
    MRL.Effect.fsyncFile 4,
    MRL.Effect.fsyncDir,
    MRL.Effect.create 5,
    MRL.Effect.setLen 5 32,
    MRL.Effect.write 5 0 [66, 185, 127, 9, 9, 0, 3, 0, 0, 0, 0, 0, 0, 1, 0, 0],
    MRL.Effect.write 5 16 [215, 181, 37, 255, 2, 0, 4, 0, 4]])

def jm2 : Image :=
  [(0, [205, 144, 137, 201, 9, 0, 2, 2, 0, 0, 0, 0, 0, 0, 0, 0, 178, 115, 81, 149, 3, 0, 4, 1, 0, 97, 0, 0, 0, 0, 0, 0]),
    (1, [71, 233, 147, 186, 9, 0, 2, 4, 0, 0, 0, 0, 0, 0, 0, 0, 103, 128, 7, 50, 9, 0, 3, 1, 0, 97, 0, 0, 0, 0, 0, 0]),
    (2, [183, 131, 19, 182, 9, 0, 3, 0, 0, 1, 0, 0, 0, 1, 1, 0, 66, 185, 127, 9, 9, 0, 3, 0, 0, 0, 0, 0, 0, 1, 0, 0]),
    (3, [226, 16, 70, 22, 2, 0, 4, 0, 2, 161, 142, 12, 60, 0, 0, 2, 4, 133, 116, 23, 9, 0, 3, 4, 2, 0, 0, 0, 0, 0, 0, 0]),
    (4, [108, 33, 207, 127, 9, 0, 3, 1, 0, 97, 2, 0, 0, 0, 0, 0, 91, 53, 161, 135, 9, 0, 3, 0, 0, 1, 0, 0, 0, 3, 3, 0]),
    (5, [66, 185, 127, 9, 9, 0, 3, 0, 0, 0, 0, 0, 0, 1, 0, 0, 215, 181, 37, 255, 2, 0, 4, 0, 4, 0, 0, 0, 0, 0, 0, 0])]

def t3 : Log × Outcome × List Effect :=
  ({ files := [0, 1, 2, 3, 4, 5, 6, 7, 8], cur := 8, off := 9, queues := [([97], { start := 0, recs := [{ pos := 0, payload := [1], file := none }, { pos := 1, payload := [2], file := some 0 }, { pos := 2, payload := [3], file := none }, { pos := 3, payload := [4], file := some 3 }, { pos := 4, payload := [5], file := none }, { pos := 5, payload := [6], file := some 5 }] })], policy := MRL.Policy.doNothing }, MRL.Outcome.appended (some 5) 80, [MRL.Effect.write 5 25 [161, 142, 12, 60, 0, 0, 2],
    MRL.Effect.flush,
    MRL.Effect.fsyncFile 5,
    MRL.Effect.fsyncDir,
    MRL.Effect.create 6,
    MRL.Effect.setLen 6 32,
    MRL.Effect.write 6 0 [131, 140, 27, 209, 9, 0, 3, 4, 4, 0, 0, 0, 0, 0, 0, 0],
    MRL.Effect.write 6 16 [113, 194, 150, 169, 9, 0, 3, 1, 0, 97, 4, 0, 0, 0, 0, 0],
    MRL.Effect.flush,
    MRL.Effect.fsyncFile 6,
    MRL.Effect.fsyncDir,
    MRL.Effect.create 7,
    MRL.Effect.setLen 7 32,
    MRL.Effect.write 7 0 [111, 238, 118, 213, 9, 0, 3, 0, 0, 1, 0, 0, 0, 5, 5, 0],
    MRL.Effect.write 7 16 [66, 185, 127, 9, 9, 0, 3, 0, 0, 0, 0, 0, 0, 1, 0, 0],
    MRL.Effect.flush,
    MRL.Effect.fsyncFile 7,
    MRL.Effect.fsyncDir,
    MRL.Effect.create 8,
    MRL.Effect.setLen 8 32,
    MRL.Effect.write 8 0 [251, 212, 43, 17, 2, 0, 4, 0, 6]])

def jm3 : Image :=
  [(0, [205, 144, 137, 201, 9, 0, 2, 2, 0, 0, 0, 0, 0, 0, 0, 0, 178, 115, 81, 149, 3, 0, 4, 1, 0, 97, 0, 0, 0, 0, 0, 0]),
    (1, [71, 233, 147, 186, 9, 0, 2, 4, 0, 0, 0, 0, 0, 0, 0, 0, 103, 128, 7, 50, 9, 0, 3, 1, 0, 97, 0, 0, 0, 0, 0, 0]),
    (2, [183, 131, 19, 182, 9, 0, 3, 0, 0, 1, 0, 0, 0, 1, 1, 0, 66, 185, 127, 9, 9, 0, 3, 0, 0, 0, 0, 0, 0, 1, 0, 0]),
    (3, [226, 16, 70, 22, 2, 0, 4, 0, 2, 161, 142, 12, 60, 0, 0, 2, 4, 133, 116, 23, 9, 0, 3, 4, 2, 0, 0, 0, 0, 0, 0, 0]),
    (4, [108, 33, 207, 127, 9, 0, 3, 1, 0, 97, 2, 0, 0, 0, 0, 0, 91, 53, 161, 135, 9, 0, 3, 0, 0, 1, 0, 0, 0, 3, 3, 0]),
    (5, [66, 185, 127, 9, 9, 0, 3, 0, 0, 0, 0, 0, 0, 1, 0, 0, 215, 181, 37, 255, 2, 0, 4, 0, 4, 161, 142, 12, 60, 0, 0, 2]),
    (6, [131, 140, 27, 209, 9, 0, 3, 4, 4, 0, 0, 0, 0, 0, 0, 0, 113, 194, 150, 169, 9, 0, 3, 1, 0, 97, 4, 0, 0, 0, 0, 0]),
    (7, [111, 238, 118, 213, 9, 0, 3, 0, 0, 1, 0, 0, 0, 5, 5, 0, 66, 185, 127, 9, 9, 0, 3, 0, 0, 0, 0, 0, 0, 1, 0, 0]),
    (8, [251, 212, 43, 17, 2, 0, 4, 0, 6, 0, 0, 0, 0, 0, 0, 0, 0, 0, 0, 0, 0, 0, 0, 0, 0, 0, 0, 0, 0, 0, 0, 0])]

def t4 : Log × Outcome × List Effect :=
  ({ files := [3, 4, 5, 6, 7, 8, 9], cur := 9, off := 10, queues := [([97], { start := 2, recs := [{ pos := 2, payload := [3], file := none }, { pos := 3, payload := [4], file := some 3 }, { pos := 4, payload := [5], file := none }, { pos := 5, payload := [6], file := some 5 }] })], policy := MRL.Policy.doNothing }, MRL.Outcome.truncated 2 33, [MRL.Effect.write 8 9 [161, 142, 12, 60, 0, 0, 2],
    MRL.Effect.write 8 16 [168, 199, 108, 211, 9, 0, 3, 1, 1, 0, 0, 0, 0, 0, 0, 0],
    MRL.Effect.flush,
    MRL.Effect.fsyncFile 8,
    MRL.Effect.fsyncDir,
    MRL.Effect.create 9,
    MRL.Effect.setLen 9 32,
    MRL.Effect.write 9 0 [178, 115, 81, 149, 3, 0, 4, 1, 0, 97],
    MRL.Effect.flush,
    MRL.Effect.fsyncFile 9,
    MRL.Effect.fsyncDir,
    MRL.Effect.unlink 0,
    MRL.Effect.unlink 1,
    MRL.Effect.unlink 2])

def jm4 : Image :=
  [(3, [226, 16, 70, 22, 2, 0, 4, 0, 2, 161, 142, 12, 60, 0, 0, 2, 4, 133, 116, 23, 9, 0, 3, 4, 2, 0, 0, 0, 0, 0, 0, 0]),
    (4, [108, 33, 207, 127, 9, 0, 3, 1, 0, 97, 2, 0, 0, 0, 0, 0, 91, 53, 161, 135, 9, 0, 3, 0, 0, 1, 0, 0, 0, 3, 3, 0]),
    (5, [66, 185, 127, 9, 9, 0, 3, 0, 0, 0, 0, 0, 0, 1, 0, 0, 215, 181, 37, 255, 2, 0, 4, 0, 4, 161, 142, 12, 60, 0, 0, 2]),
    (6, [131, 140, 27, 209, 9, 0, 3, 4, 4, 0, 0, 0, 0, 0, 0, 0, 113, 194, 150, 169, 9, 0, 3, 1, 0, 97, 4, 0, 0, 0, 0, 0]),
    (7, [111, 238, 118, 213, 9, 0, 3, 0, 0, 1, 0, 0, 0, 5, 5, 0, 66, 185, 127, 9, 9, 0, 3, 0, 0, 0, 0, 0, 0, 1, 0, 0]),
    (8, [251, 212, 43, 17, 2, 0, 4, 0, 6, 161, 142, 12, 60, 0, 0, 2, 168, 199, 108, 211, 9, 0, 3, 1, 1, 0, 0, 0, 0, 0, 0, 0]),
    (9, [178, 115, 81, 149, 3, 0, 4, 1, 0, 97, 0, 0, 0, 0, 0, 0, 0, 0, 0, 0, 0, 0, 0, 0, 0, 0, 0, 0, 0, 0, 0, 0])]

def JJ : List JE :=
  [{ loc := 0, attr := 0, e := MRL.Entry.touch [97] 0 },
    { loc := 1, attr := 0, e := MRL.Entry.append [97] 0 [(0, [1]),
    (1, [2])] },
    { loc := 3, attr := 3, e := MRL.Entry.append [97] 2 [(2, [3]),
    (3, [4])] },
    { loc := 5, attr := 5, e := MRL.Entry.append [97] 4 [(4, [5]),
    (5, [6])] },
    { loc := 8, attr := 8, e := MRL.Entry.truncate [97] 1 }]

def QC : Recovered :=
  { log := { files := [3, 4, 5, 6, 7, 8, 9], cur := 9, off := 16, queues := [([97], { start := 2, recs := [{ pos := 2, payload := [3], file := none }, { pos := 3, payload := [4], file := some 3 }, { pos := 4, payload := [5], file := none }, { pos := 5, payload := [6], file := some 5 }] })], policy := MRL.Policy.doNothing }, effects := [MRL.Effect.ensureLen 3 32], ioCalls := 28 }

def QD : Recovered :=
  { log := { files := [3, 4, 5, 6, 7, 8, 9], cur := 9, off := 16, queues := [([97], { start := 2, recs := [{ pos := 2, payload := [3], file := none }, { pos := 3, payload := [4], file := some 3 }] })], policy := MRL.Policy.doNothing }, effects := [MRL.Effect.ensureLen 3 32], ioCalls := 28 }

/-! ### the state `T*` is reachable -/

theorem castD {g : Geom} {cap : Nat} {l l' : Log} {J J' : List JE} {img img' : Image} {b b' : BufSt}
    (h : C01R.ReachD g cap l J img b) (e1 : l = l') (e2 : J = J') (e3 : img = img') (e4 : b = b') :
    C01R.ReachD g cap l' J' img' b' := by subst e1 e2 e3 e4; exact h

theorem rd0 : C01R.ReachD g 0 R0.log [] img0 {} := reachD0

theorem rd1 : C01R.ReachD g 0 s1.1 (R0.log.stepJ g c1 []) img1 {} :=
  castD (C01R.ReachD.step c1 false [] rd0) (by rw [e_s1]) (by simp) (by rw [e_s1]; exact e_img1.1)
    (by rw [e_s1]; exact e_img1.2)

theorem e_t1 : s1.1.step g a1 false [] = t1 := by rw [step_twin]; decide +kernel
theorem e_jm1 : applyOsOps img1 (toOsOps 0 {} t1.2.2).2 = jm1 ∧ (toOsOps 0 {} t1.2.2).1 = {} := by decide +kernel
theorem e_t2 : t1.1.step g c3 false [] = t2 := by rw [step_twin]; decide +kernel
theorem e_jm2 : applyOsOps jm1 (toOsOps 0 {} t2.2.2).2 = jm2 ∧ (toOsOps 0 {} t2.2.2).1 = {} := by decide +kernel
theorem e_t3 : t2.1.step g c4 false [] = t3 := by rw [step_twin]; decide +kernel
theorem e_jm3 : applyOsOps jm2 (toOsOps 0 {} t3.2.2).2 = jm3 ∧ (toOsOps 0 {} t3.2.2).1 = {} := by decide +kernel
theorem e_t4 : t3.1.step g c6 false [] = t4 := by rw [step_twin]; decide +kernel
theorem e_jm4 : applyOsOps jm3 (toOsOps 0 {} t4.2.2).2 = jm4 ∧ (toOsOps 0 {} t4.2.2).1 = {} := by decide +kernel

theorem e_JJ : R0.log.stepJ g c1 [] ++ s1.1.stepJ g a1 [] ++ t1.1.stepJ g c3 [] ++ t2.1.stepJ g c4 [] ++
    t3.1.stepJ g c6 [] = JJ := by
  simp only [stepJ_twin]; decide +kernel

theorem rd2 : C01R.ReachD g 0 t1.1 (R0.log.stepJ g c1 [] ++ s1.1.stepJ g a1 []) jm1 {} :=
  castD (C01R.ReachD.step a1 false [] rd1) (by rw [e_t1]) rfl (by rw [e_t1]; exact e_jm1.1)
    (by rw [e_t1]; exact e_jm1.2)
theorem rd3 : C01R.ReachD g 0 t2.1 (R0.log.stepJ g c1 [] ++ s1.1.stepJ g a1 [] ++ t1.1.stepJ g c3 []) jm2 {} :=
  castD (C01R.ReachD.step c3 false [] rd2) (by rw [e_t2]) rfl (by rw [e_t2]; exact e_jm2.1)
    (by rw [e_t2]; exact e_jm2.2)
theorem rd4 : C01R.ReachD g 0 t3.1
    (R0.log.stepJ g c1 [] ++ s1.1.stepJ g a1 [] ++ t1.1.stepJ g c3 [] ++ t2.1.stepJ g c4 []) jm3 {} :=
  castD (C01R.ReachD.step c4 false [] rd3) (by rw [e_t3]) rfl (by rw [e_t3]; exact e_jm3.1)
    (by rw [e_t3]; exact e_jm3.2)

/-- **`T*` is reachable** (calls only) -/
theorem reachT : C01R.ReachD g 0 t4.1 JJ jm4 {} :=
  castD (C01R.ReachD.step c6 false [] rd4) (by rw [e_t4]) e_JJ (by rw [e_t4]; exact e_jm4.1)
    (by rw [e_t4]; exact e_jm4.2)

theorem wfJJ : ∀ j ∈ JJ, C07.WF j.e := by decide +kernel

theorem flushT : C01R.flushDisk jm4 {} = jm4 := rfl

/-! ### the clause holds: no damage, and one payload byte damaged -/

def framesT : List (Nat × Frm) :=
  [(0, .last, [0, 2]), (9, .first, []), (16, .middle, [4, 2, 0, 0, 0, 0, 0, 0, 0]),
   (32, .middle, [1, 0, 97, 2, 0, 0, 0, 0, 0]), (48, .middle, [0, 0, 1, 0, 0, 0, 3, 3, 0]),
   (64, .middle, [0, 0, 0, 0, 0, 0, 1, 0, 0]), (80, .last, [0, 4]), (89, .first, []),
   (96, .middle, [4, 4, 0, 0, 0, 0, 0, 0, 0]), (112, .middle, [1, 0, 97, 4, 0, 0, 0, 0, 0]),
   (128, .middle, [0, 0, 1, 0, 0, 0, 5, 5, 0]), (144, .middle, [0, 0, 0, 0, 0, 0, 1, 0, 0]), (160, .last, [0, 6]),
   (169, .first, []), (176, .middle, [1, 1, 0, 0, 0, 0, 0, 0, 0]), (192, .last, [1, 0, 97])]

theorem acceptedT : accepted g (streamOf jm4) 14 = framesT := by decide +kernel
theorem countT : frameCount g 3 (streamOf jm4) 14 = 16 := by decide +kernel
theorem lenT : (streamOf jm4).length = 14 * g.B := by decide +kernel

theorem cleanT0 : (accepted g (streamOf jm4) 14).length ≤ frameCount g ((jm4.map (·.1)).headD 0) (streamOf jm4) 14 := by
  have h2 : (jm4.map (·.1)).headD 0 = 3 := rfl
  rw [h2, acceptedT, countT]; decide

theorem cleanT : CleanDamage g jm4 jm4 := by
  apply CD.cleanDamage_refl
  · have h1 : (streamOf jm4).length / g.B = 14 := by decide +kernel
    rw [h1]; exact cleanT0
  · decide +kernel

/-- the damaged image: the first payload byte of the Middle frame at position 112 (file 6, byte 23;
    the queue-name frame of batch C) changed from 1 to 255 -/
def jmD : Image := jm4.map fun kv => if kv.1 = 6 then (kv.1, kv.2.set 23 255) else kv

theorem shapeTD : SameShape jm4 jmD := by unfold SameShape; decide +kernel

theorem cleanTD : CleanDamage g jm4 jmD := by
  refine ⟨cleanT.1, ?_⟩
  have h1 : (streamOf jm4).length / g.B = 14 := by decide +kernel
  rw [h1]
  apply noAcc_accepted_of_check g _ _ 14 14 (by decide +kernel)
  rw [acceptedT]
  decide +kernel

/-- **the `ReachD`-level clause holds on `T*`**, undamaged and damaged -/
theorem noAccT : NoAccidentalFrameImg g jm4 jm4 := noAccImg_of_clean g (by decide) jm4 jm4 14 lenT (by decide) cleanT
theorem noAccTD : NoAccidentalFrameImg g jm4 jmD := noAccImg_of_clean g (by decide) jm4 jmD 14 lenT (by decide) cleanTD

theorem e_QC : recover g jm4 .doNothing [] none = .ok QC := by rw [recover_twin]; decide +kernel
theorem e_QD : recover g jmD .doNothing [] none = .ok QD := by rw [recover_twin]; decide +kernel

/-! ### `C08V.C08_recover_genuine`, `C12V.C12_recover_damage` -/

/-- the hypotheses of `C08_recover_genuine` hold for both images; both recovered logs are genuine
    for `JJ`; they differ -/
theorem nv2_C08 :
    (∀ kv ∈ QC.log.queues, ∀ rec ∈ kv.2.recs, (kv.1, rec.pos, rec.payload) ∈ C08V.appended JJ) ∧
    (∀ kv ∈ QD.log.queues, ∀ rec ∈ kv.2.recs, (kv.1, rec.pos, rec.payload) ∈ C08V.appended JJ) ∧
    (∃ L : List (Nat × Entry), Rec.replayEntries [] L = some QD.log.queues ∧
      List.Sublist (L.map (·.2)) ((JJ.filter fun j => decide (t4.1.files.headD 0 ≤ j.loc)).map (·.e))) ∧
    QD.log.queues ≠ QC.log.queues := by
  obtain ⟨_, a2, _⟩ := C08V.C08_recover_genuine g (by decide) 0 t4.1 JJ jm4 {} reachT wfJJ jm4 rfl noAccT
    .doNothing [] QC e_QC
  obtain ⟨_, b2, b3⟩ := C08V.C08_recover_genuine g (by decide) 0 t4.1 JJ jm4 {} reachT wfJJ jmD shapeTD noAccTD
    .doNothing [] QD e_QD
  exact ⟨a2, b2, b3, by decide⟩

theorem nv2_C12 : ∃ L : List (Nat × Entry),
    List.Sublist (L.map (·.2)) ((JJ.filter fun j => decide (t4.1.files.headD 0 ≤ j.loc)).map (·.e)) ∧
    C12C.AllOrSuffix L QD.log.queues :=
  C12V.C12_recover_damage g (by decide) 0 t4.1 JJ jm4 {} reachT wfJJ jmD shapeTD noAccTD .doNothing [] QD e_QD

/-- on the damaged image: batch C (6 frames over files 5–8, its third frame damaged) is gone
    entirely; batch B (6 frames over files 3–5) is intact; the journal entries delivered are a proper
    sub-sequence of the retained ones -/
theorem nv2_C12_eval :
    QD.log.queues.map (fun kv => (kv.1, kv.2.recs.map fun r => (r.pos, r.payload))) = [([97], [(2, [3]), (3, [4])])] ∧
    QC.log.queues.map (fun kv => (kv.1, kv.2.recs.map fun r => (r.pos, r.payload))) =
      [([97], [(2, [3]), (3, [4]), (4, [5]), (5, [6])])] ∧
    (JJ.filter fun j => decide (t4.1.files.headD 0 ≤ j.loc)).map (·.e) =
      [.append [97] 2 [(2, [3]), (3, [4])], .append [97] 4 [(4, [5]), (5, [6])], .truncate [97] 1] := by
  decide +kernel

/-! ### `C09V.C09_recover_one_frame_all`, its existential layout instantiated -/

def fsT : List Frm := framesT.map (·.2)

theorem sortedT : (accepted g (streamOf jm4) 14).Pairwise (fun a b => a.1 < b.1) := by
  rw [acceptedT]; decide +kernel

/-- every frame layout of the tape of `T*` is `fsT` -/
theorem layoutT (fs : List Frm) (z : Nat) (h1 : streamOf jm4 = (layoutBufs g 0 fs).flatten ++ zeros z)
    (h2 : Fits g 0 fs) : fs = fsT ∧ z = 22 := by
  have hfs : fs = fsT := by
    have := tapeLayout_unique g (by decide) jm4 14 lenT (by decide) cleanT0 sortedT fs ⟨h2, z, h1⟩
    rw [acceptedT] at this
    exact this
  refine ⟨hfs, ?_⟩
  subst hfs
  have hl := congrArg List.length h1
  have e1 : (streamOf jm4).length = 224 := by decide +kernel
  have e2 : (layoutBufs g 0 fsT).flatten.length = 202 := by decide +kernel
  rw [List.length_append, e1, e2] at hl
  simp only [zeros, List.length_replicate] at hl
  omega

def crcT : Bytes := [113, 194, 150, 169]
def pT : Bytes := [255, 0, 97, 4, 0, 0, 0, 0, 0]

/-- **`C09_recover_one_frame_all` instantiated on `T*`**: for the damaged frame (the 10th of the
    layout), `open` on `jmD` returns `QD`, and for some journal index `a` every record of the live
    queue not appended by `JJ[a]` is in `QD` -/
theorem nv2_C09 : ∃ a, ∀ name q, t4.1.queues.get? name = some q → ∀ rc ∈ q.recs, ¬ C09V.RecordOfIdx JJ a name rc →
    ∃ q', QD.log.queues.get? name = some q' ∧ ∃ r' ∈ q'.recs, r'.pos = rc.pos ∧ r'.payload = rc.payload := by
  obtain ⟨fs, z, h1, h2, h3⟩ := C09V.C09_recover_one_frame_all g (by decide) 0 t4.1 JJ jm4 {} reachT wfJJ
  obtain ⟨rfl, rfl⟩ := layoutT fs z h1 h2
  obtain ⟨r, a, hr, hall⟩ := h3 (fsT.take 9) .middle [1, 0, 97, 4, 0, 0, 0, 0, 0] (fsT.drop 10) (by decide +kernel)
    crcT pT rfl rfl (by decide +kernel) jmD shapeTD (by decide +kernel) .doNothing []
  rw [e_QD] at hr
  simp only [Except.ok.injEq] at hr
  subst hr
  exact ⟨a, hall⟩

/-- … and what is lost is exactly batch C -/
theorem nv2_C09_eval :
    t4.1.queues.map (fun kv => (kv.1, kv.2.recs.map fun r => (r.pos, r.payload))) =
      [([97], [(2, [3]), (3, [4]), (4, [5]), (5, [6])])] ∧
    QD.log.queues.map (fun kv => (kv.1, kv.2.recs.map fun r => (r.pos, r.payload))) = [([97], [(2, [3]), (3, [4])])] := by
  decide +kernel

end MRL.NV2
