/-
C17, second half: any other file or sub-directory in the WAL directory is never read as log data,
modified or deleted, and the library itself only ever creates or removes files of the form
`wal-<20 digits>`. `MRL/Model/DirEntries.lean` embeds the `Image` of the model into a directory
with arbitrary foreign content; here: foreign entries are untouched by any list of OS operations,
only WAL names are created or removed, the image commutes with the operations (so every theorem
about images lifts to directories), and the OS operations of a call name only tracked files.
-/
import MRL.Model.DirEntries
import MRL.Props.C17
import MRL.Proofs.StepBuf

namespace MRL.C17F
open MRL MRL.Dir

/-! ### (a) foreign entries are untouched -/

/-- not a WAL file for any number: not regular, or no `fileName n` is its name -/
def Foreign (e : DirEntry) : Prop := e.kind ≠ .regular ∨ ∀ n, e.name ≠ fileName n

/-- not a WAL file as far as `open` and `u64` file numbers are concerned -/
def ForeignU64 (e : DirEntry) : Prop := e.walNumber = none

/-- all file numbers named by the operations fit a `u64` -/
def OpsU64 (ops : List OsOp) : Prop := ∀ op ∈ ops, ∀ f ∈ op.files, f < 2 ^ 64

theorem isFile_false_of_foreign {e : DirEntry} (h : Foreign e) (f : Nat) : isFile f e = false := by
  unfold isFile
  rcases h with h | h
  · cases hk : e.kind
    · exact absurd hk h
    · rfl
  · have : (e.name == fileName f) = false := by simpa using h f
    rw [this, Bool.and_false]

theorem isFile_false_of_foreignU64 {e : DirEntry} (h : ForeignU64 e) (f : Nat) (hf : f < 2 ^ 64) :
    isFile f e = false := by
  cases hi : isFile f e with
  | false => rfl
  | true =>
    exfalso
    simp only [isFile, Bool.and_eq_true, beq_iff_eq] at hi
    unfold ForeignU64 DirEntry.walNumber at h
    rw [if_pos hi.1, hi.2, C17.parse_fileName f hf] at h
    cases h

/-- entries that no operation designates stay, unchanged -/
theorem mem_applyOs_of_not_file (d : Dir) (op : OsOp) (e : DirEntry) (he : e ∈ d)
    (hn : ∀ f ∈ op.files, isFile f e = false) : e ∈ Dir.applyOs d op := by
  cases op with
  | sync => exact he
  | create f =>
    simp only [Dir.applyOs]
    split
    · exact he
    · exact List.mem_append_left _ he
  | unlink f =>
    simp only [Dir.applyOs, List.mem_filter]
    exact ⟨he, by rw [hn f (by simp [OsOp.files])]; rfl⟩
  | write f off data =>
    simp only [Dir.applyOs, mapFileD, List.mem_map]
    exact ⟨e, he, by rw [hn f (by simp [OsOp.files])]; rfl⟩
  | setLen f n =>
    simp only [Dir.applyOs, mapFileD, List.mem_map]
    exact ⟨e, he, by rw [hn f (by simp [OsOp.files])]; rfl⟩
  | ensureLen f n =>
    simp only [Dir.applyOs, mapFileD, List.mem_map]
    exact ⟨e, he, by rw [hn f (by simp [OsOp.files])]; rfl⟩

/-- **C17 (a).** Whatever the library does, an entry that is not `wal-<20 digits>` of a regular
    file — a foreign file, any sub-directory, even one named like a WAL file — is still there
    afterwards with the same name, kind and content. -/
theorem foreign_untouched (ops : List OsOp) : ∀ (d : Dir) (e : DirEntry), e ∈ d → Foreign e →
    e ∈ Dir.applyOsOps d ops := by
  induction ops with
  | nil => intro d e he _; exact he
  | cons op ops ih =>
    intro d e he hf
    exact ih _ e (mem_applyOs_of_not_file d op e he (fun f _ => isFile_false_of_foreign hf f)) hf

/-- the same for every entry `open` does not take for a WAL file (this includes 24-byte names
    `wal-<20 digits>` whose value exceeds `u64::MAX`), the operations naming `u64` numbers -/
theorem foreign_untouched_u64 (ops : List OsOp) : ∀ (d : Dir) (e : DirEntry), e ∈ d → ForeignU64 e →
    OpsU64 ops → e ∈ Dir.applyOsOps d ops := by
  induction ops with
  | nil => intro d e he _ _; exact he
  | cons op ops ih =>
    intro d e he hf hu
    refine ih _ e (mem_applyOs_of_not_file d op e he (fun f hfm => ?_)) hf
      (fun op' hop' => hu op' (List.mem_cons_of_mem _ hop'))
    exact isFile_false_of_foreignU64 hf f (hu op List.mem_cons_self f hfm)

/-! ### (b) only WAL names are created or removed -/

/-- one operation: every entry afterwards has the name of an entry before, or is the regular
    empty file `fileName f` just created -/
theorem applyOs_names (d : Dir) (op : OsOp) (e : DirEntry) (he : e ∈ Dir.applyOs d op) :
    (∃ e' ∈ d, e'.name = e.name ∧ e'.kind = e.kind) ∨
    ∃ f, op = .create f ∧ e = { name := fileName f, kind := .regular, content := [] } := by
  have hmap : ∀ f fn, e ∈ mapFileD d f fn → ∃ e' ∈ d, e'.name = e.name ∧ e'.kind = e.kind := by
    intro f fn h
    simp only [mapFileD, List.mem_map] at h
    obtain ⟨e', he', rfl⟩ := h
    refine ⟨e', he', ?_⟩
    split <;> exact ⟨rfl, rfl⟩
  cases op with
  | sync => exact .inl ⟨e, he, rfl, rfl⟩
  | write f off data => exact .inl (hmap f (fun c => overwrite c off data) he)
  | setLen f n => exact .inl (hmap f (fun c => setLenBytes c n) he)
  | ensureLen f n => exact .inl (hmap f (fun c => if c.length < n then setLenBytes c n else c) he)
  | unlink f =>
    simp only [Dir.applyOs, List.mem_filter] at he
    exact .inl ⟨e, he.1, rfl, rfl⟩
  | create f =>
    simp only [Dir.applyOs] at he
    split at he
    · exact .inl ⟨e, he, rfl, rfl⟩
    · rcases List.mem_append.mp he with h | h
      · exact .inl ⟨e, h, rfl, rfl⟩
      · simp only [List.mem_singleton] at h
        exact .inr ⟨f, rfl, h⟩

/-- **C17 (b), creation.** Every entry present after a list of OS operations has the name and
    kind of an entry present before, or is a regular file named `fileName f` for a `create f`
    among the operations. -/
theorem only_wal_names_created (ops : List OsOp) : ∀ (d : Dir) (e : DirEntry), e ∈ Dir.applyOsOps d ops →
    (∃ e' ∈ d, e'.name = e.name ∧ e'.kind = e.kind) ∨
    ∃ f, e.name = fileName f ∧ e.kind = .regular ∧ OsOp.create f ∈ ops := by
  induction ops with
  | nil => intro d e he; exact .inl ⟨e, he, rfl, rfl⟩
  | cons op ops ih =>
    intro d e he
    rcases ih (Dir.applyOs d op) e he with ⟨e1, he1, hn, hk⟩ | ⟨f, hn, hk, hc⟩
    · rcases applyOs_names d op e1 he1 with ⟨e0, he0, hn0, hk0⟩ | ⟨f, rfl, rfl⟩
      · exact .inl ⟨e0, he0, hn0.trans hn, hk0.trans hk⟩
      · exact .inr ⟨f, hn.symm, hk.symm, List.mem_cons_self⟩
    · exact .inr ⟨f, hn, hk, List.mem_cons_of_mem _ hc⟩

/-- one operation: an entry keeps its name and kind, or is the regular file an `unlink` names -/
theorem applyOs_keeps (d : Dir) (op : OsOp) (e : DirEntry) (he : e ∈ d) :
    (∃ e' ∈ Dir.applyOs d op, e'.name = e.name ∧ e'.kind = e.kind) ∨
    ∃ f, op = .unlink f ∧ isFile f e = true := by
  have hmap : ∀ f fn, ∃ e' ∈ mapFileD d f fn, e'.name = e.name ∧ e'.kind = e.kind := by
    intro f fn
    refine ⟨_, List.mem_map.mpr ⟨e, he, rfl⟩, ?_⟩
    split <;> exact ⟨rfl, rfl⟩
  cases op with
  | sync => exact .inl ⟨e, he, rfl, rfl⟩
  | write f off data => exact .inl (hmap f (fun c => overwrite c off data))
  | setLen f n => exact .inl (hmap f (fun c => setLenBytes c n))
  | ensureLen f n => exact .inl (hmap f (fun c => if c.length < n then setLenBytes c n else c))
  | create f =>
    refine .inl ⟨e, ?_, rfl, rfl⟩
    simp only [Dir.applyOs]
    split
    · exact he
    · exact List.mem_append_left _ he
  | unlink f =>
    cases hi : isFile f e with
    | true => exact .inr ⟨f, rfl, hi⟩
    | false =>
      refine .inl ⟨e, ?_, rfl, rfl⟩
      simp only [Dir.applyOs, List.mem_filter]
      exact ⟨he, by rw [hi]; rfl⟩

/-- **C17 (b), removal.** An entry whose name and kind have disappeared after a list of OS
    operations was a regular file named `fileName f` for an `unlink f` among the operations. -/
theorem only_wal_names_removed (ops : List OsOp) : ∀ (d : Dir) (e : DirEntry), e ∈ d →
    (∃ e' ∈ Dir.applyOsOps d ops, e'.name = e.name ∧ e'.kind = e.kind) ∨
    ∃ f, e.name = fileName f ∧ e.kind = .regular ∧ OsOp.unlink f ∈ ops := by
  induction ops with
  | nil => intro d e he; exact .inl ⟨e, he, rfl, rfl⟩
  | cons op ops ih =>
    intro d e he
    rcases applyOs_keeps d op e he with ⟨e1, he1, hn1, hk1⟩ | ⟨f, rfl, hi⟩
    · rcases ih _ e1 he1 with ⟨e2, he2, hn2, hk2⟩ | ⟨f, hn, hk, hu⟩
      · exact .inl ⟨e2, he2, hn2.trans hn1, hk2.trans hk1⟩
      · exact .inr ⟨f, hn1 ▸ hn, hk1 ▸ hk, List.mem_cons_of_mem _ hu⟩
    · simp only [isFile, Bool.and_eq_true, beq_iff_eq] at hi
      exact .inr ⟨f, hi.2, hi.1, List.mem_cons_self⟩

/-! ### (c) the image commutes with the operations -/

/-- ascending by file number, no duplicates -/
def KeySorted (img : Image) : Prop := img.Pairwise fun a b => a.1 < b.1

theorem mem_insertSorted (f : Nat) (c : Bytes) (img : Image) (x : Nat × Bytes) :
    x ∈ insertSorted f c img ↔ x = (f, c) ∨ x ∈ img := by
  induction img with
  | nil => simp [insertSorted]
  | cons a img ih =>
    obtain ⟨f', c'⟩ := a
    simp only [insertSorted]
    split
    · simp
    · simp only [List.mem_cons, ih]
      constructor
      · rintro (h | h | h)
        · exact .inr (.inl h)
        · exact .inl h
        · exact .inr (.inr h)
      · rintro (h | h | h)
        · exact .inr (.inl h)
        · exact .inl h
        · exact .inr (.inr h)

theorem insertSorted_sorted (f : Nat) (c : Bytes) (img : Image) (hs : KeySorted img)
    (hf : ∀ x ∈ img, x.1 ≠ f) : KeySorted (insertSorted f c img) := by
  induction img with
  | nil => exact List.pairwise_singleton _ _
  | cons a img ih =>
    obtain ⟨f', c'⟩ := a
    unfold KeySorted at hs ih ⊢
    rw [List.pairwise_cons] at hs
    simp only [insertSorted]
    have hne : f' ≠ f := hf (f', c') List.mem_cons_self
    split
    · rename_i hle
      rw [List.pairwise_cons]
      refine ⟨?_, List.pairwise_cons.mpr hs⟩
      intro x hx
      rcases List.mem_cons.mp hx with rfl | hx
      · simp only; omega
      · have := hs.1 x hx; simp only at this ⊢; omega
    · rename_i hle
      rw [List.pairwise_cons]
      refine ⟨?_, ih hs.2 (fun x hx => hf x (List.mem_cons_of_mem _ hx))⟩
      intro x hx
      rcases (mem_insertSorted f c img x).mp hx with rfl | hx
      · simp only; omega
      · exact hs.1 x hx

/-- two key-sorted lists with the same members are equal -/
theorem sorted_ext : ∀ (a b : Image), KeySorted a → KeySorted b → (∀ x, x ∈ a ↔ x ∈ b) → a = b := by
  intro a
  induction a with
  | nil =>
    intro b _ _ h
    cases b with
    | nil => rfl
    | cons y b => exact absurd ((h y).mpr List.mem_cons_self) (by simp)
  | cons x a ih =>
    intro b ha hb h
    cases b with
    | nil => exact absurd ((h x).mp List.mem_cons_self) (by simp)
    | cons y b =>
      unfold KeySorted at ha hb
      rw [List.pairwise_cons] at ha hb
      have hxy : x = y := by
        have hx := (h x).mp List.mem_cons_self
        have hy := (h y).mpr List.mem_cons_self
        rcases List.mem_cons.mp hx with e | hx
        · exact e
        · rcases List.mem_cons.mp hy with e | hy
          · exact e.symm
          · have h1 := hb.1 x hx
            have h2 := ha.1 y hy
            omega
      subst hxy
      congr 1
      apply ih b ha.2 hb.2
      intro z
      constructor
      · intro hz
        rcases List.mem_cons.mp ((h z).mp (List.mem_cons_of_mem _ hz)) with e | hz'
        · subst e; have := ha.1 z hz; omega
        · exact hz'
      · intro hz
        rcases List.mem_cons.mp ((h z).mpr (List.mem_cons_of_mem _ hz)) with e | hz'
        · subst e; have := hb.1 z hz; omega
        · exact hz'

/-- distinct names -/
def NamesNodup (d : Dir) : Prop := (d.map (·.name)).Nodup

theorem mem_image (d : Dir) (n : Nat) (c : Bytes) :
    (n, c) ∈ Dir.image d ↔ ∃ e ∈ d, e.walNumber = some n ∧ e.content = c := by
  induction d with
  | nil => simp [Dir.image]
  | cons e d ih =>
    simp only [Dir.image]
    cases hw : e.walNumber with
    | none =>
      simp only [ih, List.mem_cons]
      constructor
      · rintro ⟨e', he', h⟩; exact ⟨e', .inr he', h⟩
      · rintro ⟨e', rfl | he', h1, h2⟩
        · rw [hw] at h1; cases h1
        · exact ⟨e', he', h1, h2⟩
    | some m =>
      simp only [mem_insertSorted, ih, List.mem_cons, Prod.mk.injEq]
      constructor
      · rintro (⟨rfl, rfl⟩ | ⟨e', he', h⟩)
        · exact ⟨e, .inl rfl, hw, rfl⟩
        · exact ⟨e', .inr he', h⟩
      · rintro ⟨e', rfl | he', h1, h2⟩
        · rw [hw] at h1; cases h1; exact .inl ⟨rfl, h2.symm⟩
        · exact .inr ⟨e', he', h1, h2⟩

/-- an entry that is WAL file `n` is the regular entry named `fileName n`, and `n` fits a `u64` -/
theorem walNumber_some {e : DirEntry} {n : Nat} (h : e.walNumber = some n) :
    e.kind = .regular ∧ e.name = fileName n ∧ n < 2 ^ 64 := by
  unfold DirEntry.walNumber at h
  split at h
  · rename_i hk
    obtain ⟨h1, h2⟩ := C17.parse_format e.name n h
    exact ⟨hk, h1, h2⟩
  · cases h

theorem walNumber_of_isFile {e : DirEntry} {f : Nat} (hf : f < 2 ^ 64) (h : isFile f e = true) :
    e.walNumber = some f := by
  simp only [isFile, Bool.and_eq_true, beq_iff_eq] at h
  unfold DirEntry.walNumber
  rw [if_pos h.1, h.2, C17.parse_fileName f hf]

theorem isFile_iff {e : DirEntry} {n f : Nat} (hw : e.walNumber = some n) (hf : f < 2 ^ 64) :
    isFile f e = true ↔ n = f := by
  constructor
  · intro h
    have := walNumber_of_isFile hf h
    rw [hw] at this
    exact Option.some.inj this
  · rintro rfl
    obtain ⟨h1, h2, _⟩ := walNumber_some hw
    simp [isFile, h1, h2]

theorem image_sorted (d : Dir) (h : NamesNodup d) : KeySorted (Dir.image d) := by
  induction d with
  | nil => exact List.Pairwise.nil
  | cons e d ih =>
    unfold NamesNodup at h
    simp only [List.map_cons, List.nodup_cons] at h
    simp only [Dir.image]
    cases hw : e.walNumber with
    | none => exact ih h.2
    | some n =>
      apply insertSorted_sorted _ _ _ (ih h.2)
      intro x hx hxn
      obtain ⟨m, c⟩ := x
      simp only at hxn
      subst hxn
      obtain ⟨e', he', hw', _⟩ := (mem_image d m c).mp hx
      have h1 := (walNumber_some hw).2.1
      have h2 := (walNumber_some hw').2.1
      exact h.1 (List.mem_map.mpr ⟨e', he', by rw [h1, h2]⟩)

/-! #### the image side -/

theorem map_insertSorted (gk : Nat × Bytes → Nat × Bytes) (hk : ∀ kv, (gk kv).1 = kv.1) (n : Nat) (c : Bytes)
    (img : Image) : (insertSorted n c img).map gk = insertSorted n (gk (n, c)).2 (img.map gk) := by
  have e0 : gk (n, c) = (n, (gk (n, c)).2) := Prod.ext (hk _) rfl
  induction img with
  | nil => simp only [insertSorted, List.map_cons, List.map_nil]; rw [← e0]
  | cons a img ih =>
    obtain ⟨f', c'⟩ := a
    have e1 : gk (f', c') = (f', (gk (f', c')).2) := Prod.ext (hk _) rfl
    simp only [insertSorted, List.map_cons]
    rw [e1]
    simp only
    split
    · simp only [List.map_cons]; rw [← e0, ← e1]
    · simp only [List.map_cons, ih]; rw [← e1]

theorem mapFile_insertSorted (n : Nat) (c : Bytes) (img : Image) (f : Nat) (fn : Bytes → Bytes) :
    mapFile (insertSorted n c img) f fn = insertSorted n (if n = f then fn c else c) (mapFile img f fn) := by
  unfold mapFile
  rw [map_insertSorted _ (fun kv => by split <;> rfl)]
  congr 1
  simp only
  split <;> rfl

theorem mem_insertFile (img : Image) (hs : KeySorted img) (f : Nat) (c : Bytes) (x : Nat × Bytes) :
    x ∈ insertFile img f c ↔ x ∈ img ∨ (x = (f, c) ∧ ∀ y ∈ img, y.1 ≠ f) := by
  induction img with
  | nil => simp [insertFile]
  | cons a img ih =>
    obtain ⟨f', c'⟩ := a
    unfold KeySorted at hs
    rw [List.pairwise_cons] at hs
    simp only [insertFile]
    by_cases h1 : f < f'
    · simp only [h1, if_true, List.mem_cons]
      constructor
      · rintro (h | h | h)
        · refine .inr ⟨h, ?_⟩
          intro y hy
          rcases hy with rfl | hy
          · simp only; omega
          · have := hs.1 y hy; omega
        · exact .inl (.inl h)
        · exact .inl (.inr h)
      · rintro ((h | h) | ⟨h, _⟩)
        · exact .inr (.inl h)
        · exact .inr (.inr h)
        · exact .inl h
    · simp only [h1, if_false]
      by_cases h2 : f = f'
      · simp only [h2, if_true, List.mem_cons]
        constructor
        · intro h; exact .inl h
        · rintro (h | ⟨_, h⟩)
          · exact h
          · exact absurd rfl (h (f', c') (.inl rfl))
      · simp only [h2, if_false, List.mem_cons, ih hs.2]
        constructor
        · rintro (h | h | ⟨h, hn⟩)
          · exact .inl (.inl h)
          · exact .inl (.inr h)
          · refine .inr ⟨h, ?_⟩
            intro y hy
            rcases hy with rfl | hy
            · exact fun e => h2 e.symm
            · exact hn y hy
        · rintro ((h | h) | ⟨h, hn⟩)
          · exact .inl h
          · exact .inr (.inl h)
          · exact .inr (.inr ⟨h, fun y hy => hn y (.inr hy)⟩)

theorem insertFile_sorted (img : Image) (hs : KeySorted img) (f : Nat) (c : Bytes) :
    KeySorted (insertFile img f c) := by
  induction img with
  | nil => exact List.pairwise_singleton _ _
  | cons a img ih =>
    obtain ⟨f', c'⟩ := a
    have hs' := hs
    unfold KeySorted at hs ih ⊢
    rw [List.pairwise_cons] at hs
    simp only [insertFile]
    by_cases h1 : f < f'
    · simp only [h1, if_true]
      rw [List.pairwise_cons]
      refine ⟨?_, hs'⟩
      intro y hy
      rcases List.mem_cons.mp hy with rfl | hy
      · exact h1
      · have := hs.1 y hy; simp only at this ⊢; omega
    · simp only [h1, if_false]
      by_cases h2 : f = f'
      · simp only [h2, if_true]; exact hs'
      · simp only [h2, if_false]
        rw [List.pairwise_cons]
        refine ⟨?_, ih hs.2⟩
        intro y hy
        rcases (mem_insertFile img hs.2 f c y).mp hy with hy | ⟨rfl, _⟩
        · exact hs.1 y hy
        · simp only; omega

/-! #### the directory side -/

theorem walNumber_content (e : DirEntry) (c : Bytes) : ({ e with content := c } : DirEntry).walNumber = e.walNumber := rfl

theorem image_mapFileD (d : Dir) (f : Nat) (hf : f < 2 ^ 64) (fn : Bytes → Bytes) :
    Dir.image (mapFileD d f fn) = mapFile (Dir.image d) f fn := by
  induction d with
  | nil => rfl
  | cons e d ih =>
    have hcons : mapFileD (e :: d) f fn =
        (if isFile f e then { e with content := fn e.content } else e) :: mapFileD d f fn := rfl
    rw [hcons]
    have hw' : (if isFile f e then ({ e with content := fn e.content } : DirEntry) else e).walNumber = e.walNumber := by
      split <;> rfl
    simp only [Dir.image, hw']
    cases hw : e.walNumber with
    | none => exact ih
    | some n =>
      simp only
      rw [ih, mapFile_insertSorted]
      congr 1
      by_cases hi : isFile f e = true
      · have := (isFile_iff hw hf).mp hi
        simp [hi, this]
      · have hn : ¬ n = f := fun h => hi ((isFile_iff hw hf).mpr h)
        simp [hi, hn]

theorem namesNodup_mapFileD (d : Dir) (f : Nat) (fn : Bytes → Bytes) (h : NamesNodup d) :
    NamesNodup (mapFileD d f fn) := by
  unfold NamesNodup mapFileD at *
  rw [List.map_map]
  have : ((fun e : DirEntry => e.name) ∘ fun e => if isFile f e then { e with content := fn e.content } else e) =
      fun e => e.name := by
    funext e; simp only [Function.comp]; split <;> rfl
  rw [this]; exact h

theorem image_unlink (d : Dir) (hnd : NamesNodup d) (f : Nat) (hf : f < 2 ^ 64) :
    Dir.image (d.filter fun e => !isFile f e) = (Dir.image d).filter (·.1 != f) := by
  have hnd' : NamesNodup (d.filter fun e => !isFile f e) :=
    (List.filter_sublist.map _).nodup hnd
  apply sorted_ext _ _ (image_sorted _ hnd') ((image_sorted d hnd).filter _)
  rintro ⟨n, c⟩
  rw [mem_image, List.mem_filter, mem_image]
  constructor
  · rintro ⟨e, he, hw, hc⟩
    rw [List.mem_filter] at he
    refine ⟨⟨e, he.1, hw, hc⟩, ?_⟩
    simp only [bne_iff_ne, ne_eq]
    intro hn
    have := (isFile_iff hw hf).mpr hn
    rw [this] at he
    exact absurd he.2 (by simp)
  · rintro ⟨⟨e, he, hw, hc⟩, hn⟩
    simp only [bne_iff_ne, ne_eq] at hn
    refine ⟨e, List.mem_filter.mpr ⟨he, ?_⟩, hw, hc⟩
    cases hi : isFile f e with
    | false => rfl
    | true => exact absurd ((isFile_iff hw hf).mp hi) hn

theorem image_create (d : Dir) (hnd : NamesNodup d) (f : Nat) (hf : f < 2 ^ 64)
    (hclash : ∀ e ∈ d, e.kind ≠ .regular → e.name ≠ fileName f) :
    Dir.image (Dir.applyOs d (.create f)) = insertFile (Dir.image d) f [] ∧
    NamesNodup (Dir.applyOs d (.create f)) := by
  simp only [Dir.applyOs]
  have hs := image_sorted d hnd
  split
  · rename_i hany
    refine ⟨?_, hnd⟩
    obtain ⟨e, he, hname⟩ := List.any_eq_true.mp hany
    simp only [beq_iff_eq] at hname
    have hk : e.kind = .regular := by
      cases hk : e.kind with
      | regular => rfl
      | other => exact absurd hname (hclash e he (by rw [hk]; simp))
    have hw : e.walNumber = some f := walNumber_of_isFile hf (by simp [isFile, hk, hname])
    apply sorted_ext _ _ hs (insertFile_sorted _ hs f [])
    intro x
    rw [mem_insertFile _ hs]
    constructor
    · intro h; exact .inl h
    · rintro (h | ⟨_, h⟩)
      · exact h
      · exact absurd rfl (h (f, e.content) ((mem_image d f e.content).mpr ⟨e, he, hw, rfl⟩))
  · rename_i hany
    have hnone : ∀ e ∈ d, e.name ≠ fileName f := by
      intro e he hn
      exact hany (List.any_eq_true.mpr ⟨e, he, by simp [hn]⟩)
    have hnd' : NamesNodup (d ++ [{ name := fileName f, kind := .regular, content := [] }]) := by
      unfold NamesNodup at hnd ⊢
      rw [List.map_append, List.nodup_append]
      refine ⟨hnd, by simp, ?_⟩
      intro a ha b hb
      simp only [List.map_cons, List.map_nil, List.mem_singleton] at hb
      subst hb
      obtain ⟨e, he, rfl⟩ := List.mem_map.mp ha
      exact hnone e he
    refine ⟨?_, hnd'⟩
    apply sorted_ext _ _ (image_sorted _ hnd') (insertFile_sorted _ hs f [])
    rintro ⟨n, c⟩
    rw [mem_insertFile _ hs, mem_image, mem_image]
    have hwnew : ({ name := fileName f, kind := .regular, content := [] } : DirEntry).walNumber = some f :=
      walNumber_of_isFile hf (by simp [isFile])
    constructor
    · rintro ⟨e, he, hw, hc⟩
      rcases List.mem_append.mp he with he | he
      · exact .inl ⟨e, he, hw, hc⟩
      · simp only [List.mem_singleton] at he
        subst he
        rw [hwnew] at hw
        cases hw
        refine .inr ⟨by rw [← hc], ?_⟩
        rintro ⟨m, c'⟩ hy hm
        simp only at hm
        subst hm
        obtain ⟨e', he', hw', _⟩ := (mem_image d m c').mp hy
        exact hnone e' he' (walNumber_some hw').2.1
    · rintro (⟨e, he, hw, hc⟩ | ⟨hx, _⟩)
      · exact ⟨e, List.mem_append_left _ he, hw, hc⟩
      · simp only [Prod.mk.injEq] at hx
        obtain ⟨rfl, rfl⟩ := hx
        exact ⟨_, List.mem_append_right _ (List.mem_singleton.mpr rfl), hwnew, rfl⟩

/-- one operation -/
theorem applyOs_image (d : Dir) (op : OsOp) (hnd : NamesNodup d) (hu : ∀ f ∈ op.files, f < 2 ^ 64)
    (hclash : ∀ e ∈ d, e.kind ≠ .regular → ∀ f, op = .create f → e.name ≠ fileName f) :
    Dir.image (Dir.applyOs d op) = MRL.applyOs (Dir.image d) op ∧ NamesNodup (Dir.applyOs d op) := by
  cases op with
  | sync => exact ⟨rfl, hnd⟩
  | write f off data =>
    exact ⟨image_mapFileD d f (hu f (by simp [OsOp.files])) (fun c => overwrite c off data),
      namesNodup_mapFileD d f (fun c => overwrite c off data) hnd⟩
  | setLen f n =>
    exact ⟨image_mapFileD d f (hu f (by simp [OsOp.files])) (fun c => setLenBytes c n),
      namesNodup_mapFileD d f (fun c => setLenBytes c n) hnd⟩
  | ensureLen f n =>
    exact ⟨image_mapFileD d f (hu f (by simp [OsOp.files]))
      (fun c => if c.length < n then setLenBytes c n else c),
      namesNodup_mapFileD d f (fun c => if c.length < n then setLenBytes c n else c) hnd⟩
  | unlink f =>
    exact ⟨image_unlink d hnd f (hu f (by simp [OsOp.files])), (List.filter_sublist.map _).nodup hnd⟩
  | create f =>
    exact image_create d hnd f (hu f (by simp [OsOp.files])) (fun e he hk => hclash e he hk f rfl)

/-- non-regular entries are never created or changed -/
theorem nonregular_of_applyOs (d : Dir) (op : OsOp) (e : DirEntry) (he : e ∈ Dir.applyOs d op)
    (hk : e.kind ≠ .regular) : e ∈ d := by
  have hmap : ∀ f fn, e ∈ mapFileD d f fn → e ∈ d := by
    intro f fn h
    simp only [mapFileD, List.mem_map] at h
    obtain ⟨e', he', rfl⟩ := h
    split at hk
    · rename_i hi
      simp only [isFile, Bool.and_eq_true, beq_iff_eq] at hi
      exact absurd hi.1 hk
    · rename_i hi; rw [if_neg hi]; exact he'
  cases op with
  | sync => exact he
  | write f off data => exact hmap f (fun c => overwrite c off data) he
  | setLen f n => exact hmap f (fun c => setLenBytes c n) he
  | ensureLen f n => exact hmap f (fun c => if c.length < n then setLenBytes c n else c) he
  | unlink f => exact (List.mem_filter.mp he).1
  | create f =>
    simp only [Dir.applyOs] at he
    split at he
    · exact he
    · rcases List.mem_append.mp he with h | h
      · exact h
      · simp only [List.mem_singleton] at h
        subst h
        exact absurd rfl hk

/-- **C17 (c).** The image of a directory commutes with the OS operations: applying them to the
    directory — foreign files and sub-directories included — and then looking at what `open`
    sees is applying them to the image. Hypotheses: distinct names, `u64` file numbers, and no
    NON-regular entry carrying a WAL name that the operations create (a sub-directory named like
    the next WAL file would make `create_new` fail in reality). Hence every theorem about `Image`s
    holds for directories with arbitrary foreign content. -/
theorem image_commutes (ops : List OsOp) : ∀ (d : Dir), NamesNodup d → OpsU64 ops →
    (∀ e ∈ d, e.kind ≠ .regular → ∀ f, OsOp.create f ∈ ops → e.name ≠ fileName f) →
    Dir.image (Dir.applyOsOps d ops) = MRL.applyOsOps (Dir.image d) ops ∧
    KeySorted (Dir.image (Dir.applyOsOps d ops)) := by
  induction ops with
  | nil => intro d hnd _ _; exact ⟨rfl, image_sorted d hnd⟩
  | cons op ops ih =>
    intro d hnd hu hclash
    obtain ⟨h1, h2⟩ := applyOs_image d op hnd (hu op List.mem_cons_self)
      (fun e he hk f hop => hclash e he hk f (hop ▸ List.mem_cons_self))
    have := ih (Dir.applyOs d op) h2 (fun op' hop' => hu op' (List.mem_cons_of_mem _ hop'))
      (fun e he hk f hc => hclash e (nonregular_of_applyOs d op e he hk) hk f (List.mem_cons_of_mem _ hc))
    simp only [Dir.applyOsOps, MRL.applyOsOps, List.foldl_cons] at this ⊢
    rw [← h1]
    exact this

/-! ### (d) the OS operations of a call name only tracked files -/

theorem flushOps_files (b : BufSt) : ∀ op ∈ b.flushOps, ∀ f ∈ op.files, f = b.file ∧ b.pend ≠ [] := by
  intro op hop f hf
  unfold BufSt.flushOps at hop
  split at hop
  · cases hop
  · rename_i hne
    simp only [List.mem_singleton] at hop
    subst hop
    simp only [OsOp.files, List.mem_singleton] at hf
    exact ⟨hf, fun h => hne (by simp [h])⟩

theorem push_file (b : BufSt) (f off : Nat) (data : Bytes) :
    (Buf.push b f off data).file = f ∨ ((Buf.push b f off data).file = b.file ∧ b.pend ≠ []) := by
  unfold Buf.push
  split
  · left; rfl
  · rename_i hne
    right; exact ⟨rfl, fun h => hne (by simp [h])⟩

/-- one effect: the buffer does not invent file numbers -/
theorem bufStep_files (cap : Nat) (b : BufSt) (e : Effect) :
    (∀ op ∈ (bufStep cap b e).2, ∀ f ∈ op.files, f ∈ C17.effFiles e ∨ (f = b.file ∧ b.pend ≠ [])) ∧
    ((bufStep cap b e).1.pend ≠ [] →
      (bufStep cap b e).1.file ∈ C17.effFiles e ∨ ((bufStep cap b e).1.file = b.file ∧ b.pend ≠ [])) := by
  cases e with
  | write f off data =>
    rw [Buf.bufStep_write]
    have hpush := push_file b f off data
    have hpush0 := push_file {} f off data
    have hfl := flushOps_files b
    have hmem : f ∈ C17.effFiles (.write f off data) := by simp [C17.effFiles]
    split
    · refine ⟨(fun op hop => by cases hop), fun _ => ?_⟩
      rcases hpush with h | h
      · left; rw [h]; exact hmem
      · right; exact h
    · split
      · split
        · refine ⟨?_, fun h => absurd rfl h⟩
          intro op hop g hg
          rcases List.mem_append.mp hop with hop | hop
          · exact .inr (hfl op hop g hg)
          · simp only [List.mem_singleton] at hop
            subst hop
            simp only [OsOp.files, List.mem_singleton] at hg
            subst hg; exact .inl hmem
        · refine ⟨fun op hop g hg => .inr (hfl op hop g hg), fun _ => ?_⟩
          rcases hpush0 with h | h
          · left; rw [h]; exact hmem
          · exact absurd rfl h.2
      · split
        · refine ⟨?_, fun h => .inr ⟨rfl, h⟩⟩
          intro op hop g hg
          simp only [List.mem_singleton] at hop
          subst hop
          simp only [OsOp.files, List.mem_singleton] at hg
          subst hg; exact .inl hmem
        · refine ⟨(fun op hop => by cases hop), fun _ => ?_⟩
          rcases hpush with h | h
          · left; rw [h]; exact hmem
          · right; exact h
  | flush =>
    exact ⟨fun op hop g hg => .inr (flushOps_files b op hop g hg), fun h => absurd rfl h⟩
  | fsyncFile f =>
    refine ⟨?_, fun h => .inr ⟨rfl, h⟩⟩
    intro op hop g hg
    simp only [bufStep, List.mem_singleton] at hop
    subst hop; cases hg
  | fsyncDir =>
    refine ⟨?_, fun h => .inr ⟨rfl, h⟩⟩
    intro op hop g hg
    simp only [bufStep, List.mem_singleton] at hop
    subst hop; cases hg
  | create f =>
    refine ⟨?_, fun h => .inr ⟨rfl, h⟩⟩
    intro op hop g hg
    simp only [bufStep, List.mem_singleton] at hop
    subst hop; exact .inl (by simpa [C17.effFiles, OsOp.files] using hg)
  | setLen f n =>
    refine ⟨?_, fun h => .inr ⟨rfl, h⟩⟩
    intro op hop g hg
    simp only [bufStep, List.mem_singleton] at hop
    subst hop; exact .inl (by simpa [C17.effFiles, OsOp.files] using hg)
  | ensureLen f n =>
    refine ⟨?_, fun h => .inr ⟨rfl, h⟩⟩
    intro op hop g hg
    simp only [bufStep, List.mem_singleton] at hop
    subst hop; exact .inl (by simpa [C17.effFiles, OsOp.files] using hg)
  | unlink f =>
    refine ⟨?_, fun h => .inr ⟨rfl, h⟩⟩
    intro op hop g hg
    simp only [bufStep, List.mem_singleton] at hop
    subst hop; exact .inl (by simpa [C17.effFiles, OsOp.files] using hg)
  | listDir => exact ⟨(fun op hop => by cases hop), fun h => .inr ⟨rfl, h⟩⟩
  | openFile f => exact ⟨(fun op hop => by cases hop), fun h => .inr ⟨rfl, h⟩⟩
  | readBlock f => exact ⟨(fun op hop => by cases hop), fun h => .inr ⟨rfl, h⟩⟩

/-- **`toOsOps` does not invent file numbers**: every file named by an emitted OS operation is
    named by one of the effects, or is the file of the bytes that were already pending. -/
theorem toOsOps_files (cap : Nat) (es : List Effect) : ∀ b : BufSt,
    (∀ op ∈ (toOsOps cap b es).2, ∀ f ∈ op.files, f ∈ C17.touchedFiles es ∨ (f = b.file ∧ b.pend ≠ [])) ∧
    ((toOsOps cap b es).1.pend ≠ [] →
      (toOsOps cap b es).1.file ∈ C17.touchedFiles es ∨ ((toOsOps cap b es).1.file = b.file ∧ b.pend ≠ [])) := by
  induction es with
  | nil => intro b; exact ⟨(fun op hop => by cases hop), fun h => .inr ⟨rfl, h⟩⟩
  | cons e es ih =>
    intro b
    obtain ⟨s1, s2⟩ := bufStep_files cap b e
    obtain ⟨i1, i2⟩ := ih (bufStep cap b e).1
    have htf : C17.touchedFiles (e :: es) = C17.effFiles e ++ C17.touchedFiles es := by
      simp [C17.touchedFiles]
    rw [Buf.toOsOps_cons, htf]
    have lift : ∀ f, (f = (bufStep cap b e).1.file ∧ (bufStep cap b e).1.pend ≠ []) →
        f ∈ C17.effFiles e ++ C17.touchedFiles es ∨ (f = b.file ∧ b.pend ≠ []) := by
      rintro f ⟨rfl, hp⟩
      rcases s2 hp with h | h
      · exact .inl (List.mem_append_left _ h)
      · exact .inr h
    refine ⟨?_, ?_⟩
    · intro op hop f hf
      rcases List.mem_append.mp hop with hop | hop
      · rcases s1 op hop f hf with h | h
        · exact .inl (List.mem_append_left _ h)
        · exact .inr h
      · rcases i1 op hop f hf with h | h
        · exact .inl (List.mem_append_right _ h)
        · exact lift f h
    · intro hp
      rcases i2 hp with h | h
      · exact .inl (List.mem_append_right _ h)
      · exact lift _ ⟨h.1, h.2⟩

/-- **C17 (d).** The OS operations of any call, issued with an empty `BufWriter`, name only
    files that are tracked before or after the call — or a file both created and unlinked by it
    (tiny geometries only, see `C17.effects_named_false`). -/
theorem step_ops_named (g : Geom) (l : Log) (c : Call) (tick : Bool) (order : List Bytes) (cap : Nat)
    (b : BufSt) (hb : b.pend = []) (hcur : l.cur ∈ l.files) :
    let r := Log.step g l c tick order
    ∀ op ∈ (toOsOps cap b r.2.2).2, ∀ f ∈ op.files,
      f ∈ r.1.files ++ l.files ∨ (Effect.create f ∈ r.2.2 ∧ Effect.unlink f ∈ r.2.2) := by
  intro r op hop f hf
  rcases (toOsOps_files cap r.2.2 b).1 op hop f hf with h | h
  · exact C17.effects_named_partial g l c tick order hcur f h
  · exact absurd hb h.2

/-- so, on a directory with arbitrary foreign content, a call touches nothing but the regular
    entries named after those files -/
theorem step_foreign_untouched (g : Geom) (l : Log) (c : Call) (tick : Bool) (order : List Bytes) (cap : Nat)
    (b : BufSt) (d : Dir) (e : DirEntry) (he : e ∈ d) (hf : Foreign e) :
    e ∈ Dir.applyOsOps d (toOsOps cap b (Log.step g l c tick order).2.2).2 :=
  foreign_untouched _ d e he hf

/-! ### Non-vacuity -/

/-- a directory with a WAL file, a foreign file, a sub-directory named like the NEXT WAL file's
    neighbour, and a 24-byte name whose number does not fit a `u64` -/
def dEx : Dir :=
  [ ⟨fileName 3, .regular, [1, 2]⟩,
    ⟨"notes.txt".toUTF8.toList, .regular, [9]⟩,
    ⟨fileName 7, .other, []⟩,
    ⟨"wal-99999999999999999999".toUTF8.toList, .regular, [5]⟩ ]

example : Dir.image dEx = [(3, [1, 2])] := by with_unfolding_all decide

/-- create 4, write into 3 and 4, unlink 3: the three foreign entries are untouched, the image is
    what the same operations do to `[(3, [1,2])]` -/
example :
    let ops := [OsOp.create 4, .write 3 1 [8], .write 4 0 [6], .unlink 3, .create 7]
    Dir.applyOsOps dEx ops =
      [ ⟨"notes.txt".toUTF8.toList, .regular, [9]⟩, ⟨fileName 7, .other, []⟩,
        ⟨"wal-99999999999999999999".toUTF8.toList, .regular, [5]⟩, ⟨fileName 4, .regular, [6]⟩ ] ∧
    Dir.image (Dir.applyOsOps dEx [OsOp.create 4, .write 3 1 [8], .write 4 0 [6], .unlink 3]) =
      MRL.applyOsOps (Dir.image dEx) [OsOp.create 4, .write 3 1 [8], .write 4 0 [6], .unlink 3] := by
  with_unfolding_all decide

end MRL.C17F
