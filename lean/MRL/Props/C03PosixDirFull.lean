/-
C03 under power loss with a lazy directory, towards the statement without `lateSync = false`.

FULL STATEMENT (as posed, NOT proved here): `C03PD.C03_posix_dir_partial` without its hypothesis
`lateSync img (opsP.take k) = false`: for every `u` and EVERY instant `k ≥` the promise,
`recover g (powerImageD img (opsP.take k) u) …` succeeds with queues `AbsEq` to a prefix state `i ≥ m`.
At the instants the hypothesis excludes, the image is `old ++ X`: `X` an effect-boundary image of
the ordered model, `old` the files `Fo … F-1` whose unlinks (by the last GC pass) are not durable.

PROVED (this file re-exports MRL/Proofs/PDLJournal.lean): the JOURNAL-LEVEL half, "re-adding a
GC-collected prefix of files changes nothing" — the GC suffix lemma (`suffix_lemma`, `H.rep_at`)
read backwards, and its stability under everything that can happen before the next `fsync(dir)`:
* `readd_gc`: right after every GC pass, for every `Fo` between the old and the new first tracked
  file (every prefix of the unlinks undone): the journal splits as `Jold ++ J` (entries in collected
  files / in tracked files) and `PDL.Collected Fo F (Jold from Fo) J l.queues` holds.
* `readd_step`: kept by every further call of the log that does not collect files again.
* `readd_restart`: kept by a restart (`J` replaced by its entries re-attributed by the reader —
  what `L.read_diskX` returns).
* `readd_agree`: `Collected` says that replaying the whole journal `Jold ++ J` from the old file `Fo`
  and replaying `J` from `F` both succeed and give the same abstract state (`AbsEq`), that of the
  in-memory queues.

WHAT IS MISSING (disk level), precisely. To conclude at the excluded instants one needs, for the
image `old ++ X`:
 (D1) an item tape of `old ++ X` (`L.DiskX g (old ++ X) Fo (Jold ++ J')`): the old files hold, as
      written, the frames of the entries of `Jold` (plus lead frames and dead/junk groups older
      than them), the entry straddling the boundary `old | X` is whole (its first frames end `old`,
      its last frames are the lead frames of `X`), and the groups of `X` follow. At the GC pass this
      is `L.XInvX` of the disk before the unlinks (`L.gc_diskX` goes from it to the cut disk); it has
      to be CARRIED through the later effects next to the real invariant — `L.entry_extX` /
      `L.touches_extX` do carry it for a log that still tracks the old files (the effects of
      `writeEntry` do not depend on the files in front), but at a restart the real log is re-read
      from `X` alone (new `off`, new handles, re-attributed journal) and the description of
      `old ++ X` must be re-split at the new writer position: this needs the relation between the
      items of `X` and those of `old ++ X` (`L.layout_cutJ`, which `L.gc_diskX` does not export) and a
      scan-splitting lemma at the file boundary;
 (D2) then `L.open_diskX` on (D1) with the replay `readd_agree` provides gives `recoverPre` on
      `old ++ X` with queues `AbsEq` to those of `recoverPre` on `X`, which `PX.runX_cut` relates to
      a prefix state `≥ m`.
(D1) is the two-description simulation announced in `C03PosixDir.lean`; nothing else is missing.
The harness/driver comparison (600 such points) and the `#eval` of `C03PosixDir.lean` show no failure.
-/
import MRL.Proofs.PDLJournal
import MRL.Props.C03PosixDir

namespace MRL.C03PD
open MRL Log C05 C01J H L PDL

/-- right after a GC pass, every prefix of its unlinks undone -/
theorem readd_gc (g : Geom) {l2 : Log} {J2 : List JE} (order : List Bytes) (hJ : JInv l2 J2) (Fo : Nat)
    (h1 : l2.files.headD 0 ≤ Fo) (h2 : Fo ≤ (runGc g l2 order).1.files.headD 0) :
    ∃ Jold J, J2 ++ gcJ g l2 order = Jold ++ J ∧
      Collected Fo ((runGc g l2 order).1.files.headD 0) (Jold.filter fun j => decide (Fo ≤ j.loc)) J l2.queues :=
  collected_gc g order hJ Fo h1 h2

/-- one more call that does not collect files -/
theorem readd_step (g : Geom) {l : Log} {Jo Jr Jold : List JE} {Fo : Nat} (hJ : JInv l (Jo ++ Jr))
    (ho : ∀ j ∈ Jo, j.loc < l.files.headD 0)
    (h : Collected Fo (l.files.headD 0) Jold Jr l.queues) (c : Call) (tick : Bool) (order : List Bytes)
    (hhead : (l.step g c tick order).1.files.headD 0 = l.files.headD 0) :
    Collected Fo (l.files.headD 0) Jold (Jr ++ l.stepJ g c order) (l.step g c tick order).1.queues :=
  collected_step g hJ ho h c tick order hhead

/-- a restart: the retained entries re-attributed -/
theorem readd_restart {Fo F : Nat} {Jold J J' : List JE} {q : MemQueues} (h : Collected Fo F Jold J q)
    (hrel : All2 (fun a b : JE => a.e = b.e) J' J) (hn : ∀ j ∈ J', F ≤ j.loc) : Collected Fo F Jold J' q :=
  h.reattr hrel hn

/-- further entries (e.g. the GC touches of `open`) -/
theorem readd_extend {Fo F : Nat} {Jold J : List JE} {q : MemQueues} (h : Collected Fo F Jold J q)
    (Jn : List JE) (q' : MemQueues) (hn : ∀ j ∈ Jn, F ≤ j.loc)
    (hret : ∃ qr', replayJ F [] (J ++ Jn) = some qr' ∧ AbsEq qr' q') : Collected Fo F Jold (J ++ Jn) q' :=
  h.extend Jn q' hn hret

/-- **re-adding the collected files changes nothing**: the whole journal replays from the old file
    to the same abstract state as the retained journal from the first tracked file -/
theorem readd_agree {Fo F : Nat} {Jold J : List JE} {q : MemQueues} (h : Collected Fo F Jold J q) :
    ∃ qo qr, replayJ Fo [] (Jold ++ J) = some qo ∧ replayJ F [] J = some qr ∧ AbsEq qo qr ∧ AbsEq qr q := by
  obtain ⟨qo, h1, h2⟩ := h.full
  obtain ⟨qr, h3, h4⟩ := h.ret
  exact ⟨qo, qr, h1, h3, h2.trans h4.symm, h4⟩

end MRL.C03PD
