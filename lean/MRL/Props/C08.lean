/-
C08 — positions within each queue are strictly increasing, whatever bytes are on disk; and every
recovered record is a record of an `append` entry the reader delivered.

First half (`recover_sorted`): for EVERY image (arbitrary bytes, arbitrary lengths), policy, GC
order and fault plan, a successful `recover` returns a log satisfying the representation
invariant `C05.Inv`: distinct queue names, and in every queue strictly increasing positions, none
below the queue's `start`. The reason is that the replay goes through `append_record`, which
checks `pos ≥ next_position` record by record (a batch with out-of-order positions makes `open`
fail with `Corruption` instead — see the second example).

Second half (`replay_records_subset`, `recover_records_subset`): every record `(queue, position,
payload)` in the recovered queues is a record of some `append` entry among the entries that
`assemble` delivered and `Entry.decode` accepted. (The remaining link — a delivered entry is a
written entry unless a CRC collision occurs — is outside the model: `crc32` is opaque.)

Proof machinery: MRL/Proofs/RecReplay.lean.
-/
import MRL.Proofs.RecReplay

namespace MRL.C08
open MRL Consts Rec

/-- the queue-map invariant is `C05.Inv` of a log -/
theorem inv_iff (l : Log) : C05.Inv l ↔ QsInv l.queues := Iff.rfl

/-- one replayed entry, ANY entry, keeps the invariant -/
theorem replayEntry_sorted (qs qs' : MemQueues) (file : Nat) (e : Entry)
    (h : replayEntry qs file e = some qs') (hI : QsInv qs) : QsInv qs' :=
  QsInv_replayEntry h hI

/-- the replay of ANY list of record events keeps the invariant -/
theorem replay_sorted (evs : List RecEv) (qs : MemQueues) (h : replay [] evs = some qs) : QsInv qs :=
  QsInv_replay evs [] qs h QsInv_nil

/-- **C08, first half.** Whatever the image, a recovered log satisfies `C05.Inv`. -/
theorem recover_sorted (g : Geom) (img : Image) (policy : Policy) (order : List Bytes)
    (failAt : Option Nat) (r : Recovered) (h : recover g img policy order failAt = .ok r) :
    C05.Inv r.log := by
  obtain ⟨evs, he⟩ := recover_ok_replay h
  exact replay_sorted evs _ he

/-- spelled out: distinct names; in each queue positions strictly increase and are `≥ start` -/
theorem recover_sorted' (g : Geom) (img : Image) (policy : Policy) (order : List Bytes)
    (failAt : Option Nat) (r : Recovered) (h : recover g img policy order failAt = .ok r) :
    (r.log.queues.map (·.1)).Nodup ∧
    ∀ kv ∈ r.log.queues,
      (kv.2.recs.map (·.pos)).Pairwise (· < ·) ∧ (∀ rec ∈ kv.2.recs, kv.2.start ≤ rec.pos) ∧
      (∀ rec ∈ kv.2.recs, rec.pos < kv.2.nextPosition) := by
  have hI := recover_sorted g img policy order failAt r h
  refine ⟨hI.1, fun kv hkv => ?_⟩
  have hq := hI.2 kv hkv
  exact ⟨(MemQueue.sorted_iff_pos _).mp hq.1, hq.2, MemQueue.lt_nextPosition _ hq.1⟩

/-! ### second half: recovered records are records of delivered `append` entries -/

/-- **replay_records_subset.** After a successful replay of ANY list of (file, entry), every
    record of every queue is a record of one of the `append` entries of the list, under the
    same queue name, with the same position and payload. -/
theorem replay_records_subset (es : List (Nat × Entry)) (qs : MemQueues)
    (h : replayEntries [] es = some qs) :
    ∀ kv ∈ qs, ∀ rec ∈ kv.2.recs, (kv.1, rec.pos, rec.payload) ∈ recordsOf es := by
  have hA := AllIn_replayEntries es [] [] qs h (fun kv hkv => by cases hkv)
  intro kv hkv rec hrec
  have := hA kv hkv (rec.pos, rec.payload) (List.mem_map_of_mem (f := fun r : Rec => (r.pos, r.payload)) hrec)
  simpa using this

/-- `replay` acts exactly on the record events that are entries and decode (`decoded`): corrupt
    events and undecodable entries are skipped -/
theorem replay_is_fold (evs : List RecEv) (qs : MemQueues) :
    replay qs evs = replayEntries qs (decoded evs) := replay_eq evs qs

/-- **C08, second half (at the level of delivered entries).** The records of a recovered log are
    records of the `append` entries among what `assemble` delivered — for the frames the scan of
    the prepared image returned — and `Entry.decode` accepted. -/
theorem recover_records_subset (g : Geom) (img : Image) (policy : Policy) (order : List Bytes)
    (failAt : Option Nat) (r : Recovered) (h : recover g img policy order failAt = .ok r) :
    ∃ b0 rest trail rdEvs e io,
      blocksOf g (prepareImage g img).1 1 = (b0 :: rest, trail) ∧
      scanBlocks g failAt trail b0.cost b0 0 rest = some (rdEvs, e, io) ∧
      ∀ kv ∈ r.log.queues, ∀ rec ∈ kv.2.recs,
        (kv.1, rec.pos, rec.payload) ∈
          recordsOf (decoded (assemble { within := false, buf := [], attr := b0.file } rdEvs)) := by
  obtain ⟨b0, rest, trail, rdEvs, e, io, h1, h2, h3⟩ := recover_ok_replay' h
  refine ⟨b0, rest, trail, rdEvs, e, io, h1, h2, ?_⟩
  rw [replay_eq] at h3
  exact replay_records_subset _ _ h3

/-! ### non-vacuity -/

/-- a batch with increasing (even non-contiguous) positions replays; the records are kept -/
example : replayEntries [] [(0, .touch [1] 5), (0, .append [1] 5 [(5, [9]), (7, [8])]), (1, .append [1] 9 [(9, [])])]
    = some [([1], { start := 5, recs := [⟨5, [9], none⟩, ⟨7, [8], some 0⟩, ⟨9, [], some 1⟩] })] := by
  decide

/-- a batch with decreasing positions is rejected: `open` fails with `Corruption` rather than
    building an unsorted queue -/
example : replayEntries [] [(0, .append [1] 5 [(7, [8]), (5, [9])])] = none := by decide

/-- a batch below the queue's next position is rejected too -/
example : replayEntries [] [(0, .touch [1] 5), (0, .append [1] 3 [(3, [8])])] = none := by decide

end MRL.C08
