/-
C03 under power loss with a lazy directory — the full statement: `C03PD.C03_posix_dir_calls` WITHOUT
`NoReopenWhilePending`. For every history of calls and restarts from a crash-reachable state, every
promise point `m` (an event ending with `flush, fsync(file), fsync(dir)`), every instant `k` at or after
it, and every number `u` of durable pending unlinks: `recover g (powerImageD img (opsP.take k) u) …`
succeeds with queues `AbsEq` to a state `i ≥ m` of the history.

HOW. As in `C03PosixDirCalls.lean`, with the two uses of `NoReopenWhilePending` removed:
* the image (`PDA.power_reductionD_hard2`): `PDA.hinvD2` allows the `ensureLen` a restart issues on the
  first tracked file while unlinks are pending (the file is on the disk, an unlinked file is not:
  `PDA.ens_ok`, `PDA.und_absent`); a `create` always follows an `fsync(dir)` (`PDA.create_pend`);
* opening it (`PDA.vrecA` / `PDA.vwinA`): inside the window the log that still tracks the collected
  files is carried with the invariant `PDA.CInvA` (journal tied to the queues up to the file handles:
  MRL/Proofs/PDAInv.lean, PDACall.lean); at a restart inside the window (`PDA.virt_relog`,
  `PDA.virt_reopenA`) the real log is re-read from the real disk `D`, the disk `Dv = old ++ D` is read
  too, both readers end at the same place (`PDA.recoverPre_suffix`: scan splitting at the file boundary,
  the scan restarts at cursor 0 of every block) and their queues have the same abstract state; so the
  re-read real log, in front of the collected files, satisfies `CInvA` on `Dv` with the description the
  reader of `Dv` returns (`L.read_diskX` through `L.open_diskX`), and the window goes on.
-/
import MRL.Proofs.PDAHard
import MRL.Proofs.PDAHinv
import MRL.Props.C03PosixDirCalls

namespace MRL.PDA
open MRL Buf G H L Log K C01J Codec P PX PD PDC

theorem power_reductionD_hard2 (g : Geom) (hB : g.B ≤ 65542) (cap : Nat) (l : Log) (J : List JE) (D : Image)
    (b : BufSt) (hc : CInvX g l J D) (hwJ : ∀ j ∈ J, C07.WF j.e) (hb : b.pend = []) (evs : List Ev)
    (hwf : ∀ j ∈ jourX g l D evs, C07.WF j.e) (htorn : TornEffs (effsX g l D evs))
    (m : Nat) (pre : List Effect) (f : Nat)
    (htail : effsX g l D (evs.take m) = pre ++ [.flush, .fsyncFile f, .fsyncDir])
    (k : Nat) (hk : (toOsOpsP cap b (effsX g l D (evs.take m))).2.length ≤ k)
    (hns : lateSync D ((toOsOpsP cap b (effsX g l D evs)).2.take k) = true)
    (u : Nat) :
    ∃ n, powerImageD D ((toOsOpsP cap b (effsX g l D evs)).2.take k) u =
      applyOsOps (diskXs g l D (evs.take m))
        (directOps (skipLate u
          ((effsX g (logX g l D (evs.take m)) (diskXs g l D (evs.take m)) (evs.drop m)).take n))) := by
  have hfb := fileBytes_pos g
  have hsplit : evs = evs.take m ++ evs.drop m := (List.take_append_drop m evs).symm
  have heffs : effsX g l D evs = effsX g l D (evs.take m) ++
      effsX g (logX g l D (evs.take m)) (diskXs g l D (evs.take m)) (evs.drop m) := by
    conv => lhs; rw [hsplit]
    exact effsX_append g _ _ l D
  have hjour : jourX g l D evs = jourX g l D (evs.take m) ++
      jourX g (logX g l D (evs.take m)) (diskXs g l D (evs.take m)) (evs.drop m) := by
    conv => lhs; rw [hsplit]
    exact jourX_append g _ _ l D
  have hwfm : ∀ j ∈ jourX g l D (evs.take m), C07.WF j.e :=
    fun j hj => hwf j (by rw [hjour]; exact List.mem_append_left _ hj)
  have hwfr : ∀ j ∈ jourX g (logX g l D (evs.take m)) (diskXs g l D (evs.take m)) (evs.drop m), C07.WF j.e :=
    fun j hj => hwf j (by rw [hjour]; exact List.mem_append_right _ hj)
  have htornm : TornEffs (effsX g l D (evs.take m)) := torn_left (by rw [← heffs]; exact htorn)
  have htornr : TornEffs (effsX g (logX g l D (evs.take m)) (diskXs g l D (evs.take m)) (evs.drop m)) :=
    torn_right (by rw [← heffs]; exact htorn)
  obtain ⟨⟨Jm, hcm, hwm⟩, hpdM, hdiscM⟩ := runX_inv g hB (evs.take m) hc hwJ hwfm htornm
  obtain ⟨_, hpdR, hdiscR⟩ := runX_inv g hB (evs.drop m) hcm hwm hwfr htornr
  have hfoeM := fun (w : Bool) X => runX_foe g hB (evs.take m) hc hwJ hwfm htornm w X
  have hfoeR := fun (w : Bool) X => runX_foe g hB (evs.drop m) hcm hwm hwfr htornr w X
  have hspR := syncPat_hist g hB (evs.drop m) hcm hwm hwfr htornr
  have hpresR := unl_present g hB (evs.drop m) hcm hwm hwfr htornr
  have hcrR := create_pend g hB (evs.drop m) hcm hwm hwfr htornr
  have hensR := ens_ok g hB (evs.drop m) hcm hwm hwfr htornr
  have hDm : diskXs g l D (evs.take m) = applyOsOps D (directOps (effsX g l D (evs.take m))) := diskXs_eq g _ l D
  have hsortm : SortedK (diskXs g l D (evs.take m)) := sorted_of_dshape (dshape_of_cinvx hcm)
  generalize hEm : effsX g l D (evs.take m) = Em at *
  generalize hEr : effsX g (logX g l D (evs.take m)) (diskXs g l D (evs.take m)) (evs.drop m) = Er at *
  have hsh := dshape_of_cinvx hc
  obtain ⟨σm, hpdm, hpdlm⟩ := hpdM (pd0X l) (pdl0X hsh)
  obtain ⟨σe, hpdr, _⟩ := hpdR σm hpdlm
  obtain ⟨hdm, hnm, hclean⟩ : σm.dirty = false ∧ σm.named = true ∧ σm.clean = true := by
    rw [htail] at hpdm; exact pd_triple_end _ _ _ pre f hpdm
  obtain ⟨stm, hrunm, _⟩ := hdiscM none (Or.inl rfl)
  obtain ⟨hrunSm, hstm⟩ := PX.runS_of_pd g.fileBytes Em none stm (pd0X l) σm hrunm hpdm (fun _ => rfl)
  have hstm0 : stm = none := hstm hclean
  subst hstm0
  obtain ⟨str, hrunr, _⟩ := hdiscR none (Or.inl rfl)
  obtain ⟨hrunSr, _⟩ := PX.runS_of_pd g.fileBytes Er none str σm σe hrunr hpdr (fun _ => rfl)
  have hinv0 : Buf.Inv cap b none := ⟨Or.inl hb, by rw [hb]; exact Nat.zero_le _⟩
  obtain ⟨hinvm, _⟩ := toOsOpsP_ok cap Em b none none hinv0 hrunSm
  have hbm : (toOsOpsP cap b Em).1.pend = [] := by
    rcases hinvm.1 with h | h
    · exact h
    · cases h
  -- the state after the first `m` events: nothing pending
  have hDSm : prunD (DState.init D) (toOsOpsP cap b Em).2 = prunD (DState.init D) (directOpsP Em) := by
    have := toOsOpsD_ok cap Em b none none hinv0 hrunSm (DState.init D)
    rw [flushOps_nil _ hbm, flushOps_nil b hb] at this
    exact this
  have hreset : prunD (DState.init D) (directOpsP Em) =
      ⟨prun (PState.init D) (directOpsP Em), [], false⟩ := by
    have hs := prunD_s (directOpsP Em) (DState.init D)
    rw [htail, directOpsP_append, prunD_append] at hs ⊢
    rw [htail, directOpsP_append] at *
    generalize prunD (DState.init D) (directOpsP pre) = d0 at *
    have : prunD d0 (directOpsP [Effect.flush, Effect.fsyncFile f, Effect.fsyncDir]) =
        pstepD (pstepD d0 (.syncFile f)) .syncDir := rfl
    rw [this] at hs ⊢
    have h2 : pstepD (pstepD d0 (.syncFile f)) .syncDir =
        ⟨(pstepD (pstepD d0 (.syncFile f)) .syncDir).s, [], false⟩ := rfl
    rw [h2, hs]
    rfl
  -- the operations
  unfold powerImageD lateSync at *
  rw [heffs, toOsOpsP_append] at hns ⊢
  simp only at hns ⊢
  rw [List.take_append, List.take_of_length_le hk, prunD_append, hDSm, hreset] at hns ⊢
  obtain ⟨n', hn'⟩ := op_boundaryD cap Er (toOsOpsP cap b Em).1 none str
    ⟨prun (PState.init D) (directOpsP Em), [], false⟩ hinvm hrunSr (k - (toOsOpsP cap b Em).2.length)
  rw [hn', pendW_nil _ hbm, List.nil_append] at hns ⊢
  -- sizes of the files along the history
  have hfoem : ∀ i, i ≤ Em.length → FullOrEmpty g.fileBytes
      (applyOsOps (PState.init D).vol (directOps (Em.take i))) := by
    intro i _
    exact hfoeM true _ (CutW.of_take true Em i D)
  obtain ⟨_, σn, _, hpdn, hIm, _⟩ := PX.power_prefix g.fileBytes hfb Em (pd0X l) (PState.init D) (pinv0X hfb hsh) rfl rfl
    σm hpdm hfoem Em.length (Nat.le_refl _)
  rw [List.take_length] at hpdn hIm
  rw [hpdm] at hpdn
  injection hpdn with hpdn
  subst hpdn
  have hvolm : (prun (PState.init D) (directOpsP Em)).vol = applyOsOps D (directOps Em) := prun_vol_direct _ _
  have hfoer : ∀ i, i ≤ Er.length → FullOrEmpty g.fileBytes
      (applyOsOps (prun (PState.init D) (directOpsP Em)).vol (directOps (Er.take i))) := by
    intro i _
    rw [hvolm, ← hDm]
    exact hfoeR true _ (CutW.of_take true Er i _)
  have htk : Er.take n' = Er.take (min n' Er.length) := by
    rw [List.take_eq_take_iff]; simp
  rw [htk] at hns ⊢
  generalize hnn : min n' Er.length = n at *
  have hnle : n ≤ Er.length := by rw [← hnn]; exact Nat.min_le_right _ _
  have hsortS : SortedK (prun (PState.init D) (directOpsP Em)).vol := by rw [hvolm, ← hDm]; exact hsortm
  have hundnil : ∀ i, pendAfter false (Er.take i) = false →
      (prunD ⟨prun (PState.init D) (directOpsP Em), [], false⟩ (directOpsP (Er.take i))).und = [] := by
    intro i hp
    apply Classical.byContradiction
    intro hne
    have := und_of_pend (Er.take i) ⟨prun (PState.init D) (directOpsP Em), [], false⟩ false
      (fun h => absurd rfl h) hne
    rw [hp] at this; cases this
  have hcreate : ∀ i f, Er[i]? = some (Effect.create f) →
      (prunD ⟨prun (PState.init D) (directOpsP Em), [], false⟩ (directOpsP (Er.take i))).und = [] :=
    fun i f hi => hundnil i (hcrR i f hi false)
  have hv0 : ∀ i, (prunD ⟨prun (PState.init D) (directOpsP Em), [], false⟩ (directOpsP (Er.take i))).s.vol =
      applyOsOps (diskXs g l D (evs.take m)) (directOps (Er.take i)) := by
    intro i
    rw [prunD_s, prun_vol_direct]
    show applyOsOps (prun (PState.init D) (directOpsP Em)).vol _ = _
    rw [hvolm, ← hDm]
  have hH := hinvD2 g.fileBytes hfb Er σm _ hIm hdm hnm σe hpdr hfoer hsortS hcreate
    (by
      intro i f mm hi kv hkv heq
      rcases hensR i f mm hi with h1 | h1
      · rw [hundnil i (h1 false)] at hkv; cases hkv
      · have habs := und_absent (Er.take i) ⟨prun (PState.init D) (directOpsP Em), [], false⟩
          (fun kv hkv => by simp at hkv)
          (fun j f' hj => by
            have hji : j < i := by
              apply Classical.byContradiction
              intro hn
              rw [List.getElem?_eq_none (by rw [List.length_take]; omega)] at hj
              cases hj
            have hj' : Er[j]? = some (Effect.create f') := by
              rw [List.getElem?_take] at hj
              simpa [hji] using hj
            have := hcreate j f' hj'
            rw [List.take_take, Nat.min_eq_left (Nat.le_of_lt hji)]
            exact this)
          kv hkv
        apply habs
        rw [hv0 i, heq]
        exact h1)
    (by
      intro i f' hi
      rw [hvolm, ← hDm]
      exact hpresR i f' hi)
    (fun i f' hi _ => hspR i f' hi) n hnle
  obtain ⟨hune, f', hn1, hf'⟩ := hH.hardF hns
  obtain ⟨_, σn, _, hpdn, hIn, _⟩ := PX.power_prefix g.fileBytes hfb Er σm _ hIm hdm hnm σe hpdr hfoer n hnle
  have hnamed := hH.named σn hpdn hune
  have hdirty : σn.dirty = false := by
    have htk1 : Er.take n = Er.take (n - 1) ++ [Effect.fsyncFile f'] := by
      have := take_succ_get' hf'
      rwa [show n - 1 + 1 = n by omega] at this
    rw [htk1, PX.pd_append] at hpdn
    cases hq : PX.pd g.fileBytes σm (Er.take (n - 1)) with
    | none => rw [hq] at hpdn; cases hpdn
    | some σq =>
      rw [hq] at hpdn
      simp only [Option.bind_some, PX.pd, PX.pd1] at hpdn
      split at hpdn
      · simp only [Option.bind_some, Option.some.injEq] at hpdn
        rw [← hpdn]
      · cases hpdn
  refine ⟨n, ?_⟩
  unfold DState.image
  rw [prunD_s]
  rw [PX.image_alldur hIn hdirty hnamed, prun_vol_direct, hH.img u, hvolm, hDm]

end MRL.PDA

namespace MRL.C03PD
open MRL Log C05 C01J G H L K Buf Codec P PX PD PDC PDA

/-- the core, from any state satisfying the relaxed invariant -/
theorem C03_posix_dir_full_cinvx (g : Geom) (hB : g.B ≤ 65542) (cap : Nat) (l : Log) (J : List JE) (D : Image)
    (b : BufSt) (hc : CInvX g l J D) (hwJ : ∀ j ∈ J, C07.WF j.e) (hb : b.pend = []) (evs : List Ev)
    (hfits : ∀ j ∈ jourX g l D evs, C07.WF j.e) (htorn : TornEffs (effsX g l D evs))
    (m : Nat) (hm : m ≤ evs.length) (pre : List Effect) (f : Nat)
    (htail : effsX g l D (evs.take m) = pre ++ [.flush, .fsyncFile f, .fsyncDir])
    (k : Nat) (hk : (toOsOpsP cap b (effsX g l D (evs.take m))).2.length ≤ k)
    (u : Nat) (policy' : Policy) (order' : List Bytes) :
    ∃ rec i, m ≤ i ∧ i ≤ evs.length ∧
      recover g (powerImageD D ((toOsOpsP cap b (effsX g l D evs)).2.take k) u) policy' order' none = .ok rec ∧
      AbsEq rec.log.queues (logX g l D (evs.take i)).queues := by
  cases hns : lateSync D ((toOsOpsP cap b (effsX g l D evs)).2.take k) with
  | false => exact C03_posix_dir_cinvx g hB cap l J D b hc hwJ hb evs hfits htorn m hm pre f htail k hk hns u policy' order'
  | true =>
    obtain ⟨n, hred⟩ := power_reductionD_hard2 g hB cap l J D b hc hwJ hb evs hfits htorn m pre f htail k hk hns u
    have hsplit : evs = evs.take m ++ evs.drop m := (List.take_append_drop m evs).symm
    have heffs : effsX g l D evs = effsX g l D (evs.take m) ++
        effsX g (logX g l D (evs.take m)) (diskXs g l D (evs.take m)) (evs.drop m) := by
      conv => lhs; rw [hsplit]
      exact effsX_append g _ _ l D
    have hjour : jourX g l D evs = jourX g l D (evs.take m) ++
        jourX g (logX g l D (evs.take m)) (diskXs g l D (evs.take m)) (evs.drop m) := by
      conv => lhs; rw [hsplit]
      exact jourX_append g _ _ l D
    obtain ⟨⟨Jm, hcm, hwm⟩, _, _⟩ := runX_inv g hB (evs.take m) hc hwJ
      (fun j hj => hfits j (by rw [hjour]; exact List.mem_append_left _ hj))
      (torn_left (by rw [← heffs]; exact htorn))
    obtain ⟨i, lp, e0, io, hi, hrec, hq⟩ := vrecA g hB u (evs.drop m) hcm hwm
      (fun j hj => hfits j (by rw [hjour]; exact List.mem_append_right _ hj))
      (torn_right (by rw [← heffs]; exact htorn)) n policy'
    obtain ⟨r, hr, hrq⟩ := recover_of_pre g _ policy' order' lp e0 io hrec
    refine ⟨r, m + i, Nat.le_add_right _ _, ?_, by rw [hred]; exact hr, ?_⟩
    · simp at hi; omega
    · rw [hrq]
      have : evs.take (m + i) = evs.take m ++ (evs.drop m).take i := List.take_add
      rw [this, logX_append]
      exact hq

/-- **C03 under power loss with a lazy directory**: every history of calls and restarts, every `u`, EVERY
    instant at or after the promise — no condition on restarts -/
theorem C03_posix_dir_full (g : Geom) (hB : g.B ≤ 65542) (cap : Nat) (l : Log) (img : Image) (b : BufSt)
    (h : C02U.ReachX g cap l img b) (hb : b.pend = []) (evs : List Ev)
    (hfits : ∀ j ∈ jourX g l img evs, C07.WF j.e) (htorn : TornEffs (effsX g l img evs))
    (m : Nat) (hm : m ≤ evs.length) (pre : List Effect) (f : Nat)
    (htail : effsX g l img (evs.take m) = pre ++ [.flush, .fsyncFile f, .fsyncDir])
    (k : Nat) (hk : (toOsOpsP cap b (effsX g l img (evs.take m))).2.length ≤ k)
    (u : Nat) (policy' : Policy) (order' : List Bytes) :
    ∃ rec i, m ≤ i ∧ i ≤ evs.length ∧
      recover g (powerImageD img ((toOsOpsP cap b (effsX g l img evs)).2.take k) u) policy' order' none = .ok rec ∧
      AbsEq rec.log.queues (logX g l img (evs.take i)).queues := by
  obtain ⟨⟨J, hc, hw⟩, _⟩ := C02U.reachX_inv g hB cap h
  rw [C02U.flushDisk_of_empty img b hb] at hc
  exact C03_posix_dir_full_cinvx g hB cap l J img b hc hw hb evs hfits htorn m hm pre f htail k hk u policy' order'

end MRL.C03PD
