/-
C10, assertions: the write-path `assert!`s that the GC pass of `open` can reach never fire —
`RollingWriter::write`'s `buf.len() <= num_bytes_remaining_in_block()` (rolling/directory.rs),
`Header::for_payload`'s `payload.len() < BLOCK_NUM_BYTES` (frame/header.rs), the slice
`self.buffer[..HEADER_LEN + payload.len()]` of `write_frame` (frame/writer.rs) and `serialize`'s
`queue.len() <= u16::MAX` (record.rs) — provided no WAL file of the image is longer than the
nominal file size. (With an oversized file the first assertion CAN fire: `oversize_assert_fires`.)
-/
import MRL.Model.Panic
import MRL.Proofs.CodecLayout
import MRL.Proofs.RecReplay
import MRL.Proofs.StepGc
import MRL.Props.C10

namespace MRL.C10A
open MRL Log Codec Consts

/-! ### the assertion of `RollingWriter::write` -/

/-- the writer's offset after one buffer (as in `Log.writeBuf`) -/
def nextOff (g : Geom) (off : Nat) (buf : Bytes) : Nat :=
  if buf.isEmpty then off else if off + buf.length > g.fileBytes then buf.length else off + buf.length

/-- every non-empty buffer fits in what is left of its block:
    `assert!(buf.len() <= self.num_bytes_remaining_in_block())`, offsets advancing as in `write` -/
def writeAsserts (g : Geom) : Nat → List Bytes → Bool
  | _, [] => true
  | off, b :: bs => (b.isEmpty || decide (b.length ≤ g.B - off % g.B)) && writeAsserts g (nextOff g off b) bs

/-- offset after a list of buffers -/
def endOff (g : Geom) : Nat → List Bytes → Nat
  | off, [] => off
  | off, b :: bs => endOff g (nextOff g off b) bs

theorem writeBuf_off (g : Geom) (l : Log) (buf : Bytes) : (writeBuf g l buf).1.off = nextOff g l.off buf := by
  unfold writeBuf nextOff
  split
  · rfl
  · split
    · split <;> rfl
    · rfl

theorem writeBufs_off (g : Geom) (bufs : List Bytes) : ∀ l : Log, (writeBufs g l bufs).1.off = endOff g l.off bufs := by
  induction bufs with
  | nil => intro l; rfl
  | cons b bs ih => intro l; rw [Step.writeBufs_cons]; simp only [ih, writeBuf_off, endOff]

theorem B_pos (g : Geom) : 0 < g.B := Nat.lt_trans (Nat.succ_pos _) g.hB

/-- one buffer that does not cross a block end, written at an offset within the file -/
theorem nextOff_spec (g : Geom) (off c : Nat) (b : Bytes) (hc : off % g.B = c) (hoff : off ≤ g.fileBytes)
    (hpos : 0 < b.length) (hfit : c + b.length ≤ g.B) :
    b.length ≤ g.B - off % g.B ∧ nextOff g off b % g.B = adv g c b.length ∧ nextOff g off b ≤ g.fileBytes := by
  have hB := B_pos g
  have hK := g.hK
  have hne : b.isEmpty = false := by cases b <;> simp_all
  have hdm := Nat.div_add_mod off g.B
  rw [hc] at hdm
  have hfb : g.fileBytes = g.B * g.K := rfl
  have hBK : g.B ≤ g.B * g.K := Nat.le_mul_of_pos_right _ hK
  refine ⟨by rw [hc]; omega, ?_, ?_⟩
  · unfold nextOff adv
    rw [hne]
    simp only [Bool.false_eq_true, if_false]
    by_cases hroll : off + b.length > g.fileBytes
    · rw [if_pos hroll]
      -- a roll-over happens only at the very end of the file: `off = fileBytes`, cursor 0
      have hj : g.K ≤ off / g.B := by
        apply Nat.le_of_not_lt
        intro hlt
        have : g.B * (off / g.B + 1) ≤ g.B * g.K := Nat.mul_le_mul_left _ hlt
        rw [Nat.mul_succ] at this
        omega
      have hj' : g.B * g.K ≤ g.B * (off / g.B) := Nat.mul_le_mul_left _ hj
      have hc0 : c = 0 := by omega
      subst hc0
      by_cases hfull : 0 + b.length = g.B
      · rw [if_pos hfull]
        have : b.length = g.B := by omega
        rw [this, Nat.mod_self]
      · rw [if_neg hfull]
        have hlt : b.length < g.B := by omega
        rw [Nat.zero_add]
        exact Nat.mod_eq_of_lt hlt
    · rw [if_neg hroll]
      rw [← hdm, Nat.add_assoc, Nat.mul_add_mod]
      by_cases hfull : c + b.length = g.B
      · rw [if_pos hfull, hfull, Nat.mod_self]
      · rw [if_neg hfull]
        have hlt : c + b.length < g.B := by omega
        exact Nat.mod_eq_of_lt hlt
  · unfold nextOff
    rw [hne]
    simp only [Bool.false_eq_true, if_false]
    split
    · omega
    · omega

/-- buffers that do not cross block ends (CodecLayout's `NoCross`) pass the assertion, and the
    offset stays within the file -/
theorem writeAsserts_of_noCross (g : Geom) (bufs : List Bytes) : ∀ (off c : Nat), off % g.B = c →
    off ≤ g.fileBytes → NoCross g c bufs → writeAsserts g off bufs = true ∧ endOff g off bufs ≤ g.fileBytes := by
  induction bufs with
  | nil => intro off c _ hoff _; exact ⟨rfl, hoff⟩
  | cons b bs ih =>
    intro off c hc hoff hn
    obtain ⟨hpos, hfit, hrest⟩ := hn
    obtain ⟨h1, h2, h3⟩ := nextOff_spec g off c b hc hoff hpos hfit
    obtain ⟨i1, i2⟩ := ih (nextOff g off b) _ h2 h3 hrest
    refine ⟨?_, i2⟩
    simp only [writeAsserts, i1, Bool.and_true, Bool.or_eq_true, decide_eq_true_eq]
    exact .inr h1

/-- the frames of an entry: each `HEADER_LEN + payload ≤ BLOCK`, so `Header::for_payload`'s
    `payload.len() < BLOCK_NUM_BYTES` and `write_frame`'s `self.buffer[..record_len]` are fine -/
theorem fits_frame_le (g : Geom) (fs : List Frm) : ∀ c, Fits g c fs → ∀ fr ∈ fs, HEADER_LEN + fr.2.length ≤ g.B := by
  induction fs with
  | nil => intro c _ fr hfr; cases hfr
  | cons f fs ih =>
    intro c hf fr hfr
    rcases List.mem_cons.mp hfr with rfl | hm
    · have := hf.1
      have hB := g.hB
      unfold maxFrameLen at this
      simp only [HEADER_LEN] at *
      split at this <;> omega
    · exact ih _ hf.2 fr hm

/-- **The writer's assertions hold for every entry**, written at any offset within the file:
    `RollingWriter::write`'s block check for every buffer, the frame-size checks for every frame,
    and the offset stays within the file. -/
theorem writeEntry_asserts (g : Geom) (l : Log) (e : Entry) (hoff : l.off ≤ g.fileBytes) :
    writeAsserts g l.off (entryBufsOf g l e) = true ∧ (l.writeEntry g e).1.off ≤ g.fileBytes ∧
    ∃ fs : List Frm, entryBufsOf g l e = layoutBufs g (l.off % g.B) fs ∧
      ∀ fr ∈ fs, HEADER_LEN + fr.2.length ≤ g.B ∧ fr.2.length < g.B := by
  have hc : l.off % g.B < g.B := Nat.mod_lt _ (B_pos g)
  obtain ⟨fs, h1, _, _, h4⟩ := writeEntryBufs_layout g (l.off % g.B) true e.encode hc
  have hb : entryBufsOf g l e = layoutBufs g (l.off % g.B) fs := h1
  obtain ⟨a1, a2⟩ := writeAsserts_of_noCross g _ l.off _ rfl hoff (noCross_layoutBufs g _ fs hc h4)
  refine ⟨by rw [hb]; exact a1, ?_, fs, hb, fun fr hfr => ?_⟩
  · rw [Step.writeEntry_eq]
    show (writeBufs g l (entryBufsOf g l e)).1.off ≤ _
    rw [writeBufs_off, hb]; exact a2
  · have := fits_frame_le g fs _ h4 fr hfr
    simp only [HEADER_LEN] at this ⊢
    omega

/-! ### `serialize`'s assertion on the queue name -/

theorem leNat_lt (bs : Bytes) : leNat bs < 256 ^ bs.length := by
  induction bs with
  | nil => simp [leNat]
  | cons b bs ih =>
    have hb : b.toNat < 256 := UInt8.toNat_lt b
    simp only [leNat, List.length_cons, Nat.pow_succ]
    omega

/-- a decoded entry's queue name is shorter than 2^16 bytes (its length came from a 2-byte field) -/
theorem decode_name_lt (bs : Bytes) (e : Entry) (h : Entry.decode bs = some e) : e.queue.length < 65536 := by
  have hq : leNat ((bs.drop 9).take 2) < 65536 := by
    have := leNat_lt ((bs.drop 9).take 2)
    have hl : ((bs.drop 9).take 2).length ≤ 2 := by simp [List.length_take]; omega
    calc leNat ((bs.drop 9).take 2) < 256 ^ ((bs.drop 9).take 2).length := this
      _ ≤ 256 ^ 2 := Nat.pow_le_pow_right (by decide) hl
      _ = 65536 := by decide
  have hlen : ∀ n, ((bs.drop ENTRY_HEADER_LEN).take n).length ≤ n := fun n => by simp [List.length_take]; omega
  unfold Entry.decode at h
  simp only at h
  split at h
  · cases h
  · split at h
    · cases h
    · split at h
      · cases h
      · split at h
        · cases h
        · split at h
          · simp only [Option.map_eq_some_iff] at h
            obtain ⟨recs, _, rfl⟩ := h
            exact Nat.lt_of_le_of_lt (hlen _) hq
          · split at h
            · cases h; exact Nat.lt_of_le_of_lt (hlen _) hq
            · split at h
              · cases h; exact Nat.lt_of_le_of_lt (hlen _) hq
              · cases h; exact Nat.lt_of_le_of_lt (hlen _) hq

/-- all queue names are shorter than 2^16 bytes -/
def NamesShort (qs : MemQueues) : Prop := ∀ kv ∈ qs, kv.1.length < 65536

theorem NamesShort.set {qs : MemQueues} (h : NamesShort qs) (n : Bytes) (q : MemQueue) (hn : n.length < 65536) :
    NamesShort (qs.set n q) := by
  intro kv hkv
  rcases mem_set hkv with hm | rfl
  · exact h kv hm
  · exact hn

theorem NamesShort.ack {qs : MemQueues} (h : NamesShort qs) (n : Bytes) (p : Nat) (hn : n.length < 65536) :
    NamesShort (qs.ackPosition n p) := by
  unfold MemQueues.ackPosition
  split
  · split
    · exact h.set n _ hn
    · exact h
  · exact h.set n _ hn

theorem namesShort_replayEntry (qs qs' : MemQueues) (file : Nat) (e : Entry) (h : NamesShort qs)
    (he : e.queue.length < 65536) (hr : replayEntry qs file e = some qs') : NamesShort qs' := by
  cases e with
  | append q pos recs =>
    simp only [replayEntry] at hr
    have h1 : NamesShort (if qs.contains q then qs else qs.ackPosition q pos) := by
      split
      · exact h
      · exact h.ack q pos he
    generalize (if qs.contains q then qs else qs.ackPosition q pos) = qs1 at h1 hr
    split at hr
    · simp only [Option.map_eq_some_iff] at hr
      obtain ⟨mq', _, rfl⟩ := hr
      exact h1.set q mq' he
    · cases hr
  | truncate q p =>
    simp only [replayEntry] at hr
    split at hr
    · cases hr; exact h.set q _ he
    · cases hr; exact h
  | touch q p => cases hr; exact h.ack q p he
  | delete q p => cases hr; exact fun kv hkv => h kv (mem_remove hkv)

theorem namesShort_replay (evs : List RecEv) : ∀ qs qs', NamesShort qs → replay qs evs = some qs' → NamesShort qs' := by
  induction evs with
  | nil => intro qs qs' h hr; cases hr; exact h
  | cons ev evs ih =>
    intro qs qs' h hr
    cases ev with
    | corrupt => exact ih qs qs' h hr
    | entry file bytes =>
      cases hd : Entry.decode bytes with
      | none => rw [C10.replay_skip _ _ _ _ hd] at hr; exact ih qs qs' h hr
      | some e =>
        rw [C10.replay_entry _ _ _ _ e hd] at hr
        cases hre : replayEntry qs file e with
        | none => rw [hre] at hr; cases hr
        | some qs1 =>
          rw [hre] at hr
          exact ih qs1 qs' (namesShort_replayEntry qs qs1 file e h (decode_name_lt bytes e hd) hre) hr

/-- the names the GC pass visits are names of queues -/
theorem gcNamesOf_mem (l : Log) (order : List Bytes) : ∀ n ∈ gcNamesOf l order, ∃ kv ∈ l.queues, kv.1 = n := by
  have hempty : ∀ n ∈ l.queues.emptyNames, ∃ kv ∈ l.queues, kv.1 = n := by
    intro n hn
    simp only [MemQueues.emptyNames, List.mem_map, List.mem_filter] at hn
    obtain ⟨kv, ⟨hkv, _⟩, rfl⟩ := hn
    exact ⟨kv, hkv, rfl⟩
  intro n hn
  unfold gcNamesOf at hn
  split at hn
  · split at hn
    · split at hn
      · rename_i hperm
        apply hempty
        simp only [isPermOf, Bool.and_eq_true, beq_iff_eq, List.all_eq_true] at hperm
        have hc := hperm.2 n hn
        have : 0 < order.count n := List.count_pos_iff.mpr hn
        exact List.count_pos_iff.mp (by omega)
      · exact hempty n hn
    · cases hn
  · cases hn

/-! ### the GC pass -/

/-- all the checks along `record_empty_queues_position` -/
def touchesAssert (g : Geom) : Log → List Bytes → Bool
  | _, [] => true
  | l, n :: rest =>
    decide (n.length ≤ 65535) && writeAsserts g l.off (entryBufsOf g l (touchOf l n)) &&
      touchesAssert g (l.writeEntry g (touchOf l n)).1 rest

/-- the assertions reached by `run_gc_if_necessary` -/
def gcAsserts (g : Geom) (l : Log) (order : List Bytes) : Bool := touchesAssert g l (gcNamesOf l order)

theorem touchesAssert_ok (g : Geom) (names : List Bytes) : ∀ l : Log, l.off ≤ g.fileBytes →
    (∀ n ∈ names, n.length < 65536) → touchesAssert g l names = true := by
  induction names with
  | nil => intro l _ _; rfl
  | cons n ns ih =>
    intro l hoff hn
    obtain ⟨h1, h2, _⟩ := writeEntry_asserts g l (touchOf l n) hoff
    have h3 := hn n List.mem_cons_self
    simp only [touchesAssert, h1, ih _ h2 (fun m hm => hn m (List.mem_cons_of_mem _ hm)), Bool.and_true,
      decide_eq_true_eq]
    omega

theorem gcAsserts_ok (g : Geom) (l : Log) (order : List Bytes) (hoff : l.off ≤ g.fileBytes)
    (hn : NamesShort l.queues) : gcAsserts g l order = true := by
  apply touchesAssert_ok g _ l hoff
  intro n hm
  obtain ⟨kv, hkv, rfl⟩ := gcNamesOf_mem l order n hm
  exact hn kv hkv

/-! ### the offset `open` resumes at -/

/-- no WAL file of the image is longer than the nominal file size -/
def NoOversize (g : Geom) (img : Image) : Prop := ∀ kv ∈ img, kv.2.length ≤ g.fileBytes

theorem scanBlockFrom_end_le (g : Geom) (rest : Bytes) (c : Nat) (hc : c ≤ g.B) :
    match (scanBlockFrom g rest c).2 with
    | .zeroHeader c' => c' ≤ g.B
    | .needNext c' => c' ≤ g.B := by
  fun_induction scanBlockFrom g rest c with
  | case1 => exact hc
  | case2 => exact hc
  | case3 => exact hc
  | case4 =>
    have h7 : HEADER_LEN = 7 := rfl
    omega
  | case5 rest c h hdr hz t ht len c1 hfit body p ev evs e hrec ih =>
    simp only [hrec] at ih
    exact ih (by omega)

theorem fileBlocks_idx (g : Geom) (f fc : Nat) (n : Nat) : ∀ (content : Bytes) (i : Nat),
    ∀ b ∈ fileBlocks g f content fc i n, b.file = f ∧ i ≤ b.idx ∧ b.idx < i + n := by
  induction n with
  | zero => intro content i b hb; cases hb
  | succ n ih =>
    intro content i b hb
    simp only [fileBlocks, List.mem_cons] at hb
    rcases hb with rfl | hb
    · exact ⟨rfl, Nat.le_refl _, by show i < i + (n + 1); omega⟩
    · obtain ⟨h1, h2, h3⟩ := ih _ _ b hb
      exact ⟨h1, by omega, by omega⟩

theorem blocksOf_idx (g : Geom) (img : Image) : ∀ p, ∀ b ∈ (blocksOf g img p).1,
    ∃ kv ∈ img, b.file = kv.1 ∧ b.idx < kv.2.length / g.B := by
  induction img with
  | nil => intro p b hb; cases hb
  | cons fc img ih =>
    intro p b hb
    obtain ⟨f, content⟩ := fc
    simp only [blocksOf] at hb
    split at hb
    · obtain ⟨kv, hkv, h⟩ := ih _ b hb
      exact ⟨kv, List.mem_cons_of_mem _ hkv, h⟩
    · simp only [List.mem_append] at hb
      rcases hb with hb | hb
      · obtain ⟨h1, _, h3⟩ := fileBlocks_idx g f _ _ content 0 b hb
        exact ⟨(f, content), List.mem_cons_self, h1, by simpa using h3⟩
      · obtain ⟨kv, hkv, h⟩ := ih _ b hb
        exact ⟨kv, List.mem_cons_of_mem _ hkv, h⟩

theorem scanBlocks_end (g : Geom) (fa : Option Nat) (trail : Nat) (rest : List Blk) :
    ∀ (io : Nat) (cur : Blk) (c : Nat) (evs : List RdEv) (e : EndPos) (io' : Nat), c ≤ g.B →
      scanBlocks g fa trail io cur c rest = some (evs, e, io') →
      (∃ b ∈ cur :: rest, e.idx = b.idx) ∧ e.cursor ≤ g.B := by
  induction rest with
  | nil =>
    intro io cur c evs e io' hc h
    have hend := scanBlockFrom_end_le g (cur.data.drop c) c hc
    unfold scanBlocks scanBlock at h
    split at h
    · rename_i evs0 c' hs
      rw [hs] at hend
      simp only [Option.some.injEq, Prod.mk.injEq] at h
      rw [← h.2.1]
      exact ⟨⟨cur, List.mem_cons_self, rfl⟩, hend⟩
    · rename_i evs0 c' hs
      rw [hs] at hend
      simp only at h
      split at h
      · cases h
      · simp only [Option.some.injEq, Prod.mk.injEq] at h
        rw [← h.2.1]
        exact ⟨⟨cur, List.mem_cons_self, rfl⟩, hend⟩
  | cons b rest' ih =>
    intro io cur c evs e io' hc h
    have hend := scanBlockFrom_end_le g (cur.data.drop c) c hc
    unfold scanBlocks scanBlock at h
    split at h
    · rename_i evs0 c' hs
      rw [hs] at hend
      simp only [Option.some.injEq, Prod.mk.injEq] at h
      rw [← h.2.1]
      exact ⟨⟨cur, List.mem_cons_self, rfl⟩, hend⟩
    · simp only at h
      split at h
      · cases h
      · cases hrec : scanBlocks g fa trail (io + b.cost) b 0 rest' with
        | none => rw [hrec] at h; cases h
        | some r =>
          obtain ⟨evs2, e2, io2⟩ := r
          rw [hrec] at h
          simp only [Option.some.injEq, Prod.mk.injEq] at h
          rw [← h.2.1]
          obtain ⟨⟨b', hb', hi⟩, hcur⟩ := ih _ _ _ _ _ _ (Nat.zero_le _) hrec
          exact ⟨⟨b', List.mem_cons_of_mem _ hb', hi⟩, hcur⟩

theorem noOversize_prepare (g : Geom) (img : Image) (h : NoOversize g img) : NoOversize g (prepareImage g img).1 := by
  have hB := B_pos g
  have hBK : g.B ≤ g.fileBytes := Nat.le_mul_of_pos_right _ g.hK
  unfold prepareImage
  split
  · intro kv hkv
    simp only [List.mem_singleton] at hkv
    subst hkv
    simp [zeros]
  · rename_i f content rest
    split
    · intro kv hkv
      rcases List.mem_cons.mp hkv with rfl | hm
      · simp only [List.length_append, zeros, List.length_replicate]
        have := h (f, content) List.mem_cons_self
        simp only at this
        omega
      · exact h kv (List.mem_cons_of_mem _ hm)
    · exact h

/-- **`off ≤ fileBytes` after `open`'s replay**, when no file of the image is oversized -/
theorem recoverPre_off_le {g : Geom} {img : Image} {policy : Policy} {fa : Option Nat} {lp : Log}
    {e0 : List Effect} {io : Nat} (hov : NoOversize g img)
    (h : recoverPre g img policy fa = .ok (lp, e0, io)) : lp.off ≤ g.fileBytes := by
  obtain ⟨b0, rest, trail, rdEvs, e, hb, hs, hr⟩ := Rec.recoverPre_ok_replay h
  rw [Rec.recoverPre_cons g img policy fa b0 rest trail hb, hs] at h
  split at h
  · cases h
  · simp only [Rec.finishPre, hr, Except.ok.injEq, Prod.mk.injEq] at h
    obtain ⟨hl, _, _⟩ := h
    have hoff : lp.off = e.idx * g.B + e.cursor := by rw [← hl]
    obtain ⟨⟨b, hbm, hidx⟩, hcur⟩ := scanBlocks_end g fa trail rest _ _ _ _ _ _ (Nat.zero_le _) hs
    obtain ⟨kv, hkv, _, hlt⟩ := blocksOf_idx g (prepareImage g img).1 1 b (by rw [hb]; exact hbm)
    have hlen := noOversize_prepare g img hov kv hkv
    have hK : kv.2.length / g.B ≤ g.K := by
      have := Nat.div_le_div_right (c := g.B) hlen
      rwa [show g.fileBytes = g.B * g.K from rfl, Nat.mul_div_cancel_left _ (B_pos g)] at this
    have h1 : (e.idx + 1) * g.B ≤ g.K * g.B := Nat.mul_le_mul_right _ (by omega)
    rw [Nat.succ_mul] at h1
    rw [hoff, show g.fileBytes = g.B * g.K from rfl, Nat.mul_comm g.B g.K]
    omega

theorem recoverPre_namesShort {g : Geom} {img : Image} {policy : Policy} {fa : Option Nat} {lp : Log}
    {e0 : List Effect} {io : Nat} (h : recoverPre g img policy fa = .ok (lp, e0, io)) :
    NamesShort lp.queues := by
  obtain ⟨b0, rest, trail, rdEvs, e, _, _, hr⟩ := Rec.recoverPre_ok_replay h
  exact namesShort_replay _ [] _ (fun _ h => by cases h) hr

/-- **C10, assertions.** For every image without an oversized WAL file — arbitrary bytes
    otherwise —, every write-path assertion the GC pass of `open` reaches holds: queue names
    `≤ u16::MAX`, every buffer within its block, every frame within a block. -/
theorem recover_asserts (g : Geom) (img : Image) (policy : Policy) (order : List Bytes) (failAt : Option Nat)
    (lp : Log) (e0 : List Effect) (io : Nat) (hov : NoOversize g img)
    (hpre : recoverPre g img policy failAt = .ok (lp, e0, io)) :
    gcAsserts g lp order = true ∧ lp.off ≤ g.fileBytes ∧ NamesShort lp.queues :=
  ⟨gcAsserts_ok g lp order (recoverPre_off_le hov hpre) (recoverPre_namesShort hpre),
    recoverPre_off_le hov hpre, recoverPre_namesShort hpre⟩

/-- the invariant `off ≤ fileBytes` along calls -/
theorem step_off_le (g : Geom) (l : Log) (c : Call) (tick : Bool) (order : List Bytes)
    (hoff : l.off ≤ g.fileBytes) : (Log.step g l c tick order).1.off ≤ g.fileBytes := by
  have hte : ∀ (names : List Bytes) (l : Log), l.off ≤ g.fileBytes → (writeTouches g l names).1.off ≤ g.fileBytes := by
    intro names
    induction names with
    | nil => intro l h; exact h
    | cons n ns ih =>
      intro l h
      rw [Step.writeTouches_cons]
      exact ih _ (writeEntry_asserts g l _ h).2.1
  have hgc : ∀ l : Log, l.off ≤ g.fileBytes → (runGc g l order).1.off ≤ g.fileBytes := by
    intro l h
    rcases Step.runGc_cases g l order with hr | hr
    · rw [hr]; exact h
    · rw [hr]; exact hte _ l h
  rcases Step.step_shape2 g l c tick order with ⟨out, hs⟩ | ⟨a, _, hs⟩ | ⟨e, qs', out, hs⟩
  · rw [hs]; exact hoff
  · rw [hs]; exact hoff
  · rw [hs]
    have h1 := (writeEntry_asserts g l e hoff).2.1
    cases Step.isGcCall c with
    | false => exact h1
    | true => exact hgc _ h1

/-! ### the hypothesis is needed -/

def g16 : Geom := { B := 16, K := 1, hB := by decide, hK := by decide }

/-- a writer resuming beyond the nominal file size (only possible after reading an oversized
    file): 4 bytes left in the block -/
def lOver : Log := { files := [0], cur := 0, off := 28, policy := .doNothing, queues := [([1], {})] }

/-- **Finding.** If `open` resumes beyond the nominal file size, `RollingWriter::write`'s
    assertion can fire: the 4 padding bytes roll over to a new file at offset 4, and the next
    frame — sized for a whole block, as `max_writable_frame_length` promised before the padding
    — is 16 bytes long with only 12 left in the block. -/
theorem oversize_assert_fires : lOver.off > g16.fileBytes ∧
    writeAsserts g16 lOver.off (entryBufsOf g16 lOver (.touch [1] 0)) = false := by
  refine ⟨by decide, ?_⟩
  have hb : ∃ b1 b2 : Bytes, b1.length = 16 ∧ b2.length = 10 ∧
      entryBufsOf g16 lOver (.touch [1] 0) = [zeros 4, b1, b2] := by
    refine ⟨encodeFrame (FrameType.ofFlags true false) [UInt8.ofNat TAG_TOUCH, 0, 0, 0, 0, 0, 0, 0, 0],
      encodeFrame (FrameType.ofFlags false true) [1, 0, 1], by simp [Step.encodeFrame_length],
      by simp [Step.encodeFrame_length], ?_⟩
    simp [entryBufsOf, lOver, g16, MRL.writeEntry, Entry.encode, Entry.encodeRaw, leBytes]
    rw [writeEntryBufs]
    simp [maxFrameLen, frameWrites, frameEndCursor, adv, HEADER_LEN]
    rw [writeEntryBufs]
    simp [maxFrameLen, frameWrites, HEADER_LEN]
  obtain ⟨b1, b2, h1, h2, hb⟩ := hb
  have e1 : b1.isEmpty = false := by cases b1 <;> simp at h1 ⊢
  rw [hb]
  simp [writeAsserts, nextOff, lOver, g16, Geom.fileBytes, zeros, h1, e1]

end MRL.C10A
