/-
C02 (byte level) — a crash at ANY byte offset leaves a prefix of whole entries, and the log stays
fully usable.

Setting of C07: the entries `es` are written from in-block cursor `c` by the model writer
(`C07.writeEntriesBufs`); `bytes` is the byte stream produced. A crash after `k` bytes leaves the
image `stream k = zeros c ++ bytes.take k ++ zeros z` (the file is pre-sized and zero-filled; `z`
zeros complete it to whole blocks, at least one block and a header of them: `g.B + 7 ≤ z`).

`TornOK` is the "up to a CRC-32 collision" clause, and the ONLY assumption about `crc32`: for the
frames the writer wrote, a payload whose lost tail, replaced by zeros, differs from the payload
fails the frame's checksum.

* `C02_torn_tail`: for EVERY cut `k`, reading the image (the pipeline of `C07_roundtrip`)
  succeeds, and the entries delivered (`assemble`, corrupt events dropped) are `es.take j` with
  `j = m` or `j = m + 1`, `m = wholeCount … k` = number of entries entirely within the first `k`
  bytes; and `j = m + 1` only if the image is byte-for-byte the image of a later cut at which
  entry `m` is complete (its missing bytes were zeros anyway). Never a partial or altered entry:
  - cut in padding / at a frame boundary / between the frames of a multi-frame entry: the reader
    stops at a zero header; a `First…` without `Last` is never delivered;
  - cut inside a header: all-zero so far ⇒ clean end; otherwise the type byte is still zero ⇒
    `FrameType.ofCode 0 = none` ⇒ a corrupt event, the rest of the block is skipped;
  - cut inside a payload: intact header, the checksum fails (`TornOK`) ⇒ a corrupt event, the
    cursor resynchronises after the frame.
* `C02_resume`: let `e` be where that read stopped and `E = e.idx * g.B + e.cursor`. Overwriting
  the image from offset `E` on with the bytes the model writer produces for ANY further entries
  `es'` from in-block cursor `E % g.B` (then zeros to whole blocks, `7 ≤ z2`) gives a stream whose
  read-back from `c` delivers exactly `es.take j ++ es'`, and stops where the writer stopped.
  The torn remnant (a corrupt frame, or a torn header and the rest of its block) stays in the
  log for ever and never swallows or alters a later entry.

Proof machinery: MRL/Proofs/Torn*.lean (`Torn.crash_master`).
-/
import MRL.Proofs.TornMaster

namespace MRL.C02
open MRL Consts Codec Torn

/-- the collision clause (see `Torn.TornOK`) -/
abbrev TornOK := Torn.TornOK

/-- number of entries entirely within the first `k` bytes (see `Torn.wholeCount`) -/
abbrev wholeCount := Torn.wholeCount

/-- entries among record events, corrupt events dropped -/
abbrev entriesOf := Torn.entriesOf

theorem whole_blocks (g : Geom) (S : Bytes) (h : S.length % g.B = 0) (hpos : 0 < S.length) :
    ∃ n, S.length = (n + 1) * g.B := by
  have hdiv : S.length = g.B * (S.length / g.B) := by
    have := Nat.div_add_mod S.length g.B
    omega
  cases hq : S.length / g.B with
  | zero => rw [hq] at hdiv; omega
  | succ n => exact ⟨n, by rw [hdiv, hq, Nat.mul_comm]⟩

/-- **C02, both halves in one statement** (the crash read and the resumed read share `j`, `e`) -/
theorem C02_crash (g : Geom) (hB : g.B ≤ 65542) (c : Nat) (hc : c < g.B) (es : List Bytes) (file : Nat)
    (hT : TornOK g c hc es) (k z : Nat)
    (hk : k ≤ (C07.writeEntriesBufs g c hc es).flatten.length) (hz : g.B + 7 ≤ z) :
    let bytes := (C07.writeEntriesBufs g c hc es).flatten
    let stream := zeros c ++ bytes.take k ++ zeros z
    let m := wholeCount g c hc es k
    stream.length % g.B = 0 →
    ∃ b0 rest evs e io j,
      fileBlocks g file stream 1 0 (stream.length / g.B) = b0 :: rest ∧
      scanBlocks g none 1 0 b0 c rest = some (evs, e, io) ∧
      entriesOf (assemble { within := false, buf := [], attr := file } evs) = (es.take j).map (RecEv.entry file) ∧
      (j = m ∨ j = m + 1) ∧
      (j = m + 1 → ∃ d, bytes.take (k + d) = bytes.take k ++ zeros d ∧ wholeCount g c hc es (k + d) = m + 1) ∧
      e.file = file ∧ (e.idx * g.B + e.cursor) % g.B + 7 ≤ g.B ∧
      ∀ (es' : List Bytes) (z2 : Nat), 7 ≤ z2 →
        let E := e.idx * g.B + e.cursor
        let bufs' := C07.writeEntriesBufs g (E % g.B) (Nat.mod_lt _ (Bpos g)) es'
        let stream2 := stream.take E ++ bufs'.flatten ++ zeros z2
        stream2.length % g.B = 0 →
        ∃ b0' rest' evs2 e2 io2,
          fileBlocks g file stream2 1 0 (stream2.length / g.B) = b0' :: rest' ∧
          scanBlocks g none 1 0 b0' c rest' = some (evs2, e2, io2) ∧
          entriesOf (assemble { within := false, buf := [], attr := file } evs2) =
            (es.take j ++ es').map (RecEv.entry file) ∧
          e2.file = file ∧
          e2.idx * g.B + e2.cursor = finalPos g (E + totalLen bufs') := by
  intro bytes stream m hmod
  have hB7 : 7 < g.B := g.hB
  have hassoc : stream = zeros c ++ (bytes.take k ++ zeros z) := List.append_assoc _ _ _
  obtain ⟨n, hn⟩ := whole_blocks g stream hmod (by simp [stream]; omega)
  have hlen : (zeros c ++ ((C07.writeEntriesBufs g c hc es).flatten.take k ++ zeros z)).length = (n + 1) * g.B := by
    rw [← hassoc]; exact hn
  obtain ⟨j, E, hj, hj1, ⟨evs, e, hr, hf, hE, hent⟩, hgood, hres⟩ :=
    crash_master g hB file c hc es hT k z n hz hk hlen
  obtain ⟨b0, rest, io, hfb, hsb⟩ := pipeline g file _ c n hlen
  rw [hr] at hsb
  subst hE
  refine ⟨b0, rest, evs, e, io, j, by rw [hassoc]; exact hfb, hsb, hent, hj, hj1,
    hf, hgood, ?_⟩
  intro es' z2 hz2 E' bufs' stream2 hmod2
  have hassoc2 : stream2 = stream.take E' ++ (bufs'.flatten ++ zeros z2) := List.append_assoc _ _ _
  obtain ⟨n2, hn2⟩ := whole_blocks g stream2 hmod2 (by simp [stream2]; omega)
  rw [hassoc2, hassoc] at hn2
  obtain ⟨evs2, e2, r1, r2, r3, r4⟩ := hres es' z2 n2 hz2 hn2
  obtain ⟨b0', rest', io2, hfb2, hsb2⟩ := pipeline g file _ c n2 hn2
  rw [r1] at hsb2
  refine ⟨b0', rest', evs2, e2, io2, ?_, hsb2, r3, r2, r4⟩
  rw [hassoc2, hassoc]; exact hfb2

/-- **C02_torn_tail.** Every cut leaves a prefix of whole entries, never a partial or altered one. -/
theorem C02_torn_tail (g : Geom) (hB : g.B ≤ 65542) (c : Nat) (hc : c < g.B) (es : List Bytes) (file : Nat)
    (hT : TornOK g c hc es) (k z : Nat)
    (hk : k ≤ (C07.writeEntriesBufs g c hc es).flatten.length) (hz : g.B + 7 ≤ z) :
    let bytes := (C07.writeEntriesBufs g c hc es).flatten
    let stream := zeros c ++ bytes.take k ++ zeros z
    let m := wholeCount g c hc es k
    stream.length % g.B = 0 →
    ∃ b0 rest evs e io j,
      fileBlocks g file stream 1 0 (stream.length / g.B) = b0 :: rest ∧
      scanBlocks g none 1 0 b0 c rest = some (evs, e, io) ∧
      entriesOf (assemble { within := false, buf := [], attr := file } evs) = (es.take j).map (RecEv.entry file) ∧
      (j = m ∨ j = m + 1) ∧
      (j = m + 1 → ∃ d, bytes.take (k + d) = bytes.take k ++ zeros d ∧ wholeCount g c hc es (k + d) = m + 1) ∧
      e.file = file := by
  intro bytes stream m hmod
  obtain ⟨b0, rest, evs, e, io, j, h1, h2, h3, h4, h5, h6, _⟩ := C02_crash g hB c hc es file hT k z hk hz hmod
  exact ⟨b0, rest, evs, e, io, j, h1, h2, h3, h4, h5, h6⟩

/-- **C02_resume.** The crash read of `C02_torn_tail` (it fixes `j` and the end position `e`),
    and the read-back after the writer resumed at `e` with any further entries `es'`. -/
theorem C02_resume (g : Geom) (hB : g.B ≤ 65542) (c : Nat) (hc : c < g.B) (es : List Bytes) (file : Nat)
    (hT : TornOK g c hc es) (k z : Nat)
    (hk : k ≤ (C07.writeEntriesBufs g c hc es).flatten.length) (hz : g.B + 7 ≤ z) :
    let bytes := (C07.writeEntriesBufs g c hc es).flatten
    let stream := zeros c ++ bytes.take k ++ zeros z
    let m := wholeCount g c hc es k
    stream.length % g.B = 0 →
    ∃ b0 rest evs e io j,
      fileBlocks g file stream 1 0 (stream.length / g.B) = b0 :: rest ∧
      scanBlocks g none 1 0 b0 c rest = some (evs, e, io) ∧
      entriesOf (assemble { within := false, buf := [], attr := file } evs) = (es.take j).map (RecEv.entry file) ∧
      (j = m ∨ j = m + 1) ∧
      (e.idx * g.B + e.cursor) % g.B + 7 ≤ g.B ∧
      ∀ (es' : List Bytes) (z2 : Nat), 7 ≤ z2 →
        let E := e.idx * g.B + e.cursor
        let bufs' := C07.writeEntriesBufs g (E % g.B) (Nat.mod_lt _ (Bpos g)) es'
        let stream2 := stream.take E ++ bufs'.flatten ++ zeros z2
        stream2.length % g.B = 0 →
        ∃ b0' rest' evs2 e2 io2,
          fileBlocks g file stream2 1 0 (stream2.length / g.B) = b0' :: rest' ∧
          scanBlocks g none 1 0 b0' c rest' = some (evs2, e2, io2) ∧
          entriesOf (assemble { within := false, buf := [], attr := file } evs2) =
            (es.take j ++ es').map (RecEv.entry file) ∧
          e2.file = file ∧
          e2.idx * g.B + e2.cursor = finalPos g (E + totalLen bufs') := by
  intro bytes stream m hmod
  obtain ⟨b0, rest, evs, e, io, j, h1, h2, h3, h4, _, _, h7, h8⟩ := C02_crash g hB c hc es file hT k z hk hz hmod
  exact ⟨b0, rest, evs, e, io, j, h1, h2, h3, h4, h7, h8⟩

/-! ### non-vacuity on `g.B = 16`

Two entries from cursor 0: `[1, 2]` (one Full frame, bytes 0..9; exactly 7 bytes are then left in
block 0) and a 12-byte entry: an EMPTY First frame (9..16), a Middle frame filling block 1
(16..32), a Last frame (32..42). Cuts: (i) `k = 12`, inside the header of the First frame;
(ii) `k = 8`, inside the payload of the Full frame; (iii) `k = 32`, between Middle and Last. -/

def g16 : Geom := ⟨16, 2, by decide, by decide⟩

def exEs : List Bytes := [[1, 2], [3, 0, 0, 0, 0, 0, 0, 0, 0, 0, 0, 4]]

theorem exBufs : C07.writeEntriesBufs g16 0 (by decide) exEs =
    [encodeFrame .full [1, 2], encodeFrame .first [], encodeFrame .middle [3, 0, 0, 0, 0, 0, 0, 0, 0],
     encodeFrame .last [0, 0, 4]] := by
  simp [exEs, C07.writeEntriesBufs, writeEntry, writeEntryBufs, C07.cursorAfter, g16, maxFrameLen,
    frameWrites, frameEndCursor, adv, HEADER_LEN, FrameType.ofFlags, length_encodeFrame]

theorem encodeFrame_inj (t t' : FrameType) (p p' : Bytes) (h : encodeFrame t p = encodeFrame t' p') :
    t = t' ∧ p = p' := by
  have hp : p = p' := by
    have := congrArg (List.drop 7) h
    simpa [encodeFrame, List.drop_left' (length_encodeHeader _ _)] using this
  subst hp
  have ht := congrArg (fun l => l.getD 6 0) (List.append_cancel_right (show encodeHeader t p ++ p = encodeHeader t' p ++ p from h))
  simp only [encodeHeader_getD6] at ht
  refine ⟨?_, rfl⟩
  cases t <;> cases t' <;> first | rfl | (exfalso; revert ht; decide)

set_option maxRecDepth 100000 in
theorem crcFull : frameCrc .full [0, 0] ≠ frameCrc .full [1, 2] ∧ frameCrc .full [1, 0] ≠ frameCrc .full [1, 2] := by
  decide
set_option maxRecDepth 100000 in
theorem crcMiddle : frameCrc .middle [0, 0, 0, 0, 0, 0, 0, 0, 0] ≠ frameCrc .middle [3, 0, 0, 0, 0, 0, 0, 0, 0] := by
  decide
set_option maxRecDepth 100000 in
theorem crcLast : frameCrc .last [0, 0, 0] ≠ frameCrc .last [0, 0, 4] := by
  decide

theorem exTornOK : TornOK g16 0 (by decide) exEs := by
  intro t p hmem i hi hne
  rw [exBufs] at hmem
  simp only [List.mem_cons, List.not_mem_nil, or_false] at hmem
  rcases hmem with h | h | h | h <;> obtain ⟨rfl, rfl⟩ := encodeFrame_inj _ _ _ _ h
  · -- Full [1, 2]
    have : i = 0 ∨ i = 1 := by simp at hi; omega
    rcases this with rfl | rfl
    · exact crcFull.1
    · exact crcFull.2
  · simp at hi
  · -- Middle [3, 0 × 8]: only the cut before the first byte changes the payload
    have : i = 0 ∨ i = 1 ∨ i = 2 ∨ i = 3 ∨ i = 4 ∨ i = 5 ∨ i = 6 ∨ i = 7 ∨ i = 8 := by simp at hi; omega
    rcases this with rfl | rfl | rfl | rfl | rfl | rfl | rfl | rfl | rfl
    · exact crcMiddle
    all_goals exact absurd (by decide) hne
  · -- Last [0, 0, 4]
    have : i = 0 ∨ i = 1 ∨ i = 2 := by simp at hi; omega
    rcases this with rfl | rfl | rfl <;> exact crcLast

theorem exLen : (C07.writeEntriesBufs g16 0 (by decide) exEs).flatten.length = 42 := by
  rw [exBufs]; simp [length_encodeFrame]

/-- `C02_torn_tail` on the example, for any cut and any admissible zero tail: every hypothesis
    (including the collision clause) is discharged -/
theorem exCut (k z : Nat) (hk : k ≤ 42) (hz : 23 ≤ z) (hmod : (k + z) % 16 = 0) :
    ∃ b0 rest evs e io j,
      fileBlocks g16 5 (zeros 0 ++ (C07.writeEntriesBufs g16 0 (by decide) exEs).flatten.take k ++ zeros z) 1 0
        ((zeros 0 ++ (C07.writeEntriesBufs g16 0 (by decide) exEs).flatten.take k ++ zeros z).length / 16)
        = b0 :: rest ∧
      scanBlocks g16 none 1 0 b0 0 rest = some (evs, e, io) ∧
      entriesOf (assemble { within := false, buf := [], attr := 5 } evs) = (exEs.take j).map (RecEv.entry 5) ∧
      (j = wholeCount g16 0 (by decide) exEs k ∨ j = wholeCount g16 0 (by decide) exEs k + 1) := by
  have hlen : (zeros 0 ++ (C07.writeEntriesBufs g16 0 (by decide) exEs).flatten.take k ++ zeros z).length % g16.B = 0 := by
    simp only [List.length_append, length_zeros, List.length_take, exLen, Nat.min_eq_left hk, Nat.zero_add]
    exact hmod
  obtain ⟨b0, rest, evs, e, io, j, h1, h2, h3, h4, _⟩ :=
    C02_torn_tail g16 (by decide) 0 (by decide) exEs 5 exTornOK k z (by rw [exLen]; exact hk) hz hlen
  exact ⟨b0, rest, evs, e, io, j, h1, h2, h3, h4⟩

theorem exWhole :
    wholeCount g16 0 (by decide) exEs 12 = 1 ∧ wholeCount g16 0 (by decide) exEs 8 = 0 ∧
    wholeCount g16 0 (by decide) exEs 32 = 1 ∧ wholeCount g16 0 (by decide) exEs 42 = 2 := by
  simp [wholeCount, Torn.wholeCount, exEs, writeEntry, writeEntryBufs, C07.cursorAfter, g16, maxFrameLen,
    frameWrites, frameEndCursor, adv, HEADER_LEN, FrameType.ofFlags, length_encodeFrame]

/-- (i) cut inside the header of the empty First frame (`k = 12`, `m = 1`): the executable model
    gives `[entry 5 [1, 2], corrupt]`, end `{idx := 1, cursor := 0}` -/
example := exCut 12 36 (by decide) (by decide) (by decide)
/-- (ii) cut inside the payload of the Full frame (`k = 8`, `m = 0`): `[corrupt]`, end
    `{idx := 0, cursor := 9}` (the corrupt frame stays; the writer resumes after it) -/
example := exCut 8 24 (by decide) (by decide) (by decide)
/-- (iii) cut between the Middle and the Last frame (`k = 32`, `m = 1`): `[entry 5 [1, 2]]`, end
    `{idx := 2, cursor := 0}` -/
example := exCut 32 32 (by decide) (by decide) (by decide)

/-- the resume half on the example (cut `k = 12`): all hypotheses discharged; running the
    executable model with `es' = [[7, 7]]` written at `E = 16` gives
    `[entry 5 [1, 2], corrupt, entry 5 [7, 7]]` -/
example := C02_resume g16 (by decide) 0 (by decide) exEs 5 exTornOK 12 36 (by rw [exLen]; decide) (by decide)
  (by simp only [List.length_append, length_zeros, List.length_take, exLen]; decide)

/-- the hypothesis on `z2` of the resume half is always satisfiable -/
theorem resume_nonvacuous (g : Geom) (A X : Bytes) : ∃ z2, 7 ≤ z2 ∧ (A ++ X ++ zeros z2).length % g.B = 0 := by
  have hB7 : 7 < g.B := g.hB
  let L := A.length + X.length + 7
  have hm : L % g.B < g.B := Nat.mod_lt _ (by omega)
  refine ⟨7 + (g.B - L % g.B), by omega, ?_⟩
  have hL := Nat.div_add_mod L g.B
  have : (A ++ X ++ zeros (7 + (g.B - L % g.B))).length = g.B * (L / g.B + 1) := by
    simp only [List.length_append, length_zeros, Nat.mul_add, Nat.mul_one]
    omega
  rw [this, Nat.mul_mod_right]

end MRL.C02
