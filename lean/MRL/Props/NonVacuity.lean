/-
Non-vacuity, part 2: the hypotheses of the crash-level theorems hold simultaneously on a concrete,
non-trivial state, and their conclusions say something there.

`S*` = (`R2.log`, `img6`, empty buffer) is the crash-reachable state of `NonVacuityHistory.lean`
(`reachS : C02W.ReachXW g 0 R2.log img6 {} Wfin`): a crash in the middle of an append (torn frame on
disk), recovery, three completed appends, a crash between two unlinks of a GC pass, recovery. Its
directory: 7 files of 32 bytes, 17 frames; its queue "a" holds the batches B = (2,[5]),(3,[6]) and
C = (4,[7]),(5,[8]), each written as 6 frames over 3–4 files.

 1. `reachS` (+ `torn2`, `torn6`, `wf*`, in part 1).
 2. C08 under damage. FINDING: the clause `NoAccidentalFrameImgX` of `C08X.C08_crash_genuine` is NOT
    satisfied by the undamaged image (`old_clause_fails`) — nor by any image with a valid frame
    (`CD.old_clause_forces_none`): that theorem is vacuous on images that still hold a frame. With
    the repaired clause `Img.CleanDamage` (`CD.C08_crash_genuine_clean`): `clean6` (no damage),
    `cleanD` (one payload byte of a live Middle frame changed: all 140 cursor positions of the 14
    blocks re-checked, checksums evaluated), `nv_C08`: both recovered logs are genuine for the same
    journal, and they differ.
 3. C09: `tape6` (an item layout of the tape), `nv_C09_hyps` (a genuine item, `crc'`, `p'` meeting the
    hypotheses for `imgD`), `nv_C09_concl` (`open` succeeds and loses exactly batch C), `nv_C09`.
 4. C12: `nv_C12` + `nv_C12_eval` (batch C gone entirely, `k = length`; batch B intact, `k = 0`).
 5. C03 under POSIX power loss: `nv_C03` / `nv_C03_forced` / `nv_C03_dropped` (history of 3 calls from
    the empty directory, promise point after the first, power loss inside the third: the witnesses
    are forced to `i = 2`), and `nv_C03X` / `nv_C03X_forced` / `nv_C03X_dropped` from `S*`.
 6. `nv_C06*`, `nv_C10`.
All equations are proved by kernel evaluation (`decide +kernel` after the `Twin` rewriting); nothing
is "evaluated, not proved".
-/
import MRL.Props.NonVacuityHistory
import MRL.Props.C06Crash
import MRL.Props.C03PosixX
import MRL.Props.C03Posix

namespace MRL.NV
open MRL Log Twin Codec Img Gen K P
set_option maxRecDepth 100000
set_option linter.unusedSimpArgs false

theorem flush6 : C02U.flushDisk img6 {} = img6 := rfl

def frames6 : List (Nat × Frm) :=
  [(0, .middle, [0, 0, 0, 0, 0, 0, 1, 0, 0]), (16, .last, [0, 4]), (25, .first, []),
   (32, .middle, [4, 2, 0, 0, 0, 0, 0, 0, 0]), (48, .middle, [1, 0, 97, 2, 0, 0, 0, 0, 0]),
   (64, .middle, [0, 0, 1, 0, 0, 0, 5, 3, 0]), (80, .middle, [0, 0, 0, 0, 0, 0, 1, 0, 0]), (96, .last, [0, 6]),
   (105, .first, []), (112, .middle, [4, 4, 0, 0, 0, 0, 0, 0, 0]), (128, .middle, [1, 0, 97, 4, 0, 0, 0, 0, 0]),
   (144, .middle, [0, 0, 1, 0, 0, 0, 7, 5, 0]), (160, .middle, [0, 0, 0, 0, 0, 0, 1, 0, 0]), (176, .last, [0, 8]),
   (185, .first, []), (192, .middle, [1, 1, 0, 0, 0, 0, 0, 0, 0]), (208, .last, [1, 0, 97])]

theorem accepted6 : accepted g (streamOf img6) 14 = frames6 := by decide +kernel
theorem count6 : frameCount g 5 (streamOf img6) 14 = 17 := by decide +kernel

/-- item 2a: the old clause is not satisfied by the undamaged image -/
theorem old_clause_fails : ¬ NoAccidentalFrameImgX g (C02U.flushDisk img6 {}) (C02U.flushDisk img6 {}) := by
  apply CD.old_clause_not_refl g _ 0 0 .middle [0, 0, 0, 0, 0, 0, 1, 0, 0]
  unfold Accepts
  decide +kernel

theorem shape_refl : SameShape img6 img6 := rfl

/-- item 2b: the new clause holds for the undamaged image -/
theorem clean6 : CleanDamage g img6 img6 := by
  apply CD.cleanDamage_refl
  · show (accepted g (streamOf img6) ((streamOf img6).length / g.B)).length ≤
      frameCount g ((img6.map (·.1)).headD 0) (streamOf img6) ((streamOf img6).length / g.B)
    have h1 : (streamOf img6).length / g.B = 14 := by decide +kernel
    have h2 : (img6.map (·.1)).headD 0 = 5 := rfl
    rw [h1, h2, accepted6, count6]
    decide
  · decide +kernel

/-- the damaged image: one payload byte of a Middle frame of batch C (file 9, byte 7: 1 ↦ 255) -/
def imgD : Image := img6.map fun kv => if kv.1 = 9 then (kv.1, kv.2.set 7 255) else kv

theorem shapeD : SameShape img6 imgD := by unfold SameShape; decide +kernel

theorem cleanD : CleanDamage g img6 imgD := by
  refine ⟨clean6.1, ?_⟩
  have h1 : (streamOf img6).length / g.B = 14 := by decide +kernel
  rw [h1]
  apply noAcc_accepted_of_check g _ _ 14 14 (by decide +kernel)
  rw [accepted6]
  decide +kernel

def RD : Recovered :=
  { log := { files := [5, 6, 7, 8, 9, 10, 11], cur := 11, off := 26,
             queues := [([97], { start := 2, recs := [{ pos := 2, payload := [5], file := none },
                                                      { pos := 3, payload := [6], file := some 5 }] })],
             policy := .doNothing },
    effects := [.ensureLen 5 32], ioCalls := 29 }

def RC : Recovered :=
  { RD with log := { RD.log with queues := [([97], { start := 2, recs :=
      [{ pos := 2, payload := [5], file := none }, { pos := 3, payload := [6], file := some 5 },
       { pos := 4, payload := [7], file := none }, { pos := 5, payload := [8], file := some 8 }] })] } }

theorem e_RD : recover g imgD .doNothing [] none = .ok RD := by rw [recover_twin]; decide +kernel
theorem e_RC : recover g img6 .doNothing [] none = .ok RC := by rw [recover_twin]; decide +kernel


/-! ### item 2: `C08` under damage -/

/-- `CD.C08_crash_genuine_clean` applies to `S*`, to the undamaged image and to the damaged one: all
    hypotheses hold simultaneously; the two recovered logs differ (the damage is not absorbed), and
    both are genuine for the same journal. -/
theorem nv_C08 : ∃ J : List JE, L.CInvX g R2.log J img6 ∧ (∀ j ∈ J, C07.WF j.e) ∧ (∀ j ∈ J, j.e ∈ Wfin) ∧
    C08X.Genuine J 5 RC ∧ C08X.Genuine J 5 RD ∧
    (∀ kv ∈ RD.log.queues, ∀ rec ∈ kv.2.recs, (kv.1, rec.pos, rec.payload) ∈ recordsOfE Wfin) ∧
    RD.log.queues ≠ RC.log.queues := by
  obtain ⟨J, hc, hw, hJW, hall⟩ := CD.C08_crash_genuine_clean g (by decide) 0 R2.log img6 {} Wfin reachS
  obtain ⟨g1, _⟩ := hall img6 shape_refl clean6 .doNothing [] RC e_RC
  obtain ⟨g2, h2⟩ := hall imgD shapeD cleanD .doNothing [] RD e_RD
  exact ⟨J, hc, hw, hJW, g1, g2, h2, by decide⟩

/-! ### item 3: `C09X.C09_crash_one_frame` -/

instance fitsDec (g : Geom) : ∀ (c : Nat) (fs : List Frm), Decidable (Fits g c fs)
  | _, [] => isTrue trivial
  | c, fr :: fs => by
    unfold Fits
    exact @instDecidableAnd _ _ _ (fitsDec g _ fs)

/-- an item layout of the tape of `S*`: the 17 frames, all genuine (tagged with their files) -/
def ais6 : List L.AItm := frames6.map fun x => ((5 + x.1 / 32, x.2), none)

theorem tape6 : streamOf img6 = L.flatJ g 0 ais6 ++ zeros 6 ++ [] ++ zeros 0 ∧ Fits g 0 (L.frs ais6) := by
  decide +kernel

/-- the item damaged: the Middle frame at position 128 (file 9, block 0), payload
    `[1,0,97,4,0,0,0,0,0]` (queue name and first record position of batch C) -/
def aD : L.AItm := ((9, (.middle, [1, 0, 97, 4, 0, 0, 0, 0, 0])), none)
def crcD : Bytes := [113, 194, 150, 169]
def pD : Bytes := [255, 0, 97, 4, 0, 0, 0, 0, 0]

/-- the hypotheses of `C09_crash_one_frame` about the damaged frame hold for `imgD` -/
theorem nv_C09_hyps :
    ais6 = ais6.take 10 ++ aD :: ais6.drop 11 ∧ aD.2 = none ∧ crcD.length = 4 ∧ pD.length = aD.1.2.2.length ∧
    frameCrc aD.1.2.1 pD ≠ leNat crcD ∧ SameShape (C02U.flushDisk img6 {}) imgD ∧
    streamOf imgD = L.flatJ g 0 (ais6.take 10 ++ C09X.damaged aD crcD pD :: ais6.drop 11) ++ zeros 6 ++ [] ++ zeros 0 := by
  refine ⟨by decide +kernel, rfl, rfl, rfl, by decide +kernel, shapeD, by decide +kernel⟩

/-- … and the conclusion on it: `open` succeeds and loses exactly the records of the entry that
    frame belongs to (batch C); every other record is recovered with its position and payload -/
theorem nv_C09_concl : recover g imgD .doNothing [] none = .ok RD ∧
    (RD.log.queues.map fun kv => (kv.1, kv.2.recs.map fun r => (r.pos, r.payload))) =
      [([97], [(2, [5]), (3, [6])])] ∧
    (R2.log.queues.map fun kv => (kv.1, kv.2.recs.map fun r => (r.pos, r.payload))) =
      [([97], [(2, [5]), (3, [6]), (4, [7]), (5, [8])])] := ⟨e_RD, by decide, by decide⟩

/-- the theorem itself applies to `S*` (its item list is existential: the concrete layout `ais6` above
    shows what such a list looks like; instantiating the theorem's own list with it would need a
    uniqueness lemma for item layouts, which is not proved) -/
theorem nv_C09 : ∃ (J : List JE) (ais : List L.AItm) (z0 : Nat) (res : Bytes) (z1 : Nat),
    L.CInvX g R2.log J img6 ∧ (∀ j ∈ J, j.e ∈ Wfin) ∧
    streamOf img6 = L.flatJ g 0 ais ++ zeros z0 ++ res ++ zeros z1 ∧ Fits g 0 (L.frs ais) := by
  obtain ⟨J, ais, z0, res, z1, h1, _, h3, h4, h5, _⟩ :=
    C09X.C09_crash_one_frame g (by decide) 0 R2.log img6 {} Wfin reachS
  exact ⟨J, ais, z0, res, z1, h1, h3, h4, h5⟩

/-! ### item 4: `C12`, no hole, no missing tail -/

/-- `CD.C12_crash_no_hole_clean` applies to `S*` and the damaged image `imgD` -/
theorem nv_C12 : ∃ L : List (Nat × Entry), (∀ fe ∈ L, fe.2 ∈ Wfin) ∧ Rec.replayEntries [] L = some RD.log.queues ∧
    (∀ es₁ es₂ f name p bt, L = es₁ ++ [(f, Entry.append name p bt)] ++ es₂ →
      (∀ rc ∈ bt, (name, rc.1, rc.2) ∉ Rec.recordsOf es₁ ∧ (name, rc.1, rc.2) ∉ Rec.recordsOf es₂) →
      ∀ q, RD.log.queues.get? name = some q →
        ∃ k, bt.filter (fun rc => decide (rc ∈ Rec.plain q)) = bt.drop k ∧
          (Rec.noTrunc name es₂ = true → k = 0 ∨ bt.length ≤ k)) ∧
    (∀ name rc, (name, rc.1, rc.2) ∉ Rec.recordsOf L →
      ∀ q, RD.log.queues.get? name = some q → rc ∉ Rec.plain q) :=
  CD.C12_crash_no_hole_clean g (by decide) 0 R2.log img6 {} Wfin reachS imgD shapeD cleanD .doNothing [] RD e_RD

/-- on the damaged image: batch C (6 frames over files 8–10, its third frame damaged) is gone
    entirely (`k = length`), batch B (6 frames over files 5–8) is intact (`k = 0`) -/
theorem nv_C12_eval :
    let q : MemQueue := { start := 2, recs := [{ pos := 2, payload := [5], file := none },
                                                { pos := 3, payload := [6], file := some 5 }] }
    RD.log.queues.get? [97] = some q ∧
    ([(4, [7]), (5, [8])] : List (Nat × Bytes)).filter (fun rc => decide (rc ∈ Rec.plain q)) =
      ([(4, [7]), (5, [8])] : List (Nat × Bytes)).drop 2 ∧
    ([(2, [5]), (3, [6])] : List (Nat × Bytes)).filter (fun rc => decide (rc ∈ Rec.plain q)) =
      ([(2, [5]), (3, [6])] : List (Nat × Bytes)).drop 0 := by decide

/-! ### item 6: `C06X`, `C10V` -/

theorem nv_C06 : C06X.FilesOkX R2.log ∧ img6.map (·.1) = R2.log.files ∧
    ∀ kv ∈ img6, kv.2.length = g.fileBytes ∨ (kv.2 = [] ∧ kv.1 = R2.log.cur + 1) :=
  C06X.filesOkX_reachX (g := g) (by decide) 0 reachS.toReachX
theorem nv_C06_strict : C06.FilesOk R2.log := ⟨⟨rfl, rfl, rfl, rfl, rfl, rfl, trivial⟩, rfl⟩
theorem nv_C06_reclaim :
    let r := Log.step g R2.log (.truncate [97] 3) false []
    C06X.FilesOkX r.1 ∧ r.1.diskUsed g = r.1.files.length * g.fileBytes ∧
    (r.2.1 ≠ .missingQueue → ∀ f₀, r.1.files.head? = some f₀ →
      R2.log.cur ≤ f₀ ∨ r.1.queues.refsFile f₀ = true) ∧
    (∀ f, Effect.unlink f ∈ r.2.2 → r.1.queues.refsFile f = false ∧ f ≠ r.1.cur ∧ f ∉ r.1.files) :=
  C06X.C06_crash_reclaim (g := g) (by decide) 0 reachS.toReachX (.truncate [97] 3) false [] rfl
theorem nv_C10 : C10A.NoOversize g img6 := C10V.reach_noOversize g (by decide) 0 reachS.toReachX


/-! ### item 5: C03 under POSIX power loss -/

def cs : List (Call × Bool × List Bytes) :=
  [(.create [97], false, []), (.append [97] none [[1],[2]], false, []), (.append [97] none [[3],[4]], false, [])]

def effsC : List Effect :=
  [MRL.Effect.write 0 0 [205, 144, 137, 201, 9, 0, 2, 2, 0, 0, 0, 0, 0, 0, 0, 0],
    MRL.Effect.write 0 16 [178, 115, 81, 149, 3, 0, 4, 1, 0, 97],
    MRL.Effect.flush,
    MRL.Effect.fsyncFile 0,
    MRL.Effect.fsyncDir,
    MRL.Effect.write 0 26 [0, 0, 0, 0, 0, 0],
    MRL.Effect.flush,
    MRL.Effect.fsyncFile 0,
    MRL.Effect.fsyncDir,
    MRL.Effect.create 1,
    MRL.Effect.setLen 1 32,
    MRL.Effect.write 1 0 [71, 233, 147, 186, 9, 0, 2, 4, 0, 0, 0, 0, 0, 0, 0, 0],
    MRL.Effect.write 1 16 [103, 128, 7, 50, 9, 0, 3, 1, 0, 97, 0, 0, 0, 0, 0, 0],
    MRL.Effect.flush,
    MRL.Effect.fsyncFile 1,
    MRL.Effect.fsyncDir,
    MRL.Effect.create 2,
    MRL.Effect.setLen 2 32,
    MRL.Effect.write 2 0 [183, 131, 19, 182, 9, 0, 3, 0, 0, 1, 0, 0, 0, 1, 1, 0],
    MRL.Effect.write 2 16 [66, 185, 127, 9, 9, 0, 3, 0, 0, 0, 0, 0, 0, 1, 0, 0],
    MRL.Effect.flush,
    MRL.Effect.fsyncFile 2,
    MRL.Effect.fsyncDir,
    MRL.Effect.create 3,
    MRL.Effect.setLen 3 32,
    MRL.Effect.write 3 0 [226, 16, 70, 22, 2, 0, 4, 0, 2],
    MRL.Effect.write 3 9 [161, 142, 12, 60, 0, 0, 2],
    MRL.Effect.write 3 16 [4, 133, 116, 23, 9, 0, 3, 4, 2, 0, 0, 0, 0, 0, 0, 0],
    MRL.Effect.flush,
    MRL.Effect.fsyncFile 3,
    MRL.Effect.fsyncDir,
    MRL.Effect.create 4,
    MRL.Effect.setLen 4 32,
    MRL.Effect.write 4 0 [108, 33, 207, 127, 9, 0, 3, 1, 0, 97, 2, 0, 0, 0, 0, 0],
    MRL.Effect.write 4 16 [91, 53, 161, 135, 9, 0, 3, 0, 0, 1, 0, 0, 0, 3, 3, 0],
    MRL.Effect.flush,
    MRL.Effect.fsyncFile 4,
    MRL.Effect.fsyncDir,
    MRL.Effect.create 5,
    MRL.Effect.setLen 5 32,
    MRL.Effect.write 5 0 [66, 185, 127, 9, 9, 0, 3, 0, 0, 0, 0, 0, 0, 1, 0, 0],
    MRL.Effect.write 5 16 [215, 181, 37, 255, 2, 0, 4, 0, 4]]

def jourC : List JE :=
  [{ loc := 0, attr := 0, e := MRL.Entry.touch [97] 0 },
    { loc := 1, attr := 0, e := MRL.Entry.append [97] 0 [(0, [1]),
    (1, [2])] },
    { loc := 3, attr := 3, e := MRL.Entry.append [97] 2 [(2, [3]),
    (3, [4])] }]

def pimC : Image :=
  [(0, [205, 144, 137, 201, 9, 0, 2, 2, 0, 0, 0, 0, 0, 0, 0, 0, 178, 115, 81, 149, 3, 0, 4, 1, 0, 97, 0, 0, 0, 0, 0, 0]),
    (1, [71, 233, 147, 186, 9, 0, 2, 4, 0, 0, 0, 0, 0, 0, 0, 0, 103, 128, 7, 50, 9, 0, 3, 1, 0, 97, 0, 0, 0, 0, 0, 0]),
    (2, [183, 131, 19, 182, 9, 0, 3, 0, 0, 1, 0, 0, 0, 1, 1, 0, 66, 185, 127, 9, 9, 0, 3, 0, 0, 0, 0, 0, 0, 1, 0, 0]),
    (3, [226, 16, 70, 22, 2, 0, 4, 0, 2, 161, 142, 12, 60, 0, 0, 2, 4, 133, 116, 23, 9, 0, 3, 4, 2, 0, 0, 0, 0, 0, 0, 0])]

def RPC : Recovered :=
  { log := { files := [0, 1, 2, 3], cur := 3, off := 32, queues := [([97], { start := 0, recs := [{ pos := 0, payload := [1], file := none }, { pos := 1, payload := [2], file := some 0 }] })], policy := MRL.Policy.doNothing }, effects := [MRL.Effect.ensureLen 0 32], ioCalls := 17 }

def pimC9 : Image :=
  [(0, [205, 144, 137, 201, 9, 0, 2, 2, 0, 0, 0, 0, 0, 0, 0, 0, 178, 115, 81, 149, 3, 0, 4, 1, 0, 97, 0, 0, 0, 0, 0, 0])]

def effsE : List Effect :=
  [MRL.Effect.flush,
    MRL.Effect.fsyncFile 11,
    MRL.Effect.fsyncDir,
    MRL.Effect.write 11 26 [0, 0, 0, 0, 0, 0],
    MRL.Effect.flush,
    MRL.Effect.fsyncFile 11,
    MRL.Effect.fsyncDir,
    MRL.Effect.create 12,
    MRL.Effect.setLen 12 32,
    MRL.Effect.write 12 0 [192, 224, 252, 124, 9, 0, 2, 4, 6, 0, 0, 0, 0, 0, 0, 0],
    MRL.Effect.write 12 16 [122, 99, 94, 228, 9, 0, 3, 1, 0, 97, 6, 0, 0, 0, 0, 0],
    MRL.Effect.flush,
    MRL.Effect.fsyncFile 12,
    MRL.Effect.fsyncDir,
    MRL.Effect.create 13,
    MRL.Effect.setLen 13 32,
    MRL.Effect.write 13 0 [137, 117, 90, 238, 9, 0, 3, 0, 0, 1, 0, 0, 0, 9, 7, 0],
    MRL.Effect.write 13 16 [66, 185, 127, 9, 9, 0, 3, 0, 0, 0, 0, 0, 0, 1, 0, 0],
    MRL.Effect.flush,
    MRL.Effect.fsyncFile 13,
    MRL.Effect.fsyncDir,
    MRL.Effect.create 14,
    MRL.Effect.setLen 14 32,
    MRL.Effect.write 14 0 [208, 152, 157, 24, 2, 0, 4, 0, 10]]

def pimE : Image :=
  [(5, [66, 185, 127, 9, 9, 0, 3, 0, 0, 0, 0, 0, 0, 1, 0, 0, 215, 181, 37, 255, 2, 0, 4, 0, 4, 161, 142, 12, 60, 0, 0, 2]),
    (6, [4, 133, 116, 23, 9, 0, 3, 4, 2, 0, 0, 0, 0, 0, 0, 0, 108, 33, 207, 127, 9, 0, 3, 1, 0, 97, 2, 0, 0, 0, 0, 0]),
    (7, [233, 73, 44, 131, 9, 0, 3, 0, 0, 1, 0, 0, 0, 5, 3, 0, 66, 185, 127, 9, 9, 0, 3, 0, 0, 0, 0, 0, 0, 1, 0, 0]),
    (8, [251, 212, 43, 17, 2, 0, 4, 0, 6, 161, 142, 12, 60, 0, 0, 2, 131, 140, 27, 209, 9, 0, 3, 4, 4, 0, 0, 0, 0, 0, 0, 0]),
    (9, [113, 194, 150, 169, 9, 0, 3, 1, 0, 97, 4, 0, 0, 0, 0, 0, 1, 58, 242, 214, 9, 0, 3, 0, 0, 1, 0, 0, 0, 7, 5, 0]),
    (10, [66, 185, 127, 9, 9, 0, 3, 0, 0, 0, 0, 0, 0, 1, 0, 0, 252, 249, 147, 246, 2, 0, 4, 0, 8, 161, 142, 12, 60, 0, 0, 2]),
    (11, [168, 199, 108, 211, 9, 0, 3, 1, 1, 0, 0, 0, 0, 0, 0, 0, 178, 115, 81, 149, 3, 0, 4, 1, 0, 97, 0, 0, 0, 0, 0, 0])]

def RPE : Recovered :=
  { log := { files := [5, 6, 7, 8, 9, 10, 11], cur := 11, off := 26, queues := [([97], { start := 2, recs := [{ pos := 2, payload := [5], file := none }, { pos := 3, payload := [6], file := some 5 }, { pos := 4, payload := [7], file := none }, { pos := 5, payload := [8], file := some 8 }] })], policy := MRL.Policy.doNothing }, effects := [MRL.Effect.ensureLen 5 32], ioCalls := 29 }

theorem reachD0 : C01R.ReachD g 0 R0.log [] img0 {} := by
  have h := C01R.ReachD.init (g := g) (cap := 0) .doNothing [] R0 hR0
  rw [e_img0.1, e_img0.2] at h
  exact h

theorem e_effsC : effsD g R0.log cs = effsC := by
  simp only [cs, effsD, step_twin]; decide +kernel
theorem e_jourC : jourD g R0.log cs = jourC := by
  simp only [cs, jourD, step_twin, stepJ_twin]; decide +kernel

theorem fitsC : ∀ j ∈ (runD g 0 ⟨R0.log, [], {}, []⟩ cs).J, C07.WF j.e := by
  rw [runD_eq]
  simp only [List.nil_append, e_jourC]
  decide +kernel

theorem tornC : C03D.TornRun g R0.log cs := by
  show H.TornEffs (effsD g R0.log cs)
  rw [e_effsC]
  apply tornEffs_check _ [(.first, [2, 0, 0, 0, 0, 0, 0, 0, 0]), (.last, [1, 0, 97]), (.first, [4, 0, 0, 0, 0, 0, 0, 0, 0]),
    (.middle, [1, 0, 97, 0, 0, 0, 0, 0, 0]), (.middle, [0, 0, 1, 0, 0, 0, 1, 1, 0]), (.middle, [0, 0, 0, 0, 0, 0, 1, 0, 0]),
    (.last, [0, 2]), (.first, []), (.middle, [4, 2, 0, 0, 0, 0, 0, 0, 0]), (.middle, [1, 0, 97, 2, 0, 0, 0, 0, 0]),
    (.middle, [0, 0, 1, 0, 0, 0, 3, 3, 0]), (.last, [0, 4])]
  · decide +kernel
  · decide +kernel

theorem tailC : effsD g R0.log (cs.take 1) =
    [.write 0 0 [205, 144, 137, 201, 9, 0, 2, 2, 0, 0, 0, 0, 0, 0, 0, 0], .write 0 16 [178, 115, 81, 149, 3, 0, 4, 1, 0, 97]] ++
      [.flush, .fsyncFile 0, .fsyncDir] := by
  simp only [cs, List.take, effsD, step_twin]; decide +kernel

theorem hkC : (toOsOpsP 0 {} (effsD g R0.log (cs.take 1))).2.length ≤ 28 := by
  rw [tailC]; decide +kernel

/-- `C03P.C03_posix` applies: promise point `m = 1` (the `create_queue`), power loss after 28 refined
    OS operations — strictly inside the third call -/
theorem nv_C03 : ∃ rec i, 1 ≤ i ∧ i ≤ cs.length ∧
    recover g (powerImage img0 ((toOsOpsP 0 {} (effsD g R0.log cs)).2.take 28)) .doNothing [] none = .ok rec ∧
    H.AbsEq rec.log.queues (runD g 0 ⟨R0.log, [], {}, []⟩ (cs.take i)).l.queues :=
  C03P.C03_posix g (by decide) 0 R0.log [] img0 {} reachD0 rfl cs fitsC tornC 1 (by decide) _ 0 tailC 28 hkC
    .doNothing []

theorem e_pimC : powerImage img0 ((toOsOpsP 0 {} (effsD g R0.log cs)).2.take 28) = pimC := by
  rw [e_effsC]; decide +kernel
theorem e_RPC : recover g pimC .doNothing [] none = .ok RPC := by rw [recover_twin]; decide +kernel

theorem e_logC (i : Nat) : (runD g 0 ⟨R0.log, [], {}, []⟩ (cs.take i)).l.queues = (logD g R0.log (cs.take i)).queues := by
  rw [runD_eq]

theorem e_logC1 : ((logD g R0.log (cs.take 1)).queues.get? [97]).map MemQueue.abs = some ⟨0, []⟩ := by
  simp only [cs, List.take, logD, step_twin]; decide +kernel
theorem e_logC3 : ((logD g R0.log (cs.take 3)).queues.get? [97]).map MemQueue.abs =
    some ⟨4, [(0, [1]), (1, [2]), (2, [3]), (3, [4])]⟩ := by
  simp only [cs, List.take, logD, step_twin]; decide +kernel

/-- … and its conclusion is not the trivial one: the witnesses are forced — the recovered log is
    `RPC` (the first batch present, the second absent) and `i = 2`, strictly between the promise
    point and the end of the history -/
theorem nv_C03_forced (rec : Recovered) (i : Nat) (h1 : 1 ≤ i) (h2 : i ≤ cs.length)
    (h3 : recover g (powerImage img0 ((toOsOpsP 0 {} (effsD g R0.log cs)).2.take 28)) .doNothing [] none = .ok rec)
    (h4 : H.AbsEq rec.log.queues (runD g 0 ⟨R0.log, [], {}, []⟩ (cs.take i)).l.queues) :
    rec = RPC ∧ i = 2 := by
  rw [e_pimC, e_RPC] at h3
  simp only [Except.ok.injEq] at h3
  subst h3
  refine ⟨rfl, ?_⟩
  have hlen : cs.length = 3 := rfl
  have h5 := h4 [97]
  rw [e_logC] at h5
  have hq : (RPC.log.queues.get? [97]).map MemQueue.abs = some ⟨2, [(0, [1]), (1, [2])]⟩ := by decide +kernel
  rw [hq] at h5
  rcases (by omega : i = 1 ∨ i = 2 ∨ i = 3) with rfl | rfl | rfl
  · rw [e_logC1] at h5; exact absurd h5 (by decide)
  · rfl
  · rw [e_logC3] at h5; exact absurd h5 (by decide)

/-- at that instant `wal-4`, created after the last `fsync` of the directory, is dropped by the power
    loss although three operations on it were issued -/
theorem nv_C03_dropped :
    OsOpP.create 4 ∈ (toOsOpsP 0 {} (effsD g R0.log cs)).2.take 28 ∧ pimC.map (·.1) = [0, 1, 2, 3] := by
  rw [e_effsC]; decide +kernel


/-! #### from the crash-reachable state `S*` -/

def evs : List PX.Ev :=
  [.call (.persist .flushAndFsync) false [], .call (.append [97] none [[9],[10]]) false []]

theorem e_effsE : PX.effsX g R2.log img6 evs = effsE := by
  simp only [evs, PX.effsX, PX.evEffs, PX.evLog, PX.evDisk, step_twin]; decide +kernel

theorem fitsE : ∀ j ∈ PX.jourX g R2.log img6 evs, C07.WF j.e := by
  simp only [evs, PX.jourX, PX.evJ, PX.evLog, PX.evDisk, step_twin, stepJ_twin]; decide +kernel

theorem tornE : H.TornEffs (PX.effsX g R2.log img6 evs) := by
  rw [e_effsE]
  apply tornEffs_check _ [(.first, [4, 6, 0, 0, 0, 0, 0, 0, 0]), (.middle, [1, 0, 97, 6, 0, 0, 0, 0, 0]),
    (.middle, [0, 0, 1, 0, 0, 0, 9, 7, 0]), (.middle, [0, 0, 0, 0, 0, 0, 1, 0, 0]), (.last, [0, 10])]
  · decide +kernel
  · decide +kernel

theorem tailE : PX.effsX g R2.log img6 (evs.take 1) = [] ++ [.flush, .fsyncFile 11, .fsyncDir] := by
  simp only [evs, List.take, PX.effsX, PX.evEffs, PX.evLog, PX.evDisk, step_twin]; decide +kernel

theorem hkE : (toOsOpsP 0 {} (PX.effsX g R2.log img6 (evs.take 1))).2.length ≤ 8 := by
  rw [tailE]; decide +kernel

/-- `C03PX.C03_posix_reachX` applies to `S*`: promise point `m = 1` (`persist(FlushAndFsync)`), power
    loss after 8 refined OS operations — inside the `append` that follows -/
theorem nv_C03X : ∃ rec i, 1 ≤ i ∧ i ≤ evs.length ∧
    recover g (powerImage img6 ((toOsOpsP 0 {} (PX.effsX g R2.log img6 evs)).2.take 8)) .doNothing [] none = .ok rec ∧
    H.AbsEq rec.log.queues (PX.logX g R2.log img6 (evs.take i)).queues :=
  C03PX.C03_posix_reachX g (by decide) 0 R2.log img6 {} reachS.toReachX rfl evs fitsE tornE 1 (by decide) _ 11 tailE
    8 hkE .doNothing []

theorem e_pimE : powerImage img6 ((toOsOpsP 0 {} (PX.effsX g R2.log img6 evs)).2.take 8) = pimE := by
  rw [e_effsE]; decide +kernel
theorem e_RPE : recover g pimE .doNothing [] none = .ok RPE := by rw [recover_twin]; decide +kernel

theorem e_logE2 : ((PX.logX g R2.log img6 (evs.take 2)).queues.get? [97]).map MemQueue.abs =
    some ⟨8, [(2, [5]), (3, [6]), (4, [7]), (5, [8]), (6, [9]), (7, [10])]⟩ := by
  simp only [evs, List.take, PX.logX, PX.evLog, PX.evDisk, PX.evEffs, step_twin]; decide +kernel

/-- the witnesses are forced: the recovered log is `RPE` (the interrupted batch absent) and
    `i = 1 < evs.length`; `wal-12`, created after the last `fsync` of the directory, is dropped -/
theorem nv_C03X_forced (rec : Recovered) (i : Nat) (h1 : 1 ≤ i) (h2 : i ≤ evs.length)
    (h3 : recover g (powerImage img6 ((toOsOpsP 0 {} (PX.effsX g R2.log img6 evs)).2.take 8)) .doNothing [] none = .ok rec)
    (h4 : H.AbsEq rec.log.queues (PX.logX g R2.log img6 (evs.take i)).queues) :
    rec = RPE ∧ i = 1 := by
  rw [e_pimE, e_RPE] at h3
  simp only [Except.ok.injEq] at h3
  subst h3
  refine ⟨rfl, ?_⟩
  have hlen : evs.length = 2 := rfl
  have h5 := h4 [97]
  have hq : (RPE.log.queues.get? [97]).map MemQueue.abs = some ⟨6, [(2, [5]), (3, [6]), (4, [7]), (5, [8])]⟩ := by
    decide +kernel
  rw [hq] at h5
  rcases (by omega : i = 1 ∨ i = 2) with rfl | rfl
  · rfl
  · rw [e_logE2] at h5; exact absurd h5 (by decide)

theorem nv_C03X_dropped :
    OsOpP.create 12 ∈ (toOsOpsP 0 {} (PX.effsX g R2.log img6 evs)).2.take 8 ∧
    pimE.map (·.1) = [5, 6, 7, 8, 9, 10, 11] := by
  rw [e_effsE]; decide +kernel

end MRL.NV
