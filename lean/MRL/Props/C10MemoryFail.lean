/-
C10, memory, whatever the outcome of `open`. `C10M.recoverC_bounded` bounds the queues of a log that
`open` RETURNS. Here: the queues held at ANY point of the replay loop — after every delivered event,
up to and including the state in which a rejected entry (`Corruption`) or an I/O fault stops the loop —
are bounded by the bytes read, for EVERY image and EVERY fault plan. So a failed `open` did not
allocate without bound either.

* `replayTrace qs evs`: the states the replay loop goes through (`qs`, then the state after each
  applied entry; the loop stops at the first entry `replayEntry` rejects);
* `mem_replayTrace`: each of them is `replay qs evs'` for a prefix `evs'` of the events;
* `replay_prefix_bounded` / `replayTrace_bounded`: `usedBytes 12 s ≤ imageBytes (prepareImage g img).1`
  for every such state of `deliveredEvents g img failAt` (the events delivered before the scan stopped,
  normally or on the I/O fault), hence names + payloads, 12 bytes per record, and
  `memory_used_bytes` for any `RecordMeta` size (`trace_bounded`);
* `openC_trace_bounded`: the same for `open` as the code does it (clipped view), in terms of the bytes
  of the directory plus one nominal file;
* `openC_buf_bounded`: the reassembly buffer (`C10.recover_buf_bounded`) in the same terms.
-/
import MRL.Props.C10Memory

namespace MRL.C10MF
open MRL Log Consts C10 C16 Rec C10M

/-- the states of the replay loop: the initial one, then the one after each applied entry; an
    undecodable entry or a corrupt event changes nothing; the loop stops at a rejected entry -/
def replayTrace (qs : MemQueues) : List RecEv → List MemQueues
  | [] => [qs]
  | .corrupt :: evs => replayTrace qs evs
  | .entry file bytes :: evs =>
    match Entry.decode bytes with
    | none => replayTrace qs evs
    | some e =>
      match replayEntry qs file e with
      | none => [qs]
      | some qs' => qs :: replayTrace qs' evs

/-- the trace ends with the result when the loop completes -/
theorem replayTrace_last (evs : List RecEv) : ∀ (qs qs' : MemQueues), replay qs evs = some qs' →
    (replayTrace qs evs).getLast? = some qs' := by
  induction evs with
  | nil => intro qs qs' h; simp only [replay, Option.some.injEq] at h; subst h; rfl
  | cons ev evs ih =>
    intro qs qs' h
    cases ev with
    | corrupt => simp only [replay] at h; simpa [replayTrace] using ih qs qs' h
    | entry f bytes =>
      simp only [replay] at h
      simp only [replayTrace]
      cases hd : Entry.decode bytes with
      | none => rw [hd] at h; exact ih qs qs' h
      | some e =>
        rw [hd] at h
        simp only at h ⊢
        cases hr : replayEntry qs f e with
        | none => rw [hr] at h; cases h
        | some qs1 =>
          rw [hr] at h
          simp only [Option.bind_some] at h
          have := ih qs1 qs' h
          cases ht : replayTrace qs1 evs with
          | nil => rw [ht] at this; cases this
          | cons a t =>
            rw [ht] at this
            show (qs :: replayTrace qs1 evs).getLast? = some qs'
            rw [ht, List.getLast?_cons_cons]; exact this

/-- **every state of the loop is the replay of a prefix of the events** -/
theorem mem_replayTrace (evs : List RecEv) : ∀ (qs s : MemQueues), s ∈ replayTrace qs evs →
    ∃ evs', evs' <+: evs ∧ replay qs evs' = some s := by
  induction evs with
  | nil =>
    intro qs s hs
    simp only [replayTrace, List.mem_singleton] at hs
    subst hs
    exact ⟨[], List.prefix_refl _, rfl⟩
  | cons ev evs ih =>
    intro qs s hs
    cases ev with
    | corrupt =>
      simp only [replayTrace] at hs
      obtain ⟨evs', hp, hr⟩ := ih qs s hs
      exact ⟨.corrupt :: evs', (List.cons_prefix_cons).mpr ⟨rfl, hp⟩, by simpa [replay] using hr⟩
    | entry f bytes =>
      simp only [replayTrace] at hs
      cases hd : Entry.decode bytes with
      | none =>
        rw [hd] at hs
        obtain ⟨evs', hp, hr⟩ := ih qs s hs
        exact ⟨.entry f bytes :: evs', (List.cons_prefix_cons).mpr ⟨rfl, hp⟩, by simp only [replay, hd]; exact hr⟩
      | some e =>
        rw [hd] at hs
        simp only at hs
        cases hre : replayEntry qs f e with
        | none =>
          rw [hre] at hs
          simp only [List.mem_singleton] at hs
          subst hs
          exact ⟨[], List.nil_prefix, rfl⟩
        | some qs1 =>
          rw [hre] at hs
          simp only [List.mem_cons] at hs
          rcases hs with rfl | hs
          · exact ⟨[], List.nil_prefix, rfl⟩
          · obtain ⟨evs', hp, hr⟩ := ih qs1 s hs
            exact ⟨.entry f bytes :: evs', (List.cons_prefix_cons).mpr ⟨rfl, hp⟩,
              by simp only [replay, hd, hre, Option.bind_some]; exact hr⟩

theorem entryBytes_append (a b : List RecEv) : entryBytes (a ++ b) = entryBytes a + entryBytes b := by
  induction a with
  | nil => simp [entryBytes]
  | cons ev a ih =>
    cases ev with
    | corrupt => simpa [entryBytes] using ih
    | entry f bytes => simp only [List.cons_append, entryBytes, ih]; omega

theorem entryBytes_prefix {a b : List RecEv} (h : a <+: b) : entryBytes a ≤ entryBytes b := by
  obtain ⟨t, rfl⟩ := h
  rw [entryBytes_append]; exact Nat.le_add_right _ _

/-- **the replay of any prefix of the delivered events is bounded by the bytes read**, for every
    image and fault plan, whether or not `open` succeeds in the end -/
theorem replay_prefix_bounded (g : Geom) (img : Image) (failAt : Option Nat) (evs' : List RecEv)
    (hp : evs' <+: deliveredEvents g img failAt) (qs : MemQueues) (h : replay [] evs' = some qs) :
    MemQueues.usedBytes 12 qs ≤ imageBytes (prepareImage g img).1 := by
  have h1 := replay_potential evs' [] qs h QsInv_nil
  have h2 := entryBytes_prefix hp
  have h3 := delivered_bytes g img failAt
  have h0 : MemQueues.usedBytes 12 [] = 0 := rfl
  omega

/-- **every state of the replay loop of `open`** -/
theorem replayTrace_bounded (g : Geom) (img : Image) (failAt : Option Nat) (s : MemQueues)
    (hs : s ∈ replayTrace [] (deliveredEvents g img failAt)) :
    MemQueues.usedBytes 12 s ≤ imageBytes (prepareImage g img).1 := by
  obtain ⟨evs', hp, hr⟩ := mem_replayTrace _ [] s hs
  exact replay_prefix_bounded g img failAt evs' hp s hr

/-- names + payloads, records, and `memory_used_bytes` for any `RecordMeta` size, of every state -/
theorem trace_bounded (msz : Nat) (g : Geom) (img : Image) (failAt : Option Nat) (s : MemQueues)
    (hs : s ∈ replayTrace [] (deliveredEvents g img failAt)) :
    nameBytes s + totalPayload s ≤ imageBytes (prepareImage g img).1 ∧
    12 * totalRecords s ≤ imageBytes (prepareImage g img).1 ∧
    12 * MemQueues.usedBytes msz s ≤ (12 + msz) * imageBytes (prepareImage g img).1 := by
  have hp := replayTrace_bounded g img failAt s hs
  refine ⟨Nat.le_trans (C16_used_ge 12 _) hp, ?_, used_scale msz _ _ hp⟩
  rw [C16_used_split] at hp
  omega

/-- **`open` as the code does it, whatever it returns** (`Ok`, `Err(Io)`, `Err(Corruption)`): every
    state of its replay loop is bounded by the bytes of the directory plus one nominal file -/
theorem openC_trace_bounded (msz : Nat) (g : Geom) (img : Image) (failAt : Option Nat) (s : MemQueues)
    (hs : s ∈ replayTrace [] (deliveredEvents g (clipImage g img) failAt)) :
    nameBytes s + totalPayload s ≤ imageBytes img + g.fileBytes ∧
    12 * totalRecords s ≤ imageBytes img + g.fileBytes ∧
    12 * MemQueues.usedBytes msz s ≤ (12 + msz) * (imageBytes img + g.fileBytes) := by
  have hI : imageBytes (prepareImage g (clipImage g img)).1 ≤ imageBytes img + g.fileBytes :=
    Nat.le_trans (prepared_le g _) (Nat.add_le_add_right (clip_le g img) _)
  have hp := Nat.le_trans (replayTrace_bounded g _ failAt s hs) hI
  refine ⟨Nat.le_trans (C16_used_ge 12 _) hp, ?_, used_scale msz _ _ hp⟩
  rw [C16_used_split] at hp
  omega

/-- the reassembly buffer never exceeds that either -/
theorem openC_buf_bounded (g : Geom) (img : Image) (failAt : Option Nat) (f : Nat) (bytes : Bytes)
    (h : RecEv.entry f bytes ∈ deliveredEvents g (clipImage g img) failAt) :
    bytes.length ≤ imageBytes img + g.fileBytes :=
  Nat.le_trans (recover_buf_bounded g _ failAt f bytes h)
    (Nat.le_trans (prepared_le g _) (Nat.add_le_add_right (clip_le g img) _))

/-- the trace is what `open` computes: when `recoverPre` succeeds its queues are the last state -/
theorem trace_last_of_pre {g : Geom} {img : Image} {policy : Policy} {failAt : Option Nat} {lp : Log}
    {e0 : List Effect} {io : Nat} (h : recoverPre g img policy failAt = .ok (lp, e0, io)) :
    (replayTrace [] (deliveredEvents g img failAt)).getLast? = some lp.queues :=
  replayTrace_last _ [] lp.queues (deliveredEvents_of_pre h)

/-- and it is never empty: the loop starts from no queue at all -/
theorem trace_head (evs : List RecEv) (qs : MemQueues) : (replayTrace qs evs).head? = some qs := by
  induction evs generalizing qs with
  | nil => rfl
  | cons ev evs ih =>
    cases ev with
    | corrupt => simpa [replayTrace] using ih qs
    | entry f bytes =>
      simp only [replayTrace]
      cases Entry.decode bytes with
      | none => exact ih qs
      | some e =>
        simp only
        cases replayEntry qs f e <;> rfl

end MRL.C10MF
