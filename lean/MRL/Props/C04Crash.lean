/-
C04, crash leg: positions never regress across a crash. Whatever call was in flight (other than
the deletion of `q` itself) and wherever the crash cut it, the recovered log gives `q` a next
position at least as large as before the call; so the first append after the crash does not reuse
a position.
-/
import MRL.Proofs.StepCrash

namespace MRL.C04C
open MRL Log C01J C02A Crash

/-- **C04 across a crash.** -/
theorem C04_crash_next_mono (g : Geom) (hB : g.B ≤ 65542) (cap : Nat) (l : Log) (J : List JE) (img : Image)
    (b : BufSt) (h : C01R.ReachD g cap l J img b) (hb : b.pend = []) (c : Call) (tick : Bool)
    (order : List Bytes) (hfits : ∀ j ∈ J ++ l.stepJ g c order, C07.WF j.e)
    (htorn : TornStep g l c tick order) (k cut : Nat) (policy' : Policy) (order' : List Bytes)
    (q : Bytes) (n : Nat) (hc : c ≠ .delete q) (hn : C04.nextOf l q = some n) :
    ∃ rec, recover g (crashDisk g cap l img b c tick order k cut) policy' order' none = .ok rec ∧
      C05.Inv rec.log ∧ ∃ n', C04.nextOf rec.log q = some n' ∧ n ≤ n' := by
  obtain ⟨rec, hrec, hIr, hI, hv⟩ :=
    crash_views g hB cap l J img b h hb c tick order hfits htorn k cut policy' order'
  refine ⟨rec, hrec, hIr, ?_⟩
  rcases hv with hv | hv
  · exact ⟨n, by rw [nextOf_view, hv q, ← nextOf_view]; exact hn, Nat.le_refl _⟩
  · obtain ⟨n', h1, h2⟩ := C04.C04_model_next_mono g l hI c tick order q n hc hn
    exact ⟨n', by rw [nextOf_view, hv q, ← nextOf_view]; exact h1, h2⟩

/-- **…and the first append after the crash is fresh**: its positions are consecutive and start
    at or above the next position `q` had before the interrupted call. -/
theorem C04_crash_then_append_fresh (g : Geom) (hB : g.B ≤ 65542) (cap : Nat) (l : Log) (J : List JE)
    (img : Image) (b : BufSt) (h : C01R.ReachD g cap l J img b) (hb : b.pend = []) (c : Call) (tick : Bool)
    (order : List Bytes) (hfits : ∀ j ∈ J ++ l.stepJ g c order, C07.WF j.e)
    (htorn : TornStep g l c tick order) (k cut : Nat) (policy' : Policy) (order' : List Bytes)
    (q : Bytes) (n : Nat) (hc : c ≠ .delete q) (hn : C04.nextOf l q = some n)
    (rec : Recovered)
    (hrec : recover g (crashDisk g cap l img b c tick order k cut) policy' order' none = .ok rec)
    (tick₂ : Bool) (order₂ : List Bytes) (pos : Option Nat) (pls : List Bytes) (last w : Nat)
    (hout : (Log.step g rec.log (.append q pos pls) tick₂ order₂).2.1 = .appended (some last) w) :
    ∃ mq mq' p, rec.log.queues.get? q = some mq ∧
      (Log.step g rec.log (.append q pos pls) tick₂ order₂).1.queues.get? q = some mq' ∧
      n ≤ p ∧ mq'.abs.recs = mq.abs.recs ++ numberFrom p pls ∧
      (numberFrom p pls).map (·.1) = List.range' p pls.length ∧ last + 1 = mq'.nextPosition := by
  obtain ⟨rec', hrec', hIr, n', hn', hle⟩ :=
    C04_crash_next_mono g hB cap l J img b h hb c tick order hfits htorn k cut policy' order' q n hc hn
  rw [hrec] at hrec'
  simp only [Except.ok.injEq] at hrec'
  subst hrec'
  unfold C04.nextOf at hn'
  cases hg : rec.log.queues.get? q with
  | none => rw [hg] at hn'; cases hn'
  | some mq =>
    rw [hg] at hn'
    simp only [Option.map_some, Option.some.injEq] at hn'
    obtain ⟨mq', p, h1, h2, h3, h4, h5⟩ :=
      C04.C04_model_append_fresh g rec.log hIr tick₂ order₂ q pos pls last w mq hg hout
    exact ⟨mq, mq', p, rfl, h1, by omega, h3, h4, h5⟩

end MRL.C04C
