/-
C04 and C18, crash legs over `C02U.ReachX`: the state before the crash may itself have been reached
through any number of earlier crashes (at any point of a call or of `open`), restarts and calls.
`C04C` / `C18C` state the same for `C01R.ReachD` (no earlier crash).

* `crash_viewsX`, `crash2_viewsX`, `restart_viewsX`: per-queue form of `C02_usable_crash_atomic`,
  `C02_usable_second_crash`, `C02_usable_restart`;
* C04: next positions never regress through a crash + recovery (`C04X_crash_next_mono`), a crash of
  `open` itself or a restart keeps them (`C04X_crash2_next`, `C04X_restart_next`), the first append
  after any of these gets fresh consecutive positions (`C04X_crash_then_append_fresh`,
  `C04X_crash2_then_append_fresh`);
* C18: queues the call in flight was not addressed to are untouched (`C18X_crash_other_untouched`,
  `C18X_crash_persist`, `C18X_crash2_untouched`), and the projection statement holds for any history
  run on the recovered log (`C18X_crash_projection`).
-/
import MRL.Props.C02Usable
import MRL.Props.C04Crash
import MRL.Props.C18Crash

namespace MRL.CX
open MRL Log C01J C02A Crash

/-- **crash atomicity on `ReachX`, per-queue form** -/
theorem crash_viewsX (g : Geom) (hB : g.B ≤ 65542) (cap : Nat) (l : Log) (img : Image) (b : BufSt)
    (h : C02U.ReachX g cap l img b) (hb : b.pend = []) (c : Call) (tick : Bool) (order : List Bytes)
    (hfits : ∀ j ∈ l.stepJ g c order, C07.WF j.e) (htorn : TornStep g l c tick order) (k cut : Nat)
    (policy' : Policy) (order' : List Bytes) :
    ∃ rec, recover g (crashDisk g cap l img b c tick order k cut) policy' order' none = .ok rec ∧
      C05.Inv rec.log ∧ C05.Inv l ∧
      ((∀ q, C18.view rec.log q = C18.view l q) ∨
       (∀ q, C18.view rec.log q = C18.view (l.step g c tick order).1 q)) := by
  obtain ⟨rec, hrec, hab⟩ :=
    C02U.C02_usable_crash_atomic g hB cap l img b h hb c tick order hfits htorn k cut policy' order'
  refine ⟨rec, hrec, C08.recover_sorted g _ policy' order' none rec hrec,
    (C02U.C02_usable_refines g hB cap l img b h c tick order).1, ?_⟩
  rcases hab with hab | hab
  · exact .inl fun q => hab q
  · exact .inr fun q => hab q

/-- **a crash of `open` itself on a `ReachX` state, per-queue form** -/
theorem crash2_viewsX (g : Geom) (hB : g.B ≤ 65542) (cap : Nat) (l : Log) (img : Image) (b : BufSt)
    (h : C02U.ReachX g cap l img b) (policy : Policy) (order : List Bytes) (lp0 : Log)
    (e00 : List Effect) (io0 : Nat) (r0 : Recovered)
    (hpre0 : recoverPre g (C02U.flushDisk img b) policy none = .ok (lp0, e00, io0))
    (hrec0 : recover g (C02U.flushDisk img b) policy order none = .ok r0)
    (hgw0 : ∀ j ∈ lp0.gcJ g order, C07.WF j.e) (htorn : H.TornEffs r0.effects)
    (k cut : Nat) (policy' : Policy) (order' : List Bytes) :
    ∃ rec', recover g (crashImage (C02U.flushDisk img b) (toOsOps cap {} r0.effects).2 k cut)
        policy' order' none = .ok rec' ∧ C05.Inv rec'.log ∧ ∀ q, C18.view rec'.log q = C18.view l q := by
  obtain ⟨rec', hrec', hab⟩ := C02U.C02_usable_second_crash g hB cap l img b h policy order lp0 e00 io0 r0
    hpre0 hrec0 hgw0 htorn k cut policy' order'
  exact ⟨rec', hrec', C08.recover_sorted g _ policy' order' none rec' hrec', fun q => hab q⟩

/-- **a clean restart of a `ReachX` state, per-queue form** -/
theorem restart_viewsX (g : Geom) (hB : g.B ≤ 65542) (cap : Nat) (l : Log) (img : Image) (b : BufSt)
    (h : C02U.ReachX g cap l img b) (policy : Policy) (order : List Bytes) :
    ∃ r, recover g (C02U.flushDisk img b) policy order none = .ok r ∧ C05.Inv r.log ∧
      ∀ q, C18.view r.log q = C18.view l q := by
  obtain ⟨r, hr, hab⟩ := C02U.C02_usable_restart g hB cap l img b h policy order
  exact ⟨r, hr, C08.recover_sorted g _ policy order none r hr, fun q => hab q⟩

/-! ### C04 -/

/-- **C04 across a crash, from any crash-reachable state.** -/
theorem C04X_crash_next_mono (g : Geom) (hB : g.B ≤ 65542) (cap : Nat) (l : Log) (img : Image) (b : BufSt)
    (h : C02U.ReachX g cap l img b) (hb : b.pend = []) (c : Call) (tick : Bool) (order : List Bytes)
    (hfits : ∀ j ∈ l.stepJ g c order, C07.WF j.e) (htorn : TornStep g l c tick order) (k cut : Nat)
    (policy' : Policy) (order' : List Bytes) (q : Bytes) (n : Nat) (hc : c ≠ .delete q)
    (hn : C04.nextOf l q = some n) :
    ∃ rec, recover g (crashDisk g cap l img b c tick order k cut) policy' order' none = .ok rec ∧
      C05.Inv rec.log ∧ ∃ n', C04.nextOf rec.log q = some n' ∧ n ≤ n' := by
  obtain ⟨rec, hrec, hIr, hI, hv⟩ := crash_viewsX g hB cap l img b h hb c tick order hfits htorn k cut policy' order'
  refine ⟨rec, hrec, hIr, ?_⟩
  rcases hv with hv | hv
  · exact ⟨n, by rw [nextOf_view, hv q, ← nextOf_view]; exact hn, Nat.le_refl _⟩
  · obtain ⟨n', h1, h2⟩ := C04.C04_model_next_mono g l hI c tick order q n hc hn
    exact ⟨n', by rw [nextOf_view, hv q, ← nextOf_view]; exact h1, h2⟩

/-- a crash during `open` itself keeps every next position -/
theorem C04X_crash2_next (g : Geom) (hB : g.B ≤ 65542) (cap : Nat) (l : Log) (img : Image) (b : BufSt)
    (h : C02U.ReachX g cap l img b) (policy : Policy) (order : List Bytes) (lp0 : Log)
    (e00 : List Effect) (io0 : Nat) (r0 : Recovered)
    (hpre0 : recoverPre g (C02U.flushDisk img b) policy none = .ok (lp0, e00, io0))
    (hrec0 : recover g (C02U.flushDisk img b) policy order none = .ok r0)
    (hgw0 : ∀ j ∈ lp0.gcJ g order, C07.WF j.e) (htorn : H.TornEffs r0.effects)
    (k cut : Nat) (policy' : Policy) (order' : List Bytes) :
    ∃ rec', recover g (crashImage (C02U.flushDisk img b) (toOsOps cap {} r0.effects).2 k cut)
        policy' order' none = .ok rec' ∧ C05.Inv rec'.log ∧ ∀ q, C04.nextOf rec'.log q = C04.nextOf l q := by
  obtain ⟨rec', hrec', hI, hv⟩ := crash2_viewsX g hB cap l img b h policy order lp0 e00 io0 r0 hpre0 hrec0
    hgw0 htorn k cut policy' order'
  exact ⟨rec', hrec', hI, fun q => by rw [nextOf_view, hv q, ← nextOf_view]⟩

/-- a clean restart of a crash-reachable state keeps every next position -/
theorem C04X_restart_next (g : Geom) (hB : g.B ≤ 65542) (cap : Nat) (l : Log) (img : Image) (b : BufSt)
    (h : C02U.ReachX g cap l img b) (policy : Policy) (order : List Bytes) :
    ∃ r, recover g (C02U.flushDisk img b) policy order none = .ok r ∧ C05.Inv r.log ∧
      ∀ q, C04.nextOf r.log q = C04.nextOf l q := by
  obtain ⟨r, hr, hI, hv⟩ := restart_viewsX g hB cap l img b h policy order
  exact ⟨r, hr, hI, fun q => by rw [nextOf_view, hv q, ← nextOf_view]⟩

/-- the first effective append on a log whose next position for `q` is at least `n` -/
theorem append_fresh_from (g : Geom) (l' : Log) (hI : C05.Inv l') (q : Bytes) (n n' : Nat)
    (hn' : C04.nextOf l' q = some n') (hle : n ≤ n')
    (tick₂ : Bool) (order₂ : List Bytes) (pos : Option Nat) (pls : List Bytes) (last w : Nat)
    (hout : (Log.step g l' (.append q pos pls) tick₂ order₂).2.1 = .appended (some last) w) :
    ∃ mq mq' p, l'.queues.get? q = some mq ∧
      (Log.step g l' (.append q pos pls) tick₂ order₂).1.queues.get? q = some mq' ∧
      n ≤ p ∧ mq'.abs.recs = mq.abs.recs ++ numberFrom p pls ∧
      (numberFrom p pls).map (·.1) = List.range' p pls.length ∧ last + 1 = mq'.nextPosition := by
  unfold C04.nextOf at hn'
  cases hg : l'.queues.get? q with
  | none => rw [hg] at hn'; cases hn'
  | some mq =>
    rw [hg] at hn'
    simp only [Option.map_some, Option.some.injEq] at hn'
    obtain ⟨mq', p, h1, h2, h3, h4, h5⟩ :=
      C04.C04_model_append_fresh g l' hI tick₂ order₂ q pos pls last w mq hg hout
    exact ⟨mq, mq', p, rfl, h1, by omega, h3, h4, h5⟩

/-- **…and the first append after the crash is fresh** -/
theorem C04X_crash_then_append_fresh (g : Geom) (hB : g.B ≤ 65542) (cap : Nat) (l : Log) (img : Image)
    (b : BufSt) (h : C02U.ReachX g cap l img b) (hb : b.pend = []) (c : Call) (tick : Bool)
    (order : List Bytes) (hfits : ∀ j ∈ l.stepJ g c order, C07.WF j.e) (htorn : TornStep g l c tick order)
    (k cut : Nat) (policy' : Policy) (order' : List Bytes) (q : Bytes) (n : Nat) (hc : c ≠ .delete q)
    (hn : C04.nextOf l q = some n) (rec : Recovered)
    (hrec : recover g (crashDisk g cap l img b c tick order k cut) policy' order' none = .ok rec)
    (tick₂ : Bool) (order₂ : List Bytes) (pos : Option Nat) (pls : List Bytes) (last w : Nat)
    (hout : (Log.step g rec.log (.append q pos pls) tick₂ order₂).2.1 = .appended (some last) w) :
    ∃ mq mq' p, rec.log.queues.get? q = some mq ∧
      (Log.step g rec.log (.append q pos pls) tick₂ order₂).1.queues.get? q = some mq' ∧
      n ≤ p ∧ mq'.abs.recs = mq.abs.recs ++ numberFrom p pls ∧
      (numberFrom p pls).map (·.1) = List.range' p pls.length ∧ last + 1 = mq'.nextPosition := by
  obtain ⟨rec', hrec', hIr, n', hn', hle⟩ :=
    C04X_crash_next_mono g hB cap l img b h hb c tick order hfits htorn k cut policy' order' q n hc hn
  rw [hrec] at hrec'
  simp only [Except.ok.injEq] at hrec'
  subst hrec'
  exact append_fresh_from g rec.log hIr q n n' hn' hle tick₂ order₂ pos pls last w hout

/-- the same after a crash of `open` itself -/
theorem C04X_crash2_then_append_fresh (g : Geom) (hB : g.B ≤ 65542) (cap : Nat) (l : Log) (img : Image)
    (b : BufSt) (h : C02U.ReachX g cap l img b) (policy : Policy) (order : List Bytes) (lp0 : Log)
    (e00 : List Effect) (io0 : Nat) (r0 : Recovered)
    (hpre0 : recoverPre g (C02U.flushDisk img b) policy none = .ok (lp0, e00, io0))
    (hrec0 : recover g (C02U.flushDisk img b) policy order none = .ok r0)
    (hgw0 : ∀ j ∈ lp0.gcJ g order, C07.WF j.e) (htorn : H.TornEffs r0.effects)
    (k cut : Nat) (policy' : Policy) (order' : List Bytes) (q : Bytes) (n : Nat)
    (hn : C04.nextOf l q = some n) (rec' : Recovered)
    (hrec' : recover g (crashImage (C02U.flushDisk img b) (toOsOps cap {} r0.effects).2 k cut)
      policy' order' none = .ok rec')
    (tick₂ : Bool) (order₂ : List Bytes) (pos : Option Nat) (pls : List Bytes) (last w : Nat)
    (hout : (Log.step g rec'.log (.append q pos pls) tick₂ order₂).2.1 = .appended (some last) w) :
    ∃ mq mq' p, rec'.log.queues.get? q = some mq ∧
      (Log.step g rec'.log (.append q pos pls) tick₂ order₂).1.queues.get? q = some mq' ∧
      n ≤ p ∧ mq'.abs.recs = mq.abs.recs ++ numberFrom p pls ∧
      (numberFrom p pls).map (·.1) = List.range' p pls.length ∧ last + 1 = mq'.nextPosition := by
  obtain ⟨r2, hr2, hI, hnx⟩ := C04X_crash2_next g hB cap l img b h policy order lp0 e00 io0 r0 hpre0 hrec0
    hgw0 htorn k cut policy' order'
  rw [hrec'] at hr2
  simp only [Except.ok.injEq] at hr2
  subst hr2
  exact append_fresh_from g rec'.log hI q n n (by rw [hnx q]; exact hn) (Nat.le_refl _) tick₂ order₂ pos pls
    last w hout

/-! ### C18 -/

/-- **C18 across a crash, from any crash-reachable state.** -/
theorem C18X_crash_other_untouched (g : Geom) (hB : g.B ≤ 65542) (cap : Nat) (l : Log) (img : Image)
    (b : BufSt) (h : C02U.ReachX g cap l img b) (hb : b.pend = []) (c : Call) (tick : Bool)
    (order : List Bytes) (hfits : ∀ j ∈ l.stepJ g c order, C07.WF j.e) (htorn : TornStep g l c tick order)
    (k cut : Nat) (policy' : Policy) (order' : List Bytes) :
    ∃ rec, recover g (crashDisk g cap l img b c tick order k cut) policy' order' none = .ok rec ∧
      C05.Inv rec.log ∧ ∀ q, C18.addressed q c = false → C18.view rec.log q = C18.view l q := by
  obtain ⟨rec, hrec, hIr, hI, hv⟩ := crash_viewsX g hB cap l img b h hb c tick order hfits htorn k cut policy' order'
  refine ⟨rec, hrec, hIr, fun q hq => ?_⟩
  rcases hv with hv | hv
  · exact hv q
  · rw [hv q]; exact C18C.step_other_view g l hI c tick order q hq

/-- a `persist` in flight changes no queue at all -/
theorem C18X_crash_persist (g : Geom) (hB : g.B ≤ 65542) (cap : Nat) (l : Log) (img : Image)
    (b : BufSt) (h : C02U.ReachX g cap l img b) (hb : b.pend = []) (a : PersistAction) (tick : Bool)
    (order : List Bytes) (hfits : ∀ j ∈ l.stepJ g (.persist a) order, C07.WF j.e)
    (htorn : TornStep g l (.persist a) tick order) (k cut : Nat) (policy' : Policy) (order' : List Bytes) :
    ∃ rec, recover g (crashDisk g cap l img b (.persist a) tick order k cut) policy' order' none = .ok rec ∧
      ∀ q, C18.view rec.log q = C18.view l q := by
  obtain ⟨rec, hrec, _, hq⟩ :=
    C18X_crash_other_untouched g hB cap l img b h hb (.persist a) tick order hfits htorn k cut policy' order'
  exact ⟨rec, hrec, fun q => hq q rfl⟩

/-- a crash of `open` itself changes no queue -/
theorem C18X_crash2_untouched (g : Geom) (hB : g.B ≤ 65542) (cap : Nat) (l : Log) (img : Image) (b : BufSt)
    (h : C02U.ReachX g cap l img b) (policy : Policy) (order : List Bytes) (lp0 : Log)
    (e00 : List Effect) (io0 : Nat) (r0 : Recovered)
    (hpre0 : recoverPre g (C02U.flushDisk img b) policy none = .ok (lp0, e00, io0))
    (hrec0 : recover g (C02U.flushDisk img b) policy order none = .ok r0)
    (hgw0 : ∀ j ∈ lp0.gcJ g order, C07.WF j.e) (htorn : H.TornEffs r0.effects)
    (k cut : Nat) (policy' : Policy) (order' : List Bytes) :
    ∃ rec', recover g (crashImage (C02U.flushDisk img b) (toOsOps cap {} r0.effects).2 k cut)
        policy' order' none = .ok rec' ∧ ∀ q, C18.view rec'.log q = C18.view l q := by
  obtain ⟨rec', hrec', _, hv⟩ := crash2_viewsX g hB cap l img b h policy order lp0 e00 io0 r0 hpre0 hrec0
    hgw0 htorn k cut policy' order'
  exact ⟨rec', hrec', hv⟩

/-- **C18, projection after a crash.** A call not addressed to `q` is cut by a crash at any point,
    from any crash-reachable state; the recovered log then runs any history `cs₁`. Another log `l₂`
    (any geometry, clock bits, hash orders) that agreed with the pre-crash log on `q` runs the calls
    of `cs₁` addressed to `q`: same content of `q` at the end, same logical outcomes for those calls —
    neither the interrupted call, nor the crash, nor the other queues' calls show through. -/
theorem C18X_crash_projection (g g₂ : Geom) (hB : g.B ≤ 65542) (cap : Nat) (l : Log) (img : Image)
    (b : BufSt) (h : C02U.ReachX g cap l img b) (hb : b.pend = []) (c : Call) (tick : Bool)
    (order : List Bytes) (hfits : ∀ j ∈ l.stepJ g c order, C07.WF j.e) (htorn : TornStep g l c tick order)
    (k cut : Nat) (policy' : Policy) (order' : List Bytes) (q : Bytes) (hq : C18.addressed q c = false)
    (l₂ : Log) (h₂ : C05.Inv l₂) (hv : C18.view l q = C18.view l₂ q)
    (cs₁ cs₂ : List (Call × Bool × List Bytes))
    (hcs : cs₂.map (·.1) = (cs₁.map (·.1)).filter (C18.addressed q)) :
    ∃ rec, recover g (crashDisk g cap l img b c tick order k cut) policy' order' none = .ok rec ∧
      C18.view (C05.run g rec.log cs₁) q = C18.view (C05.run g₂ l₂ cs₂) q ∧
      (C18.qOutcomes q (cs₁.map (·.1)) (C05.outcomes g rec.log cs₁)).map Outcome.logical =
        (C05.outcomes g₂ l₂ cs₂).map Outcome.logical := by
  obtain ⟨rec, hrec, hIr, hun⟩ :=
    C18X_crash_other_untouched g hB cap l img b h hb c tick order hfits htorn k cut policy' order'
  exact ⟨rec, hrec, C18.C18_model_projection g g₂ rec.log l₂ hIr h₂ q cs₁ cs₂ hcs (by rw [hun q hq]; exact hv)⟩

end MRL.CX
