/-
C18, restart leg: a restart does not mix queues. From C01 (end to end) the abstract content of
every queue is the same before and after a restart, so the projection theorem of C18 — what
happens to `q` depends only on the calls addressed to `q` — holds for histories that contain a
restart. Stated for one restart between two histories (iterate for more).
-/
import MRL.Proofs.StepRestart
import MRL.Props.C18
import MRL.Props.C08

namespace MRL.C18R
open MRL Log C01R C01J Restart C18

/-- **A restart keeps the view of every queue.** -/
theorem C18_restart_view (g : Geom) (hB : g.B ≤ 65542) (cap : Nat) (l : Log) (J : List JE) (img : Image)
    (b : BufSt) (h : ReachD g cap l J img b) (hfits : ∀ j ∈ J, C07.WF j.e) (policy : Policy)
    (order : List Bytes) (r : Recovered) (hr : recover g (flushDisk img b) policy order none = .ok r)
    (q : Bytes) : view r.log q = view l q := by
  rw [view_abs, view_abs]
  exact C01_obs g hB cap l J img b h hfits policy order r hr q

theorem reopens_view {g : Geom} {cap : Nat} (hB : g.B ≤ 65542) {s s' : Sys} (h : Reach g cap s) (hwf : WFJ s)
    {policy : Policy} {order : List Bytes} (hr : Reopens g cap s policy order s') (q : Bytes) :
    view s'.l q = view s.l q := by
  obtain ⟨lp, e0, io, r, _, hrec, rfl⟩ := hr
  exact C18_restart_view g hB cap s.l s.J s.img s.b h hwf policy order r hrec q

theorem reopens_inv {g : Geom} {cap : Nat} {s s' : Sys} {policy : Policy} {order : List Bytes}
    (hr : Reopens g cap s policy order s') : C05.Inv s'.l := by
  obtain ⟨lp, e0, io, r, _, hrec, rfl⟩ := hr
  exact C08.recover_sorted g _ policy order none r hrec

/-- **C18 across a restart.** Two systems (possibly different geometries, buffer capacities,
    policies, clocks, GC orders) agree on `q`. The first runs `cs₁`, restarts, runs `cs₁'`; the
    second runs only the calls of `cs₁` addressed to `q`, restarts, runs only the calls of `cs₁'`
    addressed to `q`. Then they agree on `q` at the end, and the calls addressed to `q` returned the
    same logical outcomes before and after the restart. -/
theorem C18_restart_projection (g₁ g₂ : Geom) (hB₁ : g₁.B ≤ 65542) (hB₂ : g₂.B ≤ 65542) (cap₁ cap₂ : Nat)
    (q : Bytes) {s₁ s₂ t₁ t₂ : Sys} (h₁ : Reach g₁ cap₁ s₁) (h₂ : Reach g₂ cap₂ s₂)
    (cs₁ cs₂ cs₁' cs₂' : List (Call × Bool × List Bytes))
    (hcs : cs₂.map (·.1) = (cs₁.map (·.1)).filter (addressed q))
    (hcs' : cs₂'.map (·.1) = (cs₁'.map (·.1)).filter (addressed q))
    (hq : view s₁.l q = view s₂.l q)
    (hwf₁ : WFJ (s₁.run g₁ cap₁ cs₁)) (hwf₂ : WFJ (s₂.run g₂ cap₂ cs₂))
    {p₁ p₂ : Policy} {o₁ o₂ : List Bytes}
    (hr₁ : Reopens g₁ cap₁ (s₁.run g₁ cap₁ cs₁) p₁ o₁ t₁)
    (hr₂ : Reopens g₂ cap₂ (s₂.run g₂ cap₂ cs₂) p₂ o₂ t₂) :
    view (t₁.run g₁ cap₁ cs₁').l q = view (t₂.run g₂ cap₂ cs₂').l q ∧
    (qOutcomes q (cs₁.map (·.1)) (C05.outcomes g₁ s₁.l cs₁)).map Outcome.logical =
      (C05.outcomes g₂ s₂.l cs₂).map Outcome.logical ∧
    (qOutcomes q (cs₁'.map (·.1)) (C05.outcomes g₁ t₁.l cs₁')).map Outcome.logical =
      (C05.outcomes g₂ t₂.l cs₂').map Outcome.logical := by
  have hI₁ := h₁.inv hB₁ (WFJ.of_run hwf₁)
  have hI₂ := h₂.inv hB₂ (WFJ.of_run hwf₂)
  obtain ⟨hv, ho⟩ := C18_model_projection g₁ g₂ s₁.l s₂.l hI₁ hI₂ q cs₁ cs₂ hcs hq
  rw [← run_log (cap := cap₁), ← run_log (cap := cap₂)] at hv
  have hv' : view t₁.l q = view t₂.l q := by
    rw [reopens_view hB₁ (h₁.run cs₁) hwf₁ hr₁, reopens_view hB₂ (h₂.run cs₂) hwf₂ hr₂]
    exact hv
  obtain ⟨hv2, ho2⟩ := C18_model_projection g₁ g₂ t₁.l t₂.l (reopens_inv hr₁) (reopens_inv hr₂) q cs₁' cs₂'
    hcs' hv'
  rw [← run_log (cap := cap₁), ← run_log (cap := cap₂)] at hv2
  exact ⟨hv2, ho, ho2⟩

/-- non-vacuity: the restarts the theorem quantifies over exist for every reachable state with a
    serialisable journal -/
example (g : Geom) (hB : g.B ≤ 65542) (cap : Nat) (s : Sys) (h : Reach g cap s)
    (cs : List (Call × Bool × List Bytes)) (hwf : WFJ (s.run g cap cs)) (q : Bytes) :
    ∃ t, Reopens g cap (s.run g cap cs) .doNothing [] t ∧ view t.l q = view (s.run g cap cs).l q := by
  obtain ⟨t, ht⟩ := reopens_exists hB (h.run cs) hwf .doNothing []
  exact ⟨t, ht, reopens_view hB (h.run cs) hwf ht q⟩

end MRL.C18R
