/-
C08 over crash-reachable states, FULL: `C08X.C08_crash_genuine_partial` without its `_partial`.

`C02W.ReachXW g cap l img b W` (`MRL/Proofs/LProvReach.lean`) is `C02U.ReachX g cap l img b` together
with the list `W` of every entry that a call or a GC pass of the history handed to the writer — the
`stepJ` entries of every call INCLUDING the call interrupted at a crash, the `gcJ` entries (touches)
of every `open`, including an `open` that was itself interrupted. `ReachXW.toReachX`,
`ReachXW.ofReachX`: it is the same set of states.

* `C08_crash_genuine`: for every such state there is a journal `J` with `L.CInvX g l J W₀`
  (`W₀ = flushDisk img b`), all entries serialisable, EVERY ENTRY OF `J` IN `W`, such that for any
  image `W'` of the same shape (arbitrary in-place damage) satisfying the collision clause
  `Img.NoAccidentalFrameImgX g W₀ W'`, a successful `recover g W' …` returns a log satisfying
  `C05.Inv` whose queues are the replay of a sub-sequence of the retained entries of `J`
  (`C08X.Genuine`) and whose EVERY RECORD IS `(name, position, payload)` OF AN `append` ENTRY OF `W`.
* `C08_crash_restart`: without damage and without the collision clause, the same for
  `recover g W₀ …` itself.
* `C08_crash_genuine_reachX`, `C08_crash_restart_reachX`: the same stated on `C02U.ReachX` (`∃ W`).

What was missing in `C08Crash.lean` — the provenance of the hidden journal across crashes — is
`C02W.reachXW_journal`: the crash analysis (`L.open_diskX`, `write_phase_crashX`, `unlink_phase_crashX`,
`step_decompX`, `call_cutX`, `gc_cutX`, `recover_okX`, `C02U.recover_boundary`, `after_xinvres`)
re-proved with an arbitrary predicate on entries carried next to `C07.WF` (`MRL/Proofs/LProv*.lean`);
the source of the fact is `L.read_diskX`: the journal read back has the entries of the retained
part of the journal the disk was written from. Nothing is partial: every crash point of every call
and of `open` itself, GC passes cut in the middle included, any number of times.
-/
import MRL.Props.C08Crash
import MRL.Proofs.LProvReach

namespace MRL.C08X
open MRL Consts Codec Log Img

theorem mem_recordsOfE {x : Bytes × Nat × Bytes} : ∀ {l : List Entry}, x ∈ recordsOfE l →
    ∃ q p recs, Entry.append q p recs ∈ l ∧ x ∈ recs.map (fun r => (q, r.1, r.2))
  | [], h => by cases h
  | e :: es, h => by
    cases e with
    | append q p recs =>
      simp only [recordsOfE, List.mem_append] at h
      rcases h with h | h
      · exact ⟨q, p, recs, List.mem_cons_self, h⟩
      · obtain ⟨q', p', recs', hm, hx⟩ := mem_recordsOfE h
        exact ⟨q', p', recs', List.mem_cons_of_mem _ hm, hx⟩
    | truncate q p =>
      obtain ⟨q', p', recs', hm, hx⟩ := mem_recordsOfE (l := es) h
      exact ⟨q', p', recs', List.mem_cons_of_mem _ hm, hx⟩
    | touch q p =>
      obtain ⟨q', p', recs', hm, hx⟩ := mem_recordsOfE (l := es) h
      exact ⟨q', p', recs', List.mem_cons_of_mem _ hm, hx⟩
    | delete q p =>
      obtain ⟨q', p', recs', hm, hx⟩ := mem_recordsOfE (l := es) h
      exact ⟨q', p', recs', List.mem_cons_of_mem _ hm, hx⟩

theorem recordsOfE_of_mem {x : Bytes × Nat × Bytes} {q : Bytes} {p : Nat} {recs : List (Nat × Bytes)} :
    ∀ {l : List Entry}, Entry.append q p recs ∈ l → x ∈ recs.map (fun r => (q, r.1, r.2)) → x ∈ recordsOfE l
  | [], h, _ => by cases h
  | e :: es, h, hx => by
    rcases List.mem_cons.mp h with h | h
    · subst h
      simp only [recordsOfE, List.mem_append]
      exact Or.inl hx
    · have := recordsOfE_of_mem (l := es) h hx
      cases e <;> simp only [recordsOfE, List.mem_append] <;> first | exact Or.inr this | exact this

/-- records of `append` entries: only membership of the entries matters -/
theorem recordsOfE_subset {l' l : List Entry} (h : ∀ e ∈ l', e ∈ l) : ∀ x ∈ recordsOfE l', x ∈ recordsOfE l := by
  intro x hx
  obtain ⟨q, p, recs, hm, hx'⟩ := mem_recordsOfE hx
  exact recordsOfE_of_mem (h _ hm) hx'

theorem appended_subset {J : List JE} {W : List Entry} (hJW : ∀ j ∈ J, j.e ∈ W) :
    ∀ x ∈ C08V.appended J, x ∈ recordsOfE W := by
  intro x hx
  unfold C08V.appended at hx
  rw [recordsOf_eq, List.map_map] at hx
  apply recordsOfE_subset _ x hx
  intro e he
  obtain ⟨j, hj, rfl⟩ := List.mem_map.mp he
  exact hJW j hj

/-- **C08_crash_genuine.** -/
theorem C08_crash_genuine (g : Geom) (hB : g.B ≤ 65542) (cap : Nat) (l : Log) (img : Image) (b : BufSt)
    (W : List Entry) (h : C02W.ReachXW g cap l img b W) :
    ∃ J : List JE, L.CInvX g l J (C02U.flushDisk img b) ∧ (∀ j ∈ J, C07.WF j.e) ∧ (∀ j ∈ J, j.e ∈ W) ∧
      ∀ W', SameShape (C02U.flushDisk img b) W' → NoAccidentalFrameImgX g (C02U.flushDisk img b) W' →
      ∀ (policy : Policy) (order : List Bytes) (r : Recovered), recover g W' policy order none = .ok r →
        Genuine J (l.files.headD 0) r ∧
        ∀ kv ∈ r.log.queues, ∀ rec ∈ kv.2.recs, (kv.1, rec.pos, rec.payload) ∈ recordsOfE W := by
  obtain ⟨J, hc, hw, hJW⟩ := C02W.reachXW_journal g hB cap h
  refine ⟨J, hc, hw, hJW, ?_⟩
  intro W' hshape hN policy order r hr
  obtain ⟨init, t, x, res, ais, lead, gs, hx⟩ := hc.disk
  obtain ⟨L, hL1, hL2⟩ := diskX_delivered g hx.diskX hw W' hshape hN policy order r hr
  have hG := genuine_of_sublist g W' policy order r hr J _ L hL1 hL2
  exact ⟨hG, fun kv hkv rec hrec => appended_subset hJW _ (hG.2.1 kv hkv rec hrec)⟩

/-- **C08_crash_restart.** No damage, no collision hypothesis. -/
theorem C08_crash_restart (g : Geom) (hB : g.B ≤ 65542) (cap : Nat) (l : Log) (img : Image) (b : BufSt)
    (W : List Entry) (h : C02W.ReachXW g cap l img b W) :
    ∀ (policy : Policy) (order : List Bytes) (r : Recovered),
      recover g (C02U.flushDisk img b) policy order none = .ok r →
      C05.Inv r.log ∧
      ∀ kv ∈ r.log.queues, ∀ rec ∈ kv.2.recs, (kv.1, rec.pos, rec.payload) ∈ recordsOfE W := by
  intro policy order r hr
  refine ⟨C08.recover_sorted g _ policy order none r hr, ?_⟩
  obtain ⟨J, hc, hw, hJW⟩ := C02W.reachXW_journal g hB cap h
  obtain ⟨init, t, x, res, ais, lead, gs, hx⟩ := hc.disk
  obtain ⟨qs, hrep, _, _⟩ := hc.jinv.rep
  obtain ⟨J', lp, io, _, _, _, _, _, _, _, hrec, _, hJ', _, _, hrel, _⟩ :=
    L.read_diskX g hB hx.diskX hw qs hrep policy
  have hq : r.log.queues = lp.queues := by
    rw [Rec.recover_none, hrec] at hr
    simp only [Except.ok.injEq] at hr
    subst hr
    simp only [runGc_queues]
  intro kv hkv rec hrec'
  rw [hq] at hkv
  have hJ'ge : ∀ j ∈ J', l.files.headD 0 ≤ j.loc := by
    intro j hj
    obtain ⟨b', hb', _, h2, _, _⟩ := hrel.mem_left j hj
    have := (List.mem_filter.mp hb').2
    rw [h2]; simpa using this
  rw [replayJ_ge _ J' [] hJ'ge] at hJ'
  have h1 := C08.replay_records_subset _ _ hJ' kv hkv rec hrec'
  rw [recordsOf_eq, List.map_map] at h1
  apply recordsOfE_subset _ _ h1
  intro e he
  obtain ⟨j, hj, rfl⟩ := List.mem_map.mp he
  obtain ⟨b', hb', h1', _⟩ := hrel.mem_left j hj
  show j.e ∈ W
  rw [h1']
  exact hJW b' (List.mem_filter.mp hb').1

/-- the same on `C02U.ReachX` -/
theorem C08_crash_genuine_reachX (g : Geom) (hB : g.B ≤ 65542) (cap : Nat) (l : Log) (img : Image) (b : BufSt)
    (h : C02U.ReachX g cap l img b) :
    ∃ W : List Entry, C02W.ReachXW g cap l img b W ∧
    ∃ J : List JE, L.CInvX g l J (C02U.flushDisk img b) ∧ (∀ j ∈ J, C07.WF j.e) ∧ (∀ j ∈ J, j.e ∈ W) ∧
      ∀ W', SameShape (C02U.flushDisk img b) W' → NoAccidentalFrameImgX g (C02U.flushDisk img b) W' →
      ∀ (policy : Policy) (order : List Bytes) (r : Recovered), recover g W' policy order none = .ok r →
        Genuine J (l.files.headD 0) r ∧
        ∀ kv ∈ r.log.queues, ∀ rec ∈ kv.2.recs, (kv.1, rec.pos, rec.payload) ∈ recordsOfE W := by
  obtain ⟨W, hW⟩ := C02W.ReachXW.ofReachX h
  exact ⟨W, hW, C08_crash_genuine g hB cap l img b W hW⟩

theorem C08_crash_restart_reachX (g : Geom) (hB : g.B ≤ 65542) (cap : Nat) (l : Log) (img : Image) (b : BufSt)
    (h : C02U.ReachX g cap l img b) :
    ∃ W : List Entry, C02W.ReachXW g cap l img b W ∧
    ∀ (policy : Policy) (order : List Bytes) (r : Recovered),
      recover g (C02U.flushDisk img b) policy order none = .ok r →
      C05.Inv r.log ∧
      ∀ kv ∈ r.log.queues, ∀ rec ∈ kv.2.recs, (kv.1, rec.pos, rec.payload) ∈ recordsOfE W := by
  obtain ⟨W, hW⟩ := C02W.ReachXW.ofReachX h
  exact ⟨W, hW, C08_crash_restart g hB cap l img b W hW⟩

end MRL.C08X
